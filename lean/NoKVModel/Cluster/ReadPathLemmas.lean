/-
Invariant of the read-path system and its preservation.
-/
import NoKVModel.Cluster.ReadPath

namespace NoKV.Cluster

structure RInv (σ : RSys) : Prop where
  app_le : ∀ s, σ.applied s ≤ σ.commit
  ack_le : ∀ i ∈ σ.acked, i ≤ σ.commit
  rd_before : ∀ r, ∀ i ∈ (σ.rd r).ackedBefore, (σ.rd r).pc ≠ .idle → i ≤ σ.commit
  rd_idx : ∀ r, (σ.rd r).pc = .indexed ∨ (σ.rd r).pc = .waited ∨ (σ.rd r).pc = .done →
    ∀ i ∈ (σ.rd r).ackedBefore, i ≤ (σ.rd r).idx
  rd_wait : ∀ r, (σ.rd r).pc = .waited → (σ.rd r).idx ≤ σ.applied (σ.rd r).store
  rd_done : ∀ r, (σ.rd r).pc = .done → (σ.rd r).idx ≤ (σ.rd r).result

theorem rinv_init : RInv {} := by
  refine ⟨by simp, by simp, by simp, ?_, by simp, by simp⟩
  intro r h; simp at h

theorem setRd_same (σ : RSys) (r : Nat) (x : Rd) : (σ.setRd r x).rd r = x := by simp [RSys.setRd]
theorem setRd_other (σ : RSys) {r q : Nat} (x : Rd) (h : q ≠ r) : (σ.setRd r x).rd q = σ.rd q := by
  simp [RSys.setRd, h]

theorem rinv_step {c : ReadCfg} (hc : c.Good) {σ : RSys} (hi : RInv σ) (e : Ev)
    (hf : flowOk c σ e) (hr : raftOk σ e) (hx : readIndexOk σ e) : RInv (rstep σ e) := by
  obtain ⟨hc1, hc2, _⟩ := hc
  cases e with
  | commit n =>
    simp only [raftOk] at hr
    refine ⟨?_, ?_, ?_, hi.rd_idx, hi.rd_wait, hi.rd_done⟩
    · intro s; exact Nat.le_trans (hi.app_le s) hr
    · intro i h; exact Nat.le_trans (hi.ack_le i h) hr
    · intro r i h hp; exact Nat.le_trans (hi.rd_before r i h hp) hr
  | applyOne s =>
    simp only [raftOk] at hr
    refine ⟨?_, hi.ack_le, hi.rd_before, hi.rd_idx, ?_, hi.rd_done⟩
    · intro t
      simp only [rstep]
      by_cases h : t = s
      · subst h; simp; omega
      · simp [h]; exact hi.app_le t
    · intro r hp
      have := hi.rd_wait r hp
      simp only [rstep]
      by_cases h : (σ.rd r).store = s
      · simp [h]; rw [h] at this; omega
      · simp [h]; exact this
  | ack i =>
    obtain ⟨s, hs⟩ := hf
    refine ⟨hi.app_le, ?_, hi.rd_before, hi.rd_idx, hi.rd_wait, hi.rd_done⟩
    intro j hj
    simp only [rstep, List.mem_cons] at hj
    rcases hj with rfl | hj
    · exact Nat.le_trans hs (hi.app_le s)
    · exact hi.ack_le j hj
  | rdStart r s =>
    refine ⟨hi.app_le, hi.ack_le, ?_, ?_, ?_, ?_⟩
    · intro q i h hp
      by_cases hq : q = r
      · subst hq; simp only [rstep, setRd_same] at h; exact hi.ack_le i h
      · simp only [rstep, setRd_other _ _ hq] at h hp; exact hi.rd_before q i h hp
    · intro q hp
      by_cases hq : q = r
      · subst hq; simp [rstep, setRd_same] at hp
      · simp only [rstep, setRd_other _ _ hq] at hp ⊢; exact hi.rd_idx q hp
    · intro q hp
      by_cases hq : q = r
      · subst hq; simp [rstep, setRd_same] at hp
      · simp only [rstep, setRd_other _ _ hq] at hp ⊢; exact hi.rd_wait q hp
    · intro q hp
      by_cases hq : q = r
      · subst hq; simp [rstep, setRd_same] at hp
      · simp only [rstep, setRd_other _ _ hq] at hp ⊢; exact hi.rd_done q hp
  | rdIndex r idx =>
    simp only [flowOk] at hf
    simp only [readIndexOk] at hx
    refine ⟨hi.app_le, hi.ack_le, ?_, ?_, ?_, ?_⟩
    · intro q i h hp
      by_cases hq : q = r
      · subst hq; simp only [rstep, setRd_same] at h
        exact hi.rd_before q i h (by simp [hf])
      · simp only [rstep, setRd_other _ _ hq] at h hp; exact hi.rd_before q i h hp
    · intro q hp
      by_cases hq : q = r
      · subst hq; simp only [rstep, setRd_same]
        intro i h
        exact Nat.le_trans (hi.rd_before q i h (by simp [hf])) hx
      · simp only [rstep, setRd_other _ _ hq] at hp ⊢; exact hi.rd_idx q hp
    · intro q hp
      by_cases hq : q = r
      · subst hq; simp [rstep, setRd_same] at hp
      · simp only [rstep, setRd_other _ _ hq] at hp ⊢; exact hi.rd_wait q hp
    · intro q hp
      by_cases hq : q = r
      · subst hq; simp [rstep, setRd_same] at hp
      · simp only [rstep, setRd_other _ _ hq] at hp ⊢; exact hi.rd_done q hp
  | rdWait r =>
    simp only [flowOk, hc1, if_true] at hf
    obtain ⟨hpc, hw⟩ := hf
    have hw := hw hc2
    refine ⟨hi.app_le, hi.ack_le, ?_, ?_, ?_, ?_⟩
    · intro q i h hp
      by_cases hq : q = r
      · subst hq; simp only [rstep, setRd_same] at h
        exact hi.rd_before q i h (by simp [hpc])
      · simp only [rstep, setRd_other _ _ hq] at h hp; exact hi.rd_before q i h hp
    · intro q hp
      by_cases hq : q = r
      · subst hq; simp only [rstep, setRd_same]
        exact hi.rd_idx q (Or.inl hpc)
      · simp only [rstep, setRd_other _ _ hq] at hp ⊢; exact hi.rd_idx q hp
    · intro q hp
      by_cases hq : q = r
      · subst hq; simp only [rstep, setRd_same]; exact hw
      · simp only [rstep, setRd_other _ _ hq] at hp ⊢; exact hi.rd_wait q hp
    · intro q hp
      by_cases hq : q = r
      · subst hq; simp [rstep, setRd_same] at hp
      · simp only [rstep, setRd_other _ _ hq] at hp ⊢; exact hi.rd_done q hp
  | rdExec r =>
    simp only [flowOk] at hf
    refine ⟨hi.app_le, hi.ack_le, ?_, ?_, ?_, ?_⟩
    · intro q i h hp
      by_cases hq : q = r
      · subst hq; simp only [rstep, setRd_same] at h
        exact hi.rd_before q i h (by simp [hf])
      · simp only [rstep, setRd_other _ _ hq] at h hp; exact hi.rd_before q i h hp
    · intro q hp
      by_cases hq : q = r
      · subst hq; simp only [rstep, setRd_same]
        exact hi.rd_idx q (Or.inr (Or.inl hf))
      · simp only [rstep, setRd_other _ _ hq] at hp ⊢; exact hi.rd_idx q hp
    · intro q hp
      by_cases hq : q = r
      · subst hq; simp [rstep, setRd_same] at hp
      · simp only [rstep, setRd_other _ _ hq] at hp ⊢; exact hi.rd_wait q hp
    · intro q hp
      by_cases hq : q = r
      · subst hq; simp only [rstep, setRd_same]; exact hi.rd_wait q hf
      · simp only [rstep, setRd_other _ _ hq] at hp ⊢; exact hi.rd_done q hp

theorem rinv_run {c : ReadCfg} (hc : c.Good) (evs : List Ev) :
    ∀ {σ : RSys}, RInv σ → Along (flowOk c) σ evs → Along raftOk σ evs → Along readIndexOk σ evs →
      RInv (rrun σ evs) := by
  induction evs with
  | nil => intro σ hi _ _ _; exact hi
  | cons e es ih =>
    intro σ hi hf hr hx
    exact ih (rinv_step hc hi e hf.1 hr.1 hx.1) hf.2 hr.2 hx.2

end NoKV.Cluster

/-
Cluster engine, part 2: the admission decision of `raftstore/store/command_service.go:
validateCommand`, shared by `ProposeCommand` and `ReadCommand`.

The epoch and key-range clauses are inputs here (`epochOk`, `keysOk`): their logic is the
subject of C25 (`NoKVModel/Region/Cmd.lean`).  What C23 needs is the order of the clauses and
the leader test `status.RaftState != myraft.StateLeader`.
-/
import NoKVModel.Base.Cfg

namespace NoKV.Cluster

/-- etcd/raft `StateType`, with its numeric values -/
inductive RaftState where
  | follower | candidate | leader | preCandidate
  deriving DecidableEq, Repr, Inhabited

def RaftState.toNat : RaftState → Nat
  | .follower => 0 | .candidate => 1 | .leader => 2 | .preCandidate => 3

def RaftState.ofString? : String → Option RaftState
  | "follower" => some .follower | "candidate" => some .candidate
  | "leader" => some .leader | "precandidate" => some .preCandidate | _ => none

structure ValCfg where
  /-- operator of the test that sends the request away: `status.RaftState <op> <const>` -/
  leaderOp : CmpOp
  /-- the constant it is compared with -/
  leaderConst : RaftState
  /-- a response produced by validation is returned to the client before anything else happens -/
  rejectReturns : Bool
  deriving DecidableEq, Repr

def ValCfg.good : ValCfg := ⟨.ne, .leader, true⟩

def ValCfg.Good (c : ValCfg) : Prop := c.leaderOp = .ne ∧ c.leaderConst = .leader ∧ c.rejectReturns = true
instance ValCfg.decGood (c : ValCfg) : Decidable c.Good := by unfold ValCfg.Good; exact inferInstance

/-- what `validateCommand` sees -/
structure ValIn where
  regionId : Nat
  /-- the store knows the region -/
  metaFound : Bool
  epochOk : Bool
  keysOk : Bool
  /-- the store hosts a peer of the region -/
  peerPresent : Bool
  state : RaftState
  deriving DecidableEq, Repr

inductive Outcome where
  | errRegionId      -- plain error: region id missing
  | epochNotMatch    -- RegionError{EpochNotMatch}: unknown region, stale epoch, key outside, no peer
  | notLeader        -- RegionError{NotLeader}
  | ok               -- the request goes on to raft
  deriving DecidableEq, Repr

def Outcome.toString : Outcome → String
  | .errRegionId => "err=regionid" | .epochNotMatch => "epoch" | .notLeader => "notleader" | .ok => "served"

def sendsAway (c : ValCfg) (st : RaftState) : Bool := c.leaderOp.nat st.toNat c.leaderConst.toNat

def validateCommand (c : ValCfg) (i : ValIn) : Outcome :=
  if i.regionId = 0 then .errRegionId
  else if i.metaFound = false then .epochNotMatch
  else if i.epochOk = false then .epochNotMatch
  else if i.keysOk = false then .epochNotMatch
  else if i.peerPresent = false then .epochNotMatch
  else if sendsAway c i.state = true then .notLeader
  else .ok

/-- does the public entry point go on to raft (propose / ReadIndex)? -/
def proceeds (c : ValCfg) (i : ValIn) : Bool :=
  match validateCommand c i with
  | .ok => true
  | _ => !c.rejectReturns

end NoKV.Cluster

/-
Cluster engine: the configuration record of the service layer (C23), one field per model.
-/
import NoKVModel.Cluster.Validate
import NoKVModel.Cluster.ReadPath

namespace NoKV.Cluster

structure SvcCfg where
  val : ValCfg
  read : ReadCfg
  deriving DecidableEq, Repr

def SvcCfg.good : SvcCfg := ⟨ValCfg.good, ReadCfg.good⟩

def SvcCfg.ValGood (c : SvcCfg) : Prop := c.val.Good
instance SvcCfg.decValGood (c : SvcCfg) : Decidable c.ValGood := by unfold SvcCfg.ValGood; exact inferInstance

def SvcCfg.ReadGood (c : SvcCfg) : Prop := c.read.Good
instance SvcCfg.decReadGood (c : SvcCfg) : Decidable c.ReadGood := by unfold SvcCfg.ReadGood; exact inferInstance

/-- LinearizableRead is called but the applied index is not awaited -/
def SvcCfg.NoWait (c : SvcCfg) : Prop :=
  c.read.readIndexFirst = true ∧ c.read.waitsApplied = false ∧ c.read.quorumPerRead = true
instance SvcCfg.decNoWait (c : SvcCfg) : Decidable c.NoWait := by unfold SvcCfg.NoWait; exact inferInstance

end NoKV.Cluster

/-
Cluster engine, part 3: the read path `ReadCommand` = validateCommand → LinearizableRead
(raft ReadIndex) → WaitApplied(index) → applier, as a small-step system next to the events
that matter for it: raft advancing the commit index, stores applying committed entries,
writes being acknowledged.

Writes are identified with their log index (1-based); the state a store serves is the fold of
the first `applied s` entries of the (agreed) log, so "the read reflects write i" is
`i ≤ (applied count at the moment the applier ran)`.

Assumed, as named hypotheses over a run (never axioms):
  * `RaftSafety`        commit index never decreases; a store only applies committed entries;
  * `ReadIndexContract` the index returned by ReadIndex is at least the commit index at the
                        moment it was requested.
NoKV's own control flow is `Flow`: the order of the steps of a read as extracted from
`ReadCommand`, `WaitApplied` returning only when the store has applied the index, and a
proposal being acknowledged only after its entry ran through the applier of some store.
-/
namespace NoKV.Cluster

structure ReadCfg where
  /-- `LinearizableRead` is called before the applier -/
  readIndexFirst : Bool
  /-- between the two the read waits until the serving store has applied the confirmed index:
  `ReadCommand` calls `WaitApplied(ctx, index)` with the index `LinearizableRead` returned and
  checks its error (fact `read.waitsApplied`), and `Peer.WaitApplied` waits on the apply
  watermark for exactly that index - no clamp to what the apply loop has begun so far (facts
  `peer.waitAppliedExact`, `peer.waitAppliedUsesMark`).  This is the `rdWait` step of `flowOk`:
  it may only be taken when `idx ≤ applied store`.  It carries weight because `handleReady`
  releases readers before it begins to apply the entries of the same Ready (fact
  `peer.readyOrder`) and raft may page a commit backlog over several Readys. -/
  waitsApplied : Bool
  /-- what entitles us to assume `ReadIndexContract` of etcd/raft at all: every
  `LinearizableRead` issues a `RawNode.ReadIndex` of its own (fresh request context, no sharing
  of a round that is already in flight) and the raft nodes run with `ReadOnlySafe` (the index is
  only handed out after a heartbeat quorum acknowledged that very request).  Facts
  `peer.readIndexPerRead`, `peer.readOnlyOption`, `peer.readIndexViaRaft`. -/
  quorumPerRead : Bool
  deriving DecidableEq, Repr

def ReadCfg.good : ReadCfg := ⟨true, true, true⟩
def ReadCfg.Good (c : ReadCfg) : Prop :=
  c.readIndexFirst = true ∧ c.waitsApplied = true ∧ c.quorumPerRead = true
instance ReadCfg.decGood (c : ReadCfg) : Decidable c.Good := by unfold ReadCfg.Good; exact inferInstance

inductive Pc where
  | idle | started | indexed | waited | done
  deriving DecidableEq, Repr

structure Rd where
  pc : Pc := .idle
  store : Nat := 0
  /-- log indices of the writes acknowledged before this read was issued -/
  ackedBefore : List Nat := []
  idx : Nat := 0
  /-- number of log entries the serving store had applied when the applier ran -/
  result : Nat := 0
  deriving Repr

structure RSys where
  commit : Nat := 0
  applied : Nat → Nat := fun _ => 0
  acked : List Nat := []
  rd : Nat → Rd := fun _ => {}

inductive Ev where
  | commit (n : Nat)            -- raft: the commit index is now n
  | applyOne (s : Nat)          -- store s applies its next entry
  | ack (i : Nat)               -- the proposal whose entry has index i returns to its client
  | rdStart (r s : Nat)         -- ReadCommand r on store s passed validateCommand
  | rdIndex (r idx : Nat)       -- LinearizableRead returned idx
  | rdWait (r : Nat)            -- WaitApplied returned
  | rdExec (r : Nat)            -- the applier ran the read
  deriving Repr

def RSys.setRd (σ : RSys) (r : Nat) (x : Rd) : RSys := { σ with rd := fun q => if q = r then x else σ.rd q }

def rstep (σ : RSys) : Ev → RSys
  | .commit n => { σ with commit := n }
  | .applyOne s => { σ with applied := fun t => if t = s then σ.applied s + 1 else σ.applied t }
  | .ack i => { σ with acked := i :: σ.acked }
  | .rdStart r s => σ.setRd r { pc := .started, store := s, ackedBefore := σ.acked }
  | .rdIndex r idx => σ.setRd r { σ.rd r with pc := .indexed, idx := idx }
  | .rdWait r => σ.setRd r { σ.rd r with pc := .waited }
  | .rdExec r => σ.setRd r { σ.rd r with pc := .done, result := σ.applied (σ.rd r).store }

def rrun (σ : RSys) (evs : List Ev) : RSys := evs.foldl rstep σ

/-- a predicate on (state, event) holds at every step of a run -/
def Along (P : RSys → Ev → Prop) : RSys → List Ev → Prop
  | _, [] => True
  | σ, e :: es => P σ e ∧ Along P (rstep σ e) es

/-- etcd/raft, assumed -/
def raftOk (σ : RSys) : Ev → Prop
  | .commit n => σ.commit ≤ n
  | .applyOne s => σ.applied s < σ.commit
  | _ => True

/-- etcd/raft ReadIndex, assumed -/
def readIndexOk (σ : RSys) : Ev → Prop
  | .rdIndex _ idx => σ.commit ≤ idx
  | _ => True

/-- NoKV's control flow, read off the code (facts `read.*`, and C22's `got ⊆ alog` for `ack`) -/
def flowOk (c : ReadCfg) (σ : RSys) : Ev → Prop
  | .ack i => ∃ s, i ≤ σ.applied s
  | .rdStart r _ => (σ.rd r).pc = .idle
  | .rdIndex r _ => (σ.rd r).pc = .started
  | .rdWait r => (σ.rd r).pc = (if c.readIndexFirst then .indexed else .started) ∧
      (c.waitsApplied = true → (σ.rd r).idx ≤ σ.applied (σ.rd r).store)
  | .rdExec r => (σ.rd r).pc = .waited
  | _ => True

structure RaftSafetyR (σ : RSys) (evs : List Ev) : Prop where
  ok : Along raftOk σ evs

/-- etcd/raft's ReadIndex contract.  It is only *assumed* for configurations that justify it
(`quorumPerRead`): with lease-based reads, or with readers attached to a round started before
they arrived, the index a reader receives was not confirmed after that reader's request. -/
structure ReadIndexContract (c : ReadCfg) (σ : RSys) (evs : List Ev) : Prop where
  ok : c.quorumPerRead = true → Along readIndexOk σ evs

structure Flow (c : ReadCfg) (σ : RSys) (evs : List Ev) : Prop where
  ok : Along (flowOk c) σ evs

end NoKV.Cluster

/-
The per-key invariant of the three column families and its preservation by every request
(`prewrite.conflictOp = ge` is the one decision of the code it needs), plus the two stable
"this transaction is over on this key" predicates used by C18 and C19.
-/
import NoKVModel.Perc.Steps

namespace NoKV.Perc

/-- the default CF holds what a record/lock of kind `k` started at `st` needs -/
def HasData (defs : List DRec) (st : Nat) (k : Kind) : Prop :=
  ∃ d ∈ defs, d.ts = st ∧ (k = .put → ∃ v, d.val = some v ∧ v ≠ []) ∧ (k ≠ .put → d.val = none)

structure KInv (ks : KS) : Prop where
  /-- write CF: one record per commit ts, newest first -/
  sw : Desc WRec.ts ks.writes
  /-- default CF: one entry per start ts, newest first -/
  sd : Desc DRec.ts ks.defs
  /-- a rollback record sits at its start ts -/
  rb : ∀ w ∈ ks.writes, w.kind = .rollback → w.ts = w.start
  /-- a commit record sits above its start ts -/
  gt : ∀ w ∈ ks.writes, w.kind ≠ .rollback → w.start < w.ts
  /-- at most one write record per start ts -/
  uniq : ∀ a ∈ ks.writes, ∀ b ∈ ks.writes, a.start = b.start → a = b
  /-- a lock at `start` ⇒ no write record with that start ts -/
  lockFresh : ∀ l, ks.lock = some l → ∀ w ∈ ks.writes, w.start ≠ l.ts
  /-- a lock has its prewritten value (or tombstone) in the default CF -/
  lockData : ∀ l, ks.lock = some l → l.kind ≠ .rollback ∧ HasData ks.defs l.ts l.kind
  /-- a commit record of kind Put has its value at its start ts; Delete/Lock have a tombstone -/
  data : ∀ w ∈ ks.writes, w.kind ≠ .rollback → HasData ks.defs w.start w.kind
  /-- every commit record is below the start ts of the current lock -/
  lockAbove : ∀ l, ks.lock = some l → ∀ w ∈ ks.writes, w.kind ≠ .rollback → w.ts < l.ts
  /-- committed transactions of one key have disjoint [start, commit] intervals -/
  disjoint : ∀ a ∈ ks.writes, ∀ b ∈ ks.writes, a.kind ≠ .rollback → b.kind ≠ .rollback → a ≠ b →
    a.ts < b.start ∨ b.ts < a.start

theorem KInv.le {ks : KS} (h : KInv ks) : ∀ w ∈ ks.writes, w.start ≤ w.ts := by
  intro w hw
  by_cases hk : w.kind = .rollback
  · have := h.rb w hw hk; omega
  · have := h.gt w hw hk; omega

theorem KInv.empty : KInv KS.empty :=
  { sw := Desc.nil _
    sd := Desc.nil _
    rb := by intro w hw; cases hw
    gt := by intro w hw; cases hw
    uniq := by intro a ha; cases ha
    lockFresh := by intro l hl; cases hl
    lockData := by intro l hl; cases hl
    data := by intro w hw; cases hw
    lockAbove := by intro l hl; cases hl
    disjoint := by intro a ha; cases ha }

theorem KInv.byStart_none {ks : KS} (h : KInv ks) {st : Nat} (hb : byStart st ks.writes = none) :
    ∀ w ∈ ks.writes, w.start ≠ st := Perc.byStart_none h.le h.sw hb

theorem KInv.byStart_mem {ks : KS} (h : KInv ks) {w : WRec} (hw : w ∈ ks.writes) :
    byStart w.start ks.writes = some w := byStart_of_mem h.le h.sw h.uniq hw

theorem hasData_ins {defs : List DRec} (_hd : Desc DRec.ts defs) {st : Nat} {k : Kind} (r : DRec)
    (h : HasData defs st k) (hne : st ≠ r.ts) : HasData (insD r defs) st k := by
  obtain ⟨d, hd1, hd2, hd3⟩ := h
  exact ⟨d, mem_ins_of_mem _ r defs d hd1 (by omega), hd2, hd3⟩

/-! ### preservation, one lemma per transition -/

theorem KInv.prewriteK {c : PercCfg} (hc : c.conflictOp = .ge) (h : PwHdr) (m : Mut) (ks : KS)
    (hv : m.op = .put → m.val ≠ []) (hi : KInv ks) : KInv (prewriteK c h m ks).1 := by
  rcases prewriteK_cases c hc h m ks hi.sw with ⟨h1, _⟩ | ⟨K, V, hKV, _, hall, heq⟩
  · rw [h1]; exact hi
  · rw [heq]
    have hKnr : K ≠ .rollback := by
      rcases hKV with ⟨_, hK, _⟩ | ⟨_, hK, _⟩ | ⟨_, hK, _⟩ <;> rw [hK] <;> decide
    have hnew : HasData (insD ⟨h.start, V⟩ ks.defs) h.start K := by
      refine ⟨⟨h.start, V⟩, mem_ins_self _ _ _, rfl, ?_, ?_⟩
      · intro hK
        rcases hKV with ⟨hop, _, hV⟩ | ⟨_, hK', _⟩ | ⟨_, hK', _⟩
        · exact ⟨m.val, hV, hv hop⟩
        · rw [hK'] at hK; cases hK
        · rw [hK'] at hK; cases hK
      · intro hK
        rcases hKV with ⟨_, hK', _⟩ | ⟨_, _, hV⟩ | ⟨_, _, hV⟩
        · exact absurd hK' hK
        · exact hV
        · exact hV
    have hstart : ∀ w ∈ ks.writes, w.start ≠ h.start := by
      intro w hw
      have h1 := hall w hw
      have h2 := hi.le w hw
      omega
    exact
      { sw := hi.sw
        sd := ins_desc _ _ _ hi.sd
        rb := hi.rb
        gt := hi.gt
        uniq := hi.uniq
        lockFresh := by
          intro l hl w hw
          simp only [pwState, Option.some.injEq] at hl
          subst hl
          exact hstart w hw
        lockData := by
          intro l hl
          simp only [pwState, Option.some.injEq] at hl
          subst hl
          exact ⟨hKnr, hnew⟩
        data := by
          intro w hw hk
          exact hasData_ins hi.sd _ (hi.data w hw hk) (hstart w hw)
        lockAbove := by
          intro l hl w hw _
          simp only [pwState, Option.some.injEq] at hl
          subst hl
          exact hall w hw
        disjoint := hi.disjoint }

theorem KInv.commitK {c : PercCfg} (key : Bytes) (l : Lock) (ct : Nat) (ks : KS)
    (hl : ks.lock = some l) (hlt : l.ts < ct) (hi : KInv ks) : KInv (commitK c key l ct ks).1 := by
  rcases commitK_cases c key l ct ks with h1 | ⟨w, hb, _⟩ | ⟨_, heq⟩
  · rw [h1]; exact hi
  · obtain ⟨hw, hs⟩ := byStart_some hb
    exact absurd hs (hi.lockFresh l hl w hw)
  · rw [heq]
    obtain ⟨hknr, hdata⟩ := hi.lockData l hl
    have hmem : ∀ y ∈ (cmState l ct ks).writes, y = ⟨ct, l.ts, l.kind⟩ ∨ (y ∈ ks.writes ∧ y.ts ≠ ct) := by
      intro y hy
      exact mem_ins_ts WRec.ts _ _ hi.sw y hy
    exact
      { sw := ins_desc _ _ _ hi.sw
        sd := hi.sd
        rb := by
          intro w hw hk
          rcases hmem w hw with rfl | ⟨hw', _⟩
          · exact absurd hk hknr
          · exact hi.rb w hw' hk
        gt := by
          intro w hw hk
          rcases hmem w hw with rfl | ⟨hw', _⟩
          · exact hlt
          · exact hi.gt w hw' hk
        uniq := by
          intro a ha b hb hab
          rcases hmem a ha with rfl | ⟨ha', _⟩ <;> rcases hmem b hb with rfl | ⟨hb', _⟩
          · rfl
          · exact absurd hab.symm (hi.lockFresh l hl b hb')
          · exact absurd hab (hi.lockFresh l hl a ha')
          · exact hi.uniq a ha' b hb' hab
        lockFresh := by intro l' hl'; cases hl'
        lockData := by intro l' hl'; cases hl'
        data := by
          intro w hw hk
          rcases hmem w hw with rfl | ⟨hw', _⟩
          · exact hdata
          · exact hi.data w hw' hk
        lockAbove := by intro l' hl'; cases hl'
        disjoint := by
          intro a ha b hb hka hkb hab
          rcases hmem a ha with rfl | ⟨ha', _⟩ <;> rcases hmem b hb with rfl | ⟨hb', _⟩
          · exact absurd rfl hab
          · exact Or.inr (hi.lockAbove l hl b hb' hkb)
          · exact Or.inl (hi.lockAbove l hl a ha' hka)
          · exact hi.disjoint a ha' b hb' hka hkb hab }

theorem KInv.rollbackK {c : PercCfg} (st : Nat) (ks : KS) (hi : KInv ks) : KInv (rollbackK c st ks) := by
  rcases rollbackK_cases c st ks with ⟨_, h1⟩ | ⟨hb, heq⟩
  · rw [h1]; exact hi
  · rw [heq]
    have hno := hi.byStart_none hb
    have hmem : ∀ y ∈ (rbState c st ks).writes, y = ⟨st, st, .rollback⟩ ∨ (y ∈ ks.writes ∧ y.ts ≠ st) := by
      intro y hy
      exact mem_ins_ts WRec.ts _ _ hi.sw y hy
    have hlock : ∀ l', (rbState c st ks).lock = some l' → ks.lock = some l' ∧ l'.ts ≠ st := by
      intro l' hl'
      simp only [rbState] at hl'
      rcases lockAfterRollback_cases c st ks.lock with h0 | ⟨h0, h1⟩
      · rw [h0] at hl'; cases hl'
      · rw [h0] at hl'; exact ⟨hl', h1 l' hl'⟩
    exact
      { sw := ins_desc _ _ _ hi.sw
        sd := ins_desc _ _ _ hi.sd
        rb := by
          intro w hw hk
          rcases hmem w hw with rfl | ⟨hw', _⟩
          · rfl
          · exact hi.rb w hw' hk
        gt := by
          intro w hw hk
          rcases hmem w hw with rfl | ⟨hw', _⟩
          · exact absurd rfl hk
          · exact hi.gt w hw' hk
        uniq := by
          intro a ha b hb' hab
          rcases hmem a ha with rfl | ⟨ha', _⟩ <;> rcases hmem b hb' with rfl | ⟨hb'', _⟩
          · rfl
          · exact absurd hab.symm (hno b hb'')
          · exact absurd hab (hno a ha')
          · exact hi.uniq a ha' b hb'' hab
        lockFresh := by
          intro l' hl' w hw
          obtain ⟨h1, h2⟩ := hlock l' hl'
          rcases hmem w hw with rfl | ⟨hw', _⟩
          · exact fun h => h2 h.symm
          · exact hi.lockFresh l' h1 w hw'
        lockData := by
          intro l' hl'
          obtain ⟨h1, h2⟩ := hlock l' hl'
          obtain ⟨h3, h4⟩ := hi.lockData l' h1
          exact ⟨h3, hasData_ins hi.sd _ h4 h2⟩
        data := by
          intro w hw hk
          rcases hmem w hw with rfl | ⟨hw', _⟩
          · exact absurd rfl hk
          · exact hasData_ins hi.sd _ (hi.data w hw' hk) (hno w hw')
        lockAbove := by
          intro l' hl' w hw hk
          obtain ⟨h1, _⟩ := hlock l' hl'
          rcases hmem w hw with rfl | ⟨hw', _⟩
          · exact absurd rfl hk
          · exact hi.lockAbove l' h1 w hw' hk
        disjoint := by
          intro a ha b hb' hka hkb hab
          rcases hmem a ha with rfl | ⟨ha', _⟩ <;> rcases hmem b hb' with rfl | ⟨hb'', _⟩
          · exact absurd rfl hab
          · exact absurd rfl hka
          · exact absurd rfl hkb
          · exact hi.disjoint a ha' b hb'' hka hkb hab }

theorem KInv.push (l : Lock) (m : Nat) (ks : KS) (hl : ks.lock = some l) (hi : KInv ks) : KInv (pushState l m ks) :=
  { sw := hi.sw, sd := hi.sd, rb := hi.rb, gt := hi.gt, uniq := hi.uniq
    lockFresh := by
      intro l' hl' w hw
      simp only [pushState, Option.some.injEq] at hl'
      subst hl'
      exact hi.lockFresh l hl w hw
    lockData := by
      intro l' hl'
      simp only [pushState, Option.some.injEq] at hl'
      subst hl'
      exact hi.lockData l hl
    data := hi.data
    lockAbove := by
      intro l' hl' w hw hk
      simp only [pushState, Option.some.injEq] at hl'
      subst hl'
      exact hi.lockAbove l hl w hw hk
    disjoint := hi.disjoint }

theorem KInv.stable {c : PercCfg} (hc : c.conflictOp = .ge) : KStable c (fun _ ks => KInv ks) :=
  { pw := fun h m ks hv hi => KInv.prewriteK hc h m ks hv hi
    cm := fun key l ct ks hl hlt hi => KInv.commitK key l ct ks hl hlt hi
    rb := fun _ st ks hi => KInv.rollbackK st ks hi
    push := fun _ l m ks hl hi => KInv.push l m ks hl hi }

/-- the store invariant -/
def Inv (s : Store) : Prop := ∀ k, KInv (s k)

theorem Inv.empty : Inv Store.empty := fun _ => KInv.empty

theorem Inv.apply {c : PercCfg} (hc : c.conflictOp = .ge) {s : Store} (req : Req) (hwf : req.WF) (hs : Inv s) :
    Inv (apply c s req) := apply_stable (KInv.stable hc) s req hwf hs

theorem Inv.run {c : PercCfg} (hc : c.conflictOp = .ge) (reqs : List Req) (s : Store)
    (hwf : ∀ r ∈ reqs, r.WF) (hs : Inv s) : Inv (run c s reqs) := run_stable (KInv.stable hc) reqs s hwf hs

/-! ### "transaction `st` is over on this key", two stable forms -/

/-- no lock of `st`, and a write record at or above `st` (so that a prewrite of `st` conflicts) -/
def Gone (st : Nat) (ks : KS) : Prop :=
  (∀ l, ks.lock = some l → l.ts ≠ st) ∧ ∃ w ∈ ks.writes, st ≤ w.ts

/-- `Gone`, and every record of `st` is a rollback record -/
def Dead (st : Nat) (ks : KS) : Prop :=
  Gone st ks ∧ ∀ w ∈ ks.writes, w.start = st → w.kind = .rollback

/-- `P` holds for key `k0` (other keys unconstrained beyond the invariant) -/
def AtKey (k0 : Bytes) (P : KS → Prop) : Bytes → KS → Prop := fun k ks => KInv ks ∧ (k = k0 → P ks)

theorem Gone.prewriteK {c : PercCfg} (hc : c.conflictOp = .ge) (st : Nat) (h : PwHdr) (m : Mut) (ks : KS)
    (hi : KInv ks) (hg : Gone st ks) : Gone st (prewriteK c h m ks).1 := by
  rcases prewriteK_cases c hc h m ks hi.sw with ⟨h1, _⟩ | ⟨K, V, _, _, hall, heq⟩
  · rw [h1]; exact hg
  · rw [heq]
    obtain ⟨_, w, hw, hle⟩ := hg
    have hlt := hall w hw
    refine ⟨?_, w, hw, hle⟩
    intro l hl
    simp only [pwState, Option.some.injEq] at hl
    subst hl
    simp only [mkLock]
    omega

theorem Gone.commitK {c : PercCfg} (st : Nat) (key : Bytes) (l : Lock) (ct : Nat) (ks : KS)
    (hg : Gone st ks) : Gone st (commitK c key l ct ks).1 := by
  rcases commitK_cases c key l ct ks with h1 | ⟨w, _, heq⟩ | ⟨_, heq⟩
  · rw [h1]; exact hg
  · rw [heq]; exact ⟨(by intro l' hl'; cases hl'), hg.2⟩
  · rw [heq]; exact ⟨(by intro l' hl'; cases hl'), ins_keeps_high WRec.ts _ _ st hg.2⟩

theorem Gone.rollbackK {c : PercCfg} (st : Nat) (st' : Nat) (ks : KS)
    (hg : Gone st ks) : Gone st (rollbackK c st' ks) := by
  rcases rollbackK_cases c st' ks with ⟨_, h1⟩ | ⟨_, heq⟩
  · rw [h1]; exact hg
  · rw [heq]
    refine ⟨?_, ins_keeps_high WRec.ts _ _ st hg.2⟩
    intro l hl
    simp only [rbState] at hl
    rcases lockAfterRollback_cases c st' ks.lock with h0 | ⟨h0, _⟩
    · rw [h0] at hl; cases hl
    · rw [h0] at hl; exact hg.1 l hl

theorem Gone.stable {c : PercCfg} (hc : c.conflictOp = .ge) (k0 : Bytes) (st : Nat) :
    KStable c (AtKey k0 (Gone st)) :=
  { pw := fun h m ks hv ⟨hi, hg⟩ => ⟨KInv.prewriteK hc h m ks hv hi, fun hk => Gone.prewriteK hc st h m ks hi (hg hk)⟩
    cm := fun key l ct ks hl hlt ⟨hi, hg⟩ => ⟨KInv.commitK key l ct ks hl hlt hi, fun hk => Gone.commitK st key l ct ks (hg hk)⟩
    rb := fun _ st' ks ⟨hi, hg⟩ => ⟨KInv.rollbackK st' ks hi, fun hk => Gone.rollbackK st st' ks (hg hk)⟩
    push := fun _ l m ks hl ⟨hi, hg⟩ => ⟨KInv.push l m ks hl hi, fun hk => by
      obtain ⟨h1, h2⟩ := hg hk
      refine ⟨?_, h2⟩
      intro l' hl'
      simp only [pushState, Option.some.injEq] at hl'
      subst hl'
      exact h1 l hl⟩ }

theorem Dead.stable {c : PercCfg} (hc : c.conflictOp = .ge) (k0 : Bytes) (st : Nat) :
    KStable c (AtKey k0 (Dead st)) :=
  { pw := by
      intro h m ks hv ⟨hi, hd⟩
      refine ⟨KInv.prewriteK hc h m ks hv hi, fun hk => ⟨Gone.prewriteK hc st h m ks hi (hd hk).1, ?_⟩⟩
      rcases prewriteK_cases c hc h m ks hi.sw with ⟨h1, _⟩ | ⟨K, V, _, _, _, heq⟩
      · rw [h1]; exact (hd hk).2
      · rw [heq]; exact (hd hk).2
    cm := by
      intro key l ct ks hl hlt ⟨hi, hd⟩
      refine ⟨KInv.commitK key l ct ks hl hlt hi, fun hk => ⟨Gone.commitK st key l ct ks (hd hk).1, ?_⟩⟩
      rcases commitK_cases c key l ct ks with h1 | ⟨w, _, heq⟩ | ⟨_, heq⟩
      · rw [h1]; exact (hd hk).2
      · rw [heq]; exact (hd hk).2
      · rw [heq]
        intro w hw hs
        rcases mem_of_mem_ins WRec.ts _ _ w hw with rfl | hw'
        · exact absurd hs ((hd hk).1.1 l hl)
        · exact (hd hk).2 w hw' hs
    rb := by
      intro _ st' ks ⟨hi, hd⟩
      refine ⟨KInv.rollbackK st' ks hi, fun hk => ⟨Gone.rollbackK st st' ks (hd hk).1, ?_⟩⟩
      rcases rollbackK_cases c st' ks with ⟨_, h1⟩ | ⟨_, heq⟩
      · rw [h1]; exact (hd hk).2
      · rw [heq]
        intro w hw hs
        rcases mem_of_mem_ins WRec.ts _ _ w hw with rfl | hw'
        · rfl
        · exact (hd hk).2 w hw' hs
    push := by
      intro _ l m ks hl ⟨hi, hd⟩
      refine ⟨KInv.push l m ks hl hi, fun hk => ⟨?_, (hd hk).2⟩⟩
      obtain ⟨h1, h2⟩ := (hd hk).1
      refine ⟨?_, h2⟩
      intro l' hl'
      simp only [pushState, Option.some.injEq] at hl'
      subst hl'
      exact h1 l hl }

/-- a rollback record of `st` means `st` is dead on this key -/
theorem Dead.of_rollback {ks : KS} (hi : KInv ks) {w : WRec} (hw : w ∈ ks.writes) (hk : w.kind = .rollback) :
    Dead w.start ks := by
  refine ⟨⟨?_, w, hw, hi.le w hw⟩, ?_⟩
  · intro l hl heq
    exact hi.lockFresh l hl w hw heq.symm
  · intro w' hw' hs
    rw [hi.uniq w' hw' w hw hs]; exact hk

/-- any write record of `st` (commit or rollback) and no lock of `st` left -/
theorem Gone.of_record {ks : KS} (hi : KInv ks) {w : WRec} (hw : w ∈ ks.writes) : Gone w.start ks := by
  refine ⟨?_, w, hw, hi.le w hw⟩
  intro l hl heq
  exact hi.lockFresh l hl w hw heq.symm

end NoKV.Perc

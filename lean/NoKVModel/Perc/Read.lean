/-
Read path lemmas (C17): the point read against the "newest committed put/delete" specification,
and the scan walk of one key against the point read.  Also the bit-vector view of `PercCfg`
used by the `…_fails_asis` witnesses (every Boolean flag other than the one at fault stays free).
-/
import NoKVModel.Perc.Inv

namespace NoKV.Perc

/-- all comparison operators as the proofs need them -/
def PercCfg.AllOps (c : PercCfg) : Prop :=
  c.getLockOp = .ge ∧ c.scanLockOp = .ge ∧ c.getTsOp = .le ∧ c.scanVerOp = .gt ∧
  c.conflictOp = .ge ∧ c.ttlOp = .ge ∧ c.minCommitOp = .gt
instance PercCfg.decAllOps (c : PercCfg) : Decidable c.AllOps := by unfold PercCfg.AllOps; exact inferInstance

/-- configuration with good operators and the given flags -/
def PercCfg.ofFlags (gR gL sR sL sK cR rO tG pK : Bool) : PercCfg :=
  { getSkipsRollback := gR, getSkipsLock := gL, scanSkipsRollback := sR, scanSkipsLock := sL,
    scanSeesLockOnlyKeys := sK, getLockOp := .ge, scanLockOp := .ge, getTsOp := .le, scanVerOp := .gt,
    commitChecksRollback := cR, conflictOp := .ge, rollbackChecksOwner := rO, ttlOp := .ge,
    ttlOverflowGuard := tG, minCommitOp := .gt, prewriteKeepsOwnLock := pK }

theorem PercCfg.eq_ofFlags (c : PercCfg) (h : c.AllOps) :
    c = PercCfg.ofFlags c.getSkipsRollback c.getSkipsLock c.scanSkipsRollback c.scanSkipsLock
      c.scanSeesLockOnlyKeys c.commitChecksRollback c.rollbackChecksOwner c.ttlOverflowGuard
      c.prewriteKeepsOwnLock := by
  obtain ⟨h1, h2, h3, h4, h5, h6, h7⟩ := h
  cases c
  simp only at h1 h2 h3 h4 h5 h6 h7
  subst h1 h2 h3 h4 h5 h6 h7
  rfl

/-- the answer of a read as an optional value (what a scan reports for the key) -/
def ReadRes.toOpt : ReadRes → Option Bytes
  | .value v => some v
  | _ => none

/-- rollback and lock-only records carry no data -/
def isSkip (k : Kind) : Bool := k == .rollback || k == .lock

@[simp] theorem isSkip_put : isSkip .put = false := by decide
@[simp] theorem isSkip_del : isSkip .del = false := by decide
@[simp] theorem isSkip_lock : isSkip .lock = true := by decide
@[simp] theorem isSkip_rollback : isSkip .rollback = true := by decide

theorem getSkips_good {c : PercCfg} (h1 : c.getSkipsRollback = true) (h2 : c.getSkipsLock = true) (k : Kind) :
    getSkips c k = isSkip k := by
  simp [getSkips, isSkip, h1, h2]

theorem scanSkips_good {c : PercCfg} (h1 : c.scanSkipsRollback = true) (h2 : c.scanSkipsLock = true) (k : Kind) :
    scanSkips c k = isSkip k := by
  simp [scanSkips, isSkip, h1, h2]

/-- With rollback and lock-only records passed over on both paths, the scan walk over the versions
of one key finds exactly what the point read finds (given the default CF holds the data). -/
theorem scanWalk_eq (c : PercCfg) (hc : c.ReadGood) (defs : List DRec) (hd : Desc DRec.ts defs) (t : Nat) :
    ∀ ws : List WRec, (∀ w ∈ ws, w.kind ≠ .rollback → HasData defs w.start w.kind) →
      scanWalk c defs t ws = (valueOf defs (writeForRead c t ws)).toOpt := by
  obtain ⟨⟨_, _, hts, hver⟩, hgr, hgl, hsr, hsl⟩ := hc
  intro ws
  induction ws with
  | nil => intro _; simp [scanWalk, writeForRead, valueOf, ReadRes.toOpt]
  | cons w rest ih =>
    intro hdata
    have ih' := ih (fun w' hw' => hdata w' (List.mem_cons_of_mem _ hw'))
    have hp : (c.getTsOp.nat w.ts t && !getSkips c w.kind) = (decide (w.ts ≤ t) && !isSkip w.kind) := by
      rw [hts, le_nat, getSkips_good hgr hgl]
    have hs1 : c.scanVerOp.nat w.ts t = decide (t < w.ts) := by rw [hver, gt_nat]
    have hs2 : scanSkips c w.kind = isSkip w.kind := scanSkips_good hsr hsl _
    simp only [writeForRead] at ih' ⊢
    simp only [scanWalk, List.find?_cons, hs1, hs2, hp]
    by_cases hlt : t < w.ts
    · have hn : ¬ w.ts ≤ t := by omega
      simp only [hlt, hn, decide_true, decide_false, if_true, Bool.false_and]
      exact ih'
    · have hle : w.ts ≤ t := by omega
      simp only [hlt, hle, decide_true, decide_false, Bool.true_and]
      cases hk : w.kind with
      | rollback => simpa using ih'
      | lock => simpa using ih'
      | del => simp [valueOf, hk, ReadRes.toOpt]
      | put =>
        obtain ⟨d, hd1, hd2, hd3, _⟩ := hdata w List.mem_cons_self (by rw [hk]; decide)
        obtain ⟨v, hv1, hv2⟩ := hd3 hk
        have hget : getAt defs w.start = some d := by rw [← hd2]; exact getAt_exact hd hd1
        simp [valueOf, hk, hget, hv1, hv2, ReadRes.toOpt]

theorem find_none_iff {α : Type} (p : α → Bool) (l : List α) : l.find? p = none ↔ ∀ x ∈ l, p x = false := by
  induction l with
  | nil => simp
  | cons x xs ih =>
    simp only [List.find?_cons]
    cases hp : p x with
    | true => simp [hp]
    | false => simp [hp, ih]

end NoKV.Perc

/-
Case analysis of the four per-key transitions (`prewriteK`, `commitK`, `rollbackK`,
`checkTxnStatusK`) and the lifting of per-key preservation facts through the request loops
(`prewrite`, `commit`, `batchRollback`, `resolveLock`, `checkTxnStatus`) to whole histories.
-/
import NoKVModel.Perc.Lists

namespace NoKV.Perc

theorem ge_nat (a b : Nat) : CmpOp.nat .ge a b = !decide (a < b) := by
  simp [CmpOp.nat, CmpOp.eval]

theorem gt_nat (a b : Nat) : CmpOp.nat .gt a b = decide (b < a) := by
  simp only [CmpOp.nat, CmpOp.eval]
  by_cases h : b < a
  · have h1 : ¬ a < b := by omega
    have h2 : ¬ a = b := by omega
    simp [h, h1, h2]
  · by_cases h1 : a < b
    · simp [h, h1]
    · have : a = b := by omega
      simp [this]

theorem le_nat (a b : Nat) : CmpOp.nat .le a b = decide (a ≤ b) := by
  simp only [CmpOp.nat, CmpOp.eval]
  by_cases h : a < b
  · have : a ≤ b := by omega
    simp [h, this]
  · by_cases h1 : a = b
    · simp [h1]
    · have : ¬ a ≤ b := by omega
      simp [h, h1, this]

/-! ### Store.set -/

@[simp] theorem Store.set_same (s : Store) (k : Bytes) (v : KS) : (s.set k v) k = v := by simp [Store.set]

theorem Store.set_other (s : Store) (k k' : Bytes) (v : KS) (h : k' ≠ k) : (s.set k v) k' = s k' := by
  simp [Store.set, h]

theorem set_lift {P : Bytes → KS → Prop} {s : Store} (hs : ∀ k, P k (s k)) {k0 : Bytes} {v : KS} (hv : P k0 v) :
    ∀ k, P k ((s.set k0 v) k) := by
  intro k
  by_cases h : k = k0
  · subst h; simpa using hv
  · rw [Store.set_other s k0 k v h]; exact hs k

/-! ### prewriteK -/

/-- the state after a successful prewrite of one key -/
def pwState (h : PwHdr) (K : Kind) (V : Option Bytes) (ks : KS) : KS :=
  ⟨some (mkLock h K), ks.writes, insD ⟨h.start, V⟩ ks.defs⟩

/-- what `op` writes: lock kind and default-CF entry -/
def PwWrites (m : Mut) (K : Kind) (V : Option Bytes) : Prop :=
  (m.op = .put ∧ K = .put ∧ V = some m.val) ∨ (m.op = .del ∧ K = .del ∧ V = none) ∨ (m.op = .lock ∧ K = .lock ∧ V = none)

theorem lockedByOther_none {ks : KS} {start : Nat} (h : lockedByOther ks start = none) :
    ∀ l, ks.lock = some l → l.ts = start := by
  intro l hl
  simp only [lockedByOther, hl] at h
  by_cases hts : l.ts = start
  · exact hts
  · simp [hts] at h

theorem conflictWith_none {c : PercCfg} (hc : c.conflictOp = .ge) {ks : KS} {start : Nat}
    (hd : Desc WRec.ts ks.writes) (h : conflictWith c ks start = none) : ∀ w ∈ ks.writes, w.ts < start := by
  intro w hw
  cases hws : ks.writes with
  | nil => rw [hws] at hw; cases hw
  | cons x xs =>
    rw [hws] at hw hd
    simp only [conflictWith, hws, mostRecent, List.head?_cons, hc, ge_nat] at h
    have hx : x.ts < start := by
      by_cases hlt : x.ts < start
      · exact hlt
      · simp [hlt] at h
    simp only [List.mem_cons] at hw
    rcases hw with rfl | hw
    · exact hx
    · exact Nat.lt_trans (Desc.head_gt hd w hw) hx

theorem prewriteK_cases (c : PercCfg) (hc : c.conflictOp = .ge) (h : PwHdr) (m : Mut) (ks : KS)
    (hd : Desc WRec.ts ks.writes) :
    ((prewriteK c h m ks).1 = ks ∧ True) ∨
    (∃ K V, PwWrites m K V ∧ (∀ l, ks.lock = some l → l.ts = h.start) ∧ (∀ w ∈ ks.writes, w.ts < h.start) ∧
      prewriteK c h m ks = (pwState h K V ks, none)) := by
  unfold prewriteK
  cases hl : lockedByOther ks h.start with
  | some l => left; exact ⟨rfl, trivial⟩
  | none =>
    have hlk := lockedByOther_none hl
    simp only
    split
    · left; exact ⟨rfl, trivial⟩
    cases hcf : conflictWith c ks h.start with
    | some w => left; exact ⟨rfl, trivial⟩
    | none =>
      have hall := conflictWith_none hc hd hcf
      simp only [prewriteWrite]
      cases hop : m.op with
      | put => right; exact ⟨.put, some m.val, Or.inl ⟨hop, rfl, rfl⟩, hlk, hall, rfl⟩
      | del => right; exact ⟨.del, none, Or.inr (Or.inl ⟨hop, rfl, rfl⟩), hlk, hall, rfl⟩
      | lock => right; exact ⟨.lock, none, Or.inr (Or.inr ⟨hop, rfl, rfl⟩), hlk, hall, rfl⟩
      | other => left; exact ⟨rfl, trivial⟩

/-! ### commitK -/

def cmState (l : Lock) (ct : Nat) (ks : KS) : KS := ⟨none, insW ⟨ct, l.ts, l.kind⟩ ks.writes, ks.defs⟩

theorem commitK_cases (c : PercCfg) (key : Bytes) (l : Lock) (ct : Nat) (ks : KS) :
    ((commitK c key l ct ks).1 = ks) ∨
    (∃ w, byStart l.ts ks.writes = some w ∧ commitK c key l ct ks = (⟨none, ks.writes, ks.defs⟩, none)) ∨
    (byStart l.ts ks.writes = none ∧ commitK c key l ct ks = (cmState l ct ks, none)) := by
  unfold commitK
  split
  · exact Or.inl rfl
  · cases hb : byStart l.ts ks.writes with
    | some w =>
      simp only
      split
      · exact Or.inl rfl
      · split
        · exact Or.inr (Or.inl ⟨w, rfl, rfl⟩)
        · exact Or.inl rfl
    | none => exact Or.inr (Or.inr ⟨rfl, rfl⟩)

/-! ### rollbackK -/

def rbState (c : PercCfg) (st : Nat) (ks : KS) : KS :=
  ⟨lockAfterRollback c st ks.lock, insW ⟨st, st, .rollback⟩ ks.writes, insD ⟨st, none⟩ ks.defs⟩

theorem rollbackK_cases (c : PercCfg) (st : Nat) (ks : KS) :
    ((∃ w, byStart st ks.writes = some w) ∧ rollbackK c st ks = ks) ∨
    (byStart st ks.writes = none ∧ rollbackK c st ks = rbState c st ks) := by
  unfold rollbackK
  cases hb : byStart st ks.writes with
  | some w => exact Or.inl ⟨⟨w, rfl⟩, rfl⟩
  | none => exact Or.inr ⟨rfl, rfl⟩

theorem lockAfterRollback_cases (c : PercCfg) (st : Nat) (lk : Option Lock) :
    lockAfterRollback c st lk = none ∨ (lockAfterRollback c st lk = lk ∧ ∀ l, lk = some l → l.ts ≠ st) := by
  unfold lockAfterRollback
  split
  · cases lk with
    | none => exact Or.inl rfl
    | some l =>
      simp only
      split
      · exact Or.inl rfl
      · rename_i hne
        exact Or.inr ⟨rfl, by intro l' hl'; cases hl'; exact hne⟩
  · exact Or.inl rfl

/-! ### checkTxnStatusK -/

def pushState (l : Lock) (m : Nat) (ks : KS) : KS := ⟨some { l with minCommit := m }, ks.writes, ks.defs⟩

theorem checkTxnStatusK_cases (c : PercCfg) (q : CsReq) (ks : KS) :
    (checkTxnStatusK c q ks).1 = ks ∨ (checkTxnStatusK c q ks).1 = rollbackK c q.lockTs ks ∨
    (∃ l m, ks.lock = some l ∧ l.ts = q.lockTs ∧ (checkTxnStatusK c q ks).1 = pushState l m ks) := by
  unfold checkTxnStatusK
  cases hl : ks.lock with
  | some l =>
    simp only
    split
    · exact Or.inl rfl
    · rename_i hts
      split
      · exact Or.inr (Or.inl rfl)
      · split
        · exact Or.inr (Or.inr ⟨l, _, rfl, by simpa using hts, rfl⟩)
        · exact Or.inl rfl
  | none =>
    simp only
    cases hb : byStart q.lockTs ks.writes with
    | some w =>
      simp only
      split <;> exact Or.inl rfl
    | none =>
      simp only
      split
      · exact Or.inr (Or.inl rfl)
      · exact Or.inl rfl

/-! ### lifting through the request loops -/

section lift
variable {P : Bytes → KS → Prop} {c : PercCfg}

theorem prewrite_lift (h : PwHdr) (Q : Mut → Prop)
    (hk : ∀ m ks, Q m → P m.key ks → P m.key (prewriteK c h m ks).1) :
    ∀ (muts : List Mut) (s : Store), (∀ m ∈ muts, Q m) → (∀ k, P k (s k)) → ∀ k, P k ((prewrite c h s muts).1 k) := by
  intro muts
  induction muts with
  | nil => intro s _ hs; simpa [prewrite] using hs
  | cons m ms ih =>
    intro s hq hs
    simp only [prewrite]
    apply ih
    · intro m' hm'; exact hq m' (List.mem_cons_of_mem _ hm')
    · simp only [prewriteMut]
      split
      · exact hs
      · exact set_lift hs (hk m (s m.key) (hq m List.mem_cons_self) (hs m.key))

theorem commit_lift (st ct : Nat)
    (hk : ∀ key l ks, ks.lock = some l → l.ts = st → P key ks → P key (commitK c key l ct ks).1) :
    ∀ (keys : List Bytes) (s : Store), (∀ k, P k (s k)) → ∀ k, P k ((commit c st ct s keys).1 k) := by
  intro keys
  induction keys with
  | nil => intro s hs; simpa [commit] using hs
  | cons k0 rest ih =>
    intro s hs
    simp only [commit]
    split
    · exact hs
    · cases hl : (s k0).lock with
      | none =>
        simp only
        cases hb : byStart st (s k0).writes with
        | some w =>
          simp only
          split
          · exact hs
          · exact ih s hs
        | none => exact hs
      | some l =>
        simp only
        split
        · exact hs
        · rename_i hts
          have hts' : l.ts = st := by simpa using hts
          have hv := hk k0 l (s k0) hl hts' (hs k0)
          cases he : (commitK c k0 l ct (s k0)).2 with
          | some e => simp only; exact set_lift hs hv
          | none => simp only; exact ih _ (set_lift hs hv)

theorem rollback_lift (st : Nat) (hk : ∀ key ks, P key ks → P key (rollbackK c st ks)) :
    ∀ (keys : List Bytes) (s : Store), (∀ k, P k (s k)) → ∀ k, P k ((batchRollback c st s keys).1 k) := by
  intro keys
  induction keys with
  | nil => intro s hs; simpa [batchRollback] using hs
  | cons k0 rest ih =>
    intro s hs
    simp only [batchRollback]
    split
    · exact hs
    · exact ih _ (set_lift hs (hk k0 (s k0) (hs k0)))

theorem resolve_lift (st ct : Nat)
    (hkc : ∀ key l ks, ct ≠ 0 → ks.lock = some l → l.ts = st → P key ks → P key (commitK c key l ct ks).1)
    (hkr : ∀ key ks, ct = 0 → (∃ l, ks.lock = some l ∧ l.ts = st) → P key ks → P key (rollbackK c st ks)) :
    ∀ (keys : List Bytes) (s : Store) (n : Nat), (∀ k, P k (s k)) → ∀ k, P k ((resolveLock c st ct s keys n).1 k) := by
  intro keys
  induction keys with
  | nil => intro s n hs; simpa [resolveLock] using hs
  | cons k0 rest ih =>
    intro s n hs
    simp only [resolveLock]
    split
    · exact ih s n hs
    · cases hl : (s k0).lock with
      | none => exact ih s n hs
      | some l =>
        simp only
        split
        · exact ih s n hs
        · rename_i hts
          have hts' : l.ts = st := by simpa using hts
          split
          · rename_i hz
            exact ih _ _ (set_lift hs (hkr k0 (s k0) hz ⟨l, hl, hts'⟩ (hs k0)))
          · rename_i hz
            have hv := hkc k0 l (s k0) hz hl hts' (hs k0)
            cases he : (commitK c k0 l ct (s k0)).2 with
            | some e => simp only; exact set_lift hs hv
            | none => simp only; exact ih _ _ (set_lift hs hv)

theorem check_lift (q : CsReq) (hk : ∀ ks, P q.primary ks → P q.primary (checkTxnStatusK c q ks).1) :
    ∀ (s : Store), (∀ k, P k (s k)) → ∀ k, P k ((checkTxnStatus c q s).1 k) := by
  intro s hs
  simp only [checkTxnStatus]
  split
  · exact hs
  · exact set_lift hs (hk _ (hs q.primary))

end lift

/-- A per-key predicate preserved by every per-key transition a well-formed request can take. -/
structure KStable (c : PercCfg) (P : Bytes → KS → Prop) : Prop where
  pw : ∀ h m ks, (m.op = .put → m.val ≠ []) → P m.key ks → P m.key (prewriteK c h m ks).1
  cm : ∀ key l ct ks, ks.lock = some l → l.ts < ct → P key ks → P key (commitK c key l ct ks).1
  rb : ∀ key st ks, P key ks → P key (rollbackK c st ks)
  push : ∀ key l m ks, ks.lock = some l → P key ks → P key (pushState l m ks)

theorem apply_stable {c : PercCfg} {P : Bytes → KS → Prop} (hP : KStable c P) (s : Store) (req : Req)
    (hwf : req.WF) (hs : ∀ k, P k (s k)) : ∀ k, P k (apply c s req k) := by
  cases req with
  | prewrite h muts =>
    simp only [apply]
    exact prewrite_lift h (fun m => m.op = .put → m.val ≠ []) (fun m ks hq hp => hP.pw h m ks hq hp) muts s hwf hs
  | commit st ct keys =>
    simp only [apply]
    have hlt : st < ct := hwf
    exact commit_lift st ct (fun key l ks hl hts hp => hP.cm key l ct ks hl (by omega) hp) keys s hs
  | rollback st keys =>
    simp only [apply]
    exact rollback_lift st (fun key ks hp => hP.rb key st ks hp) keys s hs
  | resolve st ct keys =>
    simp only [apply]
    have hw : ct = 0 ∨ st < ct := hwf
    exact resolve_lift st ct
      (fun key l ks hz hl hts hp => hP.cm key l ct ks hl (by rcases hw with h | h <;> omega) hp)
      (fun key ks _ _ hp => hP.rb key st ks hp) keys s 0 hs
  | check q =>
    simp only [apply]
    apply check_lift q _ s hs
    intro ks hp
    rcases checkTxnStatusK_cases c q ks with h | h | ⟨l, m, hl, _, h⟩
    · rw [h]; exact hp
    · rw [h]; exact hP.rb _ _ ks hp
    · rw [h]; exact hP.push _ l m ks hl hp

theorem run_stable {c : PercCfg} {P : Bytes → KS → Prop} (hP : KStable c P) :
    ∀ (reqs : List Req) (s : Store), (∀ r ∈ reqs, r.WF) → (∀ k, P k (s k)) → ∀ k, P k (run c s reqs k) := by
  intro reqs
  induction reqs with
  | nil => intro s _ hs; simpa [run] using hs
  | cons r rs ih =>
    intro s hwf hs
    simp only [run, List.foldl_cons]
    exact ih _ (fun r' hr' => hwf r' (List.mem_cons_of_mem _ hr'))
      (apply_stable hP s r (hwf r List.mem_cons_self) hs)

end NoKV.Perc

/-
Versioned lists: lemmas about `ins` (sorted insert with replacement), `getAt`, `byStart` and
`find?` on lists sorted by strictly descending timestamp.
-/
import NoKVModel.Perc.Model

namespace NoKV.Perc

/-- strictly descending in `ts` -/
def Desc {α : Type} (ts : α → Nat) (l : List α) : Prop := l.Pairwise (fun a b => ts b < ts a)

theorem Desc.nil {α : Type} (ts : α → Nat) : Desc ts ([] : List α) := List.Pairwise.nil

theorem Desc.tail {α : Type} {ts : α → Nat} {x : α} {l : List α} (h : Desc ts (x :: l)) : Desc ts l :=
  (List.pairwise_cons.mp h).2

theorem Desc.head_gt {α : Type} {ts : α → Nat} {x : α} {l : List α} (h : Desc ts (x :: l)) :
    ∀ y ∈ l, ts y < ts x := (List.pairwise_cons.mp h).1

theorem mem_ins_self {α : Type} (ts : α → Nat) (r : α) (l : List α) : r ∈ ins ts r l := by
  induction l with
  | nil => simp [ins]
  | cons x xs ih =>
    simp only [ins]
    split
    · simp
    · split
      · simp
      · simp [ih]

theorem mem_ins_of_mem {α : Type} (ts : α → Nat) (r : α) (l : List α) (y : α)
    (hy : y ∈ l) (hne : ts y ≠ ts r) : y ∈ ins ts r l := by
  induction l with
  | nil => cases hy
  | cons x xs ih =>
    simp only [ins]
    split
    · simp only [List.mem_cons] at hy ⊢
      exact Or.inr hy
    · split
      · rename_i _ heq
        simp only [List.mem_cons] at hy ⊢
        rcases hy with rfl | hy
        · exact absurd heq hne
        · exact Or.inr hy
      · simp only [List.mem_cons] at hy ⊢
        rcases hy with rfl | hy
        · exact Or.inl rfl
        · exact Or.inr (ih hy)

theorem mem_of_mem_ins {α : Type} (ts : α → Nat) (r : α) (l : List α) (y : α)
    (hy : y ∈ ins ts r l) : y = r ∨ y ∈ l := by
  induction l with
  | nil => simp [ins] at hy; exact Or.inl hy
  | cons x xs ih =>
    simp only [ins] at hy
    split at hy
    · simp only [List.mem_cons] at hy ⊢
      exact hy
    · split at hy
      · simp only [List.mem_cons] at hy ⊢
        rcases hy with h | h
        · exact Or.inl h
        · exact Or.inr (Or.inr h)
      · simp only [List.mem_cons] at hy ⊢
        rcases hy with h | h
        · exact Or.inr (Or.inl h)
        · rcases ih h with h | h
          · exact Or.inl h
          · exact Or.inr (Or.inr h)

theorem ins_desc {α : Type} (ts : α → Nat) (r : α) (l : List α) (h : Desc ts l) : Desc ts (ins ts r l) := by
  induction l with
  | nil => simp [ins, Desc]
  | cons x xs ih =>
    have hx := Desc.head_gt h
    have ht := Desc.tail h
    simp only [ins]
    split
    · rename_i hlt
      refine List.pairwise_cons.mpr ⟨?_, h⟩
      intro y hy
      simp only [List.mem_cons] at hy
      rcases hy with rfl | hy
      · exact hlt
      · exact Nat.lt_trans (hx y hy) hlt
    · split
      · rename_i _ heq
        refine List.pairwise_cons.mpr ⟨?_, ht⟩
        intro y hy
        rw [← heq]; exact hx y hy
      · rename_i h1 h2
        refine List.pairwise_cons.mpr ⟨?_, ih ht⟩
        intro y hy
        rcases mem_of_mem_ins ts r xs y hy with rfl | hy
        · omega
        · exact hx y hy

/-- in a sorted list the timestamp identifies the entry -/
theorem desc_ts_inj {α : Type} {ts : α → Nat} {l : List α} (h : Desc ts l) {a b : α}
    (ha : a ∈ l) (hb : b ∈ l) (hab : ts a = ts b) : a = b := by
  induction l with
  | nil => cases ha
  | cons x xs ih =>
    have hx := Desc.head_gt h
    simp only [List.mem_cons] at ha hb
    rcases ha with rfl | ha <;> rcases hb with rfl | hb
    · rfl
    · have := hx b hb; omega
    · have := hx a ha; omega
    · exact ih (Desc.tail h) ha hb

/-- after an insert into a sorted list, the old entry with the same timestamp is gone -/
theorem mem_ins_ts {α : Type} (ts : α → Nat) (r : α) (l : List α) (h : Desc ts l) (y : α)
    (hy : y ∈ ins ts r l) : y = r ∨ (y ∈ l ∧ ts y ≠ ts r) := by
  by_cases hyr : y = r
  · exact Or.inl hyr
  · refine Or.inr ⟨?_, ?_⟩
    · rcases mem_of_mem_ins ts r l y hy with h1 | h1
      · exact absurd h1 hyr
      · exact h1
    · intro heq
      exact hyr (desc_ts_inj (ins_desc ts r l h) hy (mem_ins_self ts r l) heq)

theorem ins_idem {α : Type} (ts : α → Nat) (r : α) (l : List α) (h : Desc ts l) :
    ins ts r (ins ts r l) = ins ts r l := by
  induction l with
  | nil => simp [ins]
  | cons x xs ih =>
    have hx := Desc.head_gt h
    simp only [ins]
    split
    · simp [ins]
    · split
      · simp [ins]
      · rename_i h1 h2
        simp only [ins, h1, h2, if_false]
        rw [ih (Desc.tail h)]

/-- the largest timestamp of the list does not decrease under `ins` -/
theorem ins_keeps_high {α : Type} (ts : α → Nat) (r : α) (l : List α) (n : Nat)
    (h : ∃ w ∈ l, n ≤ ts w) : ∃ w ∈ ins ts r l, n ≤ ts w := by
  obtain ⟨w, hw, hn⟩ := h
  by_cases heq : ts w = ts r
  · exact ⟨r, mem_ins_self ts r l, by omega⟩
  · exact ⟨w, mem_ins_of_mem ts r l w hw heq, hn⟩

/-! ### `getAt` -/

theorem getAt_exact {l : List DRec} (h : Desc DRec.ts l) {d : DRec} (hd : d ∈ l) : getAt l d.ts = some d := by
  induction l with
  | nil => cases hd
  | cons x xs ih =>
    have hx := Desc.head_gt h
    simp only [List.mem_cons] at hd
    simp only [getAt, List.find?_cons]
    rcases hd with rfl | hd
    · simp
    · have := hx d hd
      have hn : ¬ x.ts ≤ d.ts := by omega
      simp only [hn]
      exact ih (Desc.tail h) hd

/-! ### `find?` on a sorted list returns the newest match -/

theorem find_newest {α : Type} {ts : α → Nat} {l : List α} (h : Desc ts l) (p : α → Bool) {w : α}
    (hf : l.find? p = some w) : w ∈ l ∧ p w = true ∧ ∀ x ∈ l, p x = true → ts x ≤ ts w := by
  induction l with
  | nil => simp at hf
  | cons x xs ih =>
    have hx := Desc.head_gt h
    simp only [List.find?_cons] at hf
    cases hp : p x with
    | true =>
      simp only [hp] at hf
      cases hf
      refine ⟨List.mem_cons_self, hp, ?_⟩
      intro y hy _
      simp only [List.mem_cons] at hy
      rcases hy with rfl | hy
      · exact Nat.le_refl _
      · exact Nat.le_of_lt (hx y hy)
    | false =>
      simp only [hp] at hf
      obtain ⟨h1, h2, h3⟩ := ih (Desc.tail h) hf
      refine ⟨List.mem_cons_of_mem _ h1, h2, ?_⟩
      intro y hy hpy
      simp only [List.mem_cons] at hy
      rcases hy with rfl | hy
      · rw [hp] at hpy; cases hpy
      · exact h3 y hy hpy

/-! ### `byStart` -/

theorem byStart_some {s : Nat} {l : List WRec} {w : WRec} (h : byStart s l = some w) : w ∈ l ∧ w.start = s := by
  induction l with
  | nil => simp [byStart] at h
  | cons x xs ih =>
    simp only [byStart] at h
    split at h
    · cases h; exact ⟨List.mem_cons_self, by assumption⟩
    · split at h
      · cases h
      · obtain ⟨h1, h2⟩ := ih h
        exact ⟨List.mem_cons_of_mem _ h1, h2⟩

/-- with `start ≤ ts` for every record, the early stop of `GetWriteByStartTs` loses nothing -/
theorem byStart_none {s : Nat} {l : List WRec} (hle : ∀ w ∈ l, w.start ≤ w.ts) (hd : Desc WRec.ts l)
    (h : byStart s l = none) : ∀ w ∈ l, w.start ≠ s := by
  induction l with
  | nil => intro w hw; cases hw
  | cons x xs ih =>
    have hx := Desc.head_gt hd
    simp only [byStart] at h
    split at h
    · cases h
    · rename_i hne
      split at h
      · rename_i hlt
        intro w hw
        simp only [List.mem_cons] at hw
        rcases hw with rfl | hw
        · exact hne
        · have h1 := hx w hw
          have h2 := hle w (List.mem_cons_of_mem _ hw)
          omega
      · intro w hw
        simp only [List.mem_cons] at hw
        rcases hw with rfl | hw
        · exact hne
        · exact ih (fun w hw => hle w (List.mem_cons_of_mem _ hw)) (Desc.tail hd) h w hw

theorem byStart_of_mem {l : List WRec} (hle : ∀ w ∈ l, w.start ≤ w.ts) (hd : Desc WRec.ts l)
    (huniq : ∀ a ∈ l, ∀ b ∈ l, a.start = b.start → a = b) {w : WRec} (hw : w ∈ l) :
    byStart w.start l = some w := by
  cases hb : byStart w.start l with
  | none => exact absurd rfl (byStart_none hle hd hb w hw)
  | some w' =>
    obtain ⟨h1, h2⟩ := byStart_some hb
    rw [huniq w' h1 w hw h2]

end NoKV.Perc

/-
Outcome and lock-lifetime lemmas (C18, C19): a commit of a dead transaction fails, a successful
commit / rollback leaves the transaction `Gone` on its keys, a lock survives every request of
another transaction.
-/
import NoKVModel.Perc.Read

namespace NoKV.Perc

/-- which transaction a request may end -/
def Req.ends : Req → Nat → Prop
  | .prewrite _ _, _ => False
  | .commit st _ _, t => st = t
  | .rollback st _, t => st = t
  | .resolve st _ _, t => st = t
  | .check q, t => q.lockTs = t

/-! ### commit of a dead transaction -/

theorem commit_fails_of_dead (c : PercCfg) (hcr : c.commitChecksRollback = true) (st ct : Nat) (k : Bytes) :
    ∀ (keys : List Bytes) (s : Store), k ∈ keys → Dead st (s k) → (commit c st ct s keys).2 ≠ none := by
  intro keys
  induction keys with
  | nil => intro s hk; cases hk
  | cons k0 rest ih =>
    intro s hk hd
    simp only [commit]
    split
    · simp
    · cases hl : (s k0).lock with
      | none =>
        simp only
        cases hb : byStart st (s k0).writes with
        | none => simp
        | some w =>
          simp only
          split
          · simp
          · rename_i hnot
            have hne : k ≠ k0 := by
              intro heq
              subst heq
              obtain ⟨hw, hs⟩ := byStart_some hb
              have := hd.2 w hw hs
              simp [hcr, this] at hnot
            have hk' : k ∈ rest := by
              simp only [List.mem_cons] at hk
              rcases hk with h | h
              · exact absurd h hne
              · exact h
            exact ih s hk' hd
      | some l =>
        simp only
        split
        · simp
        · rename_i hts
          have hts' : l.ts = st := by simpa using hts
          have hne : k ≠ k0 := by
            intro heq
            subst heq
            exact hd.1.1 l hl hts'
          have hk' : k ∈ rest := by
            simp only [List.mem_cons] at hk
            rcases hk with h | h
            · exact absurd h hne
            · exact h
          cases he : (commitK c k0 l ct (s k0)).2 with
          | some e => simp
          | none =>
            simp only
            apply ih _ hk'
            rw [Store.set_other _ _ _ _ hne]; exact hd

/-! ### a successful commit / rollback ends the transaction on its keys -/

theorem commitK_ok_inv {c : PercCfg} {key : Bytes} {l : Lock} {ct : Nat} {ks : KS} (hi : KInv ks)
    (hl : ks.lock = some l) (hok : (commitK c key l ct ks).2 = none) :
    commitK c key l ct ks = (cmState l ct ks, none) := by
  unfold commitK at hok ⊢
  split
  · rename_i h; simp [h] at hok
  · cases hb : byStart l.ts ks.writes with
    | some w =>
      obtain ⟨hw, hs⟩ := byStart_some hb
      exact absurd hs (hi.lockFresh l hl w hw)
    | none => rfl

theorem gone_cmState (l : Lock) (ct : Nat) (ks : KS) (hlt : l.ts ≤ ct) : Gone l.ts (cmState l ct ks) :=
  ⟨(by intro l' hl'; cases hl'), ⟨ct, l.ts, l.kind⟩, mem_ins_self _ _ _, hlt⟩

theorem gone_rollbackK {c : PercCfg} (st : Nat) (ks : KS) (hi : KInv ks) : Gone st (rollbackK c st ks) := by
  rcases rollbackK_cases c st ks with ⟨⟨w, hb⟩, h1⟩ | ⟨_, heq⟩
  · rw [h1]
    obtain ⟨hw, hs⟩ := byStart_some hb
    rw [← hs]; exact Gone.of_record hi hw
  · rw [heq]
    refine ⟨?_, ⟨st, st, .rollback⟩, mem_ins_self _ _ _, Nat.le_refl _⟩
    intro l hl
    simp only [rbState] at hl
    rcases lockAfterRollback_cases c st ks.lock with h0 | ⟨h0, h1⟩
    · rw [h0] at hl; cases hl
    · rw [h0] at hl; exact h1 l hl

/-- after a successful `Commit`, transaction `st` is gone on every key of the request -/
theorem commit_ok_gone (c : PercCfg) (hc : c.conflictOp = .ge) (st ct : Nat) (hlt : st < ct) (k : Bytes) :
    ∀ (keys : List Bytes) (s : Store), Inv s → k ∈ keys → (commit c st ct s keys).2 = none →
      Gone st ((commit c st ct s keys).1 k) := by
  -- the rest of the loop keeps `Gone` on `k`
  have hrest : ∀ (keys : List Bytes) (s : Store), (∀ k', AtKey k (Gone st) k' (s k')) →
      ∀ k', AtKey k (Gone st) k' ((commit c st ct s keys).1 k') := fun keys s hs =>
    commit_lift st ct (fun key l ks hl hts hp => (Gone.stable hc k st).cm key l ct ks hl (by omega) hp) keys s hs
  intro keys
  induction keys with
  | nil => intro s _ hk; cases hk
  | cons k0 rest ih =>
    intro s hs hk hok
    simp only [commit] at hok ⊢
    split at hok
    · simp at hok
    · rename_i hk0
      simp only [hk0, if_false]
      cases hl : (s k0).lock with
      | none =>
        simp only [hl] at hok ⊢
        cases hb : byStart st (s k0).writes with
        | none => simp [hb] at hok
        | some w =>
          simp only [hb] at hok ⊢
          split at hok
          · simp at hok
          · rename_i hcond
            simp only [hcond]
            by_cases hkk : k = k0
            · subst hkk
              obtain ⟨hw, hst⟩ := byStart_some hb
              have hg : Gone st (s k) := by rw [← hst]; exact Gone.of_record (hs k) hw
              exact ((hrest rest s (fun k' => ⟨hs k', fun h => by subst h; exact hg⟩)) k).2 rfl
            · have hk' : k ∈ rest := by
                simp only [List.mem_cons] at hk
                rcases hk with h | h
                · exact absurd h hkk
                · exact h
              exact ih s hs hk' hok
      | some l =>
        simp only [hl] at hok ⊢
        split at hok
        · simp at hok
        · rename_i hts
          have hts' : l.ts = st := by simpa using hts
          simp only [hts, if_false]
          cases he : (commitK c k0 l ct (s k0)).2 with
          | some e => simp [he] at hok
          | none =>
            simp only [he] at hok ⊢
            have heq := commitK_ok_inv (hs k0) hl he
            have hs' : Inv (s.set k0 (commitK c k0 l ct (s k0)).1) :=
              set_lift (P := fun _ ks => KInv ks) hs (KInv.commitK k0 l ct (s k0) hl (by omega) (hs k0))
            by_cases hkk : k = k0
            · subst hkk
              have hg : Gone st ((s.set k (commitK c k l ct (s k)).1) k) := by
                rw [Store.set_same, heq, ← hts']; exact gone_cmState l ct (s k) (by omega)
              exact ((hrest rest _ (fun k' => ⟨hs' k', fun h => by subst h; exact hg⟩)) k).2 rfl
            · have hk' : k ∈ rest := by
                simp only [List.mem_cons] at hk
                rcases hk with h | h
                · exact absurd h hkk
                · exact h
              exact ih _ hs' hk' hok

/-- after a successful `BatchRollback`, transaction `st` is gone on every key of the request -/
theorem rollback_ok_gone (c : PercCfg) (hc : c.conflictOp = .ge) (st : Nat) (k : Bytes) :
    ∀ (keys : List Bytes) (s : Store), Inv s → k ∈ keys → (batchRollback c st s keys).2 = none →
      Gone st ((batchRollback c st s keys).1 k) := by
  have hrest : ∀ (keys : List Bytes) (s : Store), (∀ k', AtKey k (Gone st) k' (s k')) →
      ∀ k', AtKey k (Gone st) k' ((batchRollback c st s keys).1 k') := fun keys s hs =>
    rollback_lift st (fun key ks hp => (Gone.stable hc k st).rb key st ks hp) keys s hs
  intro keys
  induction keys with
  | nil => intro s _ hk; cases hk
  | cons k0 rest ih =>
    intro s hs hk hok
    simp only [batchRollback] at hok ⊢
    split at hok
    · simp at hok
    · rename_i hk0
      simp only [hk0, if_false]
      have hs' : Inv (s.set k0 (rollbackK c st (s k0))) :=
        set_lift (P := fun _ ks => KInv ks) hs (KInv.rollbackK st (s k0) (hs k0))
      by_cases hkk : k = k0
      · subst hkk
        have hg : Gone st ((s.set k (rollbackK c st (s k))) k) := by
          rw [Store.set_same]; exact gone_rollbackK st (s k) (hs k)
        exact ((hrest rest _ (fun k' => ⟨hs' k', fun h => by subst h; exact hg⟩)) k).2 rfl
      · have hk' : k ∈ rest := by
          simp only [List.mem_cons] at hk
          rcases hk with h | h
          · exact absurd h hkk
          · exact h
        exact ih _ hs' hk' hok

theorem rollbackK_of_mem {c : PercCfg} {ks : KS} (hi : KInv ks) {w : WRec} (hw : w ∈ ks.writes) :
    rollbackK c w.start ks = ks := by
  simp only [rollbackK, hi.byStart_mem hw]

theorem Store.set_self (s : Store) (k : Bytes) : s.set k (s k) = s := by
  funext k'
  by_cases h : k' = k
  · subst h; simp
  · exact Store.set_other s k k' _ h

/-- a `Commit` of one key either changes nothing or commits the lock of `st` on it -/
theorem commit_single (c : PercCfg) (st ct : Nat) (s : Store) (k : Bytes) (hk0 : k ≠ []) (hki : KInv (s k)) :
    (commit c st ct s [k]).1 = s ∨
    (∃ l, (s k).lock = some l ∧ l.ts = st ∧ commitK c k l ct (s k) = (cmState l ct (s k), none) ∧
      (commit c st ct s [k]).1 = s.set k (cmState l ct (s k))) := by
  simp only [commit, hk0, if_false]
  cases hl : (s k).lock with
  | none =>
    simp only
    cases hb : byStart st (s k).writes with
    | none => exact Or.inl rfl
    | some w =>
      simp only
      split <;> exact Or.inl rfl
  | some l =>
    simp only
    by_cases hts : l.ts = st
    · simp only [hts, ne_eq, not_true_eq_false, if_false]
      cases he : (commitK c k l ct (s k)).2 with
      | some e =>
        left
        have hsame : (commitK c k l ct (s k)).1 = s k := by
          rcases commitK_cases c k l ct (s k) with h1 | ⟨w, hb, _⟩ | ⟨_, heq⟩
          · exact h1
          · obtain ⟨hw, hs⟩ := byStart_some hb
            exact absurd hs (hki.lockFresh l hl w hw)
          · rw [heq] at he; cases he
        simp only [hsame]
        exact Store.set_self s k
      | none =>
        right
        have heq := commitK_ok_inv hki hl he
        exact ⟨l, rfl, hts, heq, by simp only [heq]⟩
    · left
      simp [hts]

/-! ### a lock survives the requests of other transactions -/

/-- key `k0` carries a lock of transaction `t0` -/
def Held (t0 : Nat) (ks : KS) : Prop := ∃ l, ks.lock = some l ∧ l.ts = t0

theorem held_prewriteK {c : PercCfg} (hc : c.conflictOp = .ge) (t0 : Nat) (h : PwHdr) (m : Mut) (ks : KS)
    (hi : KInv ks) (hh : Held t0 ks) : Held t0 (prewriteK c h m ks).1 := by
  rcases prewriteK_cases c hc h m ks hi.sw with ⟨h1, _⟩ | ⟨K, V, _, hlk, _, heq⟩
  · rw [h1]; exact hh
  · rw [heq]
    obtain ⟨l, hl, hts⟩ := hh
    exact ⟨mkLock h K, rfl, by simp only [mkLock]; rw [← hlk l hl]; exact hts⟩

theorem held_rollbackK {c : PercCfg} (ho : c.rollbackChecksOwner = true) (t0 st : Nat) (hne : st ≠ t0) (ks : KS)
    (hh : Held t0 ks) : Held t0 (rollbackK c st ks) := by
  rcases rollbackK_cases c st ks with ⟨_, h1⟩ | ⟨_, heq⟩
  · rw [h1]; exact hh
  · rw [heq]
    obtain ⟨l, hl, hts⟩ := hh
    refine ⟨l, ?_, hts⟩
    have : ¬ l.ts = st := by omega
    simp [rbState, lockAfterRollback, ho, hl, this]

theorem held_check {c : PercCfg} (ho : c.rollbackChecksOwner = true) (t0 : Nat) (q : CsReq) (hne : q.lockTs ≠ t0)
    (ks : KS) (hh : Held t0 ks) : Held t0 (checkTxnStatusK c q ks).1 := by
  rcases checkTxnStatusK_cases c q ks with h | h | ⟨l, m, hl, hts, _⟩
  · rw [h]; exact hh
  · rw [h]; exact held_rollbackK ho t0 q.lockTs hne ks hh
  · obtain ⟨l', hl', hts'⟩ := hh
    rw [hl] at hl'; cases hl'
    exact absurd (hts.symm.trans hts') hne

/-- **One step.**  A request that does not name transaction `t0` leaves `t0`'s lock on `k` in place. -/
theorem held_apply (c : PercCfg) (hc : c.conflictOp = .ge) (ho : c.rollbackChecksOwner = true) (t0 : Nat) (k : Bytes)
    (s : Store) (req : Req) (hwf : req.WF) (hne : ¬ req.ends t0) (hs : ∀ k', AtKey k (Held t0) k' (s k')) :
    ∀ k', AtKey k (Held t0) k' (apply c s req k') := by
  cases req with
  | prewrite h muts =>
    simp only [apply]
    exact prewrite_lift h (fun m => m.op = .put → m.val ≠ [])
      (fun m ks hq ⟨hi, hh⟩ => ⟨KInv.prewriteK hc h m ks hq hi, fun hk => held_prewriteK hc t0 h m ks hi (hh hk)⟩)
      muts s hwf hs
  | commit st ct keys =>
    simp only [apply]
    have hlt : st < ct := hwf
    have hst : st ≠ t0 := hne
    refine commit_lift st ct ?_ keys s hs
    intro key l ks hl hts ⟨hi, hh⟩
    refine ⟨KInv.commitK key l ct ks hl (by omega) hi, fun hk => ?_⟩
    obtain ⟨l', hl', hts'⟩ := hh hk
    rw [hl] at hl'; cases hl'
    exact absurd (hts.symm.trans hts') hst
  | rollback st keys =>
    simp only [apply]
    have hst : st ≠ t0 := hne
    exact rollback_lift st
      (fun key ks ⟨hi, hh⟩ => ⟨KInv.rollbackK st ks hi, fun hk => held_rollbackK ho t0 st hst ks (hh hk)⟩) keys s hs
  | resolve st ct keys =>
    simp only [apply]
    have hw : ct = 0 ∨ st < ct := hwf
    have hst : st ≠ t0 := hne
    refine resolve_lift st ct ?_ ?_ keys s 0 hs
    · intro key l ks hz hl hts ⟨hi, hh⟩
      refine ⟨KInv.commitK key l ct ks hl (by rcases hw with h | h <;> omega) hi, fun hk => ?_⟩
      obtain ⟨l', hl', hts'⟩ := hh hk
      rw [hl] at hl'; cases hl'
      exact absurd (hts.symm.trans hts') hst
    · intro key ks _ _ ⟨hi, hh⟩
      exact ⟨KInv.rollbackK st ks hi, fun hk => held_rollbackK ho t0 st hst ks (hh hk)⟩
  | check q =>
    simp only [apply]
    have hst : q.lockTs ≠ t0 := hne
    refine check_lift q ?_ s hs
    intro ks ⟨hi, hh⟩
    refine ⟨?_, fun hk => held_check ho t0 q hst ks (hh hk)⟩
    rcases checkTxnStatusK_cases c q ks with h | h | ⟨l, m, hl, _, h⟩
    · rw [h]; exact hi
    · rw [h]; exact KInv.rollbackK _ ks hi
    · rw [h]; exact KInv.push l m ks hl hi

end NoKV.Perc

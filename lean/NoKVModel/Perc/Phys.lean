/-
The Percolator model on top of the LSM model (`NoKV.Lsm`): where the records of the three column
families physically sit (memtable, sealed memtables, L0 tables, ingest buffer and main run of the
base level) and what the code therefore reads back.

* every write of the handlers of `percolator/txn.go` becomes a `Lsm.Entry` put into the active
  memtable (`lock CF`: one internal key `(1, key, MaxUint64)` per user key, lock and removal
  tombstone alike; `default CF`: `(0, key, startTs)`; `write CF`: `(2, key, commitTs)`);
* `view` rebuilds the abstract per-key state the handlers of `Perc/Model.lean` work on from the
  physical store, *through the code's own read paths*: the lock and every default-CF lookup are
  `DB.GetVersionedEntry`, i.e. `Lsm.get` with all its decisions (`searchL0SST` direction, tie
  rule, first-hit, ingest order, level order); the write CF is read through the merge iterator,
  which presents every internal key once (write-CF internal keys are written once);
* memtable rotation, flush, L0→ingest move, ingest keep/drain are `Lsm.rotate` … `Lsm.drain`.

With everything in the active memtable the view is exactly the abstract store of `Perc/Model.lean`.
-/
import NoKVModel.Perc.Model
import NoKVModel.Lsm.Model

namespace NoKV.Perc.Phys
open NoKV NoKV.Perc

def cfDefault : Nat := 0
def cfLock : Nat := 1
def cfWrite : Nat := 2

/-- the configuration C19 depends on: Percolator decisions + LSM read-path / compaction decisions -/
structure C19Cfg where
  perc : PercCfg
  lsm : Lsm.Cfg
  deriving DecidableEq, Repr

instance : Coe C19Cfg PercCfg := ⟨C19Cfg.perc⟩

/-! ### record encodings (abstract: a list of numbers, never printed) -/

def kindOfCode : Nat → Kind
  | 0 => .put | 1 => .del | 2 => .lock | _ => .rollback

def encLock (l : Lock) : Bytes := l.ts :: l.ttl :: l.kind.code :: l.minCommit :: l.primary

def decLock : Bytes → Option Lock
  | ts :: ttl :: k :: mc :: p => some ⟨p, ts, ttl, kindOfCode k, mc⟩
  | _ => none

def encW (w : WRec) : Bytes := [w.start, w.kind.code]

def decW (ver : Nat) : Bytes → Option WRec
  | [st, k] => some ⟨ver, st, kindOfCode k⟩
  | _ => none

def lockEntry (k : Bytes) (l : Lock) : Lsm.Entry := ⟨cfLock, k, Lsm.maxVersion, encLock l, false⟩
/-- `DeleteVersionedEntry(CFLock, key, lockColumnTs)` -/
def lockTomb (k : Bytes) : Lsm.Entry := ⟨cfLock, k, Lsm.maxVersion, [], true⟩
def defEntry (k : Bytes) (ts : Nat) : Option Bytes → Lsm.Entry
  | some v => ⟨cfDefault, k, ts, v, false⟩
  | none => ⟨cfDefault, k, ts, [], true⟩
def wEntry (k : Bytes) (w : WRec) : Lsm.Entry := ⟨cfWrite, k, w.ts, encW w, false⟩

/-! ### the view -/

def allEntries (s : Lsm.St) : List Lsm.Entry :=
  s.mem ++ s.imms.flatten ++ s.l0.flatten ++ s.ing.flatten ++ s.mainE.flatten

/-- `Reader.GetLock` -/
def lockOf (lc : Lsm.Cfg) (s : Lsm.St) (k : Bytes) : Option Lock :=
  match Lsm.get lc s ⟨cfLock, k, Lsm.maxVersion⟩ with
  | some e => if e.del then none else decLock e.val
  | none => none

/-- what the internal iterator presents for one key of the write CF, newest first -/
def writesOf (s : Lsm.St) (k : Bytes) : List WRec :=
  ((allEntries s).filter (fun e => e.cf = cfWrite ∧ e.key = k ∧ !e.del)).foldl
    (fun acc e => match decW e.ver e.val with
      | some w => if acc.any (fun x => x.ts = w.ts) then acc else insW w acc
      | none => acc) []

/-- for every version of the key present anywhere in the default CF: what
`GetVersionedEntry(CFDefault, key, version)` answers (`none` = a tombstone came back) -/
def defsOf (lc : Lsm.Cfg) (s : Lsm.St) (k : Bytes) : List DRec :=
  (((allEntries s).filter (fun e => e.cf = cfDefault ∧ e.key = k)).map (·.ver)).foldl
    (fun acc v =>
      if acc.any (fun x => x.ts = v) then acc
      else match Lsm.get lc s ⟨cfDefault, k, v⟩ with
        | some e => insD ⟨v, if e.del then none else some e.val⟩ acc
        | none => acc) []

def viewKS (lc : Lsm.Cfg) (s : Lsm.St) (k : Bytes) : KS := ⟨lockOf lc s k, writesOf s k, defsOf lc s k⟩

def view (lc : Lsm.Cfg) (s : Lsm.St) : Store := fun k => viewKS lc s k

/-! ### the writes of the handlers -/

def putMem (s : Lsm.St) (e : Lsm.Entry) : Lsm.St := { s with mem := Lsm.memPut e s.mem }

/-- `Prewrite`: each mutation reads through the store as it is and writes default CF entry + lock -/
def prewritePhys (c : PercCfg) (lc : Lsm.Cfg) (h : PwHdr) : Lsm.St → List Mut → Lsm.St × List KeyErr
  | s, [] => (s, [])
  | s, m :: ms =>
    let r := prewriteMut c h (view lc s) m
    -- a duplicate prewrite that leaves the transaction's own lock alone writes nothing
    let kept := c.prewriteKeepsOwnLock && m.key ≠ [] && ownLock (view lc s m.key) h.start
    let s1 := match r.2 with
      | some _ => s
      | none => if kept then s else
        let ks := r.1 m.key
        let s' := match ks.defs.find? (fun d => d.ts = h.start) with
          | some d => putMem s (defEntry m.key h.start d.val)
          | none => s
        match ks.lock with
        | some l => putMem s' (lockEntry m.key l)
        | none => s'
    let r2 := prewritePhys c lc h s1 ms
    (r2.1, r.2.toList ++ r2.2)

/-- The writes `commitKey` / `rollbackKey` / the min-commit push issued on one key, read off the
key's state before and after the request:
* a new commit record: write-CF put + lock tombstone;
* a new rollback record: write-CF put + default-CF tombstone at the start ts + lock tombstone
  (only when the lock belonged to the transaction, unless `rollbackKey` does not check);
* no new record but the lock gone (`commitKey`, already committed at another ts): lock tombstone;
* the lock changed (min-commit pushed): lock put. -/
def mirrorKey (c : PercCfg) (k : Bytes) (before after : KS) (s : Lsm.St) : Lsm.St :=
  let newW := after.writes.filter (fun w => !before.writes.contains w)
  let s1 := newW.foldl (fun s w =>
    let s := putMem s (wEntry k w)
    if w.kind == .rollback then putMem s (defEntry k w.start none) else s) s
  let rbOf : Option WRec := newW.find? (fun w => w.kind == .rollback)
  let lockDel : Bool := match rbOf with
    | some w => !c.rollbackChecksOwner || (match before.lock with
        | some l => l.ts == w.start
        | none => false)
    | none => if newW.isEmpty then before.lock.isSome && after.lock.isNone else true
  let s2 := if lockDel then putMem s1 (lockTomb k) else s1
  match before.lock, after.lock with
  | some l0, some l1 => if l0 ≠ l1 then putMem s2 (lockEntry k l1) else s2
  | _, _ => s2

/-- the requests other than prewrite: run the handler on the view, mirror its writes key by key -/
def applyPhys (c : PercCfg) (lc : Lsm.Cfg) (s : Lsm.St) (after : Store) (keys : List Bytes) : Lsm.St :=
  let v := view lc s
  (keys.filter (· ≠ [])).eraseDups.foldl (fun acc k => mirrorKey c k (v k) (after k) acc) s

/-- physical execution of a write-path request (responses are computed by the caller) -/
def applyReq (c : PercCfg) (lc : Lsm.Cfg) (s : Lsm.St) : Req → Lsm.St
  | .prewrite h muts => (prewritePhys c lc h s muts).1
  | .commit st ct keys => applyPhys c lc s (commit c st ct (view lc s) keys).1 keys
  | .rollback st keys => applyPhys c lc s (batchRollback c st (view lc s) keys).1 keys
  | .resolve st ct keys => applyPhys c lc s (resolveLock c st ct (view lc s) keys 0).1 keys
  | .check q => applyPhys c lc s (checkTxnStatus c q (view lc s)).1 [q.primary]

/-- requests interleaved with maintenance -/
inductive POp where
  | req (r : Req)
  | rotate | flush | l0move | keep | drain
  deriving DecidableEq, Repr

def pstep (c : PercCfg) (lc : Lsm.Cfg) (s : Lsm.St) : POp → Lsm.St
  | .req r => applyReq c lc s r
  | .rotate => Lsm.rotate s
  | .flush => Lsm.flush s
  | .l0move => (Lsm.l0move lc s).1
  | .keep => (Lsm.keep lc s).1
  | .drain => (Lsm.drain lc s).1

def prun (c : PercCfg) (lc : Lsm.Cfg) (s : Lsm.St) (ops : List POp) : Lsm.St := ops.foldl (pstep c lc) s

end NoKV.Perc.Phys

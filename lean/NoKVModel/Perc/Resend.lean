/-
Re-sent requests (C18): which keys a request can touch at all (frame lemmas), when it is a no-op,
and the stable predicates that carry "this request has been answered" from the moment of the
answer to any later point of the history.
-/
import NoKVModel.Perc.Outcome

namespace NoKV.Perc

/-- no lock of transaction `st` on the key -/
def NoLockOf (st : Nat) (ks : KS) : Prop := ∀ l, ks.lock = some l → l.ts ≠ st

theorem Gone.noLock {st : Nat} {ks : KS} (h : Gone st ks) : NoLockOf st ks := h.1

/-- the key carries a record of transaction `st` at commit ts `t0` -/
def HasRecAt (t0 st : Nat) (ks : KS) : Prop := ∃ w ∈ ks.writes, w.ts = t0 ∧ w.start = st

/-- `st` still holds its lock on the key, or is over on it -/
def HeldOrGone (st : Nat) (ks : KS) : Prop := Held st ks ∨ Gone st ks

/-- the request was answered with success -/
def Req.ok (c : PercCfg) (s : Store) : Req → Prop
  | .prewrite h muts => (Perc.prewrite c h s muts).2 = []
  | .commit st ct keys => (Perc.commit c st ct s keys).2 = none
  | .rollback st keys => (batchRollback c st s keys).2 = none
  | .resolve st ct keys => (resolveLock c st ct s keys 0).2.2 = none
  | .check q => (checkTxnStatus c q s).2.err = none

/-- the request would write a record of another transaction at commit ts `t0`, i.e. replace the
record `(t0, st)`: `t0` used as a commit ts by another transaction, or as the start ts of another
transaction that is rolled back -/
def Req.clobbers (t0 st : Nat) : Req → Prop
  | .prewrite _ _ => False
  | .commit s ct _ => ct = t0 ∧ s ≠ st
  | .rollback s _ => s = t0 ∧ s ≠ st
  | .resolve s ct _ => (ct ≠ 0 ∧ ct = t0 ∧ s ≠ st) ∨ (ct = 0 ∧ s = t0 ∧ s ≠ st)
  | .check q => q.lockTs = t0 ∧ q.lockTs ≠ st

/-! ### frames: a request touches only the keys it names -/

theorem prewrite_frame (c : PercCfg) (h : PwHdr) (k : Bytes) :
    ∀ (muts : List Mut) (s : Store), (∀ m ∈ muts, m.key ≠ k) → (prewrite c h s muts).1 k = s k := by
  intro muts
  induction muts with
  | nil => intro s _; rfl
  | cons m ms ih =>
    intro s hk
    simp only [prewrite]
    rw [ih _ (fun m' hm' => hk m' (List.mem_cons_of_mem _ hm'))]
    simp only [prewriteMut]
    split
    · rfl
    · exact Store.set_other _ _ _ _ (fun h' => hk m List.mem_cons_self h'.symm)

theorem rollback_frame (c : PercCfg) (st : Nat) (k : Bytes) :
    ∀ (keys : List Bytes) (s : Store), k ∉ keys → (batchRollback c st s keys).1 k = s k := by
  intro keys
  induction keys with
  | nil => intro s _; rfl
  | cons k0 rest ih =>
    intro s hk
    simp only [List.mem_cons, not_or] at hk
    simp only [batchRollback]
    split
    · rfl
    · rw [ih _ hk.2]; exact Store.set_other _ _ _ _ hk.1

theorem check_frame (c : PercCfg) (q : CsReq) (s : Store) (k : Bytes) (hk : k ≠ q.primary) :
    (checkTxnStatus c q s).1 k = s k := by
  simp only [checkTxnStatus]
  split
  · rfl
  · exact Store.set_other _ _ _ _ hk

theorem commit_frame (c : PercCfg) (st ct : Nat) (k : Bytes) :
    ∀ (keys : List Bytes) (s : Store), k ∉ keys → (commit c st ct s keys).1 k = s k := by
  intro keys
  induction keys with
  | nil => intro s _; rfl
  | cons k0 rest ih =>
    intro s hk
    simp only [List.mem_cons, not_or] at hk
    simp only [commit]
    split
    · rfl
    · cases hl : (s k0).lock with
      | none =>
        simp only
        cases hb : byStart st (s k0).writes with
        | none => rfl
        | some w =>
          simp only
          split
          · rfl
          · exact ih s hk.2
      | some l =>
        simp only
        split
        · rfl
        · cases he : (commitK c k0 l ct (s k0)).2 with
          | some e => simp only; exact Store.set_other _ _ _ _ hk.1
          | none => simp only; rw [ih _ hk.2]; exact Store.set_other _ _ _ _ hk.1

theorem resolve_frame (c : PercCfg) (st ct : Nat) (k : Bytes) :
    ∀ (keys : List Bytes) (s : Store) (n : Nat), k ∉ keys → (resolveLock c st ct s keys n).1 k = s k := by
  intro keys
  induction keys with
  | nil => intro s n _; rfl
  | cons k0 rest ih =>
    intro s n hk
    simp only [List.mem_cons, not_or] at hk
    simp only [resolveLock]
    split
    · exact ih s n hk.2
    · cases hl : (s k0).lock with
      | none => exact ih s n hk.2
      | some l =>
        simp only
        split
        · exact ih s n hk.2
        · split
          · rw [ih _ _ hk.2]; exact Store.set_other _ _ _ _ hk.1
          · cases he : (commitK c k0 l ct (s k0)).2 with
            | some e => simp only; exact Store.set_other _ _ _ _ hk.1
            | none => simp only; rw [ih _ _ hk.2]; exact Store.set_other _ _ _ _ hk.1

theorem run_append (c : PercCfg) (s : Store) (a b : List Req) : run c s (a ++ b) = run c (run c s a) b := by
  simp [run, List.foldl_append]

theorem run_cons (c : PercCfg) (s : Store) (r : Req) (b : List Req) : run c s (r :: b) = run c (apply c s r) b := rfl

/-! ### commit / resolve write only on keys that carry the transaction's lock -/

theorem commit_untouched (c : PercCfg) (st ct : Nat) (k : Bytes) (keys : List Bytes) (s : Store)
    (hn : NoLockOf st (s k)) : (commit c st ct s keys).1 k = s k := by
  have := commit_lift (P := fun key ks => key = k → ks = s k) (c := c) st ct
    (fun key l ks hl hts hp hk => by
      rw [hp hk] at hl
      exact absurd hts (hn l hl))
    keys s (fun k' hk' => by subst hk'; rfl) k
  exact this rfl

theorem resolve_untouched (c : PercCfg) (st ct : Nat) (k : Bytes) (keys : List Bytes) (s : Store) (n : Nat)
    (hn : NoLockOf st (s k)) : (resolveLock c st ct s keys n).1 k = s k := by
  have := resolve_lift (P := fun key ks => key = k → ks = s k) (c := c) st ct
    (fun key l ks _ hl hts hp hk => by
      rw [hp hk] at hl
      exact absurd hts (hn l hl))
    (fun key ks _ hex hp hk => by
      obtain ⟨l, hl, hts⟩ := hex
      rw [hp hk] at hl
      exact absurd hts (hn l hl))
    keys s n (fun k' hk' => by subst hk'; rfl) k
  exact this rfl

/-! ### rollback / check are no-ops where the transaction's record is there -/

theorem rollback_recorded (c : PercCfg) (st : Nat) (k : Bytes) (keys : List Bytes) (s : Store)
    (hi : KInv (s k)) (hr : ∃ w ∈ (s k).writes, w.start = st) : (batchRollback c st s keys).1 k = s k := by
  obtain ⟨w, hw, hs⟩ := hr
  have hno : rollbackK c st (s k) = s k := by rw [← hs]; exact rollbackK_of_mem hi hw
  have := rollback_lift (P := fun key ks => key = k → ks = s k) (c := c) st
    (fun key ks hp hk => by rw [hp hk]; exact hno)
    keys s (fun k' hk' => by subst hk'; rfl) k
  exact this rfl

theorem rollback_answers_ok (c : PercCfg) (st : Nat) :
    ∀ (keys : List Bytes) (s : Store), (∀ k ∈ keys, k ≠ []) → (batchRollback c st s keys).2 = none := by
  intro keys
  induction keys with
  | nil => intro s _; rfl
  | cons k0 rest ih =>
    intro s hk
    simp only [batchRollback, hk k0 List.mem_cons_self, if_false]
    exact ih _ (fun k hk' => hk k (List.mem_cons_of_mem _ hk'))

theorem rollback_ok_nonempty (c : PercCfg) (st : Nat) :
    ∀ (keys : List Bytes) (s : Store), (batchRollback c st s keys).2 = none → ∀ k ∈ keys, k ≠ [] := by
  intro keys
  induction keys with
  | nil => intro s _ k hk; cases hk
  | cons k0 rest ih =>
    intro s hok k hk
    simp only [batchRollback] at hok
    split at hok
    · cases hok
    · rename_i hk0
      simp only [List.mem_cons] at hk
      rcases hk with rfl | hk
      · exact hk0
      · exact ih _ hok k hk

theorem check_recorded (c : PercCfg) (q : CsReq) (s : Store) (hi : KInv (s q.primary))
    (hr : ∃ w ∈ (s q.primary).writes, w.start = q.lockTs) : ∀ k, (checkTxnStatus c q s).1 k = s k := by
  intro k
  by_cases hk : k = q.primary
  · subst hk
    simp only [checkTxnStatus]
    split
    · rfl
    · dsimp only
      rw [Store.set_same]
      obtain ⟨w, hw, hs⟩ := hr
      rcases checkTxnStatusK_cases c q (s q.primary) with h1 | h1 | ⟨l, m, hl, hts, _⟩
      · exact h1
      · rw [h1, ← hs]; exact rollbackK_of_mem hi hw
      · exact absurd (hts.trans hs.symm).symm (hi.lockFresh l hl w hw)
  · exact check_frame c q s k hk

/-! ### a duplicate prewrite is a no-op where the transaction still holds its lock or is over -/

theorem prewriteK_noop {c : PercCfg} (hc : c.conflictOp = .ge) (hk : c.prewriteKeepsOwnLock = true)
    (h : PwHdr) (m : Mut) (ks : KS) (hi : KInv ks) (hg : HeldOrGone h.start ks) : (prewriteK c h m ks).1 = ks := by
  rcases hg with ⟨l, hl, hts⟩ | hg
  · have : ¬ l.ts ≠ h.start := by simp [hts]
    simp [prewriteK, lockedByOther, ownLock, hl, hts, hk]
  · rcases prewriteK_cases c hc h m ks hi.sw with ⟨h1, _⟩ | ⟨K, V, _, _, hall, _⟩
    · exact h1
    · obtain ⟨_, w, hw, hle⟩ := hg
      have := hall w hw
      omega

theorem prewrite_noop {c : PercCfg} (hc : c.conflictOp = .ge) (hk : c.prewriteKeepsOwnLock = true) (h : PwHdr) :
    ∀ (muts : List Mut) (s : Store), (∀ k, KInv (s k)) →
      (∀ m ∈ muts, m.key ≠ [] → HeldOrGone h.start (s m.key)) → ∀ k, (prewrite c h s muts).1 k = s k := by
  intro muts
  induction muts with
  | nil => intro s _ _ k; rfl
  | cons m ms ih =>
    intro s hi hg k
    simp only [prewrite]
    have hstep : (prewriteMut c h s m).1 = s := by
      simp only [prewriteMut]
      split
      · rfl
      · rename_i hne
        simp only
        rw [prewriteK_noop hc hk h m (s m.key) (hi m.key) (hg m List.mem_cons_self hne)]
        exact Store.set_self s m.key
    rw [hstep]
    exact ih s hi (fun m' hm' => hg m' (List.mem_cons_of_mem _ hm')) k

/-! ### stable: held-or-gone -/

theorem HeldOrGone.stable {c : PercCfg} (hc : c.conflictOp = .ge) (ho : c.rollbackChecksOwner = true)
    (k0 : Bytes) (st : Nat) : KStable c (AtKey k0 (HeldOrGone st)) :=
  { pw := by
      intro h m ks hv ⟨hi, hg⟩
      refine ⟨KInv.prewriteK hc h m ks hv hi, fun hk => ?_⟩
      rcases hg hk with hh | hh
      · exact Or.inl (held_prewriteK hc st h m ks hi hh)
      · exact Or.inr (Gone.prewriteK hc st h m ks hi hh)
    cm := by
      intro key l ct ks hl hlt ⟨hi, hg⟩
      refine ⟨KInv.commitK key l ct ks hl hlt hi, fun hk => ?_⟩
      rcases hg hk with ⟨l', hl', hts'⟩ | hh
      · rw [hl] at hl'; cases hl'
        rcases commitK_cases c key l ct ks with h1 | ⟨w, hb, _⟩ | ⟨_, heq⟩
        · rw [h1]; exact Or.inl ⟨l, hl, hts'⟩
        · obtain ⟨hw, hs⟩ := byStart_some hb
          exact absurd hs (hi.lockFresh l hl w hw)
        · rw [heq, ← hts']; exact Or.inr (gone_cmState l ct ks (by omega))
      · exact Or.inr (Gone.commitK st key l ct ks hh)
    rb := by
      intro _ st' ks ⟨hi, hg⟩
      refine ⟨KInv.rollbackK st' ks hi, fun hk => ?_⟩
      rcases hg hk with hh | hh
      · by_cases heq : st' = st
        · subst heq; exact Or.inr (gone_rollbackK st' ks hi)
        · exact Or.inl (held_rollbackK ho st st' heq ks hh)
      · exact Or.inr (Gone.rollbackK st st' ks hh)
    push := by
      intro _ l m ks hl ⟨hi, hg⟩
      refine ⟨KInv.push l m ks hl hi, fun hk => ?_⟩
      rcases hg hk with ⟨l', hl', hts'⟩ | ⟨h1, h2⟩
      · rw [hl] at hl'; cases hl'
        exact Or.inl ⟨{ l with minCommit := m }, rfl, hts'⟩
      · refine Or.inr ⟨?_, h2⟩
        intro l' hl'
        simp only [pushState, Option.some.injEq] at hl'
        subst hl'
        exact h1 l hl }

/-! ### stable under requests that do not clobber it: the record `(t0, st)` -/

theorem hasRec_prewriteK {c : PercCfg} (hc : c.conflictOp = .ge) (t0 st : Nat) (h : PwHdr) (m : Mut) (ks : KS)
    (hi : KInv ks) (hr : HasRecAt t0 st ks) : HasRecAt t0 st (prewriteK c h m ks).1 := by
  rcases prewriteK_cases c hc h m ks hi.sw with ⟨h1, _⟩ | ⟨K, V, _, _, _, heq⟩
  · rw [h1]; exact hr
  · rw [heq]; exact hr

theorem hasRec_commitK {c : PercCfg} (t0 st : Nat) (key : Bytes) (l : Lock) (ct : Nat) (ks : KS)
    (hi : KInv ks) (hl : ks.lock = some l) (hnc : ¬ (ct = t0 ∧ l.ts ≠ st)) (hr : HasRecAt t0 st ks) :
    HasRecAt t0 st (commitK c key l ct ks).1 := by
  obtain ⟨w, hw, hwt, hws⟩ := hr
  rcases commitK_cases c key l ct ks with h1 | ⟨_, _, heq⟩ | ⟨_, heq⟩
  · rw [h1]; exact ⟨w, hw, hwt, hws⟩
  · rw [heq]; exact ⟨w, hw, hwt, hws⟩
  · rw [heq]
    have hne : l.ts ≠ st := fun h => hi.lockFresh l hl w hw (hws.trans h.symm)
    have hct : ct ≠ t0 := fun h => hnc ⟨h, hne⟩
    exact ⟨w, mem_ins_of_mem WRec.ts _ _ w hw (by simp only; omega), hwt, hws⟩

theorem hasRec_rollbackK {c : PercCfg} (t0 st st' : Nat) (ks : KS) (hi : KInv ks)
    (hnc : ¬ (st' = t0 ∧ st' ≠ st)) (hr : HasRecAt t0 st ks) : HasRecAt t0 st (rollbackK c st' ks) := by
  obtain ⟨w, hw, hwt, hws⟩ := hr
  rcases rollbackK_cases c st' ks with ⟨_, h1⟩ | ⟨hb, heq⟩
  · rw [h1]; exact ⟨w, hw, hwt, hws⟩
  · rw [heq]
    have hne : st' ≠ st := fun h => hi.byStart_none hb w hw (hws.trans h.symm)
    have hst : st' ≠ t0 := fun h => hnc ⟨h, hne⟩
    exact ⟨w, mem_ins_of_mem WRec.ts _ _ w hw (by simp only; omega), hwt, hws⟩

/-- **One step.**  A well-formed request that does not clobber `(t0, st)` keeps that record on `k`. -/
theorem hasRec_apply (c : PercCfg) (hc : c.conflictOp = .ge) (t0 st : Nat) (k : Bytes)
    (s : Store) (req : Req) (hwf : req.WF) (hnc : ¬ req.clobbers t0 st)
    (hs : ∀ k', AtKey k (HasRecAt t0 st) k' (s k')) : ∀ k', AtKey k (HasRecAt t0 st) k' (apply c s req k') := by
  cases req with
  | prewrite h muts =>
    simp only [apply]
    exact prewrite_lift h (fun m => m.op = .put → m.val ≠ [])
      (fun m ks hq ⟨hi, hh⟩ => ⟨KInv.prewriteK hc h m ks hq hi, fun hk => hasRec_prewriteK hc t0 st h m ks hi (hh hk)⟩)
      muts s hwf hs
  | commit s0 ct keys =>
    simp only [apply]
    have hlt : s0 < ct := hwf
    refine commit_lift s0 ct ?_ keys s hs
    intro key l ks hl hts ⟨hi, hh⟩
    refine ⟨KInv.commitK key l ct ks hl (by omega) hi, fun hk => ?_⟩
    exact hasRec_commitK t0 st key l ct ks hi hl (fun ⟨h1, h2⟩ => hnc ⟨h1, by rw [← hts]; exact h2⟩) (hh hk)
  | rollback s0 keys =>
    simp only [apply]
    exact rollback_lift s0
      (fun key ks ⟨hi, hh⟩ => ⟨KInv.rollbackK s0 ks hi, fun hk => hasRec_rollbackK t0 st s0 ks hi hnc (hh hk)⟩) keys s hs
  | resolve s0 ct keys =>
    simp only [apply]
    have hw : ct = 0 ∨ s0 < ct := hwf
    refine resolve_lift s0 ct ?_ ?_ keys s 0 hs
    · intro key l ks hz hl hts ⟨hi, hh⟩
      refine ⟨KInv.commitK key l ct ks hl (by rcases hw with h | h <;> omega) hi, fun hk => ?_⟩
      exact hasRec_commitK t0 st key l ct ks hi hl
        (fun ⟨h1, h2⟩ => hnc (Or.inl ⟨hz, h1, by rw [← hts]; exact h2⟩)) (hh hk)
    · intro key ks hz _ ⟨hi, hh⟩
      exact ⟨KInv.rollbackK s0 ks hi, fun hk =>
        hasRec_rollbackK t0 st s0 ks hi (fun ⟨h1, h2⟩ => hnc (Or.inr ⟨hz, h1, h2⟩)) (hh hk)⟩
  | check q =>
    simp only [apply]
    refine check_lift q ?_ s hs
    intro ks ⟨hi, hh⟩
    rcases checkTxnStatusK_cases c q ks with h | h | ⟨l, m, hl, _, h⟩
    · rw [h]; exact ⟨hi, hh⟩
    · rw [h]; exact ⟨KInv.rollbackK _ ks hi, fun hk => hasRec_rollbackK t0 st q.lockTs ks hi hnc (hh hk)⟩
    · rw [h]; exact ⟨KInv.push l m ks hl hi, fun hk => hh hk⟩

theorem hasRec_run (c : PercCfg) (hc : c.conflictOp = .ge) (t0 st : Nat) (k : Bytes) :
    ∀ (reqs : List Req) (s : Store), (∀ r ∈ reqs, r.WF) → (∀ r ∈ reqs, ¬ r.clobbers t0 st) →
      (∀ k', AtKey k (HasRecAt t0 st) k' (s k')) → ∀ k', AtKey k (HasRecAt t0 st) k' (run c s reqs k') := by
  intro reqs
  induction reqs with
  | nil => intro s _ _ hs; simpa [run] using hs
  | cons r rs ih =>
    intro s hwf hnc hs
    simp only [run, List.foldl_cons]
    exact ih _ (fun r' hr' => hwf r' (List.mem_cons_of_mem _ hr')) (fun r' hr' => hnc r' (List.mem_cons_of_mem _ hr'))
      (hasRec_apply c hc t0 st k s r (hwf r List.mem_cons_self) (hnc r List.mem_cons_self) hs)

/-! ### what a successful answer establishes -/

/-- after `rollbackKey`, the key carries a record of the transaction -/
theorem rollbackK_recorded (c : PercCfg) (st : Nat) (ks : KS) : ∃ w ∈ (rollbackK c st ks).writes, w.start = st := by
  rcases rollbackK_cases c st ks with ⟨⟨w, hb⟩, h1⟩ | ⟨_, heq⟩
  · rw [h1]; obtain ⟨hw, hs⟩ := byStart_some hb; exact ⟨w, hw, hs⟩
  · rw [heq]; exact ⟨⟨st, st, .rollback⟩, mem_ins_self _ _ _, rfl⟩

/-- after a successful `BatchRollback`, every key of the request carries a record of the transaction -/
theorem rollback_ok_recorded (c : PercCfg) (st : Nat) (k : Bytes) :
    ∀ (keys : List Bytes) (s : Store), Inv s → k ∈ keys → (batchRollback c st s keys).2 = none →
      ∃ w ∈ ((batchRollback c st s keys).1 k).writes, w.start = st := by
  intro keys
  induction keys with
  | nil => intro s _ hk; cases hk
  | cons k0 rest ih =>
    intro s hs hk hok
    simp only [batchRollback] at hok ⊢
    split at hok
    · cases hok
    · rename_i hk0
      simp only [hk0, if_false]
      have hs' : Inv (s.set k0 (rollbackK c st (s k0))) :=
        set_lift (P := fun _ ks => KInv ks) hs (KInv.rollbackK st (s k0) (hs k0))
      by_cases hin : k ∈ rest
      · exact ih _ hs' hin hok
      · have hkk : k = k0 := by
          simp only [List.mem_cons] at hk
          rcases hk with h | h
          · exact h
          · exact absurd h hin
        subst hkk
        rw [rollback_frame c st k rest _ hin, Store.set_same]
        exact rollbackK_recorded c st (s k)

/-- after a successful `Prewrite`, every key of the request carries the transaction's lock -/
theorem prewrite_ok_held (c : PercCfg) (hc : c.conflictOp = .ge) (h : PwHdr) (k : Bytes) :
    ∀ (muts : List Mut) (s : Store), Inv s → (∀ m ∈ muts, m.op = .put → m.val ≠ []) →
      (prewrite c h s muts).2 = [] → (∃ m ∈ muts, m.key = k) → Held h.start ((prewrite c h s muts).1 k) := by
  intro muts
  induction muts with
  | nil => intro s _ _ _ hex; obtain ⟨m, hm, _⟩ := hex; cases hm
  | cons m ms ih =>
    intro s hs hwf hok hex
    simp only [prewrite] at hok ⊢
    have h1 : (prewriteMut c h s m).2 = none := by
      cases hm : (prewriteMut c h s m).2 with
      | none => rfl
      | some e => rw [hm] at hok; simp at hok
    have h2 : (prewrite c h (prewriteMut c h s m).1 ms).2 = [] := by
      rw [h1] at hok; simpa using hok
    have hs' : Inv (prewriteMut c h s m).1 := by
      simp only [prewriteMut]
      split
      · exact hs
      · exact set_lift (P := fun _ ks => KInv ks) hs
          (KInv.prewriteK hc h m (s m.key) (hwf m List.mem_cons_self) (hs m.key))
    have hwf' : ∀ m' ∈ ms, m'.op = .put → m'.val ≠ [] := fun m' hm' => hwf m' (List.mem_cons_of_mem _ hm')
    by_cases hin : ∃ m' ∈ ms, m'.key = k
    · exact ih _ hs' hwf' h2 hin
    · have hmk : m.key = k := by
        obtain ⟨m', hm', hk'⟩ := hex
        simp only [List.mem_cons] at hm'
        rcases hm' with rfl | hm'
        · exact hk'
        · exact absurd ⟨m', hm', hk'⟩ hin
      have hfr : ∀ m' ∈ ms, m'.key ≠ k := fun m' hm' hk' => hin ⟨m', hm', hk'⟩
      rw [prewrite_frame c h k ms _ hfr]
      -- the mutation itself succeeded: its key now carries the lock
      by_cases hne : m.key = []
      · simp [prewriteMut, hne] at h1
      · simp only [prewriteMut, hne, if_false] at h1 ⊢
        rw [← hmk, Store.set_same]
        unfold prewriteK at h1 ⊢
        cases hlo : lockedByOther (s m.key) h.start with
        | some l => simp [hlo] at h1
        | none =>
          simp only [hlo] at h1 ⊢
          by_cases hkeep : (c.prewriteKeepsOwnLock && ownLock (s m.key) h.start) = true
          · simp only [hkeep, if_true]
            simp only [Bool.and_eq_true] at hkeep
            obtain ⟨_, hown⟩ := hkeep
            simp only [ownLock] at hown
            cases hl : (s m.key).lock with
            | none => simp [hl] at hown
            | some l => simp [hl] at hown; exact ⟨l, hl, hown⟩
          · simp only [hkeep, if_false, Bool.false_eq_true] at h1 ⊢
            cases hcf : conflictWith c (s m.key) h.start with
            | some w => simp [hcf] at h1
            | none =>
              simp only [hcf] at h1 ⊢
              simp only [prewriteWrite] at h1 ⊢
              cases hop : m.op with
              | put => exact ⟨mkLock h .put, rfl, rfl⟩
              | del => exact ⟨mkLock h .del, rfl, rfl⟩
              | lock => exact ⟨mkLock h .lock, rfl, rfl⟩
              | other => simp [hop] at h1

/-- after a successful `ResolveLock`, transaction `st` holds no lock on any key of the request -/
theorem resolve_ok_nolock (c : PercCfg) (hc : c.conflictOp = .ge) (st ct : Nat) (hw : ct = 0 ∨ st < ct) (k : Bytes) :
    ∀ (keys : List Bytes) (s : Store) (n : Nat), Inv s → k ∈ keys → k ≠ [] →
      (resolveLock c st ct s keys n).2.2 = none →
      NoLockOf st (s k) ∨ Gone st ((resolveLock c st ct s keys n).1 k) := by
  have hrest : ∀ (keys : List Bytes) (s : Store) (n : Nat), (∀ k', AtKey k (Gone st) k' (s k')) →
      ∀ k', AtKey k (Gone st) k' ((resolveLock c st ct s keys n).1 k') := fun keys s n hs =>
    resolve_lift st ct
      (fun key l ks _ hl hts hp => (Gone.stable hc k st).cm key l ct ks hl (by rcases hw with h | h <;> omega) hp)
      (fun key ks _ _ hp => (Gone.stable hc k st).rb key st ks hp) keys s n hs
  intro keys
  induction keys with
  | nil => intro s n _ hk; cases hk
  | cons k0 rest ih =>
    intro s n hs hk hk0 hok
    by_cases hn : NoLockOf st (s k)
    · exact Or.inl hn
    · right
      -- the rest of the loop from a store that agrees with `s` on `k`
      have key : ∀ (s' : Store) (n' : Nat), Inv s' → s' k = s k → k ∈ rest →
          (resolveLock c st ct s' rest n').2.2 = none → Gone st ((resolveLock c st ct s' rest n').1 k) := by
        intro s' n' hs' hsame hk' hok'
        rcases ih s' n' hs' hk' hk0 hok' with h | h
        · rw [hsame] at h; exact absurd h hn
        · exact h
      by_cases hkk : k = k0
      · -- `k` carries the lock of `st`: this visit resolves it
        subst hkk
        cases hl : (s k).lock with
        | none => exact absurd (fun l hl' => by rw [hl] at hl'; cases hl') hn
        | some l =>
          by_cases hts : l.ts = st
          · by_cases hz : ct = 0
            · subst hz
              simp only [resolveLock, hk0, hl, hts, ne_eq, not_true_eq_false, if_false, if_true] at hok ⊢
              have hs' : Inv (s.set k (rollbackK c st (s k))) :=
                set_lift (P := fun _ ks => KInv ks) hs (KInv.rollbackK st (s k) (hs k))
              have hg : Gone st ((s.set k (rollbackK c st (s k))) k) := by
                rw [Store.set_same]; exact gone_rollbackK st (s k) (hs k)
              exact ((hrest rest _ _ (fun k' => ⟨hs' k', fun h => by subst h; exact hg⟩)) k).2 rfl
            · simp only [resolveLock, hk0, hl, hts, hz, ne_eq, not_true_eq_false, if_false] at hok ⊢
              cases he : (commitK c k l ct (s k)).2 with
              | some e => simp [he] at hok
              | none =>
                simp only [he] at hok ⊢
                have heq := commitK_ok_inv (hs k) hl he
                have hlt : l.ts < ct := by rcases hw with h | h <;> omega
                have hs' : Inv (s.set k (commitK c k l ct (s k)).1) :=
                  set_lift (P := fun _ ks => KInv ks) hs (KInv.commitK k l ct (s k) hl hlt (hs k))
                have hg : Gone st ((s.set k (commitK c k l ct (s k)).1) k) := by
                  rw [Store.set_same, heq, ← hts]; exact gone_cmState l ct (s k) (by omega)
                exact ((hrest rest _ _ (fun k' => ⟨hs' k', fun h => by subst h; exact hg⟩)) k).2 rfl
          · exact absurd (fun l' hl' => by rw [hl] at hl'; cases hl'; exact hts) hn
      · have hk' : k ∈ rest := by
          simp only [List.mem_cons] at hk
          rcases hk with h | h
          · exact absurd h hkk
          · exact h
        by_cases he0 : k0 = []
        · simp only [resolveLock, he0, if_true] at hok ⊢
          exact key s n hs rfl hk' hok
        · cases hl : (s k0).lock with
          | none =>
            simp only [resolveLock, he0, hl, if_false] at hok ⊢
            exact key s n hs rfl hk' hok
          | some l =>
            by_cases hts : l.ts = st
            · by_cases hz : ct = 0
              · subst hz
                simp only [resolveLock, he0, hl, hts, ne_eq, not_true_eq_false, if_false, if_true] at hok ⊢
                exact key _ _ (set_lift (P := fun _ ks => KInv ks) hs (KInv.rollbackK st (s k0) (hs k0)))
                  (Store.set_other _ _ _ _ hkk) hk' hok
              · simp only [resolveLock, he0, hl, hts, hz, ne_eq, not_true_eq_false, if_false] at hok ⊢
                cases he' : (commitK c k0 l ct (s k0)).2 with
                | some e => simp [he'] at hok
                | none =>
                  simp only [he'] at hok ⊢
                  exact key _ _ (set_lift (P := fun _ ks => KInv ks) hs
                      (KInv.commitK k0 l ct (s k0) hl (by rcases hw with h | h <;> omega) (hs k0)))
                    (Store.set_other _ _ _ _ hkk) hk' hok
            · simp only [resolveLock, he0, hl, hts, ne_eq, not_false_eq_true, if_false, if_true] at hok ⊢
              exact key s n hs rfl hk' hok

end NoKV.Perc

/-
Model of the Percolator layer: `percolator/txn.go` (Prewrite, Commit, BatchRollback, ResolveLock,
CheckTxnStatus, commitKey, rollbackKey, isLockExpired), `percolator/reader.go` (GetLock,
MostRecentWrite, GetWriteByStartTs, GetValue/getWriteForRead) and `raftstore/kv/apply.go`
(handleGet, handleScan, collectVisibleValue).  Core Lean only; executable.

Storage abstraction (the composition with flush/compaction is C02's business, not modelled here):
three column families as maps `(key, ts) ↦ record`, kept *per key* as lists sorted by
descending timestamp — the order in which the DB iterators present the versions of one key:

* lock CF    : at most one lock per key (stored at the fixed version `MaxUint64`);
* write CF   : `(commitTs ↦ (startTs, kind))`;
* default CF : `(startTs ↦ value | tombstone)`; `GetVersionedEntry(cf,k,v)` returns the newest
               entry with version `≤ v` (observed on the real DB), tombstones included.

All timestamps are `Nat`; requests are assumed to carry values `< 2^64` and the two places
where Go's `uint64` arithmetic can wrap (`lock.Ts + lock.TTL`, `CallerStartTs + 1`) are
modelled with an explicit `% 2^64`.
-/
import NoKVModel.Base.Bytes
import NoKVModel.Base.Cfg

namespace NoKV.Perc

def two64 : Nat := 18446744073709551616

/-- `pb.Mutation_Op` as stored in locks and write records. -/
inductive Kind where
  | put | del | lock | rollback
  deriving DecidableEq, Repr, Inhabited

def Kind.code : Kind → Nat
  | .put => 0 | .del => 1 | .lock => 2 | .rollback => 3

/-- `pb.Mutation_Op` of a prewrite mutation: anything but Put/Delete/Lock is refused. -/
inductive MutOp where
  | put | del | lock | other
  deriving DecidableEq, Repr, Inhabited

structure Lock where
  primary : Bytes
  ts : Nat
  ttl : Nat
  kind : Kind
  minCommit : Nat
  deriving DecidableEq, Repr, Inhabited

/-- write CF record stored at `(key, ts)` -/
structure WRec where
  ts : Nat
  start : Nat
  kind : Kind
  deriving DecidableEq, Repr, Inhabited

/-- default CF entry stored at `(key, ts)`; `val = none` is a tombstone -/
structure DRec where
  ts : Nat
  val : Option Bytes
  deriving DecidableEq, Repr, Inhabited

/-- everything the three column families hold for one user key -/
structure KS where
  lock : Option Lock
  writes : List WRec      -- descending `ts`
  defs : List DRec        -- descending `ts`
  deriving DecidableEq, Repr, Inhabited

def KS.empty : KS := ⟨none, [], []⟩

abbrev Store := Bytes → KS

def Store.empty : Store := fun _ => KS.empty

def Store.set (s : Store) (k : Bytes) (v : KS) : Store := fun k' => if k' = k then v else s k'

/-- Decisions of the Go code that the proofs hinge on (filled in by the extractor). -/
structure PercCfg where
  -- reads (C17)
  /-- `getWriteForRead` passes over Rollback records -/
  getSkipsRollback : Bool
  /-- `getWriteForRead` passes over Lock (lock-only) records -/
  getSkipsLock : Bool
  /-- `collectVisibleValue` continues with the next older version on a Rollback record -/
  scanSkipsRollback : Bool
  /-- `collectVisibleValue` continues with the next older version on a Lock record -/
  scanSkipsLock : Bool
  /-- `handleScan` also meets keys that carry a lock but no write record -/
  scanSeesLockOnlyKeys : Bool
  /-- `handleGet`: `req.Version <op> lock.Ts` ⇒ blocked -/
  getLockOp : CmpOp
  /-- `handleScan`: `readTs <op> lock.Ts` ⇒ blocked -/
  scanLockOp : CmpOp
  /-- `getWriteForRead`: `ts <op> readTs` ⇒ candidate -/
  getTsOp : CmpOp
  /-- `collectVisibleValue`: `entry.Version <op> readTs` ⇒ version passed over -/
  scanVerOp : CmpOp
  -- outcome (C18)
  /-- `Commit`, lock missing: a Rollback record for the start ts makes the commit fail -/
  commitChecksRollback : Bool
  /-- `prewriteMutation`: `commitTs <op> req.StartVersion` ⇒ write conflict -/
  conflictOp : CmpOp
  -- locks (C19)
  /-- `rollbackKey` removes the lock only when it belongs to the transaction rolled back -/
  rollbackChecksOwner : Bool
  /-- `isLockExpired`: `currentTs <op> lock.Ts+lock.TTL` -/
  ttlOp : CmpOp
  /-- `isLockExpired` does not let `lock.Ts+lock.TTL` wrap around -/
  ttlOverflowGuard : Bool
  /-- `commitKey`: `lock.MinCommitTs <op> commitVersion` ⇒ refused -/
  minCommitOp : CmpOp
  /-- `prewriteMutation`: a key already locked by the same transaction is left as it is (duplicate
  request); as found, the lock and the default-CF entry are written again from the request -/
  prewriteKeepsOwnLock : Bool
  deriving DecidableEq, Repr

def PercCfg.good : PercCfg :=
  { getSkipsRollback := true, getSkipsLock := true, scanSkipsRollback := true, scanSkipsLock := true,
    scanSeesLockOnlyKeys := true, getLockOp := .ge, scanLockOp := .ge, getTsOp := .le, scanVerOp := .gt,
    commitChecksRollback := true, conflictOp := .ge,
    rollbackChecksOwner := true, ttlOp := .ge, ttlOverflowGuard := true, minCommitOp := .gt,
    prewriteKeepsOwnLock := true }

/-- The tree as found (every finding flag at its bad value). -/
def PercCfg.asis : PercCfg :=
  { getSkipsRollback := false, getSkipsLock := false, scanSkipsRollback := false, scanSkipsLock := false,
    scanSeesLockOnlyKeys := false, getLockOp := .ge, scanLockOp := .ge, getTsOp := .le, scanVerOp := .gt,
    commitChecksRollback := false, conflictOp := .ge,
    rollbackChecksOwner := false, ttlOp := .ge, ttlOverflowGuard := false, minCommitOp := .gt,
    prewriteKeepsOwnLock := false }

/-- comparison operators of the read path -/
def PercCfg.ReadOps (c : PercCfg) : Prop :=
  c.getLockOp = .ge ∧ c.scanLockOp = .ge ∧ c.getTsOp = .le ∧ c.scanVerOp = .gt
instance PercCfg.decReadOps (c : PercCfg) : Decidable c.ReadOps := by unfold PercCfg.ReadOps; exact inferInstance

/-- the read path passes over rollback and lock-only records (get and scan) -/
def PercCfg.ReadSkips (c : PercCfg) : Prop :=
  c.getSkipsRollback = true ∧ c.getSkipsLock = true ∧ c.scanSkipsRollback = true ∧ c.scanSkipsLock = true
instance PercCfg.decReadSkips (c : PercCfg) : Decidable c.ReadSkips := by unfold PercCfg.ReadSkips; exact inferInstance

def PercCfg.ReadGood (c : PercCfg) : Prop := c.ReadOps ∧ c.ReadSkips
instance PercCfg.decReadGood (c : PercCfg) : Decidable c.ReadGood := by unfold PercCfg.ReadGood; exact inferInstance

def PercCfg.ScanGood (c : PercCfg) : Prop := c.ReadGood ∧ c.scanSeesLockOnlyKeys = true
instance PercCfg.decScanGood (c : PercCfg) : Decidable c.ScanGood := by unfold PercCfg.ScanGood; exact inferInstance

def PercCfg.ConflictGood (c : PercCfg) : Prop := c.conflictOp = .ge
instance PercCfg.decConflictGood (c : PercCfg) : Decidable c.ConflictGood := by unfold PercCfg.ConflictGood; exact inferInstance

def PercCfg.CommitGood (c : PercCfg) : Prop := c.conflictOp = .ge ∧ c.commitChecksRollback = true
instance PercCfg.decCommitGood (c : PercCfg) : Decidable c.CommitGood := by unfold PercCfg.CommitGood; exact inferInstance

/-- what the idempotence of prewrite needs -/
def PercCfg.ResendGood (c : PercCfg) : Prop :=
  c.conflictOp = .ge ∧ c.rollbackChecksOwner = true ∧ c.prewriteKeepsOwnLock = true
instance PercCfg.decResendGood (c : PercCfg) : Decidable c.ResendGood := by unfold PercCfg.ResendGood; exact inferInstance

def PercCfg.OwnerGood (c : PercCfg) : Prop := c.conflictOp = .ge ∧ c.rollbackChecksOwner = true
instance PercCfg.decOwnerGood (c : PercCfg) : Decidable c.OwnerGood := by unfold PercCfg.OwnerGood; exact inferInstance

def PercCfg.TtlGood (c : PercCfg) : Prop := c.ttlOp = .ge ∧ c.ttlOverflowGuard = true
instance PercCfg.decTtlGood (c : PercCfg) : Decidable c.TtlGood := by unfold PercCfg.TtlGood; exact inferInstance

def PercCfg.TtlAsis (c : PercCfg) : Prop := c.ttlOp = .ge ∧ c.ttlOverflowGuard = false
instance PercCfg.decTtlAsis (c : PercCfg) : Decidable c.TtlAsis := by unfold PercCfg.TtlAsis; exact inferInstance

def PercCfg.MinCommitGood (c : PercCfg) : Prop := c.minCommitOp = .gt
instance PercCfg.decMinCommitGood (c : PercCfg) : Decidable c.MinCommitGood := by unfold PercCfg.MinCommitGood; exact inferInstance

/-! ### versioned lists (descending timestamp, one entry per timestamp) -/

/-- `SetVersionedEntry` on one key of a column family: insert at its place in the descending
version order, replacing an entry with the same version. -/
def ins {α : Type} (ts : α → Nat) (r : α) : List α → List α
  | [] => [r]
  | x :: xs => if ts x < ts r then r :: x :: xs else if ts x = ts r then r :: xs else x :: ins ts r xs

/-- write CF -/
def insW (r : WRec) (l : List WRec) : List WRec := ins WRec.ts r l

/-- default CF (`SetVersionedEntry` / `DeleteVersionedEntry`) -/
def insD (r : DRec) (l : List DRec) : List DRec := ins DRec.ts r l

/-- `GetVersionedEntry(CFDefault, key, v)`: newest entry with version `≤ v` (tombstones included). -/
def getAt (l : List DRec) (v : Nat) : Option DRec := l.find? (fun d => d.ts ≤ v)

/-! ### reader.go -/

/-- `MostRecentWrite` -/
def mostRecent (ws : List WRec) : Option WRec := ws.head?

/-- `GetWriteByStartTs`: versions are visited newest first; a match ends the walk, and so does
the first version older than `startTs`. -/
def byStart (start : Nat) : List WRec → Option WRec
  | [] => none
  | w :: rest => if w.start = start then some w else if w.ts < start then none else byStart start rest

def getSkips (c : PercCfg) (k : Kind) : Bool :=
  (c.getSkipsRollback && k == .rollback) || (c.getSkipsLock && k == .lock)

/-- `getWriteForRead`: the newest version satisfying `ts <op> readTs` (and not passed over). -/
def writeForRead (c : PercCfg) (t : Nat) (ws : List WRec) : Option WRec :=
  ws.find? (fun w => c.getTsOp.nat w.ts t && !getSkips c w.kind)

inductive ReadRes where
  | notFound
  | value (v : Bytes)
  | locked (l : Lock)
  deriving DecidableEq, Repr

/-- `GetValue` once the write record is chosen -/
def valueOf (defs : List DRec) : Option WRec → ReadRes
  | none => .notFound
  | some w =>
    if w.kind = .del ∨ w.kind = .rollback then .notFound
    else match getAt defs w.start with
      | none => .notFound
      | some d => match d.val with
        | none => .notFound
        | some v => if v = [] then .notFound else .value v

/-- `GetValue` -/
def getValue (c : PercCfg) (ks : KS) (t : Nat) : ReadRes :=
  valueOf ks.defs (writeForRead c t ks.writes)

/-- `handleGet` for a non-empty key -/
def getK (c : PercCfg) (ks : KS) (t : Nat) : ReadRes :=
  match ks.lock with
  | some l => if c.getLockOp.nat t l.ts then .locked l else getValue c ks t
  | none => getValue c ks t

def get (c : PercCfg) (s : Store) (k : Bytes) (t : Nat) : ReadRes := getK c (s k) t

/-! ### apply.go: scan -/

def scanSkips (c : PercCfg) (k : Kind) : Bool :=
  (c.scanSkipsRollback && k == .rollback) || (c.scanSkipsLock && k == .lock)

/-- `collectVisibleValue` over the versions of one key (newest first). `some v` = found. -/
def scanWalk (c : PercCfg) (defs : List DRec) (t : Nat) : List WRec → Option Bytes
  | [] => none
  | w :: rest =>
    if c.scanVerOp.nat w.ts t then scanWalk c defs t rest
    else if scanSkips c w.kind then scanWalk c defs t rest
    else if w.kind = .del ∨ w.kind = .rollback then none
    else match getAt defs w.start with
      | none => scanWalk c defs t rest
      | some d => some (d.val.getD [])

/-- does `handleScan` meet this key at all -/
def scanVisits (c : PercCfg) (ks : KS) : Bool :=
  !ks.writes.isEmpty || (c.scanSeesLockOnlyKeys && ks.lock.isSome)

def inScanRange (startKey : Bytes) (incl : Bool) (k : Bytes) : Bool :=
  startKey.isEmpty || Bytes.lt startKey k || (incl && k == startKey)

structure ScanOut where
  kvs : List (Bytes × Bytes)       -- in key order
  err : Option (Bytes × Lock)
  deriving DecidableEq, Repr

/-- the scan loop over the keys of the store (ascending), `room` = results still wanted -/
def scanLoop (c : PercCfg) (s : Store) (startKey : Bytes) (incl : Bool) (t : Nat) :
    Nat → List Bytes → ScanOut
  | 0, _ => ⟨[], none⟩
  | _, [] => ⟨[], none⟩
  | room + 1, k :: rest =>
    if !(scanVisits c (s k)) || !(inScanRange startKey incl k) then scanLoop c s startKey incl t (room + 1) rest
    else
      let blocked : Option Lock := match (s k).lock with
        | some l => if c.scanLockOp.nat t l.ts then some l else none
        | none => none
      match blocked with
      | some l => ⟨[], some (k, l)⟩
      | none =>
        match scanWalk c (s k).defs t (s k).writes with
        | some v =>
          let r := scanLoop c s startKey incl t room rest
          ⟨(k, v) :: r.kvs, r.err⟩
        | none => scanLoop c s startKey incl t (room + 1) rest

/-- `handleScan` (forward): `limit ≤ 0 ⇒ 1`, `version 0 ⇒ MaxUint64`; `keys` = the user keys of the
store in ascending order. -/
def scan (c : PercCfg) (s : Store) (keys : List Bytes) (startKey : Bytes) (incl : Bool) (limit ver : Nat) : ScanOut :=
  scanLoop c s startKey incl (if ver = 0 then two64 - 1 else ver) (if limit = 0 then 1 else limit) keys

/-! ### txn.go -/

inductive AbortWhy where
  | emptyKey | badOp | noLock | rolledBack
  deriving DecidableEq, Repr

inductive KeyErr where
  | locked (key : Bytes) (l : Lock)
  | conflict (key primary : Bytes) (conflictTs startTs commitTs : Nat)
  | abort (why : AbortWhy)
  | expired (key : Bytes) (commitTs minCommit : Nat)
  | retry
  deriving DecidableEq, Repr

structure PwHdr where
  start : Nat
  primary : Bytes
  ttl : Nat
  minCommit : Nat
  deriving DecidableEq, Repr

structure Mut where
  op : MutOp
  key : Bytes
  val : Bytes
  deriving DecidableEq, Repr

def mkLock (h : PwHdr) (k : Kind) : Lock := ⟨h.primary, h.start, h.ttl, k, h.minCommit⟩

/-- `lock != nil && lock.Ts != req.StartVersion` -/
def lockedByOther (ks : KS) (start : Nat) : Option Lock :=
  match ks.lock with
  | some l => if l.ts ≠ start then some l else none
  | none => none

/-- `write != nil && commitTs <op> req.StartVersion` on the most recent write -/
def conflictWith (c : PercCfg) (ks : KS) (start : Nat) : Option WRec :=
  match mostRecent ks.writes with
  | some w => if c.conflictOp.nat w.ts start then some w else none
  | none => none

/-- the writes of `prewriteMutation`: default CF entry (or tombstone) and the lock -/
def prewriteWrite (h : PwHdr) (m : Mut) (ks : KS) : KS × Option KeyErr :=
  match m.op with
  | .put => (⟨some (mkLock h .put), ks.writes, insD ⟨h.start, some m.val⟩ ks.defs⟩, none)
  | .del => (⟨some (mkLock h .del), ks.writes, insD ⟨h.start, none⟩ ks.defs⟩, none)
  | .lock => (⟨some (mkLock h .lock), ks.writes, insD ⟨h.start, none⟩ ks.defs⟩, none)
  | .other => (ks, some (.abort .badOp))

/-- the key carries a lock of this very transaction -/
def ownLock (ks : KS) (start : Nat) : Bool :=
  match ks.lock with
  | some l => l.ts == start
  | none => false

/-- `prewriteMutation` after the empty-key test, on the state of its key -/
def prewriteK (c : PercCfg) (h : PwHdr) (m : Mut) (ks : KS) : KS × Option KeyErr :=
  match lockedByOther ks h.start with
  | some l => (ks, some (.locked m.key l))
  | none =>
    if c.prewriteKeepsOwnLock && ownLock ks h.start then (ks, none) else
    match conflictWith c ks h.start with
    | some w => (ks, some (.conflict m.key h.primary w.ts w.start h.start))
    | none => prewriteWrite h m ks

def prewriteMut (c : PercCfg) (h : PwHdr) (s : Store) (m : Mut) : Store × Option KeyErr :=
  if m.key = [] then (s, some (.abort .emptyKey))
  else
    let r := prewriteK c h m (s m.key)
    (s.set m.key r.1, r.2)

/-- `Prewrite`: every mutation is attempted; the errors are collected in order. -/
def prewrite (c : PercCfg) (h : PwHdr) : Store → List Mut → Store × List KeyErr
  | s, [] => (s, [])
  | s, m :: ms =>
    let r := prewriteMut c h s m
    let r2 := prewrite c h r.1 ms
    (r2.1, r.2.toList ++ r2.2)

/-- `commitKey` -/
def commitK (c : PercCfg) (key : Bytes) (l : Lock) (commitTs : Nat) (ks : KS) : KS × Option KeyErr :=
  if c.minCommitOp.nat l.minCommit commitTs then (ks, some (.expired key commitTs l.minCommit))
  else match byStart l.ts ks.writes with
    | some w =>
      if w.kind = .rollback then (ks, some (.abort .rolledBack))
      else if w.ts ≠ commitTs then (⟨none, ks.writes, ks.defs⟩, none)
      else (ks, none)
    | none => (⟨none, insW ⟨commitTs, l.ts, l.kind⟩ ks.writes, ks.defs⟩, none)

/-- lock after `rollbackKey` got past its write-record test -/
def lockAfterRollback (c : PercCfg) (start : Nat) (lk : Option Lock) : Option Lock :=
  if c.rollbackChecksOwner then
    match lk with
    | some l => if l.ts = start then none else some l
    | none => none
  else none

/-- `rollbackKey` -/
def rollbackK (c : PercCfg) (start : Nat) (ks : KS) : KS :=
  match byStart start ks.writes with
  | some _ => ks
  | none => ⟨lockAfterRollback c start ks.lock, insW ⟨start, start, .rollback⟩ ks.writes, insD ⟨start, none⟩ ks.defs⟩

/-- `Commit`: keys in order, the first failure ends the request (earlier keys stay committed). -/
def commit (c : PercCfg) (start commitTs : Nat) : Store → List Bytes → Store × Option KeyErr
  | s, [] => (s, none)
  | s, k :: rest =>
    if k = [] then (s, some (.abort .emptyKey))
    else match (s k).lock with
      | none =>
        match byStart start (s k).writes with
        | some w =>
          if c.commitChecksRollback && w.kind == .rollback then (s, some (.abort .rolledBack))
          else commit c start commitTs s rest
        | none => (s, some (.abort .noLock))
      | some l =>
        if l.ts ≠ start then (s, some (.locked k l))
        else
          let r := commitK c k l commitTs (s k)
          match r.2 with
          | some e => (s.set k r.1, some e)
          | none => commit c start commitTs (s.set k r.1) rest

/-- `BatchRollback` -/
def batchRollback (c : PercCfg) (start : Nat) : Store → List Bytes → Store × Option KeyErr
  | s, [] => (s, none)
  | s, k :: rest =>
    if k = [] then (s, some (.abort .emptyKey))
    else batchRollback c start (s.set k (rollbackK c start (s k))) rest

/-- `ResolveLock`: returns the number of resolved keys -/
def resolveLock (c : PercCfg) (start commitTs : Nat) : Store → List Bytes → Nat → Store × Nat × Option KeyErr
  | s, [], n => (s, n, none)
  | s, k :: rest, n =>
    if k = [] then resolveLock c start commitTs s rest n
    else match (s k).lock with
      | none => resolveLock c start commitTs s rest n
      | some l =>
        if l.ts ≠ start then resolveLock c start commitTs s rest n
        else if commitTs = 0 then
          resolveLock c start commitTs (s.set k (rollbackK c start (s k))) rest (n + 1)
        else
          let r := commitK c k l commitTs (s k)
          match r.2 with
          | some e => (s.set k r.1, n, some e)
          | none => resolveLock c start commitTs (s.set k r.1) rest (n + 1)

/-- `isLockExpired` -/
def isExpired (c : PercCfg) (l : Lock) (cur : Nat) : Bool :=
  if l.ttl = 0 then false
  else if c.ttlOverflowGuard then
    (if l.ts + l.ttl < two64 then c.ttlOp.nat cur (l.ts + l.ttl) else false)
  else c.ttlOp.nat cur ((l.ts + l.ttl) % two64)

structure CsReq where
  primary : Bytes
  lockTs : Nat
  cur : Nat
  rollbackIfNotExist : Bool
  caller : Nat
  deriving DecidableEq, Repr

/-- `CheckTxnStatusResponse`; action: 0 none, 1 TTL-expire rollback, 2 lock-not-exist rollback, 3 min-commit pushed -/
structure CsResp where
  err : Option KeyErr := none
  ttl : Nat := 0
  commitVersion : Nat := 0
  action : Nat := 0
  deriving DecidableEq, Repr

def checkTxnStatusK (c : PercCfg) (q : CsReq) (ks : KS) : KS × CsResp :=
  match ks.lock with
  | some l =>
    if l.ts ≠ q.lockTs then (ks, { err := some (.locked q.primary l) })
    else if isExpired c l q.cur then (rollbackK c q.lockTs ks, { action := 1 })
    else if 0 < q.caller ∧ l.minCommit < (q.caller + 1) % two64 then
      (⟨some { l with minCommit := (q.caller + 1) % two64 }, ks.writes, ks.defs⟩, { ttl := l.ttl, action := 3 })
    else (ks, { ttl := l.ttl })
  | none =>
    match byStart q.lockTs ks.writes with
    | some w =>
      if w.kind = .rollback then (ks, { action := 2 }) else (ks, { commitVersion := w.ts })
    | none =>
      if q.rollbackIfNotExist then (rollbackK c q.lockTs ks, { action := 2 }) else (ks, {})

/-- `CheckTxnStatus`; the empty primary key fails in `GetLock` (`ErrEmptyKey`, reported retryable) -/
def checkTxnStatus (c : PercCfg) (q : CsReq) (s : Store) : Store × CsResp :=
  if q.primary = [] then (s, { err := some .retry })
  else
    let r := checkTxnStatusK c q (s q.primary)
    (s.set q.primary r.1, r.2)

/-! ### requests and histories -/

inductive Req where
  | prewrite (h : PwHdr) (muts : List Mut)
  | commit (start commitTs : Nat) (keys : List Bytes)
  | rollback (start : Nat) (keys : List Bytes)
  | resolve (start commitTs : Nat) (keys : List Bytes)
  | check (q : CsReq)
  deriving DecidableEq, Repr

/-- state after one write-path request (reads do not change the state) -/
def apply (c : PercCfg) (s : Store) : Req → Store
  | .prewrite h muts => (prewrite c h s muts).1
  | .commit st ct keys => (commit c st ct s keys).1
  | .rollback st keys => (batchRollback c st s keys).1
  | .resolve st ct keys => (resolveLock c st ct s keys 0).1
  | .check q => (checkTxnStatus c q s).1

def run (c : PercCfg) (s : Store) (reqs : List Req) : Store := reqs.foldl (apply c) s

/-- Requests as a well-behaved client sends them: a commit timestamp is above its start
timestamp, a put carries a non-empty value. -/
def Req.WF : Req → Prop
  | .prewrite _ muts => ∀ m ∈ muts, m.op = .put → m.val ≠ []
  | .commit st ct _ => st < ct
  | .rollback _ _ => True
  | .resolve st ct _ => ct = 0 ∨ st < ct
  | .check _ => True

instance Req.decWF (r : Req) : Decidable r.WF := by
  cases r <;> simp only [Req.WF] <;> exact inferInstance

end NoKV.Perc

/-
Byte-level deciders for the Disk driver: from the encoded sizes stated in the workload
(`est` = kv.EstimateEncodeSize, `plen` = WAL payload length, `vlen` = value-log record length)
they compute the size-dependent decisions `Dec` of every entry — where `lsm.SetBatch` rotates
the memtable and cuts `wal.Append` calls, where the WAL's `bufio.Writer` spills, where the value
log rotates, and whether the 1 MiB head-persist interval has elapsed.

The property theorems quantify over *all* decision lists; these functions only make the driver's
prediction of the real trace exact.
-/
import NoKVModel.Disk.Model

namespace NoKV.Disk

structure ESz where
  ent : Ent
  est : Nat
  plen : Nat
  vlen : Nat
  deriving Repr, Inhabited

def ESz.wlen (e : ESz) : Nat := e.plen + 9

/-- `bufio.Writer` of the WAL: 256 KiB (`wal/manager.go:defaultBufferSize`) -/
def bufCap : Nat := 262144

/-- `bufio.Writer.Write` of `w` bytes with `n` bytes buffered: (buffered afterwards, flush/write events) -/
def bufWrite (n w : Nat) : Nat × Nat :=
  if w ≤ bufCap - n then (n + w, 0)
  else if n = 0 then (0, 1)
  else
    let w' := w - (bufCap - n)
    if w' ≤ bufCap then (w', 1) else (0, 2)

/-- `wal.EncodeRecord`: four `Write` calls (length, type, payload, crc) -/
def recWrite (n plen : Nat) : Nat × Nat :=
  let (n1, e1) := bufWrite n 4
  let (n2, e2) := bufWrite n1 1
  let (n3, e3) := bufWrite n2 plen
  let (n4, e4) := bufWrite n3 4
  (n4, e1 + e2 + e3 + e4)

structure ByteSt where
  mt : Nat := 0          -- MemTableSize
  vf : Nat := 0          -- ValueLogFileSize
  walN : Nat := 0        -- bytes in the WAL's bufio buffer
  memWal : Nat := 0      -- `walSize` of the active memtable
  vOff : Nat := 20       -- write offset of the active value-log file (`kv.ValueLogHeaderSize`)
  headOff : Nat := 0     -- offset recorded by the last head edit
  vMap : Nat := 0        -- size of the active value-log file / its mmap (grown by doubling)
  deriving Repr

/-- chunk plan of `lsm.SetBatch` as it is in the tree: (rotate before entry, entry starts a new `wal.Append`) -/
def planAsIs (mt : Nat) : Nat → Option (Nat × Nat × Nat) → List ESz → List (Bool × Bool) × Nat
  | memWal, none, [] => ([], memWal)
  | memWal, some (_, _, cw), [] => ([], memWal + cw)
  | memWal, some (used, avail, cw), e :: r =>
    if used + e.est > avail then
      -- close the chunk (Append), then start a new one with `e`
      let memWal := memWal + cw
      let rot := decide (mt - memWal = 0) || decide (e.est > mt - memWal)
      let memWal' := if rot then 0 else memWal
      let (rest, m) := planAsIs mt memWal' (some (e.est, mt - memWal', e.wlen)) r
      ((rot, true) :: rest, m)
    else
      let (rest, m) := planAsIs mt memWal (some (used + e.est, avail, cw + e.wlen)) r
      ((false, false) :: rest, m)
  | memWal, none, e :: r =>
    let rot := decide (mt - memWal = 0) || decide (e.est > mt - memWal)
    let memWal' := if rot then 0 else memWal
    let (rest, m) := planAsIs mt memWal' (some (e.est, mt - memWal', e.wlen)) r
    ((rot, true) :: rest, m)

/-- chunk plan of the repaired `SetBatch`: the whole batch goes into one memtable, rotating first
when it does not fit next to what is already there -/
def planWhole (mt memWal : Nat) (es : List ESz) : List (Bool × Bool) × Nat :=
  let total := (es.map (·.est)).foldl (· + ·) 0
  let rot := decide (0 < memWal) && decide (memWal + total > mt)
  let base := if rot then 0 else memWal
  (es.zipIdx.map (fun (_, i) => (rot && i == 0, i == 0)), base + (es.map (·.wlen)).foldl (· + ·) 0)

/-- WAL buffer accounting, per-record writes (as-is): (pre events, post) per entry -/
def walAsIs : Nat → List (ESz × Bool × Bool) → List (Nat × Bool) × Nat
  | n, [] => ([], n)
  | n, (e, rot, _) :: r =>
    let n0 := if rot then 0 else n
    let (n1, ev) := recWrite n0 e.plen
    let (rest, nf) := walAsIs n1 r
    ((ev, false) :: rest, nf)

def chunkLen : List (ESz × Bool × Bool) → Nat
  | [] => 0
  | (e, _, cs) :: r => if cs then 0 else e.wlen + chunkLen r

/-- WAL buffer accounting of the repaired `AppendRecords` (one `Write` per call, flushing first when
the call would not fit behind what is buffered) -/
def walAtomic : Nat → List (ESz × Bool × Bool) → List (Nat × Bool) × Nat
  | n, [] => ([], n)
  | n, (e, rot, cs) :: r =>
    let n0 := if rot then 0 else n
    if cs then
      let total := e.wlen + chunkLen r
      let pre := decide (0 < n0) && decide (n0 + total > bufCap)
      let n1 := if pre then 0 else n0
      let direct := decide (total > bufCap - n1)
      let n2 := if direct then 0 else n1 + total
      -- `post` belongs to the last entry of the chunk; propagate through a marker on this entry
      let (rest, nf) := walAtomic n2 r
      (((if pre then 1 else 0), direct) :: rest, nf)
    else
      let (rest, nf) := walAtomic n r
      ((0, false) :: rest, nf)

/-- move the `direct` marker of a chunk from its first entry to its last entry -/
def spreadPost : Bool → List ((Nat × Bool) × Bool) → List (Nat × Bool)
  | _, [] => []
  | carry, ((pre, direct), _cs) :: r =>
    -- `carry` = the chunk this entry belongs to is written through
    let c := if _cs then direct else carry
    let endsHere := match r with
      | [] => true
      | (_, cs') :: _ => cs'
    (pre, c && endsHere) :: spreadPost c r

/-- value-log placement: rotate-before flags (`vlog/io.go:AppendEntries/reserve`) -/
def vlogRots (vf : Nat) (off : Nat) (es : List ESz) : List Bool :=
  let bigs := es.filter (·.ent.big)
  let total := (bigs.map (·.vlen)).foldl (· + ·) 0
  if total = 0 then es.map (fun _ => false)
  else if total > vf then
    -- every payload reserved on its own
    let rec go : Nat → List ESz → List Bool
      | _, [] => []
      | off, e :: r =>
        if e.ent.big then
          let rot := decide (off + e.vlen > vf)
          rot :: go ((if rot then 20 else off) + e.vlen) r
        else false :: go off r
    go off es
  else
    let rot := decide (off + total > vf)
    let rec mark : Bool → List ESz → List Bool
      | _, [] => []
      | pendingRot, e :: r => if e.ent.big then pendingRot :: mark false r else false :: mark pendingRot r
    mark rot es

/-- offsets and mmap growth (`file/mmap_linux.go:AppendBuffer`): per entry the number of
ftruncate events before its store; returns the final (offset, map size) -/
def vlogGrow (vf : Nat) : Nat → Nat → List (ESz × Bool) → List Nat × Nat × Nat
  | off, vmap, [] => ([], off, vmap)
  | off, vmap, (e, rot) :: r =>
    if e.ent.big then
      let off0 := if rot then 20 else off
      let vmap0 := if rot then vf else vmap
      let end_ := off0 + e.vlen
      let grow := decide (end_ > vmap0)
      let growBy := max (min vmap0 1073741824) e.vlen
      let vmap1 := if grow then max (vmap0 + growBy) end_ else vmap0
      let (rest, o, m) := vlogGrow vf end_ vmap1 r
      ((if grow then 1 else 0) :: rest, o, m)
    else
      let (rest, o, m) := vlogGrow vf off vmap r
      (0 :: rest, o, m)

/-- all size-dependent decisions of one commit -/
def decide_ (c : Cfg) (b : ByteSt) (lastHeadIsActive : Bool) (es : List ESz) : List (Ent × Dec) × Bool × ByteSt :=
  let vrots := vlogRots b.vf b.vOff es
  let (vgrows, vOff', vMap') := vlogGrow b.vf b.vOff b.vMap (es.zip vrots)
  let (plan, memWal') := if c.batchWhole then planWhole b.mt b.memWal es else planAsIs b.mt b.memWal none es
  let trip := es.zip plan |>.map (fun (e, (rot, cs)) => (e, rot, cs))
  let (wal, walN') :=
    if c.atomicAppend then
      let (w, n) := walAtomic b.walN trip
      (spreadPost false (w.zip (plan.map (·.2))), n)
    else walAsIs b.walN trip
  let anyRot := vrots.any id
  let delta := lastHeadIsActive && !anyRot && decide (vOff' - b.headOff ≥ 1048576)
  let decs := (es.zip (vrots.zip (vgrows.zip (plan.zip wal)))).map (fun (e, vr, vg, (rot, cs), (pre, post)) =>
    (e.ent, ({ vrot := vr, vgrow := vg, mrot := rot, cstart := cs, pre := pre, post := post } : Dec)))
  (decs, delta, { b with vOff := vOff', vMap := vMap', memWal := memWal', walN := walN' })

end NoKV.Disk

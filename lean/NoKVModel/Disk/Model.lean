/-
E-Disk: the abstract disk of the embedded engine and its crash/recovery (C09, C10, C12).

What is modelled (anchors in /repo):
  * `db_write.go:commitWorker/applyRequests`, `vlog.go:valueLog.write/updateHead/shouldPersistHead`,
    `lsm/lsm.go:SetBatch`, `lsm/memtable.go:setBatch/recovery/openMemTable`,
    `wal/manager.go:AppendRecords/Sync/switchSegmentLocked/Close` (bufio buffer = volatile tail),
    `lsm/levels.go:flush`, `vlog.go:reconcileManifest`, `db.go:Open/closeInternal`, `txn.go:initCommitState`.
  * Every engine procedure is a LIST OF ATOMIC STEPS in the order the code performs them; the
    order-relevant decisions are fields of `Cfg` (extracted from the source on every run).
  * A *process* crash keeps every completed step's durable effect (files as the kernel sees them:
    completed write(2)s, mmap stores, creates, removes, manifest appends) and drops the volatile
    part (bufio buffer of the WAL, memtables, in-memory heads).  Power loss is out of scope.

Durable state is organised per WAL segment / memtable generation (`Seg`): the records appended to
it, how many of them have reached the WAL file, and which of its three durable representations
exist (WAL file, SST file, manifest entry + log pointer).  Flushes are FIFO (one flush worker),
so "log pointer ≥ id" is the segment's own `inMan` flag.
-/
namespace NoKV.Disk

/-- order of the three durable effects of `levelManager.flush` -/
inductive FlushOrder where
  | sstManifestRemove   -- write SST, log manifest edits, remove WAL segment (as-is)
  | sstRemoveManifest   -- WAL segment removed before the manifest knows the table
  | manifestSstRemove   -- manifest edit before the SST exists
  deriving DecidableEq, Repr, Inhabited

structure Cfg where
  /-- `db.commitOrder`: `wal.Sync` (under SyncWrites) precedes `finishCommitRequests` -/
  ackAfterSync : Bool
  /-- `db.applyOrder`: `updateHead` precedes `writeToLSM` (as-is: false) -/
  headFirst : Bool
  /-- `lsm.batchSplit`: `SetBatch` never splits one batch across a memtable rotation (as-is: false) -/
  batchWhole : Bool
  /-- `wal.batchAppend`: a batch reaches the WAL file in one piece (as-is: false, per-record bufio writes) -/
  atomicAppend : Bool
  /-- `flush.order` -/
  flushOrder : FlushOrder
  /-- `close.order`: `wal.Manager.Close` flushes the buffer before closing -/
  closeFlushesWal : Bool
  /-- `vlog.headPersistRule`: head is logged whenever the active file id changed -/
  headOnFidChange : Bool
  /-- `reconcile.rule`: files above the highest manifest-valid id are removed on open -/
  reconcileDrops : Bool
  /-- `oracle.seed`: `MaxVersion` covers replayed memtables / manifest tables; next ts = max + 1 -/
  seedMem : Bool
  seedTables : Bool
  seedPlusOne : Bool
  /-- `oracle.seedOp`: `initCommitState` moves the oracle when `committed >= nextTxnTs` (true) or only when `>` -/
  seedGe : Bool
  deriving DecidableEq, Repr

def Cfg.good : Cfg :=
  { ackAfterSync := true, headFirst := true, batchWhole := true, atomicAppend := true,
    flushOrder := .sstManifestRemove, closeFlushesWal := true, headOnFidChange := true,
    reconcileDrops := true, seedMem := true, seedTables := true, seedPlusOne := true, seedGe := true }

/-- the unchanged tree (three open findings of C10) -/
def Cfg.asis : Cfg := { Cfg.good with headFirst := false, batchWhole := false, atomicAppend := false }

/-- one entry of a write batch as the workload states it -/
structure Ent where
  key : Nat
  big : Bool        -- value ≥ ValueThreshold: goes to the value log, the LSM keeps a pointer
  wlen : Nat := 0   -- bytes of its WAL record (only the driver's byte accounting reads it)
  deriving DecidableEq, Repr, Inhabited

/-- a stored record: (key, version) written by batch `bid`; `ptr = some fid` = value-log pointer -/
structure Rec where
  key : Nat
  ver : Nat
  bid : Nat
  ptr : Option Nat
  fin : Bool        -- ghost: last record of its batch
  wlen : Nat := 0   -- bytes of the WAL record (driver only)
  deriving DecidableEq, Repr, Inhabited

structure Seg where
  id : Nat
  recs : List Rec   -- everything appended to this segment (= the memtable built from it)
  durable : Nat     -- how many of them are complete in the WAL file
  walFile : Bool
  sstFile : Bool
  inMan : Bool      -- manifest lists the table and the log pointer covers the segment
  deriving DecidableEq, Repr, Inhabited

structure VFile where
  fid : Nat
  vals : List (Nat × Nat)   -- (bid, key) of the values stored
  deriving DecidableEq, Repr, Inhabited

structure St where
  sync : Bool := false
  segs : List Seg := [⟨1, [], 0, true, false, false⟩]   -- ascending; the last one is active
  vfiles : List VFile := [⟨0, []⟩]
  manVlog : List Nat := []          -- value-log file ids the manifest records as valid (head edits)
  -- volatile
  vactive : Nat := 0
  lastHead : Option Nat := none     -- `db.lastLoggedHeads`
  cur : List ((Nat × Nat) × Nat) := []   -- pointers handed out by the current `vlog.write`
  nextTs : Nat := 1
  open_ : Bool := true
  -- ghost
  accepted : List (Nat × List Ent) := []   -- (bid, entries) in acceptance order
  curBid : Nat := 0
  curVer : Nat := 0
  ackedLen : Nat := 0               -- number of written records covered by acknowledgements
  deriving Repr

inductive Step where
  | accept (bid : Nat) (es : List Ent)
  | resume (bid ver : Nat)       -- ghost: the steps that follow belong to request `bid` (a commit batch of several
                                 -- requests; an entry carrying its own, lower version)
  | vCreate                      -- open:vlog   new value-log file, becomes active
  | vAppend (key : Nat)          -- mmap store into the active file
  | wAppend (e : Ent) (fin : Bool) -- WAL buffer append + memtable insert
  | wFlush                       -- write:wal   the buffered tail reaches the file (bufio auto-flush / write-through)
  | wSync                        -- explicit `Flush()`: write:wal only if the buffer is non-empty; same effect
  | mRotate                      -- open:wal    new segment/memtable (buffer already flushed by the caller steps)
  | headLog                      -- write:manifest  value-log head edit
  | ack
  | fSst (id : Nat)              -- SST complete on disk
  | fManifest (id : Nat)         -- write:manifest  add-file + log-pointer edits
  | fWalRemove (id : Nat)        -- remove:wal
  | closeDb                      -- volatile state gone (clean close has flushed before, a crash has not)
  | nop (ev : String)            -- a file operation without effect on what recovery sees (sync, close, preallocate)
  deriving DecidableEq, Repr

def modLast (f : Seg → Seg) : List Seg → List Seg
  | [] => []
  | [x] => [f x]
  | x :: y :: r => x :: modLast f (y :: r)

def updNonLast (id : Nat) (f : Seg → Seg) : List Seg → List Seg
  | [] => []
  | [x] => [x]
  | x :: y :: r => (if x.id = id then f x else x) :: updNonLast id f (y :: r)

def lastId : List Seg → Nat
  | [] => 0
  | [x] => x.id
  | _ :: y :: r => lastId (y :: r)

def addVal (fid : Nat) (v : Nat × Nat) : List VFile → List VFile
  | [] => []
  | f :: r => (if f.fid = fid then { f with vals := f.vals ++ [v] } else f) :: addVal fid v r

def lookupPtr (k : Nat × Nat) : List ((Nat × Nat) × Nat) → Option Nat
  | [] => none
  | (k', fid) :: r => if k' = k then some fid else lookupPtr k r

def pendingLen (s : St) : Nat :=
  match s.segs.getLast? with
  | some sg => sg.recs.length - sg.durable
  | none => 0

def exec (s : St) : Step → St
  | .accept bid es =>
    { s with accepted := s.accepted ++ [(bid, es)], curBid := bid, curVer := s.nextTs, nextTs := s.nextTs + 1 }
  | .resume bid ver =>
    -- a version below the oracle's next timestamp (it was handed out earlier, or the entry brings its own)
    { s with curBid := bid, curVer := min ver (s.nextTs - 1) }
  | .vCreate =>
    { s with vfiles := s.vfiles ++ [⟨s.vactive + 1, []⟩], vactive := s.vactive + 1 }
  | .vAppend key =>
    { s with vfiles := addVal s.vactive (s.curBid, key) s.vfiles, cur := s.cur ++ [((s.curBid, key), s.vactive)] }
  | .wAppend e fin =>
    let ptr := if e.big then (match lookupPtr (s.curBid, e.key) s.cur with | some f => some f | none => some s.vactive) else none
    let r : Rec := ⟨e.key, s.curVer, s.curBid, ptr, fin, e.wlen⟩
    { s with segs := modLast (fun sg => { sg with recs := sg.recs ++ [r] }) s.segs }
  | .wFlush =>
    { s with segs := modLast (fun sg => { sg with durable := sg.recs.length }) s.segs }
  | .wSync =>
    { s with segs := modLast (fun sg => { sg with durable := sg.recs.length }) s.segs }
  | .mRotate =>
    -- `switchSegmentLocked`: flush + sync + close of the old segment precede the open of the new one
    { s with segs := modLast (fun sg => { sg with durable := sg.recs.length }) s.segs ++
                       [⟨lastId s.segs + 1, [], 0, true, false, false⟩] }
  | .headLog =>
    { s with manVlog := s.manVlog ++ [s.vactive], lastHead := some s.vactive }
  | .ack =>
    { s with ackedLen := (s.segs.flatMap (·.recs)).length }
  | .fSst id => { s with segs := updNonLast id (fun sg => { sg with sstFile := true }) s.segs }
  | .fManifest id => { s with segs := updNonLast id (fun sg => { sg with inMan := true }) s.segs }
  | .fWalRemove id => { s with segs := updNonLast id (fun sg => { sg with walFile := false }) s.segs }
  | .closeDb => { s with open_ := false }
  | .nop _ => s

def execAll (s : St) (l : List Step) : St := l.foldl exec s

/-- the file operation (as the FaultFS hook reports it) a step performs in state `s`, if any -/
def Step.event (s : St) : Step → Option String
  | .vCreate => some "open:vlog"
  | .wFlush => some "write:wal"
  | .wSync => if 0 < pendingLen s then some "write:wal" else none
  | .mRotate => some "open:wal"
  | .headLog => some "write:manifest"
  | .fManifest _ => some "write:manifest"
  | .fWalRemove _ => some "remove:wal"
  | .nop ev => some ev
  | _ => none

/-! ### recovery: what `Open` sees after the volatile state is gone -/

/-- records of a segment that recovery makes visible -/
def visible (sg : Seg) : List Rec :=
  if sg.inMan then (if sg.sstFile then sg.recs else [])
  else if sg.walFile then sg.recs.take sg.durable else []

/-- the recovered store, in log order -/
def recLog (s : St) : List Rec := s.segs.flatMap visible

/-- everything ever appended, in log order -/
def written (s : St) : List Rec := s.segs.flatMap (·.recs)

def maxList : List Nat → Nat
  | [] => 0
  | x :: r => max x (maxList r)

/-- value-log files that `reconcileManifest` keeps -/
def keptFile (c : Cfg) (s : St) (fid : Nat) : Bool :=
  !c.reconcileDrops || s.manVlog.isEmpty || decide (fid ≤ maxList s.manVlog)

def stored (s : St) (fid : Nat) (v : Nat × Nat) : Bool :=
  s.vfiles.any (fun f => f.fid = fid && f.vals.contains v)

/-- a record whose value can be produced after recovery -/
def readable (c : Cfg) (s : St) (r : Rec) : Bool :=
  match r.ptr with
  | none => true
  | some fid => keptFile c s fid && stored s fid (r.bid, r.key)

def recoverSeg (sg : Seg) : Option Seg :=
  if sg.inMan then (if sg.sstFile then some { sg with walFile := false, durable := sg.recs.length } else none)
  -- every WAL segment above the log pointer is replayed, an empty one too (`mt.Size()` of an empty
  -- skiplist is not 0, so `lsm.recovery` keeps it): the newest segment file is the active one again
  else if sg.walFile then some { sg with recs := sg.recs.take sg.durable, durable := min sg.durable sg.recs.length }
  else none

def needsFresh : List Seg → Bool
  | [] => true
  | [x] => x.inMan
  | _ :: y :: r => needsFresh (y :: r)

def maxId : List Seg → Nat
  | [] => 0
  | x :: r => max x.id (maxId r)

def maxVer (l : List Rec) : Nat := maxList (l.map (·.ver))

/-- `Open` on the directory as it is (after a crash or a clean close) -/
def recover (c : Cfg) (s : St) : St :=
  let kept := s.segs.filterMap recoverSeg
  let segs := if needsFresh kept then kept ++ [⟨maxId s.segs + 1, [], 0, true, false, false⟩] else kept
  let vf := s.vfiles.filter (fun f => keptFile c s f.fid)
  let memRecs := (kept.filter (fun sg => !sg.inMan)).flatMap (·.recs)
  let tabRecs := (kept.filter (fun sg => sg.inMan)).flatMap (·.recs)
  let mv := max (if c.seedMem then maxVer memRecs else 0) (if c.seedTables then maxVer tabRecs else 0)
  { s with segs := segs, vfiles := vf, vactive := maxList (vf.map (·.fid)),
           lastHead := s.manVlog.getLast?, cur := [], curVer := 0,
           -- `newOracle` starts at 1; `initCommitState(0)` returns early; otherwise the oracle moves to
           -- committed+1 when `committed >= 1` (`>=` as in the tree) resp. `committed > 1`
           nextTs := if mv = 0 then 1 else (if c.seedGe || decide (1 < mv) then (if c.seedPlusOne then mv + 1 else mv) else 1),
           open_ := true, ackedLen := min s.ackedLen (recLog s).length }

/-! ### procedures as step lists -/

/-- per-entry decisions that depend on byte sizes (computed by the driver from the sizes in the
workload; the theorems quantify over all of them) -/
structure Dec where
  vrot : Bool := false     -- value log rotates before this entry's value
  vgrow : Nat := 0         -- the mmap of the active value-log file is grown (ftruncate) before the store
  mrot : Bool := false     -- memtable rotates before this entry
  cstart : Bool := false   -- this entry starts a new `wal.Append` call (chunk of `SetBatch`)
  pre : Nat := 0           -- write:wal events while this entry is appended (the first flushes the older tail)
  post : Bool := false     -- the chunk ending here is written through (atomic append of an over-sized chunk)
  deriving DecidableEq, Repr, Inhabited

def vlogSteps : List (Ent × Dec) → List Step
  | [] => []
  | (e, d) :: r =>
    (if e.big then
      (if d.vrot then [.nop "ftrunc:vlog", .nop "sync:vlog", .vCreate, .nop "ftrunc:vlog"] else []) ++
        List.replicate d.vgrow (.nop "ftrunc:vlog") ++ [.vAppend e.key]
     else []) ++ vlogSteps r

def effRot (c : Cfg) (first : Bool) (d : Dec) : Bool := d.mrot && (first || !c.batchWhole)

/-- what happens before an entry is appended: memtable rotation (segment switch) and the spills of
the WAL's bufio buffer (per record as-is; only at the start of an `Append` call when repaired) -/
def lsmPre (c : Cfg) (first : Bool) (d : Dec) : List Step :=
  let rot := effRot c first d
  let chunkStart := first || rot || (d.cstart && !c.batchWhole)
  let pre := if c.atomicAppend && !chunkStart then 0 else d.pre
  (if rot then [Step.wSync, .nop "sync:wal", .nop "close:wal", .mRotate] else []) ++
  (if pre = 0 then [] else Step.wFlush :: List.replicate (pre - 1) (Step.nop "write:wal"))

/-- write-through of an over-sized `Append` call (only at the end of the call when repaired) -/
def lsmPost (c : Cfg) (d : Dec) (r : List (Ent × Dec)) : List Step :=
  let chunkEnd := match r with
    | [] => true
    | (_, d') :: _ => effRot c false d' || (d'.cstart && !c.batchWhole)
  if d.post && (chunkEnd || !c.atomicAppend) then [Step.wFlush] else []

/-- `lsm.SetBatch` + `memTable.setBatch` + `wal.AppendRecords` for one batch
(`first` = this is the first entry of the batch). -/
def lsmSteps (c : Cfg) : Bool → List (Ent × Dec) → List Step
  | _, [] => []
  | first, (e, d) :: r =>
    lsmPre c first d ++ [Step.wAppend e r.isEmpty] ++ lsmPost c d r ++ lsmSteps c false r

def headSteps (c : Cfg) (anyBig : Bool) (lastHead : Option Nat) (vactiveAfter : Nat) (delta : Bool) : List Step :=
  if anyBig && (lastHead.isNone || (c.headOnFidChange && lastHead != some vactiveAfter) || delta)
  then [.headLog, .nop "sync:manifest"] else []

def countRot : List (Ent × Dec) → Nat
  | [] => 0
  | (e, d) :: r => (if e.big && d.vrot then 1 else 0) + countRot r

/-- one commit (one request per commit batch: the harness issues transactions one at a time) -/
def commitSteps (c : Cfg) (s : St) (bid : Nat) (es : List (Ent × Dec)) (delta : Bool) : List Step :=
  let anyBig := es.any (·.1.big)
  let head := headSteps c anyBig s.lastHead (s.vactive + countRot es) delta
  let lsm := lsmSteps c true es
  let syncS := if s.sync then [Step.wSync, Step.nop "sync:wal"] else []
  [.accept bid (es.map (·.1))] ++ vlogSteps es ++
    (if c.headFirst then head ++ lsm else lsm ++ head) ++
    (if c.ackAfterSync then syncS ++ [.ack] else [.ack] ++ syncS)

/-- flush of the immutable memtable `id` -/
def flushSteps (c : Cfg) (id : Nat) : List Step :=
  match c.flushOrder with
  | .sstManifestRemove => [.nop "open:sst", .nop "ftrunc:sst", .fSst id, .fManifest id, .nop "sync:manifest", .fWalRemove id]
  | .sstRemoveManifest => [.nop "open:sst", .nop "ftrunc:sst", .fSst id, .fWalRemove id, .fManifest id, .nop "sync:manifest"]
  | .manifestSstRemove => [.fManifest id, .nop "sync:manifest", .nop "open:sst", .nop "ftrunc:sst", .fSst id, .fWalRemove id]

/-- ids of the immutable memtables still to be flushed (all non-last segments not yet in the manifest) -/
def immIds : List Seg → List Nat
  | [] => []
  | [_] => []
  | x :: y :: r => (if x.inMan then [] else [x.id]) ++ immIds (y :: r)

/-- `DB.Close`: (commit queue drained, flush queue drained,) manifest closed, WAL flushed + synced + closed -/
def closeSteps (c : Cfg) (s : St) : List Step :=
  let _ := s
  [.nop "close:manifest"] ++ (if c.closeFlushesWal then [Step.wSync] else []) ++
    [.nop "sync:wal", .nop "close:wal", .closeDb]

/-! ### histories -/

inductive Op where
  | commit (bid : Nat) (es : List (Ent × Dec)) (delta : Bool)   -- one update transaction
  | flush                                                        -- the flush worker takes the oldest immutable memtable
  | reopen                                                       -- clean `Close`, then `Open`
  | crash                                                        -- killed between two calls, then `Open`
  deriving Repr

def opSteps (c : Cfg) (s : St) : Op → List Step
  | .commit bid es delta => commitSteps c s bid es delta
  | .flush => match immIds s.segs with
    | [] => []
    | id :: _ => flushSteps c id
  | .reopen => closeSteps c s
  | .crash => []

def finish (c : Cfg) (s : St) : Op → St
  | .reopen => recover c s
  | .crash => recover c s
  | _ => s

def runOp (c : Cfg) (s : St) (op : Op) : St := finish c (execAll s (opSteps c s op)) op

def run (c : Cfg) (s : St) (ops : List Op) : St := ops.foldl (runOp c) s

/-- the states in which the process can be killed: some complete operations, then any prefix of
the atomic steps of the next one (`k = 0`: between two calls) -/
def CrashState (c : Cfg) (s0 s : St) : Prop :=
  ∃ ops op k, s = execAll (run c s0 ops) ((opSteps c (run c s0 ops) op).take k)

end NoKV.Disk

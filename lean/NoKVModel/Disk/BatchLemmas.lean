/-
E-Disk lemmas, part 5: batch atomicity of the durable prefix for the repaired write path
(`lsm.batchSplit = whole`, `wal.batchAppend = atomic`): the WAL buffer is only ever flushed
between two batches, so what is durable always ends with the last record of a batch.
-/
import NoKVModel.Disk.ProgLemmas

namespace NoKV.Disk

def endsAtBatch (l : List Rec) : Bool :=
  match l.getLast? with
  | none => true
  | some r => r.fin

theorem endsAtBatch_snoc (l : List Rec) (r : Rec) : endsAtBatch (l ++ [r]) = r.fin := by
  simp [endsAtBatch]

/-- the durable prefix ends at a batch boundary -/
def BInv (s : St) : Prop := endsAtBatch ((allRecs s.segs).take (durLen s.segs)) = true

/-- nothing of an unfinished batch has been written (holds between two operations) -/
def Bdry (s : St) : Prop := endsAtBatch (allRecs s.segs) = true

/-- obligation of the steps that make the buffered tail durable -/
def BPre (s : St) : Step → Prop
  | .wFlush => Bdry s
  | .wSync => Bdry s
  | .mRotate => Bdry s
  | _ => True

theorem durLen_wAppend (l : List Seg) (r : Rec) (h : SegsOK l) :
    durLen (modLast (fun sg => { sg with recs := sg.recs ++ [r] }) l) = durLen l := by
  have hne : l ≠ [] := by intro h0; rw [h0] at h; exact h
  unfold durLen
  rw [allRecs_modLast_append _ _ hne, pend_modLast_append _ _ h]
  simp

theorem durLen_le_len (l : List Seg) : durLen l ≤ (allRecs l).length := Nat.sub_le _ _

theorem durLen_flush (l : List Seg) :
    durLen (modLast (fun sg => { sg with durable := sg.recs.length }) l) = (allRecs l).length := by
  unfold durLen; rw [allRecs_modLast_dur, pend_modLast_flush]; rfl

theorem bInv_step (s : St) (st : Step) (hs : SegsOK s.segs) (h : BInv s) (hp : BPre s st) : BInv (exec s st) := by
  unfold BInv at *
  cases st with
  | wAppend e fin =>
    have hne : s.segs ≠ [] := by intro h0; rw [h0] at hs; exact hs
    simp only [exec]
    rw [durLen_wAppend _ _ hs, allRecs_modLast_append _ _ hne, List.take_append_of_le_length (durLen_le_len _)]
    exact h
  | wFlush =>
    simp only [exec]
    rw [durLen_flush, allRecs_modLast_dur, List.take_length]; exact hp
  | wSync =>
    simp only [exec]
    rw [durLen_flush, allRecs_modLast_dur, List.take_length]; exact hp
  | mRotate =>
    simp only [exec]
    have : durLen (modLast (fun sg => { sg with durable := sg.recs.length }) s.segs ++
        [⟨lastId s.segs + 1, [], 0, true, false, false⟩]) = (allRecs s.segs).length := by
      unfold durLen; rw [allRecs_append_fresh, pend_append_fresh, allRecs_modLast_dur]; rfl
    rw [this, allRecs_append_fresh, allRecs_modLast_dur, List.take_length]; exact hp
  | fSst id =>
    simp only [exec]
    rw [durLen_updNonLast id (fun sg => { sg with sstFile := true }) (fun _ => rfl),
      allRecs_updNonLast id (fun sg => { sg with sstFile := true }) (fun _ => rfl)]; exact h
  | fManifest id =>
    simp only [exec]
    rw [durLen_updNonLast id (fun sg => { sg with inMan := true }) (fun _ => rfl),
      allRecs_updNonLast id (fun sg => { sg with inMan := true }) (fun _ => rfl)]; exact h
  | fWalRemove id =>
    simp only [exec]
    rw [durLen_updNonLast id (fun sg => { sg with walFile := false }) (fun _ => rfl),
      allRecs_updNonLast id (fun sg => { sg with walFile := false }) (fun _ => rfl)]; exact h
  | accept _ _ => exact h
  | resume _ _ => exact h
  | vCreate => exact h
  | vAppend _ => exact h
  | headLog => exact h
  | ack => exact h
  | closeDb => exact h
  | nop _ => exact h

/-- steps that leave the segments alone -/
def noSeg : Step → Bool
  | .accept _ _ => true
  | .vCreate => true
  | .vAppend _ => true
  | .headLog => true
  | .ack => true
  | .closeDb => true
  | .nop _ => true
  | .fSst _ => true
  | .fManifest _ => true
  | .fWalRemove _ => true
  | _ => false

theorem noSeg_allRecs (s : St) (st : Step) (h : noSeg st = true) : allRecs (exec s st).segs = allRecs s.segs := by
  cases st with
  | fSst id => exact allRecs_updNonLast id (fun sg => { sg with sstFile := true }) (fun _ => rfl) _
  | fManifest id => exact allRecs_updNonLast id (fun sg => { sg with inMan := true }) (fun _ => rfl) _
  | fWalRemove id => exact allRecs_updNonLast id (fun sg => { sg with walFile := false }) (fun _ => rfl) _
  | wAppend _ _ => simp [noSeg] at h
  | wFlush => simp [noSeg] at h
  | wSync => simp [noSeg] at h
  | mRotate => simp [noSeg] at h
  | _ => rfl

theorem noSeg_all_allRecs : ∀ (l : List Step) (s : St), l.all noSeg = true → allRecs (execAll s l).segs = allRecs s.segs
  | [], _, _ => rfl
  | x :: l, s, h => by
    simp only [List.all_cons, Bool.and_eq_true] at h
    rw [execAll_cons, noSeg_all_allRecs l _ h.2, noSeg_allRecs s x h.1]

theorem bPre_of_noSeg (s : St) (st : Step) (h : noSeg st = true) : BPre s st := by
  cases st <;> simp [noSeg, BPre] at *

theorem goodRun_noSeg (l : List Step) (s : St) (h : l.all noSeg = true) : GoodRun BPre s l :=
  goodRun_of_all BPre noSeg bPre_of_noSeg l s h

/-- after a flush-like step or an append the log still ends where it ended / ends with the new record -/
theorem allRecs_flushlike (s : St) : allRecs (exec s .wFlush).segs = allRecs s.segs ∧
    allRecs (exec s .wSync).segs = allRecs s.segs ∧ allRecs (exec s .mRotate).segs = allRecs s.segs := by
  refine ⟨allRecs_modLast_dur _ _, allRecs_modLast_dur _ _, ?_⟩
  simp only [exec]; rw [allRecs_append_fresh, allRecs_modLast_dur]

/-- steps that only move the durable boundary -/
def flushLike : Step → Bool
  | .wFlush => true
  | .wSync => true
  | .mRotate => true
  | .nop _ => true
  | _ => false

theorem flushLike_step (s : St) (st : Step) (h : flushLike st = true) (hs : SegsOK s.segs) :
    allRecs (exec s st).segs = allRecs s.segs ∧ SegsOK (exec s st).segs := by
  have a := allRecs_flushlike s
  cases st <;> simp [flushLike] at h
  · exact ⟨a.1, segsOK_step s .wFlush hs trivial⟩
  · exact ⟨a.2.1, segsOK_step s .wSync hs trivial⟩
  · exact ⟨a.2.2, segsOK_step s .mRotate hs trivial⟩
  · exact ⟨rfl, hs⟩

/-- a run of flush-like steps started between two batches meets its obligations and writes nothing -/
theorem prelude_good : ∀ (l : List Step) (s : St), l.all flushLike = true → SegsOK s.segs → Bdry s →
    GoodRun BPre s l ∧ allRecs (execAll s l).segs = allRecs s.segs ∧ SegsOK (execAll s l).segs
  | [], s, _, hs, _ => ⟨trivial, rfl, hs⟩
  | x :: l, s, h, hs, hb => by
    simp only [List.all_cons, Bool.and_eq_true] at h
    obtain ⟨e1, e2⟩ := flushLike_step s x h.1 hs
    have hb' : Bdry (exec s x) := by unfold Bdry; rw [e1]; exact hb
    obtain ⟨g, a, o⟩ := prelude_good l (exec s x) h.2 e2 hb'
    refine ⟨⟨?_, g⟩, by rw [execAll_cons, a, e1], by rw [execAll_cons]; exact o⟩
    cases x <;> simp [flushLike] at h <;> first | exact hb | trivial

theorem ite_all_flushLike (b : Bool) (l : List Step) (hl : l.all flushLike = true) :
    (if b = true then l else []).all flushLike = true := by
  cases b
  · rfl
  · simpa using hl

theorem pre_flushLike (n : Nat) :
    (if n = 0 then [] else Step.wFlush :: List.replicate (n - 1) (Step.nop "write:wal")).all flushLike = true := by
  split
  · rfl
  · simp only [List.all_cons, all_replicate_nop _ _ flushLike rfl, Bool.and_true]; rfl

theorem lsmPre_flushLike (c : Cfg) (first : Bool) (d : Dec) : (lsmPre c first d).all flushLike = true := by
  unfold lsmPre
  simp only [List.all_append]
  exact Bool.and_eq_true_iff.mpr ⟨ite_all_flushLike _ _ rfl, pre_flushLike _⟩

theorem lsmPost_flushLike (c : Cfg) (d : Dec) (r : List (Ent × Dec)) : (lsmPost c d r).all flushLike = true := by
  unfold lsmPost
  exact ite_all_flushLike _ _ rfl

theorem lsmPre_notFirst (c : Cfg) (hb : c.batchWhole = true) (ha : c.atomicAppend = true) (d : Dec) :
    lsmPre c false d = [] := by
  simp [lsmPre, effRot, hb, ha]

theorem lsmPost_notLast (c : Cfg) (hb : c.batchWhole = true) (ha : c.atomicAppend = true) (d : Dec)
    (x : Ent × Dec) (r : List (Ent × Dec)) : lsmPost c d (x :: r) = [] := by
  obtain ⟨e', d'⟩ := x
  simp [lsmPost, effRot, hb, ha]

theorem lsmSteps_shape (c : Cfg) (hb : c.batchWhole = true) (ha : c.atomicAppend = true)
    (first : Bool) (e : Ent) (d : Dec) (r : List (Ent × Dec)) :
    ∃ P1 P2 : List Step, lsmSteps c first ((e, d) :: r) = P1 ++ ([Step.wAppend e r.isEmpty] ++ (P2 ++ lsmSteps c false r)) ∧
      P1.all flushLike = true ∧ P2.all flushLike = true ∧ (first = false → P1 = []) ∧ (r ≠ [] → P2 = []) := by
  refine ⟨lsmPre c first d, lsmPost c d r, by simp [lsmSteps, List.append_assoc], lsmPre_flushLike c first d,
    lsmPost_flushLike c d r, ?_, ?_⟩
  · intro hf; subst hf; exact lsmPre_notFirst c hb ha d
  · intro hr
    cases r with
    | nil => exact absurd rfl hr
    | cons x r' => exact lsmPost_notLast c hb ha d x r'

theorem lsm_good (c : Cfg) (hb : c.batchWhole = true) (ha : c.atomicAppend = true) :
    ∀ (es : List (Ent × Dec)) (first : Bool) (s : St), SegsOK s.segs → (first = true → Bdry s) →
      GoodRun BPre s (lsmSteps c first es) ∧ SegsOK (execAll s (lsmSteps c first es)).segs ∧
      (es ≠ [] → Bdry (execAll s (lsmSteps c first es))) ∧
      (es = [] → allRecs (execAll s (lsmSteps c first es)).segs = allRecs s.segs)
  | [], _, s, hs, _ => ⟨trivial, hs, fun h => absurd rfl h, fun _ => rfl⟩
  | (e, d) :: r, first, s, hs, hbd => by
    obtain ⟨P1, P2, hshape, hP1, hP2, hfirst, hrest⟩ := lsmSteps_shape c hb ha first e d r
    rw [hshape]
    -- prelude
    have hpre : GoodRun BPre s P1 ∧ allRecs (execAll s P1).segs = allRecs s.segs ∧ SegsOK (execAll s P1).segs := by
      cases first with
      | false => rw [hfirst rfl]; exact ⟨trivial, rfl, hs⟩
      | true => exact prelude_good P1 s hP1 hs (hbd rfl)
    obtain ⟨g1, a1, o1⟩ := hpre
    -- the append
    have o2 : SegsOK (exec (execAll s P1) (.wAppend e r.isEmpty)).segs := segsOK_step _ _ o1 trivial
    have hne : (execAll s P1).segs ≠ [] := by intro h0; rw [h0] at o1; exact o1
    have a2 : ∃ rec : Rec, rec.fin = r.isEmpty ∧
        allRecs (exec (execAll s P1) (.wAppend e r.isEmpty)).segs = allRecs (execAll s P1).segs ++ [rec] :=
      ⟨_, rfl, allRecs_modLast_append _ _ hne⟩
    obtain ⟨rec, hfin, a2⟩ := a2
    -- the optional write-through after the last entry
    have hpost : GoodRun BPre (exec (execAll s P1) (.wAppend e r.isEmpty)) P2 ∧
        allRecs (execAll (exec (execAll s P1) (.wAppend e r.isEmpty)) P2).segs = allRecs (exec (execAll s P1) (.wAppend e r.isEmpty)).segs ∧
        SegsOK (execAll (exec (execAll s P1) (.wAppend e r.isEmpty)) P2).segs := by
      cases r with
      | nil =>
        apply prelude_good P2 _ hP2 o2
        unfold Bdry; rw [a2, endsAtBatch_snoc, hfin]; rfl
      | cons x r' => rw [hrest (by simp)]; exact ⟨trivial, rfl, o2⟩
    obtain ⟨g3, a3, o3⟩ := hpost
    have ih := lsm_good c hb ha r false (execAll (exec (execAll s P1) (.wAppend e r.isEmpty)) P2) o3 (fun h => by simp at h)
    obtain ⟨g4, o4, b4, a4⟩ := ih
    have hexec : execAll s (P1 ++ ([Step.wAppend e r.isEmpty] ++ (P2 ++ lsmSteps c false r))) =
        execAll (execAll (exec (execAll s P1) (.wAppend e r.isEmpty)) P2) (lsmSteps c false r) := by
      rw [execAll_append, execAll_append, execAll_append]; rfl
    refine ⟨?_, ?_, ?_, fun h => by simp at h⟩
    · rw [goodRun_append]
      refine ⟨g1, ?_⟩
      rw [goodRun_append]
      refine ⟨⟨trivial, trivial⟩, ?_⟩
      rw [goodRun_append]
      exact ⟨g3, g4⟩
    · rw [hexec]; exact o4
    · intro _
      rw [hexec]
      cases r with
      | nil =>
        unfold Bdry
        rw [a4 rfl, a3, a2, endsAtBatch_snoc, hfin]; rfl
      | cons x r' => exact b4 (by simp)

/-! ### `fin` marks exactly the last entry of a batch -/

def appendsOf : List Step → List (Ent × Bool)
  | [] => []
  | .wAppend e f :: r => (e, f) :: appendsOf r
  | _ :: r => appendsOf r

def markLast : List Ent → List (Ent × Bool)
  | [] => []
  | [e] => [(e, true)]
  | e :: e' :: r => (e, false) :: markLast (e' :: r)

theorem appendsOf_append : ∀ a b : List Step, appendsOf (a ++ b) = appendsOf a ++ appendsOf b
  | [], _ => rfl
  | x :: a, b => by
    cases x <;> simp [appendsOf, appendsOf_append a b]

theorem appendsOf_flushLike : ∀ l : List Step, l.all flushLike = true → appendsOf l = []
  | [], _ => rfl
  | x :: l, h => by
    simp only [List.all_cons, Bool.and_eq_true] at h
    obtain ⟨h1, h2⟩ := h
    have ih := appendsOf_flushLike l h2
    cases x <;> simp [flushLike] at h1 <;> simp [appendsOf, ih]

/-- whatever the configuration and the decisions, a commit appends its entries in order and marks
exactly the last one -/
theorem lsmSteps_marks (c : Cfg) : ∀ (es : List (Ent × Dec)) (first : Bool),
    appendsOf (lsmSteps c first es) = markLast (es.map (·.1))
  | [], _ => rfl
  | [(e, d)], first => by
    simp [lsmSteps, appendsOf_append, appendsOf_flushLike _ (lsmPre_flushLike c first d),
      appendsOf_flushLike _ (lsmPost_flushLike c d []), appendsOf, markLast]
  | (e, d) :: x :: r, first => by
    have ih := lsmSteps_marks c (x :: r) false
    have e1 : lsmSteps c first ((e, d) :: x :: r) =
        lsmPre c first d ++ [Step.wAppend e false] ++ lsmPost c d (x :: r) ++ lsmSteps c false (x :: r) := rfl
    rw [e1, appendsOf_append, appendsOf_append, appendsOf_append, ih,
      appendsOf_flushLike _ (lsmPre_flushLike c first d), appendsOf_flushLike _ (lsmPost_flushLike c d (x :: r))]
    simp [appendsOf, markLast]

/-! ### whole procedures -/

def calm (st : Step) : Bool := flushLike st || (noSeg st && noFlush st)

theorem calm_good : ∀ (l : List Step) (s : St), l.all calm = true → SegsOK s.segs → Bdry s →
    GoodRun BPre s l ∧ allRecs (execAll s l).segs = allRecs s.segs ∧ SegsOK (execAll s l).segs
  | [], s, _, hs, _ => ⟨trivial, rfl, hs⟩
  | x :: l, s, h, hs, hb => by
    simp only [List.all_cons, Bool.and_eq_true] at h
    have hx : allRecs (exec s x).segs = allRecs s.segs ∧ SegsOK (exec s x).segs ∧ BPre s x := by
      have hc := h.1
      unfold calm at hc
      rcases Bool.or_eq_true_iff.mp hc with hf | hn
      · obtain ⟨e1, e2⟩ := flushLike_step s x hf hs
        refine ⟨e1, e2, ?_⟩
        cases x <;> simp [flushLike] at hf <;> first | exact hb | trivial
      · rw [Bool.and_eq_true] at hn
        exact ⟨noSeg_allRecs s x hn.1, segsOK_step s x hs (segPre_of_noFlush s x hn.2), bPre_of_noSeg s x hn.1⟩
    obtain ⟨e1, e2, e3⟩ := hx
    have hb' : Bdry (exec s x) := by unfold Bdry; rw [e1]; exact hb
    obtain ⟨g, a, o⟩ := calm_good l (exec s x) h.2 e2 hb'
    exact ⟨⟨e3, g⟩, by rw [execAll_cons, a, e1], by rw [execAll_cons]; exact o⟩

theorem vlogSteps_calm : ∀ es, (vlogSteps es).all calm = true
  | [] => rfl
  | (e, d) :: r => by
    have ih := vlogSteps_calm r
    have hr := all_replicate_nop d.vgrow "ftrunc:vlog" calm rfl
    simp only [vlogSteps, List.all_append, ih, Bool.and_true]
    cases e.big <;> cases d.vrot <;> simp [calm, flushLike, noSeg, noFlush, hr]

theorem headSteps_calm (c : Cfg) (a : Bool) (lh : Option Nat) (v : Nat) (dl : Bool) :
    (headSteps c a lh v dl).all calm = true := by
  unfold headSteps
  split <;> simp [calm, flushLike, noSeg, noFlush]

theorem syncTail_calm (s : St) : (syncTail s).all calm = true := by
  unfold syncTail; split <;> simp [calm, flushLike, noSeg, noFlush]

theorem closeSteps_calm (c : Cfg) (s : St) : (closeSteps c s).all calm = true := by
  unfold closeSteps
  simp only [List.all_append]
  cases c.closeFlushesWal <;> simp [calm, flushLike, noSeg, noFlush]

theorem flushSteps_noSeg (c : Cfg) (id : Nat) : (flushSteps c id).all noSeg = true := by
  unfold flushSteps
  cases c.flushOrder <;> simp [noSeg]

/-- a commit of the repaired write path: obligations met, and the log ends with a whole batch afterwards -/
theorem commit_goodB (c : Cfg) (hb : c.batchWhole = true) (ha : c.atomicAppend = true) (s : St)
    (hs : SegsOK s.segs) (hbd : Bdry s) (bid : Nat) (es : List (Ent × Dec)) (delta : Bool) :
    GoodRun BPre s (commitSteps c s bid es delta) ∧ Bdry (execAll s (commitSteps c s bid es delta)) := by
  -- commitSteps = A ++ (lsm ++ T) with A, T calm
  have key : ∀ (A T : List Step), A.all calm = true → T.all calm = true →
      GoodRun BPre s (A ++ (lsmSteps c true es ++ T)) ∧ Bdry (execAll s (A ++ (lsmSteps c true es ++ T))) := by
    intro A T hA hT
    obtain ⟨gA, aA, oA⟩ := calm_good A s hA hs hbd
    have bA : Bdry (execAll s A) := by unfold Bdry; rw [aA]; exact hbd
    obtain ⟨gL, oL, bL, aL⟩ := lsm_good c hb ha es true (execAll s A) oA (fun _ => bA)
    have bL' : Bdry (execAll (execAll s A) (lsmSteps c true es)) := by
      cases es with
      | nil => unfold Bdry; rw [aL rfl]; exact bA
      | cons x r => exact bL (by simp)
    obtain ⟨gT, aT, _⟩ := calm_good T _ hT oL bL'
    refine ⟨?_, ?_⟩
    · rw [goodRun_append]; refine ⟨gA, ?_⟩
      rw [goodRun_append]; exact ⟨gL, gT⟩
    · rw [execAll_append, execAll_append]
      unfold Bdry; rw [aT]; exact bL'
  have hacc1 : calm (Step.accept bid (es.map (·.1))) = true := rfl
  have hack1 : calm Step.ack = true := rfl
  have hacc : [Step.accept bid (es.map (·.1))].all calm = true := by simp [hacc1]
  have hack : [Step.ack].all calm = true := by simp [hack1]
  have hv := vlogSteps_calm es
  have hh := headSteps_calm c (es.any (·.1.big)) s.lastHead (s.vactive + countRot es) delta
  have ht := syncTail_calm s
  have htail : (if c.ackAfterSync then syncTail s ++ [Step.ack] else [Step.ack] ++ syncTail s).all calm = true := by
    split <;> simp [List.all_append, ht, hack1]
  rw [commitSteps_eq]
  unfold commitBody
  cases hf : c.headFirst
  · -- lsm before head
    simp only [Bool.false_eq_true, if_false]
    have := key ([Step.accept bid (es.map (·.1))] ++ vlogSteps es)
      (headSteps c (es.any (·.1.big)) s.lastHead (s.vactive + countRot es) delta ++
        (if c.ackAfterSync then syncTail s ++ [Step.ack] else [Step.ack] ++ syncTail s))
      (by simp [List.all_append, hacc1, hv]) (by simp only [List.all_append, hh, htail]; rfl)
    simpa [List.append_assoc] using this
  · simp only [if_true]
    have := key ([Step.accept bid (es.map (·.1))] ++ vlogSteps es ++
        headSteps c (es.any (·.1.big)) s.lastHead (s.vactive + countRot es) delta)
      (if c.ackAfterSync then syncTail s ++ [Step.ack] else [Step.ack] ++ syncTail s)
      (by simp [List.all_append, hacc1, hv, hh]) htail
    simpa [List.append_assoc] using this

theorem opSteps_goodB (c : Cfg) (hb : c.batchWhole = true) (ha : c.atomicAppend = true) (s : St)
    (hs : SegsOK s.segs) (hbd : Bdry s) (op : Op) :
    GoodRun BPre s (opSteps c s op) ∧ Bdry (execAll s (opSteps c s op)) := by
  cases op with
  | commit bid es delta => exact commit_goodB c hb ha s hs hbd bid es delta
  | flush =>
    simp only [opSteps]
    cases immIds s.segs with
    | nil => exact ⟨trivial, hbd⟩
    | cons id _ =>
      refine ⟨goodRun_noSeg _ s (flushSteps_noSeg c id), ?_⟩
      unfold Bdry; rw [noSeg_all_allRecs _ s (flushSteps_noSeg c id)]; exact hbd
  | reopen =>
    obtain ⟨g, a, _⟩ := calm_good _ s (closeSteps_calm c s) hs hbd
    exact ⟨g, by unfold Bdry; simp only [opSteps]; rw [a]; exact hbd⟩
  | crash => exact ⟨trivial, hbd⟩

theorem goodRun_and (P Q : St → Step → Prop) : ∀ (l : List Step) (s : St),
    GoodRun P s l → GoodRun Q s l → GoodRun (fun s st => P s st ∧ Q s st) s l
  | [], _, _, _ => trivial
  | _ :: l, _, hp, hq => ⟨⟨hp.1, hq.1⟩, goodRun_and P Q l _ hp.2 hq.2⟩

/-- `Open` after a crash or a close: everything it recovers is durable, and it is the durable prefix -/
theorem bInv_recover (c : Cfg) (s : St) (hs : SegsOK s.segs) (h : BInv s) : BInv (recover c s) ∧ Bdry (recover c s) := by
  have hw : allRecs (recover c s).segs = (allRecs s.segs).take (durLen s.segs) := by
    have := written_recover c s
    rw [recLog_eq s hs] at this
    exact this
  have hd : durLen (recover c s).segs = (allRecs (recover c s).segs).length := by
    unfold durLen; rw [pend_recover]; rfl
  refine ⟨?_, ?_⟩
  · unfold BInv; rw [hd, List.take_length, hw]; exact h
  · unfold Bdry; rw [hw]; exact h

/-- history version of `crashState_inv` with an additional between-operations invariant `B` -/
theorem crashState_inv2 (c : Cfg) (I B : St → Prop) (P : St → Step → Prop)
    (hstep : ∀ s st, I s → P s st → I (exec s st))
    (hgood : ∀ s op, I s → B s → GoodRun P s (opSteps c s op) ∧ B (execAll s (opSteps c s op)))
    (hrec : ∀ s, I s → I (recover c s) ∧ B (recover c s))
    (s0 s : St) (h0 : I s0 ∧ B s0) (hc : CrashState c s0 s) : I s := by
  obtain ⟨ops, op, k, rfl⟩ := hc
  have hop : ∀ s op, I s ∧ B s → I (runOp c s op) ∧ B (runOp c s op) := by
    intro s op hi
    obtain ⟨g, b⟩ := hgood s op hi.1 hi.2
    have := full_inv I P hstep _ s hi.1 g
    unfold runOp
    cases op <;> simp only [finish] <;> first | exact ⟨this, b⟩ | exact hrec _ this
  have hr := run_inv c (fun s => I s ∧ B s) hop ops s0 h0
  exact prefix_inv I P hstep _ _ hr.1 (hgood _ op hr.1 hr.2).1 k

end NoKV.Disk

/-
E-Disk lemmas, part 4: versions.  Every stored version is below the oracle's next timestamp, in
every reachable state; `Open` re-seeds the oracle from the maximum recovered version.
-/
import NoKVModel.Disk.ProgLemmas

namespace NoKV.Disk

def TsInv (s : St) : Prop := (∀ r ∈ allRecs s.segs, r.ver < s.nextTs) ∧ s.curVer < s.nextTs

theorem le_maxList {l : List Nat} {a : Nat} (h : a ∈ l) : a ≤ maxList l := by
  induction l with
  | nil => simp at h
  | cons x r ih =>
    simp only [maxList]
    rcases List.mem_cons.mp h with rfl | h
    · exact Nat.le_max_left _ _
    · exact Nat.le_trans (ih h) (Nat.le_max_right _ _)

theorem ver_le_maxVer {l : List Rec} {r : Rec} (h : r ∈ l) : r.ver ≤ maxVer l :=
  le_maxList (List.mem_map.mpr ⟨r, h, rfl⟩)

theorem allRecs_rotate (n : Nat) (l : List Seg) :
    allRecs (modLast (fun sg => { sg with durable := sg.recs.length }) l ++ [⟨n, [], 0, true, false, false⟩]) = allRecs l := by
  rw [allRecs_append_fresh, allRecs_modLast_dur]

theorem modLast_nil (f : Seg → Seg) : modLast f [] = [] := rfl

theorem tsInv_step (s : St) (st : Step) (h : TsInv s) : TsInv (exec s st) := by
  obtain ⟨h1, h2⟩ := h
  cases st with
  | accept bid es =>
    exact ⟨fun r hr => Nat.lt_succ_of_lt (h1 r hr), Nat.lt_succ_self _⟩
  | wAppend e fin =>
    refine ⟨?_, h2⟩
    intro r hr
    simp only [exec] at hr
    by_cases hne : s.segs = []
    · rw [hne] at hr; simp [modLast, allRecs] at hr
    · rw [allRecs_modLast_append _ _ hne] at hr
      rcases List.mem_append.mp hr with hr | hr
      · exact h1 r hr
      · simp only [List.mem_singleton] at hr
        subst hr; exact h2
  | wFlush => exact ⟨fun r hr => h1 r (by simpa [exec, allRecs_modLast_dur] using hr), h2⟩
  | wSync => exact ⟨fun r hr => h1 r (by simpa [exec, allRecs_modLast_dur] using hr), h2⟩
  | mRotate => exact ⟨fun r hr => h1 r (by simpa [exec, allRecs_rotate] using hr), h2⟩
  | fSst id =>
    exact ⟨fun r hr => h1 r (by
      simp only [exec] at hr
      rwa [allRecs_updNonLast id (fun sg => { sg with sstFile := true }) (fun _ => rfl)] at hr), h2⟩
  | fManifest id =>
    exact ⟨fun r hr => h1 r (by
      simp only [exec] at hr
      rwa [allRecs_updNonLast id (fun sg => { sg with inMan := true }) (fun _ => rfl)] at hr), h2⟩
  | fWalRemove id =>
    exact ⟨fun r hr => h1 r (by
      simp only [exec] at hr
      rwa [allRecs_updNonLast id (fun sg => { sg with walFile := false }) (fun _ => rfl)] at hr), h2⟩
  | resume bid ver =>
    refine ⟨h1, ?_⟩
    show min ver (s.nextTs - 1) < s.nextTs
    omega
  | vCreate => exact ⟨h1, h2⟩
  | vAppend k => exact ⟨h1, h2⟩
  | headLog => exact ⟨h1, h2⟩
  | ack => exact ⟨h1, h2⟩
  | closeDb => exact ⟨h1, h2⟩
  | nop ev => exact ⟨h1, h2⟩

/-- `Open` seeds the oracle above every recovered version when `MaxVersion` looks at the replayed
memtables and at the manifest's tables and the oracle starts at max + 1 -/
theorem tsInv_recover (c : Cfg) (hc : c.seedMem = true ∧ c.seedTables = true ∧ c.seedPlusOne = true ∧ c.seedGe = true) (s : St) :
    TsInv (recover c s) := by
  obtain ⟨hm, ht, hp, hg⟩ := hc
  have hw : allRecs (recover c s).segs = allRecs (s.segs.filterMap recoverSeg) := by
    rw [recover_segs]
    split
    · exact allRecs_append_fresh _ _
    · rfl
  have hnext : (recover c s).nextTs =
      (let kept := s.segs.filterMap recoverSeg
       let mv := max (maxVer ((kept.filter (fun sg => !sg.inMan)).flatMap (·.recs)))
                     (maxVer ((kept.filter (fun sg => sg.inMan)).flatMap (·.recs)))
       if mv = 0 then 1 else mv + 1) := by
    simp [recover, hm, ht, hp, hg]
  refine ⟨?_, ?_⟩
  · intro r hr
    rw [hw] at hr
    rw [hnext]
    simp only [allRecs, List.mem_flatMap] at hr
    obtain ⟨sg, hsg, hrs⟩ := hr
    have hle : r.ver ≤ max (maxVer (((s.segs.filterMap recoverSeg).filter (fun sg => !sg.inMan)).flatMap (·.recs)))
                       (maxVer (((s.segs.filterMap recoverSeg).filter (fun sg => sg.inMan)).flatMap (·.recs))) := by
      cases hin : sg.inMan
      · refine Nat.le_trans (ver_le_maxVer (List.mem_flatMap.mpr ⟨sg, ?_, hrs⟩)) (Nat.le_max_left _ _)
        exact List.mem_filter.mpr ⟨hsg, by simp [hin]⟩
      · refine Nat.le_trans (ver_le_maxVer (List.mem_flatMap.mpr ⟨sg, ?_, hrs⟩)) (Nat.le_max_right _ _)
        exact List.mem_filter.mpr ⟨hsg, by simp [hin]⟩
    simp only []
    split <;> omega
  · rw [hnext]
    show 0 < _
    simp only []
    split <;> omega

end NoKV.Disk

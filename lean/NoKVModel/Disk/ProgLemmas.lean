/-
E-Disk lemmas, part 3: the generated procedures meet the obligations of their steps
(program-order facts of `commitSteps`, `flushSteps`, `closeSteps`), and the resulting
invariants along whole histories with crashes at every step.
-/
import NoKVModel.Disk.RunLemmas

namespace NoKV.Disk

/-- steps that carry an obligation -/
def quiet : Step → Bool
  | .fManifest _ => false
  | .fWalRemove _ => false
  | .ack => false
  | _ => true

def noFlush : Step → Bool
  | .fManifest _ => false
  | .fWalRemove _ => false
  | _ => true

theorem noFlush_of_quiet {st : Step} (h : quiet st = true) : noFlush st = true := by
  cases st <;> simp [quiet, noFlush] at *

theorem all_replicate_nop (n : Nat) (ev : String) (p : Step → Bool) (hp : p (.nop ev) = true) :
    (List.replicate n (Step.nop ev)).all p = true := by
  induction n with
  | zero => rfl
  | succ n ih => simp [List.replicate_succ, hp, ih]

theorem vlogSteps_quiet : ∀ es, (vlogSteps es).all quiet = true
  | [] => rfl
  | (e, d) :: r => by
    have ih := vlogSteps_quiet r
    have hr := all_replicate_nop d.vgrow "ftrunc:vlog" quiet rfl
    simp only [vlogSteps, List.all_append, ih, Bool.and_true]
    cases e.big <;> cases d.vrot <;> simp [quiet, hr]

theorem ite_list_quiet (b : Bool) (l : List Step) (hl : l.all quiet = true) :
    (if b = true then l else []).all quiet = true := by
  cases b
  · rfl
  · simpa using hl

theorem pre_quiet (n : Nat) :
    (if n = 0 then [] else Step.wFlush :: List.replicate (n - 1) (Step.nop "write:wal")).all quiet = true := by
  split
  · rfl
  · simp only [List.all_cons, all_replicate_nop _ _ quiet rfl, Bool.and_true]; rfl

theorem lsmPre_quiet (c : Cfg) (first : Bool) (d : Dec) : (lsmPre c first d).all quiet = true := by
  unfold lsmPre
  simp only [List.all_append]
  exact Bool.and_eq_true_iff.mpr ⟨ite_list_quiet _ _ rfl, pre_quiet _⟩

theorem lsmPost_quiet (c : Cfg) (d : Dec) (r : List (Ent × Dec)) : (lsmPost c d r).all quiet = true := by
  unfold lsmPost
  exact ite_list_quiet _ _ rfl

theorem lsmSteps_quiet (c : Cfg) : ∀ es first, (lsmSteps c first es).all quiet = true
  | [], _ => rfl
  | (e, d) :: r, first => by
    have ih := lsmSteps_quiet c r false
    simp only [lsmSteps, List.all_append, ih, Bool.and_true, lsmPre_quiet, lsmPost_quiet, Bool.true_and]
    rfl

theorem headSteps_quiet (c : Cfg) (a : Bool) (lh : Option Nat) (v : Nat) (dl : Bool) :
    (headSteps c a lh v dl).all quiet = true := by
  unfold headSteps
  split <;> simp [quiet]

/-- a commit is a list of obligation-free steps followed by `sync; ack` (or `ack; sync`) -/
def commitBody (c : Cfg) (s : St) (bid : Nat) (es : List (Ent × Dec)) (delta : Bool) : List Step :=
  let anyBig := es.any (·.1.big)
  let head := headSteps c anyBig s.lastHead (s.vactive + countRot es) delta
  [.accept bid (es.map (·.1))] ++ vlogSteps es ++
    (if c.headFirst then head ++ lsmSteps c true es else lsmSteps c true es ++ head)

def syncTail (s : St) : List Step := if s.sync then [Step.wSync, Step.nop "sync:wal"] else []

theorem commitSteps_eq (c : Cfg) (s : St) (bid : Nat) (es : List (Ent × Dec)) (delta : Bool) :
    commitSteps c s bid es delta =
      commitBody c s bid es delta ++ (if c.ackAfterSync then syncTail s ++ [.ack] else [.ack] ++ syncTail s) := by
  simp [commitSteps, commitBody, syncTail, List.append_assoc]

theorem commitBody_quiet (c : Cfg) (s : St) (bid : Nat) (es : List (Ent × Dec)) (delta : Bool) :
    (commitBody c s bid es delta).all quiet = true := by
  unfold commitBody
  simp only [List.all_append, vlogSteps_quiet, Bool.and_true]
  refine Bool.and_eq_true_iff.mpr ⟨by simp [quiet], ?_⟩
  split <;> simp [List.all_append, headSteps_quiet, lsmSteps_quiet]

theorem syncTail_quiet (s : St) : (syncTail s).all quiet = true := by
  unfold syncTail; split <;> simp [quiet]

theorem commitSteps_noFlush (c : Cfg) (s : St) (bid : Nat) (es : List (Ent × Dec)) (delta : Bool) :
    (commitSteps c s bid es delta).all noFlush = true := by
  rw [commitSteps_eq]
  have h1 := commitBody_quiet c s bid es delta
  have h2 := syncTail_quiet s
  have q2n : ∀ l : List Step, l.all quiet = true → l.all noFlush = true := by
    intro l hl
    rw [List.all_eq_true] at hl ⊢
    exact fun x hx => noFlush_of_quiet (hl x hx)
  simp only [List.all_append, q2n _ h1, Bool.true_and]
  split <;> simp [List.all_append, q2n _ h2, noFlush]

theorem closeSteps_quiet (c : Cfg) (s : St) : (closeSteps c s).all quiet = true := by
  unfold closeSteps
  simp only [List.all_append]
  cases c.closeFlushesWal <;> simp [quiet]

theorem goodRun_of_all (P : St → Step → Prop) (p : Step → Bool) (hp : ∀ s st, p st = true → P s st) :
    ∀ (l : List Step) (s : St), l.all p = true → GoodRun P s l
  | [], _, _ => trivial
  | x :: l, s, h => by
    simp only [List.all_cons, Bool.and_eq_true] at h
    exact ⟨hp s x h.1, goodRun_of_all P p hp l _ h.2⟩

theorem segPre_of_noFlush (s : St) (st : Step) (h : noFlush st = true) : SegPre s st := by
  cases st <;> simp [noFlush, SegPre] at *

theorem bothPre_of_quiet (s : St) (st : Step) (h : quiet st = true) : SegPre s st ∧ AckPre s st := by
  cases st <;> simp [quiet, SegPre, AckPre] at *

/-! ### NonLastWith after an update -/

theorem nlw_set (id : Nat) (f : Seg → Seg) (p : Seg → Prop) (hp : ∀ x, p (f x)) :
    ∀ l, NonLastWith id p (updNonLast id f l)
  | [] => trivial
  | [_] => trivial
  | x :: y :: r => by
    have ih := nlw_set id f p hp (y :: r)
    cases hm : updNonLast id f (y :: r) with
    | nil => cases r <;> simp [updNonLast] at hm
    | cons a b =>
      simp only [updNonLast, hm]
      rw [hm] at ih
      refine ⟨fun h => ?_, ih⟩
      by_cases hid : x.id = id
      · simp only [hid, if_true]; exact hp x
      · simp only [hid, if_false] at h

/-- the flush procedure in the order `SST, manifest, WAL removal` meets every obligation -/
theorem flush_goodRun (c : Cfg) (hf : c.flushOrder = .sstManifestRemove) (s : St) (id : Nat) :
    GoodRun (fun s st => SegPre s st ∧ AckPre s st) s (flushSteps c id) := by
  unfold flushSteps
  rw [hf]
  simp only [GoodRun, SegPre, AckPre, exec, and_true, true_and]
  refine ⟨?_, ?_⟩
  · exact nlw_set id (fun sg => { sg with sstFile := true }) (fun sg => sg.sstFile = true) (fun _ => rfl) _
  · -- after `fManifest` every rotated segment with this id is in the manifest
    exact nlw_set id (fun sg => { sg with inMan := true }) (fun sg => sg.inMan = true) (fun _ => rfl) _

/-! ### histories -/

theorem run_inv (c : Cfg) (I : St → Prop) (hop : ∀ s op, I s → I (runOp c s op)) :
    ∀ (ops : List Op) (s : St), I s → I (run c s ops)
  | [], _, h => h
  | op :: ops, s, h => run_inv c I hop ops (runOp c s op) (hop s op h)

/-- an invariant of guarded steps that `Open` re-establishes holds in every state the process can
be killed in, and after every complete history -/
theorem crashState_inv (c : Cfg) (I : St → Prop) (P : St → Step → Prop)
    (hstep : ∀ s st, I s → P s st → I (exec s st))
    (hgood : ∀ s op, I s → GoodRun P s (opSteps c s op))
    (hrec : ∀ s, I s → I (recover c s))
    (s0 s : St) (h0 : I s0) (hc : CrashState c s0 s) : I s := by
  obtain ⟨ops, op, k, rfl⟩ := hc
  have hop : ∀ s op, I s → I (runOp c s op) := by
    intro s op hi
    have := full_inv I P hstep _ s hi (hgood s op hi)
    unfold runOp
    cases op <;> simp only [finish] <;> first | exact this | exact hrec _ this
  have hr := run_inv c I hop ops s0 h0
  exact prefix_inv I P hstep _ _ hr (hgood _ op hr) k

theorem reach_inv (c : Cfg) (I : St → Prop) (P : St → Step → Prop)
    (hstep : ∀ s st, I s → P s st → I (exec s st))
    (hgood : ∀ s op, I s → GoodRun P s (opSteps c s op))
    (hrec : ∀ s, I s → I (recover c s))
    (s0 : St) (h0 : I s0) (ops : List Op) : I (run c s0 ops) := by
  have := crashState_inv c I P hstep hgood hrec s0 (run c s0 ops) h0 ⟨ops, .crash, 0, by simp [execAll]⟩
  exact this

/-- obligations of the flush steps are met by every procedure when the flush order is SST, manifest, removal -/
theorem opSteps_goodSeg (c : Cfg) (hf : c.flushOrder = .sstManifestRemove) (s : St) (op : Op) :
    GoodRun SegPre s (opSteps c s op) := by
  cases op with
  | commit bid es delta =>
    exact goodRun_of_all SegPre noFlush (fun s st h => segPre_of_noFlush s st h) _ s (commitSteps_noFlush c s bid es delta)
  | flush =>
    simp only [opSteps]
    cases immIds s.segs with
    | nil => trivial
    | cons id _ =>
      have := flush_goodRun c hf s id
      -- weaken the obligation
      have weaken : ∀ (l : List Step) (s : St), GoodRun (fun s st => SegPre s st ∧ AckPre s st) s l → GoodRun SegPre s l := by
        intro l
        induction l with
        | nil => intro _ _; trivial
        | cons x l ih => intro s h; exact ⟨h.1.1, ih _ h.2⟩
      exact weaken _ _ this
  | reopen =>
    have h := closeSteps_quiet c s
    rw [List.all_eq_true] at h
    exact goodRun_of_all SegPre noFlush (fun s st h => segPre_of_noFlush s st h) _ s
      (List.all_eq_true.mpr (fun x hx => noFlush_of_quiet (h x hx)))
  | crash => trivial

theorem recover_sync (c : Cfg) (s : St) : (recover c s).sync = s.sync := rfl

/-- under SyncWrites with `Sync` before the acknowledgement every procedure also meets the
obligation of `ack` -/
theorem opSteps_goodAck (c : Cfg) (hf : c.flushOrder = .sstManifestRemove) (ha : c.ackAfterSync = true)
    (s : St) (hs : s.sync = true) (op : Op) :
    GoodRun (fun s st => SegPre s st ∧ AckPre s st) s (opSteps c s op) := by
  cases op with
  | commit bid es delta =>
    simp only [opSteps]
    rw [commitSteps_eq, ha]
    simp only [if_true, syncTail, hs]
    rw [goodRun_append]
    refine ⟨goodRun_of_all _ quiet (fun s st h => bothPre_of_quiet s st h) _ s (commitBody_quiet c s bid es delta), ?_⟩
    simp only [List.cons_append, List.nil_append, GoodRun, SegPre, AckPre, exec, and_true, true_and]
    exact pend_modLast_flush _
  | flush =>
    simp only [opSteps]
    cases immIds s.segs with
    | nil => trivial
    | cons id _ => exact flush_goodRun c hf s id
  | reopen =>
    exact goodRun_of_all _ quiet (fun s st h => bothPre_of_quiet s st h) _ s (closeSteps_quiet c s)
  | crash => trivial

end NoKV.Disk

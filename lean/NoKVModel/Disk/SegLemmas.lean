/-
E-Disk lemmas, part 1: the per-segment invariant `SegsOK` (every rotated segment is completely
recoverable from exactly one of its durable representations; the active one shows a prefix) and
the consequence that recovery yields a prefix of everything written.
-/
import NoKVModel.Disk.Model

namespace NoKV.Disk

def SegOK (sg : Seg) : Prop :=
  sg.durable = sg.recs.length ∧ (sg.inMan = true → sg.sstFile = true) ∧ (sg.inMan = false → sg.walFile = true)

def LastOK (x : Seg) : Prop := x.inMan = false ∧ x.walFile = true ∧ x.durable ≤ x.recs.length

def SegsOK : List Seg → Prop
  | [] => False
  | [x] => LastOK x
  | x :: y :: r => SegOK x ∧ SegsOK (y :: r)

/-- records of the active segment still in the WAL buffer -/
def pend : List Seg → Nat
  | [] => 0
  | [x] => x.recs.length - x.durable
  | _ :: y :: r => pend (y :: r)

def allRecs (l : List Seg) : List Rec := l.flatMap (·.recs)

theorem pendingLen_eq (s : St) : pendingLen s = pend s.segs := by
  unfold pendingLen
  generalize s.segs = l
  induction l with
  | nil => rfl
  | cons x r ih =>
    cases r with
    | nil => rfl
    | cons y r => simpa [pend, List.getLast?] using ih

theorem visible_of_segOK {sg : Seg} (h : SegOK sg) : visible sg = sg.recs := by
  obtain ⟨h1, h2, h3⟩ := h
  unfold visible
  cases hm : sg.inMan
  · simp [h3 hm, h1]
  · simp [h2 hm]

theorem visible_of_lastOK {x : Seg} (h : LastOK x) : visible x = x.recs.take x.durable := by
  obtain ⟨h1, h2, _⟩ := h
  simp [visible, h1, h2]

theorem pend_le (l : List Seg) : pend l ≤ (allRecs l).length := by
  induction l with
  | nil => simp [pend, allRecs]
  | cons x r ih =>
    cases r with
    | nil => simp [pend, allRecs]
    | cons y r =>
      have : (allRecs (x :: y :: r)).length = x.recs.length + (allRecs (y :: r)).length := by
        simp [allRecs]
      simp only [pend]
      omega

/-- what recovery sees is everything written minus the buffered tail -/
theorem visible_prefix (l : List Seg) (h : SegsOK l) :
    l.flatMap visible = (allRecs l).take ((allRecs l).length - pend l) := by
  induction l with
  | nil => exact absurd h (by simp [SegsOK])
  | cons x r ih =>
    cases r with
    | nil =>
      have hl : LastOK x := h
      have hd := hl.2.2
      simp only [List.flatMap_cons, List.flatMap_nil, List.append_nil, allRecs, pend]
      rw [visible_of_lastOK hl]
      congr 1
      omega
    | cons y r =>
      obtain ⟨hx, hr⟩ := h
      have ih' := ih hr
      have hp := pend_le (y :: r)
      have e1 : allRecs (x :: y :: r) = x.recs ++ allRecs (y :: r) := by simp [allRecs]
      rw [List.flatMap_cons, visible_of_segOK hx, ih', e1]
      simp only [pend, List.length_append]
      have : x.recs.length + (allRecs (y :: r)).length - pend (y :: r)
           = x.recs.length + ((allRecs (y :: r)).length - pend (y :: r)) := by omega
      rw [this, List.take_length_add_append]

/-! ### preservation by the steps of the write path (unconditional) -/

theorem segsOK_modLast {f : Seg → Seg} (hf : ∀ x, LastOK x → LastOK (f x)) :
    ∀ l, SegsOK l → SegsOK (modLast f l)
  | [], h => h
  | [x], h => hf x h
  | x :: y :: r, h => by
    obtain ⟨hx, hr⟩ := h
    have := segsOK_modLast hf (y :: r) hr
    cases hm : modLast f (y :: r) with
    | nil => simp [hm, SegsOK] at this
    | cons a b => simp only [modLast, hm]; rw [hm] at this; exact ⟨hx, this⟩

theorem modLast_ne_nil {f : Seg → Seg} : ∀ l, l ≠ [] → modLast f l ≠ []
  | [], h => h
  | [_], _ => by simp [modLast]
  | _ :: _ :: _, _ => by simp [modLast]

/-- rotation: the old active segment is flushed and becomes an ordinary rotated segment -/
theorem segsOK_rotate (n : Nat) : ∀ l, SegsOK l →
    SegsOK (modLast (fun sg => { sg with durable := sg.recs.length }) l ++ [⟨n, [], 0, true, false, false⟩])
  | [], h => h.elim
  | [x], h => by
    obtain ⟨h1, h2, _⟩ := h
    refine ⟨⟨rfl, ?_, ?_⟩, ?_⟩
    · intro hm; simp [h1] at hm
    · intro _; exact h2
    · exact ⟨rfl, rfl, Nat.le_refl _⟩
  | x :: y :: r, h => by
    obtain ⟨hx, hr⟩ := h
    have ih := segsOK_rotate n (y :: r) hr
    have hne : modLast (fun sg => { sg with durable := sg.recs.length }) (y :: r) ≠ [] :=
      modLast_ne_nil _ (by simp)
    cases hm : modLast (fun sg => { sg with durable := sg.recs.length }) (y :: r) with
    | nil => exact absurd hm hne
    | cons a b =>
      simp only [modLast, hm, List.cons_append]
      rw [hm] at ih
      exact ⟨hx, ih⟩

/-! ### the flush procedure: each durable effect needs the previous one -/

/-- all rotated segments with id `id` satisfy `p` -/
def NonLastWith (id : Nat) (p : Seg → Prop) : List Seg → Prop
  | [] => True
  | [_] => True
  | x :: y :: r => (x.id = id → p x) ∧ NonLastWith id p (y :: r)

theorem segsOK_fSst (id : Nat) : ∀ l, SegsOK l →
    SegsOK (updNonLast id (fun sg => { sg with sstFile := true }) l) ∧
    NonLastWith id (fun sg => sg.sstFile = true) (updNonLast id (fun sg => { sg with sstFile := true }) l)
  | [], h => ⟨h, trivial⟩
  | [x], h => ⟨h, trivial⟩
  | x :: y :: r, h => by
    obtain ⟨hx, hr⟩ := h
    obtain ⟨i1, i2⟩ := segsOK_fSst id (y :: r) hr
    cases hm : updNonLast id (fun sg => { sg with sstFile := true }) (y :: r) with
    | nil => rw [hm] at i1; exact i1.elim
    | cons a b =>
      rw [hm] at i1 i2
      simp only [updNonLast, hm]
      by_cases hid : x.id = id
      · simp only [hid, if_true]
        refine ⟨⟨⟨hx.1, fun _ => rfl, hx.2.2⟩, i1⟩, ⟨fun _ => rfl, i2⟩⟩
      · simp only [hid, if_false]
        exact ⟨⟨hx, i1⟩, ⟨fun h' => absurd h' hid, i2⟩⟩

theorem segsOK_fManifest (id : Nat) : ∀ l, SegsOK l → NonLastWith id (fun sg => sg.sstFile = true) l →
    SegsOK (updNonLast id (fun sg => { sg with inMan := true }) l) ∧
    NonLastWith id (fun sg => sg.inMan = true) (updNonLast id (fun sg => { sg with inMan := true }) l)
  | [], h, _ => ⟨h, trivial⟩
  | [x], h, _ => ⟨h, trivial⟩
  | x :: y :: r, h, hs => by
    obtain ⟨hx, hr⟩ := h
    obtain ⟨hs1, hs2⟩ := hs
    obtain ⟨i1, i2⟩ := segsOK_fManifest id (y :: r) hr hs2
    cases hm : updNonLast id (fun sg => { sg with inMan := true }) (y :: r) with
    | nil => rw [hm] at i1; exact i1.elim
    | cons a b =>
      rw [hm] at i1 i2
      simp only [updNonLast, hm]
      by_cases hid : x.id = id
      · simp only [hid, if_true]
        refine ⟨⟨⟨hx.1, fun _ => hs1 hid, fun h' => by simp at h'⟩, i1⟩, ⟨fun _ => rfl, i2⟩⟩
      · simp only [hid, if_false]
        exact ⟨⟨hx, i1⟩, ⟨fun h' => absurd h' hid, i2⟩⟩

theorem segsOK_fWalRemove (id : Nat) : ∀ l, SegsOK l → NonLastWith id (fun sg => sg.inMan = true) l →
    SegsOK (updNonLast id (fun sg => { sg with walFile := false }) l)
  | [], h, _ => h
  | [x], h, _ => h
  | x :: y :: r, h, hs => by
    obtain ⟨hx, hr⟩ := h
    obtain ⟨hs1, hs2⟩ := hs
    have i1 := segsOK_fWalRemove id (y :: r) hr hs2
    cases hm : updNonLast id (fun sg => { sg with walFile := false }) (y :: r) with
    | nil => rw [hm] at i1; exact i1.elim
    | cons a b =>
      rw [hm] at i1
      simp only [updNonLast, hm]
      by_cases hid : x.id = id
      · simp only [hid, if_true]
        refine ⟨⟨hx.1, hx.2.1, fun h' => ?_⟩, i1⟩
        have := hs1 hid
        simp [this] at h'
      · simp only [hid, if_false]
        exact ⟨hx, i1⟩

/-- updates of rotated segments never touch what has been written or the buffered tail -/
theorem allRecs_updNonLast (id : Nat) (f : Seg → Seg) (hf : ∀ x, (f x).recs = x.recs) :
    ∀ l, allRecs (updNonLast id f l) = allRecs l
  | [] => rfl
  | [_] => rfl
  | x :: y :: r => by
    have ih := allRecs_updNonLast id f hf (y :: r)
    simp only [allRecs, updNonLast, List.flatMap_cons] at ih ⊢
    rw [ih]
    by_cases h : x.id = id <;> simp [h, hf]

theorem pend_updNonLast (id : Nat) (f : Seg → Seg) : ∀ l, pend (updNonLast id f l) = pend l
  | [] => rfl
  | [_] => rfl
  | x :: y :: r => by
    have ih := pend_updNonLast id f (y :: r)
    cases hm : updNonLast id f (y :: r) with
    | nil =>
      cases r <;> simp [updNonLast] at hm
    | cons a b =>
      simp only [updNonLast, hm, pend]
      rw [hm] at ih
      exact ih

end NoKV.Disk

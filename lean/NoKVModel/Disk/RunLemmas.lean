/-
E-Disk lemmas, part 2: guarded runs (every step's program-order obligation holds when it is
reached), the log invariant on every prefix of every procedure, and what `recover` returns.
-/
import NoKVModel.Disk.SegLemmas

namespace NoKV.Disk

theorem execAll_append (s : St) (a b : List Step) : execAll s (a ++ b) = execAll (execAll s a) b := by
  simp [execAll, List.foldl_append]

theorem execAll_cons (s : St) (a : Step) (b : List Step) : execAll s (a :: b) = execAll (exec s a) b := rfl

/-- `P s st` = obligation of step `st` when it is reached in state `s` -/
def GoodRun (P : St → Step → Prop) : St → List Step → Prop
  | _, [] => True
  | s, st :: r => P s st ∧ GoodRun P (exec s st) r

theorem goodRun_append (P : St → Step → Prop) : ∀ (a b : List Step) (s : St),
    GoodRun P s (a ++ b) ↔ GoodRun P s a ∧ GoodRun P (execAll s a) b
  | [], b, s => by simp [GoodRun, execAll]
  | x :: a, b, s => by
    simp only [List.cons_append, GoodRun, execAll_cons]
    rw [goodRun_append P a b (exec s x)]
    exact and_assoc.symm

theorem goodRun_of_forall (P : St → Step → Prop) : ∀ (l : List Step) (s : St),
    (∀ st ∈ l, ∀ s', P s' st) → GoodRun P s l
  | [], _, _ => trivial
  | x :: l, s, h => ⟨h x (by simp) s, goodRun_of_forall P l _ (fun st hst => h st (by simp [hst]))⟩

/-- an invariant preserved by every step whose obligation holds is true after every prefix -/
theorem prefix_inv (I : St → Prop) (P : St → Step → Prop)
    (hstep : ∀ s st, I s → P s st → I (exec s st)) :
    ∀ (l : List Step) (s : St), I s → GoodRun P s l → ∀ k, I (execAll s (l.take k))
  | [], s, hi, _, k => by simpa [execAll] using hi
  | x :: l, s, hi, hg, k => by
    cases k with
    | zero => simpa [execAll] using hi
    | succ k =>
      simp only [List.take_succ_cons, execAll_cons]
      exact prefix_inv I P hstep l (exec s x) (hstep s x hi hg.1) hg.2 k

theorem full_inv (I : St → Prop) (P : St → Step → Prop)
    (hstep : ∀ s st, I s → P s st → I (exec s st)) (l : List Step) (s : St) (hi : I s) (hg : GoodRun P s l) :
    I (execAll s l) := by
  have := prefix_inv I P hstep l s hi hg l.length
  simpa using this

/-! ### durable length -/

def durLen (l : List Seg) : Nat := (allRecs l).length - pend l

theorem allRecs_modLast_append (r : Rec) : ∀ l, l ≠ [] →
    allRecs (modLast (fun sg => { sg with recs := sg.recs ++ [r] }) l) = allRecs l ++ [r]
  | [], h => absurd rfl h
  | [x], _ => by simp [allRecs, modLast]
  | x :: y :: t, _ => by
    have ih := allRecs_modLast_append r (y :: t) (by simp)
    simp only [allRecs, modLast, List.flatMap_cons] at ih ⊢
    rw [ih]; simp

theorem pend_modLast_append (r : Rec) : ∀ l, SegsOK l →
    pend (modLast (fun sg => { sg with recs := sg.recs ++ [r] }) l) = pend l + 1
  | [], h => h.elim
  | [x], h => by
    have := h.2.2
    simp [pend, modLast]; omega
  | x :: y :: t, h => by
    have ih := pend_modLast_append r (y :: t) h.2
    cases hm : modLast (fun sg => { sg with recs := sg.recs ++ [r] }) (y :: t) with
    | nil => exact absurd hm (modLast_ne_nil _ (by simp))
    | cons a b => simp only [modLast, hm, pend]; rw [hm] at ih; exact ih

theorem allRecs_modLast_dur (g : Seg → Nat) : ∀ l,
    allRecs (modLast (fun sg => { sg with durable := g sg }) l) = allRecs l
  | [] => rfl
  | [x] => by simp [allRecs, modLast]
  | x :: y :: t => by
    have ih := allRecs_modLast_dur g (y :: t)
    simp only [allRecs, modLast, List.flatMap_cons] at ih ⊢
    rw [ih]

theorem pend_modLast_flush : ∀ l, pend (modLast (fun sg => { sg with durable := sg.recs.length }) l) = 0
  | [] => rfl
  | [x] => by simp [pend, modLast]
  | x :: y :: t => by
    have ih := pend_modLast_flush (y :: t)
    cases hm : modLast (fun sg => { sg with durable := sg.recs.length }) (y :: t) with
    | nil => exact absurd hm (modLast_ne_nil _ (by simp))
    | cons a b => simp only [modLast, hm, pend]; rw [hm] at ih; exact ih

theorem allRecs_append_fresh (l : List Seg) (n : Nat) :
    allRecs (l ++ [⟨n, [], 0, true, false, false⟩]) = allRecs l := by
  simp [allRecs]

theorem pend_append_fresh (n : Nat) : ∀ l, pend (l ++ [⟨n, [], 0, true, false, false⟩]) = 0
  | [] => rfl
  | [x] => by simp [pend]
  | x :: y :: t => by
    have ih := pend_append_fresh n (y :: t)
    cases hm : (y :: t) ++ [(⟨n, [], 0, true, false, false⟩ : Seg)] with
    | nil => simp at hm
    | cons a b =>
      have : (x :: y :: t) ++ [(⟨n, [], 0, true, false, false⟩ : Seg)] = x :: a :: b := by
        rw [← hm]; rfl
      rw [this]; simp only [pend]; rw [hm] at ih; exact ih

theorem durLen_updNonLast (id : Nat) (f : Seg → Seg) (hf : ∀ x, (f x).recs = x.recs) (l : List Seg) :
    durLen (updNonLast id f l) = durLen l := by
  unfold durLen
  rw [allRecs_updNonLast id f hf, pend_updNonLast]

/-! ### the log invariant and its obligations -/

/-- obligations of the flush procedure (each durable effect needs the previous one) -/
def SegPre (s : St) : Step → Prop
  | .fManifest id => NonLastWith id (fun sg => sg.sstFile = true) s.segs
  | .fWalRemove id => NonLastWith id (fun sg => sg.inMan = true) s.segs
  | _ => True

/-- obligation of the acknowledgement under SyncWrites: nothing is left in the WAL buffer -/
def AckPre (s : St) : Step → Prop
  | .ack => pend s.segs = 0
  | _ => True

theorem segsOK_step (s : St) (st : Step) (h : SegsOK s.segs) (hp : SegPre s st) : SegsOK (exec s st).segs := by
  cases st with
  | wAppend e fin =>
    simp only [exec]
    apply segsOK_modLast _ _ h
    intro x hx
    refine ⟨hx.1, hx.2.1, ?_⟩
    have := hx.2.2
    show x.durable ≤ (x.recs ++ _).length
    rw [List.length_append]; omega
  | wFlush =>
    simp only [exec]
    apply segsOK_modLast _ _ h
    intro x hx
    exact ⟨hx.1, hx.2.1, Nat.le_refl _⟩
  | wSync =>
    simp only [exec]
    apply segsOK_modLast _ _ h
    intro x hx
    exact ⟨hx.1, hx.2.1, Nat.le_refl _⟩
  | mRotate => exact segsOK_rotate _ _ h
  | fSst id => exact (segsOK_fSst id _ h).1
  | fManifest id => exact (segsOK_fManifest id _ h hp).1
  | fWalRemove id => exact segsOK_fWalRemove id _ h hp
  | _ => exact h

theorem durLen_step (s : St) (st : Step) (h : SegsOK s.segs) : durLen s.segs ≤ durLen (exec s st).segs := by
  cases st with
  | wAppend e fin =>
    have hne : s.segs ≠ [] := by intro h0; rw [h0] at h; exact h
    simp only [exec, durLen]
    rw [allRecs_modLast_append _ _ hne, pend_modLast_append _ _ h]
    simp
  | wFlush =>
    simp only [exec, durLen]
    rw [allRecs_modLast_dur, pend_modLast_flush]; omega
  | wSync =>
    simp only [exec, durLen]
    rw [allRecs_modLast_dur, pend_modLast_flush]; omega
  | mRotate =>
    simp only [exec, durLen]
    rw [allRecs_append_fresh, pend_append_fresh, allRecs_modLast_dur]; omega
  | fSst id =>
    exact Nat.le_of_eq (durLen_updNonLast id (fun sg => { sg with sstFile := true }) (fun _ => rfl) s.segs).symm
  | fManifest id =>
    exact Nat.le_of_eq (durLen_updNonLast id (fun sg => { sg with inMan := true }) (fun _ => rfl) s.segs).symm
  | fWalRemove id =>
    exact Nat.le_of_eq (durLen_updNonLast id (fun sg => { sg with walFile := false }) (fun _ => rfl) s.segs).symm
  | _ => exact Nat.le_refl _

/-- acknowledged records are below the durable length -/
def AckInv (s : St) : Prop := SegsOK s.segs ∧ s.ackedLen ≤ durLen s.segs

theorem ackInv_step (s : St) (st : Step) (h : AckInv s) (hp : SegPre s st ∧ AckPre s st) : AckInv (exec s st) := by
  refine ⟨segsOK_step s st h.1 hp.1, ?_⟩
  by_cases hack : st = .ack
  · subst hack
    have hz : pend s.segs = 0 := hp.2
    simp only [exec, durLen, allRecs, hz]
    exact Nat.le_refl _
  · have h1 := durLen_step s st h.1
    have h2 : (exec s st).ackedLen = s.ackedLen := by
      cases st <;> first | rfl | (exact absurd rfl hack)
    rw [h2]; exact Nat.le_trans h.2 h1

theorem exec_sync (s : St) (st : Step) : (exec s st).sync = s.sync := by cases st <;> rfl

theorem execAll_sync (s : St) (l : List Step) : (execAll s l).sync = s.sync := by
  induction l generalizing s with
  | nil => rfl
  | cons x l ih => rw [execAll_cons, ih, exec_sync]

/-! ### recovery -/

theorem recoverSeg_recs (sg : Seg) : (match recoverSeg sg with | some x => x.recs | none => []) = visible sg := by
  unfold recoverSeg visible
  cases sg.inMan <;> cases sg.sstFile <;> cases sg.walFile <;> simp

theorem allRecs_filterMap_recover : ∀ l : List Seg, allRecs (l.filterMap recoverSeg) = l.flatMap visible
  | [] => rfl
  | x :: l => by
    have ih := allRecs_filterMap_recover l
    have hx := recoverSeg_recs x
    simp only [List.filterMap_cons, List.flatMap_cons]
    cases h : recoverSeg x with
    | none => rw [h] at hx; simp only [] at hx; rw [← hx]; simpa using ih
    | some y =>
      rw [h] at hx; simp only [] at hx
      simp only [allRecs, List.flatMap_cons] at ih ⊢
      rw [ih, hx]

theorem recover_segs (c : Cfg) (s : St) :
    (recover c s).segs = (if needsFresh (s.segs.filterMap recoverSeg)
      then s.segs.filterMap recoverSeg ++ [⟨maxId s.segs + 1, [], 0, true, false, false⟩]
      else s.segs.filterMap recoverSeg) := rfl

/-- what the reopened database holds is exactly what recovery could see on disk -/
theorem written_recover (c : Cfg) (s : St) : written (recover c s) = recLog s := by
  unfold written recLog
  rw [recover_segs]
  have := allRecs_filterMap_recover s.segs
  unfold allRecs at this
  split
  · rw [List.flatMap_append]; simp [this]
  · exact this

theorem recoverSeg_ok {sg sg' : Seg} (h : recoverSeg sg = some sg') : SegOK sg' := by
  unfold recoverSeg at h
  by_cases hm : sg.inMan = true
  · simp only [hm, if_true] at h
    by_cases hs : sg.sstFile = true
    · simp only [hs, if_true, Option.some.injEq] at h
      subst h
      exact ⟨rfl, fun _ => by simp [hs], fun h' => by simp at h'⟩
    · simp [hs] at h
  · have hm' : sg.inMan = false := by simpa using hm
    simp only [hm', Bool.false_eq_true, if_false] at h
    by_cases hw : sg.walFile = true
    · simp only [hw, if_true, Option.some.injEq] at h
      subst h
      refine ⟨by simp [List.length_take], fun h' => by simp at h', fun _ => rfl⟩
    · simp [hw] at h

theorem segsOK_fresh (n : Nat) : ∀ l : List Seg, (∀ x ∈ l, SegOK x) →
    SegsOK (if needsFresh l then l ++ [⟨n, [], 0, true, false, false⟩] else l)
  | [], _ => by simp [needsFresh, SegsOK, LastOK]
  | [x], h => by
    have hx := h x (by simp)
    cases hm : x.inMan
    · simp only [needsFresh, hm, Bool.false_eq_true, if_false]
      exact ⟨hm, hx.2.2 hm, by rw [hx.1]; exact Nat.le_refl _⟩
    · simp only [needsFresh, hm, if_true, List.cons_append, List.nil_append]
      exact ⟨hx, ⟨rfl, rfl, Nat.le_refl _⟩⟩
  | x :: y :: r, h => by
    have ih := segsOK_fresh n (y :: r) (fun z hz => h z (by simp [hz]))
    have hx := h x (by simp)
    simp only [needsFresh]
    by_cases hn : needsFresh (y :: r) = true
    · simp only [hn, if_true] at ih ⊢
      exact ⟨hx, ih⟩
    · simp only [hn, if_false] at ih ⊢
      exact ⟨hx, ih⟩

theorem segsOK_recover (c : Cfg) (s : St) : SegsOK (recover c s).segs := by
  rw [recover_segs]
  apply segsOK_fresh
  intro x hx
  rw [List.mem_filterMap] at hx
  obtain ⟨a, _, ha⟩ := hx
  exact recoverSeg_ok ha

/-- after recovery nothing is buffered: everything the database holds is durable -/
theorem pend_recover (c : Cfg) (s : St) : pend (recover c s).segs = 0 := by
  rw [recover_segs]
  have key : ∀ l : List Seg, (∀ x ∈ l, SegOK x) →
      pend (if needsFresh l then l ++ [⟨maxId s.segs + 1, [], 0, true, false, false⟩] else l) = 0 := by
    intro l
    induction l with
    | nil => intro _; simp [needsFresh, pend]
    | cons x r ih =>
      intro h
      cases r with
      | nil =>
        have hx := h x (by simp)
        cases hm : x.inMan
        · simp [needsFresh, hm, pend, hx.1]
        · simp [needsFresh, hm, pend]
      | cons y r =>
        have ih' := ih (fun z hz => h z (by simp [hz]))
        simp only [needsFresh] at ih' ⊢
        by_cases hn : needsFresh (y :: r) = true
        · simp only [hn, if_true] at ih' ⊢
          cases hm : (y :: r) ++ [(⟨maxId s.segs + 1, [], 0, true, false, false⟩ : Seg)] with
          | nil => simp at hm
          | cons a b =>
            have e : (x :: y :: r) ++ [(⟨maxId s.segs + 1, [], 0, true, false, false⟩ : Seg)] = x :: a :: b := by
              rw [← hm]; rfl
            rw [e]; simp only [pend]; rw [hm] at ih'; exact ih'
        · simp only [hn, if_false] at ih' ⊢
          simpa [pend] using ih'
  apply key
  intro x hx
  rw [List.mem_filterMap] at hx
  obtain ⟨a, _, ha⟩ := hx
  exact recoverSeg_ok ha

theorem recLog_eq (s : St) (h : SegsOK s.segs) : recLog s = (written s).take (durLen s.segs) :=
  visible_prefix s.segs h

theorem ackInv_recover (c : Cfg) (s : St) (h : AckInv s) : AckInv (recover c s) := by
  refine ⟨segsOK_recover c s, ?_⟩
  have hp := pend_recover c s
  have hw : allRecs (recover c s).segs = recLog s := written_recover c s
  unfold durLen
  rw [hp, hw]
  show min s.ackedLen (recLog s).length ≤ (recLog s).length - 0
  omega

end NoKV.Disk

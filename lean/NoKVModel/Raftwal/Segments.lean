/-
Model for C36 (WAL segment cleanup): WAL segments with the records they hold (LSM puts of the
memtable bound to the segment; raft records tagged by group and index range), the manifest
log pointer and installed tables, per-group manifest raft pointers, and the three removers
(`lsm/levels.go:flush` + `canRemoveWalSegment`, `wal/watchdog.go` +
`metrics/wal.go:AnalyzeWALBacklog`, `lsm/memtable.go:recovery`) with their decision predicates
as configuration facts.  Core Lean only; executable.  Segment ids are ordinals in creation order.
-/
namespace NoKV.Raftwal.Seg

/-- a raft record: group, entry range `lo..hi` (`lo = 0`: a hard-state record).  `lhi` is a ghost:
the last index of the record that is still live, i.e. not rewritten by a later append of the
group (a later append starting at `i` supersedes everything from `i` on); `lhi < lo`: nothing. -/
structure RRec where
  g : Nat
  lo : Nat
  hi : Nat
  lhi : Nat
  deriving DecidableEq, Repr, Inhabited

structure Segm where
  id : Nat
  puts : List (Nat × Nat) := []     -- (key, seq) of the memtable bound to this segment
  raft : List RRec := []
  present : Bool := true            -- the file still exists
  deriving DecidableEq, Repr, Inhabited

structure Grp where
  id : Nat
  openOK : Bool := true
  last : Nat := 0                   -- live MemoryStorage last index
  base : Nat := 0                   -- live MemoryStorage first index − 1
  ptrSeg : Nat := 0                 -- manifest pointer: Segment (0 = no pointer yet)
  segIndex : Nat := 0               -- manifest pointer: SegmentIndex
  trunc : Nat := 0                  -- manifest pointer: TruncatedIndex
  spans : List (Nat × Nat × Nat) := []   -- entrySpans (lo, hi, segment)
  deriving DecidableEq, Repr, Inhabited

structure SCfg where
  /-- removers keep every raft-bearing segment while some group has not recorded a truncation
  segment yet (as-is: only the pointer's latest segment guards such a group) -/
  guardUntruncated : Bool
  /-- the watchdog only removes segments at or below the manifest log pointer (memtable flushed) -/
  wdChecksFlushed : Bool
  /-- a memtable flush that fails is retried in place, later flushes wait behind it, so the
  manifest log pointer never moves past an unflushed memtable (as-is: the failed memtable is
  dropped from the queue, the next flush moves the pointer past it, and the recovery cleanup —
  everything at or below the pointer — then deletes its segment) -/
  flushRetries : Bool
  /-- `OpenWALStorage` seeds the log with the pointer's truncation point before replaying -/
  replaySeedsTrunc : Bool
  deriving DecidableEq, Repr

def SCfg.good : SCfg :=
  { guardUntruncated := true, wdChecksFlushed := true, flushRetries := true, replaySeedsTrunc := true }
def SCfg.Good (c : SCfg) : Prop :=
  c.guardUntruncated = true ∧ c.wdChecksFlushed = true ∧ c.flushRetries = true ∧ c.replaySeedsTrunc = true
instance SCfg.decGood (c : SCfg) : Decidable c.Good := by unfold SCfg.Good; exact inferInstance
def SCfg.RemoversGood (c : SCfg) : Prop := c.guardUntruncated = true ∧ c.wdChecksFlushed = true
instance SCfg.decRemoversGood (c : SCfg) : Decidable c.RemoversGood := by unfold SCfg.RemoversGood; exact inferInstance
def SCfg.AsIsGuard (c : SCfg) : Prop := c.guardUntruncated = false
instance SCfg.decAsIsGuard (c : SCfg) : Decidable c.AsIsGuard := by unfold SCfg.AsIsGuard; exact inferInstance
def SCfg.AsIsWatchdog (c : SCfg) : Prop := c.wdChecksFlushed = false
instance SCfg.decAsIsWatchdog (c : SCfg) : Decidable c.AsIsWatchdog := by unfold SCfg.AsIsWatchdog; exact inferInstance
def SCfg.AsIsRecovery (c : SCfg) : Prop := c.flushRetries = false
instance SCfg.decAsIsRecovery (c : SCfg) : Decidable c.AsIsRecovery := by unfold SCfg.AsIsRecovery; exact inferInstance
def SCfg.AsIsReplay (c : SCfg) : Prop := c.replaySeedsTrunc = false
instance SCfg.decAsIsReplay (c : SCfg) : Decidable c.AsIsReplay := by unfold SCfg.AsIsReplay; exact inferInstance

structure S where
  segs : List Segm := [{ id := 1 }]
  active : Nat := 1
  next : Nat := 2
  imm : List Nat := []              -- rotated memtables not yet flushed, oldest first
  gateClosed : Bool := false
  tables : List (Nat × Nat) := []   -- puts contained in installed tables
  installed : List Nat := []        -- ghost: segment ids whose memtable's table was installed
  logPtr : Nat := 0                 -- manifest log pointer (segment)
  live : List (Nat × Nat) := []     -- every put readable by the running process
  seq : Nat := 0
  grps : List Grp := [{ id := 1 }, { id := 2 }]
  deriving DecidableEq, Repr, Inhabited

def hasRaft (sg : Segm) : Bool := !sg.raft.isEmpty

/-- raft half of `canRemoveWalSegment` -/
def raftAllows (c : SCfg) (grps : List Grp) (sg : Segm) : Bool :=
  grps.all (fun g => g.ptrSeg == 0 ||
    ((g.segIndex == 0 || decide (sg.id < g.segIndex)) && decide (sg.id < g.ptrSeg) &&
     (!c.guardUntruncated || g.segIndex != 0 || !hasRaft sg)))

/-- `AnalyzeWALBacklog`: retainSegment = min over pointers of Segment and SegmentIndex (> 0) -/
def retainSeg (grps : List Grp) : Nat :=
  grps.foldl (fun acc g =>
    let a := if g.ptrSeg ≠ 0 ∧ (acc = 0 ∨ g.ptrSeg < acc) then g.ptrSeg else acc
    if g.segIndex ≠ 0 ∧ (a = 0 ∨ g.segIndex < a) then g.segIndex else a) 0

/-- segments the watchdog deletes in one pass (at most `maxBatch = 4`, lowest ids first) -/
def watchdogRemoves (c : SCfg) (s : S) : List Nat :=
  let r := retainSeg s.grps
  ((s.segs.filter (fun sg => sg.present && hasRaft sg && decide (sg.id < r) && decide (r ≠ 0) &&
      (!c.guardUntruncated || s.grps.all (fun g => g.ptrSeg == 0 || g.segIndex != 0)) &&
      (!c.wdChecksFlushed || decide (sg.id ≤ s.logPtr)))).map (·.id)).take 4

def setAbsent (segs : List Segm) (ids : List Nat) : List Segm :=
  segs.map (fun sg => if ids.contains sg.id then { sg with present := false } else sg)

def findSeg (segs : List Segm) (id : Nat) : Option Segm := segs.find? (·.id == id)

def modSeg (segs : List Segm) (id : Nat) (f : Segm → Segm) : List Segm :=
  segs.map (fun sg => if sg.id == id then f sg else sg)

def modGrp (grps : List Grp) (id : Nat) (f : Grp → Grp) : List Grp :=
  grps.map (fun g => if g.id == id then f g else g)

def put (s : S) (k : Nat) : S :=
  { s with seq := s.seq + 1, live := s.live ++ [(k, s.seq + 1)],
           segs := modSeg s.segs s.active (fun sg => { sg with puts := sg.puts ++ [(k, s.seq + 1)] }) }

/-- `levelManager.flush` of the memtable bound to segment `id` -/
def flushOne (c : SCfg) (s : S) (id : Nat) : S :=
  match findSeg s.segs id with
  | none => { s with imm := s.imm.erase id }
  | some sg =>
    if sg.puts.isEmpty then { s with imm := s.imm.erase id, segs := setAbsent s.segs [id] }
    else
      let s1 := { s with tables := s.tables ++ sg.puts, installed := s.installed ++ [id], logPtr := id,
                         imm := s.imm.erase id }
      if raftAllows c s1.grps sg then { s1 with segs := setAbsent s1.segs [id] } else s1

def flushAll (c : SCfg) (s : S) : S := s.imm.foldl (flushOne c) s

def rotate (c : SCfg) (s : S) : S :=
  let s1 := put s 0
  let s2 := { s1 with imm := s1.imm ++ [s1.active], segs := s1.segs ++ [Segm.mk s1.next [] [] true],
                      active := s1.next, next := s1.next + 1 }
  let s3 := if s2.gateClosed then s2 else flushAll c s2
  put s3 0

/-- a new memtable bound to a new WAL segment becomes the active one -/
def newSegSt (s : S) (imm' : List Nat) : S :=
  { s with imm := imm', segs := s.segs ++ [Segm.mk s.next [] [] true], active := s.next, next := s.next + 1 }

/-- state in which a flush is about to fail: pending flushes have run (the gate is opened) and
the write that fills the memtable has been applied -/
def failBase (c : SCfg) (s : S) : S := put (flushAll c { s with gateClosed := false }) 0

/-- a rotation whose flush fails at the manifest write (`LogEdits` returns an error).  As-is the
table is never installed, the log pointer does not move, the memtable stays in memory and is not
retried.  With `flushRetries` the flush worker retries it in place until the write succeeds, later
flushes queue behind it: the outcome is that of an ordinary rotation. -/
def flushFail (c : SCfg) (s : S) : S :=
  if c.flushRetries then
    put (flushAll c (newSegSt (failBase c s) ((failBase c s).imm ++ [(failBase c s).active]))) 0
  else put (newSegSt (failBase c s) (failBase c s).imm) 0

def spanSeg (spans : List (Nat × Nat × Nat)) (k : Nat) : Option Nat :=
  (spans.find? (fun sp => decide (sp.1 ≤ k) && decide (k ≤ sp.2.1))).map (·.2.2)

def pruneSpans (spans : List (Nat × Nat × Nat)) (k : Nat) : List (Nat × Nat × Nat) :=
  (spans.filter (fun sp => decide (k < sp.2.1))).map (fun sp => if sp.1 ≤ k then (k + 1, sp.2.1, sp.2.2) else sp)

/-- `recordEntrySpan`: the spans wholly below the new batch are kept, the first span reaching into
it keeps its non-overwritten prefix, everything behind is superseded by the batch -/
def addSpan (spans : List (Nat × Nat × Nat)) (f l sg : Nat) : List (Nat × Nat × Nat) :=
  spans.takeWhile (fun sp => decide (sp.2.1 < f)) ++
    (match spans.dropWhile (fun sp => decide (sp.2.1 < f)) with
     | [] => []
     | sp :: _ => if sp.1 < f then [(sp.1, f - 1, sp.2.2)] else []) ++ [(f, l, sg)]

/-- ghost: entries of group `gid` from `start` on are superseded -/
def cutR (gid start : Nat) (r : RRec) : RRec :=
  if r.g == gid && r.lo != 0 then { r with lhi := min r.lhi (start - 1) } else r

def cutF (gid start : Nat) (sg : Segm) : Segm := { sg with raft := sg.raft.map (cutR gid start) }

/-- `WALStorage.Append` of `n` entries starting at `start` (at most `last + 1`: a new leader may
rewrite the uncommitted tail of the log): one record in the active segment -/
def rover (s : S) (gid start n : Nat) : S × String :=
  match s.grps.find? (·.id == gid) with
  | none => (s, "nogroup")
  | some g =>
    if !g.openOK then (s, "nogroup") else
    if n = 0 then (s, "ok") else
    if start ≤ g.base ∨ g.last + 1 < start then (s, "skip") else
    ({ s with segs := modSeg (s.segs.map (cutF gid start)) s.active
                (fun sg => { sg with raft := sg.raft ++ [⟨gid, start, start + n - 1, start + n - 1⟩] }),
              grps := modGrp s.grps gid (fun g =>
                { g with last := start + n - 1, ptrSeg := s.active,
                         spans := addSpan g.spans start (start + n - 1) s.active }) }, "ok")

/-- append at the end of the log -/
def rapp (s : S) (gid n : Nat) : S × String :=
  match s.grps.find? (·.id == gid) with
  | none => (s, "nogroup")
  | some g => rover s gid (g.last + 1) n

def rhs (s : S) (gid : Nat) : S × String :=
  match s.grps.find? (·.id == gid) with
  | none => (s, "nogroup")
  | some g =>
    if !g.openOK then (s, "nogroup") else
    ({ s with segs := modSeg s.segs s.active (fun sg => { sg with raft := sg.raft ++ [⟨gid, 0, 0, 0⟩] }),
              grps := modGrp s.grps gid (fun g => { g with ptrSeg := s.active }) }, "ok")

/-- `MaybeCompact(k+1, 1)` → `compactTo(k)` -/
def rtrunc (s : S) (gid k : Nat) : S × String :=
  match s.grps.find? (·.id == gid) with
  | none => (s, "nogroup")
  | some g =>
    if !g.openOK then (s, "nogroup") else
    if k = 0 ∨ k ≤ g.trunc then (s, "ok") else
    if g.last < k then (s, "err") else
    if g.ptrSeg = 0 then (s, "ok") else
    let sgm := match spanSeg g.spans k with
      | some x => x
      | none => if g.segIndex ≠ 0 then g.segIndex else g.ptrSeg
    ({ s with grps := modGrp s.grps gid (fun g =>
        { g with base := max g.base k, trunc := k, segIndex := sgm, spans := pruneSpans g.spans k }) }, "ok")

/-- replay of the surviving raft records of a group (ascending segment order): `none` = the
`missing log entry` panic of `MemoryStorage.Append` -/
def replayRecs (recs : List RRec) (start : Nat) (seed : Nat) : Option Nat :=
  recs.foldl (fun acc r => match acc with
    | none => none
    | some cur =>
      if r.lo = 0 then some cur
      else if r.hi ≤ seed then some cur            -- wholly below the seeded truncation point
      else if r.lo > cur + 1 then none
      else some r.hi) (some start)

/-- entry spans rebuilt during replay: `recordEntrySpan` for every surviving record in order -/
def foldSpans (recs : List (Nat × Nat × Nat)) : List (Nat × Nat × Nat) :=
  recs.foldl (fun acc t => addSpan acc t.1 t.2.1 t.2.2) []

def recoverGrp (c : SCfg) (segs : List Segm) (g : Grp) : Grp :=
  if !g.openOK then g else
  let recs := (segs.flatMap (·.raft)).filter (·.g == g.id)
  let ptrOK := g.ptrSeg == 0 || segs.any (·.id == g.ptrSeg)
  let seed := if c.replaySeedsTrunc then g.trunc else 0
  match replayRecs recs seed seed with
  | none => { g with openOK := false }
  | some l =>
    if !ptrOK then { g with openOK := false } else
    { g with last := l, base := seed,
             spans := pruneSpans (foldSpans (segs.flatMap (fun sg => (sg.raft.filter (fun r => r.g == g.id && r.lo != 0)).map
                        (fun r => (r.lo, r.hi, sg.id))))) g.trunc }

/-- the recovery cleanup's decision for one segment (`lsm/memtable.go:recovery`) -/
def recoveryDrops (c : SCfg) (s : S) (sg : Segm) : Bool :=
  sg.present && decide (s.logPtr ≠ 0) && decide (sg.id ≤ s.logPtr) && raftAllows c s.grps sg

/-- segments after the recovery cleanup (deleted ones stay in the list, marked absent) -/
def crashSegs (c : SCfg) (s : S) : List Segm :=
  s.segs.map (fun sg => if recoveryDrops c s sg then { sg with present := false } else sg)

/-- crash, stage 1: what survives on disk; every surviving segment becomes a memtable
(`mt.Size()` of a freshly replayed memtable is never 0: arena header) -/
def crash1 (c : SCfg) (s : S) : S :=
  { s with segs := crashSegs c s, imm := [], gateClosed := false,
           live := s.tables ++ ((crashSegs c s).filter (·.present)).flatMap (·.puts) }

/-- crash, stage 2: the newest surviving segment is the active memtable, the others are flushed -/
def crash2 (c : SCfg) (s1 : S) : S :=
  match ((s1.segs.filter (·.present)).map (·.id)).getLast? with
  | none => { s1 with segs := s1.segs ++ [Segm.mk s1.next [] [] true], active := s1.next, next := s1.next + 1 }
  | some a => flushAll c { s1 with active := a, imm := ((s1.segs.filter (·.present)).map (·.id)).dropLast }

/-- crash, stage 3: the raft storages are reopened on what is left -/
def crash3 (c : SCfg) (s2 : S) : S :=
  { s2 with grps := s2.grps.map (recoverGrp c (s2.segs.filter (·.present))) }

/-- process crash (after `wal.Sync`) + `NoKV.Open` + reopening the raft storages + one put -/
def crash (c : SCfg) (s : S) : S := put (crash3 c (crash2 c (crash1 c s))) 0

def get (s : S) (k : Nat) : Option Nat :=
  ((s.live.filter (·.1 == k)).map (·.2)).foldl (fun acc x => match acc with
    | none => some x
    | some a => some (max a x)) none

def watchdog (c : SCfg) (s : S) : S := { s with segs := setAbsent s.segs (watchdogRemoves c s) }

def gate (c : SCfg) (s : S) (closed : Bool) : S :=
  if closed then { s with gateClosed := true } else flushAll c { s with gateClosed := false }

def segIds (s : S) : List Nat := (s.segs.filter (·.present)).map (·.id)

/-! ### what the property calls "needed" -/

/-- a segment holds a put that no installed table contains -/
def holdsUnflushed (s : S) (sg : Segm) : Bool := sg.puts.any (fun p => !s.tables.contains p)

/-- a segment holds live raft entries above their group's truncation point -/
def holdsUntruncated (s : S) (sg : Segm) : Bool :=
  sg.raft.any (fun r => r.lo != 0 && s.grps.any (fun g => g.id == r.g && decide (g.trunc < r.lhi)))

def needed (s : S) (sg : Segm) : Bool := holdsUnflushed s sg || holdsUntruncated s sg

/-- every needed segment still exists -/
def neededKept (s : S) : Bool := s.segs.all (fun sg => !needed s sg || sg.present)

inductive Op
  | put (k : Nat) | rapp (g n : Nat) | rover (g start n : Nat) | rhs (g : Nat) | rtrunc (g k : Nat)
  | rotate | gate (closed : Bool) | watchdog | crash | flushFail
  deriving DecidableEq, Repr

def step (c : SCfg) (s : S) : Op → S
  | .put k => put s k
  | .rapp g n => (rapp s g n).1
  | .rover g st n => (rover s g st n).1
  | .rhs g => (rhs s g).1
  | .rtrunc g k => (rtrunc s g k).1
  | .rotate => rotate c s
  | .gate b => gate c s b
  | .watchdog => watchdog c s
  | .crash => crash c s
  | .flushFail => flushFail c s

def run (c : SCfg) (ops : List Op) : S := ops.foldl (step c) {}

end NoKV.Raftwal.Seg

/-
Helper lemmas for C21: the durability invariant of the step system of `Store.lean`, and the
facts about `replay` the property theorems are stated with.
-/
import NoKVModel.Raftwal.Store

namespace NoKV.Raftwal

/-! ### lists -/

theorem getElem?_append_of_some {α : Type} {l m : List α} {i : Nat} {x : α}
    (h : l[i]? = some x) : (l ++ m)[i]? = some x := by
  have hi : i < l.length := by
    rcases Nat.lt_or_ge i l.length with h' | h'
    · exact h'
    · rw [List.getElem?_eq_none h'] at h; cases h
  rw [List.getElem?_append_left hi]; exact h

theorem raftOf_append (a b : List Rec) : raftOf (a ++ b) = raftOf a ++ raftOf b := by
  simp [raftOf]

theorem raftOf_single_raft (r : Rec) (h : r.isRaft = true) : raftOf [r] = [r] := by
  simp [raftOf, h]

theorem raftOf_other : raftOf [Rec.other] = [] := by
  simp [raftOf, Rec.isRaft]

/-! ### record positions -/

theorem recAt_append {segs more : List (List Rec)} {seg off : Nat} {r : Rec}
    (h : recAt segs seg off = some r) : recAt (segs ++ more) seg off = some r := by
  cases seg with
  | zero => simp [recAt] at h
  | succ seg =>
    cases off with
    | zero => simp [recAt] at h
    | succ off =>
      simp only [recAt] at h ⊢
      cases hs : segs[seg]? with
      | none => rw [hs] at h; cases h
      | some l =>
        rw [hs] at h
        rw [getElem?_append_of_some hs]
        exact h

theorem recAt_grow {cl : List (List Rec)} {a b : List Rec} {seg off : Nat} {r : Rec}
    (h : recAt (cl ++ [a]) seg off = some r) : recAt (cl ++ [a ++ b]) seg off = some r := by
  cases seg with
  | zero => simp [recAt] at h
  | succ seg =>
    cases off with
    | zero => simp [recAt] at h
    | succ off =>
      simp only [recAt] at h ⊢
      rcases Nat.lt_trichotomy seg cl.length with hl | hl | hl
      · rw [List.getElem?_append_left hl] at h ⊢; exact h
      · subst hl
        simp only [List.getElem?_concat_length] at h ⊢
        exact getElem?_append_of_some h
      · have hn : (cl ++ [a])[seg]? = none := by
          apply List.getElem?_eq_none; simp; omega
        rw [hn] at h; cases h

theorem recAt_new (cl : List (List Rec)) (a : List Rec) (r : Rec) :
    recAt (cl ++ [a ++ [r]]) (cl.length + 1) (a.length + 1) = some r := by
  simp [recAt]

theorem validPtr_trunc (segs : List (List Rec)) (p : Ptr) (t : Nat) :
    validPtr segs { p with trunc := t } = validPtr segs p := rfl

theorem validPtr_of_recAt {segs : List (List Rec)} {seg off t : Nat} {r : Rec}
    (h : recAt segs seg off = some r) (hr : r.isRaft = true) :
    validPtr segs { seg := seg, off := off, trunc := t } = true := by
  simp [validPtr, h, hr]

theorem validPtr_mono {segs segs' : List (List Rec)} {p : Ptr}
    (hm : ∀ seg off r, recAt segs seg off = some r → recAt segs' seg off = some r)
    (h : validPtr segs p = true) : validPtr segs' p = true := by
  unfold validPtr at h ⊢
  cases h1 : (p.seg == 0 || p.off == 0) with
  | true => simp [h1]
  | false =>
    rw [h1] at h
    simp only [Bool.false_or] at h ⊢
    cases hr : recAt segs p.seg p.off with
    | none => rw [hr] at h; cases h
    | some r =>
      rw [hr] at h
      rw [hm _ _ _ hr]
      exact h

theorem validPtr_grow {cl : List (List Rec)} {a b : List Rec} {p : Ptr}
    (h : validPtr (cl ++ [a]) p = true) : validPtr (cl ++ [a ++ b]) p = true :=
  validPtr_mono (fun _ _ _ hr => recAt_grow hr) h

theorem validPtr_append {segs more : List (List Rec)} {p : Ptr}
    (h : validPtr segs p = true) : validPtr (segs ++ more) p = true :=
  validPtr_mono (fun _ _ _ hr => recAt_append hr) h

theorem lastRaftIn_valid (l : List Rec) (h : lastRaftIn l ≠ 0) :
    ∃ r, l[lastRaftIn l - 1]? = some r ∧ r.isRaft = true := by
  induction l with
  | nil => simp [lastRaftIn] at h
  | cons x xs ih =>
    simp only [lastRaftIn] at h ⊢
    cases hk : lastRaftIn xs with
    | zero =>
      rw [hk] at h
      simp only at h ⊢
      by_cases hx : x.isRaft = true
      · simp only [hx, if_true]
        exact ⟨x, by simp, hx⟩
      · simp [hx] at h
    | succ k =>
      simp only
      have hne : lastRaftIn xs ≠ 0 := by omega
      obtain ⟨r, hr, hraft⟩ := ih hne
      refine ⟨r, ?_, hraft⟩
      rw [hk] at hr
      have : k + 2 - 1 = (k + 1 - 1) + 1 := by omega
      rw [this, List.getElem?_cons_succ]
      exact hr

theorem lastRaftPos_valid (segs : List (List Rec)) (h : (lastRaftPos segs).1 ≠ 0) :
    ∃ r, recAt segs (lastRaftPos segs).1 (lastRaftPos segs).2 = some r ∧ r.isRaft = true := by
  induction segs with
  | nil => simp [lastRaftPos] at h
  | cons sg rest ih =>
    simp only [lastRaftPos] at h ⊢
    cases hp : lastRaftPos rest with
    | mk ps po =>
      rw [hp] at h ih
      cases ps with
      | zero =>
        simp only at h ⊢
        cases hk : lastRaftIn sg with
        | zero => rw [hk] at h; simp at h
        | succ k =>
          simp only
          have hne : lastRaftIn sg ≠ 0 := by omega
          obtain ⟨r, hr, hraft⟩ := lastRaftIn_valid sg hne
          refine ⟨r, ?_, hraft⟩
          rw [hk] at hr
          simp only [recAt, List.getElem?_cons_zero]
          simpa using hr
      | succ ps =>
        simp only at h ⊢
        obtain ⟨r, hr, hraft⟩ := ih (by simp)
        refine ⟨r, ?_, hraft⟩
        simp only at hr
        cases po with
        | zero => simp [recAt] at hr
        | succ o =>
          simp only [recAt, List.getElem?_cons_succ] at hr ⊢
          exact hr

theorem ptrAhead_seg_ne_zero {ns no : Nat} {old : Ptr} (h : ptrAhead ns no old = true) : ns ≠ 0 := by
  intro h0
  simp [ptrAhead, h0] at h

/-! ### replay -/

theorem replayFrom_append (m : Mem) (a b : List Rec) :
    replayFrom m (a ++ b) = (match replayFrom m a with
      | some m' => replayFrom m' b
      | none => none) := by
  induction a generalizing m with
  | nil => simp [replayFrom]
  | cons r rs ih =>
    simp only [List.cons_append, replayFrom]
    cases m.applyRec r with
    | none => rfl
    | some m' => exact ih m'

theorem replayFrom_raftOf (m : Mem) (l : List Rec) : replayFrom m (raftOf l) = replayFrom m l := by
  induction l generalizing m with
  | nil => rfl
  | cons r rs ih =>
    cases r with
    | other =>
      have : raftOf (Rec.other :: rs) = raftOf rs := by simp [raftOf, Rec.isRaft]
      rw [this, ih]
      simp [replayFrom, Mem.applyRec]
    | ents f items =>
      have : raftOf (Rec.ents f items :: rs) = Rec.ents f items :: raftOf rs := rfl
      rw [this]; simp only [replayFrom]
      cases m.applyRec (.ents f items) with
      | none => rfl
      | some m' => exact ih m'
    | hs h =>
      have : raftOf (Rec.hs h :: rs) = Rec.hs h :: raftOf rs := rfl
      rw [this]; simp only [replayFrom]
      cases m.applyRec (.hs h) with
      | none => rfl
      | some m' => exact ih m'
    | snap i t =>
      have : raftOf (Rec.snap i t :: rs) = Rec.snap i t :: raftOf rs := rfl
      rw [this]; simp only [replayFrom]
      cases m.applyRec (.snap i t) with
      | none => rfl
      | some m' => exact ih m'

theorem replay_raftOf (l : List Rec) : replay (raftOf l) = replay l := replayFrom_raftOf {} l

/-- a well-formed history replays, and so does every prefix of it -/
theorem validFrom_prefix (m : Mem) (a b : List Rec) (h : ValidFrom m (a ++ b)) :
    ∃ m', replayFrom m a = some m' ∧ ValidFrom m' b := by
  induction a generalizing m with
  | nil => exact ⟨m, rfl, h⟩
  | cons r rs ih =>
    simp only [List.cons_append, ValidFrom] at h
    obtain ⟨_, h2⟩ := h
    simp only [replayFrom]
    cases hm : m.applyRec r with
    | none => rw [hm] at h2; exact False.elim h2
    | some m' =>
      rw [hm] at h2
      exact ih m' h2

theorem replay_total_of_valid (l : List Rec) (h : ValidHist l) : (replay l).isSome = true := by
  have := validFrom_prefix {} l [] (by simpa [ValidHist] using h)
  obtain ⟨m', hm, _⟩ := this
  simp [replay, hm]

/-! ### the durability invariant (configuration with flush-before-pointer) -/

def PhaseOK (s : St) : Prop :=
  match s.phase with
  | .idle => raftOf s.buf = []
  | .appended r seg off =>
    (raftOf s.buf = [] ∨ raftOf s.buf = [r]) ∧ recAt s.segsAll seg off = some r ∧ r.isRaft = true
  | .synced r seg off => raftOf s.buf = [] ∧ recAt s.segsD seg off = some r ∧ r.isRaft = true

structure Inv (s : St) : Prop where
  ptr : validPtr s.segsD s.ptr = true
  phase : PhaseOK s
  sent : s.sent ≤ (raftOf s.durable).length

theorem inv_init : Inv ({} : St) := by
  refine ⟨by decide, ?_, by simp [St.durable, raftOf]⟩
  simp [PhaseOK, raftOf]

theorem inv_other (s : St) (h : Inv s) : Inv { s with buf := s.buf ++ [.other] } := by
  obtain ⟨hp, hph, hs⟩ := h
  refine ⟨hp, ?_, hs⟩
  unfold PhaseOK at hph ⊢
  cases hphase : s.phase with
  | idle =>
    rw [hphase] at hph
    simpa [raftOf_append, raftOf_other] using hph
  | appended r seg off =>
    rw [hphase] at hph
    obtain ⟨h1, h2, h3⟩ := hph
    refine ⟨by simpa [raftOf_append, raftOf_other] using h1, ?_, h3⟩
    simp only [St.segsAll] at h2 ⊢
    rw [← List.append_assoc]
    exact recAt_grow h2
  | synced r seg off =>
    rw [hphase] at hph
    obtain ⟨h1, h2, h3⟩ := hph
    exact ⟨by simpa [raftOf_append, raftOf_other] using h1, h2, h3⟩

theorem inv_flush (s : St) (h : Inv s) : Inv (flush s) := by
  obtain ⟨hp, hph, hs⟩ := h
  refine ⟨?_, ?_, ?_⟩
  · simp only [flush, St.segsD] at hp ⊢
    exact validPtr_grow hp
  · unfold PhaseOK at hph ⊢
    cases hphase : s.phase with
    | idle => simp [flush, hphase, raftOf]
    | appended r seg off =>
      rw [hphase] at hph
      obtain ⟨_, h2, h3⟩ := hph
      simp only [flush, hphase]
      refine ⟨Or.inl (by simp [raftOf]), ?_, h3⟩
      simpa [St.segsAll] using h2
    | synced r seg off =>
      rw [hphase] at hph
      obtain ⟨_, h2, h3⟩ := hph
      simp only [flush, hphase]
      refine ⟨by simp [raftOf], ?_, h3⟩
      simp only [St.segsD] at h2 ⊢
      exact recAt_grow h2
  · simp only [flush, St.durable] at hs ⊢
    rw [← List.append_assoc, raftOf_append, List.length_append]
    omega

theorem inv_rotate (s : St) (h : Inv s) : Inv (rotate s) := by
  obtain ⟨hp, hph, hs⟩ := h
  refine ⟨?_, ?_, ?_⟩
  · simp only [rotate, St.segsD] at hp ⊢
    exact validPtr_append (validPtr_grow hp)
  · unfold PhaseOK at hph ⊢
    cases hphase : s.phase with
    | idle => simp [rotate, hphase, raftOf]
    | appended r seg off =>
      rw [hphase] at hph
      obtain ⟨_, h2, h3⟩ := hph
      simp only [rotate, hphase]
      refine ⟨Or.inl (by simp [raftOf]), ?_, h3⟩
      simp only [St.segsAll] at h2 ⊢
      exact recAt_append h2
    | synced r seg off =>
      rw [hphase] at hph
      obtain ⟨_, h2, h3⟩ := hph
      simp only [rotate, hphase]
      refine ⟨by simp [raftOf], ?_, h3⟩
      simp only [St.segsD] at h2 ⊢
      exact recAt_append (recAt_grow h2)
  · simp only [rotate, St.durable] at hs ⊢
    simp only [List.flatten_append, List.flatten_cons, List.flatten_nil, List.append_nil]
    rw [← List.append_assoc, raftOf_append, List.length_append]
    omega

theorem inv_begin (s : St) (r : Rec) (hr : r.isRaft = true) (hidle : s.phase = .idle) (h : Inv s) :
    Inv (begin s r) := by
  obtain ⟨hp, hph, hs⟩ := h
  refine ⟨hp, ?_, hs⟩
  unfold PhaseOK at hph ⊢
  rw [hidle] at hph
  simp only [begin]
  refine ⟨Or.inr (by rw [raftOf_append, hph, raftOf_single_raft r hr]; rfl), ?_, hr⟩
  simp only [St.segsAll]
  rw [← List.append_assoc, ← List.length_append]
  exact recAt_new s.closed (s.act ++ s.buf) r

theorem inv_doCompact (s : St) (a rt : Nat) (hidle : s.phase = .idle) (h : Inv s) : Inv (doCompact s a rt) := by
  obtain ⟨hp, hph, hs⟩ := h
  unfold PhaseOK at hph
  rw [hidle] at hph
  unfold doCompact
  split
  · exact ⟨hp, by simpa [PhaseOK, hidle] using hph, hs⟩
  · split
    · exact ⟨hp, by simpa [PhaseOK, hidle] using hph, hs⟩
    · split
      · exact ⟨hp, by simpa [PhaseOK, hidle] using hph, hs⟩
      · split
        · exact ⟨hp, by simpa [PhaseOK, hidle] using hph, hs⟩
        · exact ⟨by simpa [St.segsD, validPtr_trunc] using hp, by simpa [PhaseOK, hidle] using hph, hs⟩

theorem inv_startCall (s : St) (cl : Call) (hidle : s.phase = .idle) (h : Inv s) : Inv (startCall s cl) := by
  have hkeep : ∀ (m : Mem) (b : Bool), Inv { s with mem := m, ok := b } := by
    intro m b
    obtain ⟨hp, hph, hs⟩ := h
    exact ⟨hp, by simpa [PhaseOK, St.segsAll, St.segsD] using hph, hs⟩
  cases cl with
  | hs hh =>
    simp only [startCall]
    split
    · exact hkeep _ _
    · exact inv_begin s _ rfl hidle h
  | app f items =>
    simp only [startCall]
    split
    · exact hkeep s.mem true
    · exact inv_begin s _ rfl hidle h
  | snap i t =>
    simp only [startCall]
    split
    · exact hkeep s.mem true
    · exact inv_begin s _ rfl hidle h
  | compact a rt => exact inv_doCompact s a rt hidle h

theorem inv_commit (s : St) (r : Rec) (seg off : Nat) (hphase : s.phase = .synced r seg off) (h : Inv s) :
    Inv (commit s r seg off) := by
  obtain ⟨hp, hph, hs⟩ := h
  unfold PhaseOK at hph
  rw [hphase] at hph
  obtain ⟨h1, h2, h3⟩ := hph
  unfold commit
  cases s.mem.applyRec r with
  | none => exact ⟨hp, by simpa [PhaseOK] using h1, hs⟩
  | some m =>
    refine ⟨?_, by simpa [PhaseOK] using h1, hs⟩
    cases r with
    | other => simp [Rec.isRaft] at h3
    | ents f items => exact validPtr_of_recAt (by simpa [St.segsD] using h2) h3
    | hs hh => exact validPtr_of_recAt (by simpa [St.segsD] using h2) h3
    | snap i t => exact validPtr_of_recAt (by simpa [St.segsD] using h2) h3

theorem inv_sync_phase (s : St) (r : Rec) (seg off : Nat) (hphase : s.phase = .appended r seg off) (h : Inv s) :
    Inv { flush s with phase := .synced r seg off } := by
  have hf := inv_flush s h
  obtain ⟨hp, _, hs⟩ := hf
  refine ⟨hp, ?_, hs⟩
  obtain ⟨_, hph, _⟩ := h
  unfold PhaseOK at hph ⊢
  rw [hphase] at hph
  obtain ⟨_, h2, h3⟩ := hph
  simp only [flush]
  refine ⟨by simp [raftOf], ?_, h3⟩
  simpa [St.segsD, St.segsAll] using h2

theorem inv_crash (s : St) (h : Inv s) : Inv (crash s) := by
  obtain ⟨hp, _, hs⟩ := h
  refine ⟨?_, by simp [PhaseOK, crash, raftOf], by simpa [crash, St.durable] using hs⟩
  have hseg : (crash s).segsD = s.segsD := rfl
  rw [hseg]
  show validPtr s.segsD (if ptrAhead (lastRaftPos s.segsD).1 (lastRaftPos s.segsD).2 s.ptr = true
      then { seg := (lastRaftPos s.segsD).1, off := (lastRaftPos s.segsD).2, trunc := lastSnapIdx s.durable }
      else s.ptr) = true
  by_cases hahead : ptrAhead (lastRaftPos s.segsD).1 (lastRaftPos s.segsD).2 s.ptr = true
  · rw [if_pos hahead]
    have hne := ptrAhead_seg_ne_zero hahead
    obtain ⟨r, hr, hraft⟩ := lastRaftPos_valid _ hne
    exact validPtr_of_recAt hr hraft
  · rw [if_neg hahead]; exact hp

theorem inv_step (c : Cfg) (hc : c.Good) (s : St) (e : Ev) (h : Inv s) : Inv (step c s e) := by
  obtain ⟨hf, hsf, hsend⟩ := hc
  cases e with
  | call cl =>
    simp only [step]
    cases hphase : s.phase with
    | idle => exact inv_startCall s cl hphase h
    | appended r seg off => exact h
    | synced r seg off => exact h
  | tick =>
    simp only [step]
    cases hphase : s.phase with
    | idle => exact h
    | appended r seg off =>
      simp only [hf, hsf, if_true]
      exact inv_sync_phase s r seg off hphase h
    | synced r seg off => exact inv_commit s r seg off hphase h
  | other => exact inv_other s h
  | flush => simp only [step, hsf, if_true]; exact inv_flush s h
  | rotate => exact inv_rotate s h
  | send =>
    simp only [step]
    cases hphase : s.phase with
    | idle =>
      obtain ⟨hp, hph, _⟩ := h
      have hb : raftOf s.buf = [] := by simpa [PhaseOK, hphase] using hph
      refine ⟨hp, by simpa [PhaseOK, hphase] using hb, ?_⟩
      simp only [St.written, St.durable]
      rw [raftOf_append, hb]
      simp
    | appended r seg off => simp only [hsend, if_true]; exact h
    | synced r seg off => simp only [hsend, if_true]; exact h
  | crash => exact inv_crash s h

theorem inv_run (c : Cfg) (hc : c.Good) (evs : List Ev) : Inv (run c evs) := by
  unfold run
  have : ∀ (s : St), Inv s → Inv (evs.foldl (step c) s) := by
    induction evs with
    | nil => intro s hs; exact hs
    | cons e es ih => intro s hs; exact ih _ (inv_step c hc s e hs)
  exact this _ inv_init

/-- at most the record of the call in flight is still in the bufio buffer -/
theorem inv_tail (s : St) (h : Inv s) :
    (raftOf s.buf).length ≤ 1 ∧ (s.phase = .idle → raftOf s.buf = []) := by
  obtain ⟨_, hph, _⟩ := h
  unfold PhaseOK at hph
  cases hphase : s.phase with
  | idle => rw [hphase] at hph; simp [hph]
  | appended r seg off =>
    rw [hphase] at hph
    rcases hph.1 with h1 | h1 <;> simp [h1]
  | synced r seg off => rw [hphase] at hph; simp [hph.1]

end NoKV.Raftwal

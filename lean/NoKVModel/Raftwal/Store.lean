/-
Model of the WAL-backed raft storage (`raftstore/engine/wal_storage.go`) on top of the
buffered WAL manager (`wal/manager.go`) and the manifest raft pointer
(`manifest/manager.go:LogRaftPointer`).  Core Lean only; executable.

What is modelled
* `etcd/raft` `MemoryStorage` (the in-memory log `WALStorage` delegates every read to):
  `Append` (truncate-and-append), `SetHardState`, `ApplySnapshot` (out-of-date check),
  `Compact`, `Term`.
* the WAL as a list of closed segments, the part of the active segment the kernel already
  has (`act`), and the records that still sit in the manager's `bufio.Writer` (`buf`);
  record positions are abstract (segment number, ordinal of the record inside the segment)
  — byte offsets are strictly increasing in the ordinal, so "a record ends at the pointer's
  offset" is "the segment holds at least that many records".
* the manifest raft pointer (segment, offset, truncated index); manifest edits are written
  straight to the file (`m.manifest.Write`), i.e. a process crash keeps them.
* every storage call as its atomic effects: append to the bufio buffer → (flush+sync, when
  `flushOnAppend`) → in-memory apply + manifest pointer edit.  A crash may fall between any two.
* `recover` = `OpenWALStorage`: pointer validation, replay of every segment, pointer catch-up.
-/
namespace NoKV.Raftwal

/-- one log entry's payload: (term, data); its index is implied by its position -/
abbrev Item := Nat × Nat

structure HS where
  term : Nat := 0
  vote : Nat := 0
  commit : Nat := 0
  deriving DecidableEq, Repr, Inhabited

/-- A WAL record as this raft group's replay sees it. -/
inductive Rec
  | other                                  -- LSM write batch, or a record of another raft group
  | ents (first : Nat) (items : List Item)  -- RecordTypeRaftEntry: indices first, first+1, …
  | hs (h : HS)                            -- RecordTypeRaftState
  | snap (idx term : Nat)                  -- RecordTypeRaftSnapshot (metadata only)
  deriving DecidableEq, Repr, Inhabited

def Rec.isRaft : Rec → Bool
  | .other => false
  | .ents _ _ => true
  | .hs _ => true
  | .snap _ _ => true

/-- `etcd/raft.MemoryStorage`: `ents[0]` is the dummy entry `(baseIdx, baseTerm)`. -/
structure Mem where
  hs : HS := {}
  snapIdx : Nat := 0
  snapTerm : Nat := 0
  baseIdx : Nat := 0
  baseTerm : Nat := 0
  ents : List Item := []
  deriving DecidableEq, Repr, Inhabited

def Mem.lastIndex (m : Mem) : Nat := m.baseIdx + m.ents.length
def Mem.firstIndex (m : Mem) : Nat := m.baseIdx + 1

/-- entry stored at raft index `i` (none when compacted or beyond the end) -/
def Mem.entry? (m : Mem) (i : Nat) : Option Item :=
  if i ≤ m.baseIdx then none else m.ents[i - m.baseIdx - 1]?

/-- `MemoryStorage.Append`; `none` = the `Panicf("missing log entry")` branch. -/
def Mem.append (m : Mem) (first : Nat) (items : List Item) : Option Mem :=
  if items = [] then some m
  else if first + items.length - 1 < m.baseIdx + 1 then some m
  -- `m.baseIdx + 1 - first` entries are already compacted away and dropped from the batch;
  -- `first + (m.baseIdx + 1 - first) - m.baseIdx - 1` entries of the old log are kept
  else if first + (m.baseIdx + 1 - first) - m.baseIdx - 1 ≤ m.ents.length then
    some { m with ents := m.ents.take (first + (m.baseIdx + 1 - first) - m.baseIdx - 1) ++
                            items.drop (m.baseIdx + 1 - first) }
  else none

/-- `MemoryStorage.ApplySnapshot`; `none` = `ErrSnapOutOfDate`. -/
def Mem.applySnap (m : Mem) (idx term : Nat) : Option Mem :=
  if m.snapIdx ≥ idx then none
  else some { m with snapIdx := idx, snapTerm := term, baseIdx := idx, baseTerm := term, ents := [] }

/-- `MemoryStorage.Term` restricted to what `compactTo` needs: `none` = `ErrUnavailable`. -/
def Mem.termAvail (m : Mem) (i : Nat) : Bool := i ≤ m.lastIndex

/-- `MemoryStorage.Compact` (with `ErrCompacted` ignored, as `compactTo` does). -/
def Mem.compact (m : Mem) (i : Nat) : Mem :=
  if i ≤ m.baseIdx then m
  else
    let k := i - m.baseIdx
    let t := match m.ents[k - 1]? with
      | some it => it.1
      | none => m.baseTerm
    { m with baseIdx := i, baseTerm := t, ents := m.ents.drop k }

/-- what replay (and the live storage) does with one record -/
def Mem.applyRec (m : Mem) : Rec → Option Mem
  | .other => some m
  | .ents f items => m.append f items
  | .hs h => some { m with hs := h }
  | .snap i t => if i = 0 then some m else m.applySnap i t

/-- replay of a record list from a given memory state; `none` = `OpenWALStorage` fails -/
def replayFrom (m : Mem) : List Rec → Option Mem
  | [] => some m
  | r :: rs => match m.applyRec r with
    | some m' => replayFrom m' rs
    | none => none

def replay (l : List Rec) : Option Mem := replayFrom {} l

def raftOf (l : List Rec) : List Rec := l.filter Rec.isRaft

/-- manifest raft pointer, the fields the storage's behaviour depends on -/
structure Ptr where
  seg : Nat := 0
  off : Nat := 0
  trunc : Nat := 0
  deriving DecidableEq, Repr, Inhabited

/-- Facts extracted from the source. -/
structure Cfg where
  /-- `Append`/`SetHardState`/`ApplySnapshot` flush+sync the WAL after `AppendRecords` and
  before the manifest pointer is written / the call returns. -/
  flushOnAppend : Bool
  /-- `wal.Manager.Sync` flushes the bufio writer before it fsyncs the file. -/
  syncFlushes : Bool
  /-- `peer.processReady` hands a Ready's messages to the transport only after `handleReady`
  (hard state → snapshot → entries persisted) returned nil; on an error nothing is sent. -/
  sendAfterPersist : Bool
  /-- `peer.handleReady` persists a Ready's entries before its hard state (as-is: hard state
  first, so a crash between the two leaves a commit index beyond the persisted log) -/
  hsAfterEntries : Bool
  deriving DecidableEq, Repr

def Cfg.good : Cfg := { flushOnAppend := true, syncFlushes := true, sendAfterPersist := true, hsAfterEntries := true }
def Cfg.Good (c : Cfg) : Prop := c.flushOnAppend = true ∧ c.syncFlushes = true ∧ c.sendAfterPersist = true
instance Cfg.decGood (c : Cfg) : Decidable c.Good := by unfold Cfg.Good; exact inferInstance
/-- the shipped code: records stay in the bufio buffer when the call returns -/
def Cfg.AsIsBuffered (c : Cfg) : Prop := c.flushOnAppend = false ∧ c.syncFlushes = true
instance Cfg.decAsIsBuffered (c : Cfg) : Decidable c.AsIsBuffered := by unfold Cfg.AsIsBuffered; exact inferInstance
def Cfg.OrderGood (c : Cfg) : Prop := c.hsAfterEntries = true
instance Cfg.decOrderGood (c : Cfg) : Decidable c.OrderGood := by unfold Cfg.OrderGood; exact inferInstance
def Cfg.OrderAsIs (c : Cfg) : Prop := c.hsAfterEntries = false
instance Cfg.decOrderAsIs (c : Cfg) : Decidable c.OrderAsIs := by unfold Cfg.OrderAsIs; exact inferInstance
def Cfg.SendsEarly (c : Cfg) : Prop := c.sendAfterPersist = false
instance Cfg.decSendsEarly (c : Cfg) : Decidable c.SendsEarly := by unfold Cfg.SendsEarly; exact inferInstance
def Cfg.Any (_ : Cfg) : Prop := True
instance Cfg.decAny (c : Cfg) : Decidable c.Any := by unfold Cfg.Any; exact inferInstance

/-- where the in-flight storage call stands -/
inductive Phase
  | idle
  | appended (r : Rec) (seg off : Nat)   -- record handed to `AppendRecords` (in the bufio buffer)
  | synced (r : Rec) (seg off : Nat)     -- WAL flushed + fsynced
  deriving DecidableEq, Repr, Inhabited

structure St where
  closed : List (List Rec) := []   -- completed segments, oldest first (flushed at rotation)
  act : List Rec := []             -- active segment: records the kernel has
  buf : List Rec := []             -- active segment: records still in the bufio buffer
  ptr : Ptr := {}                  -- manifest raft pointer (= `ws.pointer`)
  mem : Mem := {}                  -- volatile
  phase : Phase := .idle
  sent : Nat := 0                  -- ghost: raft records persisted when messages last left the peer
  ok : Bool := true                -- result of the last finished call
  deriving DecidableEq, Repr, Inhabited

def St.segsD (s : St) : List (List Rec) := s.closed ++ [s.act]
def St.segsAll (s : St) : List (List Rec) := s.closed ++ [s.act ++ s.buf]
/-- records the kernel has (what a process crash keeps) -/
def St.durable (s : St) : List Rec := s.closed.flatten ++ s.act
/-- every record handed to the WAL so far -/
def St.written (s : St) : List Rec := s.closed.flatten ++ s.act ++ s.buf

/-- record number `off` (1-based) of segment number `seg` (1-based) -/
def recAt (segs : List (List Rec)) : Nat → Nat → Option Rec
  | 0, _ => none
  | _, 0 => none
  | seg + 1, off + 1 => match segs[seg]? with
    | some l => l[off]?
    | none => none

/-- `validateManifestPointer` on the given segments -/
def validPtr (segs : List (List Rec)) (p : Ptr) : Bool :=
  p.seg == 0 || p.off == 0 ||
    (match recAt segs p.seg p.off with
     | some r => r.isRaft
     | none => false)

/-- ordinal of the last raft record in a segment (0 = none) -/
def lastRaftIn : List Rec → Nat
  | [] => 0
  | r :: rs =>
    match lastRaftIn rs with
    | 0 => if r.isRaft then 1 else 0
    | k + 1 => k + 2

/-- position of the last raft record in a segment list ((0,0) = none) -/
def lastRaftPos : List (List Rec) → Nat × Nat
  | [] => (0, 0)
  | sg :: rest =>
    match lastRaftPos rest with
    | (0, _) => (match lastRaftIn sg with
      | 0 => (0, 0)
      | k + 1 => (1, k + 1))
    | (sg' + 1, o) => (sg' + 2, o)

/-- index of the last snapshot record (the replayed pointer's truncated index) -/
def lastSnapIdx : List Rec → Nat
  | [] => 0
  | r :: rs =>
    match lastSnapIdx rs with
    | 0 => (match r with
      | .snap i _ => i
      | .other => 0
      | .ents _ _ => 0
      | .hs _ => 0)
    | k + 1 => k + 1

/-- `isPointerAhead` -/
def ptrAhead (ns no : Nat) (old : Ptr) : Bool :=
  if ns == 0 then false
  else if old.seg == 0 then true
  else if ns != old.seg then decide (ns > old.seg)
  else decide (no > old.off)

/-- Does `OpenWALStorage` succeed on what a process crash leaves? -/
def recoverOK (s : St) : Bool :=
  validPtr s.segsD s.ptr && (replay s.durable).isSome

/-- State after a process crash and `wal.Open` + `OpenWALStorage` on the surviving files
(meaningful when `recoverOK`). -/
def crash (s : St) : St :=
  { closed := s.closed, act := s.act, buf := [],
    ptr := if ptrAhead (lastRaftPos s.segsD).1 (lastRaftPos s.segsD).2 s.ptr
      then { seg := (lastRaftPos s.segsD).1, off := (lastRaftPos s.segsD).2, trunc := lastSnapIdx s.durable }
      else s.ptr,
    mem := (replay s.durable).getD {},
    phase := .idle, sent := s.sent, ok := recoverOK s }

def flush (s : St) : St := { s with act := s.act ++ s.buf, buf := [] }

def rotate (s : St) : St := { s with closed := s.closed ++ [s.act ++ s.buf], act := [], buf := [] }

/-- `AppendRecords` of one record by the storage: buffer append + the location it returns -/
def begin (s : St) (r : Rec) : St :=
  { s with buf := s.buf ++ [r], phase := .appended r (s.closed.length + 1) (s.act.length + s.buf.length + 1) }

/-- in-memory apply + `updatePointer` (manifest edit) -/
def commit (s : St) (r : Rec) (seg off : Nat) : St :=
  match s.mem.applyRec r with
  | none => { s with phase := .idle, ok := false }
  | some m =>
    { s with mem := m, phase := .idle, ok := true,
             ptr := (match r with
               | .snap i _ => { seg := seg, off := off, trunc := i }
               | .other => { s.ptr with seg := seg, off := off }
               | .ents _ _ => { s.ptr with seg := seg, off := off }
               | .hs _ => { s.ptr with seg := seg, off := off }) }

inductive Call
  | hs (h : HS)
  | app (first : Nat) (items : List Item)
  | snap (idx term : Nat)
  | compact (applied retain : Nat)
  deriving DecidableEq, Repr

/-- `MaybeCompact` / `compactTo` (no WAL record; pointer edit only) -/
def doCompact (s : St) (applied retain : Nat) : St :=
  if retain = 0 ∨ applied = 0 ∨ applied ≤ retain then { s with ok := true }
  else if applied - retain ≤ s.ptr.trunc then { s with ok := true }
  else if !s.mem.termAvail (applied - retain) then { s with ok := false }
  -- `updatePointer` returns early (nothing recorded) when the pointer has no segment yet
  else if s.ptr.seg = 0 then { s with mem := s.mem.compact (applied - retain), ok := true }
  else { s with mem := s.mem.compact (applied - retain), ptr := { s.ptr with trunc := applied - retain }, ok := true }

inductive Ev
  | call (c : Call)   -- a storage call starts (ignored while another one is in flight)
  | tick              -- next atomic effect of the call in flight
  | other             -- the DB / another group appends a record to the shared WAL (buffered)
  | flush             -- `wal.Sync()` by the DB commit worker, or bufio spilling whole records
  | rotate            -- `wal.Rotate()` / `SwitchSegment`: flush, sync, close, next segment
  | send              -- the peer sends the messages of the Ready it just persisted
  | crash             -- process crash + reopen
  deriving DecidableEq, Repr

def startCall (s : St) : Call → St
  | .hs h =>
    if h.term = 0 ∧ h.vote = 0 ∧ h.commit = 0 then { s with mem := { s.mem with hs := h }, ok := true }
    else begin s (.hs h)
  | .app f items => if items = [] then { s with ok := true } else begin s (.ents f items)
  | .snap i t => if i = 0 then { s with ok := true } else begin s (.snap i t)
  | .compact a r => doCompact s a r

def step (c : Cfg) (s : St) : Ev → St
  | .call cl => match s.phase with
    | .idle => startCall s cl
    | _ => s
  | .tick => match s.phase with
    | .idle => s
    | .appended r seg off =>
      if c.flushOnAppend then { (if c.syncFlushes then flush s else s) with phase := .synced r seg off }
      else commit s r seg off
    | .synced r seg off => commit s r seg off
  | .other => { s with buf := s.buf ++ [.other] }
  | .flush => if c.syncFlushes then flush s else s
  | .rotate => rotate s
  | .send => match s.phase with
    | .idle => { s with sent := (raftOf s.written).length }
    | .appended _ _ _ =>
      -- a peer that sends although the storage call has not returned counts the record as acted on
      if c.sendAfterPersist then s else { s with sent := (raftOf s.written).length }
    | .synced _ _ _ =>
      if c.sendAfterPersist then s else { s with sent := (raftOf s.written).length }
  | .crash => crash s

def run (c : Cfg) (evs : List Ev) : St := evs.foldl (step c) {}

/-- a whole storage call, as the harness issues it (call, then ticks until it returns) -/
def doCall (c : Cfg) (s : St) (cl : Call) : St :=
  step c (step c (step c s (.call cl)) .tick) .tick

/-! ### specification side: the abstract log a raft history denotes -/

/-- "a well-formed history of records handed to the storage": every append starts above the
snapshot point and leaves no gap; every snapshot is newer than the previous one.  (What
`etcd/raft` guarantees about its own `Ready`s.) -/
def ValidFrom (m : Mem) : List Rec → Prop
  | [] => True
  | r :: rs =>
    (match r with
     | .ents f items => m.baseIdx < f ∧ f ≤ m.lastIndex + 1 ∧ items ≠ []
     | .snap i _ => m.snapIdx < i
     | _ => True) ∧
    (match m.applyRec r with
     | some m' => ValidFrom m' rs
     | none => False)

def ValidHist (l : List Rec) : Prop := ValidFrom {} l

/-- abstract log as a partial map index ↦ item: later appends overwrite from their first
index on and cut everything behind them; a snapshot empties the log. -/
def specLogFrom (g : Nat → Option Item) : List Rec → Nat → Option Item
  | [], i => g i
  | .ents f items :: rs, i =>
    specLogFrom (fun j => if j < f then g j else items[j - f]?) rs i
  | .snap idx _ :: rs, i => specLogFrom (fun j => if idx = 0 then g j else none) rs i
  | .hs _ :: rs, i => specLogFrom g rs i
  | .other :: rs, i => specLogFrom g rs i

def specLog (l : List Rec) : Nat → Option Item := specLogFrom (fun _ => none) l

/-- the last hard state of a history (`d` when it has none) -/
def lastHs (d : HS) : List Rec → HS
  | [] => d
  | .hs h :: rs => lastHs h rs
  | .other :: rs => lastHs d rs
  | .ents _ _ :: rs => lastHs d rs
  | .snap _ _ :: rs => lastHs d rs

/-- terms of the persisted hard states never decrease (what raft guarantees about its Readys) -/
def TermsMono (t : Nat) : List Rec → Prop
  | [] => True
  | .hs h :: rs => t ≤ h.term ∧ TermsMono h.term rs
  | .other :: rs => TermsMono t rs
  | .ents _ _ :: rs => TermsMono t rs
  | .snap _ _ :: rs => TermsMono t rs

/-- the records one Ready (hard state + entries) hands to the storage, in the order
`handleReady` persists them -/
def readyRecs (c : Cfg) (h : HS) (f : Nat) (items : List Item) : List Rec :=
  if c.hsAfterEntries then [.ents f items, .hs h] else [.hs h, .ents f items]

/-- what `raft.newLog` demands of a recovered storage: the commit index is inside the log -/
def CommitOK (m : Mem) : Prop := m.hs.commit ≤ m.lastIndex
instance (m : Mem) : Decidable (CommitOK m) := by unfold CommitOK; exact inferInstance

def hsOf : List Rec → List HS
  | [] => []
  | .hs h :: rs => h :: hsOf rs
  | .other :: rs => hsOf rs
  | .ents _ _ :: rs => hsOf rs
  | .snap _ _ :: rs => hsOf rs

end NoKV.Raftwal

/-
Inductive invariant of the C36 step system (`Segments.lean`) and its preservation by every
operation, for the configuration in which all four decision predicates are the repaired ones.
-/
import NoKVModel.Raftwal.Segments

namespace NoKV.Raftwal.Seg

/-! ### the invariant -/

/-- what the raft-side invariants look at: segment id and its raft records -/
abbrev Sk := List (Nat × List RRec)

def skel (segs : List Segm) : Sk := segs.map (fun sg => (sg.id, sg.raft))

/-- records of one group inside one segment are in increasing, disjoint order -/
def RecLt (r1 r2 : RRec) : Prop := r1.lo ≠ 0 → r2.lo ≠ 0 → r1.g = r2.g → r1.lhi < r2.lo

/-- entry spans are in increasing index order and non-empty -/
def SpansOK (spans : List (Nat × Nat × Nat)) : Prop :=
  spans.Pairwise (fun a b => a.2.1 < b.1) ∧ ∀ sp ∈ spans, sp.1 ≤ sp.2.1

def Covered (spans : List (Nat × Nat × Nat)) (i : Nat) : Prop := ∃ sp ∈ spans, sp.1 ≤ i ∧ i ≤ sp.2.1

structure Shape (s : S) : Prop where
  sorted : s.segs.Pairwise (fun a b => a.id < b.id)
  lastAct : ∃ pre a, s.segs = pre ++ [a] ∧ a.id = s.active ∧ a.present = true
  actPos : 0 < s.active
  actNext : s.active < s.next
  immLt : ∀ id ∈ s.imm, id < s.active
  instLt : ∀ id ∈ s.installed, id < s.active
  nonEmpty : ∀ sg ∈ s.segs, sg.id ≠ s.active → sg.puts ≠ []

structure Lsm (s : S) : Prop where
  absent : ∀ sg ∈ s.segs, sg.present = false → ∀ p ∈ sg.puts, p ∈ s.tables
  inst : ∀ sg ∈ s.segs, sg.id ∈ s.installed → ∀ p ∈ sg.puts, p ∈ s.tables

/-- an absent segment holds no live raft entry above its group's truncation point -/
def Kept (s : S) : Prop :=
  ∀ sg ∈ s.segs, sg.present = false → ∀ r ∈ sg.raft, r.lo ≠ 0 →
    ∀ g ∈ s.grps, g.id = r.g → r.lhi ≤ g.trunc

structure RaftInv (sk : Sk) (grps : List Grp) (active : Nat) : Prop where
  uniq : ∀ g1 ∈ grps, ∀ g2 ∈ grps, g1.id = g2.id → g1 = g2
  bound : ∀ g ∈ grps, g.ptrSeg ≤ active ∧ g.segIndex ≤ active
  idLe : ∀ e ∈ sk, e.1 ≤ active
  idPos : ∀ e ∈ sk, 0 < e.1
  /-- every live entry above a group's truncation point lies in a segment ≥ its SegmentIndex -/
  ptr : ∀ e ∈ sk, ∀ r ∈ e.2, r.lo ≠ 0 → ∀ g ∈ grps, g.id = r.g → g.trunc < r.lhi →
    g.ptrSeg ≠ 0 ∧ (g.segIndex ≠ 0 → g.segIndex ≤ e.1)
  /-- the live part of a record in an earlier segment ends before a record of a later segment starts -/
  cross : ∀ eA ∈ sk, ∀ eB ∈ sk, ∀ rA ∈ eA.2, ∀ rB ∈ eB.2, rA.lo ≠ 0 → rB.lo ≠ 0 → rA.g = rB.g →
    eA.1 < eB.1 → rA.lhi < rB.lo
  within : ∀ e ∈ sk, e.2.Pairwise RecLt
  leLast : ∀ e ∈ sk, ∀ r ∈ e.2, r.lo ≠ 0 → ∀ g ∈ grps, g.id = r.g → r.lhi ≤ g.last
  loLe : ∀ e ∈ sk, ∀ r ∈ e.2, r.lo ≠ 0 → r.lo ≤ r.hi
  lhiLe : ∀ e ∈ sk, ∀ r ∈ e.2, r.lo ≠ 0 → r.lhi ≤ r.hi
  /-- every span comes from a record of its segment that starts at or before it -/
  span : ∀ g ∈ grps, ∀ sp ∈ g.spans, ∃ e ∈ sk, ∃ r ∈ e.2,
    e.1 = sp.2.2 ∧ r.g = g.id ∧ r.lo ≠ 0 ∧ r.lo ≤ sp.1
  spansOK : ∀ g ∈ grps, SpansOK g.spans
  untr : ∀ g ∈ grps, g.segIndex = 0 → g.trunc = 0
  baseGe : ∀ g ∈ grps, g.trunc ≤ g.base
  /-- until a group records its first truncation segment its spans cover the whole log -/
  cover : ∀ g ∈ grps, g.openOK = true → g.segIndex = 0 → ∀ i, 0 < i → i ≤ g.last → Covered g.spans i

structure Inv (s : S) : Prop where
  shape : Shape s
  lsm : Lsm s
  kept : Kept s
  raft : RaftInv (skel s.segs) s.grps s.active

/-- flushes happen in segment order: every present, non-active segment is either queued for flush
or its table is installed, and everything at or below the manifest log pointer is installed
(needs: no memtable is ever skipped, i.e. failed flushes are retried in place) -/
structure Ord (s : S) : Prop where
  immSorted : s.imm.Pairwise (· < ·)
  lp : s.logPtr < s.active
  q : ∀ sg ∈ s.segs, sg.present = true → sg.id ≠ s.active → sg.id ∈ s.imm ∨ sg.id ∈ s.installed
  p : ∀ sg ∈ s.segs, sg.present = true → sg.id ≤ s.logPtr → sg.id ∈ s.installed

/-! ### lists -/

theorem pairwise_id_unique {l : List Segm} (h : l.Pairwise (fun a b => a.id < b.id))
    {x y : Segm} (hx : x ∈ l) (hy : y ∈ l) (hid : x.id = y.id) : x = y := by
  induction l with
  | nil => cases hx
  | cons a t ih =>
    rw [List.pairwise_cons] at h
    obtain ⟨h1, h2⟩ := h
    rcases List.mem_cons.mp hx with hx1 | hx1 <;> rcases List.mem_cons.mp hy with hy1 | hy1
    · rw [hx1, hy1]
    · have := h1 y hy1; rw [hx1] at hid; omega
    · have := h1 x hx1; rw [hy1] at hid; omega
    · exact ih h2 hx1 hy1

theorem pairwise_snoc_lt {pre : List Segm} {a : Segm}
    (h : (pre ++ [a]).Pairwise (fun x y => x.id < y.id)) : ∀ sg ∈ pre, sg.id < a.id := by
  intro sg hsg
  rw [List.pairwise_append] at h
  exact h.2.2 sg hsg a (by simp)

theorem Shape.idLe {s : S} (h : Shape s) : ∀ sg ∈ s.segs, sg.id ≤ s.active := by
  obtain ⟨pre, a, hsegs, hid, _⟩ := h.lastAct
  intro sg hsg
  have hs := h.sorted
  rw [hsegs] at hs hsg
  rcases List.mem_append.mp hsg with hm | hm
  · have := pairwise_snoc_lt hs sg hm; omega
  · simp at hm; subst hm; omega

theorem Shape.unique {s : S} (h : Shape s) {x y : Segm} (hx : x ∈ s.segs) (hy : y ∈ s.segs)
    (hid : x.id = y.id) : x = y := pairwise_id_unique h.sorted hx hy hid

theorem Shape.actPresent {s : S} (h : Shape s) {sg : Segm} (hsg : sg ∈ s.segs) (hid : sg.id = s.active) :
    sg.present = true := by
  obtain ⟨pre, a, hsegs, hida, hp⟩ := h.lastAct
  have ha : a ∈ s.segs := by rw [hsegs]; simp
  have : sg = a := h.unique hsg ha (by omega)
  rw [this]; exact hp

theorem Shape.idLtNext {s : S} (h : Shape s) : ∀ sg ∈ s.segs, sg.id < s.next := by
  intro sg hsg
  have := h.idLe sg hsg
  have := h.actNext
  omega

/-! ### maps over the segment list that keep ids -/

theorem mem_map_seg {F : Segm → Segm} {segs : List Segm} {x : Segm} (hx : x ∈ segs.map F) :
    ∃ sg ∈ segs, F sg = x := by
  rw [List.mem_map] at hx; exact hx

theorem sorted_map {F : Segm → Segm} (hF : ∀ sg, (F sg).id = sg.id) {segs : List Segm}
    (h : segs.Pairwise (fun a b => a.id < b.id)) : (segs.map F).Pairwise (fun a b => a.id < b.id) := by
  rw [List.pairwise_map]
  exact h.imp (fun {a b} hab => by rw [hF a, hF b]; exact hab)

theorem skel_map {F : Segm → Segm} (hF : ∀ sg, (F sg).id = sg.id ∧ (F sg).raft = sg.raft)
    (segs : List Segm) : skel (segs.map F) = skel segs := by
  unfold skel
  rw [List.map_map]
  apply List.map_congr_left
  intro sg _
  simp [Function.comp, (hF sg).1, (hF sg).2]

theorem skel_append (a b : List Segm) : skel (a ++ b) = skel a ++ skel b := by
  simp [skel]

theorem mem_skel {segs : List Segm} {sg : Segm} (h : sg ∈ segs) : (sg.id, sg.raft) ∈ skel segs := by
  unfold skel
  exact List.mem_map.mpr ⟨sg, h, rfl⟩

theorem of_mem_skel {segs : List Segm} {e : Nat × List RRec} (h : e ∈ skel segs) :
    ∃ sg ∈ segs, sg.id = e.1 ∧ sg.raft = e.2 := by
  unfold skel at h
  obtain ⟨sg, hsg, rfl⟩ := List.mem_map.mp h
  exact ⟨sg, hsg, rfl, rfl⟩

/-! ### put -/

def putF (act : Nat) (p : Nat × Nat) (sg : Segm) : Segm :=
  if sg.id == act then { sg with puts := sg.puts ++ [p] } else sg

theorem put_segs (s : S) (k : Nat) : (put s k).segs = s.segs.map (putF s.active (k, s.seq + 1)) := rfl

theorem putF_id (act : Nat) (p : Nat × Nat) (sg : Segm) : (putF act p sg).id = sg.id := by
  unfold putF; split <;> rfl
theorem putF_raft (act : Nat) (p : Nat × Nat) (sg : Segm) : (putF act p sg).raft = sg.raft := by
  unfold putF; split <;> rfl
theorem putF_present (act : Nat) (p : Nat × Nat) (sg : Segm) : (putF act p sg).present = sg.present := by
  unfold putF; split <;> rfl
theorem putF_other {act : Nat} (p : Nat × Nat) {sg : Segm} (h : sg.id ≠ act) : putF act p sg = sg := by
  unfold putF; simp [h]
theorem putF_puts_ne (act : Nat) (p : Nat × Nat) (sg : Segm) (h : sg.id = act) : (putF act p sg).puts ≠ [] := by
  unfold putF; simp [h]

theorem skel_put (s : S) (k : Nat) : skel (put s k).segs = skel s.segs := by
  rw [put_segs]
  exact skel_map (fun sg => ⟨putF_id _ _ sg, putF_raft _ _ sg⟩) _

theorem inv_put (s : S) (k : Nat) (h : Inv s) : Inv (put s k) := by
  obtain ⟨hs, hl, hk, hr⟩ := h
  refine ⟨⟨?_, ?_, hs.actPos, hs.actNext, hs.immLt, hs.instLt, ?_⟩, ⟨?_, ?_⟩, ?_, ?_⟩
  · rw [put_segs]; exact sorted_map (putF_id _ _) hs.sorted
  · obtain ⟨pre, a, hsegs, hid, hp⟩ := hs.lastAct
    refine ⟨pre.map (putF s.active (k, s.seq + 1)), putF s.active (k, s.seq + 1) a, ?_, ?_, ?_⟩
    · rw [put_segs, hsegs]; simp
    · rw [putF_id]; exact hid
    · rw [putF_present]; exact hp
  · intro sg' hsg' hne
    rw [put_segs] at hsg'
    obtain ⟨sg, hsg, rfl⟩ := mem_map_seg hsg'
    rw [putF_id] at hne
    have hne' : sg.id ≠ s.active := hne
    rw [putF_other _ hne']
    exact hs.nonEmpty sg hsg hne'
  · intro sg' hsg' hp
    rw [put_segs] at hsg'
    obtain ⟨sg, hsg, rfl⟩ := mem_map_seg hsg'
    rw [putF_present] at hp
    have hne : sg.id ≠ s.active := by
      intro heq
      rw [hs.actPresent hsg heq] at hp; cases hp
    rw [putF_other _ hne]
    exact hl.absent sg hsg hp
  · intro sg' hsg' hin
    rw [put_segs] at hsg'
    obtain ⟨sg, hsg, rfl⟩ := mem_map_seg hsg'
    rw [putF_id] at hin
    have hin' : sg.id ∈ s.installed := hin
    have hne : sg.id ≠ s.active := by have := hs.instLt _ hin'; omega
    rw [putF_other _ hne]
    exact hl.inst sg hsg hin'
  · intro sg' hsg' hp r hr' hlo g hg hid
    rw [put_segs] at hsg'
    obtain ⟨sg, hsg, rfl⟩ := mem_map_seg hsg'
    rw [putF_present] at hp
    rw [putF_raft] at hr'
    exact hk sg hsg hp r hr' hlo g hg hid
  · show RaftInv (skel (put s k).segs) s.grps s.active
    rw [skel_put]; exact hr

/-- after a put the active segment is non-empty -/
theorem put_active_nonempty (s : S) (k : Nat) {sg : Segm} (hsg : sg ∈ (put s k).segs) (hid : sg.id = s.active) :
    sg.puts ≠ [] := by
  rw [put_segs] at hsg
  obtain ⟨sg0, _, rfl⟩ := mem_map_seg hsg
  rw [putF_id] at hid
  exact putF_puts_ne _ _ _ hid

/-! ### marking segments absent (the three removers) -/

def absF (P : Segm → Bool) (sg : Segm) : Segm := if P sg then { sg with present := false } else sg

theorem absF_id (P : Segm → Bool) (sg : Segm) : (absF P sg).id = sg.id := by unfold absF; split <;> rfl
theorem absF_raft (P : Segm → Bool) (sg : Segm) : (absF P sg).raft = sg.raft := by unfold absF; split <;> rfl
theorem absF_puts (P : Segm → Bool) (sg : Segm) : (absF P sg).puts = sg.puts := by unfold absF; split <;> rfl
theorem absF_present_false {P : Segm → Bool} {sg : Segm} (h : (absF P sg).present = false) :
    sg.present = false ∨ P sg = true := by
  unfold absF at h
  split at h
  · right; assumption
  · left; exact h
theorem absF_not {P : Segm → Bool} {sg : Segm} (h : P sg = false) : absF P sg = sg := by
  unfold absF; simp [h]

theorem setAbsent_eq (segs : List Segm) (ids : List Nat) :
    setAbsent segs ids = segs.map (absF (fun sg => ids.contains sg.id)) := rfl

/-- Generic removal step: segments selected by `P` are not the active one, hold only installed
puts and no raft entry above a truncation point. -/
theorem inv_absent {s s' : S} (P : Segm → Bool)
    (hsegs : s'.segs = s.segs.map (absF P)) (hact : s'.active = s.active) (hnext : s'.next = s.next)
    (himm : ∀ id ∈ s'.imm, id ∈ s.imm) (hinst : s'.installed = s.installed)
    (htab : s'.tables = s.tables) (hgr : s'.grps = s.grps)
    (hP : ∀ sg ∈ s.segs, P sg = true → sg.id ≠ s.active ∧ (∀ p ∈ sg.puts, p ∈ s.tables) ∧
      (∀ r ∈ sg.raft, r.lo ≠ 0 → ∀ g ∈ s.grps, g.id = r.g → r.lhi ≤ g.trunc))
    (h : Inv s) : Inv s' := by
  obtain ⟨hs, hl, hk, hr⟩ := h
  refine ⟨⟨?_, ?_, ?_, ?_, ?_, ?_, ?_⟩, ⟨?_, ?_⟩, ?_, ?_⟩
  · rw [hsegs]; exact sorted_map (absF_id P) hs.sorted
  · obtain ⟨pre, a, hsg, hid, hp⟩ := hs.lastAct
    refine ⟨pre.map (absF P), absF P a, ?_, ?_, ?_⟩
    · rw [hsegs, hsg]; simp
    · rw [absF_id, hact]; exact hid
    · have ha : a ∈ s.segs := by rw [hsg]; simp
      have hPa : P a = false := by
        cases hpa : P a with
        | false => rfl
        | true => exact absurd hid (hP a ha hpa).1
      rw [absF_not hPa]; exact hp
  · rw [hact]; exact hs.actPos
  · rw [hact, hnext]; exact hs.actNext
  · intro id hid; rw [hact]; exact hs.immLt id (himm id hid)
  · intro id hid; rw [hact]; rw [hinst] at hid; exact hs.instLt id hid
  · intro sg' hsg' hne
    rw [hsegs] at hsg'
    obtain ⟨sg, hsg, rfl⟩ := mem_map_seg hsg'
    rw [absF_id, hact] at hne
    rw [absF_puts]
    exact hs.nonEmpty sg hsg hne
  · intro sg' hsg' hp p hpp
    rw [hsegs] at hsg'
    obtain ⟨sg, hsg, rfl⟩ := mem_map_seg hsg'
    rw [absF_puts] at hpp
    rw [htab]
    rcases absF_present_false hp with h1 | h1
    · exact hl.absent sg hsg h1 p hpp
    · exact (hP sg hsg h1).2.1 p hpp
  · intro sg' hsg' hin p hpp
    rw [hsegs] at hsg'
    obtain ⟨sg, hsg, rfl⟩ := mem_map_seg hsg'
    rw [absF_puts] at hpp
    rw [absF_id, hinst] at hin
    rw [htab]
    exact hl.inst sg hsg hin p hpp
  · intro sg' hsg' hp r hr' hlo g hg hid
    rw [hsegs] at hsg'
    obtain ⟨sg, hsg, rfl⟩ := mem_map_seg hsg'
    rw [absF_raft] at hr'
    rw [hgr] at hg
    rcases absF_present_false hp with h1 | h1
    · exact hk sg hsg h1 r hr' hlo g hg hid
    · exact (hP sg hsg h1).2.2 r hr' hlo g hg hid
  · rw [hsegs, hact, hgr, skel_map (fun sg => ⟨absF_id P sg, absF_raft P sg⟩)]
    exact hr

/-- what `canRemoveWalSegment` (repaired) guarantees about the raft records of the segment -/
theorem raftAllows_kept {c : SCfg} (hc : c.guardUntruncated = true) {sk : Sk} {grps : List Grp} {active : Nat}
    (hr : RaftInv sk grps active) {sg : Segm} (hmem : (sg.id, sg.raft) ∈ sk)
    (hra : raftAllows c grps sg = true) :
    ∀ r ∈ sg.raft, r.lo ≠ 0 → ∀ g ∈ grps, g.id = r.g → r.lhi ≤ g.trunc := by
  intro r hrm hlo g hg hid
  rcases Nat.lt_or_ge g.trunc r.lhi with hlt | hge
  · exfalso
    obtain ⟨hp, hsi⟩ := hr.ptr _ hmem r hrm hlo g hg hid hlt
    unfold raftAllows at hra
    rw [List.all_eq_true] at hra
    have := hra g hg
    simp only [hc, Bool.not_true, Bool.false_or, Bool.or_eq_true, beq_iff_eq, Bool.and_eq_true,
      decide_eq_true_eq, bne_iff_ne, Bool.not_eq_true'] at this
    rcases this with h0 | ⟨⟨h3, _⟩, h5⟩
    · exact hp h0
    · rcases h5 with h5 | h5
      · have := hsi h5
        rcases h3 with h3 | h3
        · exact h5 h3
        · simp only at this; omega
      · unfold hasRaft at h5
        cases hraft : sg.raft with
        | nil => rw [hraft] at hrm; cases hrm
        | cons a t => rw [hraft] at h5; simp at h5
  · exact hge

/-- fields the invariant does not look at may change freely; `imm` may shrink -/
theorem inv_same {s s' : S} (hsegs : s'.segs = s.segs) (hact : s'.active = s.active) (hnext : s'.next = s.next)
    (himm : ∀ id ∈ s'.imm, id ∈ s.imm) (hinst : s'.installed = s.installed)
    (htab : s'.tables = s.tables) (hgr : s'.grps = s.grps) (h : Inv s) : Inv s' := by
  apply inv_absent (fun _ => false) _ hact hnext himm hinst htab hgr _ h
  · rw [hsegs]
    have : ∀ sg ∈ s.segs, absF (fun _ => false) sg = sg := fun sg _ => absF_not rfl
    rw [List.map_congr_left this]; simp
  · intro sg _ hP; cases hP

theorem findSeg_some {segs : List Segm} {id : Nat} {sg : Segm} (h : findSeg segs id = some sg) :
    sg ∈ segs ∧ sg.id = id := by
  unfold findSeg at h
  refine ⟨List.mem_of_find?_eq_some h, ?_⟩
  have := List.find?_some h
  simpa using this

def installSt (s : S) (sg : Segm) : S :=
  { s with tables := s.tables ++ sg.puts, installed := s.installed ++ [sg.id], logPtr := sg.id, imm := s.imm.erase sg.id }

/-- the table of the memtable bound to segment `sg` is installed -/
theorem inv_install {s : S} {sg : Segm} (hsg : sg ∈ s.segs) (hlt : sg.id < s.active) (h : Inv s) :
    Inv (installSt s sg) := by
  unfold installSt
  obtain ⟨hs, hl, hk, hr⟩ := h
  refine ⟨⟨hs.sorted, hs.lastAct, hs.actPos, hs.actNext, ?_, ?_, hs.nonEmpty⟩, ⟨?_, ?_⟩, hk, hr⟩
  · intro id hid; exact hs.immLt id (List.mem_of_mem_erase hid)
  · intro id hid
    rcases List.mem_append.mp hid with h1 | h1
    · exact hs.instLt id h1
    · simp at h1; subst h1; exact hlt
  · intro x hx hp p hpp
    exact List.mem_append.mpr (Or.inl (hl.absent x hx hp p hpp))
  · intro x hx hin p hpp
    rcases List.mem_append.mp hin with h1 | h1
    · exact List.mem_append.mpr (Or.inl (hl.inst x hx h1 p hpp))
    · simp at h1
      have : x = sg := hs.unique hx hsg h1
      subst this
      exact List.mem_append.mpr (Or.inr hpp)

theorem flushOne_active (c : SCfg) (s : S) (id : Nat) : (flushOne c s id).active = s.active := by
  unfold flushOne
  split
  · rfl
  · split
    · rfl
    · simp only; split <;> rfl

theorem inv_flushOne (c : SCfg) (hc : c.guardUntruncated = true) (s : S) (id : Nat) (hid : id < s.active)
    (h : Inv s) : Inv (flushOne c s id) := by
  unfold flushOne
  split
  · exact inv_same (s := s) rfl rfl rfl (fun x hx => List.mem_of_mem_erase (show x ∈ s.imm.erase id from hx)) rfl rfl rfl h
  · rename_i sg hfind
    obtain ⟨hsg, hsid⟩ := findSeg_some hfind
    have hne : sg.puts ≠ [] := h.shape.nonEmpty sg hsg (by omega)
    split
    · rename_i hemp
      exfalso
      apply hne
      simpa using hemp
    · subst hsid
      have h1 := inv_install hsg hid h
      simp only
      split
      · rename_i hra
        refine inv_absent (s := installSt s sg)
          (fun x => [sg.id].contains x.id) (setAbsent_eq _ _) rfl rfl (fun _ hx => hx) rfl rfl rfl ?_ h1
        intro x hx hPx
        have hxid : x.id = sg.id := by simpa using hPx
        have : x = sg := h.shape.unique hx hsg hxid
        subst this
        refine ⟨by show x.id ≠ s.active; omega, ?_, ?_⟩
        · intro p hp; exact List.mem_append.mpr (Or.inr hp)
        · exact raftAllows_kept hc h.raft (mem_skel hsg) hra
      · exact h1

theorem inv_foldl_flushOne (c : SCfg) (hc : c.guardUntruncated = true) (l : List Nat) :
    ∀ s : S, Inv s → (∀ id ∈ l, id < s.active) →
      Inv (l.foldl (flushOne c) s) ∧ (l.foldl (flushOne c) s).active = s.active := by
  induction l with
  | nil => intro s h _; exact ⟨h, rfl⟩
  | cons a t ih =>
    intro s h hl
    simp only [List.foldl_cons]
    have h1 := inv_flushOne c hc s a (hl a (by simp)) h
    have ha := flushOne_active c s a
    obtain ⟨h2, h3⟩ := ih (flushOne c s a) h1 (by intro id hid; rw [ha]; exact hl id (by simp [hid]))
    exact ⟨h2, by rw [h3, ha]⟩

theorem inv_flushAll (c : SCfg) (hc : c.guardUntruncated = true) (s : S) (h : Inv s) :
    Inv (flushAll c s) ∧ (flushAll c s).active = s.active :=
  inv_foldl_flushOne c hc s.imm s h h.shape.immLt

/-! ### a new segment / memtable -/

theorem raftInv_newSeg {sk : Sk} {grps : List Grp} {a a' : Nat} (h : RaftInv sk grps a) (hlt : a < a') :
    RaftInv (sk ++ [(a', [])]) grps a' := by
  have hmem : ∀ e ∈ sk ++ [((a', []) : Nat × List RRec)], e ∈ sk ∨ e = (a', []) := by
    intro e he
    rcases List.mem_append.mp he with h1 | h1
    · exact Or.inl h1
    · right; simpa using h1
  refine ⟨h.uniq, ?_, ?_, ?_, ?_, ?_, ?_, ?_, ?_, ?_, ?_, h.spansOK, h.untr, h.baseGe, h.cover⟩
  · intro g hg; have := h.bound g hg; omega
  · intro e he
    rcases hmem e he with h1 | h1
    · have := h.idLe e h1; omega
    · subst h1; exact Nat.le_refl _
  · intro e he
    rcases hmem e he with h1 | h1
    · exact h.idPos e h1
    · subst h1; show 0 < a'; omega
  · intro e he r hr
    rcases hmem e he with h1 | h1
    · exact h.ptr e h1 r hr
    · subst h1; cases hr
  · intro eA heA eB heB rA hrA rB hrB
    rcases hmem eA heA with h1 | h1
    · rcases hmem eB heB with h2 | h2
      · exact h.cross eA h1 eB h2 rA hrA rB hrB
      · subst h2; cases hrB
    · subst h1; cases hrA
  · intro e he
    rcases hmem e he with h1 | h1
    · exact h.within e h1
    · subst h1; exact List.Pairwise.nil
  · intro e he r hr
    rcases hmem e he with h1 | h1
    · exact h.leLast e h1 r hr
    · subst h1; cases hr
  · intro e he r hr
    rcases hmem e he with h1 | h1
    · exact h.loLe e h1 r hr
    · subst h1; cases hr
  · intro e he r hr
    rcases hmem e he with h1 | h1
    · exact h.lhiLe e h1 r hr
    · subst h1; cases hr
  · intro g hg sp hsp
    obtain ⟨e, he, r, hr, hrest⟩ := h.span g hg sp hsp
    exact ⟨e, List.mem_append.mpr (Or.inl he), r, hr, hrest⟩

theorem inv_newSeg {s : S} (imm' : List Nat) (himm : ∀ id ∈ imm', id ∈ s.imm ∨ id = s.active)
    (hne : ∀ sg ∈ s.segs, sg.id = s.active → sg.puts ≠ []) (h : Inv s) : Inv (newSegSt s imm') := by
  obtain ⟨hs, hl, hk, hr⟩ := h
  have hnew : ∀ x ∈ s.segs ++ [Segm.mk s.next [] [] true], x ∈ s.segs ∨ x = Segm.mk s.next [] [] true := by
    intro x hx
    rcases List.mem_append.mp hx with h1 | h1
    · exact Or.inl h1
    · right; simpa using h1
  refine ⟨⟨?_, ?_, ?_, ?_, ?_, ?_, ?_⟩, ⟨?_, ?_⟩, ?_, ?_⟩
  · show (s.segs ++ [Segm.mk s.next [] [] true]).Pairwise (fun a b => a.id < b.id)
    rw [List.pairwise_append]
    refine ⟨hs.sorted, by simp, ?_⟩
    intro a ha b hb
    simp at hb; subst hb
    exact hs.idLtNext a ha
  · exact ⟨s.segs, Segm.mk s.next [] [] true, rfl, rfl, rfl⟩
  · show 0 < s.next; have := hs.actPos; have := hs.actNext; omega
  · show s.next < s.next + 1; omega
  · intro id hid
    show id < s.next
    have := hs.actNext
    rcases himm id hid with h1 | h1
    · have := hs.immLt id h1; omega
    · omega
  · intro id hid
    show id < s.next
    have := hs.instLt id hid; have := hs.actNext; omega
  · intro x hx hne'
    rcases hnew x hx with h1 | h1
    · by_cases hact : x.id = s.active
      · exact hne x h1 hact
      · exact hs.nonEmpty x h1 hact
    · subst h1; exact absurd rfl hne'
  · intro x hx hp
    rcases hnew x hx with h1 | h1
    · exact hl.absent x h1 hp
    · subst h1; cases hp
  · intro x hx hin
    rcases hnew x hx with h1 | h1
    · exact hl.inst x h1 hin
    · subst h1; intro p hp; cases hp
  · intro x hx hp
    rcases hnew x hx with h1 | h1
    · exact hk x h1 hp
    · subst h1; cases hp
  · show RaftInv (skel (s.segs ++ [Segm.mk s.next [] [] true])) s.grps s.next
    rw [skel_append]
    exact raftInv_newSeg hr hs.actNext

/-! ### rotate, flushFail, gate -/

theorem rotate_eq (c : SCfg) (s : S) :
    rotate c s = put (if (newSegSt (put s 0) ((put s 0).imm ++ [(put s 0).active])).gateClosed
      then newSegSt (put s 0) ((put s 0).imm ++ [(put s 0).active])
      else flushAll c (newSegSt (put s 0) ((put s 0).imm ++ [(put s 0).active]))) 0 := rfl

theorem inv_rotate (c : SCfg) (hc : c.guardUntruncated = true) (s : S) (h : Inv s) : Inv (rotate c s) := by
  rw [rotate_eq]
  have h1 := inv_put s 0 h
  have h2 : Inv (newSegSt (put s 0) ((put s 0).imm ++ [(put s 0).active])) := by
    apply inv_newSeg _ _ _ h1
    · intro id hid
      rcases List.mem_append.mp hid with h3 | h3
      · exact Or.inl h3
      · right; simpa using h3
    · intro sg hsg hid; exact put_active_nonempty s 0 hsg hid
  apply inv_put
  split
  · exact h2
  · exact (inv_flushAll c hc _ h2).1

theorem flushFail_eq (c : SCfg) (hfr : c.flushRetries = true) (s : S) :
    flushFail c s = put (flushAll c (newSegSt (failBase c s) ((failBase c s).imm ++ [(failBase c s).active]))) 0 := by
  unfold flushFail; simp [hfr]

theorem inv_failBase (c : SCfg) (hc : c.guardUntruncated = true) (s : S) (h : Inv s) : Inv (failBase c s) := by
  unfold failBase
  have h0 : Inv { s with gateClosed := false } := inv_same (s := s) rfl rfl rfl (fun _ hx => hx) rfl rfl rfl h
  exact inv_put _ 0 (inv_flushAll c hc _ h0).1

theorem inv_flushFail (c : SCfg) (hc : c.guardUntruncated = true) (hfr : c.flushRetries = true) (s : S)
    (h : Inv s) : Inv (flushFail c s) := by
  rw [flushFail_eq c hfr]
  have h2 := inv_failBase c hc s h
  have h3 : Inv (newSegSt (failBase c s) ((failBase c s).imm ++ [(failBase c s).active])) := by
    apply inv_newSeg _ _ _ h2
    · intro id hid
      rcases List.mem_append.mp hid with h3 | h3
      · exact Or.inl h3
      · right; simpa using h3
    · intro sg hsg hid; exact put_active_nonempty _ 0 hsg hid
  exact inv_put _ 0 (inv_flushAll c hc _ h3).1

theorem inv_gate (c : SCfg) (hc : c.guardUntruncated = true) (s : S) (b : Bool) (h : Inv s) : Inv (gate c s b) := by
  unfold gate
  split
  · exact inv_same (s := s) rfl rfl rfl (fun _ hx => hx) rfl rfl rfl h
  · have h0 : Inv { s with gateClosed := false } := inv_same (s := s) rfl rfl rfl (fun _ hx => hx) rfl rfl rfl h
    exact (inv_flushAll c hc _ h0).1

/-! ### watchdog -/

def retStep (acc : Nat) (g : Grp) : Nat :=
  if g.segIndex ≠ 0 ∧ ((if g.ptrSeg ≠ 0 ∧ (acc = 0 ∨ g.ptrSeg < acc) then g.ptrSeg else acc) = 0 ∨
      g.segIndex < (if g.ptrSeg ≠ 0 ∧ (acc = 0 ∨ g.ptrSeg < acc) then g.ptrSeg else acc))
  then g.segIndex else (if g.ptrSeg ≠ 0 ∧ (acc = 0 ∨ g.ptrSeg < acc) then g.ptrSeg else acc)

theorem retainSeg_eq (grps : List Grp) : retainSeg grps = grps.foldl retStep 0 := rfl

theorem retStep_acc (acc : Nat) (g : Grp) (h : acc ≠ 0) : retStep acc g ≠ 0 ∧ retStep acc g ≤ acc := by
  unfold retStep
  split <;> split <;> (try split) <;> omega

theorem retStep_seg (acc : Nat) (g : Grp) (h : g.segIndex ≠ 0) : retStep acc g ≠ 0 ∧ retStep acc g ≤ g.segIndex := by
  unfold retStep
  split <;> split <;> (try split) <;> omega

theorem foldl_retStep (l : List Grp) : ∀ acc : Nat,
    (acc ≠ 0 → l.foldl retStep acc ≠ 0 ∧ l.foldl retStep acc ≤ acc) ∧
    (∀ g ∈ l, g.segIndex ≠ 0 → l.foldl retStep acc ≠ 0 ∧ l.foldl retStep acc ≤ g.segIndex) := by
  induction l with
  | nil => intro acc; exact ⟨fun h => ⟨h, Nat.le_refl _⟩, fun g hg => by cases hg⟩
  | cons a t ih =>
    intro acc
    simp only [List.foldl_cons]
    obtain ⟨ih1, ih2⟩ := ih (retStep acc a)
    constructor
    · intro hacc
      obtain ⟨h1, h2⟩ := retStep_acc acc a hacc
      obtain ⟨h3, h4⟩ := ih1 h1
      exact ⟨h3, by omega⟩
    · intro g hg hsi
      rcases List.mem_cons.mp hg with h1 | h1
      · subst h1
        obtain ⟨h1, h2⟩ := retStep_seg acc g hsi
        obtain ⟨h3, h4⟩ := ih1 h1
        exact ⟨h3, by omega⟩
      · exact ih2 g h1 hsi

theorem retainSeg_le {grps : List Grp} {g : Grp} (hg : g ∈ grps) (h : g.segIndex ≠ 0) :
    retainSeg grps ≤ g.segIndex := by
  rw [retainSeg_eq]
  exact ((foldl_retStep grps 0).2 g hg h).2

theorem mem_watchdogRemoves {c : SCfg} {s : S} {id : Nat} (h : id ∈ watchdogRemoves c s) :
    ∃ sg ∈ s.segs, sg.id = id ∧ sg.present = true ∧ sg.id < retainSeg s.grps ∧
      (c.guardUntruncated = true → ∀ g ∈ s.grps, g.ptrSeg ≠ 0 → g.segIndex ≠ 0) ∧
      (c.wdChecksFlushed = true → sg.id ≤ s.logPtr) := by
  unfold watchdogRemoves at h
  have h' := List.mem_of_mem_take h
  rw [List.mem_map] at h'
  obtain ⟨sg, hsg, rfl⟩ := h'
  rw [List.mem_filter] at hsg
  obtain ⟨hmem, hcond⟩ := hsg
  simp only [Bool.and_eq_true, decide_eq_true_eq, Bool.or_eq_true, Bool.not_eq_true',
    List.all_eq_true, beq_iff_eq, bne_iff_ne, List.contains_iff_mem] at hcond
  obtain ⟨⟨⟨⟨⟨hpres, _⟩, hlt⟩, _⟩, hall⟩, hfl⟩ := hcond
  refine ⟨sg, hmem, rfl, hpres, hlt, ?_, ?_⟩
  · intro hg g hgm hne
    rcases hall with h1 | h1
    · rw [hg] at h1; cases h1
    · rcases h1 g hgm with h2 | h2
      · exact absurd h2 hne
      · exact h2
  · intro hw
    rcases hfl with h1 | h1
    · rw [hw] at h1; cases h1
    · exact h1

theorem inv_watchdog (c : SCfg) (hc : c.guardUntruncated = true) (hw : c.wdChecksFlushed = true)
    (s : S) (ho : Ord s) (h : Inv s) : Inv (watchdog c s) := by
  unfold watchdog
  refine inv_absent (s := s) (fun x => (watchdogRemoves c s).contains x.id) (setAbsent_eq _ _) rfl rfl
    (fun _ hx => hx) rfl rfl rfl ?_ h
  intro x hx hPx
  have hin : x.id ∈ watchdogRemoves c s := by simpa using hPx
  obtain ⟨sg, hsg, hid, hpres, hlt, hall, hfl⟩ := mem_watchdogRemoves hin
  have : sg = x := h.shape.unique hsg hx hid
  subst this
  have hinst := ho.p sg hsg hpres (hfl hw)
  refine ⟨?_, h.lsm.inst sg hsg hinst, ?_⟩
  · have := h.shape.instLt _ hinst; omega
  · intro r hr hlo g hg hgid
    rcases Nat.lt_or_ge g.trunc r.lhi with hl | hge
    · exfalso
      obtain ⟨hp, hsi⟩ := h.raft.ptr _ (mem_skel hsg) r hr hlo g hg hgid hl
      have hne := hall hc g hg hp
      have h1 := hsi hne
      have h2 := retainSeg_le hg hne
      simp only at h1
      omega
    · exact hge

/-! ### raft records and group updates -/

def raftF (act : Nat) (r : RRec) (sg : Segm) : Segm :=
  if sg.id == act then { sg with raft := sg.raft ++ [r] } else sg

theorem raftF_id (act : Nat) (r : RRec) (sg : Segm) : (raftF act r sg).id = sg.id := by unfold raftF; split <;> rfl
theorem raftF_puts (act : Nat) (r : RRec) (sg : Segm) : (raftF act r sg).puts = sg.puts := by unfold raftF; split <;> rfl
theorem raftF_present (act : Nat) (r : RRec) (sg : Segm) : (raftF act r sg).present = sg.present := by
  unfold raftF; split <;> rfl
theorem raftF_other {act : Nat} (r : RRec) {sg : Segm} (h : sg.id ≠ act) : raftF act r sg = sg := by
  unfold raftF; simp [h]

def addRec (act : Nat) (r : RRec) (e : Nat × List RRec) : Nat × List RRec :=
  if e.1 == act then (e.1, e.2 ++ [r]) else e

theorem skel_raftF (act : Nat) (r : RRec) (segs : List Segm) :
    skel (segs.map (raftF act r)) = (skel segs).map (addRec act r) := by
  unfold skel
  rw [List.map_map, List.map_map]
  apply List.map_congr_left
  intro sg _
  simp only [Function.comp, raftF, addRec]
  split <;> rfl

theorem addRec_fst (act : Nat) (r : RRec) (e : Nat × List RRec) : (addRec act r e).1 = e.1 := by
  unfold addRec; split <;> rfl

theorem mem_addRec {act : Nat} {r r' : RRec} {e : Nat × List RRec} (h : r' ∈ (addRec act r e).2) :
    r' ∈ e.2 ∨ (e.1 = act ∧ r' = r) := by
  unfold addRec at h
  split at h
  · rename_i heq
    rcases List.mem_append.mp h with h1 | h1
    · exact Or.inl h1
    · right; exact ⟨by simpa using heq, by simpa using h1⟩
  · exact Or.inl h

theorem mem_addRec_of_mem {act : Nat} {r r' : RRec} {e : Nat × List RRec} (h : r' ∈ e.2) :
    r' ∈ (addRec act r e).2 := by
  unfold addRec
  split
  · exact List.mem_append.mpr (Or.inl h)
  · exact h

theorem mem_addRec_new {act : Nat} {r : RRec} {e : Nat × List RRec} (h : e.1 = act) : r ∈ (addRec act r e).2 := by
  unfold addRec; simp [h]

def grpF (gid : Nat) (f : Grp → Grp) (g : Grp) : Grp := if g.id == gid then f g else g

theorem modGrp_eq (grps : List Grp) (gid : Nat) (f : Grp → Grp) : modGrp grps gid f = grps.map (grpF gid f) := rfl

theorem grpF_eq {gid : Nat} {f : Grp → Grp} {g : Grp} (h : g.id = gid) : grpF gid f g = f g := by
  unfold grpF; simp [h]
theorem grpF_ne {gid : Nat} {f : Grp → Grp} {g : Grp} (h : g.id ≠ gid) : grpF gid f g = g := by
  unfold grpF; simp [h]

theorem find_grp {grps : List Grp} {gid : Nat} {g : Grp} (h : grps.find? (fun x => x.id == gid) = some g) :
    g ∈ grps ∧ g.id = gid := by
  refine ⟨List.mem_of_find?_eq_some h, ?_⟩
  have := List.find?_some h
  simpa using this

theorem uniq_map {grps : List Grp} {F : Grp → Grp} (hF : ∀ g, (F g).id = g.id)
    (h : ∀ g1 ∈ grps, ∀ g2 ∈ grps, g1.id = g2.id → g1 = g2) :
    ∀ g1 ∈ grps.map F, ∀ g2 ∈ grps.map F, g1.id = g2.id → g1 = g2 := by
  intro g1 h1 g2 h2 hid
  obtain ⟨a, ha, rfl⟩ := List.mem_map.mp h1
  obtain ⟨b, hb, rfl⟩ := List.mem_map.mp h2
  rw [hF a, hF b] at hid
  rw [h a ha b hb hid]

/-- `Shape` and `Lsm` only look at ids, puts and presence of the segments -/
theorem shape_lsm_map {s s' : S} (F : Segm → Segm)
    (hF : ∀ sg, (F sg).id = sg.id ∧ (F sg).puts = sg.puts ∧ (F sg).present = sg.present)
    (hsegs : s'.segs = s.segs.map F) (hact : s'.active = s.active) (hnext : s'.next = s.next)
    (himm : s'.imm = s.imm) (hinst : s'.installed = s.installed) (htab : s'.tables = s.tables)
    (hs : Shape s) (hl : Lsm s) : Shape s' ∧ Lsm s' := by
  refine ⟨⟨?_, ?_, ?_, ?_, ?_, ?_, ?_⟩, ⟨?_, ?_⟩⟩
  · rw [hsegs]; exact sorted_map (fun sg => (hF sg).1) hs.sorted
  · obtain ⟨pre, a, hsg, hid, hp⟩ := hs.lastAct
    refine ⟨pre.map F, F a, ?_, ?_, ?_⟩
    · rw [hsegs, hsg]; simp
    · rw [(hF a).1, hact]; exact hid
    · rw [(hF a).2.2]; exact hp
  · rw [hact]; exact hs.actPos
  · rw [hact, hnext]; exact hs.actNext
  · intro id hid; rw [hact]; rw [himm] at hid; exact hs.immLt id hid
  · intro id hid; rw [hact]; rw [hinst] at hid; exact hs.instLt id hid
  · intro x hx hne
    rw [hsegs] at hx
    obtain ⟨sg, hsg, rfl⟩ := mem_map_seg hx
    rw [(hF sg).1, hact] at hne
    rw [(hF sg).2.1]
    exact hs.nonEmpty sg hsg hne
  · intro x hx hp p hpp
    rw [hsegs] at hx
    obtain ⟨sg, hsg, rfl⟩ := mem_map_seg hx
    rw [(hF sg).2.2] at hp
    rw [(hF sg).2.1] at hpp
    rw [htab]
    exact hl.absent sg hsg hp p hpp
  · intro x hx hin p hpp
    rw [hsegs] at hx
    obtain ⟨sg, hsg, rfl⟩ := mem_map_seg hx
    rw [(hF sg).1, hinst] at hin
    rw [(hF sg).2.1] at hpp
    rw [htab]
    exact hl.inst sg hsg hin p hpp

/-- `Kept` when a record is added to the (present) active segment and the groups keep id and
truncation point -/
theorem kept_raftF {s s' : S} (r : RRec) (G : Grp → Grp) (hG : ∀ g, (G g).id = g.id ∧ (G g).trunc = g.trunc)
    (hsegs : s'.segs = s.segs.map (raftF s.active r)) (hgr : s'.grps = s.grps.map G)
    (hs : Shape s) (hk : Kept s) : Kept s' := by
  intro x hx hp r' hr' hlo g' hg' hid
  rw [hsegs] at hx
  obtain ⟨sg, hsg, rfl⟩ := mem_map_seg hx
  rw [raftF_present] at hp
  have hne : sg.id ≠ s.active := by
    intro heq; rw [hs.actPresent hsg heq] at hp; cases hp
  rw [raftF_other r hne] at hr'
  rw [hgr] at hg'
  obtain ⟨g, hg, rfl⟩ := List.mem_map.mp hg'
  rw [(hG g).1] at hid
  rw [(hG g).2]
  exact hk sg hsg hp r' hr' hlo g hg hid

/-! ### entry spans -/

theorem pairwise_snoc {α : Type} {R : α → α → Prop} {l : List α} {a : α}
    (h : l.Pairwise R) (ha : ∀ x ∈ l, R x a) : (l ++ [a]).Pairwise R := by
  rw [List.pairwise_append]
  refine ⟨h, by simp, ?_⟩
  intro x hx y hy
  simp at hy; subst hy; exact ha x hx

theorem takeWhile_imp {α : Type} {p : α → Bool} {l : List α} {x : α} (h : x ∈ l.takeWhile p) : p x = true := by
  induction l with
  | nil => cases h
  | cons a t ih =>
    by_cases ha : p a = true
    · rw [List.takeWhile_cons_of_pos ha] at h
      rcases List.mem_cons.mp h with h1 | h1
      · rw [h1]; exact ha
      · exact ih h1
    · rw [List.takeWhile_cons_of_neg ha] at h; cases h

/-- in an ordered span list, a span ending below `f` is in the kept prefix -/
theorem mem_takeWhile_of_lt {spans : List (Nat × Nat × Nat)} (hok : SpansOK spans) {f : Nat}
    {x : Nat × Nat × Nat} (hx : x ∈ spans) (hlt : x.2.1 < f) :
    x ∈ spans.takeWhile (fun sp => decide (sp.2.1 < f)) := by
  induction spans with
  | nil => cases hx
  | cons a t ih =>
    obtain ⟨hs, hl⟩ := hok
    rw [List.pairwise_cons] at hs
    have hokt : SpansOK t := ⟨hs.2, fun sp hsp => hl sp (by simp [hsp])⟩
    by_cases ha : a.2.1 < f
    · rw [List.takeWhile_cons_of_pos (by simpa using ha)]
      rcases List.mem_cons.mp hx with h1 | h1
      · subst h1; simp
      · exact List.mem_cons_of_mem _ (ih hokt h1)
    · exfalso
      rcases List.mem_cons.mp hx with h1 | h1
      · subst h1; exact ha hlt
      · have h2 := hs.1 x h1
        have h3 := hl x (by simp [h1])
        omega

/-- in an ordered span list, a span that starts below `f` and reaches `f` is the first one cut -/
theorem dropWhile_head {spans : List (Nat × Nat × Nat)} (hok : SpansOK spans) {f : Nat}
    {x : Nat × Nat × Nat} (hx : x ∈ spans) (hlo : x.1 < f) (hhi : f ≤ x.2.1) :
    ∃ rest, spans.dropWhile (fun sp => decide (sp.2.1 < f)) = x :: rest := by
  induction spans with
  | nil => cases hx
  | cons a t ih =>
    obtain ⟨hs, hl⟩ := hok
    rw [List.pairwise_cons] at hs
    have hokt : SpansOK t := ⟨hs.2, fun sp hsp => hl sp (by simp [hsp])⟩
    by_cases ha : a.2.1 < f
    · rw [List.dropWhile_cons_of_pos (by simpa using ha)]
      rcases List.mem_cons.mp hx with h1 | h1
      · subst h1; omega
      · exact ih hokt h1
    · rw [List.dropWhile_cons_of_neg (by simpa using ha)]
      rcases List.mem_cons.mp hx with h1 | h1
      · subst h1; exact ⟨t, rfl⟩
      · exfalso
        have h2 := hs.1 x h1
        omega

theorem mem_addSpan {spans : List (Nat × Nat × Nat)} {f l sg : Nat} {sp' : Nat × Nat × Nat}
    (h : sp' ∈ addSpan spans f l sg) :
    (sp' ∈ spans ∧ sp'.2.1 < f) ∨ (∃ sp ∈ spans, sp.1 < f ∧ sp' = (sp.1, f - 1, sp.2.2)) ∨ sp' = (f, l, sg) := by
  unfold addSpan at h
  rcases List.mem_append.mp h with h1 | h1
  · rcases List.mem_append.mp h1 with h2 | h2
    · left
      refine ⟨(List.takeWhile_sublist _).subset h2, ?_⟩
      have := takeWhile_imp h2
      simpa using this
    · right; left
      cases hd : spans.dropWhile (fun sp => decide (sp.2.1 < f)) with
      | nil => rw [hd] at h2; cases h2
      | cons sp rest =>
        rw [hd] at h2
        simp only at h2
        have hspm : sp ∈ spans := (List.dropWhile_sublist _).subset (by rw [hd]; simp)
        split at h2
        · rename_i hlt
          simp at h2
          exact ⟨sp, hspm, hlt, h2⟩
        · cases h2
  · right; right; simpa using h1

theorem addSpan_ok {spans : List (Nat × Nat × Nat)} (hok : SpansOK spans) {f l sg : Nat} (hfl : f ≤ l) :
    SpansOK (addSpan spans f l sg) := by
  obtain ⟨hs, hl⟩ := hok
  have hdecomp := List.takeWhile_append_dropWhile (p := fun sp : Nat × Nat × Nat => decide (sp.2.1 < f)) (l := spans)
  have htw : ∀ x ∈ spans.takeWhile (fun sp => decide (sp.2.1 < f)), x.2.1 < f := by
    intro x hx
    have := takeWhile_imp hx
    simpa using this
  have hstw : (spans.takeWhile (fun sp => decide (sp.2.1 < f))).Pairwise (fun a b => a.2.1 < b.1) :=
    List.Pairwise.sublist (List.takeWhile_sublist _) hs
  unfold addSpan
  cases hd : spans.dropWhile (fun sp => decide (sp.2.1 < f)) with
  | nil =>
    simp only [List.append_nil]
    refine ⟨pairwise_snoc hstw (fun x hx => htw x hx), ?_⟩
    intro sp hsp
    rcases List.mem_append.mp hsp with h1 | h1
    · exact hl sp ((List.takeWhile_sublist _).subset h1)
    · simp at h1; subst h1; exact hfl
  | cons sp rest =>
    have hspm : sp ∈ spans := (List.dropWhile_sublist _).subset (by rw [hd]; simp)
    have hbefore : ∀ x ∈ spans.takeWhile (fun sp => decide (sp.2.1 < f)), x.2.1 < sp.1 := by
      intro x hx
      rw [← hdecomp, hd, List.pairwise_append] at hs
      exact hs.2.2 x hx sp (by simp)
    simp only
    split
    · rename_i hlt
      refine ⟨?_, ?_⟩
      · apply pairwise_snoc
        · exact pairwise_snoc hstw (fun x hx => hbefore x hx)
        · intro x hx
          rcases List.mem_append.mp hx with h1 | h1
          · exact htw x h1
          · simp at h1; subst h1; show f - 1 < f; omega
      · intro x hx
        rcases List.mem_append.mp hx with h1 | h1
        · rcases List.mem_append.mp h1 with h2 | h2
          · exact hl x ((List.takeWhile_sublist _).subset h2)
          · simp at h2; subst h2; show sp.1 ≤ f - 1; omega
        · simp at h1; subst h1; exact hfl
    · simp only [List.append_nil]
      refine ⟨pairwise_snoc hstw (fun x hx => htw x hx), ?_⟩
      intro x hx
      rcases List.mem_append.mp hx with h1 | h1
      · exact hl x ((List.takeWhile_sublist _).subset h1)
      · simp at h1; subst h1; exact hfl

/-- an index below the new batch that was covered stays covered -/
theorem addSpan_cover_old {spans : List (Nat × Nat × Nat)} (hok : SpansOK spans) {f l sg i : Nat}
    (hi : i < f) (hc : Covered spans i) : Covered (addSpan spans f l sg) i := by
  obtain ⟨sp, hsp, h1, h2⟩ := hc
  by_cases hlt : sp.2.1 < f
  · refine ⟨sp, ?_, h1, h2⟩
    unfold addSpan
    exact List.mem_append.mpr (Or.inl (List.mem_append.mpr (Or.inl (mem_takeWhile_of_lt hok hsp hlt))))
  · obtain ⟨rest, hd⟩ := dropWhile_head (f := f) hok hsp (by omega) (by omega)
    refine ⟨(sp.1, f - 1, sp.2.2), ?_, h1, by show i ≤ f - 1; omega⟩
    unfold addSpan
    rw [hd]
    have hlo : sp.1 < f := by omega
    simp [hlo]

theorem addSpan_cover_new (spans : List (Nat × Nat × Nat)) {f l sg i : Nat} (h1 : f ≤ i) (h2 : i ≤ l) :
    Covered (addSpan spans f l sg) i := by
  refine ⟨(f, l, sg), ?_, h1, h2⟩
  unfold addSpan
  exact List.mem_append.mpr (Or.inr (by simp))

/-! ### rover (append, possibly rewriting the tail) -/

def roverF (act start n : Nat) (g : Grp) : Grp :=
  { g with last := start + n - 1, ptrSeg := act, spans := addSpan g.spans start (start + n - 1) act }

def cutE (gid start : Nat) (e : Nat × List RRec) : Nat × List RRec := (e.1, e.2.map (cutR gid start))

theorem cutR_props (gid start : Nat) (r : RRec) :
    (cutR gid start r).g = r.g ∧ (cutR gid start r).lo = r.lo ∧ (cutR gid start r).hi = r.hi ∧
    (cutR gid start r).lhi ≤ r.lhi ∧ (r.g = gid → r.lo ≠ 0 → (cutR gid start r).lhi ≤ start - 1) := by
  unfold cutR
  split
  · refine ⟨rfl, rfl, rfl, Nat.min_le_left _ _, fun _ _ => Nat.min_le_right _ _⟩
  · rename_i hc
    refine ⟨rfl, rfl, rfl, Nat.le_refl _, ?_⟩
    intro hg hlo
    exfalso; apply hc; simp [hg, hlo]

theorem recLt_cut (gid start : Nat) {a b : RRec} (h : RecLt a b) : RecLt (cutR gid start a) (cutR gid start b) := by
  intro h1 h2 h3
  obtain ⟨ga, la, _, lha, _⟩ := cutR_props gid start a
  obtain ⟨gb, lb, _, _, _⟩ := cutR_props gid start b
  rw [la] at h1; rw [lb] at h2 ⊢; rw [ga, gb] at h3
  have := h h1 h2 h3
  omega

theorem skel_rover (gid start act : Nat) (r : RRec) (segs : List Segm) :
    skel ((segs.map (cutF gid start)).map (raftF act r)) = (skel segs).map (fun e => addRec act r (cutE gid start e)) := by
  unfold skel
  rw [List.map_map, List.map_map, List.map_map]
  apply List.map_congr_left
  intro sg _
  simp only [Function.comp, raftF, addRec, cutF, cutE]
  by_cases hc : (sg.id == act) = true <;> simp [hc]

theorem mem_rover_rec {gid start act : Nat} {r r' : RRec} {e : Nat × List RRec}
    (h : r' ∈ (addRec act r (cutE gid start e)).2) :
    (∃ r0 ∈ e.2, r' = cutR gid start r0) ∨ (e.1 = act ∧ r' = r) := by
  rcases mem_addRec h with h1 | ⟨h1, h2⟩
  · left
    obtain ⟨r0, hr0, rfl⟩ := List.mem_map.mp (show r' ∈ e.2.map (cutR gid start) from h1)
    exact ⟨r0, hr0, rfl⟩
  · right; exact ⟨h1, h2⟩

theorem raftInv_rover {sk : Sk} {grps : List Grp} {act : Nat} (h : RaftInv sk grps act) (hpos : 0 < act)
    (hactE : ∃ e ∈ sk, e.1 = act) {g0 : Grp} (hg0 : g0 ∈ grps) (start n : Nat) (hn : n ≠ 0)
    (hb : g0.base < start) (hl : start ≤ g0.last + 1) :
    RaftInv (sk.map (fun e => addRec act ⟨g0.id, start, start + n - 1, start + n - 1⟩ (cutE g0.id start e)))
      (grps.map (grpF g0.id (roverF act start n))) act := by
  have hGid : ∀ g, (grpF g0.id (roverF act start n) g).id = g.id := by
    intro g; unfold grpF; split <;> rfl
  have hGtr : ∀ g, (grpF g0.id (roverF act start n) g).trunc = g.trunc := by
    intro g; unfold grpF; split <;> rfl
  have hGsi : ∀ g, (grpF g0.id (roverF act start n) g).segIndex = g.segIndex := by
    intro g; unfold grpF; split <;> rfl
  have hGop : ∀ g, (grpF g0.id (roverF act start n) g).openOK = g.openOK := by
    intro g; unfold grpF; split <;> rfl
  have hGbase : ∀ g, (grpF g0.id (roverF act start n) g).base = g.base := by
    intro g; unfold grpF; split <;> rfl
  have hGptr : ∀ g, (grpF g0.id (roverF act start n) g).ptrSeg = act ∨
      (grpF g0.id (roverF act start n) g).ptrSeg = g.ptrSeg := by
    intro g; unfold grpF; split
    · left; rfl
    · right; rfl
  have hsame : ∀ g ∈ grps, g.id = g0.id → g = g0 := fun g hg hid => h.uniq g hg g0 hg0 hid
  have htr0 : g0.trunc < start := by have := h.baseGe g0 hg0; omega
  have hstart : 1 ≤ start := by omega
  have hF : ∀ e, (addRec act ⟨g0.id, start, start + n - 1, start + n - 1⟩ (cutE g0.id start e)).1 = e.1 := by
    intro e; rw [addRec_fst]; rfl
  refine ⟨uniq_map hGid h.uniq, ?_, ?_, ?_, ?_, ?_, ?_, ?_, ?_, ?_, ?_, ?_, ?_, ?_, ?_⟩
  · -- bound
    intro g' hg'
    obtain ⟨g, hg, rfl⟩ := List.mem_map.mp hg'
    have hbd := h.bound g hg
    rw [hGsi]
    refine ⟨?_, hbd.2⟩
    rcases hGptr g with h1 | h1 <;> rw [h1]
    · exact Nat.le_refl _
    · exact hbd.1
  · intro e' he'
    obtain ⟨e, he, rfl⟩ := List.mem_map.mp he'
    rw [hF]; exact h.idLe e he
  · intro e' he'
    obtain ⟨e, he, rfl⟩ := List.mem_map.mp he'
    rw [hF]; exact h.idPos e he
  · -- ptr
    intro e' he' r' hr' hlo g' hg' hid htr
    obtain ⟨e, he, rfl⟩ := List.mem_map.mp he'
    obtain ⟨g, hg, rfl⟩ := List.mem_map.mp hg'
    rw [hGid] at hid
    rw [hGtr] at htr
    rw [hGsi, hF]
    rcases mem_rover_rec hr' with ⟨r0, hr0, rfl⟩ | ⟨h1, h2⟩
    · obtain ⟨c1, c2, _, c4, _⟩ := cutR_props g0.id start r0
      rw [c2] at hlo; rw [c1] at hid
      obtain ⟨hp, hsi⟩ := h.ptr e he r0 hr0 hlo g hg hid (by omega)
      refine ⟨?_, hsi⟩
      rcases hGptr g with h3 | h3 <;> rw [h3]
      · omega
      · exact hp
    · subst h2
      have hgg : g = g0 := hsame g hg hid
      subst hgg
      refine ⟨?_, ?_⟩
      · rw [grpF_eq rfl]; show act ≠ 0; omega
      · intro _; rw [h1]; exact (h.bound g hg).2
  · -- cross
    intro eA' heA' eB' heB' rA hrA rB hrB hloA hloB hgAB hlt
    obtain ⟨eA, heA, rfl⟩ := List.mem_map.mp heA'
    obtain ⟨eB, heB, rfl⟩ := List.mem_map.mp heB'
    rw [hF, hF] at hlt
    rcases mem_rover_rec hrA with ⟨a0, ha0, rfl⟩ | ⟨h1, _⟩
    · obtain ⟨a1, a2, _, a4, a5⟩ := cutR_props g0.id start a0
      rcases mem_rover_rec hrB with ⟨b0, hb0, rfl⟩ | ⟨_, h4⟩
      · obtain ⟨b1, b2, _, _, _⟩ := cutR_props g0.id start b0
        rw [a2] at hloA; rw [b2] at hloB ⊢; rw [a1, b1] at hgAB
        have := h.cross eA heA eB heB a0 ha0 b0 hb0 hloA hloB hgAB hlt
        omega
      · subst h4
        rw [a2] at hloA; rw [a1] at hgAB
        have := a5 hgAB hloA
        show (cutR g0.id start a0).lhi < start
        omega
    · have := h.idLe eB heB
      omega
  · -- within
    intro e' he'
    obtain ⟨e, he, rfl⟩ := List.mem_map.mp he'
    have hmapped : (e.2.map (cutR g0.id start)).Pairwise RecLt := by
      rw [List.pairwise_map]
      exact (h.within e he).imp (fun hab => recLt_cut g0.id start hab)
    unfold addRec cutE
    simp only
    split
    · apply pairwise_snoc hmapped
      intro x hx hlox _ hgx
      obtain ⟨x0, _, rfl⟩ := List.mem_map.mp hx
      obtain ⟨c1, c2, _, _, c5⟩ := cutR_props g0.id start x0
      rw [c2] at hlox; rw [c1] at hgx
      have := c5 hgx hlox
      show (cutR g0.id start x0).lhi < start
      omega
    · exact hmapped
  · -- leLast
    intro e' he' r' hr' hlo g' hg' hid
    obtain ⟨e, he, rfl⟩ := List.mem_map.mp he'
    obtain ⟨g, hg, rfl⟩ := List.mem_map.mp hg'
    rw [hGid] at hid
    rcases mem_rover_rec hr' with ⟨r0, hr0, rfl⟩ | ⟨_, h2⟩
    · obtain ⟨c1, c2, _, c4, c5⟩ := cutR_props g0.id start r0
      rw [c2] at hlo; rw [c1] at hid
      by_cases hgid : g.id = g0.id
      · have hgg : g = g0 := hsame g hg hgid
        subst hgg
        rw [grpF_eq rfl]
        show (cutR g.id start r0).lhi ≤ start + n - 1
        have := c5 hid.symm hlo
        omega
      · rw [grpF_ne hgid]
        have := h.leLast e he r0 hr0 hlo g hg hid
        omega
    · subst h2
      have hgg : g = g0 := hsame g hg hid
      subst hgg
      rw [grpF_eq rfl]
      exact Nat.le_refl _
  · -- loLe
    intro e' he' r' hr' hlo
    obtain ⟨e, he, rfl⟩ := List.mem_map.mp he'
    rcases mem_rover_rec hr' with ⟨r0, hr0, rfl⟩ | ⟨_, h2⟩
    · obtain ⟨_, c2, c3, _, _⟩ := cutR_props g0.id start r0
      rw [c2] at hlo ⊢; rw [c3]
      exact h.loLe e he r0 hr0 hlo
    · subst h2
      show start ≤ start + n - 1
      omega
  · -- lhiLe
    intro e' he' r' hr' hlo
    obtain ⟨e, he, rfl⟩ := List.mem_map.mp he'
    rcases mem_rover_rec hr' with ⟨r0, hr0, rfl⟩ | ⟨_, h2⟩
    · obtain ⟨_, c2, c3, c4, _⟩ := cutR_props g0.id start r0
      rw [c2] at hlo; rw [c3]
      have := h.lhiLe e he r0 hr0 hlo
      omega
    · subst h2
      exact Nat.le_refl _
  · -- span
    intro g' hg' sp' hsp'
    obtain ⟨g, hg, rfl⟩ := List.mem_map.mp hg'
    rw [hGid]
    have hold : ∀ sp ∈ g.spans, ∃ e ∈ sk.map (fun e => addRec act ⟨g0.id, start, start + n - 1, start + n - 1⟩ (cutE g0.id start e)),
        ∃ r ∈ e.2, e.1 = sp.2.2 ∧ r.g = g.id ∧ r.lo ≠ 0 ∧ r.lo ≤ sp.1 := by
      intro sp hsp
      obtain ⟨e, he, r, hr, h1, h2, h3, h4⟩ := h.span g hg sp hsp
      obtain ⟨c1, c2, _, _, _⟩ := cutR_props g0.id start r
      refine ⟨_, List.mem_map.mpr ⟨e, he, rfl⟩, cutR g0.id start r, ?_, ?_, ?_, ?_, ?_⟩
      · apply mem_addRec_of_mem
        exact List.mem_map.mpr ⟨r, hr, rfl⟩
      · rw [hF]; exact h1
      · rw [c1]; exact h2
      · rw [c2]; exact h3
      · rw [c2]; exact h4
    by_cases hid : g.id = g0.id
    · rw [grpF_eq hid] at hsp'
      rcases mem_addSpan (show sp' ∈ addSpan g.spans start (start + n - 1) act from hsp') with ⟨h1, _⟩ | ⟨sp, hsp, _, rfl⟩ | rfl
      · exact hold sp' h1
      · obtain ⟨e, he, r, hr, h1, h2, h3, h4⟩ := hold sp hsp
        exact ⟨e, he, r, hr, h1, h2, h3, h4⟩
      · obtain ⟨e, he, hea⟩ := hactE
        refine ⟨_, List.mem_map.mpr ⟨e, he, rfl⟩, _, mem_addRec_new (show (cutE g0.id start e).1 = act from hea), ?_⟩
        rw [hF]
        exact ⟨hea, hid.symm, by show start ≠ 0; omega, Nat.le_refl _⟩
    · rw [grpF_ne hid] at hsp'
      exact hold sp' hsp'
  · -- spansOK
    intro g' hg'
    obtain ⟨g, hg, rfl⟩ := List.mem_map.mp hg'
    by_cases hid : g.id = g0.id
    · rw [grpF_eq hid]
      exact addSpan_ok (h.spansOK g hg) (by omega)
    · rw [grpF_ne hid]; exact h.spansOK g hg
  · -- untr
    intro g' hg' hsi
    obtain ⟨g, hg, rfl⟩ := List.mem_map.mp hg'
    rw [hGsi] at hsi; rw [hGtr]
    exact h.untr g hg hsi
  · -- baseGe
    intro g' hg'
    obtain ⟨g, hg, rfl⟩ := List.mem_map.mp hg'
    rw [hGtr, hGbase]; exact h.baseGe g hg
  · -- cover
    intro g' hg' hop hsi i hi0 hhi
    obtain ⟨g, hg, rfl⟩ := List.mem_map.mp hg'
    rw [hGop] at hop
    rw [hGsi] at hsi
    by_cases hid : g.id = g0.id
    · have hgg : g = g0 := hsame g hg hid
      subst hgg
      rw [grpF_eq rfl] at hhi ⊢
      have hhi' : i ≤ start + n - 1 := hhi
      show Covered (addSpan g.spans start (start + n - 1) act) i
      by_cases his : i < start
      · exact addSpan_cover_old (h.spansOK g hg) his (h.cover g hg hop hsi i hi0 (by omega))
      · exact addSpan_cover_new _ (by omega) hhi'
    · rw [grpF_ne hid] at hhi ⊢
      exact h.cover g hg hop hsi i hi0 hhi

theorem active_in_skel {s : S} (hs : Shape s) : ∃ e ∈ skel s.segs, e.1 = s.active := by
  obtain ⟨pre, a, hsg, hid, _⟩ := hs.lastAct
  have ha : a ∈ s.segs := by rw [hsg]; simp
  exact ⟨(a.id, a.raft), mem_skel ha, hid⟩

def roverSegF (gid start act : Nat) (r : RRec) (sg : Segm) : Segm := raftF act r (cutF gid start sg)

theorem roverSegF_props (gid start act : Nat) (r : RRec) (sg : Segm) :
    (roverSegF gid start act r sg).id = sg.id ∧ (roverSegF gid start act r sg).puts = sg.puts ∧
    (roverSegF gid start act r sg).present = sg.present := by
  unfold roverSegF
  rw [raftF_id, raftF_puts, raftF_present]
  exact ⟨rfl, rfl, rfl⟩

def roverSt (s : S) (gid start n : Nat) : S :=
  { s with
      segs := modSeg (s.segs.map (cutF gid start)) s.active
        (fun sg => { sg with raft := sg.raft ++ [⟨gid, start, start + n - 1, start + n - 1⟩] }),
      grps := modGrp s.grps gid (fun g =>
        { g with last := start + n - 1, ptrSeg := s.active,
                 spans := addSpan g.spans start (start + n - 1) s.active }) }

theorem inv_rover (s : S) (gid start n : Nat) (h : Inv s) : Inv (rover s gid start n).1 := by
  unfold rover
  split
  · exact h
  · rename_i g hfind
    obtain ⟨hg, hid⟩ := find_grp hfind
    subst hid
    split
    · exact h
    · split
      · exact h
      · rename_i hn
        split
        · exact h
        · rename_i hcond
          have hb : g.base < start := by omega
          have hl : start ≤ g.last + 1 := by omega
          obtain ⟨hs, hlm, hk, hr⟩ := h
          have hsegs : modSeg (s.segs.map (cutF g.id start)) s.active
                (fun sg => { sg with raft := sg.raft ++ [⟨g.id, start, start + n - 1, start + n - 1⟩] }) =
              s.segs.map (roverSegF g.id start s.active ⟨g.id, start, start + n - 1, start + n - 1⟩) := by
            show (s.segs.map (cutF g.id start)).map (raftF s.active _) = _
            rw [List.map_map]; rfl
          show Inv (roverSt s g.id start n)
          have hsl := shape_lsm_map (s := s) (s' := roverSt s g.id start n)
            (roverSegF g.id start s.active ⟨g.id, start, start + n - 1, start + n - 1⟩)
            (fun sg => roverSegF_props _ _ _ _ sg) hsegs rfl rfl rfl rfl rfl hs hlm
          refine ⟨hsl.1, hsl.2, ?_, ?_⟩
          · -- Kept
            intro x hx hp r' hr' hlo g' hg' hid'
            have hx' : x ∈ s.segs.map (roverSegF g.id start s.active ⟨g.id, start, start + n - 1, start + n - 1⟩) := by
              rw [← hsegs]; exact hx
            obtain ⟨sg, hsg, rfl⟩ := mem_map_seg hx'
            rw [(roverSegF_props _ _ _ _ sg).2.2] at hp
            have hne : sg.id ≠ s.active := by
              intro heq; rw [hs.actPresent hsg heq] at hp; cases hp
            have hraft : (roverSegF g.id start s.active ⟨g.id, start, start + n - 1, start + n - 1⟩ sg).raft =
                sg.raft.map (cutR g.id start) := by
              unfold roverSegF
              rw [raftF_other _ (show (cutF g.id start sg).id ≠ s.active from hne)]
              rfl
            rw [hraft] at hr'
            obtain ⟨r0, hr0, rfl⟩ := List.mem_map.mp hr'
            obtain ⟨c1, c2, _, c4, _⟩ := cutR_props g.id start r0
            rw [c2] at hlo; rw [c1] at hid'
            obtain ⟨g1, hg1, rfl⟩ := List.mem_map.mp (show g' ∈ s.grps.map (grpF g.id (roverF s.active start n)) from hg')
            have hid1 : (grpF g.id (roverF s.active start n) g1).id = g1.id := by unfold grpF; split <;> rfl
            have htr1 : (grpF g.id (roverF s.active start n) g1).trunc = g1.trunc := by unfold grpF; split <;> rfl
            rw [hid1] at hid'
            rw [htr1]
            have := hk sg hsg hp r0 hr0 hlo g1 hg1 hid'
            omega
          · have key := raftInv_rover hr hs.actPos (active_in_skel hs) hg start n hn hb hl
            rw [← skel_rover] at key
            exact key

theorem inv_rapp (s : S) (gid n : Nat) (h : Inv s) : Inv (rapp s gid n).1 := by
  unfold rapp
  split
  · exact h
  · exact inv_rover s gid _ n h

/-! ### rhs -/

def rhsF (act : Nat) (g : Grp) : Grp := { g with ptrSeg := act }

theorem raftInv_rhs {sk : Sk} {grps : List Grp} {act : Nat} (h : RaftInv sk grps act) (hpos : 0 < act)
    (gid : Nat) : RaftInv (sk.map (addRec act ⟨gid, 0, 0, 0⟩)) (grps.map (grpF gid (rhsF act))) act := by
  have hG : ∀ g, (grpF gid (rhsF act) g).id = g.id ∧ (grpF gid (rhsF act) g).trunc = g.trunc ∧
      (grpF gid (rhsF act) g).segIndex = g.segIndex ∧ (grpF gid (rhsF act) g).openOK = g.openOK ∧
      (grpF gid (rhsF act) g).last = g.last ∧ (grpF gid (rhsF act) g).spans = g.spans ∧
      (grpF gid (rhsF act) g).base = g.base ∧
      ((grpF gid (rhsF act) g).ptrSeg = act ∨ (grpF gid (rhsF act) g).ptrSeg = g.ptrSeg) := by
    intro g; unfold grpF; split
    · exact ⟨rfl, rfl, rfl, rfl, rfl, rfl, rfl, Or.inl rfl⟩
    · exact ⟨rfl, rfl, rfl, rfl, rfl, rfl, rfl, Or.inr rfl⟩
  have hold : ∀ {r' : RRec} {e : Nat × List RRec}, r' ∈ (addRec act ⟨gid, 0, 0, 0⟩ e).2 → r'.lo ≠ 0 → r' ∈ e.2 := by
    intro r' e hr' hlo
    rcases mem_addRec hr' with h1 | ⟨_, h2⟩
    · exact h1
    · subst h2; exact absurd rfl hlo
  refine ⟨uniq_map (fun g => (hG g).1) h.uniq, ?_, ?_, ?_, ?_, ?_, ?_, ?_, ?_, ?_, ?_, ?_, ?_, ?_, ?_⟩
  · intro g' hg'
    obtain ⟨g, hg, rfl⟩ := List.mem_map.mp hg'
    have hb := h.bound g hg
    rw [(hG g).2.2.1]
    refine ⟨?_, hb.2⟩
    rcases (hG g).2.2.2.2.2.2.2 with h1 | h1 <;> rw [h1]
    · exact Nat.le_refl _
    · exact hb.1
  · intro e' he'
    obtain ⟨e, he, rfl⟩ := List.mem_map.mp he'
    rw [addRec_fst]; exact h.idLe e he
  · intro e' he'
    obtain ⟨e, he, rfl⟩ := List.mem_map.mp he'
    rw [addRec_fst]; exact h.idPos e he
  · intro e' he' r' hr' hlo g' hg' hid htr
    obtain ⟨e, he, rfl⟩ := List.mem_map.mp he'
    obtain ⟨g, hg, rfl⟩ := List.mem_map.mp hg'
    rw [(hG g).1] at hid
    rw [(hG g).2.1] at htr
    rw [(hG g).2.2.1, addRec_fst]
    obtain ⟨hp, hsi⟩ := h.ptr e he r' (hold hr' hlo) hlo g hg hid htr
    refine ⟨?_, hsi⟩
    rcases (hG g).2.2.2.2.2.2.2 with h3 | h3 <;> rw [h3]
    · omega
    · exact hp
  · intro eA' heA' eB' heB' rA hrA rB hrB hloA hloB hgAB hlt
    obtain ⟨eA, heA, rfl⟩ := List.mem_map.mp heA'
    obtain ⟨eB, heB, rfl⟩ := List.mem_map.mp heB'
    rw [addRec_fst, addRec_fst] at hlt
    exact h.cross eA heA eB heB rA (hold hrA hloA) rB (hold hrB hloB) hloA hloB hgAB hlt
  · intro e' he'
    obtain ⟨e, he, rfl⟩ := List.mem_map.mp he'
    unfold addRec
    split
    · apply pairwise_snoc (h.within e he)
      intro x _ _ hlo2 _
      exact absurd rfl hlo2
    · exact h.within e he
  · intro e' he' r' hr' hlo g' hg' hid
    obtain ⟨e, he, rfl⟩ := List.mem_map.mp he'
    obtain ⟨g, hg, rfl⟩ := List.mem_map.mp hg'
    rw [(hG g).1] at hid
    rw [(hG g).2.2.2.2.1]
    exact h.leLast e he r' (hold hr' hlo) hlo g hg hid
  · intro e' he' r' hr' hlo
    obtain ⟨e, he, rfl⟩ := List.mem_map.mp he'
    exact h.loLe e he r' (hold hr' hlo) hlo
  · intro e' he' r' hr' hlo
    obtain ⟨e, he, rfl⟩ := List.mem_map.mp he'
    exact h.lhiLe e he r' (hold hr' hlo) hlo
  · intro g' hg' sp hsp
    obtain ⟨g, hg, rfl⟩ := List.mem_map.mp hg'
    rw [(hG g).2.2.2.2.2.1] at hsp
    rw [(hG g).1]
    obtain ⟨e, he, r, hr, hrest⟩ := h.span g hg sp hsp
    refine ⟨addRec act _ e, List.mem_map.mpr ⟨e, he, rfl⟩, r, mem_addRec_of_mem hr, ?_⟩
    rw [addRec_fst]; exact hrest
  · intro g' hg'
    obtain ⟨g, hg, rfl⟩ := List.mem_map.mp hg'
    rw [(hG g).2.2.2.2.2.1]; exact h.spansOK g hg
  · intro g' hg' hsi
    obtain ⟨g, hg, rfl⟩ := List.mem_map.mp hg'
    rw [(hG g).2.2.1] at hsi; rw [(hG g).2.1]
    exact h.untr g hg hsi
  · intro g' hg'
    obtain ⟨g, hg, rfl⟩ := List.mem_map.mp hg'
    rw [(hG g).2.1, (hG g).2.2.2.2.2.2.1]; exact h.baseGe g hg
  · intro g' hg' hop hsi i hi0 hhi
    obtain ⟨g, hg, rfl⟩ := List.mem_map.mp hg'
    rw [(hG g).2.2.2.1] at hop
    rw [(hG g).2.2.1] at hsi
    rw [(hG g).2.2.2.2.1] at hhi
    rw [(hG g).2.2.2.2.2.1]
    exact h.cover g hg hop hsi i hi0 hhi

theorem kept_raftF0 {s s' : S} (r : RRec) (G : Grp → Grp) (hG : ∀ g, (G g).id = g.id ∧ (G g).trunc = g.trunc)
    (hsegs : s'.segs = s.segs.map (raftF s.active r)) (hgr : s'.grps = s.grps.map G)
    (hs : Shape s) (hk : Kept s) : Kept s' := kept_raftF r G hG hsegs hgr hs hk

theorem inv_rhs (s : S) (gid : Nat) (h : Inv s) : Inv (rhs s gid).1 := by
  unfold rhs
  split
  · exact h
  · split
    · exact h
    · obtain ⟨hs, hl, hk, hr⟩ := h
      have hsl := shape_lsm_map (s := s)
        (s' := { s with segs := s.segs.map (raftF s.active ⟨gid, 0, 0, 0⟩),
                        grps := s.grps.map (grpF gid (rhsF s.active)) })
        (raftF s.active ⟨gid, 0, 0, 0⟩)
        (fun sg => ⟨raftF_id _ _ sg, raftF_puts _ _ sg, raftF_present _ _ sg⟩) rfl rfl rfl rfl rfl rfl hs hl
      refine ⟨hsl.1, hsl.2, ?_, ?_⟩
      · refine kept_raftF (s := s) ⟨gid, 0, 0, 0⟩ (grpF gid (rhsF s.active)) ?_ rfl rfl hs hk
        intro x; unfold grpF; split <;> exact ⟨rfl, rfl⟩
      · show RaftInv (skel (s.segs.map (raftF s.active ⟨gid, 0, 0, 0⟩)))
          (s.grps.map (grpF gid (rhsF s.active))) s.active
        rw [skel_raftF]
        exact raftInv_rhs hr hs.actPos gid

/-! ### rtrunc -/

def pruneOne (k : Nat) (sp : Nat × Nat × Nat) : Nat × Nat × Nat := if sp.1 ≤ k then (k + 1, sp.2.1, sp.2.2) else sp

theorem pruneSpans_eq (spans : List (Nat × Nat × Nat)) (k : Nat) :
    pruneSpans spans k = (spans.filter (fun sp => decide (k < sp.2.1))).map (pruneOne k) := rfl

theorem pruneOne_props (k : Nat) (sp : Nat × Nat × Nat) :
    (pruneOne k sp).2.1 = sp.2.1 ∧ (pruneOne k sp).2.2 = sp.2.2 ∧ sp.1 ≤ (pruneOne k sp).1 ∧
      ((pruneOne k sp).1 = sp.1 ∨ (pruneOne k sp).1 = k + 1) := by
  unfold pruneOne
  split
  · exact ⟨rfl, rfl, by simp only; omega, Or.inr rfl⟩
  · exact ⟨rfl, rfl, Nat.le_refl _, Or.inl rfl⟩

theorem mem_pruneSpans {spans : List (Nat × Nat × Nat)} {k : Nat} {sp' : Nat × Nat × Nat}
    (h : sp' ∈ pruneSpans spans k) : ∃ sp ∈ spans, k < sp.2.1 ∧ sp' = pruneOne k sp := by
  rw [pruneSpans_eq] at h
  obtain ⟨sp, hsp, rfl⟩ := List.mem_map.mp h
  rw [List.mem_filter] at hsp
  exact ⟨sp, hsp.1, by simpa using hsp.2, rfl⟩

theorem pruneSpans_mem {spans : List (Nat × Nat × Nat)} {k : Nat} {sp : Nat × Nat × Nat}
    (h : sp ∈ spans) (hk : k < sp.2.1) : pruneOne k sp ∈ pruneSpans spans k := by
  rw [pruneSpans_eq]
  exact List.mem_map.mpr ⟨sp, List.mem_filter.mpr ⟨h, by simpa using hk⟩, rfl⟩

theorem pruneSpans_ok {spans : List (Nat × Nat × Nat)} (hok : SpansOK spans) (k : Nat) :
    SpansOK (pruneSpans spans k) := by
  obtain ⟨hs, hl⟩ := hok
  refine ⟨?_, ?_⟩
  · rw [pruneSpans_eq, List.pairwise_map]
    refine (List.Pairwise.filter _ hs).imp ?_
    intro a b hab
    obtain ⟨a1, _, _, _⟩ := pruneOne_props k a
    obtain ⟨_, _, b3, _⟩ := pruneOne_props k b
    rw [a1]; omega
  · intro sp' hsp'
    obtain ⟨sp, hsp, hk, rfl⟩ := mem_pruneSpans hsp'
    obtain ⟨p1, _, _, p4⟩ := pruneOne_props k sp
    have := hl sp hsp
    rw [p1]
    rcases p4 with p4 | p4 <;> rw [p4] <;> omega

theorem pruneSpans_cover {spans : List (Nat × Nat × Nat)} {k i : Nat} (hki : k < i) (hc : Covered spans i) :
    Covered (pruneSpans spans k) i := by
  obtain ⟨sp, hsp, h1, h2⟩ := hc
  obtain ⟨p1, _, _, p4⟩ := pruneOne_props k sp
  refine ⟨pruneOne k sp, pruneSpans_mem hsp (by omega), ?_, by rw [p1]; exact h2⟩
  rcases p4 with p4 | p4 <;> rw [p4] <;> omega

def rtruncF (k sgm : Nat) (g : Grp) : Grp :=
  { g with base := max g.base k, trunc := k, segIndex := sgm, spans := pruneSpans g.spans k }

/-- the segment `compactTo(k)` records -/
def truncSeg (g0 : Grp) (k : Nat) : Nat :=
  match spanSeg g0.spans k with
  | some x => x
  | none => if g0.segIndex ≠ 0 then g0.segIndex else g0.ptrSeg

/-- the recorded truncation segment is a real one and is not above any segment that still holds
a live entry of the group above `k` -/
theorem truncSeg_sound {sk : Sk} {grps : List Grp} {act : Nat} (h : RaftInv sk grps act) {g0 : Grp}
    (hg0 : g0 ∈ grps) (hop : g0.openOK = true) {k : Nat} (hk1 : g0.trunc < k) (hk2 : k ≤ g0.last)
    (hptr : g0.ptrSeg ≠ 0) :
    truncSeg g0 k ≠ 0 ∧ truncSeg g0 k ≤ act ∧
    ∀ e ∈ sk, ∀ r ∈ e.2, r.lo ≠ 0 → r.g = g0.id → k < r.lhi → truncSeg g0 k ≤ e.1 := by
  unfold truncSeg spanSeg
  cases hf : g0.spans.find? (fun sp => decide (sp.1 ≤ k) && decide (k ≤ sp.2.1)) with
  | some sp1 =>
    have hmem := List.mem_of_find?_eq_some hf
    have hp := List.find?_some hf
    simp only [Bool.and_eq_true, decide_eq_true_eq] at hp
    obtain ⟨e0, he0, r0, hr0, he0id, hr0g, hr0lo, hr0le⟩ := h.span g0 hg0 sp1 hmem
    simp only [Option.map_some]
    refine ⟨?_, ?_, ?_⟩
    · rw [← he0id]; have := h.idPos e0 he0; omega
    · rw [← he0id]; exact h.idLe e0 he0
    · intro e he r hr hlo hg hlt
      rw [← he0id]
      rcases Nat.lt_or_ge e.1 e0.1 with hlt2 | hge
      · exfalso
        have := h.cross e he e0 he0 r hr r0 hr0 hlo hr0lo (by rw [hg, hr0g]) hlt2
        omega
      · exact hge
  | none =>
    simp only [Option.map_none]
    by_cases hsi : g0.segIndex = 0
    · exfalso
      have htr := h.untr g0 hg0 hsi
      obtain ⟨sp0, hsp0, ha, hb⟩ := h.cover g0 hg0 hop hsi k (by omega) hk2
      rw [List.find?_eq_none] at hf
      have := hf sp0 hsp0
      simp [ha, hb] at this
    · have hne : g0.segIndex ≠ 0 := hsi
      rw [if_pos hne]
      refine ⟨hsi, (h.bound g0 hg0).2, ?_⟩
      intro e he r hr hlo hg hlt
      exact (h.ptr e he r hr hlo g0 hg0 hg.symm (by omega)).2 hsi

theorem raftInv_rtrunc {sk : Sk} {grps : List Grp} {act : Nat} (h : RaftInv sk grps act) {g0 : Grp}
    (hg0 : g0 ∈ grps) (hop : g0.openOK = true) {k : Nat} (hk1 : g0.trunc < k) (hk2 : k ≤ g0.last)
    (hptr : g0.ptrSeg ≠ 0) :
    RaftInv sk (grps.map (grpF g0.id (rtruncF k (truncSeg g0 k)))) act := by
  have hGid : ∀ g, (grpF g0.id (rtruncF k (truncSeg g0 k)) g).id = g.id := by
    intro g; unfold grpF; split <;> rfl
  have hGlast : ∀ g, (grpF g0.id (rtruncF k (truncSeg g0 k)) g).last = g.last := by
    intro g; unfold grpF; split <;> rfl
  have hGop : ∀ g, (grpF g0.id (rtruncF k (truncSeg g0 k)) g).openOK = g.openOK := by
    intro g; unfold grpF; split <;> rfl
  have hGptr : ∀ g, (grpF g0.id (rtruncF k (truncSeg g0 k)) g).ptrSeg = g.ptrSeg := by
    intro g; unfold grpF; split <;> rfl
  have hsame : ∀ g ∈ grps, g.id = g0.id → g = g0 := fun g hg hid => h.uniq g hg g0 hg0 hid
  obtain ⟨hts0, htsle, htsound⟩ := truncSeg_sound h hg0 hop hk1 hk2 hptr
  refine ⟨uniq_map hGid h.uniq, ?_, h.idLe, h.idPos, ?_, h.cross, h.within, ?_, h.loLe, h.lhiLe, ?_, ?_, ?_, ?_, ?_⟩
  · -- bound
    intro g' hg'
    obtain ⟨g, hg, rfl⟩ := List.mem_map.mp hg'
    have hb := h.bound g hg
    rw [hGptr]
    refine ⟨hb.1, ?_⟩
    by_cases hid : g.id = g0.id
    · rw [grpF_eq hid]; exact htsle
    · rw [grpF_ne hid]; exact hb.2
  · -- ptr
    intro e he r hr hlo g' hg' hid htr
    obtain ⟨g, hg, rfl⟩ := List.mem_map.mp hg'
    rw [hGid] at hid
    rw [hGptr]
    by_cases hgid : g.id = g0.id
    · have hgg : g = g0 := hsame g hg hgid
      subst hgg
      rw [grpF_eq rfl] at htr ⊢
      have htr' : k < r.lhi := htr
      exact ⟨hptr, fun _ => htsound e he r hr hlo hid.symm htr'⟩
    · rw [grpF_ne hgid] at htr ⊢
      exact h.ptr e he r hr hlo g hg hid htr
  · -- leLast
    intro e he r hr hlo g' hg' hid
    obtain ⟨g, hg, rfl⟩ := List.mem_map.mp hg'
    rw [hGid] at hid
    rw [hGlast]
    exact h.leLast e he r hr hlo g hg hid
  · -- span
    intro g' hg' sp' hsp'
    obtain ⟨g, hg, rfl⟩ := List.mem_map.mp hg'
    rw [hGid]
    by_cases hgid : g.id = g0.id
    · rw [grpF_eq hgid] at hsp'
      obtain ⟨sp, hsp, _, rfl⟩ := mem_pruneSpans (show sp' ∈ pruneSpans g.spans k from hsp')
      obtain ⟨e, he, r, hr, h1, h2, h3, h4⟩ := h.span g hg sp hsp
      obtain ⟨_, p2, p3, _⟩ := pruneOne_props k sp
      exact ⟨e, he, r, hr, by rw [p2]; exact h1, h2, h3, by omega⟩
    · rw [grpF_ne hgid] at hsp'
      exact h.span g hg sp' hsp'
  · -- spansOK
    intro g' hg'
    obtain ⟨g, hg, rfl⟩ := List.mem_map.mp hg'
    by_cases hgid : g.id = g0.id
    · rw [grpF_eq hgid]; exact pruneSpans_ok (h.spansOK g hg) k
    · rw [grpF_ne hgid]; exact h.spansOK g hg
  · -- untr
    intro g' hg' hsi
    obtain ⟨g, hg, rfl⟩ := List.mem_map.mp hg'
    by_cases hgid : g.id = g0.id
    · rw [grpF_eq hgid] at hsi
      exact absurd hsi hts0
    · rw [grpF_ne hgid] at hsi ⊢
      exact h.untr g hg hsi
  · -- baseGe
    intro g' hg'
    obtain ⟨g, hg, rfl⟩ := List.mem_map.mp hg'
    by_cases hgid : g.id = g0.id
    · rw [grpF_eq hgid]
      show k ≤ max g.base k
      omega
    · rw [grpF_ne hgid]; exact h.baseGe g hg
  · -- cover
    intro g' hg' hop' hsi i hi0 hhi
    obtain ⟨g, hg, rfl⟩ := List.mem_map.mp hg'
    by_cases hgid : g.id = g0.id
    · rw [grpF_eq hgid] at hsi
      exact absurd hsi hts0
    · rw [grpF_ne hgid] at hop' hsi hhi ⊢
      exact h.cover g hg hop' hsi i hi0 hhi

theorem inv_rtrunc (s : S) (gid k : Nat) (h : Inv s) : Inv (rtrunc s gid k).1 := by
  unfold rtrunc
  split
  · exact h
  · rename_i g hfind
    obtain ⟨hg, hid⟩ := find_grp hfind
    subst hid
    split
    · exact h
    · rename_i hop
      split
      · exact h
      · rename_i hk
        split
        · exact h
        · rename_i hlast
          split
          · exact h
          · rename_i hptr
            obtain ⟨hs, hl, hk', hr⟩ := h
            have hop' : g.openOK = true := by simpa using hop
            have hk1 : g.trunc < k := by omega
            have hk2 : k ≤ g.last := by omega
            refine ⟨⟨hs.sorted, hs.lastAct, hs.actPos, hs.actNext, hs.immLt, hs.instLt, hs.nonEmpty⟩,
              ⟨hl.absent, hl.inst⟩, ?_, ?_⟩
            · intro sg hsg hp r hr' hlo g' hg' hgid
              obtain ⟨g1, hg1, rfl⟩ := List.mem_map.mp (show g' ∈ s.grps.map (grpF g.id (rtruncF k (truncSeg g k))) from hg')
              have hidg : (grpF g.id (rtruncF k (truncSeg g k)) g1).id = g1.id := by unfold grpF; split <;> rfl
              rw [hidg] at hgid
              have hold := hk' sg hsg hp r hr' hlo g1 hg1 hgid
              by_cases hgg : g1.id = g.id
              · have : g1 = g := hr.uniq g1 hg1 g hg hgg
                subst this
                rw [grpF_eq rfl]
                show r.lhi ≤ k
                omega
              · rw [grpF_ne hgg]; exact hold
            · exact raftInv_rtrunc hr hg hop' hk1 hk2 hptr

/-! ### replay of the surviving records -/

def stepR (seed : Nat) (acc : Option Nat) (r : RRec) : Option Nat :=
  match acc with
  | none => none
  | some cur =>
    if r.lo = 0 then some cur
    else if r.hi ≤ seed then some cur
    else if r.lo > cur + 1 then none
    else some r.hi

theorem replayRecs_eq (recs : List RRec) (start seed : Nat) :
    replayRecs recs start seed = recs.foldl (stepR seed) (some start) := rfl

theorem foldl_stepR_none (seed : Nat) (recs : List RRec) : recs.foldl (stepR seed) none = none := by
  induction recs with
  | nil => rfl
  | cons r t ih => simpa [List.foldl_cons, stepR] using ih

theorem replay_ge_seed (seed : Nat) (recs : List RRec) : ∀ (cur l : Nat), seed ≤ cur →
    recs.foldl (stepR seed) (some cur) = some l → seed ≤ l := by
  induction recs with
  | nil => intro cur l h hf; simp at hf; subst hf; exact h
  | cons r t ih =>
    intro cur l h hf
    simp only [List.foldl_cons] at hf
    by_cases h0 : r.lo = 0
    · have hs : stepR seed (some cur) r = some cur := by simp [stepR, h0]
      rw [hs] at hf; exact ih cur l h hf
    · by_cases h1 : r.hi ≤ seed
      · have hs : stepR seed (some cur) r = some cur := by simp [stepR, h0, h1]
        rw [hs] at hf; exact ih cur l h hf
      · by_cases h2 : r.lo > cur + 1
        · have hs : stepR seed (some cur) r = none := by simp [stepR, h0, h1, h2]
          rw [hs, foldl_stepR_none] at hf; cases hf
        · have hs : stepR seed (some cur) r = some r.hi := by simp [stepR, h0, h1, h2]
          rw [hs] at hf; exact ih r.hi l (by omega) hf

/-- a bound that lies below the start of every remaining record survives the replay -/
theorem replay_bound (seed : Nat) (recs : List RRec) : ∀ (cur l b : Nat),
    (∀ r ∈ recs, r.lo ≠ 0 → r.lo ≤ r.hi) → b ≤ cur → (∀ x ∈ recs, x.lo ≠ 0 → b < x.lo) →
    recs.foldl (stepR seed) (some cur) = some l → b ≤ l := by
  induction recs with
  | nil => intro cur l b _ h _ hf; simp at hf; subst hf; exact h
  | cons r t ih =>
    intro cur l b hle h hb hf
    have hlet : ∀ x ∈ t, x.lo ≠ 0 → x.lo ≤ x.hi := fun x hx => hle x (by simp [hx])
    have hbt : ∀ x ∈ t, x.lo ≠ 0 → b < x.lo := fun x hx => hb x (by simp [hx])
    simp only [List.foldl_cons] at hf
    by_cases h0 : r.lo = 0
    · have hs : stepR seed (some cur) r = some cur := by simp [stepR, h0]
      rw [hs] at hf; exact ih cur l b hlet h hbt hf
    · by_cases h1 : r.hi ≤ seed
      · have hs : stepR seed (some cur) r = some cur := by simp [stepR, h0, h1]
        rw [hs] at hf; exact ih cur l b hlet h hbt hf
      · by_cases h2 : r.lo > cur + 1
        · have hs : stepR seed (some cur) r = none := by simp [stepR, h0, h1, h2]
          rw [hs, foldl_stepR_none] at hf; cases hf
        · have hs : stepR seed (some cur) r = some r.hi := by simp [stepR, h0, h1, h2]
          rw [hs] at hf
          have := hb r (by simp) h0
          have := hle r (by simp) h0
          exact ih r.hi l b hlet (by omega) hbt hf

/-- the replayed last index dominates the live part of every surviving record -/
theorem replay_lhi (seed gid : Nat) (recs : List RRec) : ∀ (cur l : Nat),
    recs.Pairwise RecLt → (∀ r ∈ recs, r.g = gid) → (∀ r ∈ recs, r.lo ≠ 0 → r.lo ≤ r.hi) →
    (∀ r ∈ recs, r.lo ≠ 0 → r.lhi ≤ r.hi) → seed ≤ cur →
    recs.foldl (stepR seed) (some cur) = some l → ∀ r ∈ recs, r.lo ≠ 0 → r.lhi ≤ l := by
  induction recs with
  | nil => intro cur l _ _ _ _ _ _ r hr; cases hr
  | cons r t ih =>
    intro cur l hpw hg hle hlh hseed hf x hx hxlo
    rw [List.pairwise_cons] at hpw
    obtain ⟨hr1, hpt⟩ := hpw
    have hgt : ∀ y ∈ t, y.g = gid := fun y hy => hg y (by simp [hy])
    have hlet : ∀ y ∈ t, y.lo ≠ 0 → y.lo ≤ y.hi := fun y hy => hle y (by simp [hy])
    have hlht : ∀ y ∈ t, y.lo ≠ 0 → y.lhi ≤ y.hi := fun y hy => hlh y (by simp [hy])
    simp only [List.foldl_cons] at hf
    by_cases h0 : r.lo = 0
    · have hs : stepR seed (some cur) r = some cur := by simp [stepR, h0]
      rw [hs] at hf
      rcases List.mem_cons.mp hx with h1 | h1
      · subst h1; exact absurd h0 hxlo
      · exact ih cur l hpt hgt hlet hlht hseed hf x h1 hxlo
    · by_cases h1 : r.hi ≤ seed
      · have hs : stepR seed (some cur) r = some cur := by simp [stepR, h0, h1]
        rw [hs] at hf
        rcases List.mem_cons.mp hx with h2 | h2
        · subst h2
          have := replay_ge_seed seed t cur l hseed hf
          have := hlh x (by simp) hxlo
          omega
        · exact ih cur l hpt hgt hlet hlht hseed hf x h2 hxlo
      · by_cases h2 : r.lo > cur + 1
        · have hs : stepR seed (some cur) r = none := by simp [stepR, h0, h1, h2]
          rw [hs, foldl_stepR_none] at hf; cases hf
        · have hs : stepR seed (some cur) r = some r.hi := by simp [stepR, h0, h1, h2]
          rw [hs] at hf
          rcases List.mem_cons.mp hx with h3 | h3
          · subst h3
            refine replay_bound seed t x.hi l x.lhi hlet (hlh x (by simp) hxlo) ?_ hf
            intro y hy hylo
            exact hr1 y hy hxlo hylo (by rw [hg x (by simp), hgt y hy])
          · exact ih r.hi l hpt hgt hlet hlht (by omega) hf x h3 hxlo

/-! ### spans rebuilt by replay -/

def stepT (seed : Nat) (acc : Option Nat) (t : Nat × Nat × Nat) : Option Nat :=
  match acc with
  | none => none
  | some cur =>
    if t.2.1 ≤ seed then some cur
    else if t.1 > cur + 1 then none
    else some t.2.1

theorem foldl_stepT_none (seed : Nat) (L : List (Nat × Nat × Nat)) : L.foldl (stepT seed) none = none := by
  induction L with
  | nil => rfl
  | cons t ts ih => simpa [List.foldl_cons, stepT] using ih

def addT (acc : List (Nat × Nat × Nat)) (t : Nat × Nat × Nat) : List (Nat × Nat × Nat) := addSpan acc t.1 t.2.1 t.2.2

theorem foldSpans_eq (L : List (Nat × Nat × Nat)) : foldSpans L = L.foldl addT [] := rfl

theorem fold_ok (L : List (Nat × Nat × Nat)) : ∀ acc, (∀ t ∈ L, t.1 ≤ t.2.1) → SpansOK acc → SpansOK (L.foldl addT acc) := by
  induction L with
  | nil => intro acc _ h; exact h
  | cons t ts ih =>
    intro acc hl h
    simp only [List.foldl_cons]
    exact ih _ (fun x hx => hl x (by simp [hx])) (addSpan_ok h (hl t (by simp)))

theorem fold_origin (T L : List (Nat × Nat × Nat)) : ∀ acc, (∀ t ∈ L, t ∈ T) →
    (∀ sp ∈ acc, ∃ t ∈ T, t.2.2 = sp.2.2 ∧ t.1 ≤ sp.1) →
    ∀ sp ∈ L.foldl addT acc, ∃ t ∈ T, t.2.2 = sp.2.2 ∧ t.1 ≤ sp.1 := by
  induction L with
  | nil => intro acc _ h; exact h
  | cons t ts ih =>
    intro acc hsub h
    simp only [List.foldl_cons]
    apply ih _ (fun x hx => hsub x (by simp [hx]))
    intro sp' hsp'
    rcases mem_addSpan (show sp' ∈ addSpan acc t.1 t.2.1 t.2.2 from hsp') with ⟨h1, _⟩ | ⟨sp, hsp, _, rfl⟩ | rfl
    · exact h sp' h1
    · obtain ⟨t0, ht0, h2, h3⟩ := h sp hsp
      exact ⟨t0, ht0, h2, h3⟩
    · exact ⟨t, hsub t (by simp), rfl, Nat.le_refl _⟩

/-- replay without seed: what the log reaches is covered by the rebuilt spans -/
theorem fold_cover0 (L : List (Nat × Nat × Nat)) : ∀ (cur : Nat) (acc : List (Nat × Nat × Nat)) (l : Nat),
    (∀ t ∈ L, 1 ≤ t.1 ∧ t.1 ≤ t.2.1) → SpansOK acc → (∀ i, 0 < i → i ≤ cur → Covered acc i) →
    L.foldl (stepT 0) (some cur) = some l → ∀ i, 0 < i → i ≤ l → Covered (L.foldl addT acc) i := by
  induction L with
  | nil =>
    intro cur acc l _ _ hc hf i h1 h2
    simp at hf; subst hf; exact hc i h1 h2
  | cons t ts ih =>
    intro cur acc l hL hok hc hf i h1 h2
    simp only [List.foldl_cons] at hf ⊢
    obtain ⟨ht1, ht2⟩ := hL t (by simp)
    have hLt : ∀ x ∈ ts, 1 ≤ x.1 ∧ x.1 ≤ x.2.1 := fun x hx => hL x (by simp [hx])
    have hnot : ¬ (t.2.1 ≤ 0) := by omega
    by_cases hgap : t.1 > cur + 1
    · have hs : stepT 0 (some cur) t = none := by simp [stepT, hnot, hgap]
      rw [hs, foldl_stepT_none] at hf; cases hf
    · have hs : stepT 0 (some cur) t = some t.2.1 := by simp [stepT, hnot, hgap]
      rw [hs] at hf
      refine ih t.2.1 (addT acc t) l hLt (addSpan_ok hok ht2) ?_ hf i h1 h2
      intro j hj1 hj2
      by_cases hjt : j < t.1
      · exact addSpan_cover_old hok hjt (hc j hj1 (by omega))
      · exact addSpan_cover_new _ (by omega) hj2

/-! ### crash, stage 1: recovery cleanup -/

theorem crashSegs_eq (c : SCfg) (s : S) : crashSegs c s = s.segs.map (absF (recoveryDrops c s)) := rfl

theorem inv_crash1 (c : SCfg) (hc : c.guardUntruncated = true)
    (s : S) (ho : Ord s) (h : Inv s) : Inv (crash1 c s) := by
  unfold crash1
  refine inv_absent (s := s) (recoveryDrops c s) (crashSegs_eq c s) rfl rfl (fun _ hx => by cases hx) rfl rfl rfl ?_ h
  intro sg hsg hP
  unfold recoveryDrops at hP
  simp only [Bool.and_eq_true, decide_eq_true_eq] at hP
  obtain ⟨⟨⟨hpres, _⟩, hle⟩, hra⟩ := hP
  have hinst := ho.p sg hsg hpres hle
  refine ⟨?_, h.lsm.inst sg hsg hinst, raftAllows_kept hc h.raft (mem_skel hsg) hra⟩
  have := h.shape.instLt _ hinst; omega

/-! ### crash, stage 2: memtables from the surviving segments -/

theorem inv_setImm {s : S} (imm' : List Nat) (himm : ∀ id ∈ imm', id < s.active) (h : Inv s) :
    Inv { s with imm := imm' } := by
  obtain ⟨hs, hl, hk, hr⟩ := h
  exact ⟨⟨hs.sorted, hs.lastAct, hs.actPos, hs.actNext, himm, hs.instLt, hs.nonEmpty⟩, ⟨hl.absent, hl.inst⟩, hk, hr⟩

theorem present_ids (s : S) (hs : Shape s) :
    ∃ ids, (s.segs.filter (·.present)).map (·.id) = ids ++ [s.active] ∧ ∀ id ∈ ids, id < s.active := by
  obtain ⟨pre, a, hsg, hid, hp⟩ := hs.lastAct
  refine ⟨(pre.filter (·.present)).map (·.id), ?_, ?_⟩
  · rw [hsg, List.filter_append]
    simp [hp, hid]
  · intro id hidm
    obtain ⟨x, hx, rfl⟩ := List.mem_map.mp hidm
    have hxp : x ∈ pre := (List.mem_filter.mp hx).1
    have hsorted := hs.sorted
    rw [hsg] at hsorted
    have := pairwise_snoc_lt hsorted x hxp
    omega

theorem inv_crash2 (c : SCfg) (hc : c.guardUntruncated = true) (s1 : S) (h : Inv s1) :
    Inv (crash2 c s1) := by
  obtain ⟨ids, hids, hlt⟩ := present_ids s1 h.shape
  unfold crash2
  rw [hids]
  simp only [List.getLast?_concat, List.dropLast_concat]
  have h1 : Inv { s1 with imm := ids } := inv_setImm ids hlt h
  exact (inv_flushAll c hc { s1 with active := s1.active, imm := ids } h1).1

/-! ### crash, stage 3: the raft storages are reopened -/

def allSpans (segsP : List Segm) (gid : Nat) : List (Nat × Nat × Nat) :=
  segsP.flatMap (fun sg => (sg.raft.filter (fun r => r.g == gid && r.lo != 0)).map (fun r => (r.lo, r.hi, sg.id)))

def grpRecs (segsP : List Segm) (gid : Nat) : List RRec := (segsP.flatMap (·.raft)).filter (·.g == gid)

theorem recoverGrp_cases (c : SCfg) (hseed : c.replaySeedsTrunc = true) (segsP : List Segm) (g : Grp) :
    recoverGrp c segsP g = g ∨ recoverGrp c segsP g = { g with openOK := false } ∨
    ∃ l, replayRecs (grpRecs segsP g.id) g.trunc g.trunc = some l ∧ g.openOK = true ∧
      recoverGrp c segsP g =
        { g with last := l, base := g.trunc, spans := pruneSpans (foldSpans (allSpans segsP g.id)) g.trunc } := by
  unfold recoverGrp
  simp only [hseed, if_true]
  split
  · left; rfl
  · rename_i hop
    have hop' : g.openOK = true := by simpa using hop
    split
    · right; left; rfl
    · rename_i l hl
      split
      · right; left; rfl
      · right; right
        exact ⟨l, hl, hop', rfl⟩

theorem mem_grpRecs {segsP : List Segm} {gid : Nat} {r : RRec} :
    r ∈ grpRecs segsP gid ↔ (∃ sg ∈ segsP, r ∈ sg.raft) ∧ r.g = gid := by
  unfold grpRecs
  rw [List.mem_filter, List.mem_flatMap]
  simp

theorem mem_allSpans {segsP : List Segm} {gid : Nat} {sp : Nat × Nat × Nat} :
    sp ∈ allSpans segsP gid ↔ ∃ sg ∈ segsP, ∃ r ∈ sg.raft, r.g = gid ∧ r.lo ≠ 0 ∧ sp = (r.lo, r.hi, sg.id) := by
  unfold allSpans
  rw [List.mem_flatMap]
  constructor
  · rintro ⟨sg, hsg, hsp⟩
    obtain ⟨r, hr, rfl⟩ := List.mem_map.mp hsp
    rw [List.mem_filter] at hr
    refine ⟨sg, hsg, r, hr.1, ?_, ?_, rfl⟩
    · have := hr.2; simp at this; exact this.1
    · have := hr.2; simp at this; exact this.2
  · rintro ⟨sg, hsg, r, hr, hg, hlo, rfl⟩
    exact ⟨sg, hsg, List.mem_map.mpr ⟨r, List.mem_filter.mpr ⟨hr, by simp [hg, hlo]⟩, rfl⟩⟩

/-- replaying the records of one segment = replaying its spans-to-be -/
theorem replay_seg_eq (seed gid sid : Nat) (raft : List RRec) : ∀ acc : Option Nat,
    (raft.filter (·.g == gid)).foldl (stepR seed) acc =
      ((raft.filter (fun r => r.g == gid && r.lo != 0)).map (fun r => (r.lo, r.hi, sid))).foldl (stepT seed) acc := by
  induction raft with
  | nil => intro acc; rfl
  | cons r t ih =>
    intro acc
    by_cases hg : r.g = gid
    · by_cases hlo : r.lo = 0
      · have h1 : (r :: t).filter (·.g == gid) = r :: t.filter (·.g == gid) := by simp [hg]
        have h2 : (r :: t).filter (fun r => r.g == gid && r.lo != 0) = t.filter (fun r => r.g == gid && r.lo != 0) := by
          simp [hg, hlo]
        rw [h1, h2, List.foldl_cons]
        have hs : stepR seed acc r = acc := by
          cases acc with
          | none => rfl
          | some cur => simp [stepR, hlo]
        rw [hs]; exact ih acc
      · have h1 : (r :: t).filter (·.g == gid) = r :: t.filter (·.g == gid) := by simp [hg]
        have h2 : (r :: t).filter (fun r => r.g == gid && r.lo != 0) = r :: t.filter (fun r => r.g == gid && r.lo != 0) := by
          simp [hg, hlo]
        rw [h1, h2, List.map_cons, List.foldl_cons, List.foldl_cons]
        have hs : stepR seed acc r = stepT seed acc (r.lo, r.hi, sid) := by
          cases acc with
          | none => rfl
          | some cur => simp [stepR, stepT, hlo]
        rw [hs]; exact ih _
    · have h1 : (r :: t).filter (·.g == gid) = t.filter (·.g == gid) := by simp [hg]
      have h2 : (r :: t).filter (fun r => r.g == gid && r.lo != 0) = t.filter (fun r => r.g == gid && r.lo != 0) := by
        simp [hg]
      rw [h1, h2]; exact ih acc

theorem replay_eq_T (seed gid : Nat) (segsP : List Segm) : ∀ acc : Option Nat,
    (grpRecs segsP gid).foldl (stepR seed) acc = (allSpans segsP gid).foldl (stepT seed) acc := by
  induction segsP with
  | nil => intro acc; rfl
  | cons sg rest ih =>
    intro acc
    have h1 : grpRecs (sg :: rest) gid = sg.raft.filter (·.g == gid) ++ grpRecs rest gid := by
      unfold grpRecs; simp [List.flatMap_cons, List.filter_append]
    have h2 : allSpans (sg :: rest) gid =
        (sg.raft.filter (fun r => r.g == gid && r.lo != 0)).map (fun r => (r.lo, r.hi, sg.id)) ++ allSpans rest gid := by
      unfold allSpans; simp [List.flatMap_cons]
    rw [h1, h2, List.foldl_append, List.foldl_append, replay_seg_eq seed gid sg.id sg.raft acc]
    exact ih _

theorem grpRecs_pairwise {s : S} (hs : Shape s) (hr : RaftInv (skel s.segs) s.grps s.active) (gid : Nat) :
    (grpRecs (s.segs.filter (·.present)) gid).Pairwise RecLt := by
  unfold grpRecs
  apply List.Pairwise.filter
  rw [List.pairwise_flatMap]
  constructor
  · intro sg hsg
    exact hr.within _ (mem_skel (List.mem_filter.mp hsg).1)
  · have hsub : ((s.segs.filter (·.present))).Pairwise (fun a b => a.id < b.id) :=
      List.Pairwise.sublist List.filter_sublist hs.sorted
    refine List.Pairwise.imp_of_mem ?_ hsub
    intro a b ha hb hab x hx y hy hlox hloy hg
    exact hr.cross _ (mem_skel (List.mem_filter.mp ha).1) _ (mem_skel (List.mem_filter.mp hb).1) x hx y hy
      hlox hloy hg hab

theorem raftInv_crash3 (c : SCfg) (hseed : c.replaySeedsTrunc = true) {s : S} (hs : Shape s) (hk : Kept s)
    (hr : RaftInv (skel s.segs) s.grps s.active) :
    RaftInv (skel s.segs) (s.grps.map (recoverGrp c (s.segs.filter (·.present)))) s.active := by
  have hF : ∀ g, (recoverGrp c (s.segs.filter (·.present)) g).id = g.id ∧
      (recoverGrp c (s.segs.filter (·.present)) g).trunc = g.trunc ∧
      (recoverGrp c (s.segs.filter (·.present)) g).segIndex = g.segIndex ∧
      (recoverGrp c (s.segs.filter (·.present)) g).ptrSeg = g.ptrSeg := by
    intro g
    rcases recoverGrp_cases c hseed (s.segs.filter (·.present)) g with h1 | h1 | ⟨l, _, _, h1⟩ <;> rw [h1] <;>
      exact ⟨rfl, rfl, rfl, rfl⟩
  have hT : ∀ (gid : Nat), ∀ t ∈ allSpans (s.segs.filter (·.present)) gid, 1 ≤ t.1 ∧ t.1 ≤ t.2.1 := by
    intro gid t ht
    obtain ⟨sg, hsg, r, hrm, _, hlo, rfl⟩ := mem_allSpans.mp ht
    have := hr.loLe _ (mem_skel (List.mem_filter.mp hsg).1) r hrm hlo
    exact ⟨by show 1 ≤ r.lo; omega, this⟩
  refine ⟨uniq_map (fun g => (hF g).1) hr.uniq, ?_, hr.idLe, hr.idPos, ?_, hr.cross, hr.within, ?_, hr.loLe, hr.lhiLe,
    ?_, ?_, ?_, ?_, ?_⟩
  · intro g' hg'
    obtain ⟨g, hg, rfl⟩ := List.mem_map.mp hg'
    rw [(hF g).2.2.1, (hF g).2.2.2]; exact hr.bound g hg
  · intro e he r hrm hlo g' hg' hid htr
    obtain ⟨g, hg, rfl⟩ := List.mem_map.mp hg'
    rw [(hF g).1] at hid
    rw [(hF g).2.1] at htr
    rw [(hF g).2.2.1, (hF g).2.2.2]
    exact hr.ptr e he r hrm hlo g hg hid htr
  · -- leLast
    intro e he r hrm hlo g' hg' hid
    obtain ⟨g, hg, rfl⟩ := List.mem_map.mp hg'
    rw [(hF g).1] at hid
    rcases recoverGrp_cases c hseed (s.segs.filter (·.present)) g with h1 | h1 | ⟨l, hl, _, h1⟩
    · rw [h1]; exact hr.leLast e he r hrm hlo g hg hid
    · rw [h1]; exact hr.leLast e he r hrm hlo g hg hid
    · rw [h1]
      show r.lhi ≤ l
      obtain ⟨sg, hsg, hsid, hsraft⟩ := of_mem_skel he
      rw [replayRecs_eq] at hl
      have hrecs : ∀ x ∈ grpRecs (s.segs.filter (·.present)) g.id, ∃ sg' ∈ s.segs, x ∈ sg'.raft := by
        intro x hx
        obtain ⟨⟨sg', hsg', hxr⟩, _⟩ := mem_grpRecs.mp hx
        exact ⟨sg', (List.mem_filter.mp hsg').1, hxr⟩
      cases hp : sg.present with
      | false =>
        have := hk sg hsg hp r (by rw [hsraft]; exact hrm) hlo g hg hid
        have := replay_ge_seed g.trunc _ g.trunc l (Nat.le_refl _) hl
        omega
      | true =>
        refine replay_lhi g.trunc g.id (grpRecs (s.segs.filter (·.present)) g.id) g.trunc l
          (grpRecs_pairwise hs hr g.id) (fun x hx => (mem_grpRecs.mp hx).2) ?_ ?_ (Nat.le_refl _) hl r ?_ hlo
        · intro x hx hxlo
          obtain ⟨sg', hsg', hxr⟩ := hrecs x hx
          exact hr.loLe _ (mem_skel hsg') x hxr hxlo
        · intro x hx hxlo
          obtain ⟨sg', hsg', hxr⟩ := hrecs x hx
          exact hr.lhiLe _ (mem_skel hsg') x hxr hxlo
        · rw [mem_grpRecs]
          exact ⟨⟨sg, List.mem_filter.mpr ⟨hsg, by simpa using hp⟩, by rw [hsraft]; exact hrm⟩, hid.symm⟩
  · -- span
    intro g' hg' sp' hsp'
    obtain ⟨g, hg, rfl⟩ := List.mem_map.mp hg'
    rw [(hF g).1]
    rcases recoverGrp_cases c hseed (s.segs.filter (·.present)) g with h1 | h1 | ⟨l, _, _, h1⟩
    · rw [h1] at hsp'; exact hr.span g hg sp' hsp'
    · rw [h1] at hsp'; exact hr.span g hg sp' hsp'
    · rw [h1] at hsp'
      obtain ⟨sp, hsp, _, rfl⟩ := mem_pruneSpans
        (show sp' ∈ pruneSpans (foldSpans (allSpans (s.segs.filter (·.present)) g.id)) g.trunc from hsp')
      rw [foldSpans_eq] at hsp
      obtain ⟨t, ht, ht1, ht2⟩ := fold_origin (allSpans (s.segs.filter (·.present)) g.id) _ []
        (fun t ht => ht) (fun sp hsp => by cases hsp) sp hsp
      obtain ⟨sg, hsg, r, hrm, hrg, hrlo, rfl⟩ := mem_allSpans.mp ht
      obtain ⟨_, p2, p3, _⟩ := pruneOne_props g.trunc sp
      refine ⟨(sg.id, sg.raft), mem_skel (List.mem_filter.mp hsg).1, r, hrm, ?_, hrg, hrlo, ?_⟩
      · rw [p2]; exact ht1
      · have : r.lo ≤ sp.1 := ht2
        omega
  · -- spansOK
    intro g' hg'
    obtain ⟨g, hg, rfl⟩ := List.mem_map.mp hg'
    rcases recoverGrp_cases c hseed (s.segs.filter (·.present)) g with h1 | h1 | ⟨l, _, _, h1⟩
    · rw [h1]; exact hr.spansOK g hg
    · rw [h1]; exact hr.spansOK g hg
    · rw [h1]
      show SpansOK (pruneSpans (foldSpans (allSpans (s.segs.filter (·.present)) g.id)) g.trunc)
      rw [foldSpans_eq]
      exact pruneSpans_ok (fold_ok _ [] (fun t ht => (hT g.id t ht).2) ⟨List.Pairwise.nil, fun sp hsp => by cases hsp⟩) _
  · -- untr
    intro g' hg' hsi
    obtain ⟨g, hg, rfl⟩ := List.mem_map.mp hg'
    rw [(hF g).2.2.1] at hsi; rw [(hF g).2.1]
    exact hr.untr g hg hsi
  · -- baseGe
    intro g' hg'
    obtain ⟨g, hg, rfl⟩ := List.mem_map.mp hg'
    rcases recoverGrp_cases c hseed (s.segs.filter (·.present)) g with h1 | h1 | ⟨l, _, _, h1⟩
    · rw [h1]; exact hr.baseGe g hg
    · rw [h1]; exact hr.baseGe g hg
    · rw [h1]; exact Nat.le_refl _
  · -- cover
    intro g' hg' hop hsi i hi0 hhi
    obtain ⟨g, hg, rfl⟩ := List.mem_map.mp hg'
    rw [(hF g).2.2.1] at hsi
    rcases recoverGrp_cases c hseed (s.segs.filter (·.present)) g with h1 | h1 | ⟨l, hl, _, h1⟩
    · rw [h1] at hop hhi ⊢; exact hr.cover g hg hop hsi i hi0 hhi
    · rw [h1] at hop; cases hop
    · rw [h1] at hhi ⊢
      have hhi' : i ≤ l := hhi
      have htr0 : g.trunc = 0 := hr.untr g hg hsi
      rw [replayRecs_eq, htr0, replay_eq_T] at hl
      show Covered (pruneSpans (foldSpans (allSpans (s.segs.filter (·.present)) g.id)) g.trunc) i
      rw [htr0, foldSpans_eq]
      apply pruneSpans_cover hi0
      exact fold_cover0 _ 0 [] l (hT g.id) ⟨List.Pairwise.nil, fun sp hsp => by cases hsp⟩
        (fun j h1 h2 => by omega) hl i hi0 hhi'

theorem inv_crash3 (c : SCfg) (hseed : c.replaySeedsTrunc = true) (s : S) (h : Inv s) : Inv (crash3 c s) := by
  obtain ⟨hs, hl, hk, hr⟩ := h
  unfold crash3
  refine ⟨⟨hs.sorted, hs.lastAct, hs.actPos, hs.actNext, hs.immLt, hs.instLt, hs.nonEmpty⟩,
    ⟨hl.absent, hl.inst⟩, ?_, raftInv_crash3 c hseed hs hk hr⟩
  intro sg hsg hp r hrm hlo g' hg' hid
  obtain ⟨g, hg, rfl⟩ := List.mem_map.mp (show g' ∈ s.grps.map (recoverGrp c (s.segs.filter (·.present))) from hg')
  rcases recoverGrp_cases c hseed (s.segs.filter (·.present)) g with h1 | h1 | ⟨l, _, _, h1⟩ <;>
    rw [h1] at hid ⊢ <;> exact hk sg hsg hp r hrm hlo g hg hid

/-! ### the invariant holds initially, is preserved by every step, and implies the property -/

theorem inv_init : Inv ({} : S) := by
  refine ⟨⟨?_, ⟨[], { id := 1 }, rfl, rfl, rfl⟩, ?_, ?_, ?_, ?_, ?_⟩, ⟨?_, ?_⟩, ?_, ?_⟩
  · show List.Pairwise (fun a b => a.id < b.id) [({ id := 1 } : Segm)]
    simp
  · show 0 < 1; omega
  · show 1 < 2; omega
  · intro id h; cases h
  · intro id h; cases h
  · intro sg hsg hne
    have : sg = { id := 1 } := by simpa using hsg
    subst this; exact absurd rfl hne
  · intro sg hsg hp
    have : sg = { id := 1 } := by simpa using hsg
    subst this; cases hp
  · intro sg hsg hin
    cases hin
  · intro sg hsg hp
    have : sg = { id := 1 } := by simpa using hsg
    subst this; cases hp
  · have hsk : ∀ e ∈ skel ({} : S).segs, e = (1, []) := by
      intro e he
      have : e ∈ [((1, []) : Nat × List RRec)] := he
      simpa using this
    have hgr : ∀ g ∈ ({} : S).grps, g = { id := 1 } ∨ g = { id := 2 } := by
      intro g hg
      have : g ∈ [({ id := 1 } : Grp), { id := 2 }] := hg
      simpa using this
    refine ⟨?_, ?_, ?_, ?_, ?_, ?_, ?_, ?_, ?_, ?_, ?_, ?_, ?_, ?_, ?_⟩
    · intro g1 h1 g2 h2 hid
      rcases hgr g1 h1 with rfl | rfl <;> rcases hgr g2 h2 with rfl | rfl <;>
        first | rfl | (exact absurd hid (by decide))
    · intro g hg
      rcases hgr g hg with rfl | rfl <;> exact ⟨by decide, by decide⟩
    · intro e he; rw [hsk e he]; show 1 ≤ 1; omega
    · intro e he; rw [hsk e he]; show 0 < 1; omega
    · intro e he r hr; rw [hsk e he] at hr; cases hr
    · intro eA heA eB heB rA hrA; rw [hsk eA heA] at hrA; cases hrA
    · intro e he; rw [hsk e he]; exact List.Pairwise.nil
    · intro e he r hr; rw [hsk e he] at hr; cases hr
    · intro e he r hr; rw [hsk e he] at hr; cases hr
    · intro e he r hr; rw [hsk e he] at hr; cases hr
    · intro g hg sp hsp
      rcases hgr g hg with rfl | rfl <;> cases hsp
    · intro g hg
      rcases hgr g hg with rfl | rfl <;> exact ⟨List.Pairwise.nil, fun sp hsp => by cases hsp⟩
    · intro g hg _
      rcases hgr g hg with rfl | rfl <;> rfl
    · intro g hg
      rcases hgr g hg with rfl | rfl <;> exact Nat.le_refl _
    · intro g hg _ _ i h1 h2
      rcases hgr g hg with rfl | rfl <;> (simp at h2; omega)

/-! ### flush order (`Ord`) -/

theorem ord_init : Ord ({} : S) := by
  refine ⟨List.Pairwise.nil, by show 0 < 1; omega, ?_, ?_⟩
  · intro sg hsg _ hne
    have : sg = { id := 1 } := by simpa using hsg
    subst this; exact absurd rfl hne
  · intro sg hsg _ hle
    have : sg = { id := 1 } := by simpa using hsg
    subst this
    have : (1 : Nat) ≤ 0 := hle
    omega

/-- `Ord` only looks at ids and presence of the segments, and at active / imm / installed / logPtr -/
theorem ord_map {s s' : S} (F : Segm → Segm) (hF : ∀ sg, (F sg).id = sg.id ∧ (F sg).present = sg.present)
    (hsegs : s'.segs = s.segs.map F) (hact : s'.active = s.active) (himm : s'.imm = s.imm)
    (hinst : s'.installed = s.installed) (hlp : s'.logPtr = s.logPtr) (ho : Ord s) : Ord s' := by
  refine ⟨by rw [himm]; exact ho.immSorted, by rw [hlp, hact]; exact ho.lp, ?_, ?_⟩
  · intro x hx hp hne
    rw [hsegs] at hx
    obtain ⟨sg, hsg, rfl⟩ := mem_map_seg hx
    rw [(hF sg).2] at hp
    rw [(hF sg).1, hact] at hne
    rw [(hF sg).1, himm, hinst]
    exact ho.q sg hsg hp hne
  · intro x hx hp hle
    rw [hsegs] at hx
    obtain ⟨sg, hsg, rfl⟩ := mem_map_seg hx
    rw [(hF sg).2] at hp
    rw [(hF sg).1, hlp] at hle
    rw [(hF sg).1, hinst]
    exact ho.p sg hsg hp hle

theorem ord_same {s s' : S} (hsegs : s'.segs = s.segs) (hact : s'.active = s.active) (himm : s'.imm = s.imm)
    (hinst : s'.installed = s.installed) (hlp : s'.logPtr = s.logPtr) (ho : Ord s) : Ord s' :=
  ord_map id (fun _ => ⟨rfl, rfl⟩) (by rw [hsegs]; simp) hact himm hinst hlp ho

theorem ord_put (s : S) (k : Nat) (ho : Ord s) : Ord (put s k) :=
  ord_map (putF s.active (k, s.seq + 1)) (fun sg => ⟨putF_id _ _ sg, putF_present _ _ sg⟩)
    (put_segs s k) rfl rfl rfl rfl ho

/-- presence only shrinks -/
theorem ord_absent {s s' : S} (P : Segm → Bool) (hsegs : s'.segs = s.segs.map (absF P))
    (hact : s'.active = s.active) (himm : s'.imm = s.imm) (hinst : s'.installed = s.installed)
    (hlp : s'.logPtr = s.logPtr) (ho : Ord s) : Ord s' := by
  have hback : ∀ x ∈ s'.segs, x.present = true → x ∈ s.segs := by
    intro x hx hp
    rw [hsegs] at hx
    obtain ⟨sg, hsg, rfl⟩ := mem_map_seg hx
    cases hP : P sg with
    | false => rw [absF_not hP]; exact hsg
    | true =>
      exfalso
      unfold absF at hp
      simp [hP] at hp
  refine ⟨by rw [himm]; exact ho.immSorted, by rw [hlp, hact]; exact ho.lp, ?_, ?_⟩
  · intro x hx hp hne
    rw [hact] at hne
    rw [himm, hinst]
    exact ho.q x (hback x hx hp) hp hne
  · intro x hx hp hle
    rw [hlp] at hle
    rw [hinst]
    exact ho.p x (hback x hx hp) hp hle

theorem ord_newSeg {s : S} (hs : Shape s) (ho : Ord s) : Ord (newSegSt s (s.imm ++ [s.active])) := by
  refine ⟨?_, ?_, ?_, ?_⟩
  · show (s.imm ++ [s.active]).Pairwise (· < ·)
    exact pairwise_snoc ho.immSorted (fun x hx => hs.immLt x hx)
  · show s.logPtr < s.next
    have := ho.lp; have := hs.actNext; omega
  · intro x hx hp hne
    show x.id ∈ s.imm ++ [s.active] ∨ x.id ∈ s.installed
    have hx' : x ∈ s.segs ++ [Segm.mk s.next [] [] true] := hx
    rcases List.mem_append.mp hx' with h1 | h1
    · by_cases hact : x.id = s.active
      · left; rw [hact]; simp
      · rcases ho.q x h1 hp hact with h2 | h2
        · left; exact List.mem_append.mpr (Or.inl h2)
        · right; exact h2
    · simp at h1; subst h1; exact absurd rfl hne
  · intro x hx hp hle
    have hx' : x ∈ s.segs ++ [Segm.mk s.next [] [] true] := hx
    have hle' : x.id ≤ s.logPtr := hle
    rcases List.mem_append.mp hx' with h1 | h1
    · exact ho.p x h1 hp hle'
    · simp at h1; subst h1
      have := ho.lp; have := hs.actNext
      have : s.next ≤ s.logPtr := hle'
      omega

theorem findSeg_none {segs : List Segm} {id : Nat} (h : findSeg segs id = none) : ∀ sg ∈ segs, sg.id ≠ id := by
  unfold findSeg at h
  rw [List.find?_eq_none] at h
  intro sg hsg
  have := h sg hsg
  simpa using this

theorem flushOne_imm (c : SCfg) (s : S) (id : Nat) : (flushOne c s id).imm = s.imm.erase id := by
  unfold flushOne
  split
  · rfl
  · split
    · rfl
    · simp only; split <;> rfl

theorem ord_install {s : S} {sg : Segm} (hs : Shape s) (hsg : sg ∈ s.segs) (hlt : sg.id < s.active)
    (hmin : ∀ x ∈ s.imm, sg.id ≤ x) (ho : Ord s) : Ord (installSt s sg) := by
  unfold installSt
  refine ⟨?_, hlt, ?_, ?_⟩
  · exact List.Pairwise.sublist List.erase_sublist ho.immSorted
  · intro x hx hp hne
    show x.id ∈ s.imm.erase sg.id ∨ x.id ∈ s.installed ++ [sg.id]
    rcases ho.q x hx hp hne with h1 | h1
    · by_cases hid : x.id = sg.id
      · right; rw [hid]; simp
      · left; exact (List.mem_erase_of_ne hid).mpr h1
    · right; exact List.mem_append.mpr (Or.inl h1)
  · intro x hx hp hle
    show x.id ∈ s.installed ++ [sg.id]
    have hle' : x.id ≤ sg.id := hle
    have hne : x.id ≠ s.active := by omega
    rcases ho.q x hx hp hne with h1 | h1
    · have := hmin x.id h1
      have : x.id = sg.id := by omega
      rw [this]; simp
    · exact List.mem_append.mpr (Or.inl h1)

theorem ord_flushOne (c : SCfg) (s : S) (id : Nat) (hs : Shape s) (hid : id < s.active)
    (hmin : ∀ x ∈ s.imm, id ≤ x) (ho : Ord s) : Ord (flushOne c s id) := by
  unfold flushOne
  split
  · rename_i hnone
    have hno := findSeg_none hnone
    refine ⟨List.Pairwise.sublist List.erase_sublist ho.immSorted, ho.lp, ?_, ho.p⟩
    intro x hx hp hne
    show x.id ∈ s.imm.erase id ∨ x.id ∈ s.installed
    rcases ho.q x hx hp hne with h1 | h1
    · left; exact (List.mem_erase_of_ne (hno x hx)).mpr h1
    · right; exact h1
  · rename_i sg hfind
    obtain ⟨hsg, hsid⟩ := findSeg_some hfind
    have hne : sg.puts ≠ [] := hs.nonEmpty sg hsg (by omega)
    split
    · rename_i hemp
      exfalso; apply hne; simpa using hemp
    · subst hsid
      have h1 := ord_install hs hsg hid hmin ho
      simp only
      split
      · exact ord_absent (s := installSt s sg) (fun x => [sg.id].contains x.id) (setAbsent_eq _ _) rfl rfl rfl rfl h1
      · exact h1

theorem both_foldl_flushOne (c : SCfg) (hc : c.guardUntruncated = true) (l : List Nat) :
    ∀ s : S, Inv s → Ord s → s.imm = l →
      Inv (l.foldl (flushOne c) s) ∧ Ord (l.foldl (flushOne c) s) ∧ (l.foldl (flushOne c) s).active = s.active := by
  induction l with
  | nil => intro s h ho _; exact ⟨h, ho, rfl⟩
  | cons a t ih =>
    intro s h ho himm
    simp only [List.foldl_cons]
    have hsorted := ho.immSorted
    rw [himm, List.pairwise_cons] at hsorted
    have halt : a < s.active := h.shape.immLt a (by rw [himm]; simp)
    have hmin : ∀ x ∈ s.imm, a ≤ x := by
      intro x hx
      rw [himm] at hx
      rcases List.mem_cons.mp hx with h1 | h1
      · omega
      · have := hsorted.1 x h1; omega
    have h1 := inv_flushOne c hc s a halt h
    have ho1 := ord_flushOne c s a h.shape halt hmin ho
    have ha := flushOne_active c s a
    have himm1 : (flushOne c s a).imm = t := by
      rw [flushOne_imm, himm]; simp
    obtain ⟨h2, h3, h4⟩ := ih (flushOne c s a) h1 ho1 himm1
    exact ⟨h2, h3, by rw [h4, ha]⟩

theorem both_flushAll (c : SCfg) (hc : c.guardUntruncated = true) (s : S) (h : Inv s) (ho : Ord s) :
    Inv (flushAll c s) ∧ Ord (flushAll c s) :=
  let r := both_foldl_flushOne c hc s.imm s h ho rfl
  ⟨r.1, r.2.1⟩

theorem ord_rotate (c : SCfg) (hc : c.guardUntruncated = true) (s : S) (h : Inv s) (ho : Ord s) :
    Ord (rotate c s) := by
  rw [rotate_eq]
  have h1 := inv_put s 0 h
  have ho1 := ord_put s 0 ho
  have h2 : Inv (newSegSt (put s 0) ((put s 0).imm ++ [(put s 0).active])) := by
    apply inv_newSeg _ _ _ h1
    · intro id hid
      rcases List.mem_append.mp hid with h3 | h3
      · exact Or.inl h3
      · right; simpa using h3
    · intro sg hsg hid; exact put_active_nonempty s 0 hsg hid
  have ho2 := ord_newSeg h1.shape ho1
  apply ord_put
  split
  · exact ho2
  · exact (both_flushAll c hc _ h2 ho2).2

theorem ord_failBase (c : SCfg) (hc : c.guardUntruncated = true) (s : S) (h : Inv s) (ho : Ord s) :
    Ord (failBase c s) := by
  unfold failBase
  have h0 : Inv { s with gateClosed := false } := inv_same (s := s) rfl rfl rfl (fun _ hx => hx) rfl rfl rfl h
  have ho0 : Ord { s with gateClosed := false } := ord_same (s := s) rfl rfl rfl rfl rfl ho
  exact ord_put _ 0 (both_flushAll c hc _ h0 ho0).2

theorem ord_flushFail (c : SCfg) (hc : c.guardUntruncated = true) (hfr : c.flushRetries = true) (s : S)
    (h : Inv s) (ho : Ord s) : Ord (flushFail c s) := by
  rw [flushFail_eq c hfr]
  have h2 := inv_failBase c hc s h
  have ho2 := ord_failBase c hc s h ho
  have h3 : Inv (newSegSt (failBase c s) ((failBase c s).imm ++ [(failBase c s).active])) := by
    apply inv_newSeg _ _ _ h2
    · intro id hid
      rcases List.mem_append.mp hid with h3 | h3
      · exact Or.inl h3
      · right; simpa using h3
    · intro sg hsg hid; exact put_active_nonempty _ 0 hsg hid
  exact ord_put _ 0 (both_flushAll c hc _ h3 (ord_newSeg h2.shape ho2)).2

theorem ord_gate (c : SCfg) (hc : c.guardUntruncated = true) (s : S) (b : Bool) (h : Inv s) (ho : Ord s) :
    Ord (gate c s b) := by
  unfold gate
  split
  · exact ord_same (s := s) rfl rfl rfl rfl rfl ho
  · have h0 : Inv { s with gateClosed := false } := inv_same (s := s) rfl rfl rfl (fun _ hx => hx) rfl rfl rfl h
    have ho0 : Ord { s with gateClosed := false } := ord_same (s := s) rfl rfl rfl rfl rfl ho
    exact (both_flushAll c hc _ h0 ho0).2

theorem ord_watchdog (c : SCfg) (s : S) (ho : Ord s) : Ord (watchdog c s) := by
  unfold watchdog
  exact ord_absent (s := s) (fun x => (watchdogRemoves c s).contains x.id) (setAbsent_eq _ _) rfl rfl rfl rfl ho

theorem present_ids_sorted (s : S) (hs : Shape s) :
    ∃ ids, (s.segs.filter (·.present)).map (·.id) = ids ++ [s.active] ∧ (∀ id ∈ ids, id < s.active) ∧
      ids.Pairwise (· < ·) := by
  obtain ⟨pre, a, hsg, hid, hp⟩ := hs.lastAct
  refine ⟨(pre.filter (·.present)).map (·.id), ?_, ?_, ?_⟩
  · rw [hsg, List.filter_append]
    simp [hp, hid]
  · intro id hidm
    obtain ⟨x, hx, rfl⟩ := List.mem_map.mp hidm
    have hxp : x ∈ pre := (List.mem_filter.mp hx).1
    have hsorted := hs.sorted
    rw [hsg] at hsorted
    have := pairwise_snoc_lt hsorted x hxp
    omega
  · rw [List.pairwise_map]
    apply List.Pairwise.filter
    have hsorted := hs.sorted
    rw [hsg, List.pairwise_append] at hsorted
    exact hsorted.1

theorem both_crash2 (c : SCfg) (hc : c.guardUntruncated = true) (s1 : S) (h : Inv s1)
    (hlp : s1.logPtr < s1.active)
    (hp : ∀ sg ∈ s1.segs, sg.present = true → sg.id ≤ s1.logPtr → sg.id ∈ s1.installed) :
    Inv (crash2 c s1) ∧ Ord (crash2 c s1) := by
  obtain ⟨ids, hids, hlt, hsorted⟩ := present_ids_sorted s1 h.shape
  unfold crash2
  rw [hids]
  simp only [List.getLast?_concat, List.dropLast_concat]
  have h1 : Inv { s1 with imm := ids } := inv_setImm ids hlt h
  have ho1 : Ord { s1 with active := s1.active, imm := ids } := by
    refine ⟨hsorted, hlp, ?_, hp⟩
    intro x hx hpx hne
    left
    show x.id ∈ ids
    have hmem : x.id ∈ (s1.segs.filter (·.present)).map (·.id) :=
      List.mem_map.mpr ⟨x, List.mem_filter.mpr ⟨hx, by simpa using hpx⟩, rfl⟩
    rw [hids] at hmem
    rcases List.mem_append.mp hmem with h2 | h2
    · exact h2
    · simp at h2; exact absurd h2 hne
  exact both_flushAll c hc { s1 with active := s1.active, imm := ids } h1 ho1

theorem both_crash (c : SCfg) (hc : c.Good) (s : S) (h : Inv s) (ho : Ord s) : Inv (crash c s) ∧ Ord (crash c s) := by
  obtain ⟨h1, _, _, h4⟩ := hc
  unfold crash
  have hi1 := inv_crash1 c h1 s ho h
  have ho1 : Ord { crash1 c s with imm := s.imm } :=
    ord_absent (s := s) (recoveryDrops c s) (crashSegs_eq c s) rfl rfl rfl rfl ho
  obtain ⟨hi2, ho2⟩ := both_crash2 c h1 (crash1 c s) hi1 ho1.lp ho1.p
  have hi3 := inv_crash3 c h4 _ hi2
  have ho3 : Ord (crash3 c (crash2 c (crash1 c s))) := ord_same (s := crash2 c (crash1 c s)) rfl rfl rfl rfl rfl ho2
  exact ⟨inv_put _ 0 hi3, ord_put _ 0 ho3⟩

theorem ord_rover (s : S) (gid start n : Nat) (ho : Ord s) : Ord (rover s gid start n).1 := by
  unfold rover
  split
  · exact ho
  · split
    · exact ho
    · split
      · exact ho
      · split
        · exact ho
        · rename_i g _ _ _ _
          refine ord_map (s := s) (s' := roverSt s gid start n)
            (roverSegF gid start s.active ⟨gid, start, start + n - 1, start + n - 1⟩)
            (fun sg => ⟨(roverSegF_props _ _ _ _ sg).1, (roverSegF_props _ _ _ _ sg).2.2⟩) ?_ rfl rfl rfl rfl ho
          show (s.segs.map (cutF gid start)).map (raftF s.active _) = _
          rw [List.map_map]; rfl

theorem ord_raft_ops (s : S) (ho : Ord s) :
    (∀ g n, Ord (rapp s g n).1) ∧ (∀ g, Ord (rhs s g).1) ∧ (∀ g k, Ord (rtrunc s g k).1) := by
  refine ⟨?_, ?_, ?_⟩
  · intro gid n
    unfold rapp
    split
    · exact ho
    · exact ord_rover s gid _ n ho
  · intro gid
    unfold rhs
    split
    · exact ho
    · split
      · exact ho
      · exact ord_map (s := s) (raftF s.active ⟨gid, 0, 0, 0⟩)
          (fun sg => ⟨raftF_id _ _ sg, raftF_present _ _ sg⟩) rfl rfl rfl rfl rfl ho
  · intro gid k
    unfold rtrunc
    split
    · exact ho
    · split
      · exact ho
      · split
        · exact ho
        · split
          · exact ho
          · split
            · exact ho
            · exact ord_same (s := s) rfl rfl rfl rfl rfl ho

theorem both_step (c : SCfg) (hc : c.Good) (s : S) (op : Op) (h : Inv s) (ho : Ord s) :
    Inv (step c s op) ∧ Ord (step c s op) := by
  have hg := hc.1
  have hw := hc.2.1
  have hfr := hc.2.2.1
  cases op with
  | put k => exact ⟨inv_put s k h, ord_put s k ho⟩
  | rapp g n => exact ⟨inv_rapp s g n h, (ord_raft_ops s ho).1 g n⟩
  | rover g st n => exact ⟨inv_rover s g st n h, ord_rover s g st n ho⟩
  | rhs g => exact ⟨inv_rhs s g h, (ord_raft_ops s ho).2.1 g⟩
  | rtrunc g k => exact ⟨inv_rtrunc s g k h, (ord_raft_ops s ho).2.2 g k⟩
  | rotate => exact ⟨inv_rotate c hg s h, ord_rotate c hg s h ho⟩
  | gate b => exact ⟨inv_gate c hg s b h, ord_gate c hg s b h ho⟩
  | watchdog => exact ⟨inv_watchdog c hg hw s ho h, ord_watchdog c s ho⟩
  | crash => exact both_crash c hc s h ho
  | flushFail => exact ⟨inv_flushFail c hg hfr s h, ord_flushFail c hg hfr s h ho⟩

theorem inv_run (c : SCfg) (hc : c.Good) (ops : List Op) : Inv (run c ops) := by
  unfold run
  have : ∀ s : S, Inv s → Ord s → Inv (ops.foldl (step c) s) := by
    induction ops with
    | nil => intro s hs _; exact hs
    | cons o os ih =>
      intro s hs ho
      obtain ⟨h1, h2⟩ := both_step c hc s o hs ho
      exact ih _ h1 h2
  exact this _ inv_init ord_init

theorem inv_neededKept {s : S} (h : Inv s) : neededKept s = true := by
  unfold neededKept
  rw [List.all_eq_true]
  intro sg hsg
  cases hp : sg.present with
  | true => simp
  | false =>
    simp only [Bool.or_false, Bool.not_eq_true']
    unfold needed
    rw [Bool.or_eq_false_iff]
    constructor
    · unfold holdsUnflushed
      rw [List.any_eq_false]
      intro p hpm
      have := h.lsm.absent sg hsg hp p hpm
      simp [this]
    · unfold holdsUntruncated
      rw [List.any_eq_false]
      intro r hrm
      by_cases hlo : r.lo = 0
      · simp [hlo]
      · simp only [Bool.and_eq_true, bne_iff_ne, ne_eq, hlo, not_false_eq_true, true_and,
          Bool.not_eq_true, List.any_eq_false, beq_iff_eq, decide_eq_true_eq, not_and, Nat.not_lt]
        intro g hg hid
        exact h.kept sg hsg hp r hrm hlo g hg hid

end NoKV.Raftwal.Seg

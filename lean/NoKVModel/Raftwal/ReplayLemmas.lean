/-
What `replay` (the model of `OpenWALStorage`'s WAL replay into `MemoryStorage`) computes, in
terms of the abstract history: last hard state, and the abstract log `specLog`.
-/
import NoKVModel.Raftwal.Store

namespace NoKV.Raftwal

theorem Mem.append_hs {m m' : Mem} {f : Nat} {items : List Item} (h : m.append f items = some m') :
    m'.hs = m.hs := by
  unfold Mem.append at h
  split at h
  · cases h; rfl
  · split at h
    · cases h; rfl
    · split at h
      · cases h; rfl
      · cases h

theorem Mem.applySnap_hs {m m' : Mem} {i t : Nat} (h : m.applySnap i t = some m') : m'.hs = m.hs := by
  unfold Mem.applySnap at h
  split at h
  · cases h
  · cases h; rfl

/-- recovered hard state = the last one persisted -/
theorem replayFrom_hs (m : Mem) (l : List Rec) (m' : Mem) (h : replayFrom m l = some m') :
    m'.hs = lastHs m.hs l := by
  induction l generalizing m with
  | nil => simp [replayFrom] at h; subst h; rfl
  | cons r rs ih =>
    simp only [replayFrom] at h
    cases hm : m.applyRec r with
    | none => rw [hm] at h; cases h
    | some m1 =>
      rw [hm] at h
      have := ih m1 h
      rw [this]
      cases r with
      | other => simp [Mem.applyRec] at hm; subst hm; rfl
      | ents f items => simp only [Mem.applyRec] at hm; rw [Mem.append_hs hm]; rfl
      | hs hh => simp [Mem.applyRec] at hm; subst hm; rfl
      | snap i t =>
        simp only [Mem.applyRec] at hm
        split at hm
        · cases hm; rfl
        · rw [Mem.applySnap_hs hm]; rfl

theorem lastHs_mono (l : List Rec) : ∀ d : HS, TermsMono d.term l →
    d.term ≤ (lastHs d l).term ∧ ∀ h, Rec.hs h ∈ l → h.term ≤ (lastHs d l).term := by
  induction l with
  | nil => intro d _; exact ⟨Nat.le_refl _, by intro h hh; cases hh⟩
  | cons r rs ih =>
    intro d hm
    cases r with
    | hs h' =>
      simp only [TermsMono] at hm
      simp only [lastHs]
      obtain ⟨h1, h2⟩ := ih h' hm.2
      refine ⟨Nat.le_trans hm.1 h1, ?_⟩
      intro h hh
      simp only [List.mem_cons] at hh
      rcases hh with hh | hh
      · cases hh; exact h1
      · exact h2 h hh
    | other =>
      simp only [TermsMono] at hm
      simp only [lastHs]
      obtain ⟨h1, h2⟩ := ih d hm
      refine ⟨h1, ?_⟩
      intro h hh
      simp only [List.mem_cons] at hh
      rcases hh with hh | hh
      · cases hh
      · exact h2 h hh
    | ents f items =>
      simp only [TermsMono] at hm
      simp only [lastHs]
      obtain ⟨h1, h2⟩ := ih d hm
      refine ⟨h1, ?_⟩
      intro h hh
      simp only [List.mem_cons] at hh
      rcases hh with hh | hh
      · cases hh
      · exact h2 h hh
    | snap i t =>
      simp only [TermsMono] at hm
      simp only [lastHs]
      obtain ⟨h1, h2⟩ := ih d hm
      refine ⟨h1, ?_⟩
      intro h hh
      simp only [List.mem_cons] at hh
      rcases hh with hh | hh
      · cases hh
      · exact h2 h hh

/-! ### the log -/

theorem Mem.append_valid (m : Mem) (f : Nat) (items : List Item)
    (h1 : m.baseIdx < f) (h2 : f ≤ m.lastIndex + 1) (h3 : items ≠ []) :
    m.append f items = some { m with ents := m.ents.take (f - m.baseIdx - 1) ++ items } := by
  have h0 : m.baseIdx + 1 - f = 0 := by omega
  have hlen : 0 < items.length := by
    cases items with
    | nil => exact absurd rfl h3
    | cons a t => simp
  have hA : ¬ (f + items.length - 1 < m.baseIdx + 1) := by omega
  have hB : f + 0 - m.baseIdx - 1 ≤ m.ents.length := by
    unfold Mem.lastIndex at h2; omega
  unfold Mem.append
  rw [if_neg h3, if_neg hA, h0, if_pos hB]
  simp

theorem entry_after_append (m : Mem) (f : Nat) (items : List Item)
    (h1 : m.baseIdx < f) (h2 : f ≤ m.lastIndex + 1) (i : Nat) (hi : m.baseIdx < i) :
    ({ m with ents := m.ents.take (f - m.baseIdx - 1) ++ items } : Mem).entry? i =
      if i < f then m.entry? i else items[i - f]? := by
  unfold Mem.lastIndex at h2
  have hk : (m.ents.take (f - m.baseIdx - 1)).length = f - m.baseIdx - 1 := by
    rw [List.length_take]; omega
  unfold Mem.entry?
  have hni : ¬ (i ≤ m.baseIdx) := by omega
  simp only [hni, if_false]
  by_cases hlt : i < f
  · rw [if_pos hlt]
    have : i - m.baseIdx - 1 < (m.ents.take (f - m.baseIdx - 1)).length := by rw [hk]; omega
    rw [List.getElem?_append_left this, List.getElem?_take]
    have : i - m.baseIdx - 1 < f - m.baseIdx - 1 := by omega
    simp [this]
  · rw [if_neg hlt]
    have : (m.ents.take (f - m.baseIdx - 1)).length ≤ i - m.baseIdx - 1 := by rw [hk]; omega
    rw [List.getElem?_append_right this, hk]
    have : i - m.baseIdx - 1 - (f - m.baseIdx - 1) = i - f := by omega
    rw [this]

/-- On a well-formed history the replayed log is the abstract log, above the compaction point. -/
theorem replayFrom_spec (l : List Rec) : ∀ (m m' : Mem) (g : Nat → Option Item),
    (∀ i, m.baseIdx < i → m.entry? i = g i) → ValidFrom m l → replayFrom m l = some m' →
    ∀ i, m'.baseIdx < i → m'.entry? i = specLogFrom g l i := by
  induction l with
  | nil =>
    intro m m' g hg _ hr i hi
    simp [replayFrom] at hr; subst hr
    exact hg i hi
  | cons r rs ih =>
    intro m m' g hg hv hr i hi
    simp only [ValidFrom] at hv
    obtain ⟨hv1, hv2⟩ := hv
    simp only [replayFrom] at hr
    cases hm : m.applyRec r with
    | none => rw [hm] at hr; cases hr
    | some m1 =>
      rw [hm] at hr hv2
      cases r with
      | other =>
        simp [Mem.applyRec] at hm; subst hm
        exact ih m m' g hg hv2 hr i hi
      | hs hh =>
        simp [Mem.applyRec] at hm; subst hm
        simp only [specLogFrom]
        exact ih _ m' g (by intro j hj; exact hg j hj) hv2 hr i hi
      | ents f items =>
        simp only at hv1
        obtain ⟨a1, a2, a3⟩ := hv1
        simp only [Mem.applyRec] at hm
        rw [Mem.append_valid m f items a1 a2 a3] at hm
        cases hm
        simp only [specLogFrom]
        refine ih _ m' _ ?_ hv2 hr i hi
        intro j hj
        rw [entry_after_append m f items a1 a2 j hj]
        by_cases hlt : j < f
        · simp only [hlt, if_true]; exact hg j hj
        · simp only [hlt, if_false]
      | snap idx t =>
        simp only [Mem.applyRec] at hm
        simp only [specLogFrom]
        by_cases h0 : idx = 0
        · rw [if_pos h0] at hm; cases hm
          refine ih m m' _ ?_ hv2 hr i hi
          intro j hj; simp only [h0, if_true]; exact hg j hj
        · rw [if_neg h0] at hm
          unfold Mem.applySnap at hm
          split at hm
          · cases hm
          · cases hm
            refine ih _ m' _ ?_ hv2 hr i hi
            intro j hj
            simp only [h0, if_false]
            simp only [Mem.entry?] at hj ⊢
            split <;> simp

theorem specLogFrom_append (a b : List Rec) : ∀ (g : Nat → Option Item) (i : Nat),
    specLogFrom g (a ++ b) i = specLogFrom (fun j => specLogFrom g a j) b i := by
  induction a with
  | nil => intro g i; rfl
  | cons r rs ih =>
    intro g i
    cases r with
    | other => simp only [List.cons_append, specLogFrom]; exact ih g i
    | hs h => simp only [List.cons_append, specLogFrom]; exact ih g i
    | ents f items => simp only [List.cons_append, specLogFrom]; exact ih _ i
    | snap idx t => simp only [List.cons_append, specLogFrom]; exact ih _ i

end NoKV.Raftwal

/-
The configuration record the extractor fills in for the queue engine: the facts of the coarse
model (`QCfg`), of the close/worker-exit handshake (`HCfg`) and of the Get/Close wait group (`CCfg`).
-/
import NoKVModel.Queue.Model
import NoKVModel.Queue.HandshakeModel
import NoKVModel.Queue.CloserModel
import NoKVModel.Queue.PackModel
import NoKVModel.Queue.CompactModel

namespace NoKV.Queue

structure AllCfg where
  q : QCfg
  h : HCfg
  w : CCfg
  p : PCfg
  k : KCfg
  deriving DecidableEq, Repr

def AllCfg.good : AllCfg := { q := QCfg.good, h := HCfg.good, w := CCfg.good, p := PCfg.good, k := KCfg.good }

end NoKV.Queue

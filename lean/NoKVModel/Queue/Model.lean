/-
E-Conc instance "commit queue": the non-transactional write path of NoKV
(`db.go: SetCF/DelCF/setEntry/GetCF/Close`, `db_write.go: sendToWriteCh/enqueueCommitRequest/
nextCommitBatch/commitWorker/applyRequests/finishCommitRequests/stopCommitWorkers`,
`db_hot.go: maybeThrottleWrite`, `write_request.go: Wait`) as a small-step system.

Threads
* any number `n` of clients (`St.init n`); a client runs one call at a time:
    write:  `hot` (maybeThrottleWrite) → `thr` (throttle wait loop of sendToWriteCh; the
            sleep/poll loop is a guarded step) → `size` (count/size check) → `enq`
            (enqueueCommitRequest: closed test, wait for space, ring push) → `wait` (req.Wait)
    read:   `rd`  (one atomic read of the store)
* one commit worker: `wpop` (first pop of a batch), `wmore` (further pops while the limits
  allow), `wapply` (applyRequests, one request per step, in batch order), `wfail` (the LSM write of the next
  request fails: it and every request behind it in the batch get the error, unapplied), `wack`
  (finishCommitRequests, one request per step), `wexit` (acquireItem returns false)
* `Close`: 0 →(cq.close)→ 1 →(commitWG.Wait)→ 2 →(lsm.Close: throttle released, memtables
  gone)→ 3 →(isClosed := 1, return)→ 4
* environment: `call`, `thrOn`, `thrOff` (L0 throttle callback)

Granularity: `enqueueCommitRequest` is one step here (closed test + push).  The finer protocol
between `enqueueCommitRequest`, `acquireItem` and `commitQueue.close` (counters `inflight`,
`queueLen`, the `items` tokens) is the subject of `Queue/Handshake.lean`.

Ghost state: `hist` (call / linearization / return events, chronological), `lin` per client,
`pcRets` (results of calls issued after `Close` returned).  Never read by a guard.
Core Lean only.
-/
import NoKVModel.Base.Bytes
import NoKVModel.Base.Cfg

namespace NoKV.Queue
open NoKV

/-! ### configuration (facts extracted from the Go source) -/

/-- What `GetCF` answers once `lsm.Close` has dropped the memtables. -/
inductive GetClosed where
  | notfound   -- as-is: `lsm.Get` finds nothing ⇒ `ErrKeyNotFound`
  | closedErr  -- repaired: a "closed" error
  deriving DecidableEq, Repr

structure QCfg where
  /-- `count <op> MaxBatchCount` in `sendToWriteCh` ⇒ ErrTxnTooBig -/
  tooBigCountOp : CmpOp
  /-- `size <op> MaxBatchSize` in `sendToWriteCh` ⇒ ErrTxnTooBig -/
  tooBigSizeOp : CmpOp
  /-- `len(batch) <op> limitCount` in the batch loop of `nextCommitBatch` -/
  batchCountOp : CmpOp
  /-- `pendingBytes <op> limitSize` in the batch loop of `nextCommitBatch` -/
  batchSizeOp : CmpOp
  /-- the throttle wait loop of `sendToWriteCh` tests `isClosed`/`commitQueue.closed` -/
  thrLoopChecksClosed : Bool
  /-- `lsm.Close` calls `throttleWrites(false)` -/
  closeReleasesThrottle : Bool
  /-- `Open` starts exactly one `commitWorker` -/
  singleWorker : Bool
  /-- ring: push at tail / pop at head, `addToBatch` appends -/
  fifoPop : Bool
  /-- `commitWorker`: `finishCommitRequests` after `applyRequests` -/
  ackAfterApply : Bool
  /-- write path order: maybeThrottleWrite → throttle loop → size check → enqueue → Wait -/
  pathOrderStd : Bool
  /-- `closeInternal`: stopCommitWorkers (close queue, wait) → lsm.Close → isClosed := 1 -/
  closeOrderStd : Bool
  /-- `enqueueCommitRequest` tests `commitQueue.closed` before pushing -/
  enqChecksClosed : Bool
  /-- on enqueue failure `sendToWriteCh` leaves the caller's entry reference alone
      (as-is: `req.DecrRef()` releases the entries, the caller releases them again ⇒ panic) -/
  enqFailKeepsRef : Bool
  getClosed : GetClosed
  /-- `applyRequests` returns at the first request whose LSM write fails: the requests behind
      it in the commit batch are not applied (and get the error, like the failing one) -/
  applyStopsAtFailure : Bool
  /-- when `req.Wait()` reports a pipeline error the caller does not release the entry a
      second time (as-is: `setEntry` does ⇒ the call panics instead of returning the error) -/
  waitErrKeepsRef : Bool
  /-- `GetCF` hides exactly tombstones and expired entries (`isDeletedOrExpired(Meta, ExpiresAt)`),
      not entries with a zero-length value -/
  getDeletedStd : Bool
  deriving DecidableEq, Repr

def QCfg.good : QCfg :=
  { tooBigCountOp := .ge, tooBigSizeOp := .ge, batchCountOp := .lt, batchSizeOp := .lt,
    thrLoopChecksClosed := true, closeReleasesThrottle := true, singleWorker := true,
    fifoPop := true, ackAfterApply := true, pathOrderStd := true, closeOrderStd := true,
    enqChecksClosed := true, enqFailKeepsRef := true, getClosed := .closedErr,
    applyStopsAtFailure := true, waitErrKeepsRef := true, getDeletedStd := true }

/-- The structural facts every theorem needs (the two finding flags are kept apart). -/
def QCfg.Struct (c : QCfg) : Prop :=
  c.singleWorker = true ∧ c.ackAfterApply = true ∧ c.pathOrderStd = true ∧
  c.closeOrderStd = true ∧ c.enqChecksClosed = true ∧
  c.thrLoopChecksClosed = true ∧ c.closeReleasesThrottle = true ∧
  c.applyStopsAtFailure = true ∧ c.getDeletedStd = true

instance QCfg.decStruct (c : QCfg) : Decidable c.Struct := by unfold QCfg.Struct; exact inferInstance

/-- C34 needs both repairs. -/
def QCfg.Good (c : QCfg) : Prop :=
  c.Struct ∧ c.enqFailKeepsRef = true ∧ c.getClosed = .closedErr ∧ c.waitErrKeepsRef = true

instance QCfg.decGood (c : QCfg) : Decidable c.Good := by unfold QCfg.Good; exact inferInstance

/-- C37 needs the write-path repair only. -/
def QCfg.GoodLive (c : QCfg) : Prop := c.Struct ∧ c.enqFailKeepsRef = true ∧ c.waitErrKeepsRef = true

instance QCfg.decGoodLive (c : QCfg) : Decidable c.GoodLive := by unfold QCfg.GoodLive; exact inferInstance

/-- Options of one DB instance (not facts: chosen per case by the harness). -/
structure Params where
  cap : Nat := 1024            -- ring capacity
  maxBatchCount : Nat := 64    -- Options.MaxBatchCount
  maxBatchSize : Nat := 1048576
  wbCount : Nat := 64          -- Options.WriteBatchMaxCount
  wbSize : Nat := 1048576
  hotLimit : Nat := 0          -- Options.WriteHotKeyLimit (0 = off)
  valThreshold : Nat := 1024
  deriving DecidableEq, Repr

/-! ### data -/

abbrev Key := Bytes
abbrev Val := Bytes

inductive Op where
  | set (k : Key) (v : Val)
  | del (k : Key)
  | get (k : Key)
  deriving DecidableEq, Repr

def Op.key : Op → Key
  | .set k _ => k
  | .del k => k
  | .get k => k

def Op.isWrite : Op → Bool
  | .get _ => false
  | _ => true

inductive Res where
  | ok | val (v : Val) | notfound
  | emptykey | hot | toobig | blocked | closedErr | ioerr
  | panic
  deriving DecidableEq, Repr

/-- error returns a call may legitimately produce (no effect). `panic` is not one. -/
def Res.isErr : Res → Bool
  | .emptykey | .hot | .toobig | .blocked | .closedErr | .ioerr => true
  | _ => false

/-- The abstract per-key register store: newest binding first, `none` = tombstone. -/
abbrev Store := List (Key × Option Val)

def Store.read (s : Store) (k : Key) : Res :=
  match s.find? (fun e => e.1 == k) with
  | some (_, some v) => .val v
  | _ => .notfound

/-- The sequential register semantics of one operation. -/
def applyOp (s : Store) : Op → Res × Store
  | .set k v => (.ok, (k, some v) :: s)
  | .del k => (.ok, (k, none) :: s)
  | .get k => (Store.read s k, s)

inductive Ev where
  | call (t : Nat) (op : Op)
  | lin (t : Nat) (r : Res)
  | ret (t : Nat) (r : Res)
  deriving DecidableEq, Repr

inductive Pc where
  | idle | hot | thr | size | enq | wait | rd
  deriving DecidableEq, Repr

structure Client where
  pc : Pc := .idle
  op : Op := .get []
  lin : Option Res := none   -- ghost
  acked : Bool := false
  failed : Bool := false     -- the commit pipeline reported an error for this request
  postClose : Bool := false  -- ghost: the call was issued after Close returned
  deriving DecidableEq, Repr

inductive WPh where
  | idle | collect | applying | failing | acking | done
  deriving DecidableEq, Repr

structure St where
  clients : List Client := []
  store : Store := []
  queue : List Nat := []
  batch : List Nat := []
  applied : List Nat := []
  wph : WPh := .idle
  limCount : Nat := 0       -- limits of the batch being collected (fixed at its first pop)
  limSize : Nat := 0
  clPc : Nat := 0
  throttle : Bool := false
  hotCnt : List (Key × Nat) := []
  hist : List Ev := []      -- ghost
  pcRets : List Res := []   -- ghost
  deriving Repr

def St.init (n : Nat) : St := { clients := List.replicate n {} }

inductive Act where
  | call (t : Nat) (op : Op)
  | cstep (t : Nat)
  | wpop | wmore | wapply | wfail | wack | wexit
  | close
  | thrOn | thrOff
  deriving DecidableEq, Repr

/-- steps of the system itself (everything but the environment's) -/
def Act.internal : Act → Bool
  | .cstep _ | .wpop | .wmore | .wapply | .wfail | .wack | .wexit | .close => true
  | _ => false

/-! ### helpers -/

def hotCount (h : List (Key × Nat)) (k : Key) : Nat :=
  match h.find? (fun e => e.1 == k) with
  | some (_, n) => n
  | none => 0

/-- `HotRing.TouchAndClamp` without window/decay/rotation: returns (new table, limited). -/
def touchAndClamp (h : List (Key × Nat)) (k : Key) (limit : Nat) : List (Key × Nat) × Bool :=
  let cur := hotCount h k
  if cur ≥ limit then (h, true)
  else ((k, cur + 1) :: h, decide (cur + 1 ≥ limit))

/-- `Entry.EstimateSize` of the single entry of a plain write; the internal key is
    4 (CF header) + len(key) + 8 (version). -/
def entrySize (p : Params) : Op → Nat
  | .set k v => (4 + k.length + 8) + (if v.length < p.valThreshold then v.length else 12) + 1
  | .del k => (4 + k.length + 8) + (if 0 < p.valThreshold then 0 else 12) + 1
  | .get _ => 0

def tooBig (c : QCfg) (p : Params) (op : Op) : Bool :=
  c.tooBigCountOp.nat 1 p.maxBatchCount || c.tooBigSizeOp.nat (entrySize p op) p.maxBatchSize

def batchBytes (p : Params) (cl : List Client) (b : List Nat) : Nat :=
  (b.map (fun t => match cl[t]? with | some c => entrySize p c.op | none => 0)).sum

/-- `nextCommitBatch`: the count/size limits of a batch, adapted to the backlog seen when the
batch is started (`backlog > limitCount ⇒ factor = min(max(backlog/limitCount,1),4)`) -/
def batchLimits (p : Params) (backlog : Nat) : Nat × Nat :=
  if backlog > p.wbCount ∧ p.wbCount > 0 then
    let f := min (max (backlog / p.wbCount) 1) 4
    (min (p.wbCount * f) backlog, p.wbSize * f)
  else (p.wbCount, p.wbSize)

def St.setClient (s : St) (t : Nat) (cl : Client) : St := { s with clients := s.clients.set t cl }

def St.emit (s : St) (evs : List Ev) : St := { s with hist := s.hist ++ evs }

/-- return `r` from client `cl` (slot `t`) -/
def St.ret (s : St) (t : Nat) (cl : Client) (r : Res) : St :=
  { s with clients := s.clients.set t { cl with pc := .idle, lin := none, acked := false, failed := false },
           hist := s.hist ++ [.ret t r],
           pcRets := if cl.postClose then s.pcRets ++ [r] else s.pcRets }

def closedSeen (s : St) : Bool := decide (1 ≤ s.clPc)

/-! ### the step function -/

def clientStep (c : QCfg) (p : Params) (s : St) (t : Nat) (cl : Client) : Option St :=
  match cl.pc with
  | .idle => none
  | .hot =>
    if p.hotLimit = 0 then some (s.setClient t { cl with pc := .thr })
    else
      let r := touchAndClamp s.hotCnt cl.op.key p.hotLimit
      if r.2 then some ({ s with hotCnt := r.1 }.ret t cl .hot)
      else some ({ s with hotCnt := r.1 }.setClient t { cl with pc := .thr })
  | .thr =>
    if s.throttle then
      (if c.thrLoopChecksClosed && closedSeen s then some (s.ret t cl .blocked) else none)
    else some (s.setClient t { cl with pc := .size })
  | .size =>
    if tooBig c p cl.op then some (s.ret t cl .toobig)
    else some (s.setClient t { cl with pc := .enq })
  | .enq =>
    if closedSeen s then
      (if c.enqChecksClosed then some (s.ret t cl (if c.enqFailKeepsRef then .blocked else .panic))
       else none)
    else if s.queue.length < p.cap then
      some ({ s with queue := s.queue ++ [t] }.setClient t { cl with pc := .wait })
    else none
  | .wait =>
    if cl.acked then
      some (s.ret t cl (if cl.failed then (if c.waitErrKeepsRef then .ioerr else .panic) else .ok))
    else none
  | .rd =>
    if s.clPc < 3 then
      let r := Store.read s.store cl.op.key
      some ((s.emit [.lin t r]).ret t cl r)
    else
      match c.getClosed with
      | .notfound => some ((s.emit [.lin t .notfound]).ret t cl .notfound)
      | .closedErr => some (s.ret t cl .closedErr)

def step (c : QCfg) (p : Params) (s : St) : Act → Option St
  | .call t op =>
    match s.clients[t]? with
    | none => none
    | some cl =>
      if cl.pc ≠ .idle then none
      else
        let cl' : Client := { cl with op := op, postClose := decide (s.clPc = 4) }
        if op.key = [] then
          some ((s.emit [.call t op]).ret t cl' .emptykey)
        else
          some ((s.emit [.call t op]).setClient t
            { cl' with pc := if op.isWrite then .hot else .rd })
  | .cstep t =>
    match s.clients[t]? with
    | none => none
    | some cl => clientStep c p s t cl
  | .wpop =>
    if s.wph = .idle then
      match s.queue with
      | [] => none
      | t :: q => some { s with queue := q, batch := [t], wph := .collect,
                                limCount := (batchLimits p s.queue.length).1,
                                limSize := (batchLimits p s.queue.length).2 }
    else none
  | .wmore =>
    if s.wph = .collect ∧ c.batchCountOp.nat s.batch.length s.limCount
        ∧ c.batchSizeOp.nat (batchBytes p s.clients s.batch) s.limSize then
      match s.queue with
      | [] => none
      | t :: q => some { s with queue := q, batch := s.batch ++ [t] }
    else none
  | .wapply =>
    if s.wph = .collect ∨ s.wph = .applying then
      match s.batch with
      | [] => none
      | t :: b =>
        match s.clients[t]? with
        | none => none
        | some cl =>
          some { s with store := (applyOp s.store cl.op).2,
                        clients := s.clients.set t { cl with lin := some .ok },
                        batch := b, applied := s.applied ++ [t],
                        wph := if b = [] then .acking else .applying,
                        hist := s.hist ++ [.lin t .ok] }
    else none
  | .wfail =>
    -- the LSM write of the head of the batch fails (or the batch is already failing):
    -- stop-at-first-failure — this request and every request behind it get the error,
    -- none of them is applied
    if (s.wph = .collect ∨ s.wph = .applying ∨ s.wph = .failing) ∧ c.applyStopsAtFailure then
      match s.batch with
      | [] => none
      | t :: b =>
        match s.clients[t]? with
        | none => none
        | some cl =>
          some { s with clients := s.clients.set t { cl with failed := true },
                        batch := b, applied := s.applied ++ [t],
                        wph := if b = [] then .acking else .failing }
    else none
  | .wack =>
    if s.wph = .acking then
      match s.applied with
      | [] => none
      | t :: a =>
        match s.clients[t]? with
        | none => none
        | some cl =>
          some { s with clients := s.clients.set t { cl with acked := true },
                        applied := a, wph := if a = [] then .idle else .acking }
    else none
  | .wexit =>
    if s.wph = .idle ∧ 1 ≤ s.clPc ∧ s.queue = [] then some { s with wph := .done } else none
  | .close =>
    if s.clPc = 0 then some { s with clPc := 1 }
    else if s.clPc = 1 then (if s.wph = .done then some { s with clPc := 2 } else none)
    else if s.clPc = 2 then
      some { s with clPc := 3, throttle := if c.closeReleasesThrottle then false else s.throttle }
    else if s.clPc = 3 then some { s with clPc := 4 }
    else none
  | .thrOn => if s.clPc < 3 then some { s with throttle := true } else none
  | .thrOff => some { s with throttle := false }

def run (c : QCfg) (p : Params) : St → List Act → Option St
  | s, [] => some s
  | s, a :: as =>
    match step c p s a with
    | some s' => run c p s' as
    | none => none

/-- All states of all schedules, any number of clients. -/
def Reachable (c : QCfg) (p : Params) (s : St) : Prop :=
  ∃ n acts, run c p (St.init n) acts = some s

theorem Reachable.init (c : QCfg) (p : Params) (n : Nat) : Reachable c p (St.init n) :=
  ⟨n, [], rfl⟩

theorem run_append (c : QCfg) (p : Params) (s : St) (as bs : List Act) :
    run c p s (as ++ bs) = (run c p s as).bind (fun s' => run c p s' bs) := by
  induction as generalizing s with
  | nil => simp [run]
  | cons a as ih =>
    simp only [List.cons_append, run]
    cases step c p s a with
    | none => simp
    | some s' => simp [ih]

theorem Reachable.next {c : QCfg} {p : Params} {s s' : St} {a : Act}
    (h : Reachable c p s) (hs : Queue.step c p s a = some s') : Reachable c p s' := by
  obtain ⟨n, acts, hr⟩ := h
  refine ⟨n, acts ++ [a], ?_⟩
  rw [run_append, hr]
  simp [run, hs]

/-- Induction principle over reachable states. -/
theorem Reachable.induct {c : QCfg} {p : Params} (P : St → Prop)
    (h0 : ∀ n, P (St.init n))
    (hstep : ∀ s a s', Reachable c p s → P s → Queue.step c p s a = some s' → P s')
    {s : St} (h : Reachable c p s) : P s := by
  obtain ⟨n, acts, hr⟩ := h
  suffices H : ∀ (acts : List Act) (s0 : St), Reachable c p s0 → P s0 →
      ∀ s, run c p s0 acts = some s → P s from H acts _ (Reachable.init c p n) (h0 n) s hr
  intro acts
  induction acts with
  | nil => intro s0 _ hp s h; simp [run] at h; subst h; exact hp
  | cons a as ih =>
    intro s0 hr0 hp s h
    simp only [run] at h
    cases hs : Queue.step c p s0 a with
    | none => simp [hs] at h
    | some s1 =>
      simp only [hs] at h
      exact ih s1 (hr0.next hs) (hstep s0 a s1 hr0 hp hs) s h

/-! ### the specification: an atomic register object with linearization points -/

inductive Phase where
  | idle
  | pending (op : Op)
  | done (r : Res)
  deriving DecidableEq, Repr

structure Spec where
  store : Store
  ph : List Phase
  deriving DecidableEq, Repr

/-- One event of an annotated history, checked against the atomic register object:
* `call`: the thread must be idle;
* `lin` : the thread has a pending operation, the result is the one the sequential register
          gives *now*, and the store changes *now* (exactly once per call);
* `ret` : either the value fixed at the linearization point, or — with no linearization point
          at all, hence no effect — one of the error classes. -/
def Spec.step (a : Spec) : Ev → Option Spec
  | .call t op =>
    match a.ph[t]? with
    | some .idle => some { a with ph := a.ph.set t (.pending op) }
    | _ => none
  | .lin t r =>
    match a.ph[t]? with
    | some (.pending op) =>
      if (applyOp a.store op).1 = r then
        some { store := (applyOp a.store op).2, ph := a.ph.set t (.done r) }
      else none
    | _ => none
  | .ret t r =>
    match a.ph[t]? with
    | some (.done r') => if r = r' then some { a with ph := a.ph.set t .idle } else none
    | some (.pending _) => if r.isErr then some { a with ph := a.ph.set t .idle } else none
    | _ => none

def Spec.run (a : Spec) : List Ev → Option Spec
  | [] => some a
  | e :: es =>
    match a.step e with
    | some a' => Spec.run a' es
    | none => none

/-- A history is accepted when the register object can follow it from the empty store. -/
def Spec.init (n : Nat) : Spec := { store := [], ph := List.replicate n .idle }

def phaseOf (cl : Client) : Phase :=
  if cl.pc = .idle then .idle
  else match cl.lin with
    | some r => .done r
    | none => .pending cl.op

def abs (s : St) : Spec := { store := s.store, ph := s.clients.map phaseOf }

end NoKV.Queue

/-
Invariants of the commit-queue model and the simulation of the atomic register object
(helper lemmas for Props/C34.lean and Props/C37.lean).
-/
import NoKVModel.Queue.Model

namespace NoKV.Queue

/-- Bookkeeping invariant behind linearizability: where a request sits (queue / batch /
applied) determines the ghost linearization flag and the ack flag of its client. -/
structure InvA (s : St) : Prop where
  qb : ∀ (t : Nat) (cl : Client), s.clients[t]? = some cl → t ∈ s.queue ++ s.batch →
        cl.pc = .wait ∧ cl.lin = none ∧ cl.acked = false ∧ cl.failed = false
  ap : ∀ (t : Nat) (cl : Client), s.clients[t]? = some cl → t ∈ s.applied →
        cl.pc = .wait ∧ cl.acked = false ∧
        ((cl.failed = false ∧ cl.lin = some .ok) ∨ (cl.failed = true ∧ cl.lin = none))
  bq : ∀ t ∈ s.queue, t < s.clients.length
  bb : ∀ t ∈ s.batch, t < s.clients.length
  ba : ∀ t ∈ s.applied, t < s.clients.length
  nd : (s.queue ++ s.batch ++ s.applied).Nodup
  nw : ∀ (t : Nat) (cl : Client), s.clients[t]? = some cl → cl.pc ≠ .wait →
        cl.lin = none ∧ cl.acked = false ∧ cl.failed = false
  al : ∀ (t : Nat) (cl : Client), s.clients[t]? = some cl → cl.acked = true →
        ((cl.failed = false ∧ cl.lin = some .ok) ∨ (cl.failed = true ∧ cl.lin = none))
  wr : ∀ (t : Nat) (cl : Client), s.clients[t]? = some cl →
        (cl.pc = .rd → cl.op.isWrite = false) ∧ (cl.pc ≠ .rd → cl.pc ≠ .idle → cl.op.isWrite = true)

/-- Worker phases, Close progress, throttle, and the ghost "issued after Close" flag. -/
structure InvW (c : QCfg) (s : St) : Prop where
  fw : ∀ (t : Nat) (cl : Client), s.clients[t]? = some cl → cl.pc = .wait → cl.acked = false →
        t ∈ s.queue ++ s.batch ++ s.applied
  w1 : s.wph = .idle → s.batch = [] ∧ s.applied = []
  w2 : s.wph = .collect → s.batch ≠ [] ∧ s.applied = []
  w3 : s.wph = .applying → s.batch ≠ []
  w3f : s.wph = .failing → s.batch ≠ []
  w4 : s.wph = .acking → s.batch = [] ∧ s.applied ≠ []
  w5 : s.wph = .done → s.queue = [] ∧ s.batch = [] ∧ s.applied = [] ∧ 1 ≤ s.clPc
  k : 2 ≤ s.clPc → s.wph = .done
  th : c.closeReleasesThrottle = true → 3 ≤ s.clPc → s.throttle = false
  cp : s.clPc ≤ 4
  pc4 : ∀ (t : Nat) (cl : Client), s.clients[t]? = some cl → cl.postClose = true → cl.pc ≠ .idle → s.clPc = 4
  pw : ∀ (t : Nat) (cl : Client), s.clients[t]? = some cl → cl.postClose = true → cl.pc ≠ .wait
  pr : c.enqFailKeepsRef = true → ∀ r ∈ s.pcRets,
        r = .blocked ∨ r = .hot ∨ r = .toobig ∨ r = .emptykey ∨ r = .closedErr ∨ r = .notfound

theorem invA_init (n : Nat) : InvA (St.init n) := by
  constructor <;> simp [St.init, List.getElem?_replicate] <;> grind

theorem invW_init (c : QCfg) (n : Nat) : InvW c (St.init n) := by
  constructor <;> simp [St.init, List.getElem?_replicate] <;> grind

set_option maxHeartbeats 1000000 in
theorem invA_call (c : QCfg) (p : Params) (s s' : St) (t : Nat) (op : Op) (hi : InvA s)
    (hs : step c p s (.call t op) = some s') : InvA s' := by
  obtain ⟨qb, ap, bq, bb, ba, nd, nw, al, wr⟩ := hi
  simp only [step, clientStep, St.ret, St.setClient, St.emit] at hs
  (repeat' (split at hs))
  all_goals (first | contradiction | skip)
  all_goals (injection hs with hs; subst hs)
  all_goals (constructor <;> simp only [] <;> grind)

set_option maxHeartbeats 1000000 in
theorem invA_cstep (c : QCfg) (p : Params) (s s' : St) (t : Nat) (hi : InvA s)
    (hs : step c p s (.cstep t) = some s') : InvA s' := by
  obtain ⟨qb, ap, bq, bb, ba, nd, nw, al, wr⟩ := hi
  simp only [step, clientStep, St.ret, St.setClient, St.emit] at hs
  (repeat' (split at hs))
  all_goals (first | contradiction | skip)
  all_goals (injection hs with hs; subst hs)
  all_goals (constructor <;> simp only [] <;> grind)

set_option maxHeartbeats 1000000 in
theorem invA_wpop (c : QCfg) (p : Params) (s s' : St)  (hi : InvA s)
    (hs : step c p s .wpop = some s') : InvA s' := by
  obtain ⟨qb, ap, bq, bb, ba, nd, nw, al, wr⟩ := hi
  simp only [step, clientStep, St.ret, St.setClient, St.emit] at hs
  (repeat' (split at hs))
  all_goals (first | contradiction | skip)
  all_goals (injection hs with hs; subst hs)
  all_goals (constructor <;> simp only [] <;> grind)

set_option maxHeartbeats 1000000 in
theorem invA_wmore (c : QCfg) (p : Params) (s s' : St)  (hi : InvA s)
    (hs : step c p s .wmore = some s') : InvA s' := by
  obtain ⟨qb, ap, bq, bb, ba, nd, nw, al, wr⟩ := hi
  simp only [step, clientStep, St.ret, St.setClient, St.emit] at hs
  (repeat' (split at hs))
  all_goals (first | contradiction | skip)
  all_goals (injection hs with hs; subst hs)
  all_goals (constructor <;> simp only [] <;> grind)

set_option maxHeartbeats 1000000 in
theorem invA_wapply (c : QCfg) (p : Params) (s s' : St)  (hi : InvA s)
    (hs : step c p s .wapply = some s') : InvA s' := by
  obtain ⟨qb, ap, bq, bb, ba, nd, nw, al, wr⟩ := hi
  simp only [step, clientStep, St.ret, St.setClient, St.emit] at hs
  (repeat' (split at hs))
  all_goals (first | contradiction | skip)
  all_goals (injection hs with hs; subst hs)
  all_goals (constructor <;> simp only [] <;> grind)

set_option maxHeartbeats 1000000 in
theorem invA_wfail (c : QCfg) (p : Params) (s s' : St)  (hi : InvA s)
    (hs : step c p s .wfail = some s') : InvA s' := by
  obtain ⟨qb, ap, bq, bb, ba, nd, nw, al, wr⟩ := hi
  simp only [step, clientStep, St.ret, St.setClient, St.emit] at hs
  (repeat' (split at hs))
  all_goals (first | contradiction | skip)
  all_goals (injection hs with hs; subst hs)
  all_goals (constructor <;> simp only [] <;> grind)

set_option maxHeartbeats 1000000 in
theorem invA_wack (c : QCfg) (p : Params) (s s' : St)  (hi : InvA s)
    (hs : step c p s .wack = some s') : InvA s' := by
  obtain ⟨qb, ap, bq, bb, ba, nd, nw, al, wr⟩ := hi
  simp only [step, clientStep, St.ret, St.setClient, St.emit] at hs
  (repeat' (split at hs))
  all_goals (first | contradiction | skip)
  all_goals (injection hs with hs; subst hs)
  all_goals (constructor <;> simp only [] <;> grind)

set_option maxHeartbeats 1000000 in
theorem invA_wexit (c : QCfg) (p : Params) (s s' : St)  (hi : InvA s)
    (hs : step c p s .wexit = some s') : InvA s' := by
  obtain ⟨qb, ap, bq, bb, ba, nd, nw, al, wr⟩ := hi
  simp only [step, clientStep, St.ret, St.setClient, St.emit] at hs
  (repeat' (split at hs))
  all_goals (first | contradiction | skip)
  all_goals (injection hs with hs; subst hs)
  all_goals (constructor <;> simp only [] <;> grind)

set_option maxHeartbeats 1000000 in
theorem invA_close (c : QCfg) (p : Params) (s s' : St)  (hi : InvA s)
    (hs : step c p s .close = some s') : InvA s' := by
  obtain ⟨qb, ap, bq, bb, ba, nd, nw, al, wr⟩ := hi
  simp only [step, clientStep, St.ret, St.setClient, St.emit] at hs
  (repeat' (split at hs))
  all_goals (first | contradiction | skip)
  all_goals (injection hs with hs; subst hs)
  all_goals (constructor <;> simp only [] <;> grind)

set_option maxHeartbeats 1000000 in
theorem invA_thrOn (c : QCfg) (p : Params) (s s' : St)  (hi : InvA s)
    (hs : step c p s .thrOn = some s') : InvA s' := by
  obtain ⟨qb, ap, bq, bb, ba, nd, nw, al, wr⟩ := hi
  simp only [step, clientStep, St.ret, St.setClient, St.emit] at hs
  (repeat' (split at hs))
  all_goals (first | contradiction | skip)
  all_goals (injection hs with hs; subst hs)
  all_goals (constructor <;> simp only [] <;> grind)

set_option maxHeartbeats 1000000 in
theorem invA_thrOff (c : QCfg) (p : Params) (s s' : St)  (hi : InvA s)
    (hs : step c p s .thrOff = some s') : InvA s' := by
  obtain ⟨qb, ap, bq, bb, ba, nd, nw, al, wr⟩ := hi
  simp only [step, clientStep, St.ret, St.setClient, St.emit] at hs
  (repeat' (split at hs))
  all_goals (first | contradiction | skip)
  all_goals (injection hs with hs; subst hs)
  all_goals (constructor <;> simp only [] <;> grind)

theorem invA_step (c : QCfg) (p : Params) (s s' : St) (a : Act) (hi : InvA s)
    (hs : step c p s a = some s') : InvA s' := by
  cases a with
  | call t op => exact invA_call c p s s' t op hi hs
  | cstep t => exact invA_cstep c p s s' t hi hs
  | wpop => exact invA_wpop c p s s' hi hs
  | wmore => exact invA_wmore c p s s' hi hs
  | wapply => exact invA_wapply c p s s' hi hs
  | wfail => exact invA_wfail c p s s' hi hs
  | wack => exact invA_wack c p s s' hi hs
  | wexit => exact invA_wexit c p s s' hi hs
  | close => exact invA_close c p s s' hi hs
  | thrOn => exact invA_thrOn c p s s' hi hs
  | thrOff => exact invA_thrOff c p s s' hi hs

set_option maxHeartbeats 1000000 in
theorem invW_step (c : QCfg) (p : Params) (s s' : St) (a : Act) (hi : InvW c s)
    (hs : step c p s a = some s') : InvW c s' := by
  obtain ⟨fw, w1, w2, w3, w3f, w4, w5, k, th, cp, pc4, pw, pr⟩ := hi
  cases a <;> simp only [step, clientStep, St.ret, St.setClient, St.emit] at hs <;>
    (repeat' (split at hs))
  all_goals (first | contradiction | skip)
  all_goals (injection hs with hs; subst hs)
  all_goals (constructor <;> simp only [] <;> grind [closedSeen])

/-! ### simulation of the register object -/

def newEvs (s s' : St) : List Ev := s'.hist.drop s.hist.length

theorem applyOp_write (st : Store) (op : Op) (h : op.isWrite = true) : (applyOp st op).1 = .ok := by
  cases op <;> simp_all [applyOp, Op.isWrite]

theorem applyOp_get (st : Store) (op : Op) (h : op.isWrite = false) :
    applyOp st op = (Store.read st op.key, st) := by
  cases op <;> simp_all [applyOp, Op.isWrite, Op.key]

section spec
variable {st : Store} {cls : List Client} {t : Nat} {cl cl' : Client}

theorem map_set_phase (h : cls[t]? = some cl) (hp : phaseOf cl' = phaseOf cl) :
    (cls.set t cl').map phaseOf = cls.map phaseOf := by
  rw [List.map_set]
  apply List.ext_getElem?
  intro i
  rw [List.getElem?_set]
  by_cases hi : t = i
  · subst hi
    obtain ⟨hlt, hcl⟩ := List.getElem?_eq_some_iff.mp h
    simp [hlt, hcl, hp]
  · simp [hi]

theorem phase_idle (h : cl.pc = .idle) : phaseOf cl = .idle := by simp [phaseOf, h]
theorem phase_pending (h : cl.pc ≠ .idle) (hl : cl.lin = none) : phaseOf cl = .pending cl.op := by
  simp [phaseOf, h, hl]
theorem phase_done {r : Res} (h : cl.pc ≠ .idle) (hl : cl.lin = some r) : phaseOf cl = .done r := by
  simp [phaseOf, h, hl]

theorem L_stutter (h : cls[t]? = some cl) (hp : cl'.pc = .idle ↔ cl.pc = .idle) (hl : cl'.lin = cl.lin)
    (ho : cl'.op = cl.op) :
    Spec.run ⟨st, cls.map phaseOf⟩ [] = some ⟨st, (cls.set t cl').map phaseOf⟩ := by
  have : phaseOf cl' = phaseOf cl := by
    unfold phaseOf
    by_cases hi : cl.pc = .idle
    · simp [hi, hp.mpr hi]
    · have : cl'.pc ≠ .idle := fun h' => hi (hp.mp h')
      simp [hi, this, hl, ho]
  simp [Spec.run, map_set_phase h this]

theorem L_call {op : Op} (h : cls[t]? = some cl) (h1 : cl.pc = .idle) (h2 : cl'.pc ≠ .idle)
    (h3 : cl'.lin = none) (h4 : cl'.op = op) :
    Spec.run ⟨st, cls.map phaseOf⟩ [.call t op] = some ⟨st, (cls.set t cl').map phaseOf⟩ := by
  simp [Spec.run, Spec.step, h, phase_idle h1, List.map_set, phase_pending h2 h3, h4]

theorem L_call_ret {op : Op} {r : Res} (h : cls[t]? = some cl) (h1 : cl.pc = .idle) (h2 : cl'.pc = .idle)
    (h3 : r.isErr = true) :
    Spec.run ⟨st, cls.map phaseOf⟩ [.call t op, .ret t r] = some ⟨st, (cls.set t cl').map phaseOf⟩ := by
  obtain ⟨hlt, hcl⟩ := List.getElem?_eq_some_iff.mp h
  simp [Spec.run, Spec.step, h, phase_idle h1, List.map_set, phase_idle h2, hlt, hcl, h3]

theorem L_ret_err {r : Res} (h : cls[t]? = some cl) (h1 : cl.pc ≠ .idle) (h2 : cl.lin = none)
    (h3 : r.isErr = true) (h4 : cl'.pc = .idle) :
    Spec.run ⟨st, cls.map phaseOf⟩ [.ret t r] = some ⟨st, (cls.set t cl').map phaseOf⟩ := by
  simp [Spec.run, Spec.step, h, phase_pending h1 h2, List.map_set, phase_idle h4, h3]

theorem L_ret_done {r : Res} (h : cls[t]? = some cl) (h1 : cl.pc ≠ .idle) (h2 : cl.lin = some r)
    (h4 : cl'.pc = .idle) :
    Spec.run ⟨st, cls.map phaseOf⟩ [.ret t r] = some ⟨st, (cls.set t cl').map phaseOf⟩ := by
  simp [Spec.run, Spec.step, h, phase_done h1 h2, List.map_set, phase_idle h4]

theorem L_lin {r : Res} (h : cls[t]? = some cl) (h1 : cl.pc ≠ .idle) (h2 : cl.lin = none)
    (h3 : (applyOp st cl.op).1 = r) (h4 : cl'.pc ≠ .idle) (h5 : cl'.lin = some r) :
    Spec.run ⟨st, cls.map phaseOf⟩ [.lin t r] = some ⟨(applyOp st cl.op).2, (cls.set t cl').map phaseOf⟩ := by
  simp [Spec.run, Spec.step, h, phase_pending h1 h2, List.map_set, phase_done h4 h5, h3]

theorem L_lin_ret {r : Res} (h : cls[t]? = some cl) (h1 : cl.pc ≠ .idle) (h2 : cl.lin = none)
    (h3 : applyOp st cl.op = (r, st)) (h4 : cl'.pc = .idle) :
    Spec.run ⟨st, cls.map phaseOf⟩ [.lin t r, .ret t r] = some ⟨st, (cls.set t cl').map phaseOf⟩ := by
  obtain ⟨hlt, hcl⟩ := List.getElem?_eq_some_iff.mp h
  simp [Spec.run, Spec.step, h, phase_pending h1 h2, List.map_set, phase_idle h4, h3, hlt, hcl]

end spec


set_option maxHeartbeats 1000000 in
/-- Every step of the model is matched by the events it appends to the history: the register
object accepts them from `abs s` and ends in `abs s'`. -/
theorem sim_step (c : QCfg) (hc : c.Struct) (p : Params) (s s' : St) (a : Act) (hi : InvA s)
    (hs : step c p s a = some s')
    (hf : (c.enqFailKeepsRef = true ∧ c.getClosed = .closedErr) ∨ s'.clPc = 0)
    (hwk : c.waitErrKeepsRef = true) :
    s'.hist = s.hist ++ newEvs s s' ∧ Spec.run (abs s) (newEvs s s') = some (abs s') := by
  obtain ⟨qb, ap, bq, bb, ba, nd, nw, al, wr⟩ := hi
  obtain ⟨h1, h2, h3, h4, h5, h6, h7, h8', h9'⟩ := hc
  cases a <;> simp only [step, clientStep, St.ret, St.setClient, St.emit] at hs <;>
    (repeat' (split at hs))
  all_goals (first | contradiction | skip)
  all_goals (injection hs with hs; subst hs)
  all_goals (simp only [newEvs, List.append_assoc, List.drop_left, List.drop_length,
    List.append_nil, true_and])
  all_goals (clear nd bq bb ba)
  all_goals (simp only [abs, List.cons_append, List.nil_append])
  all_goals first
    | rfl
    | (apply L_stutter (by assumption) <;> grind)
    | (apply L_call (by assumption) <;> grind)
    | (apply L_call_ret (by assumption) <;> grind [Res.isErr])
    | (apply L_ret_err (by assumption) <;> grind [Res.isErr, closedSeen])
    | (apply L_ret_done (by assumption) <;> grind)
    | (apply L_lin_ret (by assumption) <;> grind [applyOp_get])
    | (apply L_lin (by assumption) <;> grind [applyOp_write])

theorem Spec.run_append (a : Spec) (xs ys : List Ev) :
    Spec.run a (xs ++ ys) = (Spec.run a xs).bind (fun a' => Spec.run a' ys) := by
  induction xs generalizing a with
  | nil => simp [Spec.run]
  | cons x xs ih =>
    simp only [List.cons_append, Spec.run]
    cases a.step x with
    | none => simp
    | some a' => simp [ih]

theorem abs_init (n : Nat) : abs (St.init n) = Spec.init n := by
  simp [abs, St.init, Spec.init, phaseOf]

theorem inv_reachable {c : QCfg} {p : Params} {s : St} (h : Reachable c p s) : InvA s ∧ InvW c s := by
  refine Reachable.induct (c := c) (p := p) (fun s => InvA s ∧ InvW c s) ?_ ?_ h
  · intro n; exact ⟨invA_init n, invW_init c n⟩
  · intro s a s' _ hi hs
    exact ⟨invA_step c p s s' a hi.1 hs, invW_step c p s s' a hi.2 hs⟩

theorem step_length (c : QCfg) (p : Params) (s s' : St) (a : Act) (hs : step c p s a = some s') :
    s'.clients.length = s.clients.length ∧ s.clPc ≤ s'.clPc := by
  cases a <;> simp only [step, clientStep, St.ret, St.setClient, St.emit] at hs <;>
    (repeat' (split at hs))
  all_goals (first | contradiction | skip)
  all_goals (injection hs with hs; subst hs)
  all_goals (simp <;> omega)

/-- The annotated history of every reachable state is accepted by the register object, which
ends in the abstraction of the state.  `hf`: both repairs present, or `Close` not started. -/
theorem hist_accepted {c : QCfg} (hc : c.Struct) (hwk : c.waitErrKeepsRef = true) {p : Params} {s : St}
    (h : Reachable c p s)
    (hf : (c.enqFailKeepsRef = true ∧ c.getClosed = .closedErr) ∨ s.clPc = 0) :
    Spec.run (Spec.init s.clients.length) s.hist = some (abs s) := by
  revert hf
  refine Reachable.induct (c := c) (p := p)
    (fun s => ((c.enqFailKeepsRef = true ∧ c.getClosed = .closedErr) ∨ s.clPc = 0) →
      Spec.run (Spec.init s.clients.length) s.hist = some (abs s)) ?_ ?_ h
  · intro n _
    have hl : (St.init n).clients.length = n := by simp [St.init]
    rw [hl, ← abs_init n]
    simp [St.init, Spec.run]
  · intro s a s' hr ih hs hf
    obtain ⟨hlen, hmono⟩ := step_length c p s s' a hs
    have hf0 : (c.enqFailKeepsRef = true ∧ c.getClosed = .closedErr) ∨ s.clPc = 0 := by
      rcases hf with hf | hf
      · exact Or.inl hf
      · right; omega
    obtain ⟨he, hrun⟩ := sim_step c hc p s s' a (inv_reachable hr).1 hs hf hwk
    rw [he, Spec.run_append, hlen, ih hf0]
    simpa using hrun

end NoKV.Queue

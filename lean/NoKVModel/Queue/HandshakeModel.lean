/-
The close / worker-exit handshake of the commit queue at the granularity of single shared-
memory operations (`db_write.go`: `enqueueCommitRequest`, `commitQueue.acquireItem`, `pop`,
`commitQueue.close`).  `Queue/Model.lean` treats an enqueue as one step and lets the worker
exit when the queue is closed and empty; this file is about whether the code's counters
(`inflight`, `queueLen`), the `items` tokens and the order of the two loads in `acquireItem`
justify that.

enqueuer t (`enqueueCommitRequest`):
  e0 inflight++ · e1 load closed (⇒ fail) · e2 acquireSpace (space | closeCh ⇒ fail; when both
  arms of the select are ready either may be taken: `enq` = space arm, `enqc` = closeCh arm)
  e3 load closed (⇒ release space, fail) · e4 ring.Push (ring closed ⇒ release space, fail)
  e5 queueLen++ · e6 items<- · e7 inflight-- (deferred) · ef inflight-- on the failure path
worker (`acquireItem`, `pop`):
  w0 tryAcquireItem · w1 load closed · wb select{items, closeCh} (`work` = items arm when ready,
  `workc` = closeCh arm)
  w2 / w3 the two loads of the exit test `queueLen == 0 && inflight == 0`, in the order given
          by `HCfg.exitOrder` (a non-zero first load goes back to w0: sleep and retry)
  wp ring.Pop, queueLen--, release space
closer (`commitQueue.close`, then `commitWG.Wait`): c0 closed := 1 · c1 ring.Close · c2 close(closeCh)
The ring is taken as an atomic bounded FIFO (utils.Ring is a Vyukov MPMC queue; not modelled).
Core Lean only.
-/
namespace NoKV.Queue

inductive ExitOrder where
  | queueLenFirst   -- as-is: `queueLen == 0 && inflight == 0`
  | inflightFirst   -- repaired: `inflight == 0 && queueLen == 0`
  deriving DecidableEq, Repr

structure HCfg where
  exitOrder : ExitOrder
  deriving DecidableEq, Repr

def HCfg.good : HCfg := { exitOrder := .inflightFirst }

inductive EPc where
  | idle | e0 | e1 | e2 | e3 | e4 | e5 | e6 | e7 | ef
  deriving DecidableEq, Repr

inductive WPc where
  | w0 | w1 | wb | w2 | w3 | wp | exited
  deriving DecidableEq, Repr

structure HSt where
  pcs : List EPc := []
  wpc : WPc := .w0
  cpc : Nat := 0            -- closer: 0,1,2 = next step; 3 = waiting for the worker
  closed : Bool := false
  ringClosed : Bool := false
  closeCh : Bool := false
  inflight : Nat := 0
  queueLen : Int := 0
  items : Nat := 0
  spaces : Nat := 0
  ring : List Nat := []
  popped : List Nat := []   -- ghost: requests handed to the worker, in order
  deriving DecidableEq, Repr

def HSt.init0 (n cap : Nat) : HSt := { pcs := List.replicate n .idle, spaces := cap }
def HSt.init : HSt := HSt.init0 2 2

inductive HAct where
  | start (t : Nat)   -- environment: a client enters enqueueCommitRequest
  | enq (t : Nat)
  | enqc (t : Nat)    -- enqueuer t at e2 takes the `closeCh` arm of acquireSpace's select
  | work
  | workc             -- the worker at wb takes the `closeCh` arm of its select
  | close
  deriving DecidableEq, Repr

def HAct.ofString? (s : String) : Option HAct :=
  if s == "w" then some .work
  else if s == "c" then some .close
  else if s.startsWith "s" then (s.drop 1).toNat?.map .start
  else if s.startsWith "e" then (s.drop 1).toNat?.map .enq
  else none

def HSt.setPc (s : HSt) (t : Nat) (pc : EPc) : HSt := { s with pcs := s.pcs.set t pc }

def enqStep (s : HSt) (t : Nat) : EPc → Option HSt
  | .idle => none
  | .e0 => some { s with pcs := s.pcs.set t .e1, inflight := s.inflight + 1 }
  | .e1 => some (s.setPc t (if s.closed then .ef else .e2))
  | .e2 =>
    if 0 < s.spaces then some { s with pcs := s.pcs.set t .e3, spaces := s.spaces - 1 }
    else if s.closeCh then some (s.setPc t .ef)
    else none
  | .e3 =>
    if s.closed then some { s with pcs := s.pcs.set t .ef, spaces := s.spaces + 1 }
    else some (s.setPc t .e4)
  | .e4 =>
    if s.ringClosed then some { s with pcs := s.pcs.set t .ef, spaces := s.spaces + 1 }
    else some { s with pcs := s.pcs.set t .e5, ring := s.ring ++ [t] }
  | .e5 => some { s with pcs := s.pcs.set t .e6, queueLen := s.queueLen + 1 }
  | .e6 => some { s with pcs := s.pcs.set t .e7, items := s.items + 1 }
  | .e7 => some { s with pcs := s.pcs.set t .idle, inflight := s.inflight - 1 }
  | .ef => some { s with pcs := s.pcs.set t .idle, inflight := s.inflight - 1 }

def workStep (c : HCfg) (s : HSt) : Option HSt :=
  match s.wpc with
  | .w0 => if 0 < s.items then some { s with items := s.items - 1, wpc := .wp } else some { s with wpc := .w1 }
  | .w1 => some { s with wpc := if s.closed then .w2 else .wb }
  | .wb =>
    if 0 < s.items then some { s with items := s.items - 1, wpc := .wp }
    else if s.closeCh then some { s with wpc := .w0 }
    else none
  | .w2 =>
    match c.exitOrder with
    | .queueLenFirst => some { s with wpc := if s.queueLen = 0 then .w3 else .w0 }
    | .inflightFirst => some { s with wpc := if s.inflight = 0 then .w3 else .w0 }
  | .w3 =>
    match c.exitOrder with
    | .queueLenFirst => some { s with wpc := if s.inflight = 0 then .exited else .w0 }
    | .inflightFirst => some { s with wpc := if s.queueLen = 0 then .exited else .w0 }
  | .wp =>
    match s.ring with
    | t :: r => some { s with ring := r, queueLen := s.queueLen - 1, spaces := s.spaces + 1,
                              popped := s.popped ++ [t], wpc := .w0 }
    | [] => if s.closed ∧ s.queueLen = 0 then some { s with wpc := .w0 } else none
  | .exited => none

def hstep (c : HCfg) (s : HSt) : HAct → Option HSt
  | .start t =>
    match s.pcs[t]? with
    | some .idle => some (s.setPc t .e0)
    | _ => none
  | .enq t =>
    match s.pcs[t]? with
    | some pc => enqStep s t pc
    | none => none
  | .enqc t =>
    -- Go's select chooses among ready arms at random: with a free space AND closeCh closed
    -- acquireSpace may return either; `enq` is the space arm, this is the closeCh arm
    match s.pcs[t]? with
    | some .e2 => if s.closeCh then some (s.setPc t .ef) else none
    | _ => none
  | .work => workStep c s
  | .workc => if s.wpc = .wb ∧ s.closeCh then some { s with wpc := .w0 } else none
  | .close =>
    if s.cpc = 0 then some { s with cpc := 1, closed := true }
    else if s.cpc = 1 then some { s with cpc := 2, ringClosed := true }
    else if s.cpc = 2 then some { s with cpc := 3, closeCh := true }
    else none

def hrun (c : HCfg) : HSt → List HAct → Option HSt
  | s, [] => some s
  | s, a :: as =>
    match hstep c s a with
    | some s' => hrun c s' as
    | none => none

def HReachable (c : HCfg) (s : HSt) : Prop := ∃ n cap acts, hrun c (HSt.init0 n cap) acts = some s

/-- canonical outcome of a schedule, for the correspondence with the instrumented code -/
def hOutcome (s : HSt) : String :=
  if s.wpc = .exited then
    (if s.ring = [] then "worker-exited:clean" else s!"worker-exited:lost={s.ring.length}")
  else "worker-running"

end NoKV.Queue

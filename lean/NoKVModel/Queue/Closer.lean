/- With the guard, `Close`'s wait never panics (helper lemmas for Props/C37.lean). -/
import NoKVModel.Queue.CloserModel

namespace NoKV.Queue

structure WInv (s : WSt) : Prop where
  a : s.waiter = .woken → s.counter = 0
  b : s.waiter ≠ .notStarted → s.closed = true
  c : s.waiter ≠ .panicked

theorem winv_init (n : Nat) : WInv (WSt.init n) := by
  constructor <;> simp [WSt.init]

theorem winv_step (c : CCfg) (hc : c.getGuard = true) (s s' : WSt) (a : WAct) (hi : WInv s)
    (hs : wstep c s a = some s') : WInv s' := by
  obtain ⟨ia, ib, ic⟩ := hi
  cases a <;> simp only [wstep, hc] at hs <;> (repeat' (split at hs))
  all_goals (first | contradiction | skip)
  all_goals (injection hs with hs; subst hs)
  all_goals (constructor <;> simp only [] <;> grind)

theorem winv_reachable {c : CCfg} (hc : c.getGuard = true) {s : WSt} (h : WReachable c s) : WInv s := by
  obtain ⟨n, acts, hr⟩ := h
  suffices H : ∀ (acts : List WAct) (s0 : WSt), WInv s0 → ∀ s, wrun c s0 acts = some s → WInv s from
    H acts _ (winv_init n) s hr
  intro acts
  induction acts with
  | nil => intro s0 h0 s h; simp [wrun] at h; subst h; exact h0
  | cons a as ih =>
    intro s0 h0 s h
    simp only [wrun] at h
    cases hs : wstep c s0 a with
    | none => simp [hs] at h
    | some s1 =>
      simp only [hs] at h
      exact ih s1 (winv_step c hc s0 s1 a h0 hs) s h

end NoKV.Queue

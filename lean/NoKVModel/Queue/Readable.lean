/-
Consequences of the commit-queue model that the property statements spell out
(helper lemmas for Props/C34.lean and Props/C37.lean):
* the store changes only in `wapply`, and only at the key of the request being applied;
* hence a write, once applied (which precedes its acknowledgement), stays readable until the
  worker applies another write of the same key;
* once the worker has exited nothing is applied any more.
-/
import NoKVModel.Queue.Lemmas

namespace NoKV.Queue

/-- the step `a` taken in `s` applies a request whose key is `k` -/
def touches (s : St) (a : Act) (k : Key) : Bool :=
  a == .wapply &&
    (match s.batch with
     | t :: _ => (match s.clients[t]? with
                  | some cl => cl.op.key == k
                  | none => false)
     | [] => false)

theorem read_cons_ne (st : Store) (k k' : Key) (v : Option Val) (h : (k' == k) = false) :
    Store.read ((k', v) :: st) k = Store.read st k := by
  simp [Store.read, List.find?, h]

theorem applyOp_frame (st : Store) (op : Op) (k : Key) (h : (op.key == k) = false) :
    Store.read (applyOp st op).2 k = Store.read st k := by
  cases op <;> simp only [applyOp, Op.key] at h ⊢
  · exact read_cons_ne st k _ _ h
  · exact read_cons_ne st k _ _ h

theorem applyOp_set_read (st : Store) (k : Key) (v : Val) :
    Store.read (applyOp st (.set k v)).2 k = .val v := by
  simp [applyOp, Store.read]

theorem applyOp_del_read (st : Store) (k : Key) :
    Store.read (applyOp st (.del k)).2 k = .notfound := by
  simp [applyOp, Store.read]

set_option maxHeartbeats 1000000 in
/-- **Frame**: a step that does not apply a request of key `k` leaves `read k` unchanged. -/
theorem step_frame (c : QCfg) (p : Params) (s s' : St) (a : Act) (k : Key)
    (hs : step c p s a = some s') (ht : touches s a k = false) :
    Store.read s'.store k = Store.read s.store k := by
  cases a <;> simp only [step, clientStep, St.ret, St.setClient, St.emit] at hs <;>
    (repeat' (split at hs))
  all_goals (first | contradiction | skip)
  all_goals (injection hs with hs; subst hs)
  all_goals (first | rfl | skip)
  -- only `wapply` is left
  all_goals (
    simp only [touches, beq_self_eq_true, Bool.true_and] at ht
    simp_all
    exact applyOp_frame _ _ _ (by simpa using ht))

/-- `run`, refusing steps that apply a request of key `k` -/
def runAvoiding (c : QCfg) (p : Params) (k : Key) : St → List Act → Option St
  | s, [] => some s
  | s, a :: as =>
    if touches s a k then none
    else match step c p s a with
      | some s' => runAvoiding c p k s' as
      | none => none

theorem runAvoiding_read (c : QCfg) (p : Params) (k : Key) (acts : List Act) (s s' : St)
    (h : runAvoiding c p k s acts = some s') : Store.read s'.store k = Store.read s.store k := by
  induction acts generalizing s with
  | nil => simp [runAvoiding] at h; subst h; rfl
  | cons a as ih =>
    simp only [runAvoiding] at h
    split at h
    · contradiction
    · rename_i ht
      cases hs : step c p s a with
      | none => simp [hs] at h
      | some s1 =>
        simp only [hs] at h
        rw [ih s1 h]
        exact step_frame c p s s1 a k hs (by simpa using ht)

/-- what a read of the key returns right after the write `op` took effect -/
def writtenValue : Op → Res
  | .set _ v => .val v
  | _ => .notfound

/-- the `wapply` step applies the head of the batch to the store -/
theorem wapply_store (c : QCfg) (p : Params) (s s1 : St) (t : Nat) (b : List Nat) (cl : Client)
    (hb : s.batch = t :: b) (hcl : s.clients[t]? = some cl)
    (hs : step c p s .wapply = some s1) : s1.store = (applyOp s.store cl.op).2 := by
  simp only [step] at hs
  split at hs
  · rw [hb] at hs
    simp only [hcl] at hs
    injection hs with hs
    subst hs
    rfl
  · contradiction

theorem applyOp_written (st : Store) (op : Op) (hw : op.isWrite = true) :
    Store.read (applyOp st op).2 op.key = writtenValue op := by
  cases op with
  | set k v => exact applyOp_set_read st k v
  | del k => exact applyOp_del_read st k
  | get k => simp [Op.isWrite] at hw

/-- the worker, once exited, stays exited; the store and the (empty) pipeline never change -/
theorem step_after_exit (c : QCfg) (p : Params) (s s' : St) (a : Act)
    (hs : step c p s a = some s') (hw : s.wph = .done) (hq : s.queue = []) (hc1 : 1 ≤ s.clPc) :
    s'.wph = .done ∧ s'.store = s.store ∧ s'.queue = [] ∧ s'.batch = s.batch ∧
      s'.applied = s.applied ∧ s.clPc ≤ s'.clPc := by
  cases a <;> simp only [step, clientStep, St.ret, St.setClient, St.emit] at hs <;>
    (repeat' (split at hs))
  all_goals (first | contradiction | skip)
  all_goals (injection hs with hs; subst hs)
  all_goals (first | (simp_all [closedSeen]; done) | (simp_all [closedSeen] <;> omega))

theorem run_after_exit (c : QCfg) (p : Params) (acts : List Act) (s s' : St)
    (h : run c p s acts = some s') (hw : s.wph = .done) (hq : s.queue = []) (hc1 : 1 ≤ s.clPc) :
    s'.wph = .done ∧ s'.store = s.store ∧ s'.queue = [] ∧ s'.batch = s.batch ∧
      s'.applied = s.applied ∧ s.clPc ≤ s'.clPc := by
  induction acts generalizing s with
  | nil => simp [run] at h; subst h; simp [hw, hq]
  | cons a as ih =>
    simp only [run] at h
    cases hs : step c p s a with
    | none => simp [hs] at h
    | some s1 =>
      simp only [hs] at h
      obtain ⟨a1, a2, a3, a4, a5, a6⟩ := step_after_exit c p s s1 a hs hw hq hc1
      obtain ⟨b1, b2, b3, b4, b5, b6⟩ := ih s1 h a1 a3 (by omega)
      exact ⟨b1, by rw [b2, a2], b3, by rw [b4, a4], by rw [b5, a5], by omega⟩

end NoKV.Queue

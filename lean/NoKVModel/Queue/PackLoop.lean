/-
The whole packing loop of `lsm.SetBatch` over a batch of entries (helper lemmas for
Props/C37.lean).  State: index `i` of the next entry and the accounted size `wal` of the
active memtable.  One pass (`pstep`):
  * no entry left                       ⇒ done
  * `MemTableSize ≤ wal` (avail ≤ 0)    ⇒ rotate (wal := 0) iff the guard says so, else spin
  * otherwise take the longest prefix of the remaining entries that fits (`takeFit`; the first
    entry of a slice is admitted alone into an empty memtable); nothing taken ⇒ rotate iff
    the guard says so, else spin; else write the slice: `i += count`, `wal +=` whatever the
    WAL accounts for those entries (`act`, an arbitrary function: the proof does not depend
    on the relation between the estimate and the accounted size).
Termination is by the measure `2·(n − i) + [wal ≠ 0]`, not by fuel.
-/
import NoKVModel.Queue.PackModel

namespace NoKV.Queue
open NoKV

structure PSt where
  i : Nat
  wal : Nat
  deriving DecidableEq, Repr

/-- further entries of a slice: stop at the first one that does not fit -/
def takeRest (c : PCfg) (avail : Nat) : Nat → List Nat → Nat
  | _, [] => 0
  | used, e :: es => if c.fitOp.nat (used + e) avail then 0 else 1 + takeRest c avail (used + e) es

/-- how many of the remaining entries go into the next slice -/
def takeFit (c : PCfg) (avail wal : Nat) : List Nat → Nat
  | [] => 0
  | e :: es =>
    if c.fitOp.nat e avail && !(c.oversizeAlone && wal == 0) then 0
    else 1 + takeRest c avail e es

inductive PRes where
  | done
  | next (s : PSt)
  | spin
  deriving DecidableEq, Repr

def accounted (act : Nat → Nat) (i cnt : Nat) : Nat := ((List.range cnt).map (fun j => act (i + j))).sum

def pstep (c : PCfg) (m : Nat) (ests : List Nat) (act : Nat → Nat) (s : PSt) : PRes :=
  match ests.drop s.i with
  | [] => .done
  | e :: es =>
    if m ≤ s.wal then (if c.guardOp.nat (s.wal + e) m then .next ⟨s.i, 0⟩ else .spin)
    else if takeFit c (m - s.wal) s.wal (e :: es) = 0 then
      (if c.guardOp.nat (s.wal + e) m then .next ⟨s.i, 0⟩ else .spin)
    else .next ⟨s.i + takeFit c (m - s.wal) s.wal (e :: es), s.wal + accounted act s.i (takeFit c (m - s.wal) s.wal (e :: es))⟩

/-- the measure: twice the number of unwritten entries, plus one when the memtable is not empty -/
def pmu (n : Nat) (s : PSt) : Nat := 2 * (n - s.i) + (if s.wal = 0 then 0 else 1)

theorem takeRest_le (c : PCfg) (avail used : Nat) (l : List Nat) : takeRest c avail used l ≤ l.length := by
  induction l generalizing used with
  | nil => simp [takeRest]
  | cons e es ih =>
    simp only [takeRest]
    split
    · simp
    · have := ih (used + e); simp only [List.length_cons]; omega

theorem takeFit_le (c : PCfg) (avail wal : Nat) (l : List Nat) : takeFit c avail wal l ≤ l.length := by
  cases l with
  | nil => simp [takeFit]
  | cons e es =>
    simp only [takeFit]
    split
    · simp
    · have := takeRest_le c avail e es; simp only [List.length_cons]; omega

/-- **Progress**: with the good operators and the oversize rule a pass never spins, and it
strictly decreases the measure. -/
theorem pstep_progress (c : PCfg) (hc : c.Good) (m : Nat) (hm : 0 < m) (ests : List Nat)
    (hpos : ∀ e ∈ ests, 0 < e) (act : Nat → Nat) (s : PSt) :
    pstep c m ests act s ≠ .spin ∧
      ∀ s', pstep c m ests act s = .next s' → pmu ests.length s' < pmu ests.length s := by
  obtain ⟨⟨hf, hg⟩, ho⟩ := hc
  unfold pstep
  cases hd : ests.drop s.i with
  | nil => simp
  | cons e es =>
    have hlen : (e :: es).length = ests.length - s.i := by rw [← hd, List.length_drop]
    have hi : s.i < ests.length := by
      simp only [List.length_cons] at hlen; omega
    have hemem : e ∈ ests := List.mem_of_mem_drop (by rw [hd]; simp)
    have he : 0 < e := hpos e hemem
    simp only []
    by_cases h1 : m ≤ s.wal
    · -- no room at all: the guard fires because est > 0
      have hgd : c.guardOp.nat (s.wal + e) m = true := by
        have a1 : ¬ (s.wal + e < m) := by omega
        have a2 : ¬ (s.wal + e = m) := by omega
        simp [hg, CmpOp.nat, CmpOp.eval, a1, a2]
      have hw : s.wal ≠ 0 := by omega
      simp only [h1, hgd, if_true]
      refine ⟨by simp, ?_⟩
      intro s' hs'
      injection hs' with hs'
      subst hs'
      simp [pmu, hw]
    · simp only [h1, if_false]
      by_cases hcnt : takeFit c (m - s.wal) s.wal (e :: es) = 0
      · -- the first entry does not fit: then the memtable is not empty and the guard fires
        simp only [hcnt, if_true]
        have hnf : (c.fitOp.nat e (m - s.wal) && !(c.oversizeAlone && s.wal == 0)) = true := by
          simp only [takeFit] at hcnt
          split at hcnt
          · assumption
          · omega
        simp only [hf, ho, CmpOp.nat, CmpOp.eval, Bool.and_eq_true, Bool.not_eq_true',
          Bool.true_and] at hnf
        obtain ⟨hgt, hw0⟩ := hnf
        have hw : s.wal ≠ 0 := by simpa using hw0
        have hgt' : ¬ (e < m - s.wal) ∧ ¬ (e = m - s.wal) := by
          simp only [Bool.not_eq_true', Bool.or_eq_false_iff, decide_eq_false_iff_not,
            beq_eq_false_iff_ne, ne_eq] at hgt
          exact hgt
        have hgd : c.guardOp.nat (s.wal + e) m = true := by
          have a1 : ¬ (s.wal + e < m) := by omega
          have a2 : ¬ (s.wal + e = m) := by omega
          simp [hg, CmpOp.nat, CmpOp.eval, a1, a2]
        simp only [hgd, if_true]
        refine ⟨by simp, ?_⟩
        intro s' hs'
        injection hs' with hs'
        subst hs'
        simp [pmu, hw]
      · simp only [hcnt, if_false]
        refine ⟨by simp, ?_⟩
        intro s' hs'
        injection hs' with hs'
        subst hs'
        have hle := takeFit_le c (m - s.wal) s.wal (e :: es)
        rw [hlen] at hle
        have hpos' : 0 < takeFit c (m - s.wal) s.wal (e :: es) := Nat.pos_of_ne_zero hcnt
        simp only [pmu]
        split <;> split <;> omega

/-- the loop, as a terminating computation: every pass is `done` or leads to a state from which
the loop terminates -/
inductive PackTerminates (c : PCfg) (m : Nat) (ests : List Nat) (act : Nat → Nat) : PSt → Prop where
  | done (s : PSt) : pstep c m ests act s = .done → PackTerminates c m ests act s
  | next (s s' : PSt) : pstep c m ests act s = .next s' → PackTerminates c m ests act s' →
      PackTerminates c m ests act s

theorem pack_loop_terminates (c : PCfg) (hc : c.Good) (m : Nat) (hm : 0 < m) (ests : List Nat)
    (hpos : ∀ e ∈ ests, 0 < e) (act : Nat → Nat) (s : PSt) : PackTerminates c m ests act s := by
  suffices H : ∀ (k : Nat) (s : PSt), pmu ests.length s < k → PackTerminates c m ests act s from
    H (pmu ests.length s + 1) s (Nat.lt_succ_self _)
  intro k
  induction k with
  | zero => intro s h; omega
  | succ k ih =>
    intro s hk
    obtain ⟨hns, hdec⟩ := pstep_progress c hc m hm ests hpos act s
    cases hp : pstep c m ests act s with
    | done => exact .done s hp
    | spin => exact absurd hp hns
    | next s' =>
      have := hdec s' hp
      exact .next s s' hp (ih s' (by omega))

/-- `done` means every entry has been written -/
theorem pstep_done_iff (c : PCfg) (m : Nat) (ests : List Nat) (act : Nat → Nat) (s : PSt) :
    pstep c m ests act s = .done ↔ ests.length ≤ s.i := by
  unfold pstep
  cases hd : ests.drop s.i with
  | nil => simp [List.drop_eq_nil_iff.mp hd]
  | cons e es =>
    have hlen : (e :: es).length = ests.length - s.i := by rw [← hd, List.length_drop]
    simp only [List.length_cons] at hlen
    simp only []
    constructor
    · intro h; split at h <;> (try split at h) <;> (try split at h) <;> simp at h
    · intro h; omega

end NoKV.Queue

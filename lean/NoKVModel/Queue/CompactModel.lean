/-
The L0 compaction reservation and the write throttle (lsm/executor.go: `doCompact`,
`fillTablesL0`, `moveToIngest`, `AdjustThrottle`; lsm/compact state: `compactState`).

Abstraction.  `l0` = number of L0 tables; `reserved` = the L0 key range / table ids are
registered in `compactState` (a second L0 compaction cannot be planned while they are:
`fillTablesL0` refuses); `moving` = a compactor is between `fillTablesL0` and the end of
`moveToIngest`; the throttle follows `AdjustThrottle` (on at `l0 ≥ 2·limit`, off at
`l0 ≤ limit`, unchanged in between; `limit > 0`: the code replaces a non-positive option by 4).  A successful move takes `k ≥ 1` of the L0 tables (which ones is the
planner's business: any `k` is allowed).  What is *not* modelled: which tables overlap,
several compactors, the other levels, the manifest itself.  Steps:
  flush    (environment) one more L0 table
  cstart   plan an L0 compaction: needs `l0 > 0`, nothing reserved; reserves
  cok k    the move succeeds: `k` tables leave L0, reservation released
  cfail    the move fails (e.g. a manifest write error): reservation released iff
           `releaseOnFail` (the deferred `compactState.Delete` is armed before the move)
Core Lean only.
-/
namespace NoKV.Queue

structure KCfg where
  /-- `doCompact` arms its deferred `compactState.Delete` (`cleanup = true`) right after a
      successful fill, i.e. before anything that can fail -/
  releaseOnFail : Bool
  deriving DecidableEq, Repr

def KCfg.good : KCfg := { releaseOnFail := true }

structure KSt where
  l0 : Nat := 0
  reserved : Bool := false
  moving : Bool := false
  thr : Bool := false
  deriving DecidableEq, Repr

inductive KAct where
  | flush | cstart | cok (k : Nat) | cfail
  deriving DecidableEq, Repr

def adjust (limit : Nat) (s : KSt) : KSt :=
  if s.l0 ≥ 2 * limit then { s with thr := true }
  else if s.l0 ≤ limit then { s with thr := false }
  else s

def kstep (c : KCfg) (limit : Nat) (s : KSt) : KAct → Option KSt
  | .flush => some (adjust limit { s with l0 := s.l0 + 1 })
  | .cstart => if s.l0 > 0 ∧ s.reserved = false ∧ s.moving = false then
      some { s with reserved := true, moving := true } else none
  | .cok k => if s.moving ∧ 1 ≤ k ∧ k ≤ s.l0 then
      some (adjust limit { s with l0 := s.l0 - k, reserved := false, moving := false }) else none
  | .cfail => if s.moving then
      some (adjust limit { s with moving := false, reserved := if c.releaseOnFail then false else s.reserved })
    else none

def krun (c : KCfg) (limit : Nat) : KSt → List KAct → Option KSt
  | s, [] => some s
  | s, a :: as =>
    match kstep c limit s a with
    | some s' => krun c limit s' as
    | none => none

def KReachable (c : KCfg) (limit : Nat) (s : KSt) : Prop := ∃ acts, krun c limit {} acts = some s

/-- no reservation is left behind: outside a running compaction nothing is reserved -/
theorem kinv_step (c : KCfg) (hc : c.releaseOnFail = true) (limit : Nat) (s s' : KSt) (a : KAct)
    (hi : s.moving = false → s.reserved = false) (hs : kstep c limit s a = some s') :
    s'.moving = false → s'.reserved = false := by
  cases a <;> simp only [kstep, adjust, hc] at hs <;> (repeat' (split at hs))
  all_goals (first | contradiction | skip)
  all_goals (injection hs with hs; subst hs)
  all_goals (simp_all)

theorem kinv_reachable (c : KCfg) (hc : c.releaseOnFail = true) (limit : Nat) (s : KSt)
    (h : KReachable c limit s) : s.moving = false → s.reserved = false := by
  obtain ⟨acts, hr⟩ := h
  suffices H : ∀ (acts : List KAct) (s0 : KSt), (s0.moving = false → s0.reserved = false) →
      ∀ s, krun c limit s0 acts = some s → (s.moving = false → s.reserved = false) from
    H acts {} (by simp) s hr
  intro acts
  induction acts with
  | nil => intro s0 h0 s h; simp [krun] at h; subst h; exact h0
  | cons a as ih =>
    intro s0 h0 s h
    simp only [krun] at h
    cases hs : kstep c limit s0 a with
    | none => simp [hs] at h
    | some s1 =>
      simp only [hs] at h
      exact ih s1 (kinv_step c hc limit s0 s1 a h0 hs) s h

/-- from any reachable state with no compaction running and a non-empty L0, a healthy cycle
(plan + successful move of any `k ≥ 1` tables) is enabled; it strictly decreases the number of
L0 tables, leaves nothing reserved, and the throttle is off as soon as `l0 ≤ limit`.  So the
throttle is released after at most `l0` healthy cycles, whatever failed before. -/
theorem healthy_cycle_progress (c : KCfg) (hc : c.releaseOnFail = true) (limit : Nat) (s : KSt)
    (hlim : 0 < limit) (h : KReachable c limit s) (hm : s.moving = false) (hl : 0 < s.l0)
    (k : Nat) (hk1 : 1 ≤ k) (hk2 : k ≤ s.l0) :
    ∃ s', krun c limit s [.cstart, .cok k] = some s' ∧ s'.l0 = s.l0 - k ∧ s'.l0 < s.l0 ∧
      s'.reserved = false ∧ s'.moving = false ∧ (s'.l0 ≤ limit → s'.thr = false) := by
  have hr := kinv_reachable c hc limit s h hm
  have hpos : s.l0 > 0 := hl
  simp only [krun, kstep, hm, hr, hpos, and_self, if_true, true_and, hk1, hk2, adjust]
  by_cases h1 : s.l0 - k ≥ 2 * limit
  · simp only [h1, if_true]
    refine ⟨_, rfl, rfl, by simp; omega, rfl, rfl, ?_⟩
    intro hle; simp at hle; omega
  · simp only [h1, if_false]
    by_cases h2 : s.l0 - k ≤ limit
    · simp only [h2, if_true]
      exact ⟨_, rfl, rfl, by simp; omega, rfl, rfl, fun _ => rfl⟩
    · simp only [h2, if_false]
      refine ⟨_, rfl, rfl, by simp; omega, rfl, rfl, ?_⟩
      intro hle; simp at hle; omega

end NoKV.Queue

/-
`lsm.Get` / `lsm.Close` and the `utils.Closer` wait group (lsm/lsm.go, utils/closer.go).

`Get` does `lsm.closer.Add(1)` … `lsm.closer.Done()`; `Close` sets `closed` and then calls
`lsm.closer.Close()` = `Signal(); wg.Wait()`.  Go's `sync.WaitGroup` panics in `Wait`
("WaitGroup is reused before previous Wait has returned") when a waiter that was woken by the
counter reaching zero resumes and finds the counter non-zero again — i.e. when an `Add`
slipped in between the last `Done` and the waiter running.  Steps:
  radd t   reader t: `Add(1)`   (with `getGuard`: refused once `closed` is set, atomically)
  rdone t  reader t: `Done()`   (counter 0 with a sleeping waiter ⇒ the waiter is woken)
  cstart   closer: `closed := true`
  cwait    closer: `Wait()` entry: counter 0 ⇒ returned, else sleeping
  cresume  closer: the woken waiter runs: counter ≠ 0 ⇒ panic, else returned
Core Lean only.
-/
namespace NoKV.Queue

structure CCfg where
  /-- `Get` enters the wait group only under a lock shared with `Close`'s `closed := true`
      (as-is: a bare `closer.Add(1)`) -/
  getGuard : Bool
  deriving DecidableEq, Repr

def CCfg.good : CCfg := { getGuard := true }

inductive Waiter where
  | notStarted | closing | sleeping | woken | returned | panicked
  deriving DecidableEq, Repr

structure WSt where
  counter : Nat := 0
  closed : Bool := false
  waiter : Waiter := .notStarted
  inGet : List Bool := []   -- per reader: between Add and Done
  deriving DecidableEq, Repr

def WSt.init (n : Nat) : WSt := { inGet := List.replicate n false }

inductive WAct where
  | radd (t : Nat) | rdone (t : Nat) | cstart | cwait | cresume
  deriving DecidableEq, Repr

def wstep (c : CCfg) (s : WSt) : WAct → Option WSt
  | .radd t =>
    match s.inGet[t]? with
    | some false =>
      if c.getGuard && s.closed then none
      else some { s with counter := s.counter + 1, inGet := s.inGet.set t true }
    | _ => none
  | .rdone t =>
    match s.inGet[t]? with
    | some true =>
      some { s with counter := s.counter - 1, inGet := s.inGet.set t false,
                    waiter := if s.counter = 1 ∧ s.waiter = .sleeping then .woken else s.waiter }
    | _ => none
  | .cstart => if s.waiter = .notStarted then some { s with closed := true, waiter := .closing } else none
  | .cwait =>
    if s.waiter = .closing then
      some { s with waiter := if s.counter = 0 then .returned else .sleeping }
    else none
  | .cresume =>
    if s.waiter = .woken then
      some { s with waiter := if s.counter = 0 then .returned else .panicked }
    else none

def wrun (c : CCfg) : WSt → List WAct → Option WSt
  | s, [] => some s
  | s, a :: as =>
    match wstep c s a with
    | some s' => wrun c s' as
    | none => none

def WReachable (c : CCfg) (s : WSt) : Prop := ∃ n acts, wrun c (WSt.init n) acts = some s

/-- Get in flight at Close; it finishes (waking the waiter); another Get enters; the waiter runs -/
def wgRace : List WAct := [.radd 0, .cstart, .cwait, .rdone 0, .radd 1, .cresume]

def wOutcome (s : WSt) : String :=
  if s.waiter = .panicked then "close-panicked" else "close-returned"

end NoKV.Queue

/-
"A write that returns an error has no effect": helper lemma for Props/C34.lean.
-/
import NoKVModel.Queue.Lemmas

namespace NoKV.Queue

/-- results that report "the operation did not happen" (the error classes, and the as-is panic) -/
def Res.rejected : Res → Bool
  | .emptykey | .hot | .toobig | .blocked | .closedErr | .ioerr | .panic => true
  | _ => false

set_option maxHeartbeats 1000000 in
/-- A step that returns a rejection to client `t` changes neither the store nor the commit
pipeline, and `t` has no request anywhere in the pipeline. -/
theorem rejected_step (c : QCfg) (p : Params) (s s' : St) (a : Act) (hi : InvA s)
    (hs : step c p s a = some s') (t : Nat) (r : Res) (hev : Ev.ret t r ∈ newEvs s s')
    (hr : r.rejected = true) :
    s'.store = s.store ∧ s'.queue = s.queue ∧ s'.batch = s.batch ∧ s'.applied = s.applied ∧
      t ∉ s.queue ++ s.batch ++ s.applied := by
  obtain ⟨qb, ap, bq, bb, ba, nd, nw, al, wr⟩ := hi
  cases a <;> simp only [step, clientStep, St.ret, St.setClient, St.emit] at hs <;>
    (repeat' (split at hs))
  all_goals (first | contradiction | skip)
  all_goals (injection hs with hs; subst hs)
  all_goals (simp only [newEvs, List.append_assoc, List.drop_left, List.drop_length,
    List.append_nil, List.cons_append, List.nil_append] at hev)
  all_goals (clear nd bq bb ba)
  all_goals (grind [Res.rejected])

end NoKV.Queue

/-
Liveness side of the commit-queue model (helper lemmas for Props/C37.lean):
a measure that every step of the system itself strictly decreases, and "no stuck state".
-/
import NoKVModel.Queue.Lemmas

namespace NoKV.Queue

/-- remaining work of a client, by program counter (an enqueue turns 5 into 1 + 3 queued) -/
def wPc : Pc → Nat
  | .idle => 0 | .hot => 8 | .thr => 7 | .size => 6 | .enq => 5 | .wait => 1 | .rd => 1

def wsum (cls : List Client) : Nat := (cls.map (fun c => wPc c.pc)).sum

/-- The measure: client work + 3·queued + 2·batched + 1·applied-not-acked + worker alive +
remaining Close steps. -/
def mu (s : St) : Nat :=
  wsum s.clients + 3 * s.queue.length + 2 * s.batch.length + s.applied.length +
    (if s.wph = .done then 0 else 1) + (4 - s.clPc)

theorem wsum_set {cls : List Client} {t : Nat} {cl cl' : Client} (h : cls[t]? = some cl) :
    wsum (cls.set t cl') + wPc cl.pc = wsum cls + wPc cl'.pc := by
  induction cls generalizing t with
  | nil => simp at h
  | cons x xs ih =>
    cases t with
    | zero =>
      simp at h; subst h
      simp [wsum]; omega
    | succ t =>
      simp at h
      have := ih h
      simp [wsum] at this ⊢
      omega

set_option maxHeartbeats 1000000 in
theorem mu_step (c : QCfg) (p : Params) (s s' : St) (a : Act) (hint : a.internal = true)
    (hs : step c p s a = some s') : mu s' < mu s := by
  cases a <;> simp only [Act.internal] at hint <;>
    simp only [step, clientStep, St.ret, St.setClient, St.emit] at hs <;>
    (repeat' (split at hs))
  all_goals (first | contradiction | skip)
  all_goals (injection hs with hs; subst hs)
  all_goals (simp only [mu])
  all_goals (grind [wPc, wsum_set])


/-- Some call has not returned, or a `Close` is in progress. -/
def Pending (s : St) : Prop :=
  (∃ (t : Nat) (cl : Client), s.clients[t]? = some cl ∧ cl.pc ≠ .idle) ∨ (1 ≤ s.clPc ∧ s.clPc < 4)

/-- a non-idle client always has an enabled step, unless it legitimately waits: on the
throttle (before Close), on queue space, or on its ack -/
theorem client_enabled (c : QCfg) (hc : c.Struct) (p : Params) (s : St) (t : Nat) (cl : Client)
    (ht : s.clients[t]? = some cl) (hpc : cl.pc ≠ .idle)
    (hthr : cl.pc = .thr → s.throttle = false ∨ 1 ≤ s.clPc)
    (henq : cl.pc = .enq → 1 ≤ s.clPc ∨ s.queue.length < p.cap)
    (hwait : cl.pc = .wait → cl.acked = true) :
    (step c p s (.cstep t)).isSome = true := by
  obtain ⟨_, _, _, _, h5, h6, _, _, _⟩ := hc
  simp only [step, ht, clientStep]
  cases hp : cl.pc with
  | idle => exact absurd hp hpc
  | hot => simp only []; split <;> (try split) <;> simp
  | thr =>
    simp only [closedSeen, h6]
    rcases hthr hp with h | h
    · simp [h]
    · by_cases hth : s.throttle = true <;> simp [hth, h]
  | size => simp only []; split <;> simp
  | enq =>
    simp only [closedSeen, h5]
    rcases henq hp with h | h
    · simp [h]
    · by_cases h1 : 1 ≤ s.clPc <;> simp [h1, h]
  | wait => simp [hwait hp]
  | rd =>
    simp only []
    split
    · simp
    · cases c.getClosed <;> simp

theorem no_stuck (c : QCfg) (hc : c.Struct) (p : Params) (hcap : 0 < p.cap) (s : St)
    (h : Reachable c p s) (hpend : Pending s) :
    (∃ a : Act, a.internal = true ∧ (step c p s a).isSome = true) ∨
      (s.throttle = true ∧ s.clPc = 0) := by
  obtain ⟨ia, iw⟩ := inv_reachable h
  have h7 : c.closeReleasesThrottle = true := hc.2.2.2.2.2.2.1
  cases hw : s.wph with
  | collect =>
    left
    refine ⟨.wapply, rfl, ?_⟩
    obtain ⟨hb, _⟩ := iw.w2 hw
    cases hbt : s.batch with
    | nil => exact absurd hbt hb
    | cons t b =>
      have hlt := ia.bb t (by simp [hbt])
      simp [step, hw, hbt, List.getElem?_eq_getElem hlt]
  | applying =>
    left
    refine ⟨.wapply, rfl, ?_⟩
    have hb := iw.w3 hw
    cases hbt : s.batch with
    | nil => exact absurd hbt hb
    | cons t b =>
      have hlt := ia.bb t (by simp [hbt])
      simp [step, hw, hbt, List.getElem?_eq_getElem hlt]
  | failing =>
    left
    refine ⟨.wfail, rfl, ?_⟩
    have hb := iw.w3f hw
    have hst : c.applyStopsAtFailure = true := hc.2.2.2.2.2.2.2.1
    cases hbt : s.batch with
    | nil => exact absurd hbt hb
    | cons t b =>
      have hlt := ia.bb t (by simp [hbt])
      simp [step, hw, hbt, hst, List.getElem?_eq_getElem hlt]
  | acking =>
    left
    refine ⟨.wack, rfl, ?_⟩
    obtain ⟨_, hb⟩ := iw.w4 hw
    cases hbt : s.applied with
    | nil => exact absurd hbt hb
    | cons t b =>
      have hlt := ia.ba t (by simp [hbt])
      simp [step, hw, hbt, List.getElem?_eq_getElem hlt]
  | idle =>
    obtain ⟨hb, ha⟩ := iw.w1 hw
    cases hq : s.queue with
    | cons t q => left; exact ⟨.wpop, rfl, by simp [step, hw, hq]⟩
    | nil =>
      by_cases hcl : 1 ≤ s.clPc
      · left; exact ⟨.wexit, rfl, by simp [step, hw, hq, hcl]⟩
      · have h0 : s.clPc = 0 := by omega
        rcases hpend with ⟨t, cl, ht, hpc⟩ | ⟨h1, _⟩
        · by_cases hth : cl.pc = .thr ∧ s.throttle = true
          · right; exact ⟨hth.2, h0⟩
          · left
            refine ⟨.cstep t, rfl, client_enabled c hc p s t cl ht hpc ?_ ?_ ?_⟩
            · intro hp; left
              cases hs : s.throttle with
              | false => rfl
              | true => exact absurd ⟨hp, hs⟩ hth
            · intro _; right; simp [hq, hcap]
            · intro hp
              cases hak : cl.acked with
              | true => rfl
              | false =>
                have := iw.fw t cl ht hp hak
                simp [hq, hb, ha] at this
        · omega
  | done =>
    obtain ⟨hq, hb, ha, h1⟩ := iw.w5 hw
    by_cases h4 : s.clPc < 4
    · left
      refine ⟨.close, rfl, ?_⟩
      have : s.clPc = 1 ∨ s.clPc = 2 ∨ s.clPc = 3 := by omega
      rcases this with h | h | h <;> simp [step, h, hw]
    · have h4' : s.clPc = 4 := by have := iw.cp; omega
      rcases hpend with ⟨t, cl, ht, hpc⟩ | ⟨_, h3⟩
      · left
        refine ⟨.cstep t, rfl, client_enabled c hc p s t cl ht hpc ?_ ?_ ?_⟩
        · intro _; right; omega
        · intro _; left; omega
        · intro hp
          cases hak : cl.acked with
          | true => rfl
          | false =>
            have := iw.fw t cl ht hp hak
            simp [hq, hb, ha] at this
      · omega

end NoKV.Queue

/-
Safety of the worker-exit test of `commitQueue.acquireItem` (helper lemmas for Props/C37.lean):
with the loads in the order `inflight` then `queueLen`, a worker that exits leaves nothing in
the ring and nobody can push afterwards.
-/
import NoKVModel.Queue.HandshakeModel

namespace NoKV.Queue

def hsum (f : EPc → Nat) (l : List EPc) : Nat := (l.map f).sum

/-- counted in `inflight` -/
def inflW : EPc → Nat
  | .e1 | .e2 | .e3 | .e4 | .e5 | .e6 | .e7 | .ef => 1
  | _ => 0

/-- pushed, `queueLen` not yet incremented -/
def e5W : EPc → Nat
  | .e5 => 1
  | _ => 0

/-- past the first closed test and still able to push / still accounting -/
def EPc.active : EPc → Bool
  | .e2 | .e3 | .e4 | .e5 | .e6 | .e7 => true
  | _ => false

theorem hsum_set {f : EPc → Nat} {l : List EPc} {t : Nat} {pc pc' : EPc} (h : l[t]? = some pc) :
    hsum f (l.set t pc') + f pc = hsum f l + f pc' := by
  induction l generalizing t with
  | nil => simp at h
  | cons x xs ih =>
    cases t with
    | zero => simp at h; subst h; simp [hsum]; omega
    | succ t =>
      simp at h
      have := ih h
      simp [hsum] at this ⊢
      omega

theorem hsum_pos {f : EPc → Nat} {l : List EPc} {t : Nat} {pc : EPc} (h : l[t]? = some pc) :
    f pc ≤ hsum f l := by
  induction l generalizing t with
  | nil => simp at h
  | cons x xs ih =>
    cases t with
    | zero => simp at h; subst h; simp [hsum]
    | succ t =>
      simp at h
      have := ih h
      simp [hsum] at this ⊢
      omega

theorem hsum_zero {f : EPc → Nat} {l : List EPc} (h : ∀ (t : Nat) (pc : EPc), l[t]? = some pc → f pc = 0) :
    hsum f l = 0 := by
  induction l with
  | nil => simp [hsum]
  | cons x xs ih =>
    have h0 := h 0 x (by simp)
    have := ih (fun t pc hp => h (t + 1) pc (by simpa using hp))
    simp [hsum] at this ⊢
    omega

structure HInv (s : HSt) : Prop where
  i1 : s.inflight = hsum inflW s.pcs
  i2 : s.queueLen + (hsum e5W s.pcs : Int) = (s.ring.length : Int)
  k : s.wpc = .w2 → s.closed = true
  h : (s.wpc = .w3 ∨ s.wpc = .exited) → s.closed = true ∧
        ∀ (t : Nat) (pc : EPc), s.pcs[t]? = some pc → pc.active = false
  x : s.wpc = .exited → s.ring = []

theorem hinv_init (n cap : Nat) : HInv (HSt.init0 n cap) := by
  constructor <;> simp [HSt.init0]
  · symm; apply hsum_zero; intro t pc h; simp [List.getElem?_replicate] at h; simp [← h.2, inflW]
  · have : hsum e5W (List.replicate n EPc.idle) = 0 := by
      apply hsum_zero; intro t pc h; simp [List.getElem?_replicate] at h; simp [← h.2, e5W]
    simp [this]

theorem infl_zero_inactive {l : List EPc} {t : Nat} {pc : EPc} (h0 : hsum inflW l = 0)
    (h : l[t]? = some pc) : pc.active = false := by
  have := hsum_pos (f := inflW) h
  cases pc <;> simp_all [inflW, EPc.active]

theorem e5_zero_of_inactive {l : List EPc}
    (h : ∀ (t : Nat) (pc : EPc), l[t]? = some pc → pc.active = false) : hsum e5W l = 0 := by
  apply hsum_zero
  intro t pc hp
  have := h t pc hp
  cases pc <;> simp_all [e5W, EPc.active]

set_option maxHeartbeats 1000000 in
theorem hinv_step (c : HCfg) (hc : c.exitOrder = .inflightFirst) (s s' : HSt) (a : HAct)
    (hi : HInv s) (hs : hstep c s a = some s') : HInv s' := by
  obtain ⟨i1, i2, k, h, x⟩ := hi
  cases a <;> simp only [hstep, enqStep, workStep, HSt.setPc, hc] at hs <;> (repeat' (split at hs))
  all_goals (first | contradiction | skip)
  all_goals (injection hs with hs; subst hs)
  all_goals (constructor <;> simp only [])
  all_goals (first
    | grind [hsum_set, inflW, e5W, EPc.active, infl_zero_inactive]
    | (intro _
       have hh := h (Or.inl (by assumption))
       have h5 := e5_zero_of_inactive hh.2
       rw [h5] at i2
       have : s.ring.length = 0 := by omega
       exact List.eq_nil_of_length_eq_zero this))

/-- inductive invariant over all reachable states of the handshake protocol -/
theorem hinv_reachable {c : HCfg} (hc : c.exitOrder = .inflightFirst) {s : HSt}
    (h : HReachable c s) : HInv s := by
  obtain ⟨n, cap, acts, hr⟩ := h
  suffices H : ∀ (acts : List HAct) (s0 : HSt), HInv s0 → ∀ s, hrun c s0 acts = some s → HInv s from
    H acts _ (hinv_init n cap) s hr
  intro acts
  induction acts with
  | nil => intro s0 h0 s h; simp [hrun] at h; subst h; exact h0
  | cons a as ih =>
    intro s0 h0 s h
    simp only [hrun] at h
    cases hs : hstep c s0 a with
    | none => simp [hs] at h
    | some s1 =>
      simp only [hs] at h
      exact ih s1 (hinv_step c hc s0 s1 a h0 hs) s h

end NoKV.Queue

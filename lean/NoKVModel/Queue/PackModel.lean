/-
The packing loop of `lsm.SetBatch` (lsm/lsm.go) for the first entry of a slice: two
comparisons decide between "write it", "rotate the memtable and try again" and — when they
disagree — neither, i.e. the loop goes round with nothing changed while the commit worker
never returns.

  avail := MemTableSize - walSize
  avail <= 0                         ⇒ rotate iff  walSize+est <guardOp> MemTableSize
  used+est <fitOp> avail  (used = 0) ⇒ rotate iff  walSize+est <guardOp> MemTableSize
  otherwise                          ⇒ write
A rotation installs an empty memtable (walSize = 0).  Core Lean only.
-/
import NoKVModel.Base.Cfg

namespace NoKV.Queue
open NoKV

structure PCfg where
  /-- `used+est <op> avail` ⇒ the entry does not fit -/
  fitOp : CmpOp
  /-- `walSize+est <op> MemTableSize` ⇒ rotate -/
  guardOp : CmpOp
  /-- an entry that does not fit into an EMPTY memtable is written into it by itself
      (as-is: it is treated like any other, so every fresh memtable is rotated away again) -/
  oversizeAlone : Bool
  /-- `NewLSM` replaces a `MemTableSize <= 0` by a positive default (as-is: it is used as it
      is, and a budget of 0 can never hold an entry) -/
  sizeDefaulted : Bool
  deriving DecidableEq, Repr

def PCfg.good : PCfg := { fitOp := .gt, guardOp := .gt, oversizeAlone := true, sizeDefaulted := true }

def PCfg.OpsGood (c : PCfg) : Prop := c.fitOp = .gt ∧ c.guardOp = .gt
instance PCfg.decOpsGood (c : PCfg) : Decidable c.OpsGood := by unfold PCfg.OpsGood; exact inferInstance
def PCfg.Good (c : PCfg) : Prop := c.OpsGood ∧ c.oversizeAlone = true
instance PCfg.decGood (c : PCfg) : Decidable c.Good := by unfold PCfg.Good; exact inferInstance

/-- everything: operators, oversize rule, and a positive memtable budget whatever the option -/
def PCfg.GoodSize (c : PCfg) : Prop := c.Good ∧ c.sizeDefaulted = true
instance PCfg.decGoodSize (c : PCfg) : Decidable c.GoodSize := by unfold PCfg.GoodSize; exact inferInstance

/-- the budget `SetBatch` works with, given `Options.MemTableSize = m` (64 MiB default) -/
def effSize (c : PCfg) (m : Nat) : Nat := if c.sizeDefaulted && m == 0 then 67108864 else m

theorem effSize_pos (c : PCfg) (hc : c.sizeDefaulted = true) (m : Nat) : 0 < effSize c m := by
  unfold effSize
  by_cases h : m = 0
  · simp [hc, h]
  · have : (m == 0) = false := by simp [h]
    simp [this]; omega

inductive POut where
  | written | rotated | spin
  deriving DecidableEq, Repr

/-- one pass of the loop for the first entry of a slice (`m` = MemTableSize, `wal` = walSize) -/
def packFirst (c : PCfg) (m wal est : Nat) : POut :=
  if m ≤ wal then (if c.guardOp.nat (wal + est) m then .rotated else .spin)
  else if c.fitOp.nat est (m - wal) && !(c.oversizeAlone && wal == 0) then
    (if c.guardOp.nat (wal + est) m then .rotated else .spin)
  else .written

/-- the entry is written after at most one rotation -/
def packDone (c : PCfg) (m wal est : Nat) : Bool :=
  match packFirst c m wal est with
  | .written => true
  | .spin => false
  | .rotated => packFirst c m 0 est == .written

theorem pack_good (c : PCfg) (hc : c.Good) (m wal est : Nat) (hm : 0 < m) (he : 0 < est) :
    packDone c m wal est = true := by
  obtain ⟨⟨hf, hg⟩, ho⟩ := hc
  unfold packDone packFirst
  simp only [hf, hg, ho, CmpOp.nat, CmpOp.eval]
  by_cases h1 : m ≤ wal
  · have : ¬ (wal + est < m) := by omega
    have h2 : ¬ (wal + est = m) := by omega
    have h3 : ¬ (m ≤ 0) := by omega
    simp [h1, this, h2, h3]
  · have h3 : ¬ (m ≤ 0) := by omega
    by_cases hw : wal = 0
    · subst hw; simp [h3]
    · by_cases hfit : est < m - wal ∨ est = m - wal
      · have : (decide (est < m - wal) || est == m - wal) = true := by
          rcases hfit with h | h <;> simp [h]
        simp [h1, this]
      · have hlt : ¬ est < m - wal := fun h => hfit (Or.inl h)
        have heq : ¬ est = m - wal := fun h => hfit (Or.inr h)
        have a1 : ¬ (wal + est < m) := by omega
        have a2 : ¬ (wal + est = m) := by omega
        simp [h1, hlt, heq, hw, a1, a2, h3]

theorem pack_ops_good (c : PCfg) (hc : c.OpsGood) (m wal est : Nat) (hm : 0 < m) (he : 0 < est)
    (hsz : est ≤ m) : packDone c m wal est = true := by
  obtain ⟨hf, hg⟩ := hc
  unfold packDone packFirst
  simp only [hf, hg, CmpOp.nat, CmpOp.eval]
  have h3 : ¬ (m ≤ 0) := by omega
  have b1 : (decide (est < m) || est == m) = true := by
    rcases Nat.lt_or_ge est m with h | h
    · simp [h]
    · have : est = m := by omega
      simp [this]
  by_cases h1 : m ≤ wal
  · have : ¬ (wal + est < m) := by omega
    have h2 : ¬ (wal + est = m) := by omega
    simp [h1, this, h2, h3, b1]
  · by_cases hfit : est < m - wal ∨ est = m - wal
    · have : (decide (est < m - wal) || est == m - wal) = true := by
        rcases hfit with h | h <;> simp [h]
      simp [h1, this]
    · have hlt : ¬ est < m - wal := fun h => hfit (Or.inl h)
      have heq : ¬ est = m - wal := fun h => hfit (Or.inr h)
      have a1 : ¬ (wal + est < m) := by omega
      have a2 : ¬ (wal + est = m) := by omega
      by_cases hw : wal = 0
      · subst hw; simp at hlt heq; omega
      · cases ho : c.oversizeAlone <;> simp [h1, hlt, heq, hw, a1, a2, h3, b1, ho]

end NoKV.Queue

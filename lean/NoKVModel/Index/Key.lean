/-
E-Order for the memtable indexes (C07): internal keys and `utils.CompareKeys`.

An internal key is `base ++ ts` where `ts` is the 8-byte big-endian encoding of
`MaxUint64 - version` (`kv.KeyWithTs`; `kv.InternalKey` only prepends the 4-byte column-family
marker `FF 'C' 'F' cf` to the user key, so "column family and user key ascending" is "base
ascending").  `CompareKeys` compares the bases with `bytes.Compare` and, when they are equal,
the 8-byte suffixes.

Every decision a realistic edit could flip is a field of `IdxCfg`.
Core Lean only.
-/
import NoKVModel.Base.Bytes
import NoKVModel.Base.Cfg

namespace NoKV.Index

/-- a stored (key, value) pair -/
abbrev Entry := Bytes × Bytes

/-- how the ART derives the byte string it navigates by -/
inductive RadixKey where
  | raw       -- the internal key itself (as-is code)
  | ordered   -- an order-preserving, prefix-free encoding of (base, ts) (repaired shape)
  deriving DecidableEq, Repr, Inhabited

structure IdxCfg where
  /-- `utils.CompareKeys`: compares `key[:len-8]` first and the 8-byte suffix second
      (false = one `bytes.Compare` over the whole key) -/
  ckBaseThenTs : Bool
  /-- `kv.KeyWithTs`: suffix = big-endian `MaxUint64 - ts` (false = big-endian `ts`) -/
  tsInverted : Bool
  /-- skiplist `findNear` / `findSpliceForLevel` order nodes with `CompareKeys` -/
  sklCompareKeys : Bool
  /-- operator of `CompareKeys(leafKey, key) OP 0` in `lowerBoundNode` -/
  artLeafLbOp : CmpOp
  /-- operator of `CompareKeys(leafKey, key) OP 0` in `upperBoundNode` -/
  artLeafUbOp : CmpOp
  /-- byte string the radix tree navigates by -/
  artRadixKey : RadixKey
  /-- `keyByte` beyond the end of the key -/
  artPadByte : Nat
  /-- width of the stored key length (`uint16(len(key))`); 0 = lengths are guarded -/
  keyLenBits : Nat
  /-- `artTree.replaceChild` re-validates that the parent it CASes is still reachable/unchanged
      (concurrent inserts; see `ArtConc`) -/
  artParentRevalidated : Bool
  deriving DecidableEq, Repr

def IdxCfg.good : IdxCfg :=
  { ckBaseThenTs := true, tsInverted := true, sklCompareKeys := true, artLeafLbOp := .ge,
    artLeafUbOp := .le, artRadixKey := .ordered, artPadByte := 0, keyLenBits := 0,
    artParentRevalidated := true }

/-- the comparator and the key encoding are the intended ones -/
def IdxCfg.OrderGood (c : IdxCfg) : Prop := c.ckBaseThenTs = true ∧ c.tsInverted = true
instance IdxCfg.decOrderGood (c : IdxCfg) : Decidable c.OrderGood := by
  unfold IdxCfg.OrderGood; exact inferInstance

/-- what the skiplist refinement needs -/
def IdxCfg.SklGood (c : IdxCfg) : Prop :=
  c.ckBaseThenTs = true ∧ c.tsInverted = true ∧ c.sklCompareKeys = true
instance IdxCfg.decSklGood (c : IdxCfg) : Decidable c.SklGood := by
  unfold IdxCfg.SklGood; exact inferInstance

/-- the as-is ART: raw radix key, zero padding (the configuration of the open findings) -/
def IdxCfg.ArtRaw (c : IdxCfg) : Prop :=
  c.ckBaseThenTs = true ∧ c.tsInverted = true ∧ c.artLeafLbOp = .ge ∧ c.artLeafUbOp = .le ∧
  c.artRadixKey = .raw ∧ c.artPadByte = 0
instance IdxCfg.decArtRaw (c : IdxCfg) : Decidable c.ArtRaw := by
  unfold IdxCfg.ArtRaw; exact inferInstance

def IdxCfg.Trunc16 (c : IdxCfg) : Prop := c.sklCompareKeys = true ∧ c.ckBaseThenTs = true ∧ c.keyLenBits = 16
instance IdxCfg.decTrunc16 (c : IdxCfg) : Decidable c.Trunc16 := by
  unfold IdxCfg.Trunc16; exact inferInstance

/-! ### fixed-width big-endian integers -/

/-- `w` bytes, big-endian, of `n mod 256^w` -/
def beW : Nat → Nat → Bytes
  | 0, _ => []
  | w + 1, n => beW w (n / 256) ++ [n % 256]

def maxU64 : Nat := 18446744073709551615

/-- the 8-byte suffix of an internal key for version `v` -/
def tsBytes (c : IdxCfg) (v : Nat) : Bytes :=
  if c.tsInverted then beW 8 (maxU64 - v) else beW 8 v

/-- `kv.KeyWithTs(u, v)` -/
def mkKey (c : IdxCfg) (u : Bytes) (v : Nat) : Bytes := u ++ tsBytes c v

/-- `kv.ParseKey` for keys of at least 8 bytes (shorter keys have an empty base here) -/
def baseOf (k : Bytes) : Bytes := k.take (k.length - 8)
/-- the last 8 bytes -/
def tsOf (k : Bytes) : Bytes := k.drop (k.length - 8)

/-- `utils.CompareKeys(a, b) < 0` -/
def ckLt (c : IdxCfg) (a b : Bytes) : Bool :=
  if c.ckBaseThenTs then
    Bytes.lt (baseOf a) (baseOf b) || (baseOf a == baseOf b && Bytes.lt (tsOf a) (tsOf b))
  else Bytes.lt a b

/-- `utils.CompareKeys(a, b) == 0` -/
def ckEq (c : IdxCfg) (a b : Bytes) : Bool := !ckLt c a b && !ckLt c b a

/-- `kv.SameKey`: equal length and equal base -/
def sameKey (a b : Bytes) : Bool := a.length == b.length && baseOf a == baseOf b

/-- the key as a node stores it: `keySize = uint16(len(key))` -/
def stored (c : IdxCfg) (k : Bytes) : Bytes :=
  if c.keyLenBits = 0 then k else k.take (k.length % 2 ^ c.keyLenBits)

end NoKV.Index

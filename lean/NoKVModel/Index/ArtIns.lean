/-
`artIns` preserves the ART invariant and changes the leaf set exactly like an upsert — one case
per insert path of `tryInsert`: replace the value of an equal key, leaf split, prefix split, new
leaf under an existing inner node (with node growth), descent into the child
(helper file for `C07_art_refines`).
-/
import NoKVModel.Index.ArtHelpers

set_option linter.unusedSimpArgs false
set_option linter.unusedVariables false
namespace NoKV.Index
open NoKV

section
variable {c : IdxCfg}

/-- leaves below a child under another byte hold other keys -/
theorem other_child_ne (hg : c.ArtGood) {f : Nat} {kid : Nat × Art} {stem : Bytes} {y : Nat} {k : Bytes}
    (hw : WF c f kid.2 (stem ++ [kid.1])) (hne : kid.1 ≠ y) (hk : stem ++ [y] <+: navOf c k) :
    ∀ e ∈ artLeaves f kid.2, e.1 ≠ k := by
  intro e he heq
  have := (leaves_pfx c _ _ _ hw e he).2
  rw [heq] at this
  exact ne_of_stem this hk hne rfl

/-- how a key whose radix key starts with `path` stands against the inner node at `path` -/
theorem key_vs_node (hg : c.ArtGood) {f : Nat} {big : Bool} {pfx : Bytes} {kids : List (Nat × Art)} {path k : Bytes}
    (hw : WF c (f + 1) (.inner big pfx kids) path) (hk : 8 ≤ k.length) (hp : path <+: navOf c k) :
    (∃ y r, navOf c k = path ++ pfx ++ y :: r) ∨
    (∃ q x s y s', x ≠ y ∧ pfx = q ++ x :: s ∧ navOf c k = path ++ q ++ y :: s') := by
  obtain ⟨hB, _, _, hO⟩ := hg
  simp only [WF] at hw
  obtain ⟨kid, rest, hkids⟩ := List.exists_cons_of_ne_nil hw.1
  have hkw := hw.2.2 kid (by rw [hkids]; simp)
  obtain ⟨e0, rest0, he0⟩ := List.exists_cons_of_ne_nil (leaves_ne_nil c _ _ _ hkw)
  have hmem : e0 ∈ artLeaves f kid.2 := by rw [he0]; simp
  obtain ⟨h8, hpre⟩ := leaves_pfx c _ _ _ hkw e0 hmem
  obtain ⟨rn, hrn⟩ := hp
  obtain ⟨tl, htl⟩ := hpre
  have hrel : rn = (pfx ++ [kid.1] ++ tl) ∨ Diverge rn (pfx ++ [kid.1] ++ tl) := by
    by_cases hek : k = e0.1
    · left
      subst hek
      rw [← htl] at hrn
      simp only [List.append_assoc] at hrn
      have := List.append_cancel_left hrn
      simpa using this
    · right
      have hd := (nav_diverge_lt hO hB hk h8 hek).1
      rw [← hrn, ← htl] at hd
      simp only [List.append_assoc] at hd
      have := diverge_cancel_left path hd
      simpa using this
  rcases pfx_cases pfx kid.1 rn (pfx ++ [kid.1] ++ tl) ⟨tl, rfl⟩ hrel with ⟨y, r, e⟩ | ⟨q, x, s, y, s', hne, e1, e2⟩
  · left; exact ⟨y, r, by rw [← hrn, e]; simp⟩
  · right; exact ⟨q, x, s, y, s', hne, e1, by rw [← hrn, e2]; simp⟩

theorem leaves_inner (f : Nat) (big : Bool) (pfx : Bytes) (kids : List (Nat × Art)) :
    artLeaves (f + 1) (.inner big pfx kids) = kids.flatMap (fun e => artLeaves f e.2) := rfl

theorem leaves_leaf (f : Nat) (k v : Bytes) : artLeaves (f + 1) (.leaf k v) = [(k, v)] := rfl

theorem wf_leaf (f : Nat) {k v path : Bytes} (h8 : 8 ≤ k.length) (hp : path <+: navOf c k) :
    WF c (f + 1) (.leaf k v) path := by
  simp only [WF]; exact ⟨h8, hp⟩

theorem twoChild_eq (pfx : Bytes) (a b : Nat) (A B : Art) (hne : a ≠ b) :
    (a < b ∧ twoChild pfx a A b B = .inner false pfx [(a, A), (b, B)]) ∨
    (b < a ∧ twoChild pfx a A b B = .inner false pfx [(b, B), (a, A)]) := by
  unfold twoChild
  by_cases h : a ≤ b
  · left; exact ⟨by omega, by simp [h]⟩
  · right; exact ⟨by omega, by simp [h]⟩

theorem pairwise_fst_congr {l1 l2 : List (Nat × Art)} (h : l1.map Prod.fst = l2.map Prod.fst)
    (hs : l1.Pairwise (fun a b => a.1 < b.1)) : l2.Pairwise (fun a b => a.1 < b.1) := by
  have h1 : (l1.map Prod.fst).Pairwise (· < ·) := List.pairwise_map.mpr hs
  rw [h] at h1
  exact List.pairwise_map.mp h1

/-- Main insertion lemma. -/
theorem artIns_spec (hg : c.ArtGood) (k v : Bytes) (h8 : 8 ≤ k.length) :
    ∀ (f : Nat) (t : Art) (path : Bytes), WF c f t path → path <+: navOf c k →
      WF c (f + 1) (artIns c k k (navOf c k) v f t path.length) path ∧
      ∀ e, e ∈ artLeaves (f + 1) (artIns c k k (navOf c k) v f t path.length) ↔
        (e = (k, v) ∨ (e ∈ artLeaves f t ∧ e.1 ≠ k)) := by
  have hB := hg.1
  have hO := hg.2.2.2
  intro f
  induction f with
  | zero => intro t path h; simp [WF] at h
  | succ f ih =>
    intro t path hw hp
    cases t with
    | leaf lk lv =>
      simp only [WF] at hw
      obtain ⟨hl8, hlp⟩ := hw
      by_cases heq : lk = k
      · -- replace the value of an equal key
        subst heq
        simp only [artIns, if_true]
        refine ⟨wf_leaf (f + 1) hl8 hlp, ?_⟩
        intro e
        simp only [artLeaves, List.mem_singleton]
        constructor
        · intro h; exact Or.inl h
        · rintro (h | ⟨h, hne⟩)
          · exact h
          · subst h; exact absurd rfl hne
      · -- leaf split
        obtain ⟨rx, hrx⟩ := hlp
        obtain ⟨rn, hrn⟩ := hp
        have hd := (nav_diverge_lt hO hB hl8 h8 heq).1
        rw [← hrx, ← hrn] at hd
        obtain ⟨P, x, y, r1, r2, hxy, e1, e2⟩ := diverge_cancel_left path hd
        have hek : navOf c lk = path ++ P ++ x :: r1 := by rw [← hrx, e1]; simp
        have hik : navOf c k = path ++ P ++ y :: r2 := by rw [← hrn, e2]; simp
        have hcommon : lcpFrom (navOf c lk) (navOf c k) path.length = P.length := by
          rw [hek, hik]; exact lcpFrom_spec path P x y hxy r1 r2
        have hpfx : ((navOf c k).drop path.length).take P.length = P := by
          rw [hik]; simp
        have hkb1 : keyByte c (navOf c lk) (path.length + P.length) = x := by
          rw [hek]; exact keyByte_at' c (path ++ P) x r1 _ (by simp)
        have hkb2 : keyByte c (navOf c k) (path.length + P.length) = y := by
          rw [hik]; exact keyByte_at' c (path ++ P) y r2 _ (by simp)
        simp only [artIns, heq, if_false, hcommon, hpfx, hkb1, hkb2]
        have hwl : WF c (f + 1) (.leaf lk lv) (path ++ P ++ [x]) :=
          wf_leaf f hl8 ⟨r1, by rw [hek]; simp⟩
        have hwk : WF c (f + 1) (.leaf k v) (path ++ P ++ [y]) :=
          wf_leaf f h8 ⟨r2, by rw [hik]; simp⟩
        rcases twoChild_eq P x y (.leaf lk lv) (.leaf k v) hxy with ⟨hlt, he⟩ | ⟨hlt, he⟩
        · rw [he]
          refine ⟨?_, ?_⟩
          · simp only [WF]
            refine ⟨by simp, by simp [hlt], ?_⟩
            intro e he'
            simp only [List.mem_cons, List.mem_nil_iff, or_false] at he'
            rcases he' with rfl | rfl
            · exact hwl
            · exact hwk
          · intro e
            simp only [artLeaves, List.flatMap_cons, List.flatMap_nil, List.append_nil, List.singleton_append,
              List.mem_cons, List.mem_singleton, List.mem_nil_iff, or_false]
            constructor
            · rintro (h | h)
              · right; subst h; exact ⟨rfl, heq⟩
              · left; exact h
            · rintro (h | ⟨h, _⟩)
              · right; exact h
              · left; exact h
        · rw [he]
          refine ⟨?_, ?_⟩
          · simp only [WF]
            refine ⟨by simp, by simp [hlt], ?_⟩
            intro e he'
            simp only [List.mem_cons, List.mem_nil_iff, or_false] at he'
            rcases he' with rfl | rfl
            · exact hwk
            · exact hwl
          · intro e
            simp only [artLeaves, List.flatMap_cons, List.flatMap_nil, List.append_nil, List.singleton_append,
              List.mem_cons, List.mem_singleton, List.mem_nil_iff, or_false]
            constructor
            · rintro (h | h)
              · left; exact h
              · right; subst h; exact ⟨rfl, heq⟩
            · rintro (h | ⟨h, _⟩)
              · left; exact h
              · right; exact h
    | inner big pfx kids =>
      have hw' := hw
      simp only [WF] at hw'
      obtain ⟨hne, hsorted, hkidsw⟩ := hw'
      rcases key_vs_node hg hw h8 hp with ⟨y, r, hnk⟩ | ⟨q, x, s, y, s', hxy, hpfx, hnk⟩
      · -- the key spells the whole prefix
        have hmp : matchPrefix c pfx (navOf c k) path.length 0 = (pfx.length, .eq) := by
          rw [hnk]
          have := matchPrefix_eq c pfx path (y :: r) path.length 0 (by simp)
          simpa using this
        have hkb : keyByte c (navOf c k) (path.length + pfx.length) = y := by
          rw [hnk]; exact keyByte_at' c (path ++ pfx) y r _ (by simp)
        have hstem : path ++ pfx ++ [y] <+: navOf c k := ⟨r, by rw [hnk]; simp⟩
        cases hfi : firstIdx y kids 0 with
        | none =>
          -- new leaf under an existing inner node (with growth)
          have hnb := firstIdx_none y kids 0 hfi
          have hres : artIns c k k (navOf c k) v (f + 1) (.inner big pfx kids) path.length =
              .inner (if (!big && decide (kids.length ≥ 16)) then true else big) pfx (kidInsert y (.leaf k v) kids) := by
            simp only [artIns, hmp, hkb, hfi, ne_eq, not_true_eq_false, if_false, dedupLast_sorted kids hsorted]
            by_cases hgrow : (!big && decide (kids.length ≥ 16)) = true
            · simp [hgrow]
            · simp [hgrow]
          rw [hres]
          refine ⟨?_, ?_⟩
          · simp only [WF]
            refine ⟨kidInsert_ne_nil _ _ _, kidInsert_sorted _ _ _ hsorted hnb, ?_⟩
            intro e he
            rcases (kidInsert_mem y (.leaf k v) kids e).mp he with he | he
            · subst he; exact wf_leaf f h8 hstem
            · exact wf_succ c _ _ _ (hkidsw e he)
          · intro e
            rw [leaves_inner, leaves_inner]
            simp only [List.mem_flatMap]
            constructor
            · rintro ⟨kid, hk, hek⟩
              rcases (kidInsert_mem y (.leaf k v) kids kid).mp hk with hk | hk
              · subst hk
                simp only [leaves_leaf, List.mem_singleton] at hek
                exact Or.inl hek
              · right
                rw [leaves_succ c _ _ _ (hkidsw kid hk)] at hek
                exact ⟨⟨kid, hk, hek⟩, other_child_ne hg (hkidsw kid hk) (hnb kid hk) hstem e hek⟩
            · rintro (h | ⟨⟨kid, hk, hek⟩, _⟩)
              · exact ⟨(y, .leaf k v), (kidInsert_mem _ _ _ _).mpr (Or.inl rfl), by simp [leaves_leaf, h]⟩
              · exact ⟨kid, (kidInsert_mem _ _ _ _).mpr (Or.inr hk), by rw [leaves_succ c _ _ _ (hkidsw kid hk)]; exact hek⟩
        | some i =>
          -- descend into the child under byte y
          obtain ⟨A, old, B, hsplit, hi, hA⟩ := firstIdx_some y kids 0 i hfi
          have hi' : i = A.length := by omega
          have hget : kids[i]? = some (y, old) := by
            rw [hsplit, hi']; simp
          have holdw : WF c f old (path ++ pfx ++ [y]) := hkidsw (y, old) (by rw [hsplit]; simp)
          have hdepth : path.length + pfx.length + 1 = (path ++ pfx ++ [y]).length := by
            simp only [List.length_append, List.length_singleton]
          obtain ⟨ihw, ihm⟩ := ih old (path ++ pfx ++ [y]) holdw hstem
          have hres : artIns c k k (navOf c k) v (f + 1) (.inner big pfx kids) path.length =
              .inner big pfx (A ++ (y, artIns c k k (navOf c k) v f old (path ++ pfx ++ [y]).length) :: B) := by
            simp only [artIns, hmp, hkb, hfi, hget, ne_eq, not_true_eq_false, if_false, hdepth]
            rw [hsplit, hi', replaceAt_split]
          rw [hres]
          -- bytes of B differ from y as well
          have hBne : ∀ e ∈ B, e.1 ≠ y := by
            intro e he
            rw [hsplit, List.pairwise_append] at hsorted
            have := (List.pairwise_cons.mp hsorted.2.1).1 e he
            simp at this; omega
          have hAw : ∀ e ∈ A, WF c f e.2 (path ++ pfx ++ [e.1]) := fun e he => hkidsw e (by rw [hsplit]; simp [he])
          have hBw : ∀ e ∈ B, WF c f e.2 (path ++ pfx ++ [e.1]) := fun e he => hkidsw e (by rw [hsplit]; simp [he])
          refine ⟨?_, ?_⟩
          · simp only [WF]
            refine ⟨by simp, ?_, ?_⟩
            · apply pairwise_fst_congr (l1 := kids) _ hsorted
              rw [hsplit]; simp
            · intro e he
              simp only [List.mem_append, List.mem_cons] at he
              rcases he with he | he | he
              · exact wf_succ c _ _ _ (hAw e he)
              · subst he; exact ihw
              · exact wf_succ c _ _ _ (hBw e he)
          · intro e
            have hold : artLeaves (f + 1) (.inner big pfx kids) =
                A.flatMap (fun e => artLeaves f e.2) ++ (artLeaves f old ++ B.flatMap (fun e => artLeaves f e.2)) := by
              rw [leaves_inner, hsplit]; simp
            have hA' : A.flatMap (fun e => artLeaves (f + 1) e.2) = A.flatMap (fun e => artLeaves f e.2) :=
              flatMap_congr' (fun e he => leaves_succ c _ _ _ (hAw e he))
            have hB' : B.flatMap (fun e => artLeaves (f + 1) e.2) = B.flatMap (fun e => artLeaves f e.2) :=
              flatMap_congr' (fun e he => leaves_succ c _ _ _ (hBw e he))
            rw [hold, leaves_inner]
            simp only [List.flatMap_append, List.flatMap_cons, List.mem_append, hA', hB', ihm]
            have hAne : ∀ x ∈ A.flatMap (fun e => artLeaves f e.2), x.1 ≠ k := by
              intro x hx
              obtain ⟨kid, hk, hxk⟩ := List.mem_flatMap.mp hx
              exact other_child_ne hg (hAw kid hk) (hA kid hk) hstem x hxk
            have hBne' : ∀ x ∈ B.flatMap (fun e => artLeaves f e.2), x.1 ≠ k := by
              intro x hx
              obtain ⟨kid, hk, hxk⟩ := List.mem_flatMap.mp hx
              exact other_child_ne hg (hBw kid hk) (hBne kid hk) hstem x hxk
            constructor
            · rintro (h | (h | ⟨h, hn⟩) | h)
              · exact Or.inr ⟨Or.inl h, hAne e h⟩
              · exact Or.inl h
              · exact Or.inr ⟨Or.inr (Or.inl h), hn⟩
              · exact Or.inr ⟨Or.inr (Or.inr h), hBne' e h⟩
            · rintro (h | ⟨h | h | h, hn⟩)
              · exact Or.inr (Or.inl (Or.inl h))
              · exact Or.inl h
              · exact Or.inr (Or.inl (Or.inr ⟨h, hn⟩))
              · exact Or.inr (Or.inr h)
      · -- prefix split
        have hmp : matchPrefix c pfx (navOf c k) path.length 0 = (q.length, if y < x then .lt else .gt) := by
          rw [hnk, hpfx]
          have := matchPrefix_ne c q x s path y s' path.length 0 (by simp) (fun e => hxy e.symm)
          simpa using this
        have hcmp : (if y < x then Ordering.lt else Ordering.gt) ≠ Ordering.eq := by
          by_cases h : y < x <;> simp [h]
        have hkb : keyByte c (navOf c k) (path.length + q.length) = y := by
          rw [hnk]; exact keyByte_at' c (path ++ q) y s' _ (by simp)
        have htake : pfx.take q.length = q := by rw [hpfx]; simp
        have hgetD : pfx.getD q.length 0 = x := by rw [hpfx]; simp [List.getD_eq_getElem?_getD]
        have hdrop : pfx.drop (q.length + 1) = s := by rw [hpfx]; simp
        have hres : artIns c k k (navOf c k) v (f + 1) (.inner big pfx kids) path.length =
            twoChild q x (.inner big s kids) y (.leaf k v) := by
          simp only [artIns, hmp, hcmp, ne_eq, not_false_eq_true, if_true, htake, hgetD, hdrop, hkb]
        rw [hres]
        have hwin : WF c (f + 1) (.inner big s kids) (path ++ q ++ [x]) := by
          simp only [WF]
          refine ⟨hne, hsorted, ?_⟩
          intro e he
          have := hkidsw e he
          rw [hpfx] at this
          simpa [List.append_assoc] using this
        have hwk : WF c (f + 1) (.leaf k v) (path ++ q ++ [y]) := wf_leaf f h8 ⟨s', by rw [hnk]; simp⟩
        have holdne : ∀ e ∈ artLeaves (f + 1) (.inner big pfx kids), e.1 ≠ k := by
          intro e he heq
          have := (leaves_pfx c _ _ _ hwin e (by simpa [artLeaves] using he)).2
          rw [heq] at this
          exact ne_of_stem this ⟨s', by rw [hnk]; simp⟩ hxy rfl
        have hsame : artLeaves (f + 1) (.inner big s kids) = artLeaves (f + 1) (.inner big pfx kids) := by
          simp [artLeaves]
        rcases twoChild_eq q x y (.inner big s kids) (.leaf k v) hxy with ⟨hlt, he⟩ | ⟨hlt, he⟩
        · rw [he]
          refine ⟨?_, ?_⟩
          · simp only [WF]
            refine ⟨by simp, by simp [hlt], ?_⟩
            intro e he'
            simp only [List.mem_cons, List.mem_nil_iff, or_false] at he'
            rcases he' with rfl | rfl
            · exact hwin
            · exact hwk
          · intro e
            rw [show artLeaves (f + 1 + 1) (.inner false q [(x, .inner big s kids), (y, .leaf k v)]) =
                artLeaves (f + 1) (.inner big s kids) ++ [(k, v)] by simp [artLeaves]]
            rw [hsame, List.mem_append, List.mem_singleton]
            constructor
            · rintro (h | h)
              · exact Or.inr ⟨h, holdne e h⟩
              · exact Or.inl h
            · rintro (h | ⟨h, _⟩)
              · exact Or.inr h
              · exact Or.inl h
        · rw [he]
          refine ⟨?_, ?_⟩
          · simp only [WF]
            refine ⟨by simp, by simp [hlt], ?_⟩
            intro e he'
            simp only [List.mem_cons, List.mem_nil_iff, or_false] at he'
            rcases he' with rfl | rfl
            · exact hwk
            · exact hwin
          · intro e
            rw [show artLeaves (f + 1 + 1) (.inner false q [(y, .leaf k v), (x, .inner big s kids)]) =
                [(k, v)] ++ artLeaves (f + 1) (.inner big s kids) by simp [artLeaves]]
            rw [hsame, List.mem_append, List.mem_singleton]
            constructor
            · rintro (h | h)
              · exact Or.inl h
              · exact Or.inr ⟨h, holdne e h⟩
            · rintro (h | ⟨h, _⟩)
              · exact Or.inl h
              · exact Or.inr h

end

end NoKV.Index

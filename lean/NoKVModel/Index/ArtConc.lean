/-
Small-step abstraction of two concurrent `artTree.tryInsert` calls (C07, concurrent inserts).

The tree is abstracted to what matters for the lost update: a root pointer, and for every inner
node its *payload* (here: the list of keys reachable through it).  Thread A inserts key 2 below
a child of the inner node `P` — `replaceChild(parent = P, …)`:

    A0  load the root, navigate to P                       (pA := root)
    A1  oldA := P.payloadOffset.Load()
    A2  P.payloadOffset.CompareAndSwap(oldA, clone(oldA) with the child replaced)

Thread B inserts key 3 as a *missing child* of `P` — `insertChild` builds a grown copy `P'` of
`P` and `replaceChild(parent = nil, …)` swings the root:

    B0  load the root                                      (pB := root)
    B1  oldB := P.payloadPtr()                             (snapshot used to build P')
    B2  root.CompareAndSwap(P, P')  with  P'.payload = oldB + new child

As-is neither CAS re-validates the other word: A2 succeeds on a `P` that B2 already unlinked,
and B2 succeeds with a snapshot `oldB` that A2 made stale.  `parentRevalidated = true` models the
repaired shape: both CASes additionally require (atomically) that `P` is still the root's target
and that its payload is still the snapshot.  A failed CAS restarts the insert (`tryInsert`
returns false, `Set` loops).
-/
namespace NoKV.Index

structure ConcCfg where
  /-- `replaceChild` re-validates that the parent is still reachable / unchanged -/
  parentRevalidated : Bool
  deriving DecidableEq, Repr

inductive Tid where | a | b
  deriving DecidableEq, Repr

structure ConcSt where
  root : Nat
  /-- payload of node `i` = `payloads[i]` -/
  payloads : List (List Nat)
  pcA : Nat
  pA : Nat
  oldA : List Nat
  pcB : Nat
  pB : Nat
  oldB : List Nat
  deriving DecidableEq, Repr

def initConc : ConcSt :=
  { root := 0, payloads := [[1]], pcA := 0, pA := 0, oldA := [], pcB := 0, pB := 0, oldB := [] }

def payloadOf (s : ConcSt) (i : Nat) : List Nat := s.payloads.getD i []

def setPayload (s : ConcSt) (i : Nat) (p : List Nat) : List (List Nat) := s.payloads.set i p

/-- one micro-step of thread `t` (a finished thread does nothing) -/
def stepConc (c : ConcCfg) (s : ConcSt) : Tid → ConcSt
  | .a =>
    match s.pcA with
    | 0 => { s with pA := s.root, pcA := 1 }
    | 1 => { s with oldA := payloadOf s s.pA, pcA := 2 }
    | 2 =>
      let casOk := payloadOf s s.pA = s.oldA
      let valid := !c.parentRevalidated || s.root = s.pA
      if casOk ∧ valid then { s with payloads := setPayload s s.pA (s.oldA ++ [2]), pcA := 3 }
      else { s with pcA := 0 }
    | _ => s
  | .b =>
    match s.pcB with
    | 0 => { s with pB := s.root, pcB := 1 }
    | 1 => { s with oldB := payloadOf s s.pB, pcB := 2 }
    | 2 =>
      let casOk := s.root = s.pB
      let valid := !c.parentRevalidated || payloadOf s s.pB = s.oldB
      if casOk ∧ valid then
        { s with payloads := s.payloads ++ [s.oldB ++ [3]], root := s.payloads.length, pcB := 3 }
      else { s with pcB := 0 }
    | _ => s

def runSched (c : ConcCfg) (sched : List Tid) (s : ConcSt) : ConcSt := sched.foldl (stepConc c) s

def ConcSt.bothDone (s : ConcSt) : Bool := s.pcA = 3 && s.pcB = 3

def insSorted (x : Nat) : List Nat → List Nat
  | [] => [x]
  | y :: ys => if x ≤ y then x :: y :: ys else y :: insSorted x ys

/-- keys reachable from the root, ascending -/
def reachableKeys (s : ConcSt) : List Nat := (payloadOf s s.root).foldr insSorted []

/-- all schedules of length 10 (enough for both threads to finish with one retry each) -/
def schedsOfLen : Nat → List (List Tid)
  | 0 => [[]]
  | n + 1 => (schedsOfLen n).flatMap (fun s => [Tid.a :: s, Tid.b :: s])

def allScheds : List (List Tid) := schedsOfLen 10

end NoKV.Index

/-
Small lemmas about the list-level helpers of the ART model (`keyByte`, `matchPrefix`, `lcpFrom`,
`firstIdx`, `kidInsert`, `replaceAt`, `dedupLast`, `findChildGE/LE`) and about how a radix key
relates to the compressed prefix of a node (helper file for `C07_art_refines`).
-/
import NoKVModel.Index.ArtWF

set_option linter.unusedSimpArgs false
set_option linter.unusedVariables false
namespace NoKV.Index
open NoKV

/-! ### keyByte / matchPrefix / lcpFrom -/

theorem keyByte_at (c : IdxCfg) (q : Bytes) (x : Nat) (r : Bytes) : keyByte c (q ++ x :: r) q.length = x := by
  simp [keyByte, List.getD_eq_getElem?_getD]

theorem keyByte_at' (c : IdxCfg) (q : Bytes) (x : Nat) (r : Bytes) (n : Nat) (h : n = q.length) :
    keyByte c (q ++ x :: r) n = x := by subst h; exact keyByte_at c q x r

/-- the key spells the whole compressed prefix -/
theorem matchPrefix_eq (c : IdxCfg) : ∀ (pfx pre rest : Bytes) (depth i : Nat), pre.length = depth + i →
    matchPrefix c pfx (pre ++ pfx ++ rest) depth i = (i + pfx.length, .eq) := by
  intro pfx
  induction pfx with
  | nil => intro pre rest depth i _; simp [matchPrefix]
  | cons p ps ih =>
    intro pre rest depth i h
    unfold matchPrefix
    have hk : keyByte c (pre ++ (p :: ps) ++ rest) (depth + i) = p := by
      rw [List.append_assoc, List.cons_append]
      exact keyByte_at' c pre p (ps ++ rest) _ h.symm
    simp only [hk, if_true]
    have := ih (pre ++ [p]) rest depth (i + 1) (by simp [h]; omega)
    simp only [List.append_assoc, List.singleton_append, List.cons_append, List.nil_append] at this ⊢
    rw [this]
    simp; omega

/-- the key leaves the compressed prefix at a byte inside it -/
theorem matchPrefix_ne (c : IdxCfg) : ∀ (q : Bytes) (x : Nat) (s pre : Bytes) (y : Nat) (s' : Bytes) (depth i : Nat),
    pre.length = depth + i → y ≠ x →
    matchPrefix c (q ++ x :: s) (pre ++ q ++ y :: s') depth i = (i + q.length, if y < x then .lt else .gt) := by
  intro q
  induction q with
  | nil =>
    intro x s pre y s' depth i h hne
    unfold matchPrefix
    have hk : keyByte c (pre ++ [] ++ y :: s') (depth + i) = y := by
      simp only [List.append_nil]
      exact keyByte_at' c pre y s' _ h.symm
    simp only [List.nil_append, hk, hne, if_false, List.length_nil, Nat.add_zero]
    by_cases hlt : y < x <;> simp [hlt]
  | cons p ps ih =>
    intro x s pre y s' depth i h hne
    unfold matchPrefix
    have hk : keyByte c (pre ++ (p :: ps) ++ y :: s') (depth + i) = p := by
      rw [List.append_assoc, List.cons_append]
      exact keyByte_at' c pre p (ps ++ y :: s') _ h.symm
    simp only [List.cons_append, hk, if_true]
    have := ih x s (pre ++ [p]) y s' depth (i + 1) (by simp [h]; omega) hne
    simp only [List.append_assoc, List.singleton_append, List.cons_append, List.nil_append] at this ⊢
    rw [this]
    simp; omega

theorem lcp_go (x y : Nat) (hne : x ≠ y) (r1 r2 : Bytes) : ∀ (P : Bytes) (n : Nat), P.length + 1 ≤ n →
    lcpFrom.go (P ++ x :: r1) (P ++ y :: r2) n = P.length := by
  intro P
  induction P with
  | nil =>
    intro n hn
    cases n with
    | zero => omega
    | succ n => simp [lcpFrom.go, hne]
  | cons p ps ih =>
    intro n hn
    cases n with
    | zero => omega
    | succ n =>
      simp only [List.cons_append, lcpFrom.go, if_true, List.length_cons]
      rw [ih n (by simp at hn; omega)]
      omega

theorem lcpFrom_spec (path P : Bytes) (x y : Nat) (hne : x ≠ y) (r1 r2 : Bytes) :
    lcpFrom (path ++ P ++ x :: r1) (path ++ P ++ y :: r2) path.length = P.length := by
  unfold lcpFrom
  simp only [List.append_assoc, List.drop_left']
  apply lcp_go x y hne
  simp

/-! ### a radix key against the compressed prefix of a node -/

theorem not_diverge_nil (b : Bytes) : ¬ Diverge [] b := by
  rintro ⟨p, c, d, r1, r2, _, h, _⟩
  cases p <;> simp at h

theorem diverge_cons_cancel {p : Nat} {a b : Bytes} (h : Diverge (p :: a) (p :: b)) : Diverge a b := by
  obtain ⟨q, c, d, r1, r2, hne, h1, h2⟩ := h
  cases q with
  | nil =>
    simp only [List.nil_append, List.cons.injEq] at h1 h2
    exact absurd (h1.1.symm.trans h2.1) hne
  | cons q0 q =>
    simp only [List.cons_append, List.cons.injEq] at h1 h2
    exact ⟨q, c, d, r1, r2, hne, h1.2, h2.2⟩

theorem diverge_cancel_left : ∀ (p : Bytes) {a b : Bytes}, Diverge (p ++ a) (p ++ b) → Diverge a b := by
  intro p
  induction p with
  | nil => intro a b h; exact h
  | cons x xs ih => intro a b h; exact ih (diverge_cons_cancel h)

/-- Where the rest `rn` of a searched radix key stands against a node's compressed prefix `pfx`,
given the rest `rx` of a radix key stored below the child under byte `b`: either `rn` spells the
whole prefix and continues with some byte, or it leaves the prefix at a byte inside it. -/
theorem pfx_cases : ∀ (pfx : Bytes) (b : Nat) (rn rx : Bytes), pfx ++ [b] <+: rx → (rn = rx ∨ Diverge rn rx) →
    (∃ y r, rn = pfx ++ y :: r) ∨
    (∃ q x s y s', x ≠ y ∧ pfx = q ++ x :: s ∧ rn = q ++ y :: s') := by
  intro pfx
  induction pfx with
  | nil =>
    intro b rn rx hp h
    left
    obtain ⟨tl, rfl⟩ := hp
    rcases h with h | h
    · subst h; exact ⟨b, tl, by simp⟩
    · obtain ⟨P, a, d, r1, r2, _, h1, _⟩ := h
      subst h1
      cases P with
      | nil => exact ⟨a, r1, by simp⟩
      | cons p0 P => exact ⟨p0, P ++ a :: r1, by simp⟩
  | cons p ps ih =>
    intro b rn rx hp h
    obtain ⟨tl, hrx⟩ := hp
    cases rn with
    | nil =>
      rcases h with h | h
      · rw [← h] at hrx; simp at hrx
      · exact absurd h (not_diverge_nil _)
    | cons y rn' =>
      by_cases hy : y = p
      · subst hy
        have hrx' : rx = y :: (ps ++ [b] ++ tl) := by rw [← hrx]; simp
        have h' : rn' = ps ++ [b] ++ tl ∨ Diverge rn' (ps ++ [b] ++ tl) := by
          rcases h with h | h
          · left; rw [hrx'] at h; simpa using h
          · right; rw [hrx'] at h; exact diverge_cons_cancel h
        rcases ih b rn' (ps ++ [b] ++ tl) ⟨tl, rfl⟩ h' with ⟨y', r, e⟩ | ⟨q, x, s, y', s', hne, e1, e2⟩
        · left; exact ⟨y', r, by rw [e]; simp⟩
        · right; exact ⟨y :: q, x, s, y', s', hne, by rw [e1]; simp, by rw [e2]; simp⟩
      · right
        exact ⟨[], p, ps, y, rn', fun e => hy e.symm, by simp, by simp⟩

/-! ### children lists -/

theorem firstIdx_none : ∀ (b : Nat) (kids : List (Nat × Art)) (j : Nat), firstIdx b kids j = none →
    ∀ e ∈ kids, e.1 ≠ b := by
  intro b kids
  induction kids with
  | nil => intro j _ e he; simp at he
  | cons k rest ih =>
    intro j h e he
    obtain ⟨kb, kt⟩ := k
    simp only [firstIdx] at h
    by_cases hk : kb = b
    · simp [hk] at h
    · simp only [hk, if_false] at h
      simp only [List.mem_cons] at he
      rcases he with he | he
      · subst he; exact hk
      · exact ih (j + 1) h e he

theorem firstIdx_some : ∀ (b : Nat) (kids : List (Nat × Art)) (j i : Nat), firstIdx b kids j = some i →
    ∃ A old B, kids = A ++ (b, old) :: B ∧ i = j + A.length ∧ ∀ e ∈ A, e.1 ≠ b := by
  intro b kids
  induction kids with
  | nil => intro j i h; simp [firstIdx] at h
  | cons k rest ih =>
    intro j i h
    obtain ⟨kb, kt⟩ := k
    simp only [firstIdx] at h
    by_cases hk : kb = b
    · simp only [hk, if_true, Option.some.injEq] at h
      subst hk
      exact ⟨[], kt, rest, by simp, by simp [h], by simp⟩
    · simp only [hk, if_false] at h
      obtain ⟨A, old, B, e1, e2, e3⟩ := ih (j + 1) i h
      refine ⟨(kb, kt) :: A, old, B, by rw [e1]; simp, by simp [e2]; omega, ?_⟩
      intro e he
      simp only [List.mem_cons] at he
      rcases he with he | he
      · subst he; exact hk
      · exact e3 e he

theorem replaceAt_split (A : List (Nat × Art)) (b : Nat) (old t : Art) (B : List (Nat × Art)) :
    replaceAt A.length t (A ++ (b, old) :: B) = A ++ (b, t) :: B := by
  induction A with
  | nil => simp [replaceAt]
  | cons a A ih =>
    obtain ⟨ab, at'⟩ := a
    simp only [List.length_cons, List.cons_append, replaceAt]
    rw [ih]

theorem dedupLast_sorted : ∀ (kids : List (Nat × Art)), kids.Pairwise (fun a b => a.1 < b.1) → dedupLast kids = kids := by
  intro kids
  induction kids with
  | nil => intro _; rfl
  | cons k rest ih =>
    intro h
    obtain ⟨kb, kt⟩ := k
    rw [List.pairwise_cons] at h
    have hany : rest.any (fun e => decide (e.1 = kb)) = false := by
      rw [List.any_eq_false]
      intro e he
      have := h.1 e he
      simp at this ⊢
      omega
    simp only [dedupLast, hany, Bool.false_eq_true, if_false]
    rw [ih h.2]

theorem kidInsert_mem (b : Nat) (t : Art) : ∀ (kids : List (Nat × Art)) (e : Nat × Art),
    e ∈ kidInsert b t kids ↔ e = (b, t) ∨ e ∈ kids := by
  intro kids
  induction kids with
  | nil => intro e; simp [kidInsert]
  | cons k rest ih =>
    intro e
    obtain ⟨kb, kt⟩ := k
    simp only [kidInsert]
    by_cases h : kb ≥ b
    · simp [h]
    · simp only [h, if_false, List.mem_cons, ih]
      constructor
      · rintro (h1 | h1 | h1) <;> simp [h1]
      · rintro (h1 | h1 | h1) <;> simp [h1]

theorem kidInsert_sorted (b : Nat) (t : Art) : ∀ (kids : List (Nat × Art)),
    kids.Pairwise (fun x y => x.1 < y.1) → (∀ e ∈ kids, e.1 ≠ b) →
    (kidInsert b t kids).Pairwise (fun x y => x.1 < y.1) := by
  intro kids
  induction kids with
  | nil => intro _ _; simp [kidInsert]
  | cons k rest ih =>
    intro hs hne
    obtain ⟨kb, kt⟩ := k
    rw [List.pairwise_cons] at hs
    have hkb : kb ≠ b := hne (kb, kt) (by simp)
    simp only [kidInsert]
    by_cases h : kb ≥ b
    · simp only [h, if_true]
      rw [List.pairwise_cons]
      refine ⟨?_, List.pairwise_cons.mpr hs⟩
      intro e he
      simp only [List.mem_cons] at he
      rcases he with he | he
      · subst he; simp; omega
      · have := hs.1 e he; simp at this ⊢; omega
    · simp only [h, if_false]
      rw [List.pairwise_cons]
      refine ⟨?_, ih hs.2 (fun e he => hne e (by simp [he]))⟩
      intro e he
      rcases (kidInsert_mem b t rest e).mp he with he | he
      · subst he; simp; omega
      · exact hs.1 e he

theorem kidInsert_ne_nil (b : Nat) (t : Art) (kids : List (Nat × Art)) : kidInsert b t kids ≠ [] := by
  cases kids with
  | nil => simp [kidInsert]
  | cons k rest =>
    obtain ⟨kb, kt⟩ := k
    simp only [kidInsert]
    by_cases h : kb ≥ b <;> simp [h]

end NoKV.Index

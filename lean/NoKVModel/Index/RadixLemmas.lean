/-
Where byte-lexicographic order on raw internal keys (what the ART navigates by) coincides
with `CompareKeys` (helper file for Props/C07.lean).
-/
import NoKVModel.Index.OrderLemmas

set_option linter.unusedSimpArgs false
set_option linter.unusedVariables false
namespace NoKV.Index
open NoKV

/-- the two strings differ at a position inside both -/
def Diverge (a b : Bytes) : Prop :=
  ∃ p c d r1 r2, c ≠ d ∧ a = p ++ c :: r1 ∧ b = p ++ d :: r2

theorem prefix_or_diverge (a b : Bytes) :
    a = b ∨ (∃ c r, b = a ++ c :: r) ∨ (∃ c r, a = b ++ c :: r) ∨ Diverge a b := by
  induction a generalizing b with
  | nil =>
    cases b with
    | nil => exact Or.inl rfl
    | cons d b => exact Or.inr (Or.inl ⟨d, b, rfl⟩)
  | cons c a ih =>
    cases b with
    | nil => exact Or.inr (Or.inr (Or.inl ⟨c, a, rfl⟩))
    | cons d b =>
      by_cases h : c = d
      · subst h
        rcases ih b with h | ⟨x, r, h⟩ | ⟨x, r, h⟩ | ⟨p, x, y, r1, r2, hne, h1, h2⟩
        · exact Or.inl (by rw [h])
        · exact Or.inr (Or.inl ⟨x, r, by rw [h]; rfl⟩)
        · exact Or.inr (Or.inr (Or.inl ⟨x, r, by rw [h]; rfl⟩))
        · exact Or.inr (Or.inr (Or.inr ⟨c :: p, x, y, r1, r2, hne, by rw [h1]; rfl, by rw [h2]; rfl⟩))
      · exact Or.inr (Or.inr (Or.inr ⟨[], c, d, a, b, h, rfl, rfl⟩))

theorem lt_prefix (u : Bytes) (c : Nat) (r : Bytes) : Bytes.lt u (u ++ c :: r) = true := by
  have := lt_append_left u [] (c :: r)
  simpa [Bytes.lt] using this

theorem not_lt_of_prefix (u : Bytes) (c : Nat) (r : Bytes) : Bytes.lt (u ++ c :: r) u = false := by
  have := lt_append_left u (c :: r) []
  simpa [Bytes.lt] using this

theorem ne_append_cons (u : Bytes) (c : Nat) (r : Bytes) : u ≠ u ++ c :: r := by
  intro h
  have := congrArg List.length h
  simp at this

theorem diverge_lt {a b : Bytes} (x y : Bytes) (h : Diverge a b) :
    Bytes.lt (a ++ x) (b ++ y) = Bytes.lt a b := by
  obtain ⟨p, c, d, r1, r2, hne, rfl, rfl⟩ := h
  simp only [List.append_assoc, List.cons_append]
  rw [lt_append_left, lt_append_left, lt_cons_ne hne, lt_cons_ne hne]

theorem diverge_ne {a b : Bytes} (h : Diverge a b) : a ≠ b := by
  obtain ⟨p, c, d, r1, r2, hne, rfl, rfl⟩ := h
  intro e
  have := List.append_cancel_left e
  simp at this
  exact hne this.1

theorem diverge_not_prefix {a b : Bytes} (h : Diverge a b) (c : Nat) (r : Bytes) : b ≠ a ++ c :: r := by
  obtain ⟨p, x, y, r1, r2, hne, rfl, rfl⟩ := h
  intro e
  rw [List.append_assoc] at e
  have := List.append_cancel_left e
  simp at this
  exact hne this.1.symm

theorem diverge_symm {a b : Bytes} (h : Diverge a b) : Diverge b a := by
  obtain ⟨p, x, y, r1, r2, hne, h1, h2⟩ := h
  exact ⟨p, y, x, r2, r1, Ne.symm hne, h2, h1⟩

/-- raw order and `CompareKeys` on two well-formed keys with the same user key -/
theorem raw_eq_ck_same {c : IdxCfg} (hc : c.ckBaseThenTs = true) (u t1 t2 : Bytes)
    (h1 : t1.length = 8) (h2 : t2.length = 8) :
    Bytes.lt (u ++ t1) (u ++ t2) = ckLt c (u ++ t1) (u ++ t2) := by
  rw [ckLt_def hc, baseOf_append h1, baseOf_append h2, tsOf_append h1, tsOf_append h2, lt_append_left]
  simp [Bytes.lt_irrefl]

theorem raw_eq_ck_diverge {c : IdxCfg} (hc : c.ckBaseThenTs = true) {u1 u2 : Bytes} (t1 t2 : Bytes)
    (h1 : t1.length = 8) (h2 : t2.length = 8) (hd : Diverge u1 u2) :
    Bytes.lt (u1 ++ t1) (u2 ++ t2) = ckLt c (u1 ++ t1) (u2 ++ t2) := by
  rw [ckLt_def hc, baseOf_append h1, baseOf_append h2, tsOf_append h1, tsOf_append h2, diverge_lt t1 t2 hd]
  have : (u1 == u2) = false := by simpa using diverge_ne hd
  simp [this]

/-- `u2 = u1 ++ c :: r`: `CompareKeys` says smaller; the raw order compares `t1` with `c :: r ++ t2` -/
theorem ck_prefix {c : IdxCfg} (hc : c.ckBaseThenTs = true) (u1 t1 t2 : Bytes) (x : Nat) (r : Bytes)
    (h1 : t1.length = 8) (h2 : t2.length = 8) :
    ckLt c (u1 ++ t1) ((u1 ++ x :: r) ++ t2) = true ∧ ckLt c ((u1 ++ x :: r) ++ t2) (u1 ++ t1) = false ∧
    Bytes.lt (u1 ++ t1) ((u1 ++ x :: r) ++ t2) = Bytes.lt t1 (x :: r ++ t2) ∧
    Bytes.lt ((u1 ++ x :: r) ++ t2) (u1 ++ t1) = Bytes.lt (x :: r ++ t2) t1 := by
  refine ⟨?_, ?_, ?_, ?_⟩
  · rw [ckLt_def hc, baseOf_append h1, baseOf_append h2]; simp [lt_prefix]
  · rw [ckLt_def hc, baseOf_append h1, baseOf_append h2]
    have : ((u1 ++ x :: r) == u1) = false := by simpa using (ne_append_cons u1 x r).symm
    simp [not_lt_of_prefix, this]
  · rw [List.append_assoc, lt_append_left]
  · rw [List.append_assoc, lt_append_left]

end NoKV.Index

/-
`artLB` / `artUB` / `artLocate` on a well-formed ART: lower bound = first leaf `≥` the target in
the in-order leaf list, upper bound = last leaf `≤` it, locate = the position of a stored leaf
(helper file for `C07_art_refines`).
-/
import NoKVModel.Index.ArtIns

set_option linter.unusedSimpArgs false
set_option linter.unusedVariables false
namespace NoKV.Index
open NoKV

/-! ### children split at a byte -/

theorem kids_split (y : Nat) : ∀ (kids : List (Nat × Art)), kids.Pairwise (fun a b => a.1 < b.1) →
    ∃ A B, (∀ e ∈ A, e.1 < y) ∧ (∀ e ∈ B, y < e.1) ∧ (kids = A ++ B ∨ ∃ ch, kids = A ++ (y, ch) :: B) := by
  intro kids
  induction kids with
  | nil => intro _; exact ⟨[], [], by simp, by simp, Or.inl rfl⟩
  | cons k rest ih =>
    intro hs
    obtain ⟨kb, kt⟩ := k
    rw [List.pairwise_cons] at hs
    by_cases h1 : kb < y
    · obtain ⟨A, B, hA, hB, h⟩ := ih hs.2
      refine ⟨(kb, kt) :: A, B, ?_, hB, ?_⟩
      · intro e he
        simp only [List.mem_cons] at he
        rcases he with he | he
        · subst he; exact h1
        · exact hA e he
      · rcases h with h | ⟨ch, h⟩
        · left; rw [h]; simp
        · right; exact ⟨ch, by rw [h]; simp⟩
    · by_cases h2 : kb = y
      · subst h2
        exact ⟨[], rest, by simp, fun e he => hs.1 e he, Or.inr ⟨kt, by simp⟩⟩
      · refine ⟨[], (kb, kt) :: rest, by simp, ?_, Or.inl (by simp)⟩
        intro e he
        simp only [List.mem_cons] at he
        rcases he with he | he
        · subst he; simp; omega
        · have := hs.1 e he; simp at this ⊢; omega

theorem findChildGE_skip (y : Nat) : ∀ (A R : List (Nat × Art)), (∀ e ∈ A, e.1 < y) →
    findChildGE y (A ++ R) = findChildGE y R := by
  intro A
  induction A with
  | nil => intro R _; rfl
  | cons a A ih =>
    intro R h
    obtain ⟨ab, at'⟩ := a
    have hab : ab < y := h (ab, at') (by simp)
    have h1 : ¬ ab = y := by omega
    have h2 : ¬ ab > y := by omega
    simp only [List.cons_append, findChildGE, h1, h2, if_false]
    exact ih R (fun e he => h e (by simp [he]))

theorem findChildGE_gt (y : Nat) (B : List (Nat × Art)) (hB : ∀ e ∈ B, y < e.1) :
    findChildGE y B = (none, B.head?.map (·.2)) := by
  cases B with
  | nil => rfl
  | cons g B' =>
    obtain ⟨gb, gt'⟩ := g
    have : y < gb := hB (gb, gt') (by simp)
    have h1 : ¬ gb = y := by omega
    simp [findChildGE, h1, this]

theorem findChildLE_go_skip (y : Nat) : ∀ (Bs R : List (Nat × Art)), (∀ e ∈ Bs, y < e.1) →
    findChildLE.go y (Bs ++ R) = findChildLE.go y R := by
  intro Bs
  induction Bs with
  | nil => intro R _; rfl
  | cons a Bs ih =>
    intro R h
    obtain ⟨ab, at'⟩ := a
    have hab : y < ab := h (ab, at') (by simp)
    have h1 : ¬ ab = y := by omega
    have h2 : ¬ ab < y := by omega
    simp only [List.cons_append, findChildLE.go, h1, h2, if_false]
    exact ih R (fun e he => h e (by simp [he]))

theorem findChildLE_go_lt (y : Nat) (As : List (Nat × Art)) (hA : ∀ e ∈ As, e.1 < y) :
    findChildLE.go y As = (none, As.head?.map (·.2)) := by
  cases As with
  | nil => rfl
  | cons g A' =>
    obtain ⟨gb, gt'⟩ := g
    have : gb < y := hA (gb, gt') (by simp)
    have h1 : ¬ gb = y := by omega
    simp [findChildLE.go, h1, this]

section
variable {c : IdxCfg}

abbrev leavesOf (f : Nat) (l : List (Nat × Art)) : List Entry := l.flatMap (fun e => artLeaves f e.2)

theorem leavesOf_lt (hg : c.ArtGood) {f : Nat} {A : List (Nat × Art)} {stem nk : Bytes} {y : Nat}
    (hw : ∀ e ∈ A, WF c f e.2 (stem ++ [e.1])) (hA : ∀ e ∈ A, e.1 < y) (hk : stem ++ [y] <+: nk) :
    ∀ x ∈ leavesOf f A, Bytes.lt (navOf c x.1) nk = true := by
  intro x hx
  obtain ⟨kid, hkid, hxk⟩ := List.mem_flatMap.mp hx
  exact lt_of_stem (leaves_pfx c _ _ _ (hw kid hkid) x hxk).2 hk (hA kid hkid)

theorem leavesOf_gt (hg : c.ArtGood) {f : Nat} {B : List (Nat × Art)} {stem nk : Bytes} {y : Nat}
    (hw : ∀ e ∈ B, WF c f e.2 (stem ++ [e.1])) (hB : ∀ e ∈ B, y < e.1) (hk : stem ++ [y] <+: nk) :
    ∀ x ∈ leavesOf f B, Bytes.lt nk (navOf c x.1) = true := by
  intro x hx
  obtain ⟨kid, hkid, hxk⟩ := List.mem_flatMap.mp hx
  exact lt_of_stem hk (leaves_pfx c _ _ _ (hw kid hkid) x hxk).2 (hB kid hkid)

theorem find?_all_false {α : Type} {p : α → Bool} {l : List α} (h : ∀ x ∈ l, p x = false) : l.find? p = none := by
  rw [List.find?_eq_none]
  intro x hx; simp [h x hx]

theorem find?_head_true {α : Type} {p : α → Bool} {l : List α} (h : ∀ x ∈ l, p x = true) : l.find? p = l.head? := by
  cases l with
  | nil => rfl
  | cons a l => simp [List.find?_cons, h a (by simp)]

theorem head?_leavesOf (f : Nat) (B : List (Nat × Art)) (stem : Bytes)
    (hw : ∀ e ∈ B, WF c f e.2 (stem ++ [e.1])) :
    (leavesOf f B).head? = (B.head?.map (·.2)).bind (artMin f) := by
  cases B with
  | nil => rfl
  | cons g B' =>
    have hne := leaves_ne_nil c _ _ _ (hw g (by simp))
    obtain ⟨e0, r0, he0⟩ := List.exists_cons_of_ne_nil hne
    simp [leavesOf, artMin, he0]

theorem getLast?_leavesOf (f : Nat) (A : List (Nat × Art)) (stem : Bytes)
    (hw : ∀ e ∈ A, WF c f e.2 (stem ++ [e.1])) :
    (leavesOf f A).getLast? = (A.getLast?.map (·.2)).bind (artMax f) := by
  rcases List.eq_nil_or_concat A with h | ⟨A', g, h⟩
  · subst h; rfl
  · subst h
    have hne := leaves_ne_nil c _ _ _ (hw g (by simp))
    cases hl : (artLeaves f g.2).getLast? with
    | none => exact absurd (List.getLast?_eq_none_iff.mp hl) hne
    | some v => simp [leavesOf, List.getLast?_append, artMax, hl]

/-- the leaves below an inner node spell its whole compressed prefix -/
theorem wf_trim {f : Nat} {big : Bool} {q : Bytes} {x : Nat} {s : Bytes} {kids : List (Nat × Art)} {path : Bytes}
    (hw : WF c (f + 1) (.inner big (q ++ x :: s) kids) path) :
    WF c (f + 1) (.inner big s kids) (path ++ q ++ [x]) := by
  simp only [WF] at hw ⊢
  refine ⟨hw.1, hw.2.1, ?_⟩
  intro e he
  have := hw.2.2 e he
  simpa [List.append_assoc] using this

/-- lower bound: the first leaf whose radix key is not below the target's -/
theorem artLB_spec (hg : c.ArtGood) (key : Bytes) (h8 : 8 ≤ key.length) :
    ∀ (f : Nat) (t : Art) (path : Bytes), WF c f t path → path <+: navOf c key →
      artLB c key (navOf c key) f t path.length =
        (artLeaves f t).find? (fun e => !Bytes.lt (navOf c e.1) (navOf c key)) := by
  have hB := hg.1
  have hLb := hg.2.1
  have hO := hg.2.2.2
  intro f
  induction f with
  | zero => intro t path h; simp [WF] at h
  | succ f ih =>
    intro t path hw hp
    cases t with
    | leaf lk lv =>
      simp only [WF] at hw
      have hlt : ckLt c lk key = Bytes.lt (navOf c lk) (navOf c key) := (nav_lt hO hB hw.1 h8).symm
      simp only [artLB, hLb, CmpOp.eval, hlt, leaves_leaf, List.find?_cons, List.find?_nil]
      cases Bytes.lt (navOf c lk) (navOf c key) <;> simp
    | inner big pfx kids =>
      have hw' := hw
      simp only [WF] at hw'
      obtain ⟨hne, hsorted, hkidsw⟩ := hw'
      rcases key_vs_node hg hw h8 hp with ⟨y, r, hnk⟩ | ⟨q, x, s, y, s', hxy, hpfx, hnk⟩
      · have hmp : matchPrefix c pfx (navOf c key) path.length 0 = (pfx.length, .eq) := by
          rw [hnk]
          have := matchPrefix_eq c pfx path (y :: r) path.length 0 (by simp)
          simpa using this
        have hkb : keyByte c (navOf c key) (path.length + pfx.length) = y := by
          rw [hnk]; exact keyByte_at' c (path ++ pfx) y r _ (by simp)
        have hstem : path ++ pfx ++ [y] <+: navOf c key := ⟨r, by rw [hnk]; simp⟩
        have hdepth : path.length + pfx.length + 1 = (path ++ pfx ++ [y]).length := by
          simp only [List.length_append, List.length_singleton]
        obtain ⟨A, B, hA, hBb, hsplit⟩ := kids_split y kids hsorted
        rcases hsplit with hsplit | ⟨ch, hsplit⟩
        · -- no child under y
          have hAw : ∀ e ∈ A, WF c f e.2 (path ++ pfx ++ [e.1]) := fun e he => hkidsw e (by rw [hsplit]; simp [he])
          have hBw : ∀ e ∈ B, WF c f e.2 (path ++ pfx ++ [e.1]) := fun e he => hkidsw e (by rw [hsplit]; simp [he])
          have hfc : findChildGE y kids = (none, B.head?.map (·.2)) := by
            rw [hsplit, findChildGE_skip y A B hA, findChildGE_gt y B hBb]
          have hAf : (leavesOf f A).find? (fun e => !Bytes.lt (navOf c e.1) (navOf c key)) = none :=
            find?_all_false (fun x hx => by simp [leavesOf_lt hg hAw hA hstem x hx])
          have hBf : (leavesOf f B).find? (fun e => !Bytes.lt (navOf c e.1) (navOf c key)) = (leavesOf f B).head? :=
            find?_head_true (fun x hx => by simp [Bytes.lt_asymm (leavesOf_gt hg hBw hBb hstem x hx)])
          simp only [artLB, hmp, hkb, hfc, leaves_inner]
          rw [hsplit, List.flatMap_append, List.find?_append, hAf, hBf, head?_leavesOf f B _ hBw]
          generalize Option.map (fun x => x.snd) B.head? = o
          cases o <;> simp
        · have hAw : ∀ e ∈ A, WF c f e.2 (path ++ pfx ++ [e.1]) := fun e he => hkidsw e (by rw [hsplit]; simp [he])
          have hBw : ∀ e ∈ B, WF c f e.2 (path ++ pfx ++ [e.1]) := fun e he => hkidsw e (by rw [hsplit]; simp [he])
          have hchw : WF c f ch (path ++ pfx ++ [y]) := hkidsw (y, ch) (by rw [hsplit]; simp)
          have hfc : findChildGE y kids = (some ch, B.head?.map (·.2)) := by
            rw [hsplit, findChildGE_skip y A _ hA]; simp [findChildGE]
          have hAf : (leavesOf f A).find? (fun e => !Bytes.lt (navOf c e.1) (navOf c key)) = none :=
            find?_all_false (fun x hx => by simp [leavesOf_lt hg hAw hA hstem x hx])
          have hBf : (leavesOf f B).find? (fun e => !Bytes.lt (navOf c e.1) (navOf c key)) = (leavesOf f B).head? :=
            find?_head_true (fun x hx => by simp [Bytes.lt_asymm (leavesOf_gt hg hBw hBb hstem x hx)])
          have ihc := ih ch (path ++ pfx ++ [y]) hchw hstem
          simp only [artLB, hmp, hkb, hfc, leaves_inner, hdepth, ihc]
          rw [hsplit, List.flatMap_append, List.flatMap_cons, List.find?_append, List.find?_append, hAf, hBf,
            head?_leavesOf f B _ hBw]
          generalize Option.map (fun x => x.snd) B.head? = o
          cases (artLeaves f ch).find? (fun e => !Bytes.lt (navOf c e.1) (navOf c key)) <;> cases o <;> simp
      · have hmp : matchPrefix c pfx (navOf c key) path.length 0 = (q.length, if y < x then .lt else .gt) := by
          rw [hnk, hpfx]
          have := matchPrefix_ne c q x s path y s' path.length 0 (by simp) (fun e => hxy e.symm)
          simpa using this
        have hkstem : path ++ q ++ [y] <+: navOf c key := ⟨s', by rw [hnk]; simp⟩
        have hlstem : ∀ e ∈ artLeaves (f + 1) (.inner big pfx kids), path ++ q ++ [x] <+: navOf c e.1 := by
          intro e he
          have hwt : WF c (f + 1) (.inner big s kids) (path ++ q ++ [x]) := wf_trim (by rw [← hpfx]; exact hw)
          exact (leaves_pfx c _ _ _ hwt e (by simpa [leaves_inner] using he)).2
        by_cases hyx : y < x
        · -- the target is below everything under this node
          have hall : ∀ e ∈ artLeaves (f + 1) (.inner big pfx kids),
              (!Bytes.lt (navOf c e.1) (navOf c key)) = true := by
            intro e he
            simp [Bytes.lt_asymm (lt_of_stem hkstem (hlstem e he) hyx)]
          simp only [artLB, hmp, hyx, if_true, artMin]
          exact (find?_head_true hall).symm
        · have hxy' : x < y := by omega
          have hall : ∀ e ∈ artLeaves (f + 1) (.inner big pfx kids),
              (!Bytes.lt (navOf c e.1) (navOf c key)) = false := by
            intro e he
            simp [lt_of_stem (hlstem e he) hkstem hxy']
          simp only [artLB, hmp, hyx, if_false]
          simp only [show (Ordering.gt = Ordering.lt) = False by simp, if_false, if_true]
          exact (find?_all_false hall).symm

/-- upper bound: the last leaf whose radix key is not above the target's -/
theorem artUB_spec (hg : c.ArtGood) (key : Bytes) (h8 : 8 ≤ key.length) :
    ∀ (f : Nat) (t : Art) (path : Bytes), WF c f t path → path <+: navOf c key →
      artUB c key (navOf c key) f t path.length =
        (artLeaves f t).reverse.find? (fun e => !Bytes.lt (navOf c key) (navOf c e.1)) := by
  have hB := hg.1
  have hUb := hg.2.2.1
  have hO := hg.2.2.2
  intro f
  induction f with
  | zero => intro t path h; simp [WF] at h
  | succ f ih =>
    intro t path hw hp
    cases t with
    | leaf lk lv =>
      simp only [WF] at hw
      have hlt : ckLt c lk key = Bytes.lt (navOf c lk) (navOf c key) := (nav_lt hO hB hw.1 h8).symm
      have hgt : ckLt c key lk = Bytes.lt (navOf c key) (navOf c lk) := (nav_lt hO hB h8 hw.1).symm
      simp only [artUB, hUb, CmpOp.eval, ckEq, hlt, hgt, leaves_leaf, List.reverse_singleton, List.find?_cons,
        List.find?_nil]
      cases h1 : Bytes.lt (navOf c lk) (navOf c key) with
      | true => simp [Bytes.lt_asymm h1]
      | false => cases h2 : Bytes.lt (navOf c key) (navOf c lk) <;> simp
    | inner big pfx kids =>
      have hw' := hw
      simp only [WF] at hw'
      obtain ⟨hne, hsorted, hkidsw⟩ := hw'
      rcases key_vs_node hg hw h8 hp with ⟨y, r, hnk⟩ | ⟨q, x, s, y, s', hxy, hpfx, hnk⟩
      · have hmp : matchPrefix c pfx (navOf c key) path.length 0 = (pfx.length, .eq) := by
          rw [hnk]
          have := matchPrefix_eq c pfx path (y :: r) path.length 0 (by simp)
          simpa using this
        have hkb : keyByte c (navOf c key) (path.length + pfx.length) = y := by
          rw [hnk]; exact keyByte_at' c (path ++ pfx) y r _ (by simp)
        have hstem : path ++ pfx ++ [y] <+: navOf c key := ⟨r, by rw [hnk]; simp⟩
        have hdepth : path.length + pfx.length + 1 = (path ++ pfx ++ [y]).length := by
          simp only [List.length_append, List.length_singleton]
        obtain ⟨A, B, hA, hBb, hsplit⟩ := kids_split y kids hsorted
        have hArev : ∀ e ∈ A.reverse, e.1 < y := fun e he => hA e (List.mem_reverse.mp he)
        have hBrev : ∀ e ∈ B.reverse, y < e.1 := fun e he => hBb e (List.mem_reverse.mp he)
        rcases hsplit with hsplit | ⟨ch, hsplit⟩
        · have hAw : ∀ e ∈ A, WF c f e.2 (path ++ pfx ++ [e.1]) := fun e he => hkidsw e (by rw [hsplit]; simp [he])
          have hBw : ∀ e ∈ B, WF c f e.2 (path ++ pfx ++ [e.1]) := fun e he => hkidsw e (by rw [hsplit]; simp [he])
          have hfc : findChildLE y kids = (none, A.getLast?.map (·.2)) := by
            unfold findChildLE
            rw [hsplit, List.reverse_append, findChildLE_go_skip y _ _ hBrev, findChildLE_go_lt y _ hArev]
            simp [List.head?_reverse]
          have hBf : (leavesOf f B).reverse.find? (fun e => !Bytes.lt (navOf c key) (navOf c e.1)) = none :=
            find?_all_false (fun x hx => by simp [leavesOf_gt hg hBw hBb hstem x (List.mem_reverse.mp hx)])
          have hAf : (leavesOf f A).reverse.find? (fun e => !Bytes.lt (navOf c key) (navOf c e.1)) =
              (leavesOf f A).reverse.head? :=
            find?_head_true (fun x hx => by
              simp [Bytes.lt_asymm (leavesOf_lt hg hAw hA hstem x (List.mem_reverse.mp hx))])
          simp only [artUB, hmp, hkb, hfc, leaves_inner]
          rw [hsplit, List.flatMap_append, List.reverse_append, List.find?_append, hBf, hAf, List.head?_reverse,
            getLast?_leavesOf f A _ hAw]
          generalize Option.map (fun x => x.snd) A.getLast? = o
          cases o <;> simp
        · have hAw : ∀ e ∈ A, WF c f e.2 (path ++ pfx ++ [e.1]) := fun e he => hkidsw e (by rw [hsplit]; simp [he])
          have hBw : ∀ e ∈ B, WF c f e.2 (path ++ pfx ++ [e.1]) := fun e he => hkidsw e (by rw [hsplit]; simp [he])
          have hchw : WF c f ch (path ++ pfx ++ [y]) := hkidsw (y, ch) (by rw [hsplit]; simp)
          have hfc : findChildLE y kids = (some ch, A.getLast?.map (·.2)) := by
            unfold findChildLE
            rw [hsplit, List.reverse_append, List.reverse_cons, List.append_assoc,
              findChildLE_go_skip y _ _ hBrev]
            simp [findChildLE.go, List.head?_reverse]
          have hBf : (leavesOf f B).reverse.find? (fun e => !Bytes.lt (navOf c key) (navOf c e.1)) = none :=
            find?_all_false (fun x hx => by simp [leavesOf_gt hg hBw hBb hstem x (List.mem_reverse.mp hx)])
          have hAf : (leavesOf f A).reverse.find? (fun e => !Bytes.lt (navOf c key) (navOf c e.1)) =
              (leavesOf f A).reverse.head? :=
            find?_head_true (fun x hx => by
              simp [Bytes.lt_asymm (leavesOf_lt hg hAw hA hstem x (List.mem_reverse.mp hx))])
          have ihc := ih ch (path ++ pfx ++ [y]) hchw hstem
          simp only [artUB, hmp, hkb, hfc, leaves_inner, hdepth, ihc]
          rw [hsplit, List.flatMap_append, List.flatMap_cons, List.reverse_append, List.reverse_append,
            List.find?_append, List.find?_append, hBf, hAf, List.head?_reverse, getLast?_leavesOf f A _ hAw]
          generalize Option.map (fun x => x.snd) A.getLast? = o
          cases (artLeaves f ch).reverse.find? (fun e => !Bytes.lt (navOf c key) (navOf c e.1)) <;> cases o <;> simp
      · have hmp : matchPrefix c pfx (navOf c key) path.length 0 = (q.length, if y < x then .lt else .gt) := by
          rw [hnk, hpfx]
          have := matchPrefix_ne c q x s path y s' path.length 0 (by simp) (fun e => hxy e.symm)
          simpa using this
        have hkstem : path ++ q ++ [y] <+: navOf c key := ⟨s', by rw [hnk]; simp⟩
        have hlstem : ∀ e ∈ artLeaves (f + 1) (.inner big pfx kids), path ++ q ++ [x] <+: navOf c e.1 := by
          intro e he
          have hwt : WF c (f + 1) (.inner big s kids) (path ++ q ++ [x]) := wf_trim (by rw [← hpfx]; exact hw)
          exact (leaves_pfx c _ _ _ hwt e (by simpa [leaves_inner] using he)).2
        by_cases hyx : y < x
        · have hall : ∀ e ∈ (artLeaves (f + 1) (.inner big pfx kids)).reverse,
              (!Bytes.lt (navOf c key) (navOf c e.1)) = false := by
            intro e he
            simp [lt_of_stem hkstem (hlstem e (List.mem_reverse.mp he)) hyx]
          simp only [artUB, hmp, hyx, if_true]
          exact (find?_all_false hall).symm
        · have hxy' : x < y := by omega
          have hall : ∀ e ∈ (artLeaves (f + 1) (.inner big pfx kids)).reverse,
              (!Bytes.lt (navOf c key) (navOf c e.1)) = true := by
            intro e he
            simp [Bytes.lt_asymm (lt_of_stem (hlstem e (List.mem_reverse.mp he)) hkstem hxy')]
          simp only [artUB, hmp, hyx, if_false]
          simp only [show (Ordering.gt = Ordering.lt) = False by simp, if_false, if_true, artMax]
          rw [find?_head_true hall, List.head?_reverse]

end

end NoKV.Index

/-
The ART index (`ArtIdx`: root + fuel) refines the reference ordered map: `add` is `upsert`,
`search` is `searchRef`, `seek` is `seekGE` / `seekLE`, `scan` is the list / its reverse
(helper file for `C07_art_refines`).
-/
import NoKVModel.Index.ArtBounds

set_option linter.unusedSimpArgs false
set_option linter.unusedVariables false
namespace NoKV.Index
open NoKV

/-! ### list lemmas -/

theorem split_at {α : Type} {l : List α} {p : Nat} {e : α} (h : l[p]? = some e) :
    l = l.take p ++ e :: l.drop (p + 1) ∧ (l.take p).length = p := by
  obtain ⟨hlt, he⟩ := List.getElem?_eq_some_iff.mp h
  refine ⟨?_, by simp; omega⟩
  have := List.take_append_drop p l
  rw [List.drop_eq_getElem_cons hlt, he] at this
  exact this.symm

theorem find?_split_fail {α : Type} {P : α → Bool} {X Y : List α} {e : α} (hnot : e ∉ X)
    (h : (X ++ e :: Y).find? P = some e) : (∀ x ∈ X, P x = false) ∧ P e = true := by
  have hPe : P e = true := List.find?_some h
  refine ⟨?_, hPe⟩
  intro x hx
  cases hP : P x with
  | false => rfl
  | true =>
    exfalso
    -- then find? X is some element of X, and it would be the answer
    cases hf : X.find? P with
    | none =>
      have := List.find?_eq_none.mp hf x hx
      simp [hP] at this
    | some z =>
      rw [List.find?_append, hf] at h
      simp at h
      subst h
      exact hnot (List.mem_of_find?_eq_some hf)

theorem dropWhile_congr' {α : Type} {p q : α → Bool} {l : List α} (h : ∀ x ∈ l, p x = q x) :
    l.dropWhile p = l.dropWhile q := by
  induction l with
  | nil => rfl
  | cons a l ih =>
    simp only [List.dropWhile_cons, h a (by simp)]
    rw [ih (fun x hx => h x (by simp [hx]))]

theorem takeWhile_congr' {α : Type} {p q : α → Bool} {l : List α} (h : ∀ x ∈ l, p x = q x) :
    l.takeWhile p = l.takeWhile q := by
  induction l with
  | nil => rfl
  | cons a l ih =>
    simp only [List.takeWhile_cons, h a (by simp)]
    rw [ih (fun x hx => h x (by simp [hx]))]

theorem dropWhile_all_true {α : Type} {p : α → Bool} {l : List α} (h : ∀ x ∈ l, p x = true) :
    l.dropWhile p = [] := by
  induction l with
  | nil => rfl
  | cons a l ih => simp [List.dropWhile_cons, h a (by simp), ih (fun x hx => h x (by simp [hx]))]

theorem takeWhile_all_true {α : Type} {p : α → Bool} {l : List α} (h : ∀ x ∈ l, p x = true) :
    l.takeWhile p = l := by
  induction l with
  | nil => rfl
  | cons a l ih => simp [List.takeWhile_cons, h a (by simp), ih (fun x hx => h x (by simp [hx]))]

theorem dropWhile_prefix_true {α : Type} {p : α → Bool} {X Z : List α} (h : ∀ x ∈ X, p x = true) :
    (X ++ Z).dropWhile p = Z.dropWhile p := by
  induction X with
  | nil => rfl
  | cons a X ih => simp [List.dropWhile_cons, h a (by simp), ih (fun x hx => h x (by simp [hx]))]

theorem takeWhile_prefix_true {α : Type} {p : α → Bool} {X Z : List α} (h : ∀ x ∈ X, p x = true) :
    (X ++ Z).takeWhile p = X ++ Z.takeWhile p := by
  induction X with
  | nil => rfl
  | cons a X ih => simp [List.takeWhile_cons, h a (by simp), ih (fun x hx => h x (by simp [hx]))]

/-- a strictly sorted list has no duplicates -/
theorem nodup_of_sorted {α : Type} {R : α → α → Prop} (irr : ∀ a, ¬ R a a) {l : List α} (h : l.Pairwise R) :
    l.Nodup := by
  unfold List.Nodup
  exact List.Pairwise.imp (fun {a b} hab e => by subst e; exact irr a hab) h

/-- forward: the suffix from the first element satisfying `P`, located at index `p` -/
theorem drop_of_find {α : Type} {P : α → Bool} {l : List α} (hnd : l.Nodup) {e : α} {p : Nat}
    (hf : l.find? P = some e) (hp : l[p]? = some e) : l.drop p = l.dropWhile (fun x => !P x) := by
  obtain ⟨hsplit, hlen⟩ := split_at hp
  have hnot : e ∉ l.take p := by
    intro hmem
    rw [hsplit] at hnd
    have := (List.nodup_append.mp hnd).2.2 e hmem e (by simp)
    exact this rfl
  rw [hsplit] at hf
  obtain ⟨hX, hPe⟩ := find?_split_fail hnot hf
  have hd : l.drop p = e :: l.drop (p + 1) := by
    obtain ⟨hlt, he⟩ := List.getElem?_eq_some_iff.mp hp
    rw [List.drop_eq_getElem_cons hlt, he]
  rw [hd]
  conv => rhs; rw [hsplit]
  rw [dropWhile_prefix_true (fun x hx => by simp [hX x hx])]
  simp [List.dropWhile_cons, hPe]

/-- backward: the prefix up to the last element satisfying `Q` (index `p`), when `Q` is downward
closed along the list order and fails after that element -/
theorem take_of_rfind {α : Type} {Q : α → Bool} {l : List α} (hnd : l.Nodup) {e : α} {p : Nat}
    (hdown : ∀ (X Y : List α) (b : α), l = X ++ b :: Y → Q b = true → ∀ a ∈ X, Q a = true)
    (hf : l.reverse.find? Q = some e) (hp : l[p]? = some e) : l.take (p + 1) = l.takeWhile Q := by
  obtain ⟨hsplit, hlen⟩ := split_at hp
  have hnd' := hnd
  rw [hsplit] at hnd'
  have hnotY : e ∉ (l.drop (p + 1)).reverse := by
    intro hmem
    have hmem' := List.mem_reverse.mp hmem
    have := (List.nodup_append.mp hnd').2.1
    rw [List.nodup_cons] at this
    exact this.1 hmem'
  have hrev : l.reverse = (l.drop (p + 1)).reverse ++ e :: (l.take p).reverse := by
    conv => lhs; rw [hsplit]
    simp
  rw [hrev] at hf
  obtain ⟨hY, hQe⟩ := find?_split_fail hnotY hf
  have hX : ∀ a ∈ l.take p, Q a = true := hdown _ _ e hsplit hQe
  have htake : l.take (p + 1) = l.take p ++ [e] := by
    obtain ⟨hlt, he⟩ := List.getElem?_eq_some_iff.mp hp
    rw [List.take_add_one, hp]; simp
  rw [htake]
  conv => rhs; rw [hsplit]
  rw [takeWhile_prefix_true hX]
  congr 1
  cases hd : l.drop (p + 1) with
  | nil => simp [List.takeWhile_cons, hQe]
  | cons y Y =>
    have : Q y = false := hY y (by rw [hd]; simp)
    simp [List.takeWhile_cons, hQe, this]

theorem find?_eq_head?_dropWhile {α : Type} (P : α → Bool) (l : List α) :
    l.find? P = (l.dropWhile (fun x => !P x)).head? := by
  induction l with
  | nil => rfl
  | cons a l ih =>
    cases h : P a <;> simp [List.find?_cons, List.dropWhile_cons, h, ih]

/-! ### upsert membership on a sorted list -/

theorem mem_upsert_iff {α : Type} {lt : α → α → Bool} (st : StrictTotal lt) (k : α) (v : Bytes) :
    ∀ (l : List (α × Bytes)), Sorted lt l → ∀ e, e ∈ upsert lt k v l ↔ (e = (k, v) ∨ (e ∈ l ∧ e.1 ≠ k)) := by
  intro l
  induction l with
  | nil => intro _ e; simp [upsert]
  | cons x rest ih =>
    intro hs e
    unfold Sorted at hs ih
    rw [List.pairwise_cons] at hs
    unfold upsert
    cases h1 : lt k x.1 with
    | true =>
      simp only [if_true, List.mem_cons]
      have hxne : x.1 ≠ k := by intro e'; rw [e', st.irrefl] at h1; cases h1
      have hrest : ∀ y ∈ rest, y.1 ≠ k := by
        intro y hy e'
        have := st.trans h1 (hs.1 y hy)
        rw [e', st.irrefl] at this; cases this
      constructor
      · rintro (h | h | h)
        · exact Or.inl h
        · subst h; exact Or.inr ⟨Or.inl rfl, hxne⟩
        · exact Or.inr ⟨Or.inr h, hrest e h⟩
      · rintro (h | ⟨h | h, _⟩)
        · exact Or.inl h
        · exact Or.inr (Or.inl h)
        · exact Or.inr (Or.inr h)
    | false =>
      simp only [Bool.false_eq_true, if_false]
      cases h2 : lt x.1 k with
      | true =>
        simp only [if_true, List.mem_cons, ih hs.2 e]
        have hxne : x.1 ≠ k := by intro e'; rw [e', st.irrefl] at h2; cases h2
        constructor
        · rintro (h | h | ⟨h, hn⟩)
          · subst h; exact Or.inr ⟨Or.inl rfl, hxne⟩
          · exact Or.inl h
          · exact Or.inr ⟨Or.inr h, hn⟩
        · rintro (h | ⟨h | h, hn⟩)
          · exact Or.inr (Or.inl h)
          · exact Or.inl h
          · exact Or.inr (Or.inr ⟨h, hn⟩)
      | false =>
        simp only [Bool.false_eq_true, if_false, List.mem_cons]
        have hkx : k = x.1 := st.tri h1 h2
        have hrest : ∀ y ∈ rest, y.1 ≠ k := by
          intro y hy e'
          have := hs.1 y hy
          rw [e', ← hkx, st.irrefl] at this; cases this
        constructor
        · rintro (h | h)
          · exact Or.inl h
          · exact Or.inr ⟨Or.inr h, hrest e h⟩
        · rintro (h | ⟨h | h, hn⟩)
          · exact Or.inl h
          · subst h; exact absurd hkx.symm hn
          · exact Or.inr h

section
variable {c : IdxCfg}

/-! ### locate -/

theorem firstIdx_at (y : Nat) (ch : Art) (B : List (Nat × Art)) : ∀ (A : List (Nat × Art)) (j : Nat),
    (∀ e ∈ A, e.1 ≠ y) → firstIdx y (A ++ (y, ch) :: B) j = some (j + A.length) := by
  intro A
  induction A with
  | nil => intro j _; simp [firstIdx]
  | cons a A ih =>
    intro j h
    obtain ⟨ab, at'⟩ := a
    have : ¬ ab = y := h (ab, at') (by simp)
    simp only [List.cons_append, firstIdx, this, if_false, List.length_cons]
    rw [ih (j + 1) (fun e he => h e (by simp [he]))]
    congr 1; omega

theorem artLocate_spec (hg : c.ArtGood) :
    ∀ (f : Nat) (t : Art) (path : Bytes), WF c f t path → ∀ e ∈ artLeaves f t,
      ∃ p, artLocate c (navOf c e.1) f t path.length = some p ∧ (artLeaves f t)[p]? = some e := by
  intro f
  induction f with
  | zero => intro t path h; simp [WF] at h
  | succ f ih =>
    intro t path hw e he
    cases t with
    | leaf k v =>
      simp only [leaves_leaf, List.mem_singleton] at he
      subst he
      exact ⟨0, by simp [artLocate], by simp [leaves_leaf]⟩
    | inner big pfx kids =>
      have hw' := hw
      simp only [WF] at hw'
      obtain ⟨hne, hsorted, hkidsw⟩ := hw'
      rw [leaves_inner] at he
      obtain ⟨kid, hkid, hek⟩ := List.mem_flatMap.mp he
      obtain ⟨A, B, hsplit⟩ := List.append_of_mem hkid
      obtain ⟨y, ch⟩ := kid
      have hchw : WF c f ch (path ++ pfx ++ [y]) := hkidsw (y, ch) hkid
      have hA : ∀ a ∈ A, a.1 ≠ y := by
        intro a ha
        rw [hsplit, List.pairwise_append] at hsorted
        have := hsorted.2.2 a ha (y, ch) (by simp)
        simp at this; omega
      obtain ⟨h8, ⟨r, hnk⟩⟩ := leaves_pfx c _ _ _ hchw e hek
      have hnk' : navOf c e.1 = path ++ pfx ++ y :: r := by rw [← hnk]; simp
      have hmp : matchPrefix c pfx (navOf c e.1) path.length 0 = (pfx.length, .eq) := by
        rw [hnk']
        have := matchPrefix_eq c pfx path (y :: r) path.length 0 (by simp)
        simpa using this
      have hkb : keyByte c (navOf c e.1) (path.length + pfx.length) = y := by
        rw [hnk']; exact keyByte_at' c (path ++ pfx) y r _ (by simp)
      have hfi : firstIdx y kids 0 = some A.length := by
        rw [hsplit, firstIdx_at y ch B A 0 hA]; simp
      have hget : kids[A.length]? = some (y, ch) := by rw [hsplit]; simp
      have hdepth : path.length + pfx.length + 1 = (path ++ pfx ++ [y]).length := by
        simp only [List.length_append, List.length_singleton]
      obtain ⟨p', hloc, hidx⟩ := ih ch (path ++ pfx ++ [y]) hchw e hek
      have htake : kids.take A.length = A := by rw [hsplit]; simp
      refine ⟨(leavesOf f A).length + p', ?_, ?_⟩
      · simp only [artLocate, hmp, hkb, hfi, hget, hdepth, hloc, htake, ne_eq, not_true_eq_false, if_false]
      · rw [leaves_inner, hsplit, List.flatMap_append, List.flatMap_cons]
        rw [List.getElem?_append_right (by simp [leavesOf])]
        have hlt : p' < (artLeaves f ch).length := (List.getElem?_eq_some_iff.mp hidx).1
        simp only [leavesOf, Nat.add_sub_cancel_left]
        rw [List.getElem?_append_left hlt]
        exact hidx

/-! ### the index -/

/-- invariant of the whole index: well formed at the stored fuel, which exceeds every radix-key
length by at least two -/
def ArtInv (c : IdxCfg) (t : ArtIdx) : Prop :=
  match t.root with
  | none => True
  | some r => WF c t.fuel r [] ∧ ∀ e ∈ artLeaves t.fuel r, (navOf c e.1).length + 2 ≤ t.fuel

theorem navLt_irrefl (a : Entry) : ¬ navLt c a a := by
  unfold navLt; rw [Bytes.lt_irrefl]; simp

theorem navLt_asymm (a b : Entry) : navLt c a b → ¬ navLt c b a := by
  unfold navLt; intro h h'; rw [Bytes.lt_asymm h] at h'; cases h'

/-- leaves of a well-formed index: well-formed keys, sorted by `CompareKeys` -/
theorem inv_leaves (hg : c.ArtGood) {t : ArtIdx} (hi : ArtInv c t) :
    (∀ e ∈ t.leaves, 8 ≤ e.1.length) ∧ Sorted (ckLt c) t.leaves ∧ t.leaves.Pairwise (navLt c) := by
  unfold ArtIdx.leaves
  unfold ArtInv at hi
  cases hr : t.root with
  | none => simp [Sorted]
  | some r =>
    rw [hr] at hi
    simp only
    have h8 : ∀ e ∈ artLeaves t.fuel r, 8 ≤ e.1.length := fun e he => (leaves_pfx c _ _ _ hi.1 e he).1
    have hs := leaves_sorted c _ _ _ hi.1
    refine ⟨h8, ?_, hs⟩
    unfold Sorted
    refine List.Pairwise.imp_of_mem ?_ hs
    intro a b ha hb hab
    rw [← nav_lt hg.2.2.2 hg.1 (h8 a ha) (h8 b hb)]
    exact hab

theorem add_spec (hg : c.ArtGood) {t : ArtIdx} (hi : ArtInv c t) (k v : Bytes) (h8 : 8 ≤ k.length)
    (hst : stored c k = k) :
    ArtInv c (t.add c k v) ∧ (t.add c k v).leaves = upsert (ckLt c) k v t.leaves := by
  have hB := hg.1
  have hO := hg.2.2.2
  have st := ck_strictTotal hB
  obtain ⟨hl8, hsorted, hnav⟩ := inv_leaves hg hi
  unfold ArtIdx.add
  rw [hst]
  simp only [Nat.max_self]
  unfold ArtInv at hi
  unfold ArtIdx.leaves at hl8 hsorted hnav ⊢
  cases hr : t.root with
  | none =>
    simp only [ArtInv, ArtIdx.leaves]
    have hf : max t.fuel ((navOf c k).length + 2) = (max t.fuel ((navOf c k).length + 2) - 1) + 1 := by omega
    refine ⟨⟨?_, ?_⟩, ?_⟩
    · rw [hf]; exact wf_leaf _ h8 (List.nil_prefix)
    · intro e he
      rw [hf, leaves_leaf, List.mem_singleton] at he
      subst he; simp only; omega
    · rw [hf, leaves_leaf]; simp [upsert]
  | some r =>
    rw [hr] at hi hl8 hsorted hnav
    simp only at hl8 hsorted hnav
    obtain ⟨hw, hbound⟩ := hi
    simp only [ArtInv, ArtIdx.leaves]
    generalize hF : max t.fuel ((navOf c k).length + 2) = F
    have hFt : t.fuel ≤ F := by omega
    have hFk : (navOf c k).length + 2 ≤ F := by omega
    have hwF : WF c F r [] := wf_le c hFt hw
    have hlF : artLeaves F r = artLeaves t.fuel r := leaves_le c hFt hw
    obtain ⟨hw1, hmem1⟩ := artIns_spec hg k v h8 F r [] hwF (List.nil_prefix)
    simp only [List.length_nil] at hw1 hmem1
    -- every radix key of the new tree is at most F - 2 long
    have hL : ∀ e ∈ artLeaves (F + 1) (artIns c k k (navOf c k) v F r 0), (navOf c e.1).length ≤ F - 2 := by
      intro e he
      rcases (hmem1 e).mp he with h | ⟨h, _⟩
      · subst h; simp only; omega
      · rw [hlF] at h
        have := hbound e h
        omega
    have hw2 : WF c F (artIns c k k (navOf c k) v F r 0) [] := by
      have := wf_refuel c (F - 2) _ _ _ hw1 hL
      simp only [List.length_nil, Nat.sub_zero] at this
      exact wf_le c (by omega) this
    have hl2 : artLeaves (F + 1) (artIns c k k (navOf c k) v F r 0) = artLeaves F (artIns c k k (navOf c k) v F r 0) :=
      leaves_succ c _ _ _ hw2
    refine ⟨⟨hw2, ?_⟩, ?_⟩
    · intro e he
      rw [← hl2] at he
      have := hL e he
      omega
    · -- same members, both strictly sorted by radix key
      have hmem2 : ∀ e, e ∈ artLeaves F (artIns c k k (navOf c k) v F r 0) ↔
          e ∈ upsert (ckLt c) k v (artLeaves t.fuel r) := by
        intro e
        rw [← hl2, hmem1 e, hlF, mem_upsert_iff st k v _ hsorted e]
      have hup8 : ∀ e ∈ upsert (ckLt c) k v (artLeaves t.fuel r), 8 ≤ e.1.length := by
        intro e he
        rcases mem_upsert_sub he with h | h
        · subst h; exact h8
        · exact hl8 e h
      have hupsorted : (upsert (ckLt c) k v (artLeaves t.fuel r)).Pairwise (navLt c) := by
        have := upsert_sorted st k v hsorted
        unfold Sorted at this
        refine List.Pairwise.imp_of_mem ?_ this
        intro a b ha hb hab
        unfold navLt
        rw [nav_lt hO hB (hup8 a ha) (hup8 b hb)]
        exact hab
      exact sorted_ext navLt_irrefl navLt_asymm _ _ (leaves_sorted c _ _ _ hw2) hupsorted hmem2

/-- on the leaves, "radix key below the target's" is `CompareKeys` -/
theorem pred_lt (hg : c.ArtGood) {l : List Entry} (hl8 : ∀ e ∈ l, 8 ≤ e.1.length) {key : Bytes} (h8 : 8 ≤ key.length) :
    ∀ e ∈ l, Bytes.lt (navOf c e.1) (navOf c key) = ckLt c e.1 key :=
  fun e he => nav_lt hg.2.2.2 hg.1 (hl8 e he) h8

theorem pred_gt (hg : c.ArtGood) {l : List Entry} (hl8 : ∀ e ∈ l, 8 ≤ e.1.length) {key : Bytes} (h8 : 8 ≤ key.length) :
    ∀ e ∈ l, Bytes.lt (navOf c key) (navOf c e.1) = ckLt c key e.1 :=
  fun e he => nav_lt hg.2.2.2 hg.1 h8 (hl8 e he)

theorem search_spec (hg : c.ArtGood) {t : ArtIdx} (hi : ArtInv c t) (key : Bytes) (h8 : 8 ≤ key.length) :
    t.search c key = searchRef (ckLt c) key t.leaves := by
  obtain ⟨hl8, _, _⟩ := inv_leaves hg hi
  unfold ArtIdx.search searchRef seekGE
  unfold ArtIdx.leaves at hl8 ⊢
  unfold ArtInv at hi
  cases hr : t.root with
  | none => simp
  | some r =>
    rw [hr] at hi hl8
    simp only at hl8 ⊢
    generalize hF : max t.fuel ((navOf c key).length + 2) = F
    have hFt : t.fuel ≤ F := by omega
    have hwF : WF c F r [] := wf_le c hFt hi.1
    have hlF : artLeaves F r = artLeaves t.fuel r := leaves_le c hFt hi.1
    have := artLB_spec hg key h8 F r [] hwF (List.nil_prefix)
    simp only [List.length_nil] at this
    rw [this, hlF, find?_eq_head?_dropWhile]
    have hcongr : (artLeaves t.fuel r).dropWhile (fun x => !!Bytes.lt (navOf c x.1) (navOf c key)) =
        (artLeaves t.fuel r).dropWhile (fun e => ckLt c e.1 key) :=
      dropWhile_congr' (fun x hx => by simp [pred_lt hg hl8 h8 x hx])
    rw [hcongr]
    cases (artLeaves t.fuel r).dropWhile (fun e => ckLt c e.1 key) <;> simp

theorem seek_spec (hg : c.ArtGood) {t : ArtIdx} (hi : ArtInv c t) (key : Bytes) (h8 : 8 ≤ key.length) :
    t.seek c true key = seekGE (ckLt c) key t.leaves ∧ t.seek c false key = seekLE (ckLt c) key t.leaves := by
  obtain ⟨hl8, _, hnav⟩ := inv_leaves hg hi
  unfold ArtIdx.seek seekGE seekLE
  unfold ArtIdx.leaves at hl8 hnav ⊢
  unfold ArtInv at hi
  cases hr : t.root with
  | none => simp
  | some r =>
    rw [hr] at hi hl8 hnav
    simp only at hl8 hnav ⊢
    generalize hF : max t.fuel ((navOf c key).length + 2) = F
    have hFt : t.fuel ≤ F := by omega
    have hwF : WF c F r [] := wf_le c hFt hi.1
    have hlF : artLeaves F r = artLeaves t.fuel r := leaves_le c hFt hi.1
    have hnd : (artLeaves t.fuel r).Nodup := nodup_of_sorted navLt_irrefl hnav
    have hlb := artLB_spec hg key h8 F r [] hwF (List.nil_prefix)
    have hub := artUB_spec hg key h8 F r [] hwF (List.nil_prefix)
    simp only [List.length_nil] at hlb hub
    constructor
    · -- ascending
      simp only [if_true, hlb, hlF]
      have hcongr : (artLeaves t.fuel r).dropWhile (fun x => !!Bytes.lt (navOf c x.1) (navOf c key)) =
          (artLeaves t.fuel r).dropWhile (fun e => ckLt c e.1 key) :=
        dropWhile_congr' (fun x hx => by simp [pred_lt hg hl8 h8 x hx])
      cases hf : (artLeaves t.fuel r).find? (fun e => !Bytes.lt (navOf c e.1) (navOf c key)) with
      | none =>
        simp only
        have hall := List.find?_eq_none.mp hf
        rw [← hcongr, dropWhile_all_true (fun x hx => by simpa using hall x hx)]
      | some e =>
        simp only
        have hmem : e ∈ artLeaves F r := by rw [hlF]; exact List.mem_of_find?_eq_some hf
        obtain ⟨p, hloc, hidx⟩ := artLocate_spec hg F r [] hwF e hmem
        simp only [List.length_nil] at hloc
        rw [hlF] at hidx
        rw [hloc]
        simp only
        rw [drop_of_find hnd hf hidx, hcongr]
    · -- descending
      simp only [Bool.false_eq_true, if_false, hub, hlF]
      have hcongr : (artLeaves t.fuel r).takeWhile (fun x => !Bytes.lt (navOf c key) (navOf c x.1)) =
          (artLeaves t.fuel r).takeWhile (fun e => !ckLt c key e.1) :=
        takeWhile_congr' (fun x hx => by simp [pred_gt hg hl8 h8 x hx])
      cases hf : (artLeaves t.fuel r).reverse.find? (fun e => !Bytes.lt (navOf c key) (navOf c e.1)) with
      | none =>
        simp only
        have hall := List.find?_eq_none.mp hf
        rw [← hcongr]
        cases hl : artLeaves t.fuel r with
        | nil => simp
        | cons a rest =>
          have : (!Bytes.lt (navOf c key) (navOf c a.1)) = false := by
            have := hall a (by rw [hl]; simp)
            simpa using this
          simp [List.takeWhile_cons, this]
      | some e =>
        simp only
        have hmem : e ∈ artLeaves F r := by
          rw [hlF]; exact List.mem_reverse.mp (List.mem_of_find?_eq_some hf)
        obtain ⟨p, hloc, hidx⟩ := artLocate_spec hg F r [] hwF e hmem
        simp only [List.length_nil] at hloc
        rw [hlF] at hidx
        rw [hloc]
        simp only
        rw [← hcongr]
        congr 1
        apply take_of_rfind hnd _ hf hidx
        -- downward closure: a before b and b ≤ key ⇒ a ≤ key
        intro X Y b hXY hQb a ha
        rw [hXY, List.pairwise_append] at hnav
        have hab : Bytes.lt (navOf c a.1) (navOf c b.1) = true := hnav.2.2 a ha b (by simp)
        cases hk : Bytes.lt (navOf c key) (navOf c a.1) with
        | false => rfl
        | true =>
          have := Bytes.lt_trans hk hab
          simp [this] at hQb

end

end NoKV.Index

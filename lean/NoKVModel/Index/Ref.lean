/-
The reference ordered map of C07 ("upsert into the sorted duplicate-free list") and the
sequential model of `utils/skiplist.go`.

Reference: entries `(key, value)` kept strictly sorted by an order `lt`; `upsert`, `get`,
`search` (the memtable lookup: first entry ≥ target, accepted when it has the same base key),
`seekGE` (= forward iteration from a seek), `seekLE` (= reverse iteration from a seek).

Skiplist: the base level of the list is a linked list of nodes; the towers only accelerate
the walk.  `sklAdd` is `Skiplist.Add` (splice search on the base level, overwrite on equality),
`sklFindNear` is `findNear` walked on the base level.  Keys are stored through `stored`
(`keySize = uint16(len(key))`).
-/
import NoKVModel.Index.Key

namespace NoKV.Index

/-! ### reference map, generic in the order -/
section Ref
variable {α : Type} (lt : α → α → Bool)

/-- insert or replace in a sorted list -/
def upsert (k : α) (v : Bytes) : List (α × Bytes) → List (α × Bytes)
  | [] => [(k, v)]
  | e :: rest =>
    if lt k e.1 then (k, v) :: e :: rest
    else if lt e.1 k then e :: upsert k v rest
    else (k, v) :: rest

/-- exact lookup -/
def getRef [DecidableEq α] (k : α) : List (α × Bytes) → Option Bytes
  | [] => none
  | e :: rest => if e.1 = k then some e.2 else getRef k rest

/-- the entries from the first one that is `≥ t` on (forward iteration after `Seek t`) -/
def seekGE (t : α) (l : List (α × Bytes)) : List (α × Bytes) := l.dropWhile (fun e => lt e.1 t)

/-- the entries `≤ t`, last first (reverse iteration after `Seek t`) -/
def seekLE (t : α) (l : List (α × Bytes)) : List (α × Bytes) := (l.takeWhile (fun e => !lt t e.1)).reverse

/-- the map after a history of writes, newest first -/
def build : List (α × Bytes) → List (α × Bytes)
  | [] => []
  | (k, v) :: older => upsert lt k v (build older)

end Ref

/-- memtable lookup on the reference: first entry `≥ t`, accepted iff same base key -/
def searchRef (lt : Bytes → Bytes → Bool) (t : Bytes) (l : List Entry) : Option Bytes :=
  match seekGE lt t l with
  | [] => none
  | e :: _ => if sameKey t e.1 then some e.2 else none

/-! ### skiplist model -/

/-- the comparison the skiplist orders its nodes by -/
def sklLt (c : IdxCfg) (a b : Bytes) : Bool := if c.sklCompareKeys then ckLt c a b else Bytes.lt a b

/-- `Skiplist.Add`: walk the base level; equal key ⇒ overwrite the value of the existing node -/
def sklAdd (c : IdxCfg) (k : Bytes) (v : Bytes) : List Entry → List Entry
  | [] => [(stored c k, v)]
  | e :: rest =>
    if sklLt c e.1 k then e :: sklAdd c k v rest        -- cmp > 0: keep moving right
    else if sklLt c k e.1 then (stored c k, v) :: e :: rest  -- cmp < 0: splice before
    else (e.1, v) :: rest                                -- cmp == 0: setValue on that node

/-- `findNear(key, less, allowEqual)` on the base level; `prev` = the node `x` the walk stands on -/
def sklFindNear (c : IdxCfg) (key : Bytes) (less allowEqual : Bool) : Option Entry → List Entry → Option Entry
  | prev, [] => if less then prev else none
  | prev, e :: rest =>
    if sklLt c e.1 key then sklFindNear c key less allowEqual (some e) rest
    else if sklLt c key e.1 then (if less then prev else some e)
    else if allowEqual then some e
    else if less then prev else rest.head?

/-- `Skiplist.Search` -/
def sklSearch (c : IdxCfg) (key : Bytes) (l : List Entry) : Option Bytes :=
  match sklFindNear c key false true none l with
  | none => none
  | some e => if sameKey key e.1 then some e.2 else none

/-- `SkipListIterator.Next` ascending from a node: the rest of the base level.  The model
returns the whole remaining iteration. -/
def sklFrom (c : IdxCfg) (key : Bytes) : List Entry → List Entry
  | [] => []
  | e :: rest => if sklLt c e.1 key then sklFrom c key rest else e :: rest

/-- iterator `Seek(target)` followed by `Next` until invalid (ascending) -/
def sklSeekAsc (c : IdxCfg) (t : Bytes) (l : List Entry) : List Entry := sklFrom c t l

/-- descending iteration is a chain of `findNear(key, less = true, allowEqual = false)` calls
starting from `findNear(target, true, true)`; `fuel` bounds the chain by the list length -/
def sklDescChain (c : IdxCfg) (l : List Entry) : Nat → Option Entry → List Entry
  | 0, _ => []
  | _, none => []
  | f + 1, some e => e :: sklDescChain c l f (sklFindNear c e.1 true false none l)

def sklSeekDesc (c : IdxCfg) (t : Bytes) (l : List Entry) : List Entry :=
  sklDescChain c l l.length (sklFindNear c t true true none l)

/-- `SeekToLast` then `Next` (descending) until invalid -/
def sklScanDesc (c : IdxCfg) (l : List Entry) : List Entry :=
  sklDescChain c l l.length l.getLast?

end NoKV.Index

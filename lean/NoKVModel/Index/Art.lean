/-
Sequential model of `utils/art.go` (adaptive radix tree memtable index).

The tree is modelled structurally: leaves carry the stored key and the value, inner nodes a
compressed prefix and their children in *array order*.  Node4/Node16 (`big = false`) keep a
byte-sorted array that may hold two children under the same byte (this is what
`newTwoChildNode` builds when both bytes are equal, which `keyByte`'s padding makes possible);
Node48/Node256 (`big = true`) are a byte-indexed map, so growing into them keeps only the last
child of a duplicated byte.

The radix tree navigates by `navOf c key`: the raw internal key (as-is) or an order-preserving
prefix-free encoding (repaired shape).  Leaves are compared with `CompareKeys`.

All recursive functions take a `fuel` (≥ tree depth; the drivers pass `maxLen + 2`) so that
they are structurally recursive and evaluate inside the kernel (`decide`).
-/
import NoKVModel.Index.Key

namespace NoKV.Index

inductive Art where
  | leaf (key : Bytes) (val : Bytes)
  | inner (big : Bool) (pfx : Bytes) (kids : List (Nat × Art))
  deriving Inhabited

/-- order-preserving prefix-free encoding of a base key: `00 ↦ 00 FF`, terminator `00 00` -/
def escBase : Bytes → Bytes
  | [] => [0, 0]
  | b :: rest => if b = 0 then 0 :: 255 :: escBase rest else b :: escBase rest

/-- the byte string the tree navigates by -/
def navOf (c : IdxCfg) (k : Bytes) : Bytes :=
  match c.artRadixKey with
  | .raw => k
  | .ordered => escBase (baseOf k) ++ tsOf k

/-- `keyByte(key, depth)` -/
def keyByte (c : IdxCfg) (k : Bytes) (d : Nat) : Nat := k.getD d c.artPadByte

/-- `matchPrefix`: number of matching bytes and the sign of the first difference
(`.lt` = key byte smaller than the prefix byte) -/
def matchPrefix (c : IdxCfg) (pfx : Bytes) (nk : Bytes) (depth : Nat) : Nat → Nat × Ordering
  | i =>
    match pfx with
    | [] => (i, .eq)
    | p :: ps =>
      let kb := keyByte c nk (depth + i)
      if kb = p then matchPrefix c ps nk depth (i + 1)
      else if kb < p then (i, .lt) else (i, .gt)

/-- `longestCommonPrefix(a, b, depth)` -/
def lcpFrom (a b : Bytes) (depth : Nat) : Nat :=
  let m := min a.length b.length - depth
  let rec go (a b : Bytes) : Nat → Nat
    | 0 => 0
    | n + 1 =>
      match a, b with
      | x :: a', y :: b' => if x = y then 1 + go a' b' n else 0
      | _, _ => 0
  go (a.drop depth) (b.drop depth) m

/-- `newTwoChildNode` -/
def twoChild (pfx : Bytes) (aKey : Nat) (a : Art) (bKey : Nat) (b : Art) : Art :=
  if aKey ≤ bKey then .inner false pfx [(aKey, a), (bKey, b)] else .inner false pfx [(bKey, b), (aKey, a)]

/-- first child stored under byte `b` (what `findChild`, `childForKey`, `payloadReplace` pick) -/
def firstIdx (b : Nat) : List (Nat × Art) → Nat → Option Nat
  | [], _ => none
  | (k, _) :: rest, i => if k = b then some i else firstIdx b rest (i + 1)

/-- `payloadInsert` for Node4/16 and the byte-indexed kinds: before the first key `≥ b` -/
def kidInsert (b : Nat) (t : Art) : List (Nat × Art) → List (Nat × Art)
  | [] => [(b, t)]
  | (k, x) :: rest => if k ≥ b then (b, t) :: (k, x) :: rest else (k, x) :: kidInsert b t rest

/-- growing a Node16 into a Node48: `idx[k] = i+1` in array order, the last duplicate wins -/
def dedupLast : List (Nat × Art) → List (Nat × Art)
  | [] => []
  | (k, x) :: rest => if rest.any (fun e => e.1 = k) then dedupLast rest else (k, x) :: dedupLast rest

def replaceAt (i : Nat) (t : Art) : List (Nat × Art) → List (Nat × Art)
  | [] => []
  | (k, x) :: rest => match i with
    | 0 => (k, t) :: rest
    | j + 1 => (k, x) :: replaceAt j t rest

/-- `tryInsert` (sequential: every CAS succeeds).  `k` = the full key, `sk` = the key as the new
leaf stores it, `nk = navOf k` -/
def artIns (c : IdxCfg) (k sk nk : Bytes) (v : Bytes) : Nat → Art → Nat → Art
  | 0, node, _ => node
  | f + 1, node, depth =>
    match node with
    | .leaf lk lv =>
      if lk = k then .leaf lk v
      else
        let ek := navOf c lk
        let ik := navOf c sk
        let common := lcpFrom ek ik depth
        twoChild ((ik.drop depth).take common) (keyByte c ek (depth + common)) (.leaf lk lv)
          (keyByte c ik (depth + common)) (.leaf sk v)
    | .inner big pfx kids =>
      let (m, cmp) := matchPrefix c pfx nk depth 0
      if cmp ≠ .eq then
        twoChild (pfx.take m) (pfx.getD m 0) (.inner big (pfx.drop (m + 1)) kids)
          (keyByte c (navOf c sk) (depth + m)) (.leaf sk v)
      else
        let d := depth + pfx.length
        let b := keyByte c nk d
        match firstIdx b kids 0 with
        | none =>
          if !big && kids.length ≥ 16 then .inner true pfx (kidInsert b (.leaf sk v) (dedupLast kids))
          else .inner big pfx (kidInsert b (.leaf sk v) kids)
        | some i =>
          match kids[i]? with
          | some (_, child) => .inner big pfx (replaceAt i (artIns c k sk nk v f child (d + 1)) kids)
          | none => node

/-- leaves in iteration order (array order for Node4/16, byte order for Node48/256) -/
def artLeaves : Nat → Art → List Entry
  | 0, _ => []
  | f + 1, node =>
    match node with
    | .leaf k v => [(k, v)]
    | .inner _ _ kids => kids.flatMap (fun e => artLeaves f e.2)

def artMin (f : Nat) (t : Art) : Option Entry := (artLeaves f t).head?
def artMax (f : Nat) (t : Art) : Option Entry := (artLeaves f t).getLast?

/-- `findChild`: the child under `b` (first one) and the next child in the array / next greater byte -/
def findChildGE (b : Nat) : List (Nat × Art) → Option Art × Option Art
  | [] => (none, none)
  | (k, x) :: rest =>
    if k = b then (some x, rest.head?.map (·.2))
    else if k > b then (none, some x)
    else findChildGE b rest

/-- `findChildLE` on the reversed array: the child under `b` (last one) and the previous child -/
def findChildLE (b : Nat) (kids : List (Nat × Art)) : Option Art × Option Art :=
  let rec go : List (Nat × Art) → Option Art × Option Art
    | [] => (none, none)
    | (k, x) :: rest =>
      if k = b then (some x, rest.head?.map (·.2))
      else if k < b then (none, some x)
      else go rest
  go kids.reverse

/-- `lowerBoundNode` -/
def artLB (c : IdxCfg) (key nk : Bytes) : Nat → Art → Nat → Option Entry
  | 0, _, _ => none
  | f + 1, node, depth =>
    match node with
    | .leaf lk lv =>
      if c.artLeafLbOp.eval (ckLt c lk key) (ckEq c lk key) then some (lk, lv) else none
    | .inner _ pfx kids =>
      let (_, cmp) := matchPrefix c pfx nk depth 0
      if cmp = .lt then artMin (f + 1) node
      else if cmp = .gt then none
      else
        let d := depth + pfx.length
        let (eq, gt) := findChildGE (keyByte c nk d) kids
        let r := match eq with
          | some ch => artLB c key nk f ch (d + 1)
          | none => none
        match r with
        | some e => some e
        | none => match gt with
          | some g => artMin f g
          | none => none

/-- `upperBoundNode` -/
def artUB (c : IdxCfg) (key nk : Bytes) : Nat → Art → Nat → Option Entry
  | 0, _, _ => none
  | f + 1, node, depth =>
    match node with
    | .leaf lk lv =>
      if c.artLeafUbOp.eval (ckLt c lk key) (ckEq c lk key) then some (lk, lv) else none
    | .inner _ pfx kids =>
      let (_, cmp) := matchPrefix c pfx nk depth 0
      if cmp = .lt then none
      else if cmp = .gt then artMax (f + 1) node
      else
        let d := depth + pfx.length
        let (eq, lt) := findChildLE (keyByte c nk d) kids
        let r := match eq with
          | some ch => artUB c key nk f ch (d + 1)
          | none => none
        match r with
        | some e => some e
        | none => match lt with
          | some g => artMax f g
          | none => none

/-- `buildStackToLeaf`: follow the leaf's own key from the root (first child under each byte);
result = position of the leaf reached, in iteration order -/
def artLocate (c : IdxCfg) (nk : Bytes) : Nat → Art → Nat → Option Nat
  | 0, _, _ => none
  | f + 1, node, depth =>
    match node with
    | .leaf _ _ => some 0
    | .inner _ pfx kids =>
      let (_, cmp) := matchPrefix c pfx nk depth 0
      if cmp ≠ .eq then none
      else
        let d := depth + pfx.length
        match firstIdx (keyByte c nk d) kids 0 with
        | none => none
        | some i =>
          match kids[i]? with
          | none => none
          | some (_, child) =>
            match artLocate c nk f child (d + 1) with
            | none => none
            | some p => some (((kids.take i).flatMap (fun e => artLeaves f e.2)).length + p)

/-- the whole index: root (if any) and the fuel that bounds its depth -/
structure ArtIdx where
  root : Option Art := none
  fuel : Nat := 2

/-- `ART.Add` -/
def ArtIdx.add (c : IdxCfg) (t : ArtIdx) (k v : Bytes) : ArtIdx :=
  let sk := stored c k
  let nk := navOf c k
  let fuel := max t.fuel (max nk.length (navOf c sk).length + 2)
  match t.root with
  | none => { root := some (.leaf sk v), fuel := fuel }
  | some r => { root := some (artIns c k sk nk v fuel r 0), fuel := fuel }

def ArtIdx.leaves (t : ArtIdx) : List Entry :=
  match t.root with
  | none => []
  | some r => artLeaves t.fuel r

/-- `ART.Search` -/
def ArtIdx.search (c : IdxCfg) (t : ArtIdx) (key : Bytes) : Option Bytes :=
  match t.root with
  | none => none
  | some r =>
    match artLB c key (navOf c key) (max t.fuel ((navOf c key).length + 2)) r 0 with
    | none => none
    | some e => if sameKey key e.1 then some e.2 else none

/-- `artIterator.Seek` + `Next` until invalid: the remaining iteration -/
def ArtIdx.seek (c : IdxCfg) (t : ArtIdx) (asc : Bool) (key : Bytes) : List Entry :=
  match t.root with
  | none => []
  | some r =>
    let fuel := max t.fuel ((navOf c key).length + 2)
    let hit := if asc then artLB c key (navOf c key) fuel r 0 else artUB c key (navOf c key) fuel r 0
    match hit with
    | none => []
    | some e =>
      match artLocate c (navOf c e.1) fuel r 0 with
      | none => []
      | some p =>
        let ls := artLeaves fuel r
        if asc then ls.drop p else (ls.take (p + 1)).reverse

/-- `Rewind` + `Next` until invalid -/
def ArtIdx.scan (t : ArtIdx) (asc : Bool) : List Entry :=
  if asc then t.leaves else t.leaves.reverse

end NoKV.Index

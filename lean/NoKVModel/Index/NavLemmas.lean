/-
The order-preserving, prefix-free radix key (`navOf` with `artRadixKey = .ordered`):
`escBase (base) ++ ts` where `escBase` maps `00 ↦ 00 FF` and terminates with `00 00`.

(A) `nav_diverge`  two different keys (≥ 8 bytes) have radix keys that differ at a position
                   inside both — in particular the encoding is injective and no radix key is a
                   prefix of another;
(B) `nav_lt`       byte order on radix keys = `CompareKeys` order.
-/
import NoKVModel.Index.Art
import NoKVModel.Index.RadixLemmas

set_option linter.unusedSimpArgs false
set_option linter.unusedVariables false
namespace NoKV.Index
open NoKV

/-- the escaped body without the terminator -/
def escBody : Bytes → Bytes
  | [] => []
  | b :: rest => if b = 0 then 0 :: 255 :: escBody rest else b :: escBody rest

theorem escBase_eq (l : Bytes) : escBase l = escBody l ++ [0, 0] := by
  induction l with
  | nil => rfl
  | cons b rest ih =>
    unfold escBase escBody
    by_cases h : b = 0 <;> simp [h, ih]

theorem escBody_append (a b : Bytes) : escBody (a ++ b) = escBody a ++ escBody b := by
  induction a with
  | nil => rfl
  | cons x xs ih =>
    simp only [List.cons_append, escBody]
    by_cases h : x = 0 <;> simp [h, ih]

/-- the escaped form of a non-empty string starts with its first byte; when that byte is 0 the
next byte is 255 -/
theorem escBody_cons (x : Nat) (r : Bytes) :
    ∃ tl, escBody (x :: r) = x :: tl ∧ (x = 0 → ∃ tl', tl = 255 :: tl') := by
  unfold escBody
  by_cases h : x = 0
  · subst h; exact ⟨255 :: escBody r, by simp, fun _ => ⟨_, rfl⟩⟩
  · exact ⟨escBody r, by simp [h], fun e => absurd e h⟩

theorem diverge_append_left (p : Bytes) {a b : Bytes} (h : Diverge a b) : Diverge (p ++ a) (p ++ b) := by
  obtain ⟨q, c, d, r1, r2, hne, rfl, rfl⟩ := h
  exact ⟨p ++ q, c, d, r1, r2, hne, by simp, by simp⟩

theorem diverge_append_right {a b : Bytes} (x y : Bytes) (h : Diverge a b) : Diverge (a ++ x) (b ++ y) := by
  obtain ⟨q, c, d, r1, r2, hne, rfl, rfl⟩ := h
  exact ⟨q, c, d, r1 ++ x, r2 ++ y, hne, by simp, by simp⟩

/-- different strings of the same length differ at a position inside both -/
theorem diverge_of_ne_same_len {a b : Bytes} (hl : a.length = b.length) (hne : a ≠ b) : Diverge a b := by
  rcases prefix_or_diverge a b with h | ⟨c, r, h⟩ | ⟨c, r, h⟩ | h
  · exact absurd h hne
  · have := congrArg List.length h; simp at this; omega
  · have := congrArg List.length h; simp at this; omega
  · exact h

/-- terminator against the escaped continuation of a longer base key -/
theorem term_vs_body_diverge (x : Nat) (r s t : Bytes) :
    Diverge ([0, 0] ++ s) (escBody (x :: r) ++ t) ∧ Bytes.lt ([0, 0] ++ s) (escBody (x :: r) ++ t) = true := by
  obtain ⟨tl, h1, h2⟩ := escBody_cons x r
  rw [h1]
  by_cases hx : x = 0
  · obtain ⟨tl', h3⟩ := h2 hx
    subst hx; subst h3
    refine ⟨⟨[0], 0, 255, s, tl' ++ t, by decide, by simp, by simp⟩, ?_⟩
    simp [Bytes.lt]
  · refine ⟨⟨[], 0, x, 0 :: s, tl ++ t, fun e => hx e.symm, by simp, by simp⟩, ?_⟩
    have : 0 < x := by omega
    simp [Bytes.lt, this]

/-- escaped bodies of strings that differ at a byte inside both -/
theorem escBody_diverge {a b : Bytes} (h : Diverge a b) (s t : Bytes) :
    Diverge (escBody a ++ s) (escBody b ++ t) ∧
    Bytes.lt (escBody a ++ s) (escBody b ++ t) = Bytes.lt a b := by
  obtain ⟨p, c, d, r1, r2, hne, rfl, rfl⟩ := h
  obtain ⟨t1, e1, _⟩ := escBody_cons c r1
  obtain ⟨t2, e2, _⟩ := escBody_cons d r2
  rw [escBody_append, escBody_append, e1, e2]
  simp only [List.append_assoc, List.cons_append]
  refine ⟨⟨escBody p, c, d, t1 ++ s, t2 ++ t, hne, rfl, rfl⟩, ?_⟩
  rw [lt_append_left, lt_append_left, lt_cons_ne hne, lt_cons_ne hne]

section Nav
variable {c : IdxCfg}

theorem navOf_ordered (hc : c.artRadixKey = .ordered) (k : Bytes) :
    navOf c k = escBody (baseOf k) ++ ([0, 0] ++ tsOf k) := by
  simp [navOf, hc, escBase_eq]

theorem tsOf_length {k : Bytes} (h : 8 ≤ k.length) : (tsOf k).length = 8 := by
  simp [tsOf]; omega

/-- (A)+(B) for two different well-formed keys -/
theorem nav_diverge_lt (hc : c.artRadixKey = .ordered) (hb : c.ckBaseThenTs = true) {k1 k2 : Bytes}
    (h1 : 8 ≤ k1.length) (h2 : 8 ≤ k2.length) (hne : k1 ≠ k2) :
    Diverge (navOf c k1) (navOf c k2) ∧ Bytes.lt (navOf c k1) (navOf c k2) = ckLt c k1 k2 := by
  rw [navOf_ordered hc, navOf_ordered hc, ckLt_def hb]
  rcases prefix_or_diverge (baseOf k1) (baseOf k2) with h | ⟨x, r, h⟩ | ⟨x, r, h⟩ | h
  · -- same base key: the suffixes differ
    have hts : tsOf k1 ≠ tsOf k2 := by
      intro e; apply hne
      rw [← base_append_ts k1, ← base_append_ts k2, h, e]
    have hd := diverge_of_ne_same_len (by rw [tsOf_length h1, tsOf_length h2]) hts
    rw [h]
    refine ⟨diverge_append_left _ (diverge_append_left _ hd), ?_⟩
    rw [lt_append_left, lt_append_left]
    simp [Bytes.lt_irrefl]
  · -- base1 is a proper prefix of base2
    rw [h, escBody_append]
    obtain ⟨hd, hl⟩ := term_vs_body_diverge x r (tsOf k1) ([0, 0] ++ tsOf k2)
    simp only [List.append_assoc]
    refine ⟨diverge_append_left _ hd, ?_⟩
    rw [lt_append_left, hl]
    simp [lt_prefix]
  · -- base2 is a proper prefix of base1
    rw [h, escBody_append]
    obtain ⟨hd, hl⟩ := term_vs_body_diverge x r (tsOf k2) ([0, 0] ++ tsOf k1)
    simp only [List.append_assoc]
    refine ⟨diverge_append_left _ (diverge_symm hd), ?_⟩
    rw [lt_append_left]
    have hasym : Bytes.lt (escBody (x :: r) ++ ([0, 0] ++ tsOf k1)) ([0, 0] ++ tsOf k2) = false := Bytes.lt_asymm hl
    rw [hasym]
    have hne' : (baseOf k2 ++ x :: r == baseOf k2) = false := by
      simpa using (ne_append_cons (baseOf k2) x r).symm
    simp [not_lt_of_prefix, hne']
  · obtain ⟨hd, hl⟩ := escBody_diverge h ([0, 0] ++ tsOf k1) ([0, 0] ++ tsOf k2)
    refine ⟨hd, ?_⟩
    rw [hl]
    have : (baseOf k1 == baseOf k2) = false := by simpa using diverge_ne h
    simp [this]

theorem nav_inj (hc : c.artRadixKey = .ordered) (hb : c.ckBaseThenTs = true) {k1 k2 : Bytes}
    (h1 : 8 ≤ k1.length) (h2 : 8 ≤ k2.length) (h : navOf c k1 = navOf c k2) : k1 = k2 := by
  by_cases hne : k1 = k2
  · exact hne
  · exact absurd h (diverge_ne (nav_diverge_lt hc hb h1 h2 hne).1)

/-- (B) byte order on radix keys is `CompareKeys` order -/
theorem nav_lt (hc : c.artRadixKey = .ordered) (hb : c.ckBaseThenTs = true) {k1 k2 : Bytes}
    (h1 : 8 ≤ k1.length) (h2 : 8 ≤ k2.length) :
    Bytes.lt (navOf c k1) (navOf c k2) = ckLt c k1 k2 := by
  by_cases hne : k1 = k2
  · subst hne; rw [Bytes.lt_irrefl, ckLt_irrefl hb]
  · exact (nav_diverge_lt hc hb h1 h2 hne).2

end Nav

end NoKV.Index

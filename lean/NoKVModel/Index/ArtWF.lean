/-
The invariant of the ART model under the good configuration, and what it implies for the
in-order leaf list (helper file for Props/C07.lean, `C07_art_refines`).

`WF c f t path`: the tree `t`, reached after consuming the radix-key bytes `path`, is well formed
and `f` levels of fuel suffice for it:
* a leaf holds a well-formed key (≥ 8 bytes) whose radix key starts with `path`;
* an inner node (any kind: 4/16 = `big false`, 48/256 = `big true`) has at least one child, its
  children are ordered by strictly increasing byte, and the child under byte `b` is well formed
  at `path ++ prefix ++ [b]` (path compression: the whole compressed prefix is spelled by every
  radix key below).
-/
import NoKVModel.Index.NavLemmas
import NoKVModel.Index.RefLemmas

set_option linter.unusedSimpArgs false
set_option linter.unusedVariables false
namespace NoKV.Index
open NoKV

/-- the configuration with the flag of the open ART ordering findings set good (order-preserving
prefix-free radix key) and the intended comparators; the stored-length field is handled by a
hypothesis on the key lengths (`stored c k = k`), as for the skiplist -/
def IdxCfg.ArtGood (c : IdxCfg) : Prop :=
  c.ckBaseThenTs = true ∧ c.artLeafLbOp = .ge ∧ c.artLeafUbOp = .le ∧ c.artRadixKey = .ordered
instance IdxCfg.decArtGood (c : IdxCfg) : Decidable c.ArtGood := by
  unfold IdxCfg.ArtGood; exact inferInstance

def WF (c : IdxCfg) : Nat → Art → Bytes → Prop
  | 0, _, _ => False
  | _ + 1, .leaf k _, path => 8 ≤ k.length ∧ path <+: navOf c k
  | f + 1, .inner _ pfx kids, path =>
    kids ≠ [] ∧ kids.Pairwise (fun a b => a.1 < b.1) ∧ ∀ e ∈ kids, WF c f e.2 (path ++ pfx ++ [e.1])

theorem flatMap_congr' {α β : Type} {l : List α} {f g : α → List β} (h : ∀ x ∈ l, f x = g x) :
    l.flatMap f = l.flatMap g := by
  induction l with
  | nil => rfl
  | cons x xs ih =>
    simp only [List.flatMap_cons]
    rw [h x (by simp), ih (fun y hy => h y (by simp [hy]))]

theorem wf_succ (c : IdxCfg) : ∀ (f : Nat) (t : Art) (p : Bytes), WF c f t p → WF c (f + 1) t p := by
  intro f
  induction f with
  | zero => intro t p h; simp [WF] at h
  | succ f ih =>
    intro t p h
    cases t with
    | leaf k v => simpa [WF] using h
    | inner big pfx kids =>
      simp only [WF] at h ⊢
      exact ⟨h.1, h.2.1, fun e he => ih _ _ (h.2.2 e he)⟩

theorem wf_le (c : IdxCfg) {f g : Nat} (hle : f ≤ g) {t : Art} {p : Bytes} (h : WF c f t p) : WF c g t p := by
  induction hle with
  | refl => exact h
  | step _ ih => exact wf_succ c _ _ _ ih

theorem leaves_succ (c : IdxCfg) : ∀ (f : Nat) (t : Art) (p : Bytes), WF c f t p →
    artLeaves (f + 1) t = artLeaves f t := by
  intro f
  induction f with
  | zero => intro t p h; simp [WF] at h
  | succ f ih =>
    intro t p h
    cases t with
    | leaf k v => simp [artLeaves]
    | inner big pfx kids =>
      simp only [WF] at h
      simp only [artLeaves]
      exact flatMap_congr' (fun e he => ih _ _ (h.2.2 e he))

theorem leaves_le (c : IdxCfg) {f g : Nat} (hle : f ≤ g) {t : Art} {p : Bytes} (h : WF c f t p) :
    artLeaves g t = artLeaves f t := by
  induction hle with
  | refl => rfl
  | step hfg ih => rw [leaves_succ c _ _ _ (wf_le c hfg h), ih]

/-- every leaf below holds a well-formed key whose radix key starts with `path` -/
theorem leaves_pfx (c : IdxCfg) : ∀ (f : Nat) (t : Art) (p : Bytes), WF c f t p →
    ∀ e ∈ artLeaves f t, 8 ≤ e.1.length ∧ p <+: navOf c e.1 := by
  intro f
  induction f with
  | zero => intro t p h; simp [WF] at h
  | succ f ih =>
    intro t p h e he
    cases t with
    | leaf k v =>
      simp only [artLeaves, List.mem_singleton] at he
      subst he
      simpa [WF] using h
    | inner big pfx kids =>
      simp only [WF] at h
      simp only [artLeaves, List.mem_flatMap] at he
      obtain ⟨kid, hk, hek⟩ := he
      obtain ⟨h1, h2⟩ := ih _ _ (h.2.2 kid hk) e hek
      refine ⟨h1, List.IsPrefix.trans ?_ h2⟩
      rw [List.append_assoc]
      exact List.prefix_append _ _

theorem leaves_ne_nil (c : IdxCfg) : ∀ (f : Nat) (t : Art) (p : Bytes), WF c f t p → artLeaves f t ≠ [] := by
  intro f
  induction f with
  | zero => intro t p h; simp [WF] at h
  | succ f ih =>
    intro t p h
    cases t with
    | leaf k v => simp [artLeaves]
    | inner big pfx kids =>
      simp only [WF] at h
      obtain ⟨kid, rest, hk⟩ := List.exists_cons_of_ne_nil h.1
      subst hk
      simp only [artLeaves, List.flatMap_cons]
      intro e
      have := List.append_eq_nil_iff.mp e
      exact ih _ _ (h.2.2 kid (by simp)) this.1

/-! ### the in-order leaf list is sorted by radix key -/

/-- strict order on entries by radix key -/
def navLt (c : IdxCfg) (a b : Entry) : Prop := Bytes.lt (navOf c a.1) (navOf c b.1) = true

/-- radix keys that continue a common stem with different bytes are ordered by those bytes -/
theorem lt_of_stem {q X Y : Bytes} {a b : Nat} (hx : q ++ [a] <+: X) (hy : q ++ [b] <+: Y) (hab : a < b) :
    Bytes.lt X Y = true := by
  obtain ⟨r1, rfl⟩ := hx
  obtain ⟨r2, rfl⟩ := hy
  simp only [List.append_assoc, List.singleton_append]
  rw [lt_append_left, lt_cons_ne (by omega)]
  simp [hab]

theorem ne_of_stem {q X Y : Bytes} {a b : Nat} (hx : q ++ [a] <+: X) (hy : q ++ [b] <+: Y) (hab : a ≠ b) :
    X ≠ Y := by
  obtain ⟨r1, rfl⟩ := hx
  obtain ⟨r2, rfl⟩ := hy
  intro e
  simp only [List.append_assoc, List.singleton_append] at e
  have := List.append_cancel_left e
  simp at this
  exact hab this.1

theorem flatMap_pairwise {α β : Type} {R : β → β → Prop} {g : α → List β} :
    ∀ (l : List α), (∀ e ∈ l, (g e).Pairwise R) →
      l.Pairwise (fun a b => ∀ x ∈ g a, ∀ y ∈ g b, R x y) → (l.flatMap g).Pairwise R := by
  intro l
  induction l with
  | nil => intro _ _; simp
  | cons a rest ih =>
    intro h1 h2
    rw [List.pairwise_cons] at h2
    simp only [List.flatMap_cons]
    rw [List.pairwise_append]
    refine ⟨h1 a (by simp), ih (fun e he => h1 e (by simp [he])) h2.2, ?_⟩
    intro x hx y hy
    simp only [List.mem_flatMap] at hy
    obtain ⟨b, hb, hyb⟩ := hy
    exact h2.1 b hb x hx y hyb

theorem leaves_sorted (c : IdxCfg) : ∀ (f : Nat) (t : Art) (p : Bytes), WF c f t p →
    (artLeaves f t).Pairwise (navLt c) := by
  intro f
  induction f with
  | zero => intro t p h; simp [WF] at h
  | succ f ih =>
    intro t p h
    cases t with
    | leaf k v => simp [artLeaves]
    | inner big pfx kids =>
      simp only [WF] at h
      simp only [artLeaves]
      apply flatMap_pairwise
      · intro e he; exact ih _ _ (h.2.2 e he)
      · refine List.Pairwise.imp_of_mem ?_ h.2.1
        intro a b ha hb hab x hx y hy
        have hxa := (leaves_pfx c _ _ _ (h.2.2 a ha) x hx).2
        have hyb := (leaves_pfx c _ _ _ (h.2.2 b hb) y hy).2
        exact lt_of_stem hxa hyb hab

/-! ### fuel: a tree whose radix keys are at most `L` long needs `L + 1 - |path|` levels -/

theorem prefix_length_le' {a b : Bytes} (h : a <+: b) : a.length ≤ b.length := by
  obtain ⟨r, rfl⟩ := h; simp

theorem wf_refuel (c : IdxCfg) (L : Nat) : ∀ (f : Nat) (t : Art) (p : Bytes), WF c f t p →
    (∀ e ∈ artLeaves f t, (navOf c e.1).length ≤ L) → WF c (L + 1 - p.length) t p := by
  intro f
  induction f with
  | zero => intro t p h; simp [WF] at h
  | succ f ih =>
    intro t p h hL
    -- some leaf exists, so |p| ≤ L
    have hne := leaves_ne_nil c _ _ _ h
    obtain ⟨e0, rest0, he0⟩ := List.exists_cons_of_ne_nil hne
    have hmem : e0 ∈ artLeaves (f + 1) t := by rw [he0]; simp
    have hp : p.length ≤ L := Nat.le_trans (prefix_length_le' (leaves_pfx c _ _ _ h e0 hmem).2) (hL e0 hmem)
    have hfuel : L + 1 - p.length = (L - p.length) + 1 := by omega
    rw [hfuel]
    cases t with
    | leaf k v => simpa [WF] using h
    | inner big pfx kids =>
      simp only [WF] at h ⊢
      refine ⟨h.1, h.2.1, ?_⟩
      intro e he
      have hsub : ∀ x ∈ artLeaves f e.2, (navOf c x.1).length ≤ L := by
        intro x hx
        apply hL
        simp only [artLeaves, List.mem_flatMap]
        exact ⟨e, he, hx⟩
      have := ih _ _ (h.2.2 e he) hsub
      -- the child has a leaf too, so its path fits in L
      have hne' := leaves_ne_nil c _ _ _ (h.2.2 e he)
      obtain ⟨e1, rest1, he1⟩ := List.exists_cons_of_ne_nil hne'
      have hmem1 : e1 ∈ artLeaves f e.2 := by rw [he1]; simp
      have hp' := Nat.le_trans (prefix_length_le' (leaves_pfx c _ _ _ (h.2.2 e he) e1 hmem1).2) (hsub e1 hmem1)
      simp only [List.length_append, List.length_singleton] at hp' this
      exact wf_le c (by omega) this

/-! ### strictly sorted lists with the same members are equal -/

theorem sorted_ext {α : Type} {R : α → α → Prop} (irr : ∀ a, ¬ R a a) (asym : ∀ a b, R a b → ¬ R b a) :
    ∀ (l1 l2 : List α), l1.Pairwise R → l2.Pairwise R → (∀ x, x ∈ l1 ↔ x ∈ l2) → l1 = l2 := by
  intro l1
  induction l1 with
  | nil =>
    intro l2 _ _ h
    cases l2 with
    | nil => rfl
    | cons b _ => exact absurd ((h b).mpr (by simp)) (by simp)
  | cons a l1 ih =>
    intro l2 h1 h2 h
    cases l2 with
    | nil => exact absurd ((h a).mp (by simp)) (by simp)
    | cons b l2 =>
      rw [List.pairwise_cons] at h1 h2
      have hab : a = b := by
        have ha := (h a).mp (by simp)
        have hb := (h b).mpr (by simp)
        simp only [List.mem_cons] at ha hb
        rcases ha with ha | ha
        · exact ha
        · rcases hb with hb | hb
          · exact hb.symm
          · exact absurd (h1.1 b hb) (asym _ _ (h2.1 a ha))
      subst hab
      congr 1
      apply ih l2 h1.2 h2.2
      intro x
      constructor
      · intro hx
        have := (h x).mp (by simp [hx])
        simp only [List.mem_cons] at this
        rcases this with e | e
        · subst e; exact absurd (h1.1 x hx) (irr x)
        · exact e
      · intro hx
        have := (h x).mpr (by simp [hx])
        simp only [List.mem_cons] at this
        rcases this with e | e
        · subst e; exact absurd (h2.1 x hx) (irr x)
        · exact e

end NoKV.Index

/-
Lemmas about `Bytes.lt` on concatenations, big-endian integers and `ckLt`
(helper file for Props/C07.lean).
-/
import NoKVModel.Index.Key

set_option linter.unusedSimpArgs false
namespace NoKV.Index
open NoKV

/-! ### lexicographic order and append -/

theorem lt_append_left (p x y : Bytes) : Bytes.lt (p ++ x) (p ++ y) = Bytes.lt x y := by
  induction p with
  | nil => rfl
  | cons a p ih => simp [Bytes.lt, ih]

theorem lt_cons_ne {c d : Nat} (h : c ≠ d) (x y : Bytes) :
    Bytes.lt (c :: x) (d :: y) = decide (c < d) := by
  simp only [Bytes.lt]
  by_cases h1 : c < d
  · simp [h1]
  · have : d < c := by omega
    simp [h1, this]

/-- equal-length heads decide first -/
theorem lt_append_same_len {a b : Bytes} (h : a.length = b.length) (x y : Bytes) :
    Bytes.lt (a ++ x) (b ++ y) = (Bytes.lt a b || (a == b && Bytes.lt x y)) := by
  induction a generalizing b with
  | nil =>
    cases b with
    | nil => simp [Bytes.lt]
    | cons _ _ => simp at h
  | cons c a ih =>
    cases b with
    | nil => simp at h
    | cons d b =>
      simp only [List.length_cons, Nat.add_right_cancel_iff] at h
      simp only [List.cons_append, Bytes.lt]
      by_cases h1 : c < d
      · simp [h1]
      · by_cases h2 : d < c
        · have : c ≠ d := by omega
          simp [h1, h2, this]
        · have : c = d := by omega
          subst this
          simp [h1, ih h]

theorem lt_same_len_snoc {a b : Bytes} (h : a.length = b.length) (x y : Nat) :
    Bytes.lt (a ++ [x]) (b ++ [y]) = (Bytes.lt a b || (a == b && decide (x < y))) := by
  rw [lt_append_same_len h]
  congr 2
  simp only [Bytes.lt]
  by_cases h1 : x < y
  · simp [h1]
  · by_cases h2 : y < x <;> simp [h1, h2]

/-! ### big-endian fixed width -/

theorem beW_length (w n : Nat) : (beW w n).length = w := by
  induction w generalizing n with
  | zero => rfl
  | succ w ih => simp [beW, ih]

theorem beW_lt_iff (w : Nat) : ∀ n m, n < 256 ^ w → m < 256 ^ w →
    ((Bytes.lt (beW w n) (beW w m) = true ↔ n < m) ∧ (beW w n = beW w m ↔ n = m)) := by
  induction w with
  | zero =>
    intro n m hn hm
    simp at hn hm
    subst hn; subst hm
    simp [beW, Bytes.lt]
  | succ w ih =>
    intro n m hn hm
    have hn' : n / 256 < 256 ^ w := by
      apply Nat.div_lt_of_lt_mul; rw [Nat.pow_succ] at hn; omega
    have hm' : m / 256 < 256 ^ w := by
      apply Nat.div_lt_of_lt_mul; rw [Nat.pow_succ] at hm; omega
    obtain ⟨h1, h2⟩ := ih (n / 256) (m / 256) hn' hm'
    have hlen : (beW w (n / 256)).length = (beW w (m / 256)).length := by simp [beW_length]
    constructor
    · simp only [beW]
      rw [lt_same_len_snoc hlen]
      simp only [Bool.or_eq_true, Bool.and_eq_true, beq_iff_eq, decide_eq_true_eq]
      rw [h1, h2]
      omega
    · simp only [beW]
      constructor
      · intro h
        obtain ⟨e1, e2⟩ := List.append_inj' h (by simp)
        have e3 := h2.mp e1
        simp at e2
        omega
      · intro h; subst h; rfl

theorem be8_lt_iff {n m : Nat} (hn : n ≤ maxU64) (hm : m ≤ maxU64) :
    (Bytes.lt (beW 8 n) (beW 8 m) = true ↔ n < m) :=
  (beW_lt_iff 8 n m (by unfold maxU64 at hn; omega) (by unfold maxU64 at hm; omega)).1

theorem be8_inj {n m : Nat} (hn : n ≤ maxU64) (hm : m ≤ maxU64) :
    (beW 8 n = beW 8 m ↔ n = m) :=
  (beW_lt_iff 8 n m (by unfold maxU64 at hn; omega) (by unfold maxU64 at hm; omega)).2

/-! ### base / suffix of a well-formed key -/

theorem baseOf_append {u t : Bytes} (h : t.length = 8) : baseOf (u ++ t) = u := by
  simp [baseOf, h]

theorem tsOf_append {u t : Bytes} (h : t.length = 8) : tsOf (u ++ t) = t := by
  simp [tsOf, h]

theorem base_append_ts (k : Bytes) : baseOf k ++ tsOf k = k := by
  simp [baseOf, tsOf]

theorem tsBytes_length (c : IdxCfg) (v : Nat) : (tsBytes c v).length = 8 := by
  unfold tsBytes; split <;> simp [beW_length]

theorem baseOf_mkKey (c : IdxCfg) (u : Bytes) (v : Nat) : baseOf (mkKey c u v) = u :=
  baseOf_append (tsBytes_length c v)

theorem tsOf_mkKey (c : IdxCfg) (u : Bytes) (v : Nat) : tsOf (mkKey c u v) = tsBytes c v :=
  tsOf_append (tsBytes_length c v)

/-! ### `ckLt` is a strict total order (on all byte strings) -/

theorem ckLt_def {c : IdxCfg} (hc : c.ckBaseThenTs = true) (a b : Bytes) :
    ckLt c a b = (Bytes.lt (baseOf a) (baseOf b) || (baseOf a == baseOf b && Bytes.lt (tsOf a) (tsOf b))) := by
  simp [ckLt, hc]

theorem ckLt_irrefl {c : IdxCfg} (hc : c.ckBaseThenTs = true) (a : Bytes) : ckLt c a a = false := by
  simp [ckLt_def hc, Bytes.lt_irrefl]

theorem ckLt_trans {c : IdxCfg} (hc : c.ckBaseThenTs = true) {a b d : Bytes}
    (h1 : ckLt c a b = true) (h2 : ckLt c b d = true) : ckLt c a d = true := by
  rw [ckLt_def hc] at h1 h2 ⊢
  simp only [Bool.or_eq_true, Bool.and_eq_true, beq_iff_eq] at h1 h2 ⊢
  rcases h1 with h1 | ⟨e1, h1⟩
  · rcases h2 with h2 | ⟨e2, h2⟩
    · exact Or.inl (Bytes.lt_trans h1 h2)
    · rw [← e2]; exact Or.inl h1
  · rcases h2 with h2 | ⟨e2, h2⟩
    · rw [e1]; exact Or.inl h2
    · exact Or.inr ⟨e1.trans e2, Bytes.lt_trans h1 h2⟩

theorem ckLt_tri {c : IdxCfg} (hc : c.ckBaseThenTs = true) {a b : Bytes}
    (h1 : ckLt c a b = false) (h2 : ckLt c b a = false) : a = b := by
  rw [ckLt_def hc] at h1 h2
  simp only [Bool.or_eq_false_iff, Bool.and_eq_false_iff, beq_eq_false_iff_ne] at h1 h2
  have hb : baseOf a = baseOf b := Bytes.eq_of_not_lt h1.1 h2.1
  have ht : tsOf a = tsOf b := by
    rcases h1.2 with h | h
    · exact absurd hb h
    · rcases h2.2 with h' | h'
      · exact absurd hb.symm h'
      · exact Bytes.eq_of_not_lt h h'
  rw [← base_append_ts a, ← base_append_ts b, hb, ht]

theorem ckLt_asymm {c : IdxCfg} (hc : c.ckBaseThenTs = true) {a b : Bytes}
    (h : ckLt c a b = true) : ckLt c b a = false := by
  cases h' : ckLt c b a with
  | false => rfl
  | true => have := ckLt_trans hc h h'; rw [ckLt_irrefl hc] at this; cases this

theorem ckEq_iff {c : IdxCfg} (hc : c.ckBaseThenTs = true) (a b : Bytes) : ckEq c a b = true ↔ a = b := by
  unfold ckEq
  constructor
  · intro h
    simp only [Bool.and_eq_true, Bool.not_eq_true'] at h
    exact ckLt_tri hc h.1 h.2
  · intro h; subst h; simp [ckLt_irrefl hc]

/-- the order on constructed keys: user key ascending, then version descending -/
theorem ckLt_mkKey {c : IdxCfg} (hc : c.OrderGood) (u1 u2 : Bytes) {v1 v2 : Nat}
    (h1 : v1 ≤ maxU64) (h2 : v2 ≤ maxU64) :
    ckLt c (mkKey c u1 v1) (mkKey c u2 v2) = (Bytes.lt u1 u2 || (u1 == u2 && decide (v2 < v1))) := by
  obtain ⟨hb, hi⟩ := hc
  rw [ckLt_def hb, baseOf_mkKey, baseOf_mkKey, tsOf_mkKey, tsOf_mkKey]
  congr 2
  simp only [tsBytes, hi, if_true]
  have := @be8_lt_iff (maxU64 - v1) (maxU64 - v2) (by omega) (by omega)
  by_cases h : v2 < v1
  · have h' : maxU64 - v1 < maxU64 - v2 := by omega
    simp [h, this.mpr h']
  · have h' : ¬ maxU64 - v1 < maxU64 - v2 := by omega
    have : Bytes.lt (beW 8 (maxU64 - v1)) (beW 8 (maxU64 - v2)) = false := by
      cases hh : Bytes.lt (beW 8 (maxU64 - v1)) (beW 8 (maxU64 - v2)) with
      | false => rfl
      | true => exact absurd (this.mp hh) h'
    simp [h, this]

theorem mkKey_inj {c : IdxCfg} (hc : c.OrderGood) {u1 u2 : Bytes} {v1 v2 : Nat}
    (h1 : v1 ≤ maxU64) (h2 : v2 ≤ maxU64) (h : mkKey c u1 v1 = mkKey c u2 v2) : u1 = u2 ∧ v1 = v2 := by
  have hb : u1 = u2 := by
    have := congrArg baseOf h; rwa [baseOf_mkKey, baseOf_mkKey] at this
  have ht := congrArg tsOf h
  rw [tsOf_mkKey, tsOf_mkKey] at ht
  simp only [tsBytes, hc.2, if_true] at ht
  have := (@be8_inj (maxU64 - v1) (maxU64 - v2) (by omega) (by omega)).mp ht
  exact ⟨hb, by omega⟩

end NoKV.Index

/-
Lemmas about the reference ordered map (generic strict total order) and the refinement of
the skiplist model to it (helper file for Props/C07.lean).
-/
import NoKVModel.Index.Ref
import NoKVModel.Index.OrderLemmas

set_option linter.unusedSimpArgs false
set_option linter.unusedVariables false
namespace NoKV.Index
open NoKV

/-- a strict total order given as a Boolean `lt` -/
structure StrictTotal {α : Type} (lt : α → α → Bool) : Prop where
  irrefl : ∀ a, lt a a = false
  trans : ∀ {a b c}, lt a b = true → lt b c = true → lt a c = true
  tri : ∀ {a b}, lt a b = false → lt b a = false → a = b

theorem StrictTotal.asymm {α : Type} {lt : α → α → Bool} (h : StrictTotal lt) {a b : α}
    (hab : lt a b = true) : lt b a = false := by
  cases h' : lt b a with
  | false => rfl
  | true => have := h.trans hab h'; rw [h.irrefl] at this; cases this

theorem ck_strictTotal {c : IdxCfg} (hc : c.ckBaseThenTs = true) : StrictTotal (ckLt c) :=
  ⟨ckLt_irrefl hc, ckLt_trans hc, ckLt_tri hc⟩

section Generic
variable {α : Type} {lt : α → α → Bool}

/-- strictly sorted by key (hence duplicate-free) -/
def Sorted (lt : α → α → Bool) (l : List (α × Bytes)) : Prop :=
  l.Pairwise (fun a b => lt a.1 b.1 = true)

theorem mem_upsert_sub {k : α} {v : Bytes} {l : List (α × Bytes)} {e : α × Bytes}
    (h : e ∈ upsert lt k v l) : e = (k, v) ∨ e ∈ l := by
  induction l with
  | nil => simp [upsert] at h; exact Or.inl h
  | cons x rest ih =>
    unfold upsert at h
    split at h
    · simp only [List.mem_cons] at h ⊢; rcases h with h | h | h <;> simp [h]
    · split at h
      · simp only [List.mem_cons] at h ⊢
        rcases h with h | h
        · simp [h]
        · rcases ih h with h | h <;> simp [h]
      · simp only [List.mem_cons] at h ⊢; rcases h with h | h <;> simp [h]

theorem upsert_sorted (st : StrictTotal lt) (k : α) (v : Bytes) {l : List (α × Bytes)}
    (hs : Sorted lt l) : Sorted lt (upsert lt k v l) := by
  induction l with
  | nil => simp [upsert, Sorted]
  | cons x rest ih =>
    unfold Sorted at hs ih ⊢
    rw [List.pairwise_cons] at hs
    unfold upsert
    cases h1 : lt k x.1 with
    | true =>
      simp only [if_true]
      rw [List.pairwise_cons]
      refine ⟨?_, List.pairwise_cons.mpr hs⟩
      intro y hy
      simp only [List.mem_cons] at hy
      rcases hy with hy | hy
      · subst hy; exact h1
      · exact st.trans h1 (hs.1 y hy)
    | false =>
      simp only [Bool.false_eq_true, if_false]
      cases h2 : lt x.1 k with
      | true =>
        simp only [if_true]
        rw [List.pairwise_cons]
        refine ⟨?_, ih hs.2⟩
        intro y hy
        rcases mem_upsert_sub hy with hy | hy
        · subst hy; exact h2
        · exact hs.1 y hy
      | false =>
        simp only [Bool.false_eq_true, if_false]
        have : k = x.1 := st.tri h1 h2
        rw [List.pairwise_cons]
        refine ⟨?_, hs.2⟩
        intro y hy
        rw [this]; exact hs.1 y hy

theorem build_sorted (st : StrictTotal lt) (ops : List (α × Bytes)) : Sorted lt (build lt ops) := by
  induction ops with
  | nil => simp [build, Sorted]
  | cons op older ih => obtain ⟨k, v⟩ := op; exact upsert_sorted st k v ih

theorem getRef_upsert_self [DecidableEq α] (st : StrictTotal lt) (k : α) (v : Bytes) (l : List (α × Bytes)) :
    getRef k (upsert lt k v l) = some v := by
  induction l with
  | nil => simp [upsert, getRef]
  | cons x rest ih =>
    unfold upsert
    by_cases h1 : lt k x.1 = true
    · simp [h1, getRef]
    · by_cases h2 : lt x.1 k = true
      · have hne : x.1 ≠ k := by
          intro e; rw [e, st.irrefl] at h2; cases h2
        simp [h1, h2, getRef, hne, ih]
      · simp [h1, h2, getRef]

theorem getRef_upsert_other [DecidableEq α] (st : StrictTotal lt) {k k' : α} (hne : k' ≠ k) (v : Bytes)
    (l : List (α × Bytes)) : getRef k' (upsert lt k v l) = getRef k' l := by
  induction l with
  | nil => simp [upsert, getRef, Ne.symm hne]
  | cons x rest ih =>
    unfold upsert
    by_cases h1 : lt k x.1 = true
    · simp [h1, getRef, Ne.symm hne]
    · by_cases h2 : lt x.1 k = true
      · simp [h1, h2, getRef, ih]
      · have : k = x.1 := st.tri (by simpa using h1) (by simpa using h2)
        have hne' : ¬ x.1 = k' := by rw [← this]; exact Ne.symm hne
        simp [h1, h2, getRef, Ne.symm hne, hne']

/-- exact lookup after any history of writes returns the newest value written to that key -/
theorem getRef_build [DecidableEq α] (st : StrictTotal lt) (k : α) (ops : List (α × Bytes)) :
    getRef k (build lt ops) = (ops.find? (fun e => e.1 = k)).map (·.2) := by
  induction ops with
  | nil => simp [build, getRef]
  | cons op older ih =>
    obtain ⟨k', v⟩ := op
    simp only [build, List.find?_cons]
    by_cases h : k' = k
    · subst h; simp [getRef_upsert_self st]
    · have h' : k ≠ k' := fun e => h e.symm
      simp [h, getRef_upsert_other st h', ih]

theorem mem_takeWhile_imp' {β : Type} {p : β → Bool} {l : List β} {e : β} (h : e ∈ l.takeWhile p) :
    p e = true := by
  induction l with
  | nil => simp at h
  | cons x rest ih =>
    rw [List.takeWhile_cons] at h
    cases hp : p x with
    | true =>
      rw [hp] at h
      simp only [if_true, List.mem_cons] at h
      rcases h with h | h
      · subst h; exact hp
      · exact ih h
    | false => rw [hp] at h; simp at h

/-- on a sorted list the suffix from the first element `≥ t` is exactly the elements `≥ t` -/
theorem seekGE_eq_filter (st : StrictTotal lt) (t : α) {l : List (α × Bytes)} (hs : Sorted lt l) :
    seekGE lt t l = l.filter (fun e => !lt e.1 t) := by
  induction l with
  | nil => simp [seekGE]
  | cons x rest ih =>
    unfold Sorted at hs ih
    rw [List.pairwise_cons] at hs
    unfold seekGE at ih ⊢
    by_cases h : lt x.1 t = true
    · simp [List.dropWhile_cons, h, ih hs.2]
    · have hall : ∀ y ∈ rest, (!lt y.1 t) = true := by
        intro y hy
        cases hy' : lt y.1 t with
        | false => rfl
        | true => exact absurd (st.trans (hs.1 y hy) hy') h
      simp only [List.dropWhile_cons, h, Bool.false_eq_true, if_false, List.filter_cons, Bool.not_false, if_true]
      simp only [Bool.not_eq_true] at h
      simp [h, List.filter_eq_self.mpr hall]

theorem seekGE_split (st : StrictTotal lt) (t : α) {l : List (α × Bytes)} (hs : Sorted lt l) :
    ∃ pre, l = pre ++ seekGE lt t l ∧ (∀ e ∈ pre, lt e.1 t = true) ∧ (∀ e ∈ seekGE lt t l, lt e.1 t = false) := by
  refine ⟨l.takeWhile (fun e => lt e.1 t), ?_, ?_, ?_⟩
  · simp [seekGE, List.takeWhile_append_dropWhile]
  · intro e he; exact mem_takeWhile_imp' (p := fun (e : α × Bytes) => lt e.1 t) he
  · intro e he
    rw [seekGE_eq_filter st t hs] at he
    simpa using (List.mem_filter.mp he).2

/-- on a sorted list the prefix of elements `≤ t` is everything that is `≤ t` -/
theorem seekLE_split (st : StrictTotal lt) (t : α) {l : List (α × Bytes)} (hs : Sorted lt l) :
    ∃ post, l = (seekLE lt t l).reverse ++ post ∧ (∀ e ∈ seekLE lt t l, lt t e.1 = false) ∧
      (∀ e ∈ post, lt t e.1 = true) := by
  refine ⟨l.dropWhile (fun e => !lt t e.1), ?_, ?_, ?_⟩
  · simp [seekLE, List.takeWhile_append_dropWhile]
  · intro e he
    simp only [seekLE, List.mem_reverse] at he
    simpa using mem_takeWhile_imp' (p := fun (e : α × Bytes) => !lt t e.1) he
  · induction l with
    | nil => simp
    | cons x rest ih =>
      unfold Sorted at hs ih
      rw [List.pairwise_cons] at hs
      intro e he
      rw [List.dropWhile_cons] at he
      cases h : lt t x.1 with
      | true =>
        rw [h] at he
        simp only [Bool.not_true, Bool.false_eq_true, if_false, List.mem_cons] at he
        rcases he with he | he
        · subst he; exact h
        · exact st.trans h (hs.1 e he)
      | false =>
        rw [h] at he
        simp only [Bool.not_false, if_true] at he
        exact ih hs.2 e he

theorem seekGE_sorted (t : α) {l : List (α × Bytes)} (hs : Sorted lt l) : Sorted lt (seekGE lt t l) :=
  List.Pairwise.sublist (List.dropWhile_sublist _) hs

end Generic

/-! ### the skiplist model refines the reference -/

theorem stored_of_short (c : IdxCfg) {k : Bytes} (h : c.keyLenBits = 0 ∨ k.length < 2 ^ c.keyLenBits) :
    stored c k = k := by
  unfold stored
  rcases h with h | h
  · simp [h]
  · split
    · rfl
    · rw [Nat.mod_eq_of_lt h]; simp

theorem sklLt_eq {c : IdxCfg} (hc : c.SklGood) : sklLt c = ckLt c := by
  funext a b; simp [sklLt, hc.2.2]

theorem sklAdd_eq_upsert {c : IdxCfg} (hc : c.SklGood) {k : Bytes} (hk : stored c k = k) (v : Bytes)
    (l : List Entry) : sklAdd c k v l = upsert (ckLt c) k v l := by
  have st := ck_strictTotal hc.1
  induction l with
  | nil => simp [sklAdd, upsert, hk]
  | cons x rest ih =>
    unfold sklAdd upsert
    rw [sklLt_eq hc, hk]
    by_cases h1 : ckLt c x.1 k = true
    · simp [h1, st.asymm h1, ih]
    · by_cases h2 : ckLt c k x.1 = true
      · simp [h1, h2]
      · have : k = x.1 := st.tri (by simpa using h2) (by simpa using h1)
        rw [if_neg h1, if_neg h2, if_neg h2, if_neg h1, this]

theorem sklFindNear_ge {c : IdxCfg} (hc : c.SklGood) (key : Bytes) (prev : Option Entry) (l : List Entry) :
    sklFindNear c key false true prev l = (seekGE (ckLt c) key l).head? := by
  induction l generalizing prev with
  | nil => simp [sklFindNear, seekGE]
  | cons x rest ih =>
    unfold sklFindNear seekGE
    rw [sklLt_eq hc]
    by_cases h1 : ckLt c x.1 key = true
    · simp only [h1, if_true, List.dropWhile_cons]
      exact ih (some x)
    · by_cases h2 : ckLt c key x.1 = true
      · simp [h1, h2, List.dropWhile_cons]
      · simp [h1, h2, List.dropWhile_cons]

theorem sklSearch_eq {c : IdxCfg} (hc : c.SklGood) (key : Bytes) (l : List Entry) :
    sklSearch c key l = searchRef (ckLt c) key l := by
  unfold sklSearch searchRef
  rw [sklFindNear_ge hc]
  cases seekGE (ckLt c) key l <;> simp

theorem sklSeekAsc_eq {c : IdxCfg} (hc : c.SklGood) (t : Bytes) (l : List Entry) :
    sklSeekAsc c t l = seekGE (ckLt c) t l := by
  unfold sklSeekAsc seekGE
  induction l with
  | nil => simp [sklFrom]
  | cons x rest ih =>
    unfold sklFrom
    rw [sklLt_eq hc]
    by_cases h1 : ckLt c x.1 t = true <;> simp [h1, List.dropWhile_cons, ih]

end NoKV.Index

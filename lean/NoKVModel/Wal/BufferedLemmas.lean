/-
The buffered manager refines the unbuffered one: after a flush (`BSt.view`: what a reader sees
after Sync/Close) a history of AppendRecords batches, rotations, syncs, resume-switches and
crash/recover rounds on the buffered manager equals the same history run by `runX` of
`Manager.lean`, batches expanded to single appends.
-/
import NoKVModel.Wal.Buffered
import NoKVModel.Wal.ManagerLemmas

namespace NoKV.Wal

/-- the active segment is the newest file and `activeSize` counts file + buffer -/
def BInv (st : BSt) : Prop :=
  ∃ s older, st.dir = s :: older ∧ st.mgr.activeId = s.id ∧ st.mgr.activeSize = s.data.length + st.mgr.buf.length

theorem view_of_inv {st : BSt} {s : Seg} {older : List Seg} (hd : st.dir = s :: older) (hi : st.mgr.activeId = s.id) :
    st.view = ⟨s.id, s.data ++ st.mgr.buf⟩ :: older := by
  simp [BSt.view, bflush, hd, hi, appendFile]

theorem bflush_inv {st : BSt} (h : BInv st) : BInv (bflush st) ∧ (bflush st).view = st.view ∧
    (bflush st).mgr.segSize = st.mgr.segSize ∧ (bflush st).mgr.syncOnWrite = st.mgr.syncOnWrite := by
  obtain ⟨s, older, hd, hi, hs⟩ := h
  refine ⟨⟨⟨s.id, s.data ++ st.mgr.buf⟩, older, ?_, ?_, ?_⟩, ?_, rfl, rfl⟩
  · simp [bflush, hd, hi, appendFile]
  · simp [bflush, hi]
  · simp [bflush, hs]
  · simp [BSt.view, bflush, hd, hi, appendFile]

theorem brotate_inv {st : BSt} (h : BInv st) :
    BInv (bswitch st (st.mgr.activeId + 1) true) ∧
    (bswitch st (st.mgr.activeId + 1) true).view = rotate st.view ∧
    (bswitch st (st.mgr.activeId + 1) true).mgr.segSize = st.mgr.segSize ∧
    (bswitch st (st.mgr.activeId + 1) true).mgr.syncOnWrite = st.mgr.syncOnWrite := by
  obtain ⟨s, older, hd, hi, hs⟩ := h
  have hv := view_of_inv hd hi
  have e : (bswitch st (st.mgr.activeId + 1) true).dir = ⟨s.id + 1, []⟩ :: ⟨s.id, s.data ++ st.mgr.buf⟩ :: older := by
    simp [bswitch, bflush, hd, hi, appendFile, truncFile]
  refine ⟨⟨⟨s.id + 1, []⟩, _, e, ?_, ?_⟩, ?_, rfl, rfl⟩
  · simp [bswitch, bflush, hi]
  · simp [bswitch, bflush]
  · rw [hv]
    simp only [BSt.view, bflush, rotate]
    rw [e]
    simp [bswitch, bflush, hi, appendFile]

theorem bswitchSame_inv {st : BSt} (h : BInv st) :
    BInv (bswitch st st.mgr.activeId false) ∧ (bswitch st st.mgr.activeId false).view = st.view ∧
    (bswitch st st.mgr.activeId false).mgr.segSize = st.mgr.segSize ∧
    (bswitch st st.mgr.activeId false).mgr.syncOnWrite = st.mgr.syncOnWrite := by
  obtain ⟨s, older, hd, hi, hs⟩ := h
  have hv := view_of_inv hd hi
  have e : (bswitch st st.mgr.activeId false).dir = ⟨s.id, s.data ++ st.mgr.buf⟩ :: older := by
    simp [bswitch, bflush, hd, hi, appendFile, ensureFile]
  refine ⟨⟨⟨s.id, s.data ++ st.mgr.buf⟩, older, e, ?_, ?_⟩, ?_, rfl, rfl⟩
  · simp [bswitch, bflush, hi]
  · simp [bswitch, bflush, hd, hi, appendFile, ensureFile, fileSize]
  · rw [hv]
    simp only [BSt.view, bflush]
    rw [e]
    simp [bswitch, bflush, hi, appendFile]

theorem bappendRec_inv (crc : Bytes → Nat) {st : BSt} (h : BInv st) (r : Rec) :
    BInv (bappendRec crc st r) ∧ (bappendRec crc st r).view = appendRec crc st.mgr.segSize st.view r ∧
    (bappendRec crc st r).mgr.segSize = st.mgr.segSize ∧
    (bappendRec crc st r).mgr.syncOnWrite = st.mgr.syncOnWrite := by
  by_cases hfit : st.mgr.activeSize + encLen r ≤ st.mgr.segSize
  · obtain ⟨s, older, hd, hi, hs⟩ := h
    have hv := view_of_inv hd hi
    have e1 : bensure st r = st := by simp [bensure, hfit]
    refine ⟨⟨s, older, ?_, ?_, ?_⟩, ?_, ?_, ?_⟩
    · simp [bappendRec, e1, hd]
    · simp [bappendRec, e1, hi]
    · simp [bappendRec, e1, hs, encode_length]; omega
    · rw [hv]
      have hfit' : (s.data ++ st.mgr.buf).length + encLen r ≤ st.mgr.segSize := by
        rw [List.length_append, ← hs]; exact hfit
      simp only [appendRec, if_pos hfit']
      simp [BSt.view, bflush, bappendRec, e1, hd, hi, appendFile]
    · simp [bappendRec, e1]
    · simp [bappendRec, e1]
  · obtain ⟨hri, hrv, hrs, hrw⟩ := brotate_inv h
    obtain ⟨s, older, hd, hi, hs⟩ := h
    have hv := view_of_inv hd hi
    have e1 : bensure st r = bswitch st (st.mgr.activeId + 1) true := by simp [bensure, hfit]
    obtain ⟨s2, o2, hd2, hi2, hs2⟩ := hri
    have hb2 : (bswitch st (st.mgr.activeId + 1) true).mgr.buf = [] := by simp [bswitch, bflush]
    have hd2' : (bswitch st (st.mgr.activeId + 1) true).dir = ⟨s.id + 1, []⟩ :: ⟨s.id, s.data ++ st.mgr.buf⟩ :: older := by
      simp [bswitch, bflush, hd, hi, appendFile, truncFile]
    have hid2 : (bswitch st (st.mgr.activeId + 1) true).mgr.activeId = s.id + 1 := by simp [bswitch, bflush, hi]
    have hsz2 : (bswitch st (st.mgr.activeId + 1) true).mgr.activeSize = 0 := by simp [bswitch, bflush]
    refine ⟨⟨⟨s.id + 1, []⟩, ⟨s.id, s.data ++ st.mgr.buf⟩ :: older, ?_, ?_, ?_⟩, ?_, ?_, ?_⟩
    · simp only [bappendRec, e1]; exact hd2'
    · simp only [bappendRec, e1]; exact hid2
    · simp [bappendRec, e1, hsz2, hb2, encode_length]
    · rw [hv]
      have hnfit : ¬ (s.data ++ st.mgr.buf).length + encLen r ≤ st.mgr.segSize := by
        rw [List.length_append, ← hs]; exact hfit
      simp only [appendRec, if_neg hnfit]
      simp only [BSt.view, bflush, bappendRec, e1]
      rw [hd2', hid2, hb2]
      simp [appendFile]
    · simp only [bappendRec, e1]; exact hrs
    · simp only [bappendRec, e1]; exact hrw

theorem runX_append (c : WalCfg) (crc : Bytes → Nat) (segSize : Nat) (segs : List Seg) (a b : List XOp) :
    runX c crc segSize segs (a ++ b) = runX c crc segSize (runX c crc segSize segs a) b := by
  simp [runX, List.foldl_append]

theorem bfold_inv (crc : Bytes → Nat) (c : WalCfg) :
    ∀ (rs : List Rec) (st : BSt), BInv st →
      BInv (rs.foldl (bappendRec crc) st) ∧
      (rs.foldl (bappendRec crc) st).view
        = runX c crc st.mgr.segSize st.view (rs.map (fun r => XOp.op (.append r))) ∧
      (rs.foldl (bappendRec crc) st).mgr.segSize = st.mgr.segSize ∧
      (rs.foldl (bappendRec crc) st).mgr.syncOnWrite = st.mgr.syncOnWrite := by
  intro rs
  induction rs with
  | nil => intro st h; exact ⟨h, rfl, rfl, rfl⟩
  | cons r rs ih =>
    intro st h
    obtain ⟨h1, h2, h3, h4⟩ := bappendRec_inv crc h r
    obtain ⟨i1, i2, i3, i4⟩ := ih (bappendRec crc st r) h1
    simp only [List.foldl_cons, List.map_cons]
    refine ⟨i1, ?_, by rw [i3, h3], by rw [i4, h4]⟩
    rw [i2, h2, h3]
    simp [runX, stepX, stepOp]

theorem openSegs_ne_nil (l : List Seg) : openSegs l ≠ [] := by
  cases l <;> simp [openSegs]

/-- one op of a buffered history, seen through `view`, is the corresponding unbuffered ops -/
theorem stepB_inv (c : WalCfg) (crc : Bytes → Nat) {st : BSt} (h : BInv st) (x : BOp) :
    BInv (stepB c crc st x) ∧
    (stepB c crc st x).view = runX c crc st.mgr.segSize st.view (expandB [x]) ∧
    (stepB c crc st x).mgr.segSize = st.mgr.segSize := by
  cases x with
  | batch rs =>
    obtain ⟨i1, i2, i3, i4⟩ := bfold_inv crc c rs st h
    simp only [stepB, bappendBatch, expandB, List.append_nil]
    split
    · obtain ⟨f1, f2, f3, _⟩ := bflush_inv i1
      exact ⟨f1, by rw [f2, i2], by rw [f3, i3]⟩
    · exact ⟨i1, i2, i3⟩
  | rotate =>
    obtain ⟨r1, r2, r3, _⟩ := brotate_inv h
    exact ⟨r1, by simp only [stepB]; rw [r2]; simp [expandB, runX, stepX, stepOp], r3⟩
  | sync =>
    obtain ⟨f1, f2, f3, _⟩ := bflush_inv h
    exact ⟨f1, by simp only [stepB]; rw [f2]; simp [expandB, runX], f3⟩
  | switchSame =>
    obtain ⟨f1, f2, f3, _⟩ := bswitchSame_inv h
    exact ⟨f1, by simp only [stepB]; rw [f2]; simp [expandB, runX], f3⟩
  | crash n =>
    simp only [stepB, expandB, runX, List.foldl_cons, List.foldl_nil, stepX]
    have hv : (bflush st).dir = st.view := rfl
    rw [hv]
    cases hd : crashReopen c crc n st.view with
    | nil => exact absurd hd (by unfold crashReopen; exact openSegs_ne_nil _)
    | cons s older =>
      refine ⟨⟨s, older, rfl, rfl, by simp⟩, ?_, rfl⟩
      simp [BSt.view, bflush, appendFile]

/-- **Refinement.** -/
theorem runB_refines (c : WalCfg) (crc : Bytes → Nat) :
    ∀ (xs : List BOp) (st : BSt), BInv st →
      BInv (runB c crc st xs) ∧
      (runB c crc st xs).view = runX c crc st.mgr.segSize st.view (expandB xs) := by
  intro xs
  induction xs with
  | nil => intro st h; exact ⟨h, rfl⟩
  | cons x xs ih =>
    intro st h
    obtain ⟨s1, s2, s3⟩ := stepB_inv c crc h x
    obtain ⟨i1, i2⟩ := ih (stepB c crc st x) s1
    refine ⟨i1, ?_⟩
    simp only [runB, List.foldl_cons] at i2 ⊢
    rw [i2, s2, s3]
    have : expandB (x :: xs) = expandB [x] ++ expandB xs := by
      cases x <;> simp [expandB]
    rw [this, runX_append]

theorem bopen_fresh (segSizeRaw : Nat) (sow : Bool) :
    BInv (bopen segSizeRaw sow []) ∧ (bopen segSizeRaw sow []).view = openSegs [] ∧
    (bopen segSizeRaw sow []).mgr.segSize = effSegSize segSizeRaw := by
  refine ⟨⟨⟨1, []⟩, [], rfl, rfl, rfl⟩, ?_, rfl⟩
  simp [bopen, openSegs, BSt.view, bflush, appendFile]

end NoKV.Wal

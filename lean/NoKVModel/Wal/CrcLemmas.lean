/-
GF(2)-linearity and injectivity of the CRC-32C step; consequence: substituting one byte of a
message (in particular flipping one bit) always changes the checksum.
Kernel-only `BitVec` reasoning (`ext` + Boolean case analysis); no `bv_decide`.
-/
import NoKVModel.Wal.Crc

namespace NoKV.Wal

theorem xor_cancel_mid (x y p : BitVec 32) : (x ^^^ p) ^^^ (y ^^^ p) = x ^^^ y := by
  ext i hi
  simp only [BitVec.getElem_xor]
  cases x[i] <;> cases y[i] <;> cases p[i] <;> rfl

theorem xor_mid_left (x y p : BitVec 32) : (x ^^^ p) ^^^ y = (x ^^^ y) ^^^ p := by
  ext i hi
  simp only [BitVec.getElem_xor]
  cases x[i] <;> cases y[i] <;> cases p[i] <;> rfl

theorem xor_mid_right (x y p : BitVec 32) : x ^^^ (y ^^^ p) = (x ^^^ y) ^^^ p := by
  ext i hi
  simp only [BitVec.getElem_xor]
  cases x[i] <;> cases y[i] <;> cases p[i] <;> rfl

theorem ushr1_xor (a b : BitVec 32) : (a ^^^ b) >>> 1 = (a >>> 1) ^^^ (b >>> 1) := by
  ext i hi
  simp [BitVec.getElem_xor, BitVec.getLsbD_xor]

/-- the step is linear over GF(2) -/
theorem crcStep_xor (a b : BitVec 32) : crcStep (a ^^^ b) = crcStep a ^^^ crcStep b := by
  unfold crcStep
  rw [BitVec.getLsbD_xor, ushr1_xor]
  cases ha : a.getLsbD 0 <;> cases hb : b.getLsbD 0 <;> simp
  · exact (xor_mid_right _ _ _).symm
  · exact (xor_mid_left _ _ _).symm
  · exact (xor_cancel_mid _ _ _).symm

theorem crcStep_zero : crcStep 0#32 = 0#32 := by decide

/-- the step has trivial kernel: the polynomial's top bit is set -/
theorem crcStep_eq_zero {d : BitVec 32} (h : crcStep d = 0#32) : d = 0#32 := by
  unfold crcStep at h
  cases hd : d.getLsbD 0
  · rw [hd] at h
    have h' : d >>> 1 = 0#32 := by simpa using h
    apply BitVec.eq_of_getLsbD_eq
    intro i hi
    cases i with
    | zero => simpa using hd
    | succ j =>
      have h2 : (d >>> 1).getLsbD j = (0#32).getLsbD j := by rw [h']
      rw [BitVec.getLsbD_ushiftRight] at h2
      rw [Nat.add_comm] at h2
      simpa using h2
  · rw [hd] at h
    have h' : (d >>> 1) ^^^ crcPoly = 0#32 := by simpa using h
    have h2 : ((d >>> 1) ^^^ crcPoly).getLsbD 31 = (0#32).getLsbD 31 := by rw [h']
    have hp : crcPoly.getLsbD 31 = true := by decide
    rw [BitVec.getLsbD_xor, BitVec.getLsbD_ushiftRight, hp] at h2
    have h3 : d.getLsbD (1 + 31) = false := BitVec.getLsbD_of_ge d (1 + 31) (by omega)
    rw [h3] at h2
    simp at h2

theorem crcStep_inj {a b : BitVec 32} (h : crcStep a = crcStep b) : a = b := by
  have h1 : crcStep (a ^^^ b) = 0#32 := by rw [crcStep_xor, h]; simp
  have h2 := crcStep_eq_zero h1
  have : a = (a ^^^ b) ^^^ b := by
    rw [BitVec.xor_assoc]; simp
  rw [this, h2]; simp

theorem crcStepN_inj (n : Nat) {a b : BitVec 32} (h : crcStepN n a = crcStepN n b) : a = b := by
  induction n generalizing a b with
  | zero => exact h
  | succ n ih => exact crcStep_inj (ih h)

theorem xor_right_cancel {a b x : BitVec 32} (h : a ^^^ x = b ^^^ x) : a = b := by
  have : (a ^^^ x) ^^^ x = (b ^^^ x) ^^^ x := by rw [h]
  simpa [BitVec.xor_assoc] using this

theorem xor_left_cancel {a x y : BitVec 32} (h : a ^^^ x = a ^^^ y) : x = y := by
  have : a ^^^ (a ^^^ x) = a ^^^ (a ^^^ y) := by rw [h]
  simpa [← BitVec.xor_assoc] using this

theorem crcFeed_inj_state {s s' : BitVec 32} {b : Nat} (h : crcFeed s b = crcFeed s' b) : s = s' :=
  xor_right_cancel (crcStepN_inj 8 h)

theorem crcFeed_inj_byte {s : BitVec 32} {b b' : Nat} (hb : b < 256) (hb' : b' < 256)
    (h : crcFeed s b = crcFeed s b') : b = b' := by
  have h1 := xor_left_cancel (crcStepN_inj 8 h)
  have h2 : (BitVec.ofNat 32 b).toNat = (BitVec.ofNat 32 b').toNat := by rw [h1]
  simp [BitVec.toNat_ofNat] at h2
  omega

theorem crcRaw_inj_state (msg : Bytes) {s s' : BitVec 32} (h : crcRaw s msg = crcRaw s' msg) : s = s' := by
  induction msg generalizing s s' with
  | nil => exact h
  | cons x xs ih =>
    simp only [crcRaw, List.foldl_cons] at h
    exact crcFeed_inj_state (ih h)

theorem crcRaw_append (s : BitVec 32) (a b : Bytes) : crcRaw s (a ++ b) = crcRaw (crcRaw s a) b := by
  simp [crcRaw, List.foldl_append]

/-- Substituting one byte of a message changes the raw CRC state. -/
theorem crcRaw_subst (s : BitVec 32) (pre suf : Bytes) {b b' : Nat} (hb : b < 256) (hb' : b' < 256)
    (h : crcRaw s (pre ++ b :: suf) = crcRaw s (pre ++ b' :: suf)) : b = b' := by
  rw [crcRaw_append, crcRaw_append] at h
  have h1 : crcRaw (crcFeed (crcRaw s pre) b) suf = crcRaw (crcFeed (crcRaw s pre) b') suf := by
    simpa [crcRaw] using h
  exact crcFeed_inj_byte hb hb' (crcRaw_inj_state suf h1)

/-- Substituting one byte of a message changes its CRC-32C. -/
theorem crc32c_subst (pre suf : Bytes) {b b' : Nat} (hb : b < 256) (hb' : b' < 256) (hne : b ≠ b') :
    crc32c (pre ++ b :: suf) ≠ crc32c (pre ++ b' :: suf) := by
  intro h
  unfold crc32c at h
  have h1 := BitVec.eq_of_toNat_eq h
  exact hne (crcRaw_subst crcInit pre suf hb hb' (xor_right_cancel h1))

theorem crc32c_lt (msg : Bytes) : crc32c msg < 4294967296 := by
  unfold crc32c
  exact (crcRaw crcInit msg ^^^ crcInit).isLt

/-! ### explicit GF(2)-linearity of the whole checksum -/

/-- bytewise xor of two messages (to the shorter length) -/
def xorBytes : Bytes → Bytes → Bytes
  | a :: as, b :: bs => (a ^^^ b) :: xorBytes as bs
  | [], _ => []
  | _ :: _, [] => []

theorem crcStepN_xor (n : Nat) (a b : BitVec 32) : crcStepN n (a ^^^ b) = crcStepN n a ^^^ crcStepN n b := by
  induction n generalizing a b with
  | zero => rfl
  | succ n ih => simp only [crcStepN, crcStep_xor, ih]

theorem xor4 (s t x y : BitVec 32) : (s ^^^ t) ^^^ (x ^^^ y) = (s ^^^ x) ^^^ (t ^^^ y) := by
  ext i hi
  simp only [BitVec.getElem_xor]
  cases s[i] <;> cases t[i] <;> cases x[i] <;> cases y[i] <;> rfl

theorem crcFeed_xor (s t : BitVec 32) (a b : Nat) : crcFeed (s ^^^ t) (a ^^^ b) = crcFeed s a ^^^ crcFeed t b := by
  unfold crcFeed
  rw [BitVec.ofNat_xor, xor4, crcStepN_xor]

/-- the raw LFSR is linear in (state, message) jointly -/
theorem crcRaw_xor : ∀ (a b : Bytes) (s t : BitVec 32), a.length = b.length →
    crcRaw (s ^^^ t) (xorBytes a b) = crcRaw s a ^^^ crcRaw t b := by
  intro a
  induction a with
  | nil => intro b s t h; cases b with
    | nil => rfl
    | cons y ys => simp at h
  | cons x xs ih =>
    intro b s t h
    cases b with
    | nil => simp at h
    | cons y ys =>
      simp only [List.length_cons, Nat.add_right_cancel_iff] at h
      simp only [xorBytes, crcRaw, List.foldl_cons]
      rw [crcFeed_xor]
      exact ih ys _ _ h

theorem xorBytes_zero (a : Bytes) : xorBytes a (List.replicate a.length 0) = a := by
  induction a with
  | nil => rfl
  | cons x xs ih => simp [List.replicate_succ, xorBytes, ih]

theorem xorBytes_length (a b : Bytes) (h : a.length = b.length) : (xorBytes a b).length = a.length := by
  induction a generalizing b with
  | nil => cases b <;> simp [xorBytes]
  | cons x xs ih =>
    cases b with
    | nil => simp at h
    | cons y ys =>
      simp only [List.length_cons, Nat.add_right_cancel_iff] at h
      simp [xorBytes, ih ys h]

/-- **CRC-32C is affine over GF(2)**: for messages of equal length,
`crc (a ⊕ b) = crc a ⊕ crc b ⊕ crc (0…0)`. -/
theorem crc32c_affine (a b : Bytes) (h : a.length = b.length) :
    crc32c (xorBytes a b) = crc32c a ^^^ crc32c b ^^^ crc32c (List.replicate a.length 0) := by
  unfold crc32c
  rw [← BitVec.toNat_xor, ← BitVec.toNat_xor]
  congr 1
  have h1 := crcRaw_xor a b crcInit crcInit h
  have hl : (xorBytes a b).length = (List.replicate a.length 0).length := by
    rw [xorBytes_length a b h]; simp
  have h2 := crcRaw_xor (xorBytes a b) (List.replicate a.length 0) (crcInit ^^^ crcInit) crcInit hl
  rw [h1] at h2
  have hz : xorBytes (xorBytes a b) (List.replicate a.length 0) = xorBytes a b := by
    have := xorBytes_zero (xorBytes a b)
    rw [xorBytes_length a b h] at this
    exact this
  rw [hz] at h2
  have hi : (crcInit ^^^ crcInit) ^^^ crcInit = crcInit := by simp
  rw [hi] at h2
  rw [h2]
  ext i hi
  simp only [BitVec.getElem_xor]
  cases (crcRaw crcInit a)[i] <;> cases (crcRaw crcInit b)[i] <;>
    cases (crcRaw crcInit (List.replicate a.length 0))[i] <;> cases crcInit[i] <;> rfl

end NoKV.Wal

/-
Lemmas about the WAL framing model: decode ∘ encode, strict prefixes of an encoding, the scan
loop over `encodeAll rs ++ tail`, and `take n (encodeAll rs)`.
-/
import NoKVModel.Wal.Record
import NoKVModel.Wal.Manager

namespace NoKV.Wal

/-- the length field is a `uint32` -/
def RecOK (r : Rec) : Prop := r.payload.length + 1 < 4294967296

theorem rd32_be32 (n : Nat) : rd32 (be32 n) = n % 4294967296 := by
  simp only [rd32, be32, List.foldl_cons, List.foldl_nil]
  omega

theorem be32_length (n : Nat) : (be32 n).length = 4 := rfl

theorem encode_length (crc : Bytes → Nat) (r : Rec) : (encode crc r).length = encLen r := by
  simp [encode, body, encLen, be32_length]; omega

theorem encode_eq (crc : Bytes → Nat) (r : Rec) :
    encode crc r = be32 (r.payload.length + 1) ++ ((r.typ :: r.payload) ++ be32 (crc (r.typ :: r.payload))) := by
  simp [encode, body]

theorem take4_be32_append (n : Nat) (x : Bytes) : (be32 n ++ x).take 4 = be32 n := by
  simp [be32]

theorem drop4_be32_append (n : Nat) (x : Bytes) : (be32 n ++ x).drop 4 = x := by
  simp [be32]

/-- `DecodeRecord` inverts `EncodeRecord`, whatever follows. -/
theorem decodeOne_encode (c : WalCfg) (crc : Bytes → Nat) (r : Rec) (rest : Bytes) (hr : RecOK r) :
    decodeOne c crc (encode crc r ++ rest) = .ok r (r.payload.length + 1) rest := by
  unfold RecOK at hr
  have hlen : (encode crc r ++ rest).length = r.payload.length + 9 + rest.length := by
    simp [encode_length, encLen]
  unfold decodeOne
  rw [if_neg (by omega), if_neg (by omega)]
  have e1 : encode crc r ++ rest =
      be32 (r.payload.length + 1) ++ ((r.typ :: r.payload) ++ (be32 (crc (r.typ :: r.payload)) ++ rest)) := by
    simp [encode_eq]
  rw [e1, take4_be32_append, drop4_be32_append, rd32_be32]
  have hL : (r.payload.length + 1) % 4294967296 = r.payload.length + 1 := Nat.mod_eq_of_lt hr
  rw [hL]
  simp only
  rw [if_neg (by omega)]
  have hb : (r.typ :: r.payload).length = r.payload.length + 1 := by simp
  rw [if_neg (by simp)]
  have ht : ((r.typ :: r.payload) ++ (be32 (crc (r.typ :: r.payload)) ++ rest)).take (r.payload.length + 1)
      = r.typ :: r.payload := by
    rw [List.take_append_of_le_length (by simp)]
    rw [List.take_of_length_le (by simp)]
  have hd : ((r.typ :: r.payload) ++ (be32 (crc (r.typ :: r.payload)) ++ rest)).drop (r.payload.length + 1)
      = be32 (crc (r.typ :: r.payload)) ++ rest := by
    rw [List.drop_append_of_le_length (by simp)]
    rw [List.drop_of_length_le (by simp)]
    simp
  rw [ht, hd, take4_be32_append, drop4_be32_append, rd32_be32]
  rw [if_neg (by simp [be32_length])]
  rw [if_neg (by simp)]
  simp

/-- A strict prefix of one encoding never decodes: nothing, a short header, or a partial record. -/
theorem decodeOne_prefix (c : WalCfg) (crc : Bytes → Nat) (r : Rec) (n : Nat) (hr : RecOK r)
    (hn : n < encLen r) :
    decodeOne c crc ((encode crc r).take n) =
      if n = 0 then .err .eof
      else if n < 4 then (if c.shortHeaderPartial then .err .part else .err .eof)
      else .err .part := by
  unfold RecOK at hr
  unfold encLen at hn
  have hlen : ((encode crc r).take n).length = n := by
    rw [List.length_take, encode_length]; unfold encLen; omega
  unfold decodeOne
  rw [hlen]
  by_cases h0 : n = 0
  · simp [h0]
  · rw [if_neg h0, if_neg h0]
    by_cases h4 : n < 4
    · rw [if_pos h4, if_pos h4]
    · rw [if_neg h4, if_neg h4]
      have ht : ((encode crc r).take n).take 4 = be32 (r.payload.length + 1) := by
        rw [List.take_take, Nat.min_eq_left (by omega), encode_eq, take4_be32_append]
      rw [ht, rd32_be32, Nat.mod_eq_of_lt hr]
      simp only
      rw [if_neg (by omega)]
      have hd : (((encode crc r).take n).drop 4).length = n - 4 := by
        rw [List.length_drop, hlen]
      rw [hd]
      by_cases hb : n - 4 < r.payload.length + 1
      · rw [if_pos hb]
      · rw [if_neg hb]
        have hd2 : ((((encode crc r).take n).drop 4).drop (r.payload.length + 1)).length < 4 := by
          rw [List.length_drop, hd]; omega
        rw [if_pos hd2]

theorem decodeOne_ok_rest {c : WalCfg} {crc : Bytes → Nat} {b : Bytes} {r : Rec} {len : Nat} {rest : Bytes}
    (h : decodeOne c crc b = .ok r len rest) : rest.length < b.length := by
  unfold decodeOne at h
  split at h
  · cases h
  · split at h
    · split at h <;> cases h
    · simp only at h
      split at h
      · cases h
      · split at h
        · cases h
        · split at h
          · cases h
          · split at h
            · cases h
            · injection h with _ _ h3
              rw [← h3]
              simp only [List.length_drop]
              omega

theorem scanFuel_irrel (c : WalCfg) (crc : Bytes → Nat) (step : Nat) :
    ∀ (f1 f2 : Nat) (b : Bytes), b.length < f1 → b.length < f2 →
      scanFuel c crc step f1 b = scanFuel c crc step f2 b := by
  intro f1
  induction f1 with
  | zero => intro f2 b h; omega
  | succ k ih =>
    intro f2 b h1 h2
    cases f2 with
    | zero => omega
    | succ m =>
      simp only [scanFuel]
      cases hd : decodeOne c crc b with
      | err e => rfl
      | ok r len rest =>
        have := decodeOne_ok_rest hd
        simp only
        rw [ih m rest (by omega) (by omega)]

theorem scan_nil (c : WalCfg) (crc : Bytes → Nat) (step : Nat) : scan c crc step [] = ([], 0, .eof) := by
  simp [scan, scanFuel, decodeOne]

/-- sum of `Length()+step` over records -/
def offs (step : Nat) : List Rec → Nat
  | [] => 0
  | r :: rs => r.payload.length + 1 + step + offs step rs

theorem scanFuel_succ_encode (c : WalCfg) (crc : Bytes → Nat) (step f : Nat) (r : Rec) (rest : Bytes)
    (hr : RecOK r) :
    scanFuel c crc step (f + 1) (encode crc r ++ rest) =
      (r :: (scanFuel c crc step f rest).1, r.payload.length + 1 + step + (scanFuel c crc step f rest).2.1,
        (scanFuel c crc step f rest).2.2) := by
  simp only [scanFuel, decodeOne_encode c crc r rest hr]

theorem scan_encode_cons (c : WalCfg) (crc : Bytes → Nat) (step : Nat) (r : Rec) (rest : Bytes) (hr : RecOK r) :
    scan c crc step (encode crc r ++ rest) =
      (r :: (scan c crc step rest).1, r.payload.length + 1 + step + (scan c crc step rest).2.1,
        (scan c crc step rest).2.2) := by
  unfold scan
  have hl : (encode crc r ++ rest).length = rest.length + encLen r := by
    simp [encode_length]; omega
  rw [scanFuel_succ_encode c crc step _ r rest hr]
  rw [scanFuel_irrel c crc step (encode crc r ++ rest).length (rest.length + 1) rest
    (by rw [hl]; unfold encLen; omega) (by omega)]

theorem encodeAll_nil (crc : Bytes → Nat) : encodeAll crc [] = [] := rfl

theorem encodeAll_cons (crc : Bytes → Nat) (r : Rec) (rs : List Rec) :
    encodeAll crc (r :: rs) = encode crc r ++ encodeAll crc rs := by
  simp [encodeAll]

theorem encodeAll_append (crc : Bytes → Nat) (a b : List Rec) :
    encodeAll crc (a ++ b) = encodeAll crc a ++ encodeAll crc b := by
  simp [encodeAll]

theorem encodeAll_length (crc : Bytes → Nat) (rs : List Rec) : (encodeAll crc rs).length = offs 8 rs := by
  induction rs with
  | nil => rfl
  | cons r rs ih =>
    rw [encodeAll_cons, List.length_append, encode_length, ih]
    simp [offs, encLen]

/-- The scan loop over complete records followed by any tail. -/
theorem scan_encodeAll (c : WalCfg) (crc : Bytes → Nat) (step : Nat) (rs : List Rec) (tail : Bytes)
    (hr : ∀ r ∈ rs, RecOK r) :
    scan c crc step (encodeAll crc rs ++ tail) =
      (rs ++ (scan c crc step tail).1, offs step rs + (scan c crc step tail).2.1, (scan c crc step tail).2.2) := by
  induction rs with
  | nil => simp [encodeAll_nil, offs]
  | cons r rs ih =>
    have h1 : RecOK r := hr r (by simp)
    have h2 : ∀ x ∈ rs, RecOK x := fun x hx => hr x (by simp [hx])
    rw [encodeAll_cons, List.append_assoc, scan_encode_cons c crc step r _ h1, ih h2]
    simp [offs]; omega

/-- the torn remainder after the records wholly inside the first `n` bytes -/
def torn (crc : Bytes → Nat) (n : Nat) : List Rec → Bytes
  | [] => []
  | r :: rs => if encLen r ≤ n then torn crc (n - encLen r) rs else (encode crc r).take n

theorem take_encodeAll (crc : Bytes → Nat) (rs : List Rec) :
    ∀ n, (encodeAll crc rs).take n = encodeAll crc (wholly n rs) ++ torn crc n rs := by
  induction rs with
  | nil => intro n; simp [encodeAll_nil, wholly, torn]
  | cons r rs ih =>
    intro n
    rw [encodeAll_cons]
    by_cases h : encLen r ≤ n
    · simp only [wholly, torn, if_pos h]
      rw [List.take_append, encode_length, List.take_of_length_le (by rw [encode_length]; exact h), ih,
        encodeAll_cons, List.append_assoc]
    · simp only [wholly, torn, if_neg h]
      rw [List.take_append_of_le_length (by rw [encode_length]; omega)]
      simp [encodeAll_nil]

theorem wholly_ok {rs : List Rec} (hr : ∀ r ∈ rs, RecOK r) : ∀ n, ∀ r ∈ wholly n rs, RecOK r := by
  induction rs with
  | nil => intro n r h; simp [wholly] at h
  | cons x xs ih =>
    intro n r h
    simp only [wholly] at h
    split at h
    · rcases List.mem_cons.mp h with h | h
      · subst h; exact hr _ (by simp)
      · exact ih (fun y hy => hr y (by simp [hy])) _ r h
    · simp at h

/-- Scanning a torn remainder yields no record and ends with EOF or a partial record; with the
repaired short-header rule it ends with EOF only if nothing remains. -/
theorem scan_torn (c : WalCfg) (crc : Bytes → Nat) (step : Nat) (rs : List Rec) (hr : ∀ r ∈ rs, RecOK r) :
    ∀ n, (scan c crc step (torn crc n rs)).1 = [] ∧ (scan c crc step (torn crc n rs)).2.1 = 0 ∧
      (((scan c crc step (torn crc n rs)).2.2 = .eof ∧ (c.shortHeaderPartial = true → torn crc n rs = [])) ∨
        (scan c crc step (torn crc n rs)).2.2 = .part) := by
  induction rs with
  | nil => intro n; simp [torn, scan_nil]
  | cons r rs ih =>
    intro n
    simp only [torn]
    split
    · exact ih (fun y hy => hr y (by simp [hy])) _
    · rename_i h
      have hn : n < encLen r := by omega
      have hd := decodeOne_prefix c crc r n (hr r (by simp)) hn
      unfold scan
      simp only [scanFuel]
      rw [hd]
      by_cases h0 : n = 0
      · subst h0; simp
      · rw [if_neg h0]
        by_cases h4 : n < 4
        · rw [if_pos h4]
          cases hs : c.shortHeaderPartial
          · simp
          · simp
        · rw [if_neg h4]; simp

end NoKV.Wal

namespace NoKV.Wal

theorem torn_length_le (crc : Bytes → Nat) (rs : List Rec) : ∀ n, (torn crc n rs).length ≤ n := by
  induction rs with
  | nil => intro n; simp [torn]
  | cons r rs ih =>
    intro n
    simp only [torn]
    split
    · have := ih (n - encLen r); omega
    · rw [List.length_take]; omega

/-- If the scan of a torn remainder ends with EOF, fewer than 4 bytes remain (nothing, or — under
the pinned short-header rule — a 1–3-byte header fragment). -/
theorem scan_torn_eof_short (c : WalCfg) (crc : Bytes → Nat) (step : Nat) (rs : List Rec) (hr : ∀ r ∈ rs, RecOK r) :
    ∀ n, (scan c crc step (torn crc n rs)).2.2 = .eof → (torn crc n rs).length < 4 := by
  induction rs with
  | nil => intro n _; simp [torn]
  | cons r rs ih =>
    intro n
    simp only [torn]
    split
    · exact ih (fun y hy => hr y (by simp [hy])) _
    · rename_i h
      have hn : n < encLen r := by omega
      have hd := decodeOne_prefix c crc r n (hr r (by simp)) hn
      have hl : ((encode crc r).take n).length = n := by
        rw [List.length_take, encode_length]; omega
      unfold scan
      simp only [scanFuel]
      rw [hd, hl]
      by_cases h0 : n = 0
      · intro _; omega
      · rw [if_neg h0]
        by_cases h4 : n < 4
        · intro _; exact h4
        · rw [if_neg h4]; intro he; cases he

end NoKV.Wal

/-
Entry-record lemmas: the varint header of an entry is decoded from a prefix of the input only,
so a substitution behind the header leaves the decoded lengths unchanged; lifted to
`DecodeValueSlice`.
-/
import NoKVModel.Wal.Entry
import NoKVModel.Wal.FlipLemmas

namespace NoKV.Wal

theorem uvGo_ok_gt : ∀ (b : Bytes) (i mul x v n : Nat), uvGo i mul x b = .ok v n → i < n ∧ n ≤ i + b.length := by
  intro b
  induction b with
  | nil =>
    intro i mul x v n h
    unfold uvGo at h
    split at h <;> simp at h
  | cons y ys ih =>
    intro i mul x v n h
    unfold uvGo at h
    split at h
    · simp at h
    · simp only at h
      split at h
      · split at h
        · simp at h
        · injection h with h1 h2
          simp only [List.length_cons]; omega
      · have := ih _ _ _ _ _ h
        simp only [List.length_cons]; omega

/-- the varint reader looks only at the bytes it consumes -/
theorem uvGo_prefix : ∀ (a : Bytes) (i mul x v n : Nat) (t t' : Bytes),
    uvGo i mul x (a ++ t) = .ok v n → n ≤ i + a.length → uvGo i mul x (a ++ t') = .ok v n := by
  intro a
  induction a with
  | nil =>
    intro i mul x v n t t' h hn
    have := (uvGo_ok_gt _ _ _ _ _ _ h).1
    simp at hn; omega
  | cons y ys ih =>
    intro i mul x v n t t' h hn
    simp only [List.cons_append] at h ⊢
    unfold uvGo at h ⊢
    split at h
    · simp at h
    · rename_i hi
      rw [if_neg hi]
      simp only at h ⊢
      split at h
      · rename_i hy
        rw [if_pos hy]
        exact h
      · rename_i hy
        rw [if_neg hy]
        exact ih _ _ _ _ _ t t' h (by simp only [List.length_cons] at hn; omega)

theorem uvarint_prefix (a t t' : Bytes) (v n : Nat) (h : uvarint (a ++ t) = .ok v n) (hn : n ≤ a.length) :
    uvarint (a ++ t') = .ok v n := by
  unfold uvarint at h ⊢
  exact uvGo_prefix a 0 1 0 v n t t' h (by omega)

theorem uvarint_ok_le (b : Bytes) (v n : Nat) (h : uvarint b = .ok v n) : n ≤ b.length := by
  unfold uvarint at h
  have := (uvGo_ok_gt _ _ _ _ _ _ h).2
  omega

theorem drop_append_le (a t : Bytes) (k : Nat) (h : k ≤ a.length) : (a ++ t).drop k = a.drop k ++ t :=
  List.drop_append_of_le_length h

/-- the entry header reader looks only at the header bytes -/
theorem decodeHdr_prefix (a t t' : Bytes) (h : EHdr) (idx : Nat)
    (hd : decodeHdr (a ++ t) = .ok h idx) (hidx : idx ≤ a.length) :
    decodeHdr (a ++ t') = .ok h idx := by
  unfold decodeHdr at hd ⊢
  cases h1 : uvarint (a ++ t) with
  | short i => rw [h1] at hd; simp only at hd; split at hd <;> cases hd
  | overflow => rw [h1] at hd; cases hd
  | ok k n1 =>
    rw [h1] at hd; simp only at hd
    cases h2 : uvarint ((a ++ t).drop n1) with
    | short i => rw [h2] at hd; cases hd
    | overflow => rw [h2] at hd; cases hd
    | ok v n2 =>
      rw [h2] at hd; simp only at hd
      cases h3 : uvarint ((a ++ t).drop (n1 + n2)) with
      | short i => rw [h3] at hd; cases hd
      | overflow => rw [h3] at hd; cases hd
      | ok m n3 =>
        rw [h3] at hd; simp only at hd
        split at hd
        · cases hd
        · rename_i hm
          cases h4 : uvarint ((a ++ t).drop (n1 + n2 + n3)) with
          | short i => rw [h4] at hd; cases hd
          | overflow => rw [h4] at hd; cases hd
          | ok e n4 =>
            rw [h4] at hd; simp only at hd
            injection hd with hh hi
            have l1 : n1 ≤ a.length := by omega
            have l2 : n1 + n2 ≤ a.length := by omega
            have l3 : n1 + n2 + n3 ≤ a.length := by omega
            rw [drop_append_le a t n1 l1] at h2
            rw [drop_append_le a t (n1 + n2) l2] at h3
            rw [drop_append_le a t (n1 + n2 + n3) l3] at h4
            have b2 := uvarint_ok_le _ _ _ h2
            have b3 := uvarint_ok_le _ _ _ h3
            have b4 := uvarint_ok_le _ _ _ h4
            have e1 := uvarint_prefix a t t' k n1 h1 l1
            have e2 := uvarint_prefix (a.drop n1) t t' v n2 h2 (by simp only [List.length_drop]; omega)
            have e3 := uvarint_prefix (a.drop (n1 + n2)) t t' m n3 h3 (by simp only [List.length_drop]; omega)
            have e4 := uvarint_prefix (a.drop (n1 + n2 + n3)) t t' e n4 h4 (by simp only [List.length_drop]; omega)
            rw [e1]; simp only
            rw [drop_append_le a t' n1 l1, e2]; simp only
            rw [drop_append_le a t' (n1 + n2) l2, e3]; simp only
            rw [if_neg hm, drop_append_le a t' (n1 + n2 + n3) l3, e4]
            simp only
            rw [hh, hi]

theorem take_subst_lt (a s : Bytes) (x : Nat) (pe : Nat) (h : a.length < pe) :
    (a ++ x :: s).take pe = a ++ x :: s.take (pe - a.length - 1) := by
  obtain ⟨k, rfl⟩ : ∃ k, pe = a.length + (k + 1) := ⟨pe - a.length - 1, by omega⟩
  rw [List.take_append, List.take_of_length_le (by omega)]
  have e1 : a.length + (k + 1) - a.length = k + 1 := by omega
  rw [e1]; simp

theorem drop_subst_lt (a s : Bytes) (x : Nat) (pe : Nat) (h : a.length < pe) :
    (a ++ x :: s).drop pe = s.drop (pe - a.length - 1) := by
  obtain ⟨k, rfl⟩ : ∃ k, pe = a.length + (k + 1) := ⟨pe - a.length - 1, by omega⟩
  rw [List.drop_append, List.drop_of_length_le (by omega)]
  have e1 : a.length + (k + 1) - a.length = k + 1 := by omega
  rw [e1]; simp

/-- `DecodeValueSlice`: a valid entry with one byte behind its varint header (key, value or
stored CRC) replaced by a different byte decodes to `ErrBadChecksum`. -/
theorem decodeSlice_subst (ec : EntCfg) (hc : ec.sliceCrcChecked = true) (a s : Bytes) (x x' : Nat)
    (hx : x < 256) (hx' : x' < 256) (hne : x ≠ x') (h : EHdr) (idx : Nat) (v : Bytes)
    (hd : decodeHdr (a ++ x :: s) = .ok h idx) (hidx : idx ≤ a.length)
    (hpos : a.length < idx + h.klen + h.vlen + 4)
    (hvalid : decodeSlice ec crc32c (a ++ x :: s) = .ok v h) :
    decodeSlice ec crc32c (a ++ x' :: s) = .err .badcrc := by
  have hd' := decodeHdr_prefix a (x :: s) (x' :: s) h idx hd hidx
  unfold decodeSlice at hvalid ⊢
  rw [hd] at hvalid
  rw [hd']
  simp only at hvalid ⊢
  have hlen : (a ++ x' :: s).length = (a ++ x :: s).length := by simp
  rw [hlen]
  split at hvalid
  · cases hvalid
  · rename_i hl
    rw [if_neg hl]
    split at hvalid
    · cases hvalid
    · rename_i hcrc
      rw [if_pos]
      refine ⟨hc, ?_⟩
      have hstored : rd32 (((a ++ x :: s).drop (idx + h.klen + h.vlen)).take 4)
          = crc32c ((a ++ x :: s).take (idx + h.klen + h.vlen)) % 4294967296 := by
        by_cases he : rd32 (((a ++ x :: s).drop (idx + h.klen + h.vlen)).take 4)
            = crc32c ((a ++ x :: s).take (idx + h.klen + h.vlen)) % 4294967296
        · exact he
        · exact absurd ⟨hc, he⟩ hcrc
      rw [Nat.mod_eq_of_lt (crc32c_lt _)] at hstored ⊢
      by_cases hcase : a.length < idx + h.klen + h.vlen
      · rw [take_subst_lt a s x' _ hcase, drop_subst_lt a s x' _ hcase]
        rw [take_subst_lt a s x _ hcase, drop_subst_lt a s x _ hcase] at hstored
        rw [hstored]
        exact crc32c_subst a _ hx hx' hne
      · have hle : idx + h.klen + h.vlen ≤ a.length := by omega
        rw [List.take_append_of_le_length hle, List.drop_append_of_le_length hle]
        rw [List.take_append_of_le_length hle, List.drop_append_of_le_length hle] at hstored
        rw [← hstored]
        have hk : (a.drop (idx + h.klen + h.vlen)).length < 4 := by
          rw [List.length_drop]; omega
        rw [take_subst_lt _ s x' 4 hk, take_subst_lt _ s x 4 hk]
        exact fun he => rd32_subst _ _ x x' hne he.symm

/-- `DecodeEntryFrom` (stream decoder behind `EntryIterator` / `vlog.Manager.Iterate`): a valid
entry with one byte behind its varint header replaced by a different byte is rejected with
`ErrBadChecksum`. -/
theorem decodeStream_subst (ec : EntCfg) (hc : ec.streamCrcChecked = true) (a s : Bytes) (x x' : Nat)
    (hx : x < 256) (hx' : x' < 256) (hne : x ≠ x') (h : EHdr) (idx : Nat) (e : Entry) (n : Nat) (rest : Bytes)
    (hd : decodeHdr (a ++ x :: s) = .ok h idx) (hidx : idx ≤ a.length)
    (hpos : a.length < idx + h.klen + h.vlen + 4)
    (hvalid : decodeStream ec crc32c (a ++ x :: s) = .ok e n rest) :
    decodeStream ec crc32c (a ++ x' :: s) = .err .badcrc := by
  have hd' := decodeHdr_prefix a (x :: s) (x' :: s) h idx hd hidx
  unfold decodeStream at hvalid ⊢
  rw [hd] at hvalid
  rw [hd']
  simp only [List.drop_drop, List.length_drop] at hvalid ⊢
  have hlen : (a ++ x' :: s).length = (a ++ x :: s).length := by simp
  rw [hlen]
  split at hvalid
  · cases hvalid
  · rename_i h1
    rw [if_neg h1]
    split at hvalid
    · cases hvalid
    · rename_i h2
      rw [if_neg h2]
      split at hvalid
      · cases hvalid
      · rename_i h3
        rw [if_neg h3]
        split at hvalid
        · cases hvalid
        · rename_i hcrc
          rw [if_pos]
          refine ⟨hc, ?_⟩
          have hstored : rd32 (((a ++ x :: s).drop (idx + h.klen + h.vlen)).take 4)
              = crc32c ((a ++ x :: s).take (idx + h.klen + h.vlen)) % 4294967296 := by
            by_cases he : rd32 (((a ++ x :: s).drop (idx + h.klen + h.vlen)).take 4)
                = crc32c ((a ++ x :: s).take (idx + h.klen + h.vlen)) % 4294967296
            · exact he
            · exact absurd ⟨hc, he⟩ hcrc
          rw [Nat.mod_eq_of_lt (crc32c_lt _)] at hstored ⊢
          by_cases hcase : a.length < idx + h.klen + h.vlen
          · rw [take_subst_lt a s x' _ hcase, drop_subst_lt a s x' _ hcase]
            rw [take_subst_lt a s x _ hcase, drop_subst_lt a s x _ hcase] at hstored
            rw [hstored]
            exact crc32c_subst a _ hx hx' hne
          · have hle : idx + h.klen + h.vlen ≤ a.length := by omega
            rw [List.take_append_of_le_length hle, List.drop_append_of_le_length hle]
            rw [List.take_append_of_le_length hle, List.drop_append_of_le_length hle] at hstored
            rw [← hstored]
            have hk : (a.drop (idx + h.klen + h.vlen)).length < 4 := by
              rw [List.length_drop]; omega
            rw [take_subst_lt _ s x' 4 hk, take_subst_lt _ s x 4 hk]
            exact fun he => rd32_subst _ _ x x' hne he.symm

theorem iterEntries_of_err (ec : EntCfg) (crc : Bytes → Nat) (b : Bytes) (e : EErr)
    (h : decodeStream ec crc b = .err e) : iterEntries ec crc b = ([], e) := by
  unfold iterEntries
  simp only [iterFuel, h]

end NoKV.Wal

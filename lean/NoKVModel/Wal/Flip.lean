/-
The fault of C14: one bit of one byte is inverted.  Core Lean only (used by the driver).
-/
import NoKVModel.Base.Bytes

namespace NoKV.Wal

/-- invert bit `k` of the byte value `x` -/
def flipByte (x k : Nat) : Nat :=
  if x / 2 ^ k % 2 = 1 then x - 2 ^ k else x + 2 ^ k

/-- invert bit `bit % 8` of byte `bit / 8` of `b` (no-op past the end) -/
def flipBitAt (b : Bytes) (bit : Nat) : Bytes :=
  b.take (bit / 8) ++ (match b.drop (bit / 8) with
    | [] => []
    | x :: xs => flipByte x (bit % 8) :: xs)

end NoKV.Wal

/-
WAL record framing — model of `wal/record.go` (EncodeRecord / DecodeRecord) and of the scan
loops of `wal/manager.go` (`verifySegment`, `replayFile`) over one segment's bytes.

    | length (4B BE) = 1 + len(payload) | type (1B) | payload | crc32c(type+payload) (4B BE) |

Core Lean only.  `crc` is a parameter: the C13 theorems hold for every checksum function
(torn tails are detected by length alone); the driver and C14 instantiate it with `crc32c`.
-/
import NoKVModel.Base.Bytes
import NoKVModel.Base.Cfg

namespace NoKV.Wal

/-- Decisions read off the Go source by `extract/cmd/wal`. -/
structure WalCfg where
  /-- `DecodeRecord`: a header read that ends after 1–3 bytes (`io.ErrUnexpectedEOF`) is
      reported as `ErrPartialRecord` (good) instead of `io.EOF` (pinned tree). -/
  shortHeaderPartial : Bool
  /-- `verifySegment`: `case utils.ErrPartialRecord: return f.Truncate(offset)` -/
  verifyTruncPartial : Bool
  /-- `verifySegment`: the offset advances by `Length() + verifyStep` per record (8) -/
  verifyStep : Nat
  /-- `replayFile`: `case utils.ErrPartialRecord: return nil` -/
  replayPartialOk : Bool
  /-- `DecodeRecord`: `if expected != sum { return ErrBadChecksum }` present -/
  crcChecked : Bool
  deriving DecidableEq, Repr

def WalCfg.good : WalCfg :=
  { shortHeaderPartial := true, verifyTruncPartial := true, verifyStep := 8,
    replayPartialOk := true, crcChecked := true }

/-- what replay needs: a partial tail ends the segment silently -/
def WalCfg.ReplayGood (c : WalCfg) : Prop := c.replayPartialOk = true
instance WalCfg.decReplayGood (c : WalCfg) : Decidable c.ReplayGood := by
  unfold WalCfg.ReplayGood; exact inferInstance

/-- what verify/reopen needs in addition: every torn tail is truncated at the right offset -/
def WalCfg.Good (c : WalCfg) : Prop :=
  c.replayPartialOk = true ∧ c.shortHeaderPartial = true ∧ c.verifyTruncPartial = true ∧ c.verifyStep = 8
instance WalCfg.decGood (c : WalCfg) : Decidable c.Good := by
  unfold WalCfg.Good; exact inferInstance

/-- what C14 needs: the checksum comparison exists -/
def WalCfg.CrcGood (c : WalCfg) : Prop := c.crcChecked = true
instance WalCfg.decCrcGood (c : WalCfg) : Decidable c.CrcGood := by
  unfold WalCfg.CrcGood; exact inferInstance

structure Rec where
  typ : Nat
  payload : Bytes
  deriving DecidableEq, Repr

/-- `binary.BigEndian.PutUint32` of `uint32(n)` -/
def be32 (n : Nat) : Bytes := [n / 16777216 % 256, n / 65536 % 256, n / 256 % 256, n % 256]

/-- `binary.BigEndian.Uint32` (of a 4-byte slice) -/
def rd32 (b : Bytes) : Nat := b.foldl (fun acc x => acc * 256 + x) 0

def body (r : Rec) : Bytes := r.typ :: r.payload

/-- `EncodeRecord` -/
def encode (crc : Bytes → Nat) (r : Rec) : Bytes :=
  be32 (r.payload.length + 1) ++ body r ++ be32 (crc (body r))

/-- bytes `EncodeRecord` writes for `r` -/
def encLen (r : Rec) : Nat := r.payload.length + 9

def encodeAll (crc : Bytes → Nat) (rs : List Rec) : Bytes := (rs.map (encode crc)).flatten

inductive DErr where
  | eof | part | empty | badcrc
  deriving DecidableEq, Repr

inductive DRes where
  | ok (r : Rec) (len : Nat) (rest : Bytes)
  | err (e : DErr)
  deriving DecidableEq, Repr

/-- `DecodeRecord` on the unread bytes `b` of a segment -/
def decodeOne (c : WalCfg) (crc : Bytes → Nat) (b : Bytes) : DRes :=
  if b.length = 0 then .err .eof
  else if b.length < 4 then (if c.shortHeaderPartial then .err .part else .err .eof)
  else
    let len := rd32 (b.take 4)
    let b1 := b.drop 4
    if len = 0 then .err .empty
    else if b1.length < len then .err .part
    else
      let bd := b1.take len
      let b2 := b1.drop len
      if b2.length < 4 then .err .part
      else if c.crcChecked ∧ rd32 (b2.take 4) ≠ crc bd % 4294967296 then .err .badcrc
      else .ok ⟨bd.headD 0, bd.tail⟩ len (b2.drop 4)

/-- The `for reIter.Next()` loop: decoded records, accumulated offset (`+= Length()+step`),
terminal error.  `fuel` bounds the number of records (each consumes ≥ 9 bytes). -/
def scanFuel (c : WalCfg) (crc : Bytes → Nat) (step : Nat) : Nat → Bytes → List Rec × Nat × DErr
  | 0, _ => ([], 0, .eof)
  | f + 1, b =>
    match decodeOne c crc b with
    | .ok r len rest =>
      let t := scanFuel c crc step f rest
      (r :: t.1, len + step + t.2.1, t.2.2)
    | .err e => ([], 0, e)

def scan (c : WalCfg) (crc : Bytes → Nat) (step : Nat) (b : Bytes) : List Rec × Nat × DErr :=
  scanFuel c crc step (b.length + 1) b

end NoKV.Wal

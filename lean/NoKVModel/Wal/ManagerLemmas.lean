/-
Lemmas about the WAL directory model: the ghost segmentation `g` (records per segment, newest
first), the invariant `Clean`, its preservation by append/rotate, replay of a clean directory,
replay after a cut, VerifyDir after a cut.
-/
import NoKVModel.Wal.RecordLemmas

namespace NoKV.Wal

/-- records of a newest-first segmentation in append order (`= g.reverse.flatten`) -/
def flatR : List (List Rec) → List Rec
  | [] => []
  | x :: xs => flatR xs ++ x

theorem flatR_eq (g : List (List Rec)) : flatR g = g.reverse.flatten := by
  induction g with
  | nil => rfl
  | cons x xs ih => simp [flatR, ih]

/-- every segment file is exactly the encoding of its records (`g`: records per segment, newest first) -/
def Clean (crc : Bytes → Nat) (segs : List Seg) (g : List (List Rec)) : Prop :=
  segs.map (·.data) = g.map (encodeAll crc) ∧ ∀ rs ∈ g, ∀ r ∈ rs, RecOK r

theorem replaySeg_clean_tail (c : WalCfg) (hc : c.replayPartialOk = true) (crc : Bytes → Nat) (id : Nat)
    (rs : List Rec) (hr : ∀ r ∈ rs, RecOK r) (n : Nat) (all : List Rec) (ha : ∀ r ∈ all, RecOK r) :
    replaySeg c crc ⟨id, encodeAll crc rs ++ torn crc n all⟩ = (rs, .ok) := by
  unfold replaySeg
  simp only
  rw [scan_encodeAll c crc 8 rs _ hr]
  obtain ⟨h1, _, h3⟩ := scan_torn c crc 8 all ha n
  rw [h1]
  rcases h3 with ⟨h3, _⟩ | h3
  · rw [h3]; simp [Status.ofErr]
  · rw [h3]; simp [hc]

theorem replaySeg_clean (c : WalCfg) (crc : Bytes → Nat) (id : Nat) (rs : List Rec) (hr : ∀ r ∈ rs, RecOK r) :
    replaySeg c crc ⟨id, encodeAll crc rs⟩ = (rs, .ok) := by
  unfold replaySeg
  simp only
  have := scan_encodeAll c crc 8 rs [] hr
  rw [List.append_nil] at this
  rw [this, scan_nil]
  simp [Status.ofErr]

theorem replaySegs_clean (c : WalCfg) (crc : Bytes → Nat) :
    ∀ (segs : List Seg) (g : List (List Rec)), Clean crc segs g → replaySegs c crc segs = (flatR g, .ok) := by
  intro segs
  induction segs with
  | nil =>
    intro g h
    cases g with
    | nil => rfl
    | cons x xs => simp [Clean] at h
  | cons s older ih =>
    intro g h
    cases g with
    | nil => simp [Clean] at h
    | cons g0 gs =>
      obtain ⟨hm, hok⟩ := h
      simp only [List.map_cons, List.cons.injEq] at hm
      have hold : Clean crc older gs := ⟨hm.2, fun rs hrs => hok rs (by simp [hrs])⟩
      simp only [replaySegs, ih gs hold]
      have hs : s = ⟨s.id, encodeAll crc g0⟩ := by cases s; simp_all
      rw [hs, replaySeg_clean c crc s.id g0 (hok g0 (by simp))]
      simp [flatR]

/-- **Replay after a cut of the newest segment.** -/
theorem replaySegs_cut (c : WalCfg) (hc : c.replayPartialOk = true) (crc : Bytes → Nat)
    (s : Seg) (older : List Seg) (g0 : List Rec) (gs : List (List Rec)) (h : Clean crc (s :: older) (g0 :: gs))
    (n : Nat) :
    replaySegs c crc (cutHead n (s :: older)) = (flatR gs ++ wholly n g0, .ok) := by
  obtain ⟨hm, hok⟩ := h
  simp only [List.map_cons, List.cons.injEq] at hm
  have hold : Clean crc older gs := ⟨hm.2, fun rs hrs => hok rs (by simp [hrs])⟩
  simp only [cutHead, replaySegs, replaySegs_clean c crc older gs hold]
  rw [hm.1, take_encodeAll]
  have h0 : ∀ r ∈ g0, RecOK r := hok g0 (by simp)
  rw [replaySeg_clean_tail c hc crc s.id (wholly n g0) (wholly_ok h0 n) n g0 h0]
  simp

theorem clean_append (crc : Bytes → Nat) (segSize : Nat) (s : Seg) (older : List Seg) (g0 : List Rec)
    (gs : List (List Rec)) (h : Clean crc (s :: older) (g0 :: gs)) (r : Rec) (hr : RecOK r) :
    ∃ g0' gs', Clean crc (appendRec crc segSize (s :: older) r) (g0' :: gs') ∧
      flatR (g0' :: gs') = flatR (g0 :: gs) ++ [r] ∧
      ∃ s' older', appendRec crc segSize (s :: older) r = s' :: older' := by
  obtain ⟨hm, hok⟩ := h
  simp only [List.map_cons, List.cons.injEq] at hm
  simp only [appendRec]
  split
  · refine ⟨g0 ++ [r], gs, ⟨?_, ?_⟩, ?_, _, _, rfl⟩
    · simp [hm.1, hm.2, encodeAll_append, encodeAll_cons, encodeAll_nil]
    · intro rs hrs x hx
      rcases List.mem_cons.mp hrs with h1 | h1
      · subst h1
        rcases List.mem_append.mp hx with h2 | h2
        · exact hok g0 (by simp) x h2
        · simp at h2; subst h2; exact hr
      · exact hok rs (by simp [h1]) x hx
    · simp [flatR]
  · refine ⟨[r], g0 :: gs, ⟨?_, ?_⟩, ?_, _, _, rfl⟩
    · simp [hm.1, hm.2, encodeAll_cons, encodeAll_nil]
    · intro rs hrs x hx
      rcases List.mem_cons.mp hrs with h1 | h1
      · subst h1; simp at hx; subst hx; exact hr
      · exact hok rs h1 x hx
    · simp [flatR]

theorem clean_rotate (crc : Bytes → Nat) (s : Seg) (older : List Seg) (g0 : List Rec)
    (gs : List (List Rec)) (h : Clean crc (s :: older) (g0 :: gs)) :
    Clean crc (rotate (s :: older)) ([] :: g0 :: gs) := by
  obtain ⟨hm, hok⟩ := h
  refine ⟨?_, ?_⟩
  · simp only [rotate, List.map_cons] at hm ⊢
    rw [hm]; simp [encodeAll_nil]
  · intro rs hrs x hx
    rcases List.mem_cons.mp hrs with h1 | h1
    · subst h1; simp at hx
    · exact hok rs h1 x hx

/-- Appends and rotations keep the directory clean and add exactly the appended records. -/
theorem runOps_clean (crc : Bytes → Nat) (segSize : Nat) :
    ∀ (ops : List Op) (s : Seg) (older : List Seg) (g0 : List Rec) (gs : List (List Rec)),
      Clean crc (s :: older) (g0 :: gs) → (∀ r ∈ appended ops, RecOK r) →
      ∃ s' older' g0' gs', runOps crc segSize (s :: older) ops = s' :: older' ∧
        Clean crc (s' :: older') (g0' :: gs') ∧ flatR (g0' :: gs') = flatR (g0 :: gs) ++ appended ops := by
  intro ops
  induction ops with
  | nil =>
    intro s older g0 gs h _
    exact ⟨s, older, g0, gs, rfl, h, by simp [appended]⟩
  | cons op ops ih =>
    intro s older g0 gs h hr
    cases op with
    | append r =>
      have hr1 : RecOK r := hr r (by simp [appended])
      have hr2 : ∀ x ∈ appended ops, RecOK x := fun x hx => hr x (by simp [appended, hx])
      obtain ⟨g0', gs', hc, hf, s', older', he⟩ := clean_append crc segSize s older g0 gs h r hr1
      rw [he] at hc
      obtain ⟨s2, o2, g2, gs2, e2, c2, f2⟩ := ih s' older' g0' gs' hc hr2
      refine ⟨s2, o2, g2, gs2, ?_, c2, ?_⟩
      · simp only [runOps, List.foldl_cons, stepOp]
        rw [he]; exact e2
      · rw [f2, hf]; simp [appended]
    | rotate =>
      have hr2 : ∀ x ∈ appended ops, RecOK x := fun x hx => hr x (by simp [appended, hx])
      have hc := clean_rotate crc s older g0 gs h
      obtain ⟨s2, o2, g2, gs2, e2, c2, f2⟩ := ih ⟨s.id + 1, []⟩ (s :: older) [] (g0 :: gs) hc hr2
      refine ⟨s2, o2, g2, gs2, ?_, c2, ?_⟩
      · simp only [runOps, List.foldl_cons, stepOp, rotate]
        exact e2
      · rw [f2]; simp [appended, flatR]

theorem clean_fresh (crc : Bytes → Nat) : Clean crc (openSegs []) [[]] := by
  refine ⟨by simp [openSegs, encodeAll_nil], ?_⟩
  intro rs hrs x hx
  simp at hrs; subst hrs; simp at hx

theorem verifySeg_clean (c : WalCfg) (crc : Bytes → Nat) (id : Nat) (rs : List Rec) (hr : ∀ r ∈ rs, RecOK r) :
    verifySeg c crc ⟨id, encodeAll crc rs⟩ = (⟨id, encodeAll crc rs⟩, .ok) := by
  unfold verifySeg
  simp only
  have := scan_encodeAll c crc c.verifyStep rs [] hr
  rw [List.append_nil] at this
  rw [this, scan_nil]
  simp [Status.ofErr]

theorem verifySegs_clean (c : WalCfg) (crc : Bytes → Nat) :
    ∀ (segs : List Seg) (g : List (List Rec)), Clean crc segs g → verifySegs c crc segs = (segs, .ok) := by
  intro segs
  induction segs with
  | nil => intro g _; rfl
  | cons s older ih =>
    intro g h
    cases g with
    | nil => simp [Clean] at h
    | cons g0 gs =>
      obtain ⟨hm, hok⟩ := h
      simp only [List.map_cons, List.cons.injEq] at hm
      have hold : Clean crc older gs := ⟨hm.2, fun rs hrs => hok rs (by simp [hrs])⟩
      simp only [verifySegs, ih gs hold]
      have hs : s = ⟨s.id, encodeAll crc g0⟩ := by cases s; simp_all
      rw [hs, verifySeg_clean c crc s.id g0 (hok g0 (by simp))]
      simp

/-- **VerifyDir after a cut** (good configuration): the newest segment is truncated to exactly
the records wholly before the cut; the directory is clean again. -/
theorem verifySegs_cut (c : WalCfg) (hc : c.Good) (crc : Bytes → Nat)
    (s : Seg) (older : List Seg) (g0 : List Rec) (gs : List (List Rec)) (h : Clean crc (s :: older) (g0 :: gs))
    (n : Nat) :
    ∃ s', verifySegs c crc (cutHead n (s :: older)) = (s' :: older, .ok) ∧
      Clean crc (s' :: older) (wholly n g0 :: gs) := by
  obtain ⟨_, hsh, htr, hst⟩ := hc
  obtain ⟨hm, hok⟩ := h
  simp only [List.map_cons, List.cons.injEq] at hm
  have hold : Clean crc older gs := ⟨hm.2, fun rs hrs => hok rs (by simp [hrs])⟩
  have h0 : ∀ r ∈ g0, RecOK r := hok g0 (by simp)
  have hw := wholly_ok h0 n
  simp only [cutHead, verifySegs, verifySegs_clean c crc older gs hold]
  rw [hm.1, take_encodeAll]
  refine ⟨⟨s.id, encodeAll crc (wholly n g0)⟩, ?_, ⟨by simp [hm.2], ?_⟩⟩
  · unfold verifySeg
    simp only
    rw [scan_encodeAll c crc c.verifyStep (wholly n g0) _ hw]
    obtain ⟨_, h2, h3⟩ := scan_torn c crc c.verifyStep g0 h0 n
    rw [h2]
    rcases h3 with ⟨h3, h4⟩ | h3
    · rw [h3, h4 hsh]; simp [Status.ofErr]
    · rw [h3, hst, htr]
      simp only [if_true, Nat.add_zero]
      rw [← encodeAll_length crc, List.take_append_of_le_length (Nat.le_refl _), List.take_of_length_le (Nat.le_refl _)]
  · intro rs hrs x hx
    rcases List.mem_cons.mp hrs with h1 | h1
    · subst h1; exact hw x hx
    · exact hok rs (by simp [h1]) x hx

end NoKV.Wal

namespace NoKV.Wal

theorem encodeAll_length' (crc : Bytes → Nat) (rs : List Rec) : (encodeAll crc rs).length = encLenAll rs := by
  induction rs with
  | nil => rfl
  | cons r rs ih => rw [encodeAll_cons, List.length_append, encode_length, ih]; rfl

/-- `verifySegs_cut` for any short-header rule, provided the cut does not leave a 1–3-byte
header fragment (or the rule is the repaired one). -/
theorem verifySegs_cut_gen (c : WalCfg) (hst : c.verifyStep = 8) (htr : c.verifyTruncPartial = true)
    (crc : Bytes → Nat)
    (s : Seg) (older : List Seg) (g0 : List Rec) (gs : List (List Rec)) (h : Clean crc (s :: older) (g0 :: gs))
    (n : Nat)
    (hfrag : c.shortHeaderPartial = true ∨ (torn crc n g0).length = 0 ∨ 4 ≤ (torn crc n g0).length) :
    ∃ s', verifySegs c crc (cutHead n (s :: older)) = (s' :: older, .ok) ∧
      Clean crc (s' :: older) (wholly n g0 :: gs) := by
  obtain ⟨hm, hok⟩ := h
  simp only [List.map_cons, List.cons.injEq] at hm
  have hold : Clean crc older gs := ⟨hm.2, fun rs hrs => hok rs (by simp [hrs])⟩
  have h0 : ∀ r ∈ g0, RecOK r := hok g0 (by simp)
  have hw := wholly_ok h0 n
  simp only [cutHead, verifySegs, verifySegs_clean c crc older gs hold]
  rw [hm.1, take_encodeAll]
  refine ⟨⟨s.id, encodeAll crc (wholly n g0)⟩, ?_, ⟨by simp [hm.2], ?_⟩⟩
  · unfold verifySeg
    simp only
    rw [scan_encodeAll c crc c.verifyStep (wholly n g0) _ hw]
    obtain ⟨_, h2, h3⟩ := scan_torn c crc c.verifyStep g0 h0 n
    have hshort := scan_torn_eof_short c crc c.verifyStep g0 h0 n
    rw [h2]
    rcases h3 with ⟨h3, h4⟩ | h3
    · have hnil : torn crc n g0 = [] := by
        rcases hfrag with hf | hf | hf
        · exact h4 hf
        · exact List.eq_nil_of_length_eq_zero hf
        · have := hshort h3; omega
      rw [h3, hnil]; simp [Status.ofErr]
    · rw [h3, hst, htr]
      simp only [if_true, Nat.add_zero]
      rw [← encodeAll_length crc, List.take_append_of_le_length (Nat.le_refl _), List.take_of_length_le (Nat.le_refl _)]
  · intro rs hrs x hx
    rcases List.mem_cons.mp hrs with h1 | h1
    · subst h1; exact hw x hx
    · exact hok rs (by simp [h1]) x hx

/-- one step of a history keeps model and specification in step -/
theorem clean_stepX (c : WalCfg) (hc : c.Good) (crc : Bytes → Nat) (segSize : Nat)
    (s : Seg) (older : List Seg) (g0 : List Rec) (gs : List (List Rec)) (h : Clean crc (s :: older) (g0 :: gs))
    (x : XOp) (hx : ∀ r ∈ appendedX [x], RecOK r) :
    ∃ s' older' g0' gs', stepX c crc segSize (s :: older) x = s' :: older' ∧
      gStep segSize (g0 :: gs) x = g0' :: gs' ∧ Clean crc (s' :: older') (g0' :: gs') := by
  cases x with
  | op o =>
    cases o with
    | append r =>
      have hr : RecOK r := hx r (by simp [appendedX])
      obtain ⟨hm, hok⟩ := h
      simp only [List.map_cons, List.cons.injEq] at hm
      have hlen : s.data.length = encLenAll g0 := by rw [hm.1, encodeAll_length']
      simp only [stepX, stepOp, appendRec, gStep, hlen]
      split
      · refine ⟨_, _, _, _, rfl, rfl, ⟨?_, ?_⟩⟩
        · simp [hm.1, hm.2, encodeAll_append, encodeAll_cons, encodeAll_nil]
        · intro rs hrs y hy
          rcases List.mem_cons.mp hrs with h1 | h1
          · subst h1
            rcases List.mem_append.mp hy with h2 | h2
            · exact hok g0 (by simp) y h2
            · simp at h2; subst h2; exact hr
          · exact hok rs (by simp [h1]) y hy
      · refine ⟨_, _, _, _, rfl, rfl, ⟨?_, ?_⟩⟩
        · simp [hm.1, hm.2, encodeAll_cons, encodeAll_nil]
        · intro rs hrs y hy
          rcases List.mem_cons.mp hrs with h1 | h1
          · subst h1; simp at hy; subst hy; exact hr
          · exact hok rs h1 y hy
    | rotate =>
      exact ⟨_, _, _, _, rfl, rfl, clean_rotate crc s older g0 gs h⟩
  | crash n =>
    obtain ⟨sv, hv, hcl⟩ := verifySegs_cut c hc crc s older g0 gs h n
    refine ⟨sv, older, wholly n g0, gs, ?_, rfl, hcl⟩
    simp only [stepX, crashReopen, hv, openSegs]

theorem appendedX_cons_ok {x : XOp} {xs : List XOp} (h : ∀ r ∈ appendedX (x :: xs), RecOK r) :
    (∀ r ∈ appendedX [x], RecOK r) ∧ (∀ r ∈ appendedX xs, RecOK r) := by
  cases x with
  | op o =>
    cases o with
    | append r =>
      simp only [appendedX, List.mem_cons] at h ⊢
      exact ⟨fun y hy => h y (by rcases hy with hy | hy; exact Or.inl hy; simp at hy), fun y hy => h y (Or.inr hy)⟩
    | rotate => simp only [appendedX] at h ⊢; exact ⟨by simp, h⟩
  | crash n => simp only [appendedX] at h ⊢; exact ⟨by simp, h⟩

/-- whole histories: the directory stays the encoding of the specification's segmentation -/
theorem runX_clean (c : WalCfg) (hc : c.Good) (crc : Bytes → Nat) (segSize : Nat) :
    ∀ (xs : List XOp) (s : Seg) (older : List Seg) (g0 : List Rec) (gs : List (List Rec)),
      Clean crc (s :: older) (g0 :: gs) → (∀ r ∈ appendedX xs, RecOK r) →
      Clean crc (runX c crc segSize (s :: older) xs) (gRun segSize (g0 :: gs) xs) := by
  intro xs
  induction xs with
  | nil => intro s older g0 gs h _; exact h
  | cons x xs ih =>
    intro s older g0 gs h hr
    obtain ⟨h1, h2⟩ := appendedX_cons_ok hr
    obtain ⟨s', older', g0', gs', e1, e2, hcl⟩ := clean_stepX c hc crc segSize s older g0 gs h x h1
    simp only [runX, gRun, List.foldl_cons]
    rw [e1, e2]
    exact ih s' older' g0' gs' hcl h2

end NoKV.Wal

/-
Value-log / WAL entry record — model of `kv/entry_codec.go`:

    | uvarint klen | uvarint vlen | uvarint meta | uvarint expiresAt | key | value | crc32c(all before) (4B BE) |

`EncodeEntryTo`, `EntryHeader.Decode` + `DecodeValueSlice` (slice reader used by
`vlog.Manager.ReadValue`), `EntryHeader.DecodeFrom` + `DecodeEntryFrom` (stream reader used by
`kv.EntryIterator`, i.e. `vlog.Manager.Iterate` and `sanitizeValueLog`).
Core Lean only.
-/
import NoKVModel.Wal.Record

namespace NoKV.Wal

structure EntCfg where
  /-- `DecodeValueSlice`: `if expected != actual { return ErrBadChecksum }` present -/
  sliceCrcChecked : Bool
  /-- `DecodeEntryFrom`: `if BytesToU32(crcBuf) != hashReader.Sum32() { … ErrBadChecksum }` present -/
  streamCrcChecked : Bool
  deriving DecidableEq, Repr

def EntCfg.good : EntCfg := { sliceCrcChecked := true, streamCrcChecked := true }

def EntCfg.Good (c : EntCfg) : Prop := c.sliceCrcChecked = true ∧ c.streamCrcChecked = true
instance EntCfg.decGood (c : EntCfg) : Decidable c.Good := by unfold EntCfg.Good; exact inferInstance

/-- `binary.PutUvarint` (fuel 10 suffices for a uint64) -/
def putUvarintFuel : Nat → Nat → Bytes
  | 0, _ => []
  | f + 1, x => if x < 128 then [x] else (x % 128 + 128) :: putUvarintFuel f (x / 128)

def putUvarint (x : Nat) : Bytes := putUvarintFuel 10 x

inductive UvRes where
  | ok (v n : Nat)
  | short (i : Nat)
  | overflow
  deriving DecidableEq, Repr

/-- `binary.ReadUvarint` / `binary.Uvarint`: `i` bytes consumed so far, `x` accumulated with
the next group at bit `7*i` (`mul = 2^(7*i)`). -/
def uvGo (i mul x : Nat) (b : Bytes) : UvRes :=
  if i = 10 then .overflow
  else match b with
    | [] => .short i
    | y :: ys =>
      if y < 128 then
        (if i = 9 ∧ y > 1 then .overflow else .ok ((x + y * mul) % 18446744073709551616) (i + 1))
      else uvGo (i + 1) (mul * 128) (x + (y % 128) * mul) ys

def uvarint (b : Bytes) : UvRes := uvGo 0 1 0 b

structure EHdr where
  klen : Nat
  vlen : Nat
  mt : Nat
  exp : Nat
  deriving DecidableEq, Repr

inductive EErr where
  | eof        -- io.EOF
  | part    -- kv.ErrPartialEntry
  | ueof       -- io.ErrUnexpectedEOF
  | badcrc     -- kv.ErrBadChecksum
  | other      -- varint overflow / meta overflow
  deriving DecidableEq, Repr

structure Entry where
  key : Bytes
  value : Bytes
  mt : Nat
  exp : Nat
  deriving DecidableEq, Repr

def encodeHdr (e : Entry) : Bytes :=
  putUvarint (e.key.length % 4294967296) ++ putUvarint (e.value.length % 4294967296) ++
    putUvarint e.mt ++ putUvarint e.exp

/-- `EncodeEntryTo` -/
def encodeEntry (e : Entry) (crc : Bytes → Nat) : Bytes :=
  let pre := encodeHdr e ++ e.key ++ e.value
  pre ++ be32 (crc pre)

/-- the four header varints; `first` tells whether a failure of the first varint at its first
byte is reported as `eof` (stream reader) — all failures are `fail` otherwise. -/
inductive HRes where
  | ok (h : EHdr) (n : Nat)
  | eof            -- nothing to read at all (stream: io.EOF with 0 header bytes)
  | short          -- input ended inside the header
  | overflow       -- varint overflow
  | metaover       -- meta > 255
  deriving DecidableEq, Repr

def decodeHdr (b : Bytes) : HRes :=
  match uvarint b with
  | .short i => if i = 0 then .eof else .short
  | .overflow => .overflow
  | .ok k n1 =>
    match uvarint (b.drop n1) with
    | .short _ => .short
    | .overflow => .overflow
    | .ok v n2 =>
      match uvarint (b.drop (n1 + n2)) with
      | .short _ => .short
      | .overflow => .overflow
      | .ok m n3 =>
        if m > 255 then .metaover
        else match uvarint (b.drop (n1 + n2 + n3)) with
          | .short _ => .short
          | .overflow => .overflow
          | .ok e n4 => .ok ⟨k % 4294967296, v % 4294967296, m, e⟩ (n1 + n2 + n3 + n4)

inductive SliceRes where
  | ok (value : Bytes) (h : EHdr)
  | err (e : EErr)
  deriving DecidableEq, Repr

/-- `DecodeValueSlice(data)`.  (`binary.Uvarint` reports overflow and short input alike as
`n <= 0` ⇒ `io.ErrUnexpectedEOF`; `meta > 255` ⇒ a formatted error.) -/
def decodeSlice (c : EntCfg) (crc : Bytes → Nat) (data : Bytes) : SliceRes :=
  match decodeHdr data with
  | .eof => .err .ueof
  | .short => .err .ueof
  | .overflow => .err .ueof
  | .metaover => .err .other
  | .ok h idx =>
    let pe := idx + h.klen + h.vlen
    if data.length < pe + 4 then .err .ueof
    else if c.sliceCrcChecked ∧ rd32 ((data.drop pe).take 4) ≠ crc (data.take pe) % 4294967296 then .err .badcrc
    else .ok ((data.take pe).drop (idx + h.klen)) h

inductive StreamRes where
  | ok (e : Entry) (recLen : Nat) (rest : Bytes)
  | err (e : EErr)
  deriving DecidableEq, Repr

/-- `DecodeEntryFrom` on the unread bytes `b` -/
def decodeStream (c : EntCfg) (crc : Bytes → Nat) (b : Bytes) : StreamRes :=
  match decodeHdr b with
  | .eof => .err .eof
  | .short => .err .part
  | .overflow => .err .other
  | .metaover => .err .other
  | .ok h idx =>
    let b1 := b.drop idx
    if b1.length < h.klen then .err .part
    else
      let b2 := b1.drop h.klen
      if b2.length < h.vlen then .err .part
      else
        let b3 := b2.drop h.vlen
        if b3.length < 4 then .err .part
        else if c.streamCrcChecked ∧ rd32 (b3.take 4) ≠ crc (b.take (idx + h.klen + h.vlen)) % 4294967296 then .err .badcrc
        else .ok ⟨b1.take h.klen, b2.take h.vlen, h.mt, h.exp⟩
                 ((idx + h.klen + h.vlen + 4) % 4294967296) (b3.drop 4)

/-- `EntryIterator` loop: entries with their record lengths, terminal error -/
def iterFuel (c : EntCfg) (crc : Bytes → Nat) : Nat → Bytes → List (Entry × Nat) × EErr
  | 0, _ => ([], .eof)
  | f + 1, b =>
    match decodeStream c crc b with
    | .ok e n rest =>
      let t := iterFuel c crc f rest
      ((e, n) :: t.1, t.2)
    | .err e => ([], e)

def iterEntries (c : EntCfg) (crc : Bytes → Nat) (b : Bytes) : List (Entry × Nat) × EErr :=
  iterFuel c crc (b.length + 1) b

end NoKV.Wal

/-
Buffered WAL manager — the small-step model of `wal/manager.go` with the `bufio.Writer` made
explicit: `AppendRecords` encodes into a buffer, `Flush` moves the buffer to the end of the
active segment file, `switchSegmentLocked` FIRST flushes (+fsync+close) the current segment and
ONLY THEN opens / stats / seeks the target, `SwitchSegment(id, truncate)` may target any id.

The directory is a list of segment files sorted by id, highest first (`replaySegs`,
`verifySegs`, `cutHead` of `Manager.lean` apply to it as they are: they process the list from
its end, i.e. ascending ids).  The buffer is assumed large enough never to spill by itself
(the harness opens the manager with a buffer larger than anything a case leaves unflushed), so
bytes reach a file only at the modelled flush points.  Core Lean only.
-/
import NoKVModel.Wal.Manager

namespace NoKV.Wal

structure BMgr where
  activeId : Nat
  /-- `m.activeSize`: size of the active file when it was opened plus bytes encoded since -/
  activeSize : Nat
  /-- contents of the `bufio.Writer` -/
  buf : Bytes
  segSize : Nat
  syncOnWrite : Bool
  deriving DecidableEq, Repr

structure BSt where
  dir : List Seg
  mgr : BMgr
  deriving DecidableEq, Repr

/-- write `bytes` at the end of file `id` -/
def appendFile (dir : List Seg) (id : Nat) (bytes : Bytes) : List Seg :=
  match dir with
  | [] => [⟨id, bytes⟩]
  | s :: rest => if s.id = id then ⟨id, s.data ++ bytes⟩ :: rest else s :: appendFile rest id bytes

/-- `O_CREATE|O_TRUNC`: file `id` becomes empty (created in id order if missing) -/
def truncFile (dir : List Seg) (id : Nat) : List Seg :=
  match dir with
  | [] => [⟨id, []⟩]
  | s :: rest =>
    if s.id < id then ⟨id, []⟩ :: s :: rest
    else if s.id = id then ⟨id, []⟩ :: rest
    else s :: truncFile rest id

/-- `O_CREATE` without truncation: file `id` is created empty if missing -/
def ensureFile (dir : List Seg) (id : Nat) : List Seg :=
  match dir with
  | [] => [⟨id, []⟩]
  | s :: rest =>
    if s.id < id then ⟨id, []⟩ :: s :: rest
    else if s.id = id then s :: rest
    else s :: ensureFile rest id

def fileSize (dir : List Seg) (id : Nat) : Nat :=
  match dir with
  | [] => 0
  | s :: rest => if s.id = id then s.data.length else fileSize rest id

/-- `writer.Flush()` (followed by fsync, which the model does not distinguish) -/
def bflush (st : BSt) : BSt :=
  { dir := appendFile st.dir st.mgr.activeId st.mgr.buf, mgr := { st.mgr with buf := [] } }

/-- `switchSegmentLocked(id, truncate)`: flush+sync+close the current segment, then open the
target (`O_TRUNC` or stat+seek-to-end), fresh writer -/
def bswitch (st : BSt) (id : Nat) (trunc : Bool) : BSt :=
  let st1 := bflush st
  let dir' := if trunc then truncFile st1.dir id else ensureFile st1.dir id
  { dir := dir',
    mgr := { st1.mgr with activeId := id, activeSize := if trunc then 0 else fileSize dir' id, buf := [] } }

/-- `ensureCapacity(len+9)` -/
def bensure (st : BSt) (r : Rec) : BSt :=
  if st.mgr.activeSize + encLen r ≤ st.mgr.segSize then st else bswitch st (st.mgr.activeId + 1) true

/-- one iteration of the `AppendRecords` loop: capacity check (possibly rotating), then
`EncodeRecord` into the writer -/
def bappendRec (crc : Bytes → Nat) (st : BSt) (r : Rec) : BSt :=
  let st1 := bensure st r
  { st1 with mgr := { st1.mgr with buf := st1.mgr.buf ++ encode crc r,
                                   activeSize := st1.mgr.activeSize + encLen r } }

/-- `AppendRecords(rs...)`: the loop, then flush+fsync if `SyncOnWrite` -/
def bappendBatch (crc : Bytes → Nat) (st : BSt) (rs : List Rec) : BSt :=
  let st' := rs.foldl (bappendRec crc) st
  if st'.mgr.syncOnWrite then bflush st' else st'

/-- `wal.Open` on a directory: resume the highest segment (create 00001.wal if none) -/
def bopen (segSizeRaw : Nat) (sow : Bool) (dir : List Seg) : BSt :=
  match openSegs dir with
  | [] => ⟨[], ⟨0, 0, [], effSegSize segSizeRaw, sow⟩⟩
  | s :: older => ⟨s :: older, ⟨s.id, s.data.length, [], effSegSize segSizeRaw, sow⟩⟩

/-- what a reader sees after `Sync()`/`Close()`: the files with the buffer written out -/
def BSt.view (st : BSt) : List Seg := (bflush st).dir

/-! ### histories on the buffered manager (monotone use: the active segment is the newest) -/

inductive BOp where
  | batch (rs : List Rec)      -- one `AppendRecords` call
  | rotate                     -- `Rotate()`
  | sync                       -- `Sync()`
  | switchSame                 -- `SwitchSegment(activeID, false)` (the LSM's resume call)
  | crash (n : Nat)            -- `Close()`, newest file cut to n bytes, `VerifyDir`, `Open`
  deriving DecidableEq, Repr

def stepB (c : WalCfg) (crc : Bytes → Nat) (st : BSt) : BOp → BSt
  | .batch rs => bappendBatch crc st rs
  | .rotate => bswitch st (st.mgr.activeId + 1) true
  | .sync => bflush st
  | .switchSame => bswitch st st.mgr.activeId false
  | .crash n =>
    let d := crashReopen c crc n (bflush st).dir
    match d with
    | [] => st
    | s :: older => ⟨s :: older, { st.mgr with activeId := s.id, activeSize := s.data.length, buf := [] }⟩

def runB (c : WalCfg) (crc : Bytes → Nat) (st : BSt) (xs : List BOp) : BSt :=
  xs.foldl (stepB c crc) st

/-- the same history as seen by the unbuffered specification-level ops of `Manager.lean` -/
def expandB : List BOp → List XOp
  | [] => []
  | .batch rs :: xs => rs.map (fun r => XOp.op (.append r)) ++ expandB xs
  | .rotate :: xs => .op .rotate :: expandB xs
  | .sync :: xs => expandB xs
  | .switchSame :: xs => expandB xs
  | .crash n :: xs => .crash n :: expandB xs

end NoKV.Wal

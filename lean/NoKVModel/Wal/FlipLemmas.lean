/-
Single-bit flips are single-byte substitutions by a different byte value; lifted through
CRC-32C (`crc32c_subst`), the big-endian CRC field, and `DecodeRecord`.
-/
import NoKVModel.Wal.Flip
import NoKVModel.Wal.CrcLemmas
import NoKVModel.Wal.RecordLemmas

namespace NoKV.Wal

theorem flipByte_spec : ∀ x, x < 256 → ∀ k, k < 8 → flipByte x k < 256 ∧ flipByte x k ≠ x := by
  intro x hx k hk
  have hk' : k = 0 ∨ k = 1 ∨ k = 2 ∨ k = 3 ∨ k = 4 ∨ k = 5 ∨ k = 6 ∨ k = 7 := by omega
  rcases hk' with rfl|rfl|rfl|rfl|rfl|rfl|rfl|rfl <;>
    (simp only [flipByte, Nat.reducePow]; split <;> omega)

theorem flipBitAt_eq (b : Bytes) (bit : Nat) (h : bit / 8 < b.length) :
    ∃ pre x suf, b = pre ++ x :: suf ∧ pre.length = bit / 8 ∧
      flipBitAt b bit = pre ++ flipByte x (bit % 8) :: suf := by
  have hd : b.drop (bit / 8) ≠ [] := by
    intro h0
    have := congrArg List.length h0
    simp at this; omega
  cases hdr : b.drop (bit / 8) with
  | nil => exact absurd hdr hd
  | cons x xs =>
    refine ⟨b.take (bit / 8), x, xs, ?_, ?_, ?_⟩
    · rw [← hdr, List.take_append_drop]
    · rw [List.length_take]; omega
    · simp [flipBitAt, hdr]

/-- `foldl` form of big-endian reading: prefix value shifted plus the suffix value -/
theorem rd32_foldl (s : Bytes) : ∀ init, s.foldl (fun acc x => acc * 256 + x) init = init * 256 ^ s.length + rd32 s := by
  induction s with
  | nil => intro init; simp [rd32]
  | cons y ys ih =>
    intro init
    simp only [List.foldl_cons, List.length_cons, rd32]
    rw [ih (init * 256 + y), ih (0 * 256 + y)]
    simp [rd32, Nat.pow_succ]
    rw [Nat.add_mul]
    simp [Nat.mul_assoc, Nat.mul_comm 256, Nat.add_assoc]

theorem rd32_subst (a s : Bytes) (x x' : Nat) (h : x ≠ x') : rd32 (a ++ x :: s) ≠ rd32 (a ++ x' :: s) := by
  unfold rd32
  simp only [List.foldl_append, List.foldl_cons]
  rw [rd32_foldl s, rd32_foldl s]
  intro heq
  have hp : 0 < 256 ^ s.length := Nat.pow_pos (by omega)
  have h1 : (List.foldl (fun acc x => acc * 256 + x) 0 a * 256 + x) * 256 ^ s.length
      = (List.foldl (fun acc x => acc * 256 + x) 0 a * 256 + x') * 256 ^ s.length := by omega
  have h2 := Nat.eq_of_mul_eq_mul_right hp h1
  omega

/-- `DecodeRecord` on header ++ body ++ crc-field ++ rest, body length matching the header -/
theorem decodeOne_parts (c : WalCfg) (crc : Bytes → Nat) (L : Nat) (bd cb rest : Bytes)
    (hL : L < 4294967296) (hbd : bd.length = L) (hL0 : L ≠ 0) (hcb : cb.length = 4) :
    decodeOne c crc (be32 L ++ (bd ++ (cb ++ rest))) =
      if c.crcChecked ∧ rd32 cb ≠ crc bd % 4294967296 then .err .badcrc
      else .ok ⟨bd.headD 0, bd.tail⟩ L rest := by
  have hlen : (be32 L ++ (bd ++ (cb ++ rest))).length = 4 + L + 4 + rest.length := by
    simp [be32_length, hbd, hcb]; omega
  unfold decodeOne
  rw [if_neg (by omega), if_neg (by omega)]
  rw [take4_be32_append, drop4_be32_append, rd32_be32, Nat.mod_eq_of_lt hL]
  simp only
  rw [if_neg hL0]
  rw [if_neg (by simp [hbd, hcb])]
  have ht : (bd ++ (cb ++ rest)).take L = bd := by
    rw [List.take_append_of_le_length (by omega), List.take_of_length_le (by omega)]
  have hd : (bd ++ (cb ++ rest)).drop L = cb ++ rest := by
    rw [List.drop_append_of_le_length (by omega), List.drop_of_length_le (by omega)]; simp
  rw [ht, hd]
  rw [if_neg (by simp [hcb])]
  have ht2 : (cb ++ rest).take 4 = cb := by
    rw [List.take_append_of_le_length (by omega), List.take_of_length_le (by omega)]
  have hd2 : (cb ++ rest).drop 4 = rest := by
    rw [List.drop_append_of_le_length (by omega), List.drop_of_length_le (by omega)]; simp
  rw [ht2, hd2]

theorem scan_of_err (c : WalCfg) (crc : Bytes → Nat) (step : Nat) (b : Bytes) (e : DErr)
    (h : decodeOne c crc b = .err e) : scan c crc step b = ([], 0, e) := by
  unfold scan
  simp only [scanFuel, h]

/-! ### flips positioned inside a concatenation -/

theorem flipBitAt_at (pre suf : Bytes) (x bit : Nat) (h : pre.length = bit / 8) :
    flipBitAt (pre ++ x :: suf) bit = pre ++ flipByte x (bit % 8) :: suf := by
  unfold flipBitAt
  rw [← h]
  simp

theorem flipBitAt_length (b : Bytes) (bit : Nat) : (flipBitAt b bit).length = b.length := by
  by_cases h : bit / 8 < b.length
  · obtain ⟨p, x, s, he, _, hf⟩ := flipBitAt_eq b bit h
    rw [hf, he]; simp
  · unfold flipBitAt
    rw [List.drop_of_length_le (by omega), List.take_of_length_le (by omega)]
    simp

theorem flipBitAt_append_left (a b : Bytes) (bit : Nat) (h : bit / 8 < a.length) :
    flipBitAt (a ++ b) bit = flipBitAt a bit ++ b := by
  obtain ⟨p, x, s, he, hp, hf⟩ := flipBitAt_eq a bit h
  rw [hf, he]
  have : (p ++ x :: s) ++ b = p ++ x :: (s ++ b) := by simp
  rw [this, flipBitAt_at p (s ++ b) x bit hp]
  simp

theorem flipBitAt_append_right (a b : Bytes) (bit : Nat) (h : a.length ≤ bit / 8) :
    flipBitAt (a ++ b) bit = a ++ flipBitAt b (bit - 8 * a.length) := by
  by_cases hb : (bit - 8 * a.length) / 8 < b.length
  · obtain ⟨p, x, s, he, hp, hf⟩ := flipBitAt_eq b (bit - 8 * a.length) hb
    rw [hf, he]
    have e1 : a ++ (p ++ x :: s) = (a ++ p) ++ x :: s := by simp
    have hl : (a ++ p).length = bit / 8 := by rw [List.length_append, hp]; omega
    rw [e1, flipBitAt_at (a ++ p) s x bit hl]
    have : (bit - 8 * a.length) % 8 = bit % 8 := by omega
    rw [this]; simp
  · have h1 : ¬ bit / 8 < (a ++ b).length := by rw [List.length_append]; omega
    unfold flipBitAt
    rw [List.drop_of_length_le (by omega), List.take_of_length_le (by omega)]
    rw [List.drop_of_length_le (by omega), List.take_of_length_le (by omega)]
    simp

/-- inverting a bit of the 4-byte length field changes the length it denotes -/
theorem rd32_flip_ne (L bit : Nat) (hbit : bit / 8 < 4) (hL : L < 4294967296) :
    rd32 (flipBitAt (be32 L) bit) ≠ L := by
  obtain ⟨p, x, s, he, _, hf⟩ := flipBitAt_eq (be32 L) bit (by rw [be32_length]; exact hbit)
  have hx : x < 256 := by
    have : x ∈ be32 L := by rw [he]; simp
    simp only [be32, List.mem_cons, List.not_mem_nil, or_false] at this
    omega
  obtain ⟨_, h2⟩ := flipByte_spec x hx (bit % 8) (Nat.mod_lt _ (by omega))
  have hv : rd32 (be32 L) = L := by rw [rd32_be32, Nat.mod_eq_of_lt hL]
  rw [hf]
  intro hcon
  rw [← hv, he] at hcon
  exact rd32_subst p s _ _ h2 hcon

/-- `DecodeRecord` on any 4 header bytes followed by `tail` -/
theorem decodeOne_hdr (c : WalCfg) (crc : Bytes → Nat) (hdr tail : Bytes) (hh : hdr.length = 4) :
    decodeOne c crc (hdr ++ tail) =
      if rd32 hdr = 0 then .err .empty
      else if tail.length < rd32 hdr then .err .part
      else if (tail.drop (rd32 hdr)).length < 4 then .err .part
      else if c.crcChecked ∧ rd32 ((tail.drop (rd32 hdr)).take 4) ≠ crc (tail.take (rd32 hdr)) % 4294967296 then .err .badcrc
      else .ok ⟨(tail.take (rd32 hdr)).headD 0, (tail.take (rd32 hdr)).tail⟩ (rd32 hdr) ((tail.drop (rd32 hdr)).drop 4) := by
  unfold decodeOne
  have hl : (hdr ++ tail).length = 4 + tail.length := by simp [hh]
  rw [if_neg (by omega), if_neg (by omega)]
  have ht : (hdr ++ tail).take 4 = hdr := by
    rw [List.take_append_of_le_length (by omega), List.take_of_length_le (by omega)]
  have hd : (hdr ++ tail).drop 4 = tail := by
    rw [List.drop_append_of_le_length (by omega), List.drop_of_length_le (by omega)]; simp
  rw [ht, hd]

end NoKV.Wal

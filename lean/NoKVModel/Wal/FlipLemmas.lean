/-
Single-bit flips are single-byte substitutions by a different byte value; lifted through
CRC-32C (`crc32c_subst`), the big-endian CRC field, and `DecodeRecord`.
-/
import NoKVModel.Wal.Flip
import NoKVModel.Wal.CrcLemmas
import NoKVModel.Wal.RecordLemmas

namespace NoKV.Wal

theorem flipByte_spec : ∀ x, x < 256 → ∀ k, k < 8 → flipByte x k < 256 ∧ flipByte x k ≠ x := by
  decide +kernel

theorem flipBitAt_eq (b : Bytes) (bit : Nat) (h : bit / 8 < b.length) :
    ∃ pre x suf, b = pre ++ x :: suf ∧ pre.length = bit / 8 ∧
      flipBitAt b bit = pre ++ flipByte x (bit % 8) :: suf := by
  have hd : b.drop (bit / 8) ≠ [] := by
    intro h0
    have := congrArg List.length h0
    simp at this; omega
  cases hdr : b.drop (bit / 8) with
  | nil => exact absurd hdr hd
  | cons x xs =>
    refine ⟨b.take (bit / 8), x, xs, ?_, ?_, ?_⟩
    · rw [← hdr, List.take_append_drop]
    · rw [List.length_take]; omega
    · simp [flipBitAt, hdr]

/-- `foldl` form of big-endian reading: prefix value shifted plus the suffix value -/
theorem rd32_foldl (s : Bytes) : ∀ init, s.foldl (fun acc x => acc * 256 + x) init = init * 256 ^ s.length + rd32 s := by
  induction s with
  | nil => intro init; simp [rd32]
  | cons y ys ih =>
    intro init
    simp only [List.foldl_cons, List.length_cons, rd32]
    rw [ih (init * 256 + y), ih (0 * 256 + y)]
    simp [rd32, Nat.pow_succ]
    rw [Nat.add_mul]
    simp [Nat.mul_assoc, Nat.mul_comm 256, Nat.add_assoc]

theorem rd32_subst (a s : Bytes) (x x' : Nat) (h : x ≠ x') : rd32 (a ++ x :: s) ≠ rd32 (a ++ x' :: s) := by
  unfold rd32
  simp only [List.foldl_append, List.foldl_cons]
  rw [rd32_foldl s, rd32_foldl s]
  intro heq
  have hp : 0 < 256 ^ s.length := Nat.pow_pos (by omega)
  have h1 : (List.foldl (fun acc x => acc * 256 + x) 0 a * 256 + x) * 256 ^ s.length
      = (List.foldl (fun acc x => acc * 256 + x) 0 a * 256 + x') * 256 ^ s.length := by omega
  have h2 := Nat.eq_of_mul_eq_mul_right hp h1
  omega

/-- `DecodeRecord` on header ++ body ++ crc-field ++ rest, body length matching the header -/
theorem decodeOne_parts (c : WalCfg) (crc : Bytes → Nat) (L : Nat) (bd cb rest : Bytes)
    (hL : L < 4294967296) (hbd : bd.length = L) (hL0 : L ≠ 0) (hcb : cb.length = 4) :
    decodeOne c crc (be32 L ++ (bd ++ (cb ++ rest))) =
      if c.crcChecked ∧ rd32 cb ≠ crc bd % 4294967296 then .err .badcrc
      else .ok ⟨bd.headD 0, bd.tail⟩ L rest := by
  have hlen : (be32 L ++ (bd ++ (cb ++ rest))).length = 4 + L + 4 + rest.length := by
    simp [be32_length, hbd, hcb]; omega
  unfold decodeOne
  rw [if_neg (by omega), if_neg (by omega)]
  rw [take4_be32_append, drop4_be32_append, rd32_be32, Nat.mod_eq_of_lt hL]
  simp only
  rw [if_neg hL0]
  rw [if_neg (by simp [hbd, hcb])]
  have ht : (bd ++ (cb ++ rest)).take L = bd := by
    rw [List.take_append_of_le_length (by omega), List.take_of_length_le (by omega)]
  have hd : (bd ++ (cb ++ rest)).drop L = cb ++ rest := by
    rw [List.drop_append_of_le_length (by omega), List.drop_of_length_le (by omega)]; simp
  rw [ht, hd]
  rw [if_neg (by simp [hcb])]
  have ht2 : (cb ++ rest).take 4 = cb := by
    rw [List.take_append_of_le_length (by omega), List.take_of_length_le (by omega)]
  have hd2 : (cb ++ rest).drop 4 = rest := by
    rw [List.drop_append_of_le_length (by omega), List.drop_of_length_le (by omega)]; simp
  rw [ht2, hd2]

theorem scan_of_err (c : WalCfg) (crc : Bytes → Nat) (step : Nat) (b : Bytes) (e : DErr)
    (h : decodeOne c crc b = .err e) : scan c crc step b = ([], 0, e) := by
  unfold scan
  simp only [scanFuel, h]

end NoKV.Wal

/-
WAL directory / manager — model of `wal/manager.go`: Open (resume the highest segment),
AppendRecords (+ ensureCapacity → rotate), Rotate, VerifyDir/verifySegment, Replay/replayFile,
and the fault operation "cut the newest segment at byte n".

The directory is a list of segments **newest first** (head = the active / highest-numbered
segment); the Go code sorts `*.wal` ascending, i.e. processes `segs.reverse`.
-/
import NoKVModel.Wal.Record

namespace NoKV.Wal

structure Seg where
  id : Nat
  data : Bytes
  deriving DecidableEq, Repr

inductive Status where
  | ok | badcrc | empty | part
  deriving DecidableEq, Repr

def Status.ofErr : DErr → Status
  | .eof => .ok
  | .part => .part
  | .empty => .empty
  | .badcrc => .badcrc

def minSegmentSize : Nat := 65536
def defaultSegmentSize : Nat := 67108864

/-- `Open`: `segSize == 0 → default; < min → min` -/
def effSegSize (s : Nat) : Nat :=
  if s = 0 then defaultSegmentSize else if s < minSegmentSize then minSegmentSize else s

/-- `openLatestSegment`: no segment ⇒ create 00001.wal; else resume the highest one (append at
its end: `activeSize = file size`). -/
def openSegs (segs : List Seg) : List Seg :=
  match segs with
  | [] => [⟨1, []⟩]
  | s :: older => s :: older

/-- `rotateLocked` -/
def rotate (segs : List Seg) : List Seg :=
  match segs with
  | [] => []
  | s :: older => ⟨s.id + 1, []⟩ :: s :: older

/-- one record of `AppendRecords`: `ensureCapacity(len+9)` then `EncodeRecord` into the active
segment.  `segSize` is the effective segment size. -/
def appendRec (crc : Bytes → Nat) (segSize : Nat) (segs : List Seg) (r : Rec) : List Seg :=
  match segs with
  | [] => []
  | s :: older =>
    if s.data.length + encLen r ≤ segSize then ⟨s.id, s.data ++ encode crc r⟩ :: older
    else ⟨s.id + 1, encode crc r⟩ :: s :: older

inductive Op where
  | append (r : Rec)
  | rotate
  deriving DecidableEq, Repr

def stepOp (crc : Bytes → Nat) (segSize : Nat) (segs : List Seg) : Op → List Seg
  | .append r => appendRec crc segSize segs r
  | .rotate => rotate segs

def runOps (crc : Bytes → Nat) (segSize : Nat) (segs : List Seg) (ops : List Op) : List Seg :=
  ops.foldl (stepOp crc segSize) segs

/-- the records an op list appends, in order -/
def appended : List Op → List Rec
  | [] => []
  | .append r :: ops => r :: appended ops
  | .rotate :: ops => appended ops

/-- fault: the newest segment file is cut to its first `n` bytes -/
def cutHead (n : Nat) (segs : List Seg) : List Seg :=
  match segs with
  | [] => []
  | s :: older => ⟨s.id, s.data.take n⟩ :: older

/-- `verifySegment` on one segment: new contents and status -/
def verifySeg (c : WalCfg) (crc : Bytes → Nat) (s : Seg) : Seg × Status :=
  let r := scan c crc c.verifyStep s.data
  if r.2.2 = .part then
    (if c.verifyTruncPartial then (⟨s.id, s.data.take r.2.1⟩, .ok) else (s, .ok))
  else (s, Status.ofErr r.2.2)

/-- `VerifyDir`: ascending order, stops at the first error -/
def verifySegs (c : WalCfg) (crc : Bytes → Nat) : List Seg → List Seg × Status
  | [] => ([], .ok)
  | s :: older =>
    let o := verifySegs c crc older
    if o.2 = .ok then
      let v := verifySeg c crc s
      (v.1 :: o.1, v.2)
    else (s :: o.1, o.2)

/-- `replayFile` on one segment: delivered records and status -/
def replaySeg (c : WalCfg) (crc : Bytes → Nat) (s : Seg) : List Rec × Status :=
  let r := scan c crc 8 s.data
  if r.2.2 = .part then (r.1, if c.replayPartialOk then .ok else .part)
  else (r.1, Status.ofErr r.2.2)

/-- `Replay`: ascending order, stops at the first error -/
def replaySegs (c : WalCfg) (crc : Bytes → Nat) : List Seg → List Rec × Status
  | [] => ([], .ok)
  | s :: older =>
    let o := replaySegs c crc older
    if o.2 = .ok then
      let v := replaySeg c crc s
      (o.1 ++ v.1, v.2)
    else o

/-- like `replaySegs` but keeps the segment id of every record (driver output) -/
def replaySegsInfo (c : WalCfg) (crc : Bytes → Nat) : List Seg → List (Nat × Rec) × Status
  | [] => ([], .ok)
  | s :: older =>
    let o := replaySegsInfo c crc older
    if o.2 = .ok then
      let v := replaySeg c crc s
      (o.1 ++ v.1.map (fun r => (s.id, r)), v.2)
    else o

/-- spec helper: the records of `rs` whose encodings lie wholly inside the first `n` bytes -/
def wholly (n : Nat) : List Rec → List Rec
  | [] => []
  | r :: rs => if encLen r ≤ n then r :: wholly (n - encLen r) rs else []

/-! ### whole histories: appends, rotations and crash/recover rounds -/

/-- crash + recovery as `db.go` performs it: the newest segment keeps only its first `n` bytes,
then `wal.VerifyDir`, then `wal.Open` (resume the highest segment) -/
def crashReopen (c : WalCfg) (crc : Bytes → Nat) (n : Nat) (segs : List Seg) : List Seg :=
  openSegs (verifySegs c crc (cutHead n segs)).1

inductive XOp where
  | op (o : Op)
  | crash (n : Nat)
  deriving DecidableEq, Repr

def stepX (c : WalCfg) (crc : Bytes → Nat) (segSize : Nat) (segs : List Seg) : XOp → List Seg
  | .op o => stepOp crc segSize segs o
  | .crash n => crashReopen c crc n segs

def runX (c : WalCfg) (crc : Bytes → Nat) (segSize : Nat) (segs : List Seg) (xs : List XOp) : List Seg :=
  xs.foldl (stepX c crc segSize) segs

def appendedX : List XOp → List Rec
  | [] => []
  | .op (.append r) :: xs => r :: appendedX xs
  | .op .rotate :: xs => appendedX xs
  | .crash _ :: xs => appendedX xs

/-- total encoded size of a record list -/
def encLenAll : List Rec → Nat
  | [] => 0
  | r :: rs => encLen r + encLenAll rs

/-- **Specification of a history**, on record lists only (no bytes, no decoder): the records per
segment, newest segment first.  Append goes to the newest segment if it still fits, else opens a
new one; rotate opens a new one; a crash at offset `n` keeps, of the newest segment, exactly the
records wholly inside its first `n` bytes. -/
def gStep (segSize : Nat) (g : List (List Rec)) : XOp → List (List Rec)
  | .op (.append r) =>
    match g with
    | [] => []
    | g0 :: gs => if encLenAll g0 + encLen r ≤ segSize then (g0 ++ [r]) :: gs else [r] :: g0 :: gs
  | .op .rotate =>
    match g with
    | [] => []
    | g0 :: gs => [] :: g0 :: gs
  | .crash n =>
    match g with
    | [] => []
    | g0 :: gs => wholly n g0 :: gs

def gRun (segSize : Nat) (g : List (List Rec)) (xs : List XOp) : List (List Rec) :=
  xs.foldl (gStep segSize) g

end NoKV.Wal

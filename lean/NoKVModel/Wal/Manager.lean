/-
WAL directory / manager — model of `wal/manager.go`: Open (resume the highest segment),
AppendRecords (+ ensureCapacity → rotate), Rotate, VerifyDir/verifySegment, Replay/replayFile,
and the fault operation "cut the newest segment at byte n".

The directory is a list of segments **newest first** (head = the active / highest-numbered
segment); the Go code sorts `*.wal` ascending, i.e. processes `segs.reverse`.
-/
import NoKVModel.Wal.Record

namespace NoKV.Wal

structure Seg where
  id : Nat
  data : Bytes
  deriving DecidableEq, Repr

inductive Status where
  | ok | badcrc | empty | part
  deriving DecidableEq, Repr

def Status.ofErr : DErr → Status
  | .eof => .ok
  | .part => .part
  | .empty => .empty
  | .badcrc => .badcrc

def minSegmentSize : Nat := 65536
def defaultSegmentSize : Nat := 67108864

/-- `Open`: `segSize == 0 → default; < min → min` -/
def effSegSize (s : Nat) : Nat :=
  if s = 0 then defaultSegmentSize else if s < minSegmentSize then minSegmentSize else s

/-- `openLatestSegment`: no segment ⇒ create 00001.wal; else resume the highest one (append at
its end: `activeSize = file size`). -/
def openSegs (segs : List Seg) : List Seg :=
  match segs with
  | [] => [⟨1, []⟩]
  | s :: older => s :: older

/-- `rotateLocked` -/
def rotate (segs : List Seg) : List Seg :=
  match segs with
  | [] => []
  | s :: older => ⟨s.id + 1, []⟩ :: s :: older

/-- one record of `AppendRecords`: `ensureCapacity(len+9)` then `EncodeRecord` into the active
segment.  `segSize` is the effective segment size. -/
def appendRec (crc : Bytes → Nat) (segSize : Nat) (segs : List Seg) (r : Rec) : List Seg :=
  match segs with
  | [] => []
  | s :: older =>
    if s.data.length + encLen r ≤ segSize then ⟨s.id, s.data ++ encode crc r⟩ :: older
    else ⟨s.id + 1, encode crc r⟩ :: s :: older

inductive Op where
  | append (r : Rec)
  | rotate
  deriving DecidableEq, Repr

def stepOp (crc : Bytes → Nat) (segSize : Nat) (segs : List Seg) : Op → List Seg
  | .append r => appendRec crc segSize segs r
  | .rotate => rotate segs

def runOps (crc : Bytes → Nat) (segSize : Nat) (segs : List Seg) (ops : List Op) : List Seg :=
  ops.foldl (stepOp crc segSize) segs

/-- the records an op list appends, in order -/
def appended : List Op → List Rec
  | [] => []
  | .append r :: ops => r :: appended ops
  | .rotate :: ops => appended ops

/-- fault: the newest segment file is cut to its first `n` bytes -/
def cutHead (n : Nat) (segs : List Seg) : List Seg :=
  match segs with
  | [] => []
  | s :: older => ⟨s.id, s.data.take n⟩ :: older

/-- `verifySegment` on one segment: new contents and status -/
def verifySeg (c : WalCfg) (crc : Bytes → Nat) (s : Seg) : Seg × Status :=
  let r := scan c crc c.verifyStep s.data
  if r.2.2 = .part then
    (if c.verifyTruncPartial then (⟨s.id, s.data.take r.2.1⟩, .ok) else (s, .ok))
  else (s, Status.ofErr r.2.2)

/-- `VerifyDir`: ascending order, stops at the first error -/
def verifySegs (c : WalCfg) (crc : Bytes → Nat) : List Seg → List Seg × Status
  | [] => ([], .ok)
  | s :: older =>
    let o := verifySegs c crc older
    if o.2 = .ok then
      let v := verifySeg c crc s
      (v.1 :: o.1, v.2)
    else (s :: o.1, o.2)

/-- `replayFile` on one segment: delivered records and status -/
def replaySeg (c : WalCfg) (crc : Bytes → Nat) (s : Seg) : List Rec × Status :=
  let r := scan c crc 8 s.data
  if r.2.2 = .part then (r.1, if c.replayPartialOk then .ok else .part)
  else (r.1, Status.ofErr r.2.2)

/-- `Replay`: ascending order, stops at the first error -/
def replaySegs (c : WalCfg) (crc : Bytes → Nat) : List Seg → List Rec × Status
  | [] => ([], .ok)
  | s :: older =>
    let o := replaySegs c crc older
    if o.2 = .ok then
      let v := replaySeg c crc s
      (o.1 ++ v.1, v.2)
    else o

/-- like `replaySegs` but keeps the segment id of every record (driver output) -/
def replaySegsInfo (c : WalCfg) (crc : Bytes → Nat) : List Seg → List (Nat × Rec) × Status
  | [] => ([], .ok)
  | s :: older =>
    let o := replaySegsInfo c crc older
    if o.2 = .ok then
      let v := replaySeg c crc s
      (o.1 ++ v.1.map (fun r => (s.id, r)), v.2)
    else o

/-- spec helper: the records of `rs` whose encodings lie wholly inside the first `n` bytes -/
def wholly (n : Nat) : List Rec → List Rec
  | [] => []
  | r :: rs => if encLen r ≤ n then r :: wholly (n - encLen r) rs else []

end NoKV.Wal

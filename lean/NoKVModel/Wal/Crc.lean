/-
Bitwise CRC-32C (Castagnoli), reflected form, as computed by Go's `hash/crc32` with
`crc32.MakeTable(crc32.Castagnoli)` (kv.CastagnoliCrcTable):

    crc := 0xFFFFFFFF
    for each byte b:  crc ^= b ; 8 × { crc = (crc >> 1) ^ (0x82F63B78 if crc&1 else 0) }
    return crc ^ 0xFFFFFFFF

Core Lean only (the driver links this file).  The correspondence harness compares `crc32c`
with Go's `crc32.Checksum(_, Castagnoli)` on random inputs.
-/
import NoKVModel.Base.Bytes

namespace NoKV.Wal

/-- reflected Castagnoli polynomial -/
def crcPoly : BitVec 32 := 0x82F63B78#32

/-- one LFSR step (one message bit) -/
def crcStep (s : BitVec 32) : BitVec 32 :=
  if s.getLsbD 0 then (s >>> 1) ^^^ crcPoly else s >>> 1

def crcStepN : Nat → BitVec 32 → BitVec 32
  | 0, s => s
  | n + 1, s => crcStepN n (crcStep s)

/-- absorb one byte -/
def crcFeed (s : BitVec 32) (b : Nat) : BitVec 32 :=
  crcStepN 8 (s ^^^ BitVec.ofNat 32 b)

/-- absorb a message starting from state `s` -/
def crcRaw (s : BitVec 32) (msg : Bytes) : BitVec 32 := msg.foldl crcFeed s

def crcInit : BitVec 32 := 0xFFFFFFFF#32

/-- `crc32.Checksum(msg, crc32.MakeTable(crc32.Castagnoli))` -/
def crc32c (msg : Bytes) : Nat := (crcRaw crcInit msg ^^^ crcInit).toNat

end NoKV.Wal

/-
Model of the SST builder and table reader (C35): lsm/builder.go (`add`, `tryFinishBlock`,
`keyDiff`, `finishBlock`, index of block base keys, bloom over user-key hashes),
lsm/table.go (`Search`, `tableIterator.Seek/seekHelper/Next`, `blockIterator.seek/setIdx`),
utils/bloom.go.

A table is the list of its blocks; a block is the non-empty list of its entries in insertion
order (its *base key* is the key of the first entry; every entry is stored as
`(overlap, diff)` against the base key).  The byte image (entry offsets, checksums, protobuf
index) is not modelled: `reopen` re-reads the same block list from the file, which the
correspondence run checks (every lookup is repeated after reopening the file).

Core Lean only.
-/
import NoKVModel.Index.Key
import NoKVModel.Index.Ref

namespace NoKV.Sst
open NoKV NoKV.Index

abbrev SEntry := Bytes × Bytes
abbrev Block := List SEntry

structure SstCfg where
  /-- `tryFinishBlock`: `estimateSz OP BlockSize` starts a new block -/
  splitOp : CmpOp
  /-- `tableIterator.Seek` (ascending): when every entry of the chosen block is smaller than the
      target, continue at the first entry of the next block -/
  seekFallsThrough : Bool
  /-- `tableIterator.Seek`: `CompareKeys(blockBaseKey, key) OP 0` finds the first block *after* the target -/
  tblSeekOp : CmpOp
  /-- `blockIterator.seek` ascending: first entry with `CompareKeys(entryKey, key) OP 0` -/
  blkFwdOp : CmpOp
  /-- `blockIterator.seek` descending: first entry with `CompareKeys(entryKey, key) OP 0`, minus one -/
  blkRevOp : CmpOp
  /-- `table.Search`: `*maxVs OP version` accepts the entry -/
  searchVsOp : CmpOp
  /-- builder and `Search` hash the same projection of the key (`kv.ParseKey`) -/
  bloomSameProjection : Bool
  /-- `table.loadBlock` verifies the block checksum before the decoded block is published to the
      block cache (false = the block is cached first and verified afterwards) -/
  verifyBeforeCache : Bool
  /-- `table.loadBlock` bounds the checksum-length field of the block trailer by the bytes that
      precede it (`chkLen > readPos`; false = by the whole block, `chkLen > len(b.data)`) -/
  chkLenGuardReadPos : Bool
  /-- every `loadBlock` that misses the block cache verifies the block checksum: the call is
      unconditional and `block.verifyCheckSum` is nothing but the checksum comparison
      (false = verification is skipped for blocks remembered as already verified) -/
  verifyEveryLoad : Bool
  /-- `tableIterator.seekHelper` always fetches the block and resets the block iterator with it
      (false = it re-uses the block the block iterator already names, without looking at whether
      its views are still loaded) -/
  seekReloads : Bool
  /-- `tableIterator.Next`, on leaving a block, drops `bi.data` *and* `bi.entryOffsets`
      (as-is: only `bi.data`) -/
  nextUnloadsBoth : Bool
  deriving DecidableEq, Repr

def SstCfg.good : SstCfg :=
  { splitOp := .gt, seekFallsThrough := true, tblSeekOp := .gt, blkFwdOp := .ge, blkRevOp := .gt,
    searchVsOp := .lt, bloomSameProjection := true, verifyBeforeCache := true,
    chkLenGuardReadPos := true, verifyEveryLoad := true,
    seekReloads := true, nextUnloadsBoth := false }

/-- the decisions the lookup/seek/iteration theorems depend on, except the forward-seek
continuation (block-cache order and trailer guard are separate concerns) -/
def SstCfg.GoodButSeek (c : SstCfg) : Prop :=
  c.splitOp = .gt ∧ c.tblSeekOp = .gt ∧ c.blkFwdOp = .ge ∧ c.blkRevOp = .gt ∧ c.searchVsOp = .lt ∧
  c.bloomSameProjection = true
instance SstCfg.decGoodButSeek (c : SstCfg) : Decidable c.GoodButSeek := by
  unfold SstCfg.GoodButSeek; exact inferInstance

def SstCfg.Good (c : SstCfg) : Prop := c.GoodButSeek ∧ c.seekFallsThrough = true
instance SstCfg.decGood (c : SstCfg) : Decidable c.Good := by unfold SstCfg.Good; exact inferInstance

/-- the key order of the table (`utils.CompareKeys`; its own facts belong to C07) -/
def klt (a b : Bytes) : Bool := ckLt IdxCfg.good a b
def keq (a b : Bytes) : Bool := ckEq IdxCfg.good a b

/-! ### builder -/

/-- `keyDiff`: the part of `key` after its common prefix with the block base key -/
def keyDiff : Bytes → Bytes → Bytes
  | b :: base, k :: key => if k = b then keyDiff base key else k :: key
  | _, key => key

/-- what `blockIterator.setIdx` rebuilds: `baseKey[:overlap] ++ diff` -/
def rebuild (base : Bytes) (overlap : Nat) (diff : Bytes) : Bytes := base.take overlap ++ diff

/-- `ValueStruct.EncodedSize` / `Entry.EncodedSize` with meta < 128 and no expiry -/
def encSize (e : SEntry) : Nat := e.2.length + 2

/-- bytes an entry occupies inside a block: header(4) + diff + encoded value -/
def inBlockSize (base : Bytes) (e : SEntry) : Nat := 4 + (keyDiff base e.1).length + encSize e

/-- the first entry of a block is stored whole (`diffKey = key`, the base key is still empty) -/
def firstSize (e : SEntry) : Nat := 4 + e.1.length + encSize e

structure BState where
  done : List Block := []      -- finished blocks, in order
  cur : Block := []            -- entries of the current block, in order
  curEnd : Nat := 0            -- `curBlock.end`
  deriving Repr

def baseKey (b : Block) : Bytes := match b with | [] => [] | e :: _ => e.1

/-- `tryFinishBlock` -/
def shouldFinish (c : SstCfg) (blockSize : Nat) (s : BState) (e : SEntry) : Bool :=
  !s.cur.isEmpty &&
  c.splitOp.nat (s.curEnd + 6 + e.1.length + encSize e + ((s.cur.length + 1) * 4 + 4 + 8 + 4)) blockSize

/-- `tableBuilder.add` -/
def addEntry (c : SstCfg) (blockSize : Nat) (s : BState) (e : SEntry) : BState :=
  if s.cur.isEmpty then { s with cur := [e], curEnd := firstSize e }
  else if shouldFinish c blockSize s e then { done := s.done ++ [s.cur], cur := [e], curEnd := firstSize e }
  else { s with cur := s.cur ++ [e], curEnd := s.curEnd + inBlockSize (baseKey s.cur) e }

/-- `done()`: the block list of the finished table -/
def finish (s : BState) : List Block := if s.cur.isEmpty then s.done else s.done ++ [s.cur]

def buildBlocks (c : SstCfg) (blockSize : Nat) (es : List SEntry) : List Block :=
  finish (es.foldl (addEntry c blockSize) {})

/-! ### bloom filter (hash function = parameter) -/

def u32 : Nat := 4294967296

/-- bit positions probed for hash `h`: `h, h+δ, h+2δ, …` (32-bit wrap), `δ = rotr(h, 17)` -/
def probes (nBits k : Nat) (h : Nat) : List Nat :=
  let delta := (h / 131072 + h * 32768) % u32
  (List.range k).map (fun i => ((h + i * delta) % u32) % nBits)

def bloomBuild (nBits k : Nat) (hashes : List Nat) : List Nat := hashes.flatMap (probes nBits k)

def mayContain (nBits k : Nat) (filter : List Nat) (h : Nat) : Bool :=
  (probes nBits k h).all (fun p => filter.contains p)

/-! ### reader -/

def entLt (key : Bytes) (e : SEntry) : Bool := klt e.1 key
/-- `CompareKeys(e.key, key) OP 0` -/
def entOp (op : CmpOp) (key : Bytes) (e : SEntry) : Bool := op.eval (klt e.1 key) (keq e.1 key)

/-- ascending `Seek(key)` followed by `Next` until invalid: the remaining iteration.
The block is chosen as the last one whose successor's base key satisfies `tblSeekOp` (first
block after the target, minus one; block 0 when there is none before). -/
def seekFwd (c : SstCfg) (key : Bytes) : List Block → List SEntry
  | [] => []
  | [b] => b.dropWhile (fun e => !entOp c.blkFwdOp key e)
  | b :: b2 :: rest =>
    if c.tblSeekOp.eval (klt (baseKey b2) key) (keq (baseKey b2) key) then
      let r := b.dropWhile (fun e => !entOp c.blkFwdOp key e)
      if r.isEmpty then (if c.seekFallsThrough then (b2 :: rest).flatten else [])
      else r ++ (b2 :: rest).flatten
    else seekFwd c key (b2 :: rest)

/-- descending in-block seek: the entries before the first one satisfying `blkRevOp`, last
first, then the earlier blocks; nothing at all when the block has no such entry (`setIdx(-1)`) -/
def inBlockRev (c : SstCfg) (key : Bytes) (b : Block) (acc : List SEntry) : List SEntry :=
  let tw := b.takeWhile (fun e => !entOp c.blkRevOp key e)
  if tw.isEmpty then [] else tw.reverse ++ acc

/-- descending `Seek(key)` + `Next` until invalid; `acc` = the entries of the blocks already
passed, last first -/
def seekRevGo (c : SstCfg) (key : Bytes) : List SEntry → List Block → List SEntry
  | _, [] => []
  | acc, [b] => inBlockRev c key b acc
  | acc, b :: b2 :: rest =>
    if c.tblSeekOp.eval (klt (baseKey b2) key) (keq (baseKey b2) key) then inBlockRev c key b acc
    else seekRevGo c key (b.reverse ++ acc) (b2 :: rest)

def seekRev (c : SstCfg) (key : Bytes) (bs : List Block) : List SEntry :=
  match bs with
  | [] => []
  | b :: _ =>
    if c.tblSeekOp.eval (klt (baseKey b) key) (keq (baseKey b) key) then []   -- idx == 0: io.EOF
    else seekRevGo c key [] bs

def beVal (b : Bytes) : Nat := b.foldl (fun acc x => acc * 256 + x) 0
/-- `kv.ParseTs` -/
def verOf (k : Bytes) : Nat := maxU64 - beVal (tsOf k)

structure Table where
  blocks : List Block
  bloomOn : Bool
  nBits : Nat
  k : Nat
  filter : List Nat

/-- `tableBuilder` + `done()`; `hash` is applied to the user key (`kv.ParseKey`) of every entry -/
def buildTable (c : SstCfg) (hash : Bytes → Nat) (blockSize : Nat) (bloomOn : Bool) (bitsPerKey k : Nat)
    (es : List SEntry) : Table :=
  let nBits := ((max (es.length * bitsPerKey) 64 + 7) / 8) * 8
  { blocks := buildBlocks c blockSize es, bloomOn := bloomOn, nBits := nBits, k := k,
    filter := bloomBuild nBits k (es.map (fun e => hash (baseOf e.1))) }

/-- `table.Search(key, &maxVs)` with `maxVs = 0` -/
def search (c : SstCfg) (hash : Bytes → Nat) (t : Table) (key : Bytes) : Option Bytes :=
  let probe := if c.bloomSameProjection then baseOf key else key
  if t.bloomOn && !mayContain t.nBits t.k t.filter (hash probe) then none
  else
    match seekFwd c key t.blocks with
    | [] => none
    | e :: _ => if sameKey key e.1 && c.searchVsOp.nat 0 (verOf e.1) then some e.2 else none

/-! ### block trailer (`table.loadBlock`): `… | entry offsets | count(4) | checksum(8) | chkLen(4)` -/

/-- size in bytes of a finished block: entries, entry-offset list, count, checksum, checksum length -/
def blockBytes (b : Block) : Nat :=
  match b with
  | [] => 0
  | e :: rest => firstSize e + (rest.map (inBlockSize e.1)).sum + 4 * b.length + 16

inductive TrailerStep where
  | error                 -- "invalid checksum length"
  | panic                 -- `readPos -= chkLen` below zero: slice bounds out of range
  | cont (readPos : Nat)  -- checksum bytes start at `readPos`
  deriving DecidableEq, Repr

/-- first step of the trailer decoding for a block of `len` bytes whose last four bytes decode
(big-endian) to `chkLen` -/
def chkLenStep (c : SstCfg) (len chkLen : Nat) : TrailerStep :=
  let readPos := len - 4
  let bound := if c.chkLenGuardReadPos then readPos else len
  if chkLen > bound then .error
  else if chkLen > readPos then .panic
  else .cont (readPos - chkLen)

/-- the length field (written as 8) after one bit flip: bit `bit` of its byte `i` (0 = most significant) -/
def flippedChkLen (i bit : Nat) : Nat := Nat.xor 8 (2 ^ bit * 256 ^ (3 - i))

/-! ### block loads through the block cache (`table.loadBlock`) -/

inductive LoadRes where
  | err
  | ok (b : Block)
  deriving DecidableEq, Repr

/-- `loadBlock(idx)`.  `disk idx` = what decoding the bytes currently in the file yields for block
`idx` and whether its checksum matches; `cache` = decoded blocks by index.  A cache hit is returned
without re-verification. -/
def loadBlock (c : SstCfg) (disk : Nat → Block × Bool) (cache : List (Nat × Block)) (idx : Nat) :
    LoadRes × List (Nat × Block) :=
  match cache.lookup idx with
  | some b => (.ok b, cache)
  | none =>
    if c.verifyBeforeCache then
      (if (disk idx).2 then (.ok (disk idx).1, (idx, (disk idx).1) :: cache) else (.err, cache))
    else
      (if (disk idx).2 then (.ok (disk idx).1, (idx, (disk idx).1) :: cache) else (.err, (idx, (disk idx).1) :: cache))

/-- a sequence of loads; results in order -/
def loadSeq (c : SstCfg) (disk : Nat → Block × Bool) : List (Nat × Block) → List Nat → List LoadRes
  | _, [] => []
  | cache, i :: is => (loadBlock c disk cache i).1 :: loadSeq c disk (loadBlock c disk cache i).2 is

/-! ### loads that miss the cache while the file may change (level ≥ 2 / cache disabled / evicted) -/

/-- the checksum step of a load that missed the cache; `verified` = blocks this table handle
remembers as verified (only consulted when verification is not unconditional) -/
def verifyStep (c : SstCfg) (verified : List Nat) (idx : Nat) (crcOk : Bool) : Bool × List Nat :=
  if c.verifyEveryLoad then (crcOk, verified)
  else if verified.contains idx then (true, verified)
  else (crcOk, if crcOk then idx :: verified else verified)

/-- `loadBlock(idx)` on a cache miss: decode what is in the file *now*, verify, return -/
def loadUncached (c : SstCfg) (disk : Nat → Block × Bool) (verified : List Nat) (idx : Nat) :
    LoadRes × List Nat :=
  ((if (verifyStep c verified idx (disk idx).2).1 then .ok (disk idx).1 else .err),
   (verifyStep c verified idx (disk idx).2).2)

/-- a sequence of uncached loads; each step carries the file content at that moment -/
def loadSeqLive (c : SstCfg) : List Nat → List ((Nat → Block × Bool) × Nat) → List LoadRes
  | _, [] => []
  | verified, (disk, i) :: rest =>
    (loadUncached c disk verified i).1 :: loadSeqLive c (loadUncached c disk verified i).2 rest

/-! ### one long-lived table iterator as a cursor state machine

`rem` = the entries from the current one on, in iteration direction (`[]` = `!Valid()`): the
current block index and in-block position are the number of whole blocks / entries consumed.
`stale = some b`: the iterator ran off the table with `Next`; the block iterator still *names*
block `b` (`bi.block`, `bi.blockID`) but its views were dropped (`Next` unloads on leaving a
block and there was no further block to load).  `dead`: the call panicked. -/

structure Cur where
  rem : List SEntry := []
  stale : Option Nat := none
  dead : Bool := false
  deriving DecidableEq, Repr

inductive COp where
  | rewind
  | seek (key : Bytes)
  | next
  deriving DecidableEq, Repr

/-- first block whose base key satisfies `tblSeekOp`, minus one (`none`: there is none before) -/
def startBlockIdx (c : SstCfg) (key : Bytes) (blocks : List Block) : Option Nat :=
  let idx := (blocks.takeWhile (fun b => !(c.tblSeekOp.eval (klt (baseKey b) key) (keq (baseKey b) key)))).length
  if idx = 0 then none else some (idx - 1)

/-- `seekHelper(j)` when the reuse shortcut hits a block whose views were dropped: the in-block
search runs on an empty offset list (`none` = it panics on the nil data instead) -/
def staleHelper (c : SstCfg) : Option (List SEntry) := if c.nextUnloadsBoth then some [] else none

/-- `Seek` with the reuse shortcut (only reached when `seekReloads = false`) -/
def curSeekReuse (c : SstCfg) (blocks : List Block) (asc : Bool) (cur : Cur) (key : Bytes) : Cur :=
  let n := blocks.length
  let isStale (j : Nat) : Bool := cur.stale == some j
  if asc then
    let j := (startBlockIdx c key blocks).getD 0
    let r1 : Option (List SEntry) :=
      if isStale j then staleHelper c else some ((blocks.getD j []).dropWhile (fun e => !entOp c.blkFwdOp key e))
    match r1 with
    | none => { cur with rem := [], dead := true }
    | some r =>
      if !r.isEmpty then { rem := r ++ (blocks.drop (j + 1)).flatten, stale := if isStale j then cur.stale else none }
      else if c.seekFallsThrough && (startBlockIdx c key blocks).isSome && j + 1 < n then
        let r2 : Option (List SEntry) :=
          if isStale (j + 1) then staleHelper c else some (blocks.getD (j + 1) [])
        match r2 with
        | none => { cur with rem := [], dead := true }
        | some r' => { rem := r' ++ (if r'.isEmpty then [] else (blocks.drop (j + 2)).flatten),
                       stale := if isStale (j + 1) then cur.stale else none }
      else { rem := [], stale := if isStale j then cur.stale else none }
  else
    match startBlockIdx c key blocks with
    | none => { cur with rem := [] }
    | some j =>
      if isStale j then
        match staleHelper c with
        | none => { cur with rem := [], dead := true }
        | some _ => { cur with rem := [] }
      else
        { rem := inBlockRev c key (blocks.getD j []) ((blocks.take j).flatten.reverse), stale := none }

/-- one call on the cursor; `next` is only issued on a valid cursor -/
def curStep (c : SstCfg) (blocks : List Block) (asc : Bool) (cur : Cur) : COp → Cur
  | .rewind => { rem := if asc then blocks.flatten else blocks.flatten.reverse, stale := none }
  | .next =>
    match cur.rem with
    | [] => cur
    | [_] => { rem := [], stale := some (if asc then blocks.length - 1 else 0) }
    | _ :: r => { rem := r, stale := none }
  | .seek key =>
    if c.seekReloads then
      if asc then { rem := seekFwd c key blocks, stale := none }
      else
        match blocks with
        | [] => { rem := [], stale := none }
        | b :: _ =>
          -- idx == 0: `it.err = io.EOF` and nothing else is touched
          if c.tblSeekOp.eval (klt (baseKey b) key) (keq (baseKey b) key) then { cur with rem := [] }
          else { rem := seekRev c key blocks, stale := none }
    else curSeekReuse c blocks asc cur key

def curRun (c : SstCfg) (blocks : List Block) (asc : Bool) (ops : List COp) : Cur :=
  ops.foldl (curStep c blocks asc) {}

/-- the specification cursor over the stored entries -/
def specStep (es : List SEntry) (asc : Bool) (rem : List SEntry) : COp → List SEntry
  | .rewind => if asc then es else es.reverse
  | .next => rem.tail
  | .seek key =>
    if asc then es.dropWhile (fun e => klt e.1 key)
    else (es.takeWhile (fun e => !klt key e.1)).reverse

def specRun (es : List SEntry) (asc : Bool) (ops : List COp) : List SEntry :=
  ops.foldl (specStep es asc) []

/-- full iteration -/
def scan (t : Table) (asc : Bool) : List SEntry :=
  if asc then t.blocks.flatten else t.blocks.flatten.reverse

end NoKV.Sst

/-
Lemmas about the SST model (helper file for Props/C35.lean).
-/
import NoKVModel.Sst.Model
import NoKVModel.Index.RefLemmas

set_option linter.unusedSimpArgs false
set_option linter.unusedVariables false
namespace NoKV.Sst
open NoKV NoKV.Index

/-! ### builder: the blocks are a partition of the input, in order, into non-empty pieces -/

def contents (s : BState) : List SEntry := s.done.flatten ++ s.cur

theorem contents_addEntry (c : SstCfg) (bs : Nat) (s : BState) (e : SEntry) :
    contents (addEntry c bs s e) = contents s ++ [e] := by
  unfold addEntry contents
  by_cases h1 : s.cur.isEmpty = true
  · have : s.cur = [] := by simpa using h1
    simp [h1, this]
  · by_cases h2 : shouldFinish c bs s e = true
    · simp [h1, h2]
    · simp [h1, h2]

theorem contents_foldl (c : SstCfg) (bs : Nat) (es : List SEntry) (s : BState) :
    contents (es.foldl (addEntry c bs) s) = contents s ++ es := by
  induction es generalizing s with
  | nil => simp
  | cons e es ih => simp [List.foldl_cons, ih, contents_addEntry]

theorem finish_flatten (s : BState) : (finish s).flatten = contents s := by
  unfold finish contents
  by_cases h : s.cur.isEmpty = true
  · have : s.cur = [] := by simpa using h
    simp [h, this]
  · simp [h]

theorem buildBlocks_flatten (c : SstCfg) (bs : Nat) (es : List SEntry) :
    (buildBlocks c bs es).flatten = es := by
  unfold buildBlocks
  rw [finish_flatten, contents_foldl]
  simp [contents]

def DoneNonEmpty (s : BState) : Prop := ∀ b ∈ s.done, b ≠ []

theorem doneNonEmpty_addEntry (c : SstCfg) (bs : Nat) (s : BState) (e : SEntry) (h : DoneNonEmpty s) :
    DoneNonEmpty (addEntry c bs s e) := by
  unfold addEntry
  by_cases h1 : s.cur.isEmpty = true
  · simpa [h1, DoneNonEmpty] using h
  · by_cases h2 : shouldFinish c bs s e = true
    · simp only [h1, h2, if_true, Bool.false_eq_true, if_false, DoneNonEmpty]
      intro b hb
      simp only [List.mem_append, List.mem_singleton] at hb
      rcases hb with hb | hb
      · exact h b hb
      · subst hb; intro e'; simp [e'] at h1
    · simpa [h1, h2, DoneNonEmpty] using h

theorem doneNonEmpty_foldl (c : SstCfg) (bs : Nat) (es : List SEntry) (s : BState) (h : DoneNonEmpty s) :
    DoneNonEmpty (es.foldl (addEntry c bs) s) := by
  induction es generalizing s with
  | nil => simpa using h
  | cons e es ih => exact ih _ (doneNonEmpty_addEntry c bs s e h)

theorem buildBlocks_nonempty (c : SstCfg) (bs : Nat) (es : List SEntry) :
    ∀ b ∈ buildBlocks c bs es, b ≠ [] := by
  unfold buildBlocks finish
  have h := doneNonEmpty_foldl c bs es {} (by simp [DoneNonEmpty])
  intro b hb
  split at hb
  · exact h b hb
  · rename_i hne
    simp only [List.mem_append, List.mem_singleton] at hb
    rcases hb with hb | hb
    · exact h b hb
    · subst hb; intro e'; simp [e'] at hne

/-! ### prefix compression round trip -/

theorem rebuild_keyDiff (base key : Bytes) :
    rebuild base (key.length - (keyDiff base key).length) (keyDiff base key) = key := by
  induction base generalizing key with
  | nil => simp [keyDiff, rebuild]
  | cons b base ih =>
    cases key with
    | nil => simp [keyDiff, rebuild]
    | cons k key =>
      unfold keyDiff
      by_cases h : k = b
      · subst h
        have hlen : (keyDiff base key).length ≤ key.length := by
          have := congrArg List.length (ih key)
          simp [rebuild] at this
          omega
        have := ih key
        simp only [rebuild] at this ⊢
        simp only [if_true, List.length_cons]
        have e : key.length + 1 - (keyDiff base key).length = (key.length - (keyDiff base key).length) + 1 := by omega
        rw [e, List.take_succ_cons, List.cons_append, this]
      · simp [h, rebuild]

/-! ### bloom: no false negatives, for every hash function -/

theorem mayContain_of_mem (nBits k : Nat) (hashes : List Nat) (h : Nat) (hm : h ∈ hashes) :
    mayContain nBits k (bloomBuild nBits k hashes) h = true := by
  unfold mayContain bloomBuild
  rw [List.all_eq_true]
  intro p hp
  simp only [List.contains_eq_mem, decide_eq_true_eq, List.mem_flatMap]
  exact ⟨h, hm, hp⟩

/-! ### forward seek -/

theorem kst : StrictTotal klt := ck_strictTotal (c := IdxCfg.good) rfl

def SortedE (l : List SEntry) : Prop := Sorted klt l

theorem keq_false_of_lt {a b : Bytes} (h : klt a b = true) : keq a b = false := by
  unfold keq ckEq; unfold klt at h; simp [h]

theorem gt_eval (a key : Bytes) : CmpOp.gt.eval (klt a key) (keq a key) = klt key a := by
  simp only [CmpOp.eval]
  cases h1 : klt a key with
  | true => simp [kst.asymm h1]
  | false =>
    cases h2 : klt key a with
    | true =>
      have : keq a key = false := by unfold keq ckEq; unfold klt at h2; simp [h2]
      simp [this]
    | false =>
      have : a = key := kst.tri h1 h2
      subst this
      have : keq a a = true := by unfold keq ckEq; unfold klt at h1; simp [h1]
      simp [this]

theorem ge_eval (a key : Bytes) : CmpOp.ge.eval (klt a key) (keq a key) = !klt a key := by
  simp [CmpOp.eval]

theorem dropWhile_all {α : Type} (p : α → Bool) (l tail : List α) (h : ∀ x ∈ l, p x = true) :
    (l ++ tail).dropWhile p = tail.dropWhile p := by
  induction l with
  | nil => rfl
  | cons x xs ih =>
    have hx := h x (by simp)
    simp only [List.cons_append, List.dropWhile_cons, hx, if_true]
    exact ih (fun y hy => h y (by simp [hy]))

theorem dropWhile_nonempty_append {α : Type} (p : α → Bool) (l tail : List α)
    (h : (l.dropWhile p).isEmpty = false) : (l ++ tail).dropWhile p = l.dropWhile p ++ tail := by
  induction l with
  | nil => simp at h
  | cons x xs ih =>
    cases hp : p x with
    | true =>
      simp only [List.dropWhile_cons, hp, if_true] at h
      simp only [List.cons_append, List.dropWhile_cons, hp, if_true]
      exact ih h
    | false => simp [List.dropWhile_cons, hp]

theorem dropWhile_empty_all {α : Type} (p : α → Bool) (l : List α) (h : (l.dropWhile p).isEmpty = true) :
    ∀ x ∈ l, p x = true := by
  induction l with
  | nil => simp
  | cons x xs ih =>
    cases hp : p x with
    | true =>
      simp only [List.dropWhile_cons, hp, if_true] at h
      intro y hy
      simp only [List.mem_cons] at hy
      rcases hy with hy | hy
      · subst hy; exact hp
      · exact ih h y hy
    | false => simp [List.dropWhile_cons, hp] at h

theorem seekFwd_cons2 (c : SstCfg) (key : Bytes) (b b2 : Block) (rest : List Block) :
    seekFwd c key (b :: b2 :: rest) =
      if c.tblSeekOp.eval (klt (baseKey b2) key) (keq (baseKey b2) key) then
        (if (b.dropWhile (fun e => !entOp c.blkFwdOp key e)).isEmpty then
          (if c.seekFallsThrough then (b2 :: rest).flatten else [])
         else b.dropWhile (fun e => !entOp c.blkFwdOp key e) ++ (b2 :: rest).flatten)
      else seekFwd c key (b2 :: rest) := by
  rw [seekFwd]

/-- Main lemma.  With every decision except the next-block continuation as intended: the
ascending seek is the specification `dropWhile (< key)`, or — only when the continuation is
missing — it is empty and the target is not a stored key. -/
theorem seekFwd_spec (c : SstCfg) (hc : c.GoodButSeek) (key : Bytes) (blocks : List Block)
    (hne : ∀ b ∈ blocks, b ≠ []) (hs : SortedE blocks.flatten) :
    seekFwd c key blocks = blocks.flatten.dropWhile (fun e => klt e.1 key) ∨
    (c.seekFallsThrough = false ∧ seekFwd c key blocks = [] ∧ ∀ e ∈ blocks.flatten, e.1 ≠ key) := by
  obtain ⟨so, nb, ts, bf, br, sv, bp, vc, cg, ve, sr, nu⟩ := c
  simp only [SstCfg.GoodButSeek] at hc
  obtain ⟨rfl, rfl, rfl, rfl, rfl, rfl⟩ := hc
  induction blocks with
  | nil => left; simp [seekFwd]
  | cons b rest ih =>
    cases rest with
    | nil =>
      left
      simp only [seekFwd, entOp, ge_eval, Bool.not_not, List.flatten_cons, List.flatten_nil, List.append_nil]
    | cons b2 rest =>
      have hb2 : b2 ≠ [] := hne b2 (by simp)
      have hs' : SortedE (b ++ (b2 :: rest).flatten) := by simpa using hs
      unfold SortedE Sorted at hs'
      rw [List.pairwise_append] at hs'
      obtain ⟨_, hst, hcross⟩ := hs'
      obtain ⟨e2, t2, hb2e⟩ := List.exists_cons_of_ne_nil hb2
      have hbk : baseKey b2 = e2.1 := by rw [hb2e]; rfl
      have htl : (b2 :: rest).flatten = e2 :: (t2 ++ rest.flatten) := by rw [hb2e]; simp
      have hfl : (b :: b2 :: rest).flatten = b ++ (b2 :: rest).flatten := by simp
      rw [seekFwd_cons2, hfl]
      simp only [entOp, ge_eval, gt_eval, Bool.not_not, hbk]
      generalize htail : (b2 :: rest).flatten = tail at *
      cases hcond : klt key e2.1 with
      | true =>
        simp only [if_true]
        have hstop : tail.dropWhile (fun e => klt e.1 key) = tail := by
          rw [htl]; simp [List.dropWhile_cons, kst.asymm hcond]
        cases hr : (b.dropWhile (fun e => klt e.1 key)).isEmpty with
        | true =>
          have hall := dropWhile_empty_all _ _ hr
          cases nb with
          | true =>
            left
            simp only [if_true]
            rw [dropWhile_all _ _ _ hall, hstop]
          | false =>
            right
            refine ⟨rfl, by simp, ?_⟩
            intro e he
            rw [List.mem_append] at he
            rcases he with he | he
            · intro heq
              have := hall e he
              simp only [heq, kst.irrefl] at this
              cases this
            · intro heq
              -- every later entry is ≥ e2 > key
              have hge : klt key e.1 = true := by
                rw [htl, List.mem_cons] at he
                rcases he with he | he
                · subst he; exact hcond
                · rw [htl, List.pairwise_cons] at hst
                  exact kst.trans hcond (hst.1 e he)
              rw [heq, kst.irrefl] at hge
              cases hge
        | false =>
          left
          simp only [Bool.false_eq_true, if_false]
          rw [dropWhile_nonempty_append _ _ _ hr]
      | false =>
        simp only [Bool.false_eq_true, if_false]
        -- every entry of b is < e2 ≤ key
        have hall : ∀ x ∈ b, klt x.1 key = true := by
          intro x hx
          have h1 : klt x.1 e2.1 = true := hcross x hx e2 (by rw [htl]; simp)
          cases h2 : klt e2.1 key with
          | true => exact kst.trans h1 h2
          | false => have := kst.tri h2 hcond; rw [← this]; exact h1
        have ih' := ih (fun b' hb' => hne b' (by simp [hb'])) hst
        rw [dropWhile_all _ _ _ hall]
        rcases ih' with ih' | ⟨h1, h2, h3⟩
        · left; exact ih'
        · right
          refine ⟨h1, h2, ?_⟩
          intro e he
          rw [List.mem_append] at he
          rcases he with he | he
          · intro heq
            have := hall e he
            rw [heq, kst.irrefl] at this
            cases this
          · exact h3 e he

/-! ### reverse seek -/

theorem takeWhile_all' {α : Type} (p : α → Bool) (l tail : List α) (h : ∀ x ∈ l, p x = true) :
    (l ++ tail).takeWhile p = l ++ tail.takeWhile p := by
  induction l with
  | nil => rfl
  | cons x xs ih =>
    simp only [List.cons_append, List.takeWhile_cons, h x (by simp), if_true]
    rw [ih (fun y hy => h y (by simp [hy]))]

theorem takeWhile_stop {α : Type} (p : α → Bool) (l tail : List α) (h : tail.takeWhile p = []) :
    (l ++ tail).takeWhile p = l.takeWhile p := by
  induction l with
  | nil => simpa using h
  | cons x xs ih =>
    simp only [List.cons_append, List.takeWhile_cons]
    cases p x <;> simp [ih]

/-- Descending seek inside the table (`base key of the first block ≤ target`): the entries `≤`
the target, last first, followed by what the earlier blocks contributed. -/
theorem seekRevGo_spec (c : SstCfg) (hc : c.GoodButSeek) (key : Bytes) :
    ∀ (bs : List Block) (acc : List SEntry), bs ≠ [] → (∀ b ∈ bs, b ≠ []) → SortedE bs.flatten →
      klt key (baseKey (bs.headD [])) = false →
      seekRevGo c key acc bs = (bs.flatten.takeWhile (fun e => !klt key e.1)).reverse ++ acc := by
  obtain ⟨so, nb, ts, bf, br, sv, bp, vc, cg, ve, sr, nu⟩ := c
  simp only [SstCfg.GoodButSeek] at hc
  obtain ⟨rfl, rfl, rfl, rfl, rfl, rfl⟩ := hc
  intro bs
  induction bs with
  | nil => intro acc h; exact absurd rfl h
  | cons b rest ih =>
    intro acc _ hne hs hbase
    obtain ⟨e1, t1, hb⟩ := List.exists_cons_of_ne_nil (hne b (by simp))
    have hhead : (!klt key e1.1) = true := by
      rw [hb] at hbase; simpa [baseKey] using hbase
    have htw_ne : (b.takeWhile (fun e => !klt key e.1)).isEmpty = false := by
      rw [hb]; simp [List.takeWhile_cons, hhead]
    cases rest with
    | nil =>
      simp only [seekRevGo, inBlockRev, entOp, gt_eval, htw_ne, Bool.false_eq_true, if_false,
        List.flatten_cons, List.flatten_nil, List.append_nil]
    | cons b2 rest =>
      have hb2 : b2 ≠ [] := hne b2 (by simp)
      obtain ⟨e2, t2, hb2e⟩ := List.exists_cons_of_ne_nil hb2
      have hbk : baseKey b2 = e2.1 := by rw [hb2e]; rfl
      have hfl : (b :: b2 :: rest).flatten = b ++ (b2 :: rest).flatten := by simp
      have htl : (b2 :: rest).flatten = e2 :: (t2 ++ rest.flatten) := by rw [hb2e]; simp
      have hs' : SortedE (b ++ (b2 :: rest).flatten) := by rw [← hfl]; exact hs
      unfold SortedE Sorted at hs'
      rw [List.pairwise_append] at hs'
      obtain ⟨_, hst, hcross⟩ := hs'
      rw [seekRevGo, hfl]
      simp only [gt_eval, hbk]
      cases hcond : klt key e2.1 with
      | true =>
        simp only [if_true, inBlockRev, entOp, gt_eval, htw_ne, Bool.false_eq_true, if_false]
        have hstop : ((b2 :: rest).flatten).takeWhile (fun e => !klt key e.1) = [] := by
          rw [htl]; simp [List.takeWhile_cons, hcond]
        rw [takeWhile_stop _ _ _ hstop]
      | false =>
        simp only [Bool.false_eq_true, if_false]
        have hall : ∀ x ∈ b, (!klt key x.1) = true := by
          intro x hx
          have h1 : klt x.1 e2.1 = true := hcross x hx e2 (by rw [htl]; simp)
          cases h2 : klt key x.1 with
          | false => rfl
          | true => have := kst.trans h2 h1; rw [hcond] at this; cases this
        rw [takeWhile_all' _ _ _ hall, List.reverse_append, List.append_assoc]
        exact ih (b.reverse ++ acc) (by simp) (fun b' hb' => hne b' (by simp [hb'])) hst
          (by simpa [hb2e, baseKey] using hcond)

theorem seekRev_spec (c : SstCfg) (hc : c.GoodButSeek) (key : Bytes) (blocks : List Block)
    (hne : ∀ b ∈ blocks, b ≠ []) (hs : SortedE blocks.flatten) :
    seekRev c key blocks = (blocks.flatten.takeWhile (fun e => !klt key e.1)).reverse := by
  cases blocks with
  | nil => simp [seekRev]
  | cons b rest =>
    obtain ⟨e1, t1, hb⟩ := List.exists_cons_of_ne_nil (hne b (by simp))
    have htop : c.tblSeekOp = .gt := hc.2.1
    simp only [seekRev, htop, gt_eval]
    cases hcond : klt key (baseKey b) with
    | true =>
      simp only [if_true]
      have : klt key e1.1 = true := by rw [hb] at hcond; simpa [baseKey] using hcond
      rw [hb]; simp [List.takeWhile_cons, this]
    | false =>
      simp only [Bool.false_eq_true, if_false]
      have := seekRevGo_spec c hc key (b :: rest) [] (by simp) hne hs (by simpa using hcond)
      simpa using this

/-- the first entry `≥` a stored key is that entry -/
theorem dropWhile_mem_head {l : List SEntry} (hs : SortedE l) {e : SEntry} (he : e ∈ l) :
    ∃ tail, l.dropWhile (fun x => klt x.1 e.1) = e :: tail := by
  induction l with
  | nil => simp at he
  | cons x xs ih =>
    unfold SortedE Sorted at hs ih
    rw [List.pairwise_cons] at hs
    simp only [List.mem_cons] at he
    rcases he with he | he
    · subst he
      exact ⟨xs, by simp [List.dropWhile_cons, kst.irrefl]⟩
    · have : klt x.1 e.1 = true := hs.1 e he
      obtain ⟨tail, ht⟩ := ih hs.2 he
      exact ⟨tail, by simp [List.dropWhile_cons, this, ht]⟩

end NoKV.Sst

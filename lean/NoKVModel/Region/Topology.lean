/-
Model of `config.(*File).Validate`.
-/
import NoKVModel.Base.Bytes

namespace NoKV.Region

structure TPeer where
  store : Nat
  peer : Nat
  deriving DecidableEq, Repr

structure TRegion where
  id : Nat
  leader : Nat
  peers : List TPeer
  deriving DecidableEq, Repr

structure Topo where
  templ : Bytes          -- store_work_dir_template
  dockerTempl : Bytes    -- store_docker_work_dir_template
  stores : List Nat
  regions : List TRegion
  deriving DecidableEq, Repr

/-- Which clauses `Validate` contains (one flag per `if … return fmt.Errorf`). -/
structure TopoCfg where
  chkTempl : Bool
  chkDockerTempl : Bool
  chkStoreZero : Bool
  chkStoreDup : Bool
  chkRegionZero : Bool
  chkLeaderKnown : Bool
  chkPeerZero : Bool
  chkPeerKnown : Bool
  deriving DecidableEq, Repr

def TopoCfg.good : TopoCfg := ⟨true, true, true, true, true, true, true, true⟩

def TopoCfg.Good (c : TopoCfg) : Prop := c = TopoCfg.good

instance TopoCfg.decGood (c : TopoCfg) : Decidable c.Good := by unfold TopoCfg.Good; exact inferInstance

def isSpace (b : Nat) : Bool := b == 9 || b == 10 || b == 11 || b == 12 || b == 13 || b == 32

def trimSpace (l : Bytes) : Bytes := ((l.dropWhile isSpace).reverse.dropWhile isSpace).reverse

def hasSub (pat : Bytes) : Bytes → Bool
  | [] => pat.isEmpty
  | x :: xs => pat.isPrefixOf (x :: xs) || hasSub pat xs

def idPat : Bytes := [0x7b, 0x69, 0x64, 0x7d]   -- "{id}"

def templBad (t : Bytes) : Bool := trimSpace t ≠ [] && !hasSub idPat (trimSpace t)

inductive TErr where
  | ok | templ | dockerTempl | storeZero | storeDup | regionZero | leaderMissing | peerZero | peerUnknown
  deriving DecidableEq, Repr

def TErr.str : TErr → String
  | .ok => "ok" | .templ => "templ" | .dockerTempl => "docker-templ" | .storeZero => "store-zero"
  | .storeDup => "store-dup" | .regionZero => "region-zero" | .leaderMissing => "leader-missing"
  | .peerZero => "peer-zero" | .peerUnknown => "peer-unknown"

def chkStores (c : TopoCfg) (seen : List Nat) : List Nat → TErr × List Nat
  | [] => (.ok, seen)
  | s :: rest =>
    if c.chkStoreZero ∧ s = 0 then (.storeZero, seen)
    else if c.chkStoreDup ∧ s ∈ seen then (.storeDup, seen)
    else chkStores c (s :: seen) rest

def chkPeers (c : TopoCfg) (known : List Nat) : List TPeer → TErr
  | [] => .ok
  | p :: rest =>
    if c.chkPeerZero ∧ (p.store = 0 ∨ p.peer = 0) then .peerZero
    else if c.chkPeerKnown ∧ p.store ∉ known then .peerUnknown
    else chkPeers c known rest

def chkRegions (c : TopoCfg) (known : List Nat) : List TRegion → TErr
  | [] => .ok
  | r :: rest =>
    if c.chkRegionZero ∧ r.id = 0 then .regionZero
    else if c.chkLeaderKnown ∧ r.leader ≠ 0 ∧ r.leader ∉ known then .leaderMissing
    else if chkPeers c known r.peers = .ok then chkRegions c known rest
    else chkPeers c known r.peers

def validateTopo (c : TopoCfg) (t : Topo) : TErr :=
  if c.chkTempl ∧ templBad t.templ then .templ
  else if c.chkDockerTempl ∧ templBad t.dockerTempl then .dockerTempl
  else if (chkStores c [] t.stores).1 = .ok then chkRegions c (chkStores c [] t.stores).2 t.regions
  else (chkStores c [] t.stores).1

/-- The statement's well-formedness, clause by clause. -/
def wellFormed (t : Topo) : Prop :=
  templBad t.templ = false ∧ templBad t.dockerTempl = false ∧
  (∀ s ∈ t.stores, s ≠ 0) ∧ t.stores.Nodup ∧
  (∀ r ∈ t.regions, r.id ≠ 0 ∧ (r.leader ≠ 0 → r.leader ∈ t.stores) ∧
     ∀ p ∈ r.peers, p.store ≠ 0 ∧ p.peer ≠ 0 ∧ p.store ∈ t.stores)

instance decWellFormed (t : Topo) : Decidable (wellFormed t) := by unfold wellFormed; exact inferInstance

end NoKV.Region

/-
Model of the store-side region catalog: `raftstore/store/region_manager.go`
(`updateRegion`, `removeRegion`, `validRegionStateTransition`) and
`admin_service.go` (`SplitRegion`, `handleMergeCommand`), plus the manifest edits they log.
-/
import NoKVModel.Region.PD

namespace NoKV.Region

inductive MergeRule where
  /-- as in the pinned tree: only ever extend the target's end key -/
  | extendEndOnly
  /-- extend whichever side is adjacent to the source, refuse non-adjacent pairs -/
  | adjacent
  deriving DecidableEq, Repr

structure CatCfg where
  mergeRule : MergeRule
  /-- the `(current, next)` pairs `validRegionStateTransition` allows besides `current == next` -/
  transitions : List (Nat × Nat)
  /-- `bytes.Compare(child.Start, parent.Start) <op> 0` ⇒ split refused -/
  splitStartOp : CmpOp
  /-- `bytes.Compare(child.Start, parent.End) <op> 0` ⇒ split refused (parent end bounded) -/
  splitEndOp : CmpOp
  splitBumpsVersion : Bool
  mergeBumpsVersion : Bool
  deriving DecidableEq, Repr

def CatCfg.good : CatCfg :=
  { mergeRule := .adjacent, transitions := [(0, 1), (1, 2), (1, 3), (2, 3)],
    splitStartOp := .le, splitEndOp := .ge, splitBumpsVersion := true, mergeBumpsVersion := true }

def CatCfg.SplitGood (c : CatCfg) : Prop :=
  c.splitStartOp = .le ∧ c.splitEndOp = .ge ∧ c.splitBumpsVersion = true

instance CatCfg.decSplitGood (c : CatCfg) : Decidable c.SplitGood := by unfold CatCfg.SplitGood; exact inferInstance

def CatCfg.TransGood (c : CatCfg) : Prop := c.transitions = [(0, 1), (1, 2), (1, 3), (2, 3)]

instance CatCfg.decTransGood (c : CatCfg) : Decidable c.TransGood := by unfold CatCfg.TransGood; exact inferInstance

def CatCfg.MergeGood (c : CatCfg) : Prop := c.mergeRule = .adjacent ∧ c.mergeBumpsVersion = true

instance CatCfg.decMergeGood (c : CatCfg) : Decidable c.MergeGood := by unfold CatCfg.MergeGood; exact inferInstance

def CatCfg.Good (c : CatCfg) : Prop := c.SplitGood ∧ c.MergeGood ∧ c.TransGood

instance CatCfg.decGood (c : CatCfg) : Decidable c.Good := by unfold CatCfg.Good; exact inferInstance

abbrev Catalog := List Meta

def find (rs : Catalog) (id : Nat) : Option Meta := rs.find? (fun m => m.id == id)

def put (rs : Catalog) (m : Meta) : Catalog := m :: rs.filter (fun o => o.id ≠ m.id)

def del (rs : Catalog) (id : Nat) : Catalog := rs.filter (fun o => o.id ≠ id)

def validTrans (c : CatCfg) (cur next : Nat) : Bool :=
  cur == next || c.transitions.any (fun p => p.1 == cur && p.2 == next)

/-- `if metaCopy.State == 0 { metaCopy.State = Running }` -/
def normState (m : Meta) : Meta := if m.state = 0 then { m with state := 1 } else m

def curState (rs : Catalog) (id : Nat) : Nat :=
  match find rs id with
  | some e => e.state
  | none => 0

/-- `regionManager.updateRegion`; `none` = error, nothing changed. -/
def update (c : CatCfg) (rs : Catalog) (m : Meta) : Option Catalog :=
  if m.id = 0 then none
  else if validTrans c (curState rs m.id) (normState m).state then some (put rs (normState m)) else none

/-- `regionManager.removeRegion` -/
def removeRegion (c : CatCfg) (rs : Catalog) (id : Nat) : Option Catalog :=
  if id = 0 then none
  else match find rs id with
    | none => none
    | some m =>
      let rs1 := if m.state ≠ 3 then update c rs { m with state := 3 } else some rs
      rs1.map (fun r => del r id)

/-- `regionManager.updateRegionState` -/
def setState (c : CatCfg) (rs : Catalog) (id st : Nat) : Option Catalog :=
  if id = 0 then none
  else match find rs id with
    | none => none
    | some m => update c rs { m with state := st }

def bumpVer (b : Bool) (m : Meta) : Meta :=
  if b then { m with epoch := { m.epoch with ver := m.epoch.ver + 1 } } else m

/-- `Store.SplitRegion` as reached from `handleSplitCommand` (child state forced to running,
split key = child start). -/
def split (c : CatCfg) (rs : Catalog) (parentId : Nat) (child : Meta) : Option Catalog :=
  if parentId = 0 ∨ child.id = 0 ∨ child.start = [] then none
  else match find rs parentId with
    | none => none
    | some p =>
      if p.end_ ≠ [] ∧ bcmp c.splitEndOp child.start p.end_ then none
      else if bcmp c.splitStartOp child.start p.start then none
      else
        let p' := bumpVer c.splitBumpsVersion { p with end_ := child.start }
        match update c rs p' with
        | none => none
        | some rs1 =>
          match update c rs1 { child with state := 1 } with
          | none => none            -- child start failed ⇒ parent rolled back
          | some rs2 => some rs2

/-- target already updated to `t'`; now drop the source.  If dropping fails the real code
returns an error but keeps the updated target — so does the model. -/
def finishMerge (c : CatCfg) (rs : Catalog) (t' : Meta) (sid : Nat) : Catalog × Bool :=
  match update c rs t' with
  | none => (rs, false)
  | some rs1 =>
    match removeRegion c rs1 sid with
    | none => (rs1, false)
    | some rs2 => (rs2, true)

def merge (c : CatCfg) (rs : Catalog) (targetId sourceId : Nat) : Catalog × Bool :=
  match find rs targetId, find rs sourceId with
  | some t, some s =>
    match c.mergeRule with
    | .extendEndOnly =>
      let t1 := bumpVer c.mergeBumpsVersion t
      let t' := if s.end_ = [] ∨ Bytes.lt t1.end_ s.end_ then { t1 with end_ := s.end_ } else t1
      finishMerge c rs t' s.id
    | .adjacent =>
      if t.id = s.id then (rs, false)
      else if t.end_ ≠ [] ∧ s.start = t.end_ then
        finishMerge c rs { bumpVer c.mergeBumpsVersion t with end_ := s.end_ } s.id
      else if s.end_ ≠ [] ∧ s.end_ = t.start then
        finishMerge c rs { bumpVer c.mergeBumpsVersion t with start := s.start } s.id
      else (rs, false)
  | _, _ => (rs, false)

inductive COp where
  | split (parent : Nat) (child : Meta)
  | merge (target source : Nat)
  | remove (id : Nat)
  | setState (id st : Nat)
  deriving Repr

def ofOpt (rs : Catalog) : Option Catalog → Catalog × Bool
  | some r => (r, true)
  | none => (rs, false)

/-- one admin operation: new catalog and whether the call reported success -/
def cstep (c : CatCfg) (rs : Catalog) : COp → Catalog × Bool
  | .split p ch => ofOpt rs (split c rs p ch)
  | .merge t s => merge c rs t s
  | .remove id => ofOpt rs (removeRegion c rs id)
  | .setState id st => ofOpt rs (setState c rs id st)

def capply (c : CatCfg) (rs : Catalog) (op : COp) : Catalog := (cstep c rs op).1

def covers (rs : Catalog) (k : Bytes) : Prop := ∃ r ∈ rs, contains r k

instance decCovers (rs : Catalog) (k : Bytes) : Decidable (covers rs k) := by unfold covers; exact inferInstance

/-! Manifest side: every catalog mutation is logged as a region edit; reload replays them. -/

inductive REdit where
  | upd (m : Meta)
  | delete (id : Nat)
  deriving Repr

def replayEdit (rs : Catalog) : REdit → Catalog
  | .upd m => put rs m
  | .delete id => del rs id

end NoKV.Region

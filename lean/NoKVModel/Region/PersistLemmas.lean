import NoKVModel.Region.Persist
import NoKVModel.Region.CatalogLemmas

namespace NoKV.Region

theorem find_filter_ne (rs : Catalog) (i id : Nat) (h : i ≠ id) :
    find (rs.filter (fun o => o.id ≠ i)) id = find rs id := by
  unfold find
  induction rs with
  | nil => rfl
  | cons a rs ih =>
    rw [List.filter_cons]
    split
    · rw [List.find?_cons, List.find?_cons, ih]
    · rename_i hf
      have ha : a.id = i := by simpa using hf
      have hb : (a.id == id) = false := by
        rw [ha]; exact beq_false_of_ne h
      rw [List.find?_cons, hb]
      exact ih

theorem find_filter_eq (rs : Catalog) (i : Nat) :
    find (rs.filter (fun o => o.id ≠ i)) i = none := by
  unfold find
  rw [List.find?_eq_none]
  intro x hx
  rw [List.mem_filter] at hx
  have : x.id ≠ i := by simpa using hx.2
  simpa using this

theorem find_cons (a : Meta) (rs : Catalog) (id : Nat) :
    find (a :: rs) id = if a.id = id then some a else find rs id := by
  unfold find
  rw [List.find?_cons]
  by_cases h : a.id = id
  · have : (a.id == id) = true := by rw [h]; exact beq_self_eq_true id
    rw [this, if_pos h]
  · have : (a.id == id) = false := beq_false_of_ne h
    rw [this, if_neg h]

theorem find_put (rs : Catalog) (m : Meta) (id : Nat) :
    find (put rs m) id = if m.id = id then some m else find rs id := by
  show find (m :: rs.filter (fun o => o.id ≠ m.id)) id = _
  rw [find_cons]
  by_cases h : m.id = id
  · rw [if_pos h, if_pos h]
  · rw [if_neg h, if_neg h]
    exact find_filter_ne rs m.id id h

theorem find_del (rs : Catalog) (i id : Nat) :
    find (del rs i) id = if i = id then none else find rs id := by
  unfold del
  by_cases h : i = id
  · subst h; rw [if_pos rfl]; exact find_filter_eq rs i
  · rw [if_neg h]; exact find_filter_ne rs i id h

theorem eqv_refl (a : Catalog) : Eqv a a := fun _ => rfl

theorem eqv_put {a b : Catalog} (h : Eqv a b) (m : Meta) : Eqv (put a m) (put b m) := by
  intro id; rw [find_put, find_put, h id]

theorem eqv_del {a b : Catalog} (h : Eqv a b) (i : Nat) : Eqv (del a i) (del b i) := by
  intro id; rw [find_del, find_del, h id]

theorem eqv_replayEdit {a b : Catalog} (h : Eqv a b) (e : REdit) : Eqv (replayEdit a e) (replayEdit b e) := by
  cases e with
  | upd m => exact eqv_put h m
  | delete i => exact eqv_del h i

theorem eqv_foldl {a b : Catalog} (h : Eqv a b) (es : List REdit) :
    Eqv (es.foldl replayEdit a) (es.foldl replayEdit b) := by
  induction es generalizing a b with
  | nil => exact h
  | cons e es ih => exact ih (eqv_replayEdit h e)

theorem replay_append (log : List REdit) (e : REdit) : replay (log ++ [e]) = replayEdit (replay log) e := by
  simp [replay, List.foldl_append]

theorem replay_append_list (log es : List REdit) : replay (log ++ es) = es.foldl replayEdit (replay log) := by
  simp [replay, List.foldl_append]

theorem find_foldr_put (rs : Catalog) (id : Nat) :
    find (rs.foldr (fun m acc => put acc m) []) id = find rs id := by
  induction rs with
  | nil => rfl
  | cons a rs ih =>
    rw [List.foldr_cons, find_put, ih, find_cons]

/-- replaying a snapshot written from `rs` gives `rs` back (id by id) -/
theorem replay_snapshot_all (rs : Catalog) (id : Nat) :
    find (replay ((rs.reverse).map REdit.upd)) id = find rs id := by
  have hfold : replay ((rs.reverse).map REdit.upd) = rs.foldr (fun m acc => put acc m) [] := by
    unfold replay
    rw [List.foldl_map, List.foldl_reverse]
    rfl
  rw [hfold]
  exact find_foldr_put rs id

end NoKV.Region

import NoKVModel.Region.CatalogLemmas

namespace NoKV.Region
open Bytes

theorem overlapG_congr_left {a a' : Meta} (b : Meta) (h1 : a.start = a'.start) (h2 : a.end_ = a'.end_) :
    overlapG a b = overlapG a' b := by unfold overlapG; rw [h1, h2]

theorem proper_congr {a a' : Meta} (h1 : a.start = a'.start) (h2 : a.end_ = a'.end_) (h : proper a') :
    proper a := by unfold proper at *; rw [h1, h2]; exact h

theorem contains_congr {a a' : Meta} (k : Bytes) (h1 : a.start = a'.start) (h2 : a.end_ = a'.end_) :
    contains a k ↔ contains a' k := by unfold contains; rw [h1, h2]

theorem bumpVer_fields (b : Bool) (m : Meta) :
    (bumpVer b m).id = m.id ∧ (bumpVer b m).start = m.start ∧ (bumpVer b m).end_ = m.end_ ∧
    (bumpVer b m).state = m.state ∧ (bumpVer b m).epoch.conf = m.epoch.conf ∧
    (bumpVer b m).peers = m.peers := by
  unfold bumpVer; cases b <;> simp

theorem bumpVer_ver (m : Meta) : (bumpVer true m).epoch.ver = m.epoch.ver + 1 := by
  simp [bumpVer]

/-- the list-structural part of the invariant (no geometry) -/
structure WInv (rs : Catalog) : Prop where
  nodup : rs.Pairwise (fun x y => x.id ≠ y.id)
  states : ∀ a ∈ rs, 1 ≤ a.state ∧ a.state ≤ 3
  nonzero : ∀ a ∈ rs, a.id ≠ 0

theorem CInv.weak {rs : Catalog} (h : CInv rs) : WInv rs := ⟨h.nodup, h.states, h.nonzero⟩

theorem winv_del {rs : Catalog} (h : WInv rs) (i : Nat) : WInv (del rs i) :=
  ⟨List.Pairwise.filter _ h.nodup, fun a ha => h.states a (mem_del.mp ha).1,
   fun a ha => h.nonzero a (mem_del.mp ha).1⟩

theorem winv_put {rs : Catalog} (h : WInv rs) (m : Meta) (h0 : m.id ≠ 0)
    (hs : 1 ≤ m.state ∧ m.state ≤ 3) : WInv (put rs m) := by
  refine ⟨?_, ?_, ?_⟩
  · unfold put
    apply List.Pairwise.cons
    · intro y hy
      rw [List.mem_filter] at hy
      exact fun e => (by simpa using hy.2 : y.id ≠ m.id) e.symm
    · exact List.Pairwise.filter _ h.nodup
  · intro a ha
    rcases mem_put.mp ha with ha | ha
    · subst ha; exact hs
    · exact h.states a ha.1
  · intro a ha
    rcases mem_put.mp ha with ha | ha
    · subst ha; exact h0
    · exact h.nonzero a ha.1

/-- Removing a catalogued region always succeeds under the good transition table, and leaves
exactly the other regions. -/
theorem removeRegion_mem (c : CatCfg) (ht : c.TransGood) {rs : Catalog} (hI : WInv rs) {s : Meta}
    (hs : s ∈ rs) :
    ∃ rs2, removeRegion c rs s.id = some rs2 ∧ WInv rs2 ∧ ∀ x, x ∈ rs2 ↔ (x ∈ rs ∧ x.id ≠ s.id) := by
  have h0 := hI.nonzero s hs
  have hf := find_of_mem hI.nodup hs
  obtain ⟨hs1, hs3⟩ := hI.states s hs
  unfold removeRegion
  rw [if_neg h0, hf]
  simp only
  by_cases h3 : s.state = 3
  · rw [if_neg (by simpa using h3)]
    simp only [Option.map_some]
    exact ⟨_, rfl, winv_del hI _, fun x => mem_del⟩
  · rw [if_pos h3]
    have hupd : update c rs { s with state := 3 } = some (put rs { s with state := 3 }) := by
      unfold update
      have hn : ({ s with state := 3 } : Meta).state ≠ 0 := by simp
      rw [if_neg (by simpa using h0), normState_of_ne hn]
      have : curState rs ({ s with state := 3 } : Meta).id = s.state := curState_of_mem hI.nodup hs
      rw [this]
      have hv : validTrans c s.state 3 = true := by
        rw [validTrans_iff c ht]
        have : s.state = 1 ∨ s.state = 2 := by omega
        rcases this with h | h
        · exact Or.inr (Or.inr (Or.inr (Or.inl ⟨h, rfl⟩)))
        · exact Or.inr (Or.inr (Or.inr (Or.inr ⟨h, rfl⟩)))
      simp only [hv, if_true]
    rw [hupd]
    simp only [Option.map_some]
    refine ⟨_, rfl, ?_, ?_⟩
    · apply winv_del
      apply winv_put hI
      · exact h0
      · simp
    · intro x
      rw [mem_del, mem_put]
      constructor
      · rintro ⟨h | h, hne⟩
        · subst h; exact absurd rfl hne
        · exact ⟨h.1, hne⟩
      · rintro ⟨h, hne⟩
        exact ⟨Or.inr ⟨h, hne⟩, hne⟩

/-- CInv from a membership characterisation: a sub-catalog of a `CInv` catalog. -/
theorem cinv_of_subset {rs rs2 : Catalog} (hI : CInv rs) (hw : WInv rs2)
    (hsub : ∀ x ∈ rs2, x ∈ rs) : CInv rs2 :=
  ⟨hw.nodup, fun a ha => hI.proper a (hsub a ha),
   fun a ha b hb => hI.disj a (hsub a ha) b (hsub b hb), hw.states, hw.nonzero⟩

theorem removeRegion_spec (c : CatCfg) (ht : c.TransGood) {rs : Catalog} (hI : CInv rs) {s : Meta}
    (hs : s ∈ rs) :
    ∃ rs2, removeRegion c rs s.id = some rs2 ∧ CInv rs2 ∧ ∀ x, x ∈ rs2 ↔ (x ∈ rs ∧ x.id ≠ s.id) := by
  obtain ⟨rs2, h1, h2, h3⟩ := removeRegion_mem c ht hI.weak hs
  exact ⟨rs2, h1, cinv_of_subset hI h2 (fun x hx => ((h3 x).mp hx).1), h3⟩

/-- The common tail of both adjacent-merge cases. -/
theorem finishMerge_spec (c : CatCfg) (ht : c.TransGood) {rs : Catalog} (hI : CInv rs)
    {t s t' : Meta} (htm : t ∈ rs) (hsm : s ∈ rs) (hne : t.id ≠ s.id)
    (hid : t'.id = t.id) (hst : t'.state = t.state) (hpr : proper t')
    (hdisj : ∀ o ∈ rs, o.id ≠ t.id → o.id ≠ s.id → overlapG t' o = false)
    (hcov : ∀ k, contains t' k ↔ (contains t k ∨ contains s k)) :
    (finishMerge c rs t' s.id).2 = true ∧ CInv (finishMerge c rs t' s.id).1 ∧
    (∀ k, covers (finishMerge c rs t' s.id).1 k ↔ covers rs k) ∧
    t' ∈ (finishMerge c rs t' s.id).1 ∧ (∀ x ∈ (finishMerge c rs t' s.id).1, x.id ≠ s.id) := by
  have ht0 := hI.nonzero t htm
  have hts := hI.states t htm
  have hu : update c rs t' = some (put rs t') :=
    update_same_state c rs hI.nodup t t' htm hid hst (by rw [hid]; exact ht0) (by rw [hst]; omega)
  have hw1 : WInv (put rs t') := winv_put hI.weak t' (by rw [hid]; exact ht0) (by rw [hst]; exact hts)
  have hs1 : s ∈ put rs t' := mem_put.mpr (Or.inr ⟨hsm, by rw [hid]; exact fun e => hne e.symm⟩)
  obtain ⟨rs2, hr, hw2, hmem⟩ := removeRegion_mem c ht hw1 hs1
  have hfm : finishMerge c rs t' s.id = (rs2, true) := by
    unfold finishMerge; rw [hu]; simp only; rw [hr]
  rw [hfm]
  simp only
  have hmem' : ∀ x, x ∈ rs2 ↔ (x = t' ∨ (x ∈ rs ∧ x.id ≠ t.id ∧ x.id ≠ s.id)) := by
    intro x
    rw [hmem, mem_put, hid]
    constructor
    · rintro ⟨h | h, h2⟩
      · exact Or.inl h
      · exact Or.inr ⟨h.1, h.2, h2⟩
    · rintro (h | h)
      · subst h; exact ⟨Or.inl rfl, by rw [hid]; exact hne⟩
      · exact ⟨Or.inr ⟨h.1, h.2.1⟩, h.2.2⟩
  refine ⟨trivial, ?_, ?_, (hmem' t').mpr (Or.inl rfl), fun x hx => ((hmem x).mp hx).2⟩
  · refine ⟨hw2.nodup, ?_, ?_, hw2.states, hw2.nonzero⟩
    · intro a ha
      rcases (hmem' a).mp ha with h | h
      · subst h; exact hpr
      · exact hI.proper a h.1
    · intro a ha b hb hab
      rcases (hmem' a).mp ha with h1 | h1 <;> rcases (hmem' b).mp hb with h2 | h2
      · subst h1; subst h2; exact absurd rfl hab
      · subst h1; exact hdisj b h2.1 h2.2.1 h2.2.2
      · subst h2; rw [overlapG_comm]; exact hdisj a h1.1 h1.2.1 h1.2.2
      · exact hI.disj a h1.1 b h2.1 hab
  · intro k
    unfold covers
    constructor
    · rintro ⟨r, hr, hk⟩
      rcases (hmem' r).mp hr with h | h
      · subst h
        rcases (hcov k).mp hk with h1 | h1
        · exact ⟨t, htm, h1⟩
        · exact ⟨s, hsm, h1⟩
      · exact ⟨r, h.1, hk⟩
    · rintro ⟨r, hr, hk⟩
      by_cases h1 : r.id = t.id
      · have : r = t := uniq_of_nodup hI.nodup r hr t htm h1
        subst this
        exact ⟨t', (hmem' t').mpr (Or.inl rfl), (hcov k).mpr (Or.inl hk)⟩
      · by_cases h2 : r.id = s.id
        · have : r = s := uniq_of_nodup hI.nodup r hr s hsm h2
          subst this
          exact ⟨t', (hmem' t').mpr (Or.inl rfl), (hcov k).mpr (Or.inr hk)⟩
        · exact ⟨r, (hmem' r).mpr (Or.inr ⟨hr, h1, h2⟩), hk⟩

end NoKV.Region

/-
Persistence of the store-side region catalog: `regionManager.updateRegion` / `removeRegion`
log a region edit to the manifest (`manifest.Manager.LogRegionUpdate` / `LogRegionDelete`),
the manifest replays region edits on open (`manifest.Manager.apply`, case `EditRegion`), a
manifest rewrite replaces the log by a snapshot of the replayed version (`writeSnapshot`), and
a restarted store loads that version into memory (`regionManager.loadSnapshot`).

Two facts of the code decide whether "the catalog reloads identically after a restart":
* `persistFirst` — the manifest append (and the return of its error) comes before the write of
  the in-memory map, so a failed append leaves memory untouched;
* `snapshotAll` — `writeSnapshot` emits every region of the version, whatever its state.
-/
import NoKVModel.Region.Catalog

namespace NoKV.Region

structure PCfg where
  persistFirst : Bool
  snapshotAll : Bool
  deriving DecidableEq, Repr

def PCfg.good : PCfg := { persistFirst := true, snapshotAll := true }

def PCfg.Good (p : PCfg) : Prop := p.persistFirst = true ∧ p.snapshotAll = true

instance PCfg.decGood (p : PCfg) : Decidable p.Good := by unfold PCfg.Good; exact inferInstance

/-- what a store keeps: the in-memory catalog and the region edits in the manifest file -/
structure PS where
  mem : Catalog
  log : List REdit

/-- `manifest.Open`: replay every region edit of the file, in order, into an empty version -/
def replay (log : List REdit) : Catalog := log.foldl replayEdit []

/-- `writeSnapshot`: one update edit per region of the version (the real code walks the ids in
ascending order; ids are unique there, so the order is immaterial — the model emits them so
that the first entry of the list wins, like `find`). -/
def snapshot (pc : PCfg) (rs : Catalog) : List REdit :=
  ((if pc.snapshotAll then rs else rs.filter (fun m => m.state ≠ 3)).reverse).map REdit.upd

/-- the primitive persisted steps every catalog mutation is made of; `ok` = the manifest
append succeeded -/
inductive POp where
  | upd (m : Meta) (ok : Bool)
  | del (id : Nat) (ok : Bool)
  | rewrite
  | reopen
  deriving Repr

def pstep (pc : PCfg) (s : PS) : POp → PS
  | .upd m ok =>
    if pc.persistFirst then
      (if ok then { mem := put s.mem m, log := s.log ++ [.upd m] } else s)
    else
      { mem := put s.mem m, log := if ok then s.log ++ [.upd m] else s.log }
  | .del id ok =>
    if pc.persistFirst then
      (if ok then { mem := del s.mem id, log := s.log ++ [.delete id] } else s)
    else
      { mem := del s.mem id, log := if ok then s.log ++ [.delete id] else s.log }
  | .rewrite => { s with log := snapshot pc (replay s.log) }
  | .reopen => { s with mem := replay s.log }

def PS.init : PS := { mem := [], log := [] }

def prun (pc : PCfg) (ops : List POp) : PS := ops.foldl (pstep pc) PS.init

/-- two catalogs hold the same region under every id -/
def Eqv (a b : Catalog) : Prop := ∀ id, find a id = find b id

end NoKV.Region

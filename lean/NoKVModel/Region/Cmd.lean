/-
Model of `raftstore/store/command_service.go`: `validateRegionEpoch`, `validateRequestKeys`,
`keyInRange`, `trimScanResponse`, and which of the two public paths trims scan results.
-/
import NoKVModel.Region.PD

namespace NoKV.Region

inductive Kind where
  | get | scan | prewrite | commit | rollback | resolve | checkStatus | other
  deriving DecidableEq, Repr, Inhabited

def Kind.ofString? : String → Option Kind
  | "get" => some .get | "scan" => some .scan | "prewrite" => some .prewrite
  | "commit" => some .commit | "rollback" => some .rollback | "resolve" => some .resolve
  | "checkstatus" => some .checkStatus | "other" => some .other | _ => none

/-- One sub-request: its kind and the keys that kind names (scan: the start key). -/
structure Req where
  kind : Kind
  keys : List Bytes
  deriving Repr

structure CmdCfg where
  /-- `keyInRange`: `bytes.Compare(key, StartKey) <op> 0` ⇒ outside -/
  keyStartOp : CmpOp
  /-- `keyInRange`: `bytes.Compare(key, EndKey) <op> 0` ⇒ outside -/
  keyEndOp : CmpOp
  /-- kinds whose `case` in `validateRequestKeys` does not call `keyInRange` on its keys -/
  uncheckedKinds : List Kind
  /-- the `default:` arm rejects -/
  unknownRejected : Bool
  /-- epoch test compares both conf-version and version with `!=` -/
  epochBothFields : Bool
  /-- scan results leaving through `ProposeCommand` are trimmed (or scans are refused there) -/
  proposeScanTrimmed : Bool
  /-- `trimScanResponse` visits every scan response of a batched command: the guards that skip a
  sub-response (`continue`) do not end the loop -/
  trimEach : Bool := true
  deriving DecidableEq, Repr

def CmdCfg.good : CmdCfg :=
  { keyStartOp := .lt, keyEndOp := .ge, uncheckedKinds := [], unknownRejected := true,
    epochBothFields := true, proposeScanTrimmed := true, trimEach := true }

def CmdCfg.ValidateGood (c : CmdCfg) : Prop :=
  c.keyStartOp = .lt ∧ c.keyEndOp = .ge ∧ c.uncheckedKinds = [] ∧ c.unknownRejected = true ∧
  c.epochBothFields = true

instance CmdCfg.decValidateGood (c : CmdCfg) : Decidable c.ValidateGood := by unfold CmdCfg.ValidateGood; exact inferInstance

def CmdCfg.Good (c : CmdCfg) : Prop := c.ValidateGood ∧ c.proposeScanTrimmed = true

instance CmdCfg.decGood (c : CmdCfg) : Decidable c.Good := by unfold CmdCfg.Good; exact inferInstance

def keyInRange (c : CmdCfg) (m : Meta) (k : Bytes) : Bool :=
  if k = [] then true
  else if m.start ≠ [] ∧ bcmp c.keyStartOp k m.start then false
  else if m.end_ ≠ [] ∧ bcmp c.keyEndOp k m.end_ then false
  else true

def reqOk (c : CmdCfg) (m : Meta) (r : Req) : Bool :=
  match r.kind with
  | .other => !c.unknownRejected
  | k => if k ∈ c.uncheckedKinds then true else r.keys.all (fun key => keyInRange c m key)

def epochOk (c : CmdCfg) (m : Meta) (e : Option Epoch) : Bool :=
  match e with
  | none => false
  | some e => if c.epochBothFields then e.conf == m.epoch.conf && e.ver == m.epoch.ver
              else e.ver == m.epoch.ver

/-- `validateCommand` up to (and excluding) the leader test. -/
def validate (c : CmdCfg) (m : Meta) (e : Option Epoch) (reqs : List Req) : Bool :=
  epochOk c m e && reqs.all (reqOk c m)

def trim (c : CmdCfg) (m : Meta) (keys : List Bytes) : List Bytes :=
  keys.filter (keyInRange c m)

inductive Path where
  | read | propose
  deriving DecidableEq, Repr

/-- keys of a scan response as they leave the store through a public path -/
def scanOut (c : CmdCfg) (p : Path) (m : Meta) (applied : List Bytes) : List Bytes :=
  match p with
  | .read => trim c m applied
  | .propose => if c.proposeScanTrimmed then trim c m applied else applied

/-- `trimScanResponse` over the sub-responses of one batched command, in request order;
`none` = a sub-response that is not a scan result (other command kind, or missing), left alone.
With `trimEach = false` (the loop `return`s instead of `continue`s at an empty scan result) the
remaining sub-responses stay untrimmed. -/
def trimBatch (c : CmdCfg) (m : Meta) : List (Option (List Bytes)) → List (Option (List Bytes))
  | [] => []
  | none :: rest => none :: trimBatch c m rest
  | some ks :: rest =>
    if ks = [] ∧ c.trimEach = false then some ks :: rest
    else some (trim c m ks) :: trimBatch c m rest

def scanOutBatch (c : CmdCfg) (p : Path) (m : Meta) (resps : List (Option (List Bytes))) :
    List (Option (List Bytes)) :=
  match p with
  | .read => trimBatch c m resps
  | .propose => if c.proposeScanTrimmed then trimBatch c m resps else resps

def CmdCfg.BatchGood (c : CmdCfg) : Prop := c.Good ∧ c.trimEach = true

instance CmdCfg.decBatchGood (c : CmdCfg) : Decidable c.BatchGood := by unfold CmdCfg.BatchGood; exact inferInstance

/-! spec -/

def inRange (m : Meta) (k : Bytes) : Prop :=
  (m.start = [] ∨ Bytes.le m.start k = true) ∧ (m.end_ = [] ∨ Bytes.lt k m.end_ = true)

instance decInRange (m : Meta) (k : Bytes) : Decidable (inRange m k) := by unfold inRange; exact inferInstance

end NoKV.Region

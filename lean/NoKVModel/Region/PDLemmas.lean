import NoKVModel.Region.PD

namespace NoKV.Region
open Bytes

theorem bcmp_le (a b : Bytes) : bcmp .le a b = Bytes.le a b := by
  simp only [bcmp, CmpOp.eval]
  cases h : Bytes.le a b
  · have h' : ¬ (Bytes.lt a b = true ∨ a = b) := by
      intro hh; rw [← le_iff_lt_or_eq] at hh; simp [h] at hh
    have h1 : Bytes.lt a b = false := by
      cases hlt : Bytes.lt a b
      · rfl
      · exact absurd (Or.inl hlt) h'
    have h2 : (a == b) = false := by
      simp only [beq_eq_false_iff_ne, ne_eq]; intro e; exact h' (Or.inr e)
    simp [h1, h2]
  · rcases le_iff_lt_or_eq.mp h with h1 | h1
    · simp [h1]
    · subst h1; simp

theorem bcmp_ge (a b : Bytes) : bcmp .ge a b = Bytes.le b a := by
  simp [bcmp, CmpOp.eval, Bytes.le]

/-- `rangesOverlap` with the extracted operator in its good position. -/
def overlapG (a b : Meta) : Bool :=
  if a.end_ ≠ [] ∧ Bytes.le a.end_ b.start then false
  else if b.end_ ≠ [] ∧ Bytes.le b.end_ a.start then false
  else true

theorem overlap_good (c : PDCfg) (h : c.OpsGood) (a b : Meta) : overlap c a b = overlapG a b := by
  obtain ⟨_, _, h3, _⟩ := h
  simp [overlap, overlapG, h3, bcmp_le]

theorem overlapG_comm (a b : Meta) : overlapG a b = overlapG b a := by
  unfold overlapG
  by_cases h1 : a.end_ ≠ [] ∧ Bytes.le a.end_ b.start = true <;>
  by_cases h2 : b.end_ ≠ [] ∧ Bytes.le b.end_ a.start = true <;> simp [h1, h2]

/-- `rangesOverlap` is exactly "the two ranges share a key", for proper ranges. -/
theorem overlapG_iff (a b : Meta) (ha : proper a) (hb : proper b) :
    overlapG a b = true ↔ ∃ k, contains a k ∧ contains b k := by
  constructor
  · intro h
    unfold overlapG at h
    by_cases h1 : a.end_ ≠ [] ∧ Bytes.le a.end_ b.start = true
    · simp [h1] at h
    by_cases h2 : b.end_ ≠ [] ∧ Bytes.le b.end_ a.start = true
    · simp [h1, h2] at h
    -- witness: the larger of the two starts
    rcases le_total a.start b.start with hab | hba
    · refine ⟨b.start, ⟨hab, ?_⟩, ⟨le_refl _, ?_⟩⟩
      · by_cases he : a.end_ = []
        · exact Or.inl he
        · right
          have : Bytes.le a.end_ b.start = false := by
            cases hh : Bytes.le a.end_ b.start
            · rfl
            · exact absurd ⟨he, hh⟩ h1
          simpa [Bytes.le] using this
      · exact hb
    · refine ⟨a.start, ⟨le_refl _, ?_⟩, ⟨hba, ?_⟩⟩
      · exact ha
      · by_cases he : b.end_ = []
        · exact Or.inl he
        · right
          have : Bytes.le b.end_ a.start = false := by
            cases hh : Bytes.le b.end_ a.start
            · rfl
            · exact absurd ⟨he, hh⟩ h2
          simpa [Bytes.le] using this
  · rintro ⟨k, ⟨ha1, ha2⟩, ⟨hb1, hb2⟩⟩
    unfold overlapG
    have n1 : ¬ (a.end_ ≠ [] ∧ Bytes.le a.end_ b.start = true) := by
      rintro ⟨hne, hle⟩
      rcases ha2 with ha2 | ha2
      · exact hne ha2
      · have := lt_of_lt_of_le ha2 (le_trans hle hb1)
        simp [lt_irrefl] at this
    have n2 : ¬ (b.end_ ≠ [] ∧ Bytes.le b.end_ a.start = true) := by
      rintro ⟨hne, hle⟩
      rcases hb2 with hb2 | hb2
      · exact hne hb2
      · have := lt_of_lt_of_le hb2 (le_trans hle ha1)
        simp [lt_irrefl] at this
    simp [n1, n2]

/-! ### invariant -/

structure Inv (pd : PD) : Prop where
  uniq : ∀ a ∈ pd, ∀ b ∈ pd, a.id = b.id → a = b
  disj : ∀ a ∈ pd, ∀ b ∈ pd, a.id ≠ b.id → overlapG a b = false
  nonzero : ∀ a ∈ pd, a.id ≠ 0
  nodup : pd.Pairwise (fun x y => x.id ≠ y.id)

def AllProper (pd : PD) : Prop := ∀ a ∈ pd, proper a

theorem inv_nil : Inv [] := ⟨by simp, by simp, by simp, List.Pairwise.nil⟩

theorem mem_filter_ne {pd : PD} {i : Nat} {a : Meta} :
    a ∈ pd.filter (fun o => o.id ≠ i) ↔ a ∈ pd ∧ a.id ≠ i := by
  simp [List.mem_filter]

theorem inv_filter {pd : PD} (h : Inv pd) (i : Nat) : Inv (pd.filter (fun o => o.id ≠ i)) := by
  refine ⟨?_, ?_, ?_, ?_⟩
  · intro a ha b hb
    exact h.uniq a (mem_filter_ne.mp ha).1 b (mem_filter_ne.mp hb).1
  · intro a ha b hb
    exact h.disj a (mem_filter_ne.mp ha).1 b (mem_filter_ne.mp hb).1
  · intro a ha
    exact h.nonzero a (mem_filter_ne.mp ha).1
  · exact List.Pairwise.filter _ h.nodup

theorem upsert_ok_shape (c : PDCfg) (pd : PD) (m : Meta) (h : (upsert c pd m).2 = .ok) :
    m.id ≠ 0 ∧ ¬ (c.rejectsInverted = true ∧ inverted m = true) ∧
    staleHit c pd m = false ∧ overlapHit c pd m = false ∧
    (upsert c pd m).1 = m :: pd.filter (fun o => o.id ≠ m.id) := by
  unfold upsert at h ⊢
  split at h
  · simp at h
  split at h
  · simp at h
  split at h
  · simp at h
  split at h
  · simp at h
  rename_i h0 h1 h2 h3
  simp only [Bool.not_eq_true] at h2 h3
  refine ⟨h0, h1, h2, h3, ?_⟩
  rw [if_neg h0, if_neg h1, h2, h3]
  simp

theorem upsert_not_ok (c : PDCfg) (pd : PD) (m : Meta) (h : (upsert c pd m).2 ≠ .ok) :
    (upsert c pd m).1 = pd := by
  unfold upsert at h ⊢
  split
  · rfl
  split
  · rfl
  split
  · rfl
  split
  · rfl
  rename_i h0 h1 h2 h3
  rw [if_neg h0, if_neg h1, if_neg h2, if_neg h3] at h
  simp at h

theorem inv_upsert (c : PDCfg) (hc : c.OpsGood) {pd : PD} (h : Inv pd) (m : Meta) :
    Inv (upsert c pd m).1 := by
  by_cases hok : (upsert c pd m).2 = .ok
  · obtain ⟨h0, _, _, hov, heq⟩ := upsert_ok_shape c pd m hok
    rw [heq]
    have hf := inv_filter h m.id
    have hov' : ∀ o ∈ pd, o.id ≠ m.id → overlapG m o = false := by
      intro o ho hne
      unfold overlapHit at hov
      rw [List.any_eq_false] at hov
      have := hov o ho
      rw [overlap_good c hc] at this
      simpa [hne] using this
    refine ⟨?_, ?_, ?_, ?_⟩
    · intro a ha b hb hab
      rcases List.mem_cons.mp ha with ha | ha <;> rcases List.mem_cons.mp hb with hb | hb
      · rw [ha, hb]
      · subst ha; exact absurd hab.symm (mem_filter_ne.mp hb).2
      · subst hb; exact absurd hab (mem_filter_ne.mp ha).2
      · exact hf.uniq a ha b hb hab
    · intro a ha b hb hab
      rcases List.mem_cons.mp ha with ha | ha <;> rcases List.mem_cons.mp hb with hb | hb
      · subst ha; subst hb; exact absurd rfl hab
      · subst ha; exact hov' b (mem_filter_ne.mp hb).1 (mem_filter_ne.mp hb).2
      · subst hb; rw [overlapG_comm]; exact hov' a (mem_filter_ne.mp ha).1 (mem_filter_ne.mp ha).2
      · exact hf.disj a ha b hb hab
    · intro a ha
      rcases List.mem_cons.mp ha with ha | ha
      · subst ha; exact h0
      · exact hf.nonzero a ha
    · apply List.Pairwise.cons
      · intro y hy; exact fun e => (mem_filter_ne.mp hy).2 e.symm
      · exact hf.nodup
  · rw [upsert_not_ok c pd m hok]; exact h

theorem inv_remove {pd : PD} (h : Inv pd) (i : Nat) : Inv (remove pd i).1 := by
  unfold remove
  by_cases h0 : i = 0
  · simp [h0, h]
  · simp only [h0, if_false]; exact inv_filter h i

theorem inv_apply (c : PDCfg) (hc : c.OpsGood) {pd : PD} (h : Inv pd) (op : Op) :
    Inv (apply c pd op) := by
  cases op with
  | hb m => exact inv_upsert c hc h m
  | rm i => exact inv_remove h i

theorem inv_foldl (c : PDCfg) (hc : c.OpsGood) (ops : List Op) {pd : PD} (h : Inv pd) :
    Inv (ops.foldl (apply c) pd) := by
  induction ops generalizing pd with
  | nil => exact h
  | cons op ops ih => exact ih (inv_apply c hc h op)

theorem inv_run (c : PDCfg) (hc : c.OpsGood) (ops : List Op) : Inv (run c ops) :=
  inv_foldl c hc ops inv_nil

theorem proper_of_not_inverted {m : Meta} (h : inverted m = false) : proper m := by
  unfold inverted at h
  unfold proper
  by_cases he : m.end_ = []
  · exact Or.inl he
  · right
    simp [he] at h
    simpa [Bytes.le] using h

theorem inverted_of_not_proper {m : Meta} (h : ¬ proper m) : inverted m = true := by
  cases hi : inverted m
  · exact absurd (proper_of_not_inverted hi) h
  · rfl

/-- All catalog entries are proper if every *accepted* heartbeat was (either because the
implementation rejects inverted ranges, or because none was sent). -/
theorem proper_upsert (c : PDCfg) {pd : PD} (h : AllProper pd) (m : Meta)
    (hm : c.rejectsInverted = true ∨ proper m) : AllProper (upsert c pd m).1 := by
  by_cases hok : (upsert c pd m).2 = .ok
  · obtain ⟨_, hinv, _, _, heq⟩ := upsert_ok_shape c pd m hok
    rw [heq]
    intro a ha
    rcases List.mem_cons.mp ha with ha | ha
    · subst ha
      rcases hm with hm | hm
      · apply proper_of_not_inverted
        cases hi : inverted a
        · rfl
        · exact absurd ⟨hm, hi⟩ hinv
      · exact hm
    · exact h a (mem_filter_ne.mp ha).1
  · rw [upsert_not_ok c pd m hok]; exact h

theorem proper_remove {pd : PD} (h : AllProper pd) (i : Nat) : AllProper (remove pd i).1 := by
  unfold remove
  by_cases h0 : i = 0
  · simp [h0]; exact h
  · simp only [h0, if_false]
    intro a ha; exact h a (mem_filter_ne.mp ha).1

def OpProper : Op → Prop
  | .hb m => proper m
  | .rm _ => True

theorem proper_foldl (c : PDCfg) (ops : List Op)
    (hops : c.rejectsInverted = true ∨ ∀ op ∈ ops, OpProper op) {pd : PD} (h : AllProper pd) :
    AllProper (ops.foldl (apply c) pd) := by
  induction ops generalizing pd with
  | nil => exact h
  | cons op ops ih =>
    apply ih
    · rcases hops with hh | hh
      · exact Or.inl hh
      · exact Or.inr (fun o ho => hh o (List.mem_cons_of_mem _ ho))
    · cases op with
      | hb m =>
        apply proper_upsert c h m
        rcases hops with hh | hh
        · exact Or.inl hh
        · exact Or.inr (hh (.hb m) (List.mem_cons_self))
      | rm i => exact proper_remove h i

/-! ### lookup -/

theorem pick_spec (key : Bytes) (pd : PD) :
    match pick key pd with
    | none => ∀ m ∈ pd, Bytes.le m.start key = false
    | some e => e ∈ pd ∧ Bytes.le e.start key = true ∧
        ∀ m ∈ pd, Bytes.le m.start key = true → after m e = false ∨ m = e := by
  induction pd with
  | nil => simp [pick]
  | cons x xs ih =>
    unfold pick
    simp only
    by_cases hx : Bytes.le x.start key = true
    · simp only [hx, if_true]
      cases hr : pick key xs with
      | none =>
        rw [hr] at ih
        simp only
        refine ⟨List.mem_cons_self, hx, ?_⟩
        intro m hm hle
        rcases List.mem_cons.mp hm with hm | hm
        · exact Or.inr hm
        · have := ih m hm; rw [this] at hle; exact absurd hle (by simp)
      | some b =>
        rw [hr] at ih
        obtain ⟨hb1, hb2, hb3⟩ := ih
        simp only
        by_cases hab : after x b = true
        · simp only [hab, if_true]
          refine ⟨List.mem_cons_self, hx, ?_⟩
          intro m hm hle
          rcases List.mem_cons.mp hm with hm | hm
          · exact Or.inr hm
          · left
            -- m is not after b (or is b), x is after b ⇒ m is not after x
            rcases hb3 m hm hle with h1 | h1
            · -- after m b = false, after x b = true
              unfold after at h1 hab ⊢
              simp only [Bool.or_eq_false_iff, Bool.and_eq_false_imp, Bool.or_eq_true,
                Bool.and_eq_true, beq_iff_eq, decide_eq_true_eq, decide_eq_false_iff_not] at h1 hab ⊢
              obtain ⟨h1a, h1b⟩ := h1
              rcases hab with hab | ⟨hab1, hab2⟩
              · -- b.start < x.start, ¬ b.start < m.start ⇒ m.start ≤ b.start < x.start
                have hmb : Bytes.le m.start b.start = true := by simp [Bytes.le, h1a]
                have hmx := lt_of_le_of_lt hmb hab
                refine ⟨lt_asymm hmx, ?_⟩
                intro e; rw [e, lt_irrefl] at hmx; exact absurd hmx (by simp)
              · -- x.start = b.start, b.id < x.id
                refine ⟨by rw [hab1]; exact h1a, ?_⟩
                intro e
                have := h1b (by rw [e, hab1])
                omega
            · subst h1
              unfold after at hab ⊢
              simp only [Bool.or_eq_false_iff, Bool.and_eq_false_imp, Bool.or_eq_true,
                Bool.and_eq_true, beq_iff_eq, decide_eq_true_eq, decide_eq_false_iff_not] at hab ⊢
              rcases hab with hab | ⟨hab1, hab2⟩
              · refine ⟨lt_asymm hab, ?_⟩
                intro e; rw [e, lt_irrefl] at hab; exact absurd hab (by simp)
              · refine ⟨by rw [hab1]; exact lt_irrefl _, ?_⟩
                intro _; omega
        · simp only [hab]
          refine ⟨List.mem_cons_of_mem _ hb1, hb2, ?_⟩
          intro m hm hle
          rcases List.mem_cons.mp hm with hm | hm
          · subst hm; left; simpa using hab
          · exact hb3 m hm hle
    · simp only [hx]
      cases hr : pick key xs with
      | none =>
        rw [hr] at ih
        simp only
        intro m hm
        rcases List.mem_cons.mp hm with hm | hm
        · subst hm; simpa using hx
        · exact ih m hm
      | some b =>
        rw [hr] at ih
        obtain ⟨hb1, hb2, hb3⟩ := ih
        simp only
        refine ⟨List.mem_cons_of_mem _ hb1, hb2, ?_⟩
        intro m hm hle
        rcases List.mem_cons.mp hm with hm | hm
        · subst hm; exact absurd hle hx
        · exact hb3 m hm hle

/-- Soundness of `lookup` needs nothing but the operators. -/
theorem lookup_sound (c : PDCfg) (hc : c.OpsGood) (pd : PD) (key : Bytes) (e : Meta)
    (h : lookup c pd key = some e) : e ∈ pd ∧ contains e key := by
  obtain ⟨_, _, _, h4⟩ := hc
  unfold lookup at h
  have hp := pick_spec key pd
  cases hr : pick key pd with
  | none => simp [hr] at h
  | some b =>
    rw [hr] at hp h
    obtain ⟨hb1, hb2, _⟩ := hp
    simp only at h
    by_cases h1 : Bytes.lt key b.start = true
    · simp [h1] at h
    by_cases h2 : b.end_ ≠ [] ∧ bcmp c.lookupEndOp key b.end_ = true
    · simp [h1, h2] at h
    simp [h1, h2] at h
    subst h
    refine ⟨hb1, hb2, ?_⟩
    by_cases he : b.end_ = []
    · exact Or.inl he
    · right
      rw [h4, bcmp_ge] at h2
      have : Bytes.le b.end_ key = false := by
        cases hh : Bytes.le b.end_ key
        · rfl
        · exact absurd ⟨he, hh⟩ h2
      simpa [Bytes.le] using this

/-- Completeness of `lookup` needs the invariant and properness of every catalog entry. -/
theorem lookup_complete (c : PDCfg) (hc : c.OpsGood) (pd : PD) (hi : Inv pd) (hp : AllProper pd)
    (key : Bytes) (m : Meta) (hm : m ∈ pd) (hk : contains m key) : lookup c pd key = some m := by
  have hps := pick_spec key pd
  cases hr : pick key pd with
  | none =>
    rw [hr] at hps
    have := hps m hm
    rw [hk.1] at this; exact absurd this (by simp)
  | some e =>
    rw [hr] at hps
    obtain ⟨he1, he2, he3⟩ := hps
    have hem : e = m := by
      rcases he3 m hm hk.1 with hlt | heq
      · -- m is not after e.  If e ≠ m they do not overlap, contradiction.
        by_cases hid : e.id = m.id
        · exact hi.uniq e he1 m hm hid
        · exfalso
          have hd := hi.disj m hm e he1 (fun h => hid h.symm)
          have hme : Bytes.le m.start e.start = true := by
            unfold after at hlt
            simp only [Bool.or_eq_false_iff] at hlt
            simp [Bytes.le, hlt.1]
          unfold overlapG at hd
          by_cases h1 : m.end_ ≠ [] ∧ Bytes.le m.end_ e.start = true
          · obtain ⟨hne, hle⟩ := h1
            rcases hk.2 with hk2 | hk2
            · exact hne hk2
            · have := lt_of_lt_of_le hk2 (le_trans hle he2)
              simp [lt_irrefl] at this
          · by_cases h2 : e.end_ ≠ [] ∧ Bytes.le e.end_ m.start = true
            · obtain ⟨hne, hle⟩ := h2
              rcases hp e he1 with hpe | hpe
              · exact hne hpe
              · have := lt_of_lt_of_le hpe (le_trans hle hme)
                simp [lt_irrefl] at this
            · simp [h1, h2] at hd
      · exact heq.symm
    subst hem
    obtain ⟨_, _, _, h4⟩ := hc
    unfold lookup
    rw [hr]
    simp only
    have h1 : Bytes.lt key e.start = false := by
      have := hk.1; simpa [Bytes.le] using this
    have h2 : ¬ (e.end_ ≠ [] ∧ bcmp c.lookupEndOp key e.end_ = true) := by
      rintro ⟨hne, hle⟩
      rw [h4, bcmp_ge] at hle
      rcases hk.2 with hk2 | hk2
      · exact hne hk2
      · have := lt_of_lt_of_le hk2 hle
        simp [lt_irrefl] at this
    simp [h1, h2]

/-- At most one catalog entry contains a given key. -/
theorem contains_unique (pd : PD) (hi : Inv pd) (hp : AllProper pd) (key : Bytes)
    (a b : Meta) (ha : a ∈ pd) (hb : b ∈ pd) (hka : contains a key) (hkb : contains b key) : a = b := by
  by_cases hid : a.id = b.id
  · exact hi.uniq a ha b hb hid
  · exfalso
    have hd := hi.disj a ha b hb hid
    have := (overlapG_iff a b (hp a ha) (hp b hb)).mpr ⟨key, hka, hkb⟩
    rw [hd] at this; exact absurd this (by simp)

end NoKV.Region

namespace NoKV.Region

theorem insertById_perm (m : Meta) (l : List Meta) : (insertById m l).Perm (m :: l) := by
  induction l with
  | nil => exact List.Perm.refl _
  | cons x xs ih =>
    unfold insertById
    by_cases h : m.id ≤ x.id
    · rw [if_pos h]
    · rw [if_neg h]
      exact (List.Perm.cons x ih).trans (List.Perm.swap m x xs)

theorem sortById_perm (l : List Meta) : (sortById l).Perm l := by
  induction l with
  | nil => exact List.Perm.refl _
  | cons x xs ih =>
    unfold sortById
    simp only [List.foldr_cons]
    exact (insertById_perm x _).trans (List.Perm.cons x ih)

/-- Re-upserting, one by one, regions that already form a consistent catalog together with the
accumulator accepts every one of them. -/
theorem foldl_upsert_all (c : PDCfg) (hc : c.OpsGood) (l acc : List Meta)
    (hI : Inv (acc ++ l)) (hp : c.rejectsInverted = true → AllProper (acc ++ l)) :
    ∀ x, x ∈ l.foldl (fun a m => (upsert c a m).1) acc ↔ x ∈ acc ++ l := by
  induction l generalizing acc with
  | nil => intro x; simp
  | cons m rest ih =>
    have hm : m ∈ acc ++ m :: rest := by simp
    have hidne : ∀ o ∈ acc, o.id ≠ m.id := by
      intro o ho
      have hnd := hI.nodup
      rw [List.pairwise_append] at hnd
      exact hnd.2.2 o ho m (by simp)
    -- the upsert of `m` is accepted and leaves `m :: acc`
    have hups : (upsert c acc m).1 = m :: acc := by
      unfold upsert
      have h0 : m.id ≠ 0 := hI.nonzero m hm
      have h1 : ¬ (c.rejectsInverted = true ∧ inverted m = true) := by
        rintro ⟨hr, hi⟩
        have := hp hr m hm
        unfold inverted at hi
        rcases this with h | h
        · simp [h] at hi
        · simp [Bytes.le, h] at hi
      have h2 : staleHit c acc m = false := by
        unfold staleHit
        rw [List.any_eq_false]
        intro o ho
        simp [hidne o ho]
      have h3 : overlapHit c acc m = false := by
        unfold overlapHit
        rw [List.any_eq_false]
        intro o ho
        have := hI.disj m hm o (by simp [ho]) (fun e => hidne o ho e.symm)
        rw [overlap_good c hc]
        simp [this]
      rw [if_neg h0, if_neg h1, h2, h3]
      simp only [Bool.false_eq_true, if_false]
      congr 1
      rw [List.filter_eq_self]
      intro o ho
      simpa using hidne o ho
    simp only [List.foldl_cons, hups]
    have hperm : ((m :: acc) ++ rest).Perm (acc ++ m :: rest) := by
      simpa using (List.perm_middle (a := m) (l₁ := acc) (l₂ := rest)).symm
    have hI' : Inv ((m :: acc) ++ rest) := by
      refine ⟨?_, ?_, ?_, ?_⟩
      · intro a ha b hb; exact hI.uniq a (hperm.mem_iff.mp ha) b (hperm.mem_iff.mp hb)
      · intro a ha b hb; exact hI.disj a (hperm.mem_iff.mp ha) b (hperm.mem_iff.mp hb)
      · intro a ha; exact hI.nonzero a (hperm.mem_iff.mp ha)
      · exact (hperm.pairwise_iff (fun h => fun e => h e.symm)).mpr hI.nodup
    have hp' : c.rejectsInverted = true → AllProper ((m :: acc) ++ rest) :=
      fun hr a ha => hp hr a (hperm.mem_iff.mp ha)
    intro x
    rw [ih (m :: acc) hI' hp' x]
    exact hperm.mem_iff

theorem restart_mem (c : PDCfg) (hc : c.OpsGood) (pd : PD) (hI : Inv pd)
    (hp : c.rejectsInverted = true → AllProper pd) : ∀ x, x ∈ restart c pd ↔ x ∈ pd := by
  have hperm := sortById_perm pd
  have hI' : Inv ([] ++ sortById pd) := by
    simp only [List.nil_append]
    refine ⟨?_, ?_, ?_, ?_⟩
    · intro a ha b hb; exact hI.uniq a (hperm.mem_iff.mp ha) b (hperm.mem_iff.mp hb)
    · intro a ha b hb; exact hI.disj a (hperm.mem_iff.mp ha) b (hperm.mem_iff.mp hb)
    · intro a ha; exact hI.nonzero a (hperm.mem_iff.mp ha)
    · exact (hperm.pairwise_iff (fun h => fun e => h e.symm)).mpr hI.nodup
  intro x
  unfold restart
  rw [foldl_upsert_all c hc (sortById pd) [] hI'
    (fun hr a ha => hp hr a (hperm.mem_iff.mp (by simpa using ha))) x]
  simpa using hperm.mem_iff

end NoKV.Region

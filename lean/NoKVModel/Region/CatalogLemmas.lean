import NoKVModel.Region.Catalog
import NoKVModel.Region.PDLemmas

namespace NoKV.Region
open Bytes

theorem overlapG_false_iff (a b : Meta) :
    overlapG a b = false ↔
      ((a.end_ ≠ [] ∧ Bytes.le a.end_ b.start = true) ∨ (b.end_ ≠ [] ∧ Bytes.le b.end_ a.start = true)) := by
  unfold overlapG
  by_cases h1 : a.end_ ≠ [] ∧ Bytes.le a.end_ b.start = true
  · simp [h1]
  · by_cases h2 : b.end_ ≠ [] ∧ Bytes.le b.end_ a.start = true
    · simp [h1, h2]
    · simp only [if_neg h1, if_neg h2]
      constructor
      · intro h; cases h
      · rintro (h | h) <;> contradiction

structure CInv (rs : Catalog) : Prop where
  nodup : rs.Pairwise (fun x y => x.id ≠ y.id)
  proper : ∀ a ∈ rs, proper a
  disj : ∀ a ∈ rs, ∀ b ∈ rs, a.id ≠ b.id → overlapG a b = false
  states : ∀ a ∈ rs, 1 ≤ a.state ∧ a.state ≤ 3
  nonzero : ∀ a ∈ rs, a.id ≠ 0

theorem mem_put {rs : Catalog} {m x : Meta} : x ∈ put rs m ↔ (x = m ∨ (x ∈ rs ∧ x.id ≠ m.id)) := by
  simp [put, List.mem_filter]

theorem mem_del {rs : Catalog} {i : Nat} {x : Meta} : x ∈ del rs i ↔ (x ∈ rs ∧ x.id ≠ i) := by
  simp [del, List.mem_filter]

theorem find_some {rs : Catalog} {i : Nat} {m : Meta} (h : find rs i = some m) : m ∈ rs ∧ m.id = i := by
  unfold find at h
  have h1 := List.mem_of_find?_eq_some h
  have h2 := List.find?_some h
  exact ⟨h1, by simpa using h2⟩

theorem find_none {rs : Catalog} {i : Nat} (h : find rs i = none) : ∀ m ∈ rs, m.id ≠ i := by
  unfold find at h
  rw [List.find?_eq_none] at h
  intro m hm; simpa using h m hm

theorem uniq_of_nodup {rs : Catalog} (h : rs.Pairwise (fun x y => x.id ≠ y.id)) :
    ∀ a ∈ rs, ∀ b ∈ rs, a.id = b.id → a = b := by
  induction rs with
  | nil => intro a ha; cases ha
  | cons x xs ih =>
    rw [List.pairwise_cons] at h
    intro a ha b hb hab
    rcases List.mem_cons.mp ha with ha | ha <;> rcases List.mem_cons.mp hb with hb | hb
    · rw [ha, hb]
    · rw [ha] at hab; exact absurd hab (h.1 b hb)
    · rw [hb] at hab; exact absurd hab.symm (h.1 a ha)
    · exact ih h.2 a ha b hb hab

theorem find_of_mem {rs : Catalog} (hn : rs.Pairwise (fun x y => x.id ≠ y.id)) {m : Meta} (hm : m ∈ rs) :
    find rs m.id = some m := by
  cases h : find rs m.id with
  | none => exact absurd rfl (find_none h m hm)
  | some e =>
    obtain ⟨he, hid⟩ := find_some h
    rw [uniq_of_nodup hn e he m hm hid]

theorem cinv_del {rs : Catalog} (h : CInv rs) (i : Nat) : CInv (del rs i) := by
  refine ⟨List.Pairwise.filter _ h.nodup, ?_, ?_, ?_, ?_⟩
  · intro a ha; exact h.proper a (mem_del.mp ha).1
  · intro a ha b hb; exact h.disj a (mem_del.mp ha).1 b (mem_del.mp hb).1
  · intro a ha; exact h.states a (mem_del.mp ha).1
  · intro a ha; exact h.nonzero a (mem_del.mp ha).1

theorem cinv_put {rs : Catalog} (h : CInv rs) (m : Meta) (hp : proper m) (h0 : m.id ≠ 0)
    (hs : 1 ≤ m.state ∧ m.state ≤ 3)
    (hd : ∀ o ∈ rs, o.id ≠ m.id → overlapG m o = false) : CInv (put rs m) := by
  refine ⟨?_, ?_, ?_, ?_, ?_⟩
  · unfold put
    apply List.Pairwise.cons
    · intro y hy
      rw [List.mem_filter] at hy
      exact fun e => (by simpa using hy.2 : y.id ≠ m.id) e.symm
    · exact List.Pairwise.filter _ h.nodup
  · intro a ha
    rcases mem_put.mp ha with ha | ha
    · subst ha; exact hp
    · exact h.proper a ha.1
  · intro a ha b hb hab
    rcases mem_put.mp ha with ha | ha <;> rcases mem_put.mp hb with hb | hb
    · subst ha; subst hb; exact absurd rfl hab
    · subst ha; exact hd b hb.1 hb.2
    · subst hb; rw [overlapG_comm]; exact hd a ha.1 ha.2
    · exact h.disj a ha.1 b hb.1 hab
  · intro a ha
    rcases mem_put.mp ha with ha | ha
    · subst ha; exact hs
    · exact h.states a ha.1
  · intro a ha
    rcases mem_put.mp ha with ha | ha
    · subst ha; exact h0
    · exact h.nonzero a ha.1

theorem covers_put (rs : Catalog) (m : Meta) (k : Bytes) :
    covers (put rs m) k ↔ (contains m k ∨ ∃ r ∈ rs, r.id ≠ m.id ∧ contains r k) := by
  unfold covers
  constructor
  · rintro ⟨r, hr, hk⟩
    rcases mem_put.mp hr with h | h
    · subst h; exact Or.inl hk
    · exact Or.inr ⟨r, h.1, h.2, hk⟩
  · rintro (h | ⟨r, hr, hne, hk⟩)
    · exact ⟨m, mem_put.mpr (Or.inl rfl), h⟩
    · exact ⟨r, mem_put.mpr (Or.inr ⟨hr, hne⟩), hk⟩

theorem covers_del (rs : Catalog) (i : Nat) (k : Bytes) :
    covers (del rs i) k ↔ ∃ r ∈ rs, r.id ≠ i ∧ contains r k := by
  unfold covers
  constructor
  · rintro ⟨r, hr, hk⟩; exact ⟨r, (mem_del.mp hr).1, (mem_del.mp hr).2, hk⟩
  · rintro ⟨r, hr, hne, hk⟩; exact ⟨r, mem_del.mpr ⟨hr, hne⟩, hk⟩

/-- splitting `[s,e)` at `mid` with `s < mid < e` -/
theorem contains_split (p a b : Meta) (k : Bytes)
    (ha1 : a.start = p.start) (ha2 : a.end_ = b.start) (hb2 : b.end_ = p.end_)
    (hmid : b.start ≠ []) (h1 : Bytes.lt p.start b.start = true)
    (_h2 : p.end_ = [] ∨ Bytes.lt b.start p.end_ = true) :
    (contains a k ∨ contains b k) ↔ contains p k := by
  unfold contains
  rw [ha1, ha2, hb2]
  constructor
  · rintro (⟨x, y⟩ | ⟨x, y⟩)
    · refine ⟨x, ?_⟩
      rcases y with y | y
      · exact absurd y hmid
      · rcases _h2 with e | e
        · exact Or.inl e
        · exact Or.inr (lt_trans y e)
    · exact ⟨le_of_lt (lt_of_lt_of_le h1 x), y⟩
  · rintro ⟨x, y⟩
    rcases lt_or_eq_or_gt k b.start with h | h | h
    · exact Or.inl ⟨x, Or.inr h⟩
    · right; subst h; exact ⟨le_refl _, y⟩
    · right; exact ⟨le_of_lt h, y⟩

/-- merging `[s,m)` with its right neighbour `[m,e)` -/
theorem contains_merge (t s u : Meta) (k : Bytes)
    (hu1 : u.start = t.start) (hu2 : u.end_ = s.end_)
    (hte : t.end_ ≠ []) (hadj : s.start = t.end_) (hpt : proper t) (hps : proper s) :
    contains u k ↔ (contains t k ∨ contains s k) := by
  unfold contains
  rw [hu1, hu2, hadj]
  have htl : Bytes.lt t.start t.end_ = true := by
    rcases hpt with h | h
    · exact absurd h hte
    · exact h
  constructor
  · rintro ⟨x, y⟩
    rcases lt_or_eq_or_gt k t.end_ with h | h | h
    · exact Or.inl ⟨x, Or.inr h⟩
    · right; subst h; exact ⟨le_refl _, y⟩
    · right; exact ⟨le_of_lt h, y⟩
  · rintro (⟨x, y⟩ | ⟨x, y⟩)
    · refine ⟨x, ?_⟩
      rcases y with y | y
      · exact absurd y hte
      · rcases hps with e | e
        · exact Or.inl e
        · right; rw [hadj] at e; exact lt_trans y e
    · exact ⟨le_of_lt (lt_of_lt_of_le htl x), y⟩

/-! ### `update` under the good transition table -/

theorem validTrans_refl (c : CatCfg) (a : Nat) : validTrans c a a = true := by simp [validTrans]

theorem validTrans_iff (c : CatCfg) (ht : c.TransGood) (a b : Nat) :
    validTrans c a b = true ↔ (a = b ∨ (a = 0 ∧ b = 1) ∨ (a = 1 ∧ b = 2) ∨ (a = 1 ∧ b = 3) ∨ (a = 2 ∧ b = 3)) := by
  unfold CatCfg.TransGood at ht
  unfold validTrans
  rw [ht]
  simp only [List.any_cons, List.any_nil, Bool.or_false, Bool.or_eq_true, Bool.and_eq_true, beq_iff_eq]
  constructor
  · rintro (h | h | h | h | h)
    · exact Or.inl h
    · exact Or.inr (Or.inl ⟨h.1.symm, h.2.symm⟩)
    · exact Or.inr (Or.inr (Or.inl ⟨h.1.symm, h.2.symm⟩))
    · exact Or.inr (Or.inr (Or.inr (Or.inl ⟨h.1.symm, h.2.symm⟩)))
    · exact Or.inr (Or.inr (Or.inr (Or.inr ⟨h.1.symm, h.2.symm⟩)))
  · rintro (h | h | h | h | h)
    · exact Or.inl h
    · exact Or.inr (Or.inl ⟨h.1.symm, h.2.symm⟩)
    · exact Or.inr (Or.inr (Or.inl ⟨h.1.symm, h.2.symm⟩))
    · exact Or.inr (Or.inr (Or.inr (Or.inl ⟨h.1.symm, h.2.symm⟩)))
    · exact Or.inr (Or.inr (Or.inr (Or.inr ⟨h.1.symm, h.2.symm⟩)))

theorem normState_of_ne {m : Meta} (h : m.state ≠ 0) : normState m = m := by
  unfold normState; rw [if_neg h]

theorem curState_of_mem {rs : Catalog} (hn : rs.Pairwise (fun x y => x.id ≠ y.id)) {e : Meta}
    (he : e ∈ rs) : curState rs e.id = e.state := by
  unfold curState; rw [find_of_mem hn he]

theorem curState_of_fresh {rs : Catalog} {i : Nat} (h : ∀ m ∈ rs, m.id ≠ i) : curState rs i = 0 := by
  unfold curState
  cases hf : find rs i with
  | none => rfl
  | some e => exact absurd (find_some hf).2 (h e (find_some hf).1)

theorem update_same_state (c : CatCfg) (rs : Catalog) (hn : rs.Pairwise (fun x y => x.id ≠ y.id))
    (e m : Meta) (he : e ∈ rs) (hid : m.id = e.id) (hst : m.state = e.state) (h0 : m.id ≠ 0)
    (hs : m.state ≠ 0) : update c rs m = some (put rs m) := by
  unfold update
  rw [if_neg h0, normState_of_ne hs, hid, curState_of_mem hn he, hst, validTrans_refl]
  simp

end NoKV.Region

/-
Model of `pd/core/cluster.go` (region catalog + route lookup) and of the persistence
calls `pd/server/service.go` makes around it.  Core Lean only; executable.
-/
import NoKVModel.Base.Bytes
import NoKVModel.Base.Cfg

namespace NoKV.Region

structure Epoch where
  ver : Nat
  conf : Nat
  deriving DecidableEq, Repr, Inhabited

structure Meta where
  id : Nat
  start : Bytes
  end_ : Bytes            -- `[]` = unbounded
  epoch : Epoch
  peers : List (Nat × Nat) := []
  state : Nat := 1        -- manifest.RegionState (0 new, 1 running, 2 removing, 3 tombstone)
  deriving DecidableEq, Repr, Inhabited

/-- Facts about `pd/core/cluster.go` the proofs depend on (filled in by the extractor). -/
structure PDCfg where
  /-- `UpsertRegionHeartbeat` rejects `start >= end` (end non-empty). -/
  rejectsInverted : Bool
  /-- operator in `isEpochStale`: `incoming.Version <op> current.Version` -/
  staleVerOp : CmpOp
  /-- operator in `isEpochStale`: `incoming.ConfVersion <op> current.ConfVersion` -/
  staleConfOp : CmpOp
  /-- operator in `rangesOverlap`: `bytes.Compare(a.EndKey, b.StartKey) <op> 0` -/
  overlapOp : CmpOp
  /-- `GetRegionByKey`: `bytes.Compare(key, entry.end) <op> 0` ⇒ not found -/
  lookupEndOp : CmpOp
  deriving DecidableEq, Repr

def PDCfg.good : PDCfg :=
  { rejectsInverted := true, staleVerOp := .lt, staleConfOp := .lt, overlapOp := .le, lookupEndOp := .ge }

/-- Every operator as the proofs need it; `rejectsInverted` is kept apart (finding flag). -/
def PDCfg.OpsGood (c : PDCfg) : Prop :=
  c.staleVerOp = .lt ∧ c.staleConfOp = .lt ∧ c.overlapOp = .le ∧ c.lookupEndOp = .ge

instance PDCfg.decOpsGood (c : PDCfg) : Decidable c.OpsGood := by unfold PDCfg.OpsGood; exact inferInstance

def PDCfg.Good (c : PDCfg) : Prop := c.OpsGood ∧ c.rejectsInverted = true

instance PDCfg.decGood (c : PDCfg) : Decidable c.Good := by unfold PDCfg.Good; exact inferInstance

def bcmp (op : CmpOp) (a b : Bytes) : Bool := op.eval (Bytes.lt a b) (a == b)

abbrev PD := List Meta

def isStale (c : PDCfg) (inc cur : Epoch) : Bool :=
  c.staleVerOp.nat inc.ver cur.ver || (inc.ver == cur.ver && c.staleConfOp.nat inc.conf cur.conf)

def overlap (c : PDCfg) (a b : Meta) : Bool :=
  if a.end_ ≠ [] ∧ bcmp c.overlapOp a.end_ b.start then false
  else if b.end_ ≠ [] ∧ bcmp c.overlapOp b.end_ a.start then false
  else true

def inverted (m : Meta) : Bool := m.end_ ≠ [] && Bytes.le m.end_ m.start

inductive UpsertResult where
  | ok | invalidId | invalidRange | stale | overlap
  deriving DecidableEq, Repr

def UpsertResult.str : UpsertResult → String
  | .ok => "ok" | .invalidId => "invalid-id" | .invalidRange => "invalid-range"
  | .stale => "stale" | .overlap => "overlap"

def staleHit (c : PDCfg) (pd : PD) (m : Meta) : Bool :=
  pd.any (fun cur => cur.id = m.id && isStale c m.epoch cur.epoch)

def overlapHit (c : PDCfg) (pd : PD) (m : Meta) : Bool :=
  pd.any (fun o => o.id ≠ m.id && overlap c m o)

def upsert (c : PDCfg) (pd : PD) (m : Meta) : PD × UpsertResult :=
  if m.id = 0 then (pd, .invalidId)
  else if c.rejectsInverted ∧ inverted m then (pd, .invalidRange)
  else if staleHit c pd m then (pd, .stale)
  else if overlapHit c pd m then (pd, .overlap)
  else (m :: pd.filter (fun o => o.id ≠ m.id), .ok)

def remove (pd : PD) (id : Nat) : PD × Bool :=
  if id = 0 then (pd, false)
  else (pd.filter (fun o => o.id ≠ id), pd.any (fun o => o.id = id))

/-- `a` sorts after `b` in `rebuildRegionIndexLocked`'s order (start asc, id asc). -/
def after (a b : Meta) : Bool :=
  Bytes.lt b.start a.start || (a.start == b.start && b.id < a.id)

/-- The index entry `sort.Search(...) - 1` lands on: the greatest entry (in index order)
whose start is `<= key`. -/
def pick (key : Bytes) : PD → Option Meta
  | [] => none
  | m :: rest =>
    let r := pick key rest
    if Bytes.le m.start key then
      match r with
      | none => some m
      | some b => if after m b then some m else some b
    else r

def lookup (c : PDCfg) (pd : PD) (key : Bytes) : Option Meta :=
  match pick key pd with
  | none => none
  | some e =>
    if Bytes.lt key e.start then none
    else if e.end_ ≠ [] ∧ bcmp c.lookupEndOp key e.end_ then none
    else some e

/-! ### specification side -/

def contains (m : Meta) (k : Bytes) : Prop :=
  Bytes.le m.start k = true ∧ (m.end_ = [] ∨ Bytes.lt k m.end_ = true)

instance decContains (m : Meta) (k : Bytes) : Decidable (contains m k) := by unfold contains; exact inferInstance

def proper (m : Meta) : Prop := m.end_ = [] ∨ Bytes.lt m.start m.end_ = true

instance decProper (m : Meta) : Decidable (proper m) := by unfold proper; exact inferInstance

/-- Executable spec of route lookup: all catalog entries whose range contains the key. -/
def specLookup (pd : PD) (key : Bytes) : List Meta := pd.filter (fun m => decide (contains m key))

/-! ### restart: `cmd/nokv/pd.go:restorePDRegions` re-upserts the persisted regions in id order -/

def insertById (m : Meta) : List Meta → List Meta
  | [] => [m]
  | x :: xs => if m.id ≤ x.id then m :: x :: xs else x :: insertById m xs

def sortById (l : List Meta) : List Meta := l.foldr insertById []

def restart (c : PDCfg) (pd : PD) : PD := (sortById pd).foldl (fun acc m => (upsert c acc m).1) []

/-! ### operations as a sum type, for "every history" statements -/

inductive Op where
  | hb (m : Meta)
  | rm (id : Nat)
  deriving Repr

def apply (c : PDCfg) (pd : PD) : Op → PD
  | .hb m => (upsert c pd m).1
  | .rm id => (remove pd id).1

def run (c : PDCfg) (ops : List Op) : PD := ops.foldl (apply c) []

end NoKV.Region

/-
C05  A transaction never sees another transaction partially or late.

Model: NoKVModel/Snap/Model.lean — the transaction oracle of /repo/txn.go composed with C32's
micro-step model of utils/watermarker.go (one `WM.St` for `txnMark`, one for `readMark`), small-step:
one step = one atomic load / add / CAS / mutex section of `oracle.readTs`, `oracle.newCommitTs`,
`WaterMark.Begin/Done/tryAdvance/WaitForMark`, the application of ONE entry of a commit's write
batch to the versioned store, or one API call of an open transaction.  Threads are transactions; any
number of them; every theorem below quantifies over ALL reachable states of ALL schedules
(`Reachable (sys c) s`), by the invariant `Snap.Inv` (NoKVModel/Snap/Invariant.lean, Preserve.lean),
never by enumerating schedules.

The proof composes with C32: the invariant carries "the state of `txnMark` is a reachable state of
the watermark system *under the usage contract*" — the contract (Begin calls serialized, each index
above lastIndex) is not assumed but derived from the oracle mutex — and then uses
`C32`'s contract invariant (`WM.N`: no counted, undecremented index at or below `doneUntil`;
`doneUntil ≤ lastIndex`) and its waiter lemma (`WM.W`: WaitForMark(i) returns only with
`doneUntil ≥ i`) — through the adapter lemmas of NoKVModel/Snap/WMFacts.lean, the only file of the
composition that looks inside the watermark model.

What the configuration must provide (`SnapCfg.Good`): `wm.beginOrder = countThenPublish`,
`oracle.commitLocked` (the mutex spans `nextTxnTs.Add` and `txnMark.Begin`), `txn.doneAfterApply`,
`oracle.readWaits`, and — for a REOPENED database, whose states are initial states of the system
(`seededSt`) — `oracle.markSeed` (`initCommitState` seeds `txnMark` with the recovered version, so
that the first commit timestamp of the session is not done: `Inv.init`).  The *formula* of the read timestamp (`nextTxnTs-1`, clamped by
`txnMark.LastIndex()`, computed without the mutex) is NOT needed: whatever `readTs` is, the wait
makes the snapshot at `readTs` complete and immutable.  Each of the five facts is necessary: a
reachable violation is proved for each (`C05_fails_asis_*`).

Not covered here (named so that the level note can say it):
 * recency ("a transaction begun after a commit returned sees it") — a C03 matter, it does depend on
   the read-timestamp formula;
 * `readMark` is modelled faithfully (micro-steps, index 0 ignored) but no theorem is stated about
   it: pruning of `committedTxns` (DESIGN's `C05_prune_safe`) is the subject of the two open C03
   findings `readmark-zero-untracked` / `readmark-begin-at-doneuntil`;
 * the sliding window of the watermark (`ensureWindow` / `rebuildWindowLocked`) is not in the
   micro-step model (as in C32): after 65 536 commits the window is rebuilt, and a count added to the
   old window during the copy would be lost — neither proved nor refuted here;
 * the store is the abstract list of versions (entries are only added): compaction / GC dropping
   versions a live snapshot still needs is C01/C08's subject;
 * error paths of `sendToWriteCh` (commit timestamp handed out, nothing written, `doneCommit`) are
   not modelled.
-/
import NoKVModel.Snap.Stable

namespace NoKV.Props.C05
open NoKV NoKV.Conc NoKV.Snap

/-- **Headline.**  In every reachable state, for every transaction `R` whose `NewTransaction` has
returned (it is past `txnMark.WaitForMark(readTs)`) and every transaction `C` that was ever handed
a commit timestamp `≤ R.readTs`: every write of `C` is in the store at that timestamp.  So `C` is
visible to `R` completely (and no commit with a timestamp `≤ readTs` can still be on its way: it
cannot appear late). -/
theorem C05_stable_reads (c : SnapCfg) (hc : c.Good) (s : St) (hr : Reachable (sys c) s)
    (rt : Nat) (R : Txn) (hR : s.thr rt = some R) (hb : R.began = true)
    (ct : Nat) (C : Txn) (hC : s.thr ct = some C) (hts : C.commitTs ≠ 0) (hle : C.commitTs ≤ R.readTs) :
    ∀ kv, kv ∈ C.writes → entryOf kv C.commitTs ∈ s.store := by
  have h := Inv.reachable hc s hr
  have hdu := (h.ti rt R hR).began hb
  have hp := (h.ti ct C hC).pc
  -- a timestamp that is still pending is above the watermark, hence above `R.readTs`
  have above : Pending s C.commitTs → 1 ≤ s.tm.nCounted C.commitTs → False := fun h1 h2 => by
    have := pending_above hc.1 h C.commitTs h1 h2; omega
  cases hpc : C.pc <;> rw [hpc] at hp <;> simp only [PcInv] at hp
  case rdLoadNext => exact (hts hp.1).elim
  case rdLoadLast => exact (hts hp.1).elim
  case rdWait => exact (hts hp).elim
  case active => exact (hts hp.1).elim
  case cLock => exact (hts hp).elim
  case cDoneRead => exact (hts hp.1).elim
  case cCleanup => exact (hts hp.1).elim
  case cAssign => exact (hts hp.1).elim
  case cRecord => exact (above hp.2.1 hp.2.2).elim
  case cApply => exact (above hp.1 hp.2.1).elim
  case cDone => exact (above hp.1 hp.2.1).elim
  case dDoneRead => exact hp hts
  case finished => exact hp hts
  case call m w k =>
    have hp' : PcInv s ct C (.call m w k) := by simpa only [PcInv] using hp
    cases m with
    | read =>
      cases k <;> simp only [PcInv] at hp' <;> first | exact hp'.elim | skip
      · exact (hts hp').elim
      · exact (hts hp'.1).elim
      · exact hp' hts
    | txn =>
      rcases hp'.callKind with ⟨_, h0, _⟩ | ⟨_, _, hpend, ⟨wt, hw, hk⟩⟩ | ⟨_, _, hall, _⟩
      · exact (hts h0).elim
      · -- inside txnMark.Begin(ts): before the publish, lastIndex < ts; after the count, counted
        exfalso
        by_cases hst : wt.stage ≤ 2
        · have := WM.begin_unpublished s.tm h.tmR w wt _ hw hk hst
          have h2 := WM.du_le_last s.tm h.tmR
          omega
        · exact above hpend (WM.begun_counted s.tm h.tmR w wt _ hw hk (by omega))
      · exact hall

/-- Distinct transactions have distinct commit timestamps (a commit timestamp identifies its
transaction), and every commit timestamp handed out lies below `nextTxnTs`. -/
theorem C05_ts_unique (c : SnapCfg) (hc : c.Good) (s : St) (hr : Reachable (sys c) s) :
    (∀ a b A B, s.thr a = some A → s.thr b = some B → A.commitTs ≠ 0 → A.commitTs = B.commitTs → a = b) ∧
    (∀ a A, s.thr a = some A → A.commitTs < s.nextTs) :=
  ⟨(Inv.reachable hc s hr).uniq, (Inv.reachable hc s hr).tsLt⟩

/-- **The snapshot does not move.**  From any reachable state, no step of any thread — a commit
entering or leaving any phase, the application of an entry, a watermark micro-step, another
reader — changes the value that a read at `R.readTs` returns, for any key, once `R` has begun. -/
theorem C05_snapshot_frozen (c : SnapCfg) (hc : c.Good) (s s' : St) (a : Act) (hr : Reachable (sys c) s)
    (hs : Snap.step c s a = some s') (rt : Nat) (R : Txn) (hR : s.thr rt = some R) (hb : R.began = true)
    (k : Key) : readAt s'.store k R.readTs = readAt s.store k R.readTs :=
  frozen_step hc (Inv.reachable hc s hr) hs rt R hR hb k

/-- … and over any continuation of the schedule (`acts`: any finite sequence of actions, disabled
ones skipped): the transaction keeps its read timestamp and its snapshot. -/
theorem C05_snapshot_frozen_forever (c : SnapCfg) (hc : c.Good) (acts : List Act) (s : St)
    (hr : Reachable (sys c) s) (rt : Nat) (R : Txn) (hR : s.thr rt = some R) (hb : R.began = true) :
    ∃ R', (run (sys c) s acts).thr rt = some R' ∧ R'.began = true ∧ R'.readTs = R.readTs ∧
      ∀ k, readAt (run (sys c) s acts).store k R.readTs = readAt s.store k R.readTs := by
  induction acts generalizing s R with
  | nil => exact ⟨R, hR, hb, rfl, fun _ => rfl⟩
  | cons a as ih =>
    unfold run
    cases hst : (sys c).step s a with
    | none => exact ih s hr R hR hb
    | some s1 =>
      have h := Inv.reachable hc s hr
      obtain ⟨tid, t', hthr, hevo, _, _⟩ := step_shape hc h hst
      have hfr := fun k => frozen_step hc h hst rt R hR hb k
      -- the record of `rt` after the step
      have hR1 : ∃ R1, s1.thr rt = some R1 ∧ R1.began = true ∧ R1.readTs = R.readTs := by
        by_cases hx : rt = tid
        · subst hx
          have ev := hevo R hR
          exact ⟨t', by rw [hthr, if_pos rfl], ev.began hb, ev.readTs hb⟩
        · exact ⟨R, by rw [hthr, if_neg hx]; exact hR, hb, rfl⟩
      obtain ⟨R1, h1, h2, h3⟩ := hR1
      obtain ⟨R', h4, h5, h6, h7⟩ := ih s1 (.step hr hst) R1 h1 h2
      exact ⟨R', h4, h5, h6.trans h3, fun k => by rw [← h3, h7 k, h3, hfr k]⟩

/-- **Repeatable reads, point reads and iterations alike.**  In every reachable state, every answer
a transaction ever received from the store (`rlog`: one entry per `Get` served by the store and per
key met by an iteration, `none` = not found / not yielded) equals what a read at its read timestamp
returns *now*.  Hence any two reads of one key by one transaction agree, whatever happened in
between. -/
theorem C05_repeatable_reads (c : SnapCfg) (hc : c.Good) (s : St) (hr : Reachable (sys c) s)
    (rt : Nat) (R : Txn) (hR : s.thr rt = some R) :
    (∀ kv, kv ∈ R.rlog → readAt s.store kv.1 R.readTs = kv.2) ∧
    (∀ k v1 v2, (k, v1) ∈ R.rlog → (k, v2) ∈ R.rlog → v1 = v2) := by
  have h := ((RL.reachable hc s hr).2 rt R hR).2
  refine ⟨h, fun k v1 v2 h1 h2 => ?_⟩
  have e1 := h (k, v1) h1
  have e2 := h (k, v2) h2
  simp only at e1 e2
  rw [← e1, ← e2]

/-! ### each of the four facts is necessary -/

/-- thread `rt` has begun, thread `ct` holds a commit timestamp `≤ rt`'s read timestamp, and some
write of `ct` is not in the store -/
def violates (s : St) (rt ct : Nat) : Bool :=
  match s.thr rt, s.thr ct with
  | some R, some C => R.began && (C.commitTs != 0) && decide (C.commitTs ≤ R.readTs) &&
      !(C.writes.all (fun kv => s.store.contains (entryOf kv C.commitTs)))
  | _, _ => false

/-- the negation of `C05_stable_reads`' conclusion at a state -/
def Violated (c : SnapCfg) : Prop :=
  ∃ s, Reachable (sys c) s ∧ ∃ rt R ct C, s.thr rt = some R ∧ R.began = true ∧ s.thr ct = some C ∧
    C.commitTs ≠ 0 ∧ C.commitTs ≤ R.readTs ∧ ∃ kv, kv ∈ C.writes ∧ entryOf kv C.commitTs ∉ s.store

theorem violated_from (c : SnapCfg) (s0 : St) (h0 : (sys c).init s0) (acts : List Act) (rt ct : Nat)
    (h : violates (run (sys c) s0 acts) rt ct = true) : Violated c := by
  refine ⟨run (sys c) s0 acts, run_reachable _ _ (.init h0) _, ?_⟩
  unfold violates at h
  split at h
  · rename_i R C hR hC
    simp only [Bool.and_eq_true, Bool.not_eq_true', bne_iff_ne, decide_eq_true_eq,
      List.all_eq_false] at h
    obtain ⟨⟨⟨h1, h2⟩, h3⟩, kv, h4, h5⟩ := h
    exact ⟨rt, R, ct, C, hR, h1, hC, h2, h3, kv, h4, by simpa using h5⟩
  · cases h

theorem violated_of (c : SnapCfg) (acts : List Act) (rt ct : Nat)
    (h : violates (run (sys c) initSt acts) rt ct = true) : Violated c :=
  violated_from c initSt ⟨0, [], rfl, fun _ h => by cases h⟩ acts rt ct h

def rep (a : Act) : Nat → List Act
  | 0 => []
  | n + 1 => a :: rep a n

def k1 : Key := [97]
def k2 : Key := [98]

/-- two update transactions (threads 0 and 1) begin, write, and call Commit -/
def prelude : List Act :=
  [.spawn 0 true] ++ rep (.run 0) 40 ++ [.spawn 1 true] ++ rep (.run 1) 40 ++
  [.set 0 k1 (some [1]), .set 1 k1 (some [2]), .set 1 k2 (some [2]), .commit 0, .commit 1]

/-- **publish-then-count (the pre-fix order of `WaterMark.Begin`, fixed in /repo by 0630bbc).**
Thread 0 commits at ts 1 up to the entry into `Done(1)`; thread 1 is preempted inside
`txnMark.Begin(2)` after `setLastIndex(2)` and before its count; `Done(1)`'s `tryAdvance` moves the
mark over 1 and over 2 (slot 2 still reads 0); reader 2 then gets read timestamp 2 without waiting,
while commit 2 has written nothing yet. -/
def witnessOrder : List Act :=
  prelude ++ rep (.run 0) 20 ++ rep (.run 1) 9 ++ rep (.run 0) 12 ++ [.spawn 2 false] ++ rep (.run 2) 40

theorem C05_fails_asis_order (c : SnapCfg) (hc : c = { SnapCfg.good with wm := { WM.WMCfg.good with countsFirst := false } }) : Violated c := by
  subst hc
  exact violated_of _ witnessOrder 2 1 (by decide)

/-- **`newCommitTs` without the mutex.**  Thread 0 takes ts 1 and is preempted before
`txnMark.Begin(1)` counts; thread 1 takes ts 2, begins, publishes lastIndex = 2 (its `tryAdvance`
moves the mark over the empty slot 1), applies, and `Done(2)` moves the mark to 2; reader 2 gets
read timestamp 2 while commit 1 has written nothing. -/
def witnessUnlocked : List Act :=
  prelude ++ rep (.run 0) 8 ++ rep (.run 1) 35 ++ [.spawn 2 false] ++ rep (.run 2) 40

theorem C05_fails_asis_unlocked (c : SnapCfg) (hc : c = { SnapCfg.good with commitLocked := false }) :
    Violated c := by
  subst hc
  exact violated_of _ witnessUnlocked 2 0 (by decide)

/-- **`doneCommit` before the write is applied.**  `Done(1)` moves the mark to 1 before any entry
of commit 1 is in the store. -/
def witnessDoneFirst : List Act :=
  prelude ++ rep (.run 0) 30 ++ [.spawn 2 false] ++ rep (.run 2) 40

theorem C05_fails_asis_done_before_apply (c : SnapCfg) (hc : c = { SnapCfg.good with doneAfterApply := false }) :
    Violated c := by
  subst hc
  exact violated_of _ witnessDoneFirst 2 0 (by decide)

/-- **`readTs` without `WaitForMark`.**  Commit 1 has begun (lastIndex = 1) and not applied; the
reader takes read timestamp 1 and returns. -/
def witnessNoWait : List Act :=
  prelude ++ rep (.run 0) 19 ++ [.spawn 2 false] ++ rep (.run 2) 40

theorem C05_fails_asis_no_wait (c : SnapCfg) (hc : c = { SnapCfg.good with readWaits := false }) :
    Violated c := by
  subst hc
  exact violated_of _ witnessNoWait 2 0 (by decide)

/-- **`initCommitState` seeding `txnMark` one too high** (the recovered version + 1 instead of the
recovered version).  Reopen with recovered version 1: the mark already stands at 2.  The first commit
of the session takes timestamp 2 and is preempted inside `txnMark.Begin(2)`; a reader takes read
timestamp 2 and `WaitForMark(2)` returns at once, while commit 2 has written nothing. -/
def reopened1 (c : SnapCfg) : St := seededSt c 1 [{ key := k1, ts := 1, val := some [1] }]

def witnessSeed : List Act :=
  [.spawn 0 true] ++ rep (.run 0) 40 ++ [.set 0 k1 (some [2]), .commit 0] ++ rep (.run 0) 9 ++
  [.spawn 2 false] ++ rep (.run 2) 40

theorem C05_fails_asis_markseed (c : SnapCfg) (hc : c = { SnapCfg.good with seedOff := 1 }) : Violated c := by
  subst hc
  exact violated_from _ (reopened1 _) ⟨1, _, rfl, fun e he => by simp at he; subst he; exact Nat.le_refl _⟩
    witnessSeed 2 0 (by decide)

/-- with the marks seeded at the recovered version itself the same schedule gives the reader read
timestamp 1: the first commit of the session is not its business -/
example :
    ((run (sys SnapCfg.good) (reopened1 SnapCfg.good) witnessSeed).thr 2).map (fun t => (t.readTs, t.began)) =
      some (1, true) := by
  decide

/-! ### non-vacuity -/

example : SnapCfg.good.Good := by decide

/-- commit 1 completes; commit 2 is preempted inside `txnMark.Begin(2)` right after publishing
lastIndex = 2 (it has counted before, being count-then-publish) -/
def goodSchedule : List Act :=
  prelude ++ rep (.run 0) 80 ++ rep (.run 1) 12 ++ [.spawn 2 false] ++ rep (.run 2) 40

/-- under the good configuration the reader takes read timestamp 2 and stays blocked in
`WaitForMark(2)` (not begun) with the mark at 1 -/
example :
    ((run (sys SnapCfg.good) initSt goodSchedule).tm.doneUntil,
     ((run (sys SnapCfg.good) initSt goodSchedule).thr 2).map (fun t => (t.readTs, t.began))) = (1, some (2, false)) := by
  decide

/-- … one micro-step of commit 2 earlier, lastIndex is still 1 and the clamp gives the reader
timestamp 1: it begins at once and commit 2 (timestamp 2) is not its business -/
example :
    ((run (sys SnapCfg.good) initSt
        (prelude ++ rep (.run 0) 80 ++ rep (.run 1) 11 ++ [.spawn 2 false] ++ rep (.run 2) 40)).thr 2).map
      (fun t => (t.readTs, t.began)) = some (1, true) := by
  decide

/-- … and once commit 2 has run to completion the blocked reader begins and sees both writes of it -/
example :
    let s := run (sys SnapCfg.good) initSt (goodSchedule ++ rep (.run 1) 60 ++ rep (.run 2) 10)
    ((s.thr 2).map (fun t => (t.readTs, t.began)), readAt s.store k1 2, readAt s.store k2 2) =
      (some (2, true), some [2], some [2]) := by
  decide

end NoKV.Props.C05

/-
C16 — encodings round-trip, keys order correctly, decoders fail safely.

Only property theorems, their non-vacuity examples, `…_partial` and `…_fails_asis_…`
theorems; models are in `NoKVModel/Codec/*.lean`, lemmas in `…Lemmas.lean`, `Hoare.lean`.
Theorems that depend on the extracted configuration take `(c : CodecCfg) (hc : …)` first;
round-trip theorems hold for *every* configuration and quantify over `c` themselves.
-/
import NoKVModel.Codec.PercLemmas
import NoKVModel.Codec.ManifestRoundTrip
import NoKVModel.Codec.ManifestSafe
import NoKVModel.Codec.KeyLemmas
import NoKVModel.Codec.ValueLemmas
import NoKVModel.Codec.RaftLemmas

namespace NoKV.Props.C16
open NoKV NoKV.Codec

/-! ## uvarint -/

/-- `binary.Uvarint(AppendUvarint(nil, x) ++ rest) = (x, width)` for every uint64 `x`. -/
theorem C16_uvarint_roundtrip (x : Nat) (hx : x < two64) (rest : Bytes) :
    uvarintGo (putUvarint x ++ rest) = (x, ((putUvarint x).length : Int)) ∧
      1 ≤ (putUvarint x).length ∧ (putUvarint x).length ≤ 10 :=
  ⟨uvarintGo_put x hx rest, putUvarint_length x⟩

/-! ## percolator lock / write records -/

/-- `DecodeLock(EncodeLock(l)) = l` for all field values (whatever the guard shape). -/
theorem C16_lock_roundtrip (c : CodecCfg) (l : Lock) (h : l.WF) (hlen : (encodeLock l).length < two63) :
    ((decodeLock c).run (encodeLock l)).1 = .ok l := by
  have hp := parses_lockBody c l h (encodeLock l) 1 0 [] hlen
    (by simp [encodeLock]) (by simp [encodeLock])
  obtain ⟨al, e⟩ := hp
  simp only [P.run, decodeLock, encodeLock, List.singleton_append, List.cons_append]
  simp only [encodeLock, List.singleton_append, List.cons_append, List.append_assoc] at e
  simp only [ne_eq, not_true_eq_false, ↓reduceIte, List.append_assoc]
  exact (congrArg Prod.fst e)

theorem C16_write_roundtrip (c : CodecCfg) (w : Write) (h : w.WF) (hk : w.kind < 256)
    (hlen : (encodeWrite w).length < two63) :
    ((decodeWrite c).run (encodeWrite w)).1 = .ok w := by
  have hne : ∃ x xs, putUvarint w.startTs ++ (if w.short.length > 0 then [1] ++ (putUvarint w.short.length ++ w.short) else [0]) = x :: xs := by
    have := (putUvarint_length w.startTs).1
    cases hh : putUvarint w.startTs with
    | nil => rw [hh] at this; simp at this
    | cons x xs => exact ⟨x, _, rfl⟩
  obtain ⟨x, xs, hx⟩ := hne
  have hp := parses_writeBody c w h (encodeWrite w) 2 0 [] hlen
    (by simp [encodeWrite]) (by simp [encodeWrite, List.append_assoc])
  obtain ⟨al, e⟩ := hp
  have henc : encodeWrite w = 1 :: w.kind :: x :: xs := by
    simp [encodeWrite, List.append_assoc, ← hx]
  rw [henc] at e ⊢
  simp only [P.run, decodeWrite, ne_eq, not_true_eq_false, ↓reduceIte]
  exact (congrArg Prod.fst e)

/-- Guarded decoders: no input makes them panic, and they allocate at most `|input|` bytes. -/
theorem C16_lock_safe (c : CodecCfg) (hc : c.lockLenGuard = .u64) (d : Bytes) (hl : d.length < two63) :
    ((decodeLock c).run d).1 ≠ .panic ∧ ((decodeLock c).run d).1 ≠ .oom ∧
      ((decodeLock c).run d).2.alloc ≤ d.length := by
  unfold P.run decodeLock
  cases d with
  | nil => simp
  | cons v rest =>
    by_cases hv : v ≠ 1
    · simp [hv]
    · simp only [hv, ↓reduceIte]
      have := safe_lockBody c hc (v :: rest) hl ⟨1, 0⟩ (by simp [Inb]; omega)
      exact ⟨this.1, this.2.1, by simpa using this.2.2.1⟩

theorem C16_write_safe (c : CodecCfg) (hc : c.writeLenGuard = .u64) (d : Bytes) (hl : d.length < two63) :
    ((decodeWrite c).run d).1 ≠ .panic ∧ ((decodeWrite c).run d).1 ≠ .oom ∧
      ((decodeWrite c).run d).2.alloc ≤ d.length := by
  unfold P.run decodeWrite
  match d with
  | [] => simp
  | [_] => simp
  | [_, _] => simp
  | v :: kind :: x :: rest =>
    by_cases hv : v ≠ 1
    · simp [hv]
    · simp only [hv, ↓reduceIte]
      have := safe_writeBody c hc (v :: kind :: x :: rest) hl kind ⟨2, 0⟩ (by simp [Inb]; omega)
      exact ⟨this.1, this.2.1, by simpa using this.2.2.1⟩

/-- As-is (`pos+int(primaryLen) > len(data)`): a declared length of 2^63 wraps to a negative
`int`, passes the check, and the slice expression panics. 11 bytes of input. -/
def lockWitness : Bytes := [1, 128, 128, 128, 128, 128, 128, 128, 128, 128, 1]

theorem C16_fails_asis_lock_intwrap (c : CodecCfg) (hc : c.lockLenGuard = .intwrap) :
    ((decodeLock c).run lockWitness).1 = .panic := by
  unfold P.run decodeLock decodeLockBody
  rw [hc]
  decide

def writeWitness : Bytes := [1, 0, 5, 1, 128, 128, 128, 128, 128, 128, 128, 128, 128, 1]

theorem C16_fails_asis_write_intwrap (c : CodecCfg) (hc : c.writeLenGuard = .intwrap) :
    ((decodeWrite c).run writeWitness).1 = .panic := by
  unfold P.run decodeWrite decodeWriteBody
  rw [hc]
  decide

/-! ## manifest edits -/

/-- `readEdit(writeEdit(e)) = e` for each of the 8 edit types (and unknown types), every
well-formed field value, every guard shape. -/
theorem C16_manifest_roundtrip (c : CodecCfg) (e : Edit) (h : e.WF) (hl : (encodeEdit e).length < oomLimit) :
    (readEdit c (frameEdit e)).1 = .ok e := readEdit_frameEdit c e h hl

theorem C16_manifest_payload_roundtrip (c : CodecCfg) (e : Edit) (h : e.WF)
    (hl : (encodeEdit e).length < two63) : ((decodeEdit c).run (encodeEdit e)).1 = .ok e :=
  decodeEdit_encodeEdit c e h hl 0

/-- With `pos < len(data)` in front of the raft-pointer and region arms (commit 9ece5dd) an
edit written without a payload (`edit.Raft == nil`, `edit.Region == nil`) reads back with a
nil payload; with `<=` it read back as an all-zero pointer / region. -/
theorem C16_manifest_nil_payload_roundtrip (c : CodecCfg) (hc : c.manNilPayloadLt = true) :
    (readEdit c (frameEdit ⟨6, .raft none⟩)).1 = .ok ⟨6, .raft none⟩ ∧
    (readEdit c (frameEdit ⟨7, .region none⟩)).1 = .ok ⟨7, .region none⟩ := by
  obtain ⟨f1, f2, uv, rb, pb, fb, np, f7, f8, f9, f10, f11, f12, f13⟩ := c
  simp only at hc
  subst hc
  constructor <;> (cases fb <;> rfl)

/-- Non-vacuity: a region edit with peers and a value-log head edit are well formed. -/
example : Edit.WF ⟨7, .region (some ⟨5, false, [97], [98], 1, 2, 1, [⟨3, 4⟩, ⟨5, 6⟩]⟩)⟩ := by
  simp [Edit.WF, RegionEdit.WF, PeersWF, two64, oomLimit]
example : Edit.WF ⟨3, .vl (some ⟨1, 2, 3, true⟩)⟩ := by
  simp [Edit.WF, VLMeta.WF, two64, two32]

/-- Repaired decoder (`uvarintAt`, `readBytesAt`, bounded peer count): for every payload below
128 MiB, no panic, no out-of-memory, and at most 18·|payload| bytes allocated. -/
theorem C16_manifest_safe (c : CodecCfg) (hc : ManGood c) (d : Bytes) (hsmall : 8 * d.length < oomLimit) :
    ((decodeEdit c).run d).1 ≠ .panic ∧ ((decodeEdit c).run d).1 ≠ .oom ∧
      ((decodeEdit c).run d).2.alloc ≤ 18 * d.length := by
  have := safe_decodeEdit c hc d hsmall ⟨0, 0⟩
  simpa [P.run] using this

/-- … and the framed reader with a bounded payload allocation: every stream. -/
theorem C16_manifest_frame_safe (c : CodecCfg) (hc : ManGood c ∧ c.manFrameBounded = true) (st : Bytes)
    (hsmall : 8 * st.length < oomLimit) :
    (readEdit c st).1 ≠ .panic ∧ (readEdit c st).1 ≠ .oom ∧ (readEdit c st).2.alloc ≤ 19 * st.length := by
  obtain ⟨hg, hf⟩ := hc
  unfold readEdit
  by_cases h4 : st.length < 4
  · simp [h4]
  · simp only [h4, ↓reduceIte, hf]
    have hmin : min (leNat (st.take 4)) (st.length - 4) ≤ st.length := by omega
    have h1 : ¬ (min (leNat (st.take 4)) (st.length - 4) ≥ oomLimit) := by omega
    simp only [h1, ↓reduceIte]
    by_cases h2 : leNat (st.take 4) > st.length - 4
    · simp only [h2, ↓reduceIte]
      exact ⟨by simp, by simp, by (try simp only); omega⟩
    · simp only [h2, ↓reduceIte]
      have hpl : ((st.drop 4).take (leNat (st.take 4))).length ≤ st.length := by
        simp only [List.length_take, List.length_drop]; omega
      have := safe_decodeEdit c hg ((st.drop 4).take (leNat (st.take 4))) (by omega)
        ⟨0, min (leNat (st.take 4)) (st.length - 4)⟩
      exact ⟨this.1, this.2.1, by have := this.2.2; simp only at this; omega⟩

/-- Truncations of a persisted edit are reported as errors (never a different value). -/
theorem C16_manifest_truncation (c : CodecCfg) (e : Edit) (hl : (encodeEdit e).length < oomLimit)
    (t : Nat) (ht : t < (frameEdit e).length) : ∃ k, (readEdit c ((frameEdit e).take t)).1 = .err k := by
  unfold readEdit
  have h4 : (le32 (encodeEdit e).length).length = 4 := by simp [le32]
  have hfl : (frameEdit e).length = 4 + (encodeEdit e).length := by simp [frameEdit, h4]
  by_cases hlt : ((frameEdit e).take t).length < 4
  · simp only [hlt, ↓reduceIte]
    exact ⟨_, rfl⟩
  · simp only [hlt, ↓reduceIte]
    have ht4 : 4 ≤ t := by simp only [List.length_take] at hlt; omega
    have htake : ((frameEdit e).take t).take 4 = le32 (encodeEdit e).length := by
      rw [List.take_take, Nat.min_eq_left ht4]
      unfold frameEdit
      rw [← h4]; simp
    rw [htake, le32_leNat _ (by unfold oomLimit two32 at *; omega)]
    have hlen : ((frameEdit e).take t).length = t := by simp only [List.length_take]; omega
    rw [hlen]
    have h1 : ¬ ((if c.manFrameBounded = true then min (encodeEdit e).length (t - 4) else (encodeEdit e).length) ≥ oomLimit) := by
      split <;> omega
    have h2 : (encodeEdit e).length > t - 4 := by omega
    simp only [h1, h2, ↓reduceIte]
    exact ⟨_, rfl⟩

/-- As-is (`pos += n` with `n` unchecked): an 11-byte overlong varint in an add-file edit makes
`binary.Uvarint` return `n = -11`, `pos` becomes negative and the next `data[pos:]` panics. -/
def manVarintWitness : Bytes := [78, 111, 75, 86, 0, 255, 255, 255, 255, 255, 255, 255, 255, 255, 255, 1]

theorem C16_fails_asis_manifest_varint (c : CodecCfg) (hc : c.manUvarint = .raw) :
    ((decodeEdit c).run manVarintWitness).1 = .panic := by
  obtain ⟨f1, f2, uv, f4, f5, f6, f6b, f7, f8, f9, f10, f11, f12, f13⟩ := c
  simp only at hc
  subst hc
  rfl

/-- As-is (`make([]PeerMeta, 0, peersCount)` unguarded): 19 bytes declaring 2^40 peers ask the
runtime for 16 TiB: fatal out-of-memory, the process dies. -/
def manPeersWitness : Bytes := [78, 111, 75, 86, 7, 1, 0, 0, 0, 1, 1, 0, 128, 128, 128, 128, 128, 32]

theorem C16_fails_asis_manifest_peers (c : CodecCfg) (hc : c.manPeersBounded = false) :
    ((decodeEdit c).run manPeersWitness).1 = .oom := by
  obtain ⟨f1, f2, uv, rb, pb, f6, np, f7, f8, f9, f10, f11, f12, f13⟩ := c
  simp only at hc
  subst hc
  cases uv <;> cases rb <;> cases np <;> rfl

/-- As-is (`make([]byte, length)` before reading): 4 bytes declaring a 2 GiB payload. -/
theorem C16_fails_asis_manifest_frame (c : CodecCfg) (hc : c.manFrameBounded = false) :
    (readEdit c [0, 0, 0, 128]).1 = .oom := by
  unfold readEdit
  simp [hc, leNat, oomLimit]

/-! ## internal keys -/

/-- `SplitInternalKey(InternalKey(cf, k, ts)) = (cf, k, ts)`. -/
theorem C16_ikey_roundtrip (c : CodecCfg) (hc : c.parseTsMin = .le ∨ c.parseTsMin = .lt)
    (cf : Nat) (k : Bytes) (ts : Nat) (h1 : cf ≤ maxCF) (ht : ts < two64) :
    splitInternalKey c (internalKey c cf k ts) = some (cf, k, ts) := split_internal c hc cf k ts h1 ht

/-- `CompareKeys` on internal keys is exactly: column family ascending, user key ascending
(`bytes.Compare`), version descending. -/
theorem C16_key_order (c : CodecCfg) (hc : c.tsInverted = true ∧ c.cmpPrefixSuffix = true ∧ c.cfMarkerOk = true)
    (cf1 : Nat) (k1 : Bytes) (ts1 : Nat) (cf2 : Nat) (k2 : Bytes) (ts2 : Nat)
    (h1 : cf1 ≤ maxCF) (h2 : cf2 ≤ maxCF) (ht1 : ts1 < two64) (ht2 : ts2 < two64) :
    compareKeys (internalKey c cf1 k1 ts1) (internalKey c cf2 k2 ts2) =
      some (specKeyCmp cf1 k1 ts1 cf2 k2 ts2) :=
  compareKeys_internal c hc.1 cf1 k1 ts1 cf2 k2 ts2 h1 h2 ht1 ht2

/-- … which is a strict total order on (cf, key, version) triples: `eq` only for equal triples,
antisymmetric, transitive. -/
theorem C16_key_order_total (cf1 : Nat) (k1 : Bytes) (ts1 : Nat) (cf2 : Nat) (k2 : Bytes) (ts2 : Nat) :
    (specKeyCmp cf1 k1 ts1 cf2 k2 ts2 = .eq ↔ (cf1 = cf2 ∧ k1 = k2 ∧ ts1 = ts2)) ∧
    (specKeyCmp cf1 k1 ts1 cf2 k2 ts2 = .lt ↔ specKeyCmp cf2 k2 ts2 cf1 k1 ts1 = .gt) := by
  unfold specKeyCmp
  constructor
  · constructor
    · intro h
      by_cases a : cf1 < cf2
      · simp [a] at h
      · by_cases b : cf2 < cf1
        · simp [a, b] at h
        · by_cases e : Bytes.lt k1 k2 = true
          · simp [a, b, e] at h
          · by_cases f : Bytes.lt k2 k1 = true
            · simp [a, b, e, f] at h
            · have hk := Bytes.eq_of_not_lt (by simpa using e) (by simpa using f)
              by_cases g : ts1 > ts2
              · simp [a, b, e, f, g] at h
              · by_cases g2 : ts1 < ts2
                · simp [a, b, e, f, g, g2] at h
                · exact ⟨by omega, hk, by omega⟩
    · rintro ⟨rfl, rfl, rfl⟩
      simp [Bytes.lt_irrefl]
  · by_cases a : cf1 < cf2
    · have : ¬ cf2 < cf1 := by omega
      simp [a, this]
    · by_cases b : cf2 < cf1
      · simp [a, b]
      · by_cases e : Bytes.lt k1 k2 = true
        · have := Bytes.lt_asymm e
          simp [a, b, e, this]
        · by_cases f : Bytes.lt k2 k1 = true
          · simp [a, b, e, f]
          · by_cases g : ts1 > ts2
            · have : ¬ ts2 > ts1 := by omega
              simp [a, b, e, f, g, this]
            · by_cases g2 : ts1 < ts2
              · simp [a, b, e, f, g, g2]
              · simp [a, b, e, f, g, g2]

theorem C16_key_order_trans (cf1 : Nat) (k1 : Bytes) (ts1 : Nat) (cf2 : Nat) (k2 : Bytes) (ts2 : Nat)
    (cf3 : Nat) (k3 : Bytes) (ts3 : Nat)
    (h12 : specKeyCmp cf1 k1 ts1 cf2 k2 ts2 = .lt) (h23 : specKeyCmp cf2 k2 ts2 cf3 k3 ts3 = .lt) :
    specKeyCmp cf1 k1 ts1 cf3 k3 ts3 = .lt := by
  unfold specKeyCmp at *
  by_cases a12 : cf1 < cf2
  · by_cases a23 : cf2 < cf3
    · have : cf1 < cf3 := by omega
      simp [this]
    · by_cases b23 : cf3 < cf2
      · simp [a23, b23] at h23
      · have : cf1 < cf3 := by omega
        simp [this]
  · by_cases b12 : cf2 < cf1
    · simp [a12, b12] at h12
    · have hcf : cf1 = cf2 := by omega
      subst hcf
      by_cases a23 : cf1 < cf3
      · simp [a23]
      · by_cases b23 : cf3 < cf1
        · simp [a23, b23] at h23
        · simp only [a12, b12, a23, b23, ↓reduceIte] at h12 h23 ⊢
          by_cases e12 : Bytes.lt k1 k2 = true
          · by_cases e23 : Bytes.lt k2 k3 = true
            · simp [Bytes.lt_trans e12 e23]
            · by_cases f23 : Bytes.lt k3 k2 = true
              · simp [e23, f23] at h23
              · have hk := Bytes.eq_of_not_lt (by simpa using e23) (by simpa using f23)
                subst hk
                simp [e12]
          · by_cases f12 : Bytes.lt k2 k1 = true
            · simp [e12, f12] at h12
            · have hk := Bytes.eq_of_not_lt (by simpa using e12) (by simpa using f12)
              subst hk
              by_cases e23 : Bytes.lt k1 k3 = true
              · simp [e23]
              · by_cases f23 : Bytes.lt k3 k1 = true
                · simp [e23, f23] at h23
                · simp only [e12, e23, f23, Bool.false_eq_true, ↓reduceIte] at h12 h23 ⊢
                  by_cases g12 : ts1 > ts2
                  · by_cases g23 : ts2 > ts3
                    · have : ts1 > ts3 := by omega
                      simp [this]
                    · simp only [g23, ↓reduceIte] at h23
                      split at h23 <;> contradiction
                  · simp only [g12, ↓reduceIte] at h12
                    split at h12 <;> contradiction

/-- `KeyWithTs` / `ParseKey` / `ParseTs` round trip for every key and timestamp
(needs `len(key) < 8` in `ParseTs`, like `ParseKey` has). -/
theorem C16_kts_roundtrip (c : CodecCfg) (hc : c.parseTsMin = .lt) (k : Bytes) (ts : Nat) (ht : ts < two64) :
    parseKey (keyWithTs c k ts) = k ∧ parseTs c (keyWithTs c k ts) = some ts := by
  have l1 := tsBytes_length c ts
  unfold parseKey parseTs keyWithTs
  have hlen : (k ++ tsBytes c ts).length = k.length + 8 := by simp [l1]
  have h8 : ¬ ((k ++ tsBytes c ts).length < 8) := by omega
  have hcond : c.parseTsMin.nat (k ++ tsBytes c ts).length 8 = false := by
    rw [hlen, hc]; simp [CmpOp.nat, CmpOp.eval]
  simp only [h8, ↓reduceIte, hcond, Bool.false_eq_true]
  rw [take_len_sub8 _ _ l1, drop_len_sub8 _ _ l1]
  refine ⟨rfl, ?_⟩
  unfold tsBytes maxU64
  have hb : beNat (be64 (if c.tsInverted = true then two64 - 1 - ts else ts)) =
      (if c.tsInverted = true then two64 - 1 - ts else ts) := by
    apply be64_beNat
    split <;> (unfold two64 at *; omega)
  rw [hb]
  by_cases hi : c.tsInverted = true
  · simp only [hi, ↓reduceIte]
    have : two64 - 1 - (two64 - 1 - ts) = ts := by unfold two64 at *; omega
    rw [this]
  · simp [hi]

/-- What holds as-is (`len(key) <= 8`): the round trip for non-empty keys. Missing: the empty key. -/
theorem C16_kts_roundtrip_partial (c : CodecCfg) (hc : c.parseTsMin = .le ∨ c.parseTsMin = .lt)
    (k : Bytes) (hk : k ≠ []) (ts : Nat) (ht : ts < two64) :
    parseKey (keyWithTs c k ts) = k ∧ parseTs c (keyWithTs c k ts) = some ts := by
  rcases hc with hc | hc
  · have l1 := tsBytes_length c ts
    have hkl : 0 < k.length := List.length_pos_iff.mpr hk
    unfold parseKey parseTs keyWithTs
    have hlen : (k ++ tsBytes c ts).length = k.length + 8 := by simp [l1]
    have h8 : ¬ ((k ++ tsBytes c ts).length < 8) := by omega
    have hcond : c.parseTsMin.nat (k ++ tsBytes c ts).length 8 = false := by
      rw [hlen, hc]; simp [CmpOp.nat, CmpOp.eval]; omega
    simp only [h8, ↓reduceIte, hcond, Bool.false_eq_true]
    rw [take_len_sub8 _ _ l1, drop_len_sub8 _ _ l1]
    refine ⟨rfl, ?_⟩
    unfold tsBytes maxU64
    have hb : beNat (be64 (if c.tsInverted = true then two64 - 1 - ts else ts)) =
        (if c.tsInverted = true then two64 - 1 - ts else ts) := by
      apply be64_beNat
      split <;> (unfold two64 at *; omega)
    rw [hb]
    by_cases hi : c.tsInverted = true
    · simp only [hi, ↓reduceIte]
      have : two64 - 1 - (two64 - 1 - ts) = ts := by unfold two64 at *; omega
      rw [this]
    · simp [hi]
  · exact C16_kts_roundtrip c hc k ts ht

/-- As-is: the empty key with timestamp 5 reads back timestamp 0. -/
theorem C16_fails_asis_kts_empty (c : CodecCfg) (hc : c.parseTsMin = .le) :
    parseTs c (keyWithTs c [] 5) = some 0 := by
  unfold parseTs keyWithTs
  rw [hc]
  simp [tsBytes, be64, be32, CmpOp.nat, CmpOp.eval]

/-! ## ValueStruct, ValuePtr, entry header, entry record -/

theorem C16_valueptr_roundtrip (p : ValuePtr) (h1 : p.len < two32) (h2 : p.offset < two32)
    (h3 : p.fid < two32) (h4 : p.bucket < two32) : decodePtr (encodePtr p) = p := by
  unfold two32 at *
  cases p
  simp only [encodePtr, decodePtr, be32, beNat] at *
  simp
  refine ⟨?_, ?_, ?_, ?_⟩ <;> omega

theorem C16_valuestruct_roundtrip (c : CodecCfg) (v : ValueStruct) (he : v.expiresAt < two64) :
    decodeValue c (encodeValue v) = .ok v := by
  unfold decodeValue encodeValue
  simp only [List.singleton_append, List.cons_append, List.nil_append, uvarintGo_put _ he]
  have hw := (putUvarint_length v.expiresAt).1
  have h1 : ¬ (((putUvarint v.expiresAt).length : Int) ≤ 0) := by omega
  have h2 : ¬ (1 + ((putUvarint v.expiresAt).length : Int) < 0) := by omega
  simp only [h1, and_false, ↓reduceIte, h2]
  have h3 : (1 + ((putUvarint v.expiresAt).length : Int)).toNat = (putUvarint v.expiresAt).length + 1 := by omega
  rw [h3]
  simp

/-- `ValueStruct.EncodedSize()` is exactly the number of bytes `EncodeValue` writes, so a buffer
of `EncodedSize()` bytes (arena, skiplist, ART, SST block) decodes back to the value with no
trailing byte; `Entry.EncodedSize()` is the value length plus the varint widths of meta and
expiry. For all field values. -/
theorem C16_encoded_size (v : ValueStruct) (he : v.expiresAt < two64) (e : Entry) (hm : e.mt < two64)
    (hx : e.expiresAt < two64) :
    valueEncodedSize v = (encodeValue v).length ∧
    entryEncodedSize e = e.value.length + (putUvarint e.mt).length + (putUvarint e.expiresAt).length := by
  unfold valueEncodedSize entryEncodedSize encodeValue
  rw [sizeVarint_eq _ he, sizeVarint_eq _ hm, sizeVarint_eq _ hx]
  refine ⟨?_, rfl⟩
  simp only [List.length_append, List.length_singleton, List.length_cons, List.length_nil]
  omega

/-- … hence: allocate `EncodedSize()` bytes, `EncodeValue` into them, `DecodeValue` all of them
(what arena/skiplist/ART/SST builder do) returns the value. -/
theorem C16_valuestruct_sized_roundtrip (c : CodecCfg) (v : ValueStruct) (he : v.expiresAt < two64) :
    decodeValue c ((encodeValue v ++ List.replicate (valueEncodedSize v - (encodeValue v).length) 0).take
      (valueEncodedSize v)) = .ok v := by
  have h := (C16_encoded_size v he ⟨[], [], 0, 0⟩ (by simp [two64]) (by simp [two64])).1
  rw [h]
  simp only [Nat.sub_self, List.replicate_zero, List.append_nil, List.take_length]
  exact C16_valuestruct_roundtrip c v he

/-- A checked `DecodeValue` never panics (hypothetical repair: the function has no error
result today). -/
theorem C16_valuestruct_safe (c : CodecCfg) (hc : c.vsDecodeChecked = true) (buf : Bytes) :
    decodeValue c buf ≠ .panic := by
  unfold decodeValue
  cases buf with
  | nil => simp [hc]
  | cons m rest =>
    simp only [hc, true_and]
    split
    · simp
    · split
      · omega
      · simp

theorem C16_fails_asis_valuestruct (c : CodecCfg) (hc : c.vsDecodeChecked = false) :
    decodeValue c [] = .panic ∧
      decodeValue c [0, 255, 255, 255, 255, 255, 255, 255, 255, 255, 255, 1] = .panic := by
  constructor
  · simp [decodeValue, hc]
  · unfold decodeValue
    rw [hc]
    decide

theorem bind_ok {α β : Type} {p : P α} {f : α → P β} {d : Bytes} {s s' : St} {a : α}
    (h : p d s = (.ok a, s')) : (p >>= f) d s = f a d s' := by
  show P.bind p f d s = _
  unfold P.bind
  rw [h]

/-- `EntryHeader.Decode(EntryHeader.Encode(h)) = (h, width)`. -/
theorem C16_header_roundtrip (h : Header) (hw : h.WF) (hl : (encodeHeader h).length < two63) :
    (decodeHeader.run (encodeHeader h)).1 = .ok (h, ((encodeHeader h).length : Int)) := by
  obtain ⟨h1, h2, h3, h4⟩ := hw
  have e0 : encodeHeader h = putUvarint h.klen ++ (putUvarint h.vlen ++ (putUvarint h.mt ++ (putUvarint h.expiresAt ++ []))) := by
    simp [encodeHeader, List.append_assoc]
  generalize hd : encodeHeader h = d at *
  obtain ⟨a1, p1⟩ := Parses.uvChecked h.klen (by unfold two32 two64 at *; omega) d 0 0 _ hl (by omega) (by simpa using e0)
  obtain ⟨q1, r1⟩ := drop_after (n := 0) (by omega) (by simpa using e0)
  obtain ⟨a2, p2⟩ := Parses.uvChecked h.vlen (by unfold two32 two64 at *; omega) d _ a1 _ hl r1 q1
  obtain ⟨q2, r2⟩ := drop_after r1 q1
  obtain ⟨a3, p3⟩ := Parses.uvChecked h.mt (by unfold two64 at *; omega) d _ a2 _ hl r2 q2
  obtain ⟨q3, r3⟩ := drop_after r2 q2
  obtain ⟨a4, p4⟩ := Parses.uvChecked h.expiresAt h4 d _ a3 [] hl r3 (by simpa using q3)
  unfold P.run decodeHeader
  simp only [Int.cast_ofNat_Int] at p1
  have p1' : uvChecked d { pos := 0, alloc := 0 } = (Out.ok h.klen, { pos := ((0 + (putUvarint h.klen).length : Nat) : Int), alloc := a1 }) := p1
  rw [bind_ok p1', bind_ok p2, bind_ok p3]
  have hm : ¬ (h.mt > 255) := by omega
  simp only [hm, ↓reduceIte]
  rw [bind_ok p4]
  simp only [P.getPos, bind, P.bind, Pure.pure, P.pure, Nat.mod_eq_of_lt h1, Nat.mod_eq_of_lt h2]
  have : d.length = (putUvarint h.klen).length + (putUvarint h.vlen).length + (putUvarint h.mt).length + (putUvarint h.expiresAt).length := by
    rw [e0]; simp; omega
  simp [this, Nat.add_assoc]

theorem safe_getPos (d : Bytes) (I : St → Prop) : Safe d I 0 P.getPos := by
  intro s hs
  exact ⟨by simp [P.getPos], by simp [P.getPos], by simp [P.getPos], fun _ => hs⟩

/-- `EntryHeader.Decode` and `DecodeValueSlice` never panic and allocate nothing, whatever the
bytes. -/
theorem C16_header_safe (crc : Bytes → Nat) (d : Bytes) :
    (decodeHeader.run d).1 ≠ .panic ∧ (decodeHeader.run d).1 ≠ .oom ∧ (decodeHeader.run d).2.alloc = 0 ∧
      decodeValueSlice crc d ≠ .panic ∧ decodeValueSlice crc d ≠ .oom := by
  have hS : Safe d (Inb d) 0 decodeHeader := by
    unfold decodeHeader
    exact Safe.mono (Safe.bind (safe_uvChecked d) fun _ => Safe.bind (safe_uvChecked d) fun _ =>
      Safe.bind (safe_uvChecked d) fun _ => Safe.ite (Safe.fail _)
        (Safe.bind (safe_uvChecked d) fun _ => Safe.bind (safe_getPos d _) fun _ => Safe.pure (k := 0) _)) (by omega)
  obtain ⟨h1, h2, h3, _⟩ := hS ⟨0, 0⟩ (by simp [Inb])
  refine ⟨h1, h2, by simp only at h3; unfold P.run; omega, ?_, ?_⟩
  · unfold decodeValueSlice
    cases hr : decodeHeader d ⟨0, 0⟩ with
    | mk o s =>
      rw [hr] at h1
      cases o with
      | ok a => simp only; split <;> (try split) <;> simp
      | err k => simp
      | panic => exact absurd rfl h1
      | oom => simp
  · unfold decodeValueSlice
    cases hr : decodeHeader d ⟨0, 0⟩ with
    | mk o s =>
      rw [hr] at h2
      cases o with
      | ok a => simp only; split <;> (try split) <;> simp
      | err k => simp
      | panic => simp
      | oom => exact absurd rfl h2

/-- `DecodeEntry(EncodeEntry(e)) = e` for every key, value, meta and expiry. -/
theorem C16_entry_roundtrip (c : CodecCfg) (crc : Bytes → Nat) (hcrc : ∀ b, crc b < two32)
    (e : Entry) (hw : e.WF) :
    (decodeEntry c crc (encodeEntry crc e)).1 =
      .ok (e, (encodeHeader ⟨e.key.length, e.value.length, e.mt, e.expiresAt⟩).length) :=
  decodeEntry_encodeEntry c crc hcrc e hw

/-- A decoder that allocates no more than the stream still holds: for every input below 1 GiB
no panic, no out-of-memory, at most 2·|input| bytes for key and value. -/
theorem C16_entry_safe (c : CodecCfg) (hc : c.entryAllocBounded = true) (crc : Bytes → Nat) (d : Bytes)
    (hsmall : d.length < oomLimit) :
    (decodeEntry c crc d).1 ≠ .panic ∧ (decodeEntry c crc d).1 ≠ .oom ∧ (decodeEntry c crc d).2 ≤ 2 * d.length := by
  unfold decodeEntry
  cases hh : headerFrom d with
  | error kn =>
    obtain ⟨k, n⟩ := kn
    simp only
    refine ⟨?_, ?_, by simp⟩ <;> (split <;> (try split) <;> simp)
  | ok hn =>
    obtain ⟨h, hlen⟩ := hn
    simp only [hc, ↓reduceIte, List.length_drop]
    have m1 : min h.klen (d.length - hlen) ≤ d.length := by omega
    have m2 : min h.vlen (d.length - hlen - h.klen) ≤ d.length := by omega
    have n1 : ¬ (min h.klen (d.length - hlen) ≥ oomLimit) := by omega
    have n2 : ¬ (min h.vlen (d.length - hlen - h.klen) ≥ oomLimit) := by omega
    simp only [n1, n2, ↓reduceIte]
    split
    · exact ⟨by simp, by simp, by (try simp only); omega⟩
    · split
      · exact ⟨by simp, by simp, by (try simp only); omega⟩
      · split
        · exact ⟨by simp, by simp, by (try simp only); omega⟩
        · split
          · exact ⟨by simp, by simp, by (try simp only); omega⟩
          · exact ⟨by simp, by simp, by (try simp only); omega⟩

/-- As-is (`make([]byte, keyLen)` straight from the header): 8 bytes declaring a 4 GiB key. -/
theorem C16_fails_asis_entry_alloc (c : CodecCfg) (hc : c.entryAllocBounded = false) (crc : Bytes → Nat) :
    (decodeEntry c crc [255, 255, 255, 255, 15, 0, 0, 0]).1 = .oom := by
  obtain ⟨f1, f2, f3, f4, f5, f6, f6b, ea, f8, f9, f10, f11, f12, f13⟩ := c
  simp only at hc
  subst hc
  rfl

/-! ## raft WAL payload framing, command frame -/

theorem C16_cmd_frame_roundtrip (body : Bytes) : cmdUnframe (cmdFrame body) = some body := by
  simp [cmdUnframe, cmdFrame]

/-- `decodeRaftEntries(encodeRaftEntries(gid, bodies))` recovers the group id and every
(opaque, marshalled) entry body. -/
theorem C16_raft_entries_roundtrip (c : CodecCfg) (gid : Nat) (bs : List Bytes) (hg : gid < two64)
    (hb : ∀ b ∈ bs, b.length < two64) (hsz : entrySize * bs.length < oomLimit)
    (hl : (frameEntries gid bs).length < two63) :
    ((unframeEntries c).run (frameEntries gid bs)).1 = .ok (gid, bs) :=
  unframeEntries_frame c gid bs hg hb hsz hl

/-- hard-state and snapshot records (same framing) -/
theorem C16_raft_single_roundtrip (c : CodecCfg) (gid : Nat) (body : Bytes) (hg : gid < two64)
    (hb : body.length < two64) (hl : (frameOne gid body).length < two63) :
    ((unframeOne c).run (frameOne gid body)).1 = .ok (gid, body) :=
  unframeOne_frame c gid body hg hb hl

/-- Guarded framing (`size > uint64(len(data)-idx)`): no panic, no out-of-memory on any payload
(below 21 MiB for the entries form, whose `make` is 48 bytes per declared entry, at most one
per input byte); the framing itself allocates nothing else. -/
theorem C16_raft_frame_safe (c : CodecCfg) (hc : c.raftLenGuard = .u64) (d : Bytes)
    (hsmall : entrySize * d.length < oomLimit) :
    ((unframeEntries c).run d).1 ≠ .panic ∧ ((unframeEntries c).run d).1 ≠ .oom ∧
      ((unframeEntries c).run d).2.alloc ≤ entrySize * d.length ∧
    ((unframeOne c).run d).1 ≠ .panic ∧ ((unframeOne c).run d).1 ≠ .oom ∧
      ((unframeOne c).run d).2.alloc = 0 := by
  have hl : d.length < two63 := by unfold entrySize oomLimit two63 at *; omega
  have h1 := safe_unframeEntries c hc d hsmall ⟨0, 0⟩ (by simp [Inb])
  have h2 := safe_unframeOne c hc d hl ⟨0, 0⟩ (by simp [Inb])
  unfold P.run
  refine ⟨h1.1, h1.2.1, by simpa using h1.2.2.1, h2.1, h2.2.1, ?_⟩
  have := h2.2.2.1
  simp only at this
  omega

theorem C16_fails_asis_raft_intwrap (c : CodecCfg) (hc : c.raftLenGuard = .intwrap) :
    ((unframeOne c).run [1, 128, 128, 128, 128, 128, 128, 128, 128, 128, 1, 0]).1 = .panic := by
  unfold P.run unframeOne
  rw [hc]
  decide

end NoKV.Props.C16

/-
C14  Corrupted log and table bytes are never served as valid data.

FULL-STRENGTH STATEMENT the property demands (WAL / value-log part): for EVERY record (any type,
any payload length) and EVERY single-bit flip position in its encoding — length field, type
byte, payload, stored CRC — the decoder never returns, as valid, a (type, payload) different
from the original: it returns an error or a torn/absent verdict.

What is proved (all unbounded: every message length, every record, every position):
* `C14_crc_single_bit` / `C14_crc_single_byte` / `C14_crc_affine` / `C14_crc_unit_error` — the
  property of CRC-32C everything rests on, about the bitwise model `Wal/Crc.lean` (tied to Go's
  `hash/crc32` Castagnoli by the correspondence run): the checksum is affine over GF(2)
  (`crc (a ⊕ b) = crc a ⊕ crc b ⊕ crc 0` for equal lengths), the LFSR step is injective (the
  polynomial's top bit is set, i.e. multiplying by x modulo the polynomial is invertible), hence
  a one-bit (indeed any one-byte) difference anywhere in a message of any length changes the CRC.
* `C14_wal_flip_outside_length` (headline) — EVERY record, EVERY bit position of its encoding
  outside the 4-byte length field (type byte, payload, stored CRC), anywhere in a segment, whatever
  follows: replay delivers exactly the records before it and reports a checksum error.
  (`C14_wal_body_partial`, `C14_wal_crcfield_partial` are its two halves, now kind `lemma`.)
* `C14_wal_lenflip_partial` + `C14_wal_lenflip_last_up` — the length field (framing argument):
  a flipped length L' always differs from L; the record is then rejected (empty / torn / bad
  checksum: nothing of it nor anything behind it is delivered) UNLESS the 4 bytes found at the
  shifted CRC position equal the CRC-32C of the shifted body.  For the newest record of a segment
  and a bit that was 0 (L' > L) the verdict is always "torn" (absent).
* `C14_fails_wal_lenflip_collision`, `C14_fails_vlog_lenflip_collision` — THE FULL STATEMENT IS
  FALSE for length fields, and not only with probability 2^-32: payload bytes are caller-chosen,
  so the collision is constructible.  One WAL record (type 1, payload a016d052 00000000) whose
  length byte 09 flips to 01 is replayed as the never-written record (1, empty); one value-log
  entry whose vlen byte 0c flips to 04 is read back by `DecodeValueSlice` (= `ReadValue`) as the
  4-byte value 11223344 instead of its 12 bytes.  Both reproduced on the real code
  (`corpus/C14/finding-*-len-flip-collision.ops`); finding `len-flip-collision`.
* `C14_entry_slice_partial`, `C14_entry_stream_partial` — value-log entry records, both decoders
  (`DecodeValueSlice` behind `ReadValue`; `DecodeEntryFrom` behind `EntryIterator`/`Iterate`):
  a valid entry with one bit inverted anywhere behind its varint header (key, value, stored CRC)
  is rejected with `ErrBadChecksum`.

NOT proved / exact missing piece (see props/C14.json `assumptions`):
* length-field flips when the collision predicate holds: false, see above (open finding; a
  repair means covering the length by a checksum, an on-disk format change);
* flips inside the varint header of a value-log entry (klen, vlen, meta, expiresAt): same
  framing situation (`C14_fails_vlog_lenflip_collision`); meta/expiresAt flips that keep the
  varint boundaries are CRC-covered but the lifted theorem is not written: bounded exploration;
* SST data blocks / index checksum: separate sub-check C14_sst (not in this file).
-/
import NoKVModel.Wal.FlipLemmas
import NoKVModel.Wal.ManagerLemmas
import NoKVModel.Wal.EntryLemmas
import NoKVModel.Wal.CrcLemmas

namespace NoKV.Props.C14
open NoKV NoKV.Wal

/-- **CRC-32C detects every single-byte substitution** (hence every burst confined to a byte). -/
theorem C14_crc_single_byte (pre suf : Bytes) (x x' : Nat) (hx : x < 256) (hx' : x' < 256) (hne : x ≠ x') :
    crc32c (pre ++ x :: suf) ≠ crc32c (pre ++ x' :: suf) :=
  crc32c_subst pre suf hx hx' hne

/-- **CRC-32C detects every single-bit flip**, at every bit position of every message. -/
theorem C14_crc_single_bit (msg : Bytes) (hb : ∀ x ∈ msg, x < 256) (bit : Nat) (hbit : bit / 8 < msg.length) :
    crc32c (flipBitAt msg bit) ≠ crc32c msg := by
  obtain ⟨pre, x, suf, he, _, hf⟩ := flipBitAt_eq msg bit hbit
  have hx : x < 256 := hb x (by rw [he]; simp)
  obtain ⟨h1, h2⟩ := flipByte_spec x hx (bit % 8) (Nat.mod_lt _ (by omega))
  rw [hf, he]
  exact crc32c_subst pre suf h1 hx h2

/-- **CRC-32C is affine over GF(2)**: `crc (a ⊕ b) = crc a ⊕ crc b ⊕ crc (0…0)` for messages of
equal (arbitrary) length. -/
theorem C14_crc_affine (a b : Bytes) (h : a.length = b.length) :
    crc32c (xorBytes a b) = crc32c a ^^^ crc32c b ^^^ crc32c (List.replicate a.length 0) :=
  crc32c_affine a b h

/-- the error polynomial of a single bit is never a multiple of the generator: one set bit
followed/preceded by any number of zero bytes never has the checksum of the all-zero message -/
theorem C14_crc_unit_error (n bit : Nat) (hbit : bit / 8 < n) :
    crc32c (flipBitAt (List.replicate n 0) bit) ≠ crc32c (List.replicate n 0) :=
  C14_crc_single_bit (List.replicate n 0) (by intro x hx; simp at hx; omega) bit (by simpa using hbit)

theorem replaySeg_badcrc (c : WalCfg) (id : Nat) (pre : List Rec) (hpre : ∀ r ∈ pre, RecOK r) (tail : Bytes)
    (h : decodeOne c crc32c tail = .err .badcrc) :
    replaySeg c crc32c ⟨id, encodeAll crc32c pre ++ tail⟩ = (pre, .badcrc) := by
  unfold replaySeg
  simp only
  rw [scan_encodeAll c crc32c 8 pre tail hpre, scan_of_err c crc32c 8 tail .badcrc h]
  simp [Status.ofErr]

/-- (kind `lemma`; superseded by `C14_wal_flip_outside_length`, which states both halves on the
flat encoding at any position of a segment.)
**Flip in the CRC-covered bytes (type byte or payload) of a WAL record.**  Segment =
complete records `pre`, then record `r` with one bit of its type+payload bytes inverted, then
anything.  Replay of the segment: exactly `pre`, then a checksum error. -/
theorem C14_wal_body_partial (c : WalCfg) (hc : c.CrcGood) (id : Nat) (pre : List Rec) (hpre : ∀ r ∈ pre, RecOK r)
    (r : Rec) (hr : RecOK r) (hb : ∀ x ∈ body r, x < 256) (bit : Nat) (hbit : bit / 8 < (body r).length)
    (rest : Bytes) :
    replaySeg c crc32c ⟨id, encodeAll crc32c pre ++
        (be32 (r.payload.length + 1) ++ (flipBitAt (body r) bit ++ (be32 (crc32c (body r)) ++ rest)))⟩
      = (pre, .badcrc) := by
  apply replaySeg_badcrc c id pre hpre
  have hne := C14_crc_single_bit (body r) hb bit hbit
  obtain ⟨p, x, s, he, _, hf⟩ := flipBitAt_eq (body r) bit hbit
  have hlen : (flipBitAt (body r) bit).length = r.payload.length + 1 := by
    have : (body r).length = r.payload.length + 1 := by simp [body]
    rw [hf, ← this, he]; simp
  rw [decodeOne_parts c crc32c (r.payload.length + 1) _ _ rest hr hlen (by omega) (be32_length _)]
  rw [if_pos]
  refine ⟨hc, ?_⟩
  rw [rd32_be32, Nat.mod_eq_of_lt (crc32c_lt _), Nat.mod_eq_of_lt (crc32c_lt _)]
  exact fun h => hne h.symm

/-- (kind `lemma`; superseded by `C14_wal_flip_outside_length`.)
**Flip in the stored CRC of a WAL record.** -/
theorem C14_wal_crcfield_partial (c : WalCfg) (hc : c.CrcGood) (id : Nat) (pre : List Rec) (hpre : ∀ r ∈ pre, RecOK r)
    (r : Rec) (hr : RecOK r) (bit : Nat) (hbit : bit / 8 < 4) (rest : Bytes) :
    replaySeg c crc32c ⟨id, encodeAll crc32c pre ++
        (be32 (r.payload.length + 1) ++ (body r ++ (flipBitAt (be32 (crc32c (body r))) bit ++ rest)))⟩
      = (pre, .badcrc) := by
  apply replaySeg_badcrc c id pre hpre
  obtain ⟨p, x, s, he, _, hf⟩ := flipBitAt_eq (be32 (crc32c (body r))) bit (by rw [be32_length]; exact hbit)
  have hx : x < 256 := by
    have : x ∈ be32 (crc32c (body r)) := by rw [he]; simp
    simp only [be32, List.mem_cons, List.not_mem_nil, or_false] at this
    omega
  obtain ⟨_, h2⟩ := flipByte_spec x hx (bit % 8) (Nat.mod_lt _ (by omega))
  have hlen : (flipBitAt (be32 (crc32c (body r))) bit).length = 4 := by
    rw [hf, ← be32_length (crc32c (body r)), he]; simp
  have hbl : (body r).length = r.payload.length + 1 := by simp [body]
  rw [decodeOne_parts c crc32c (r.payload.length + 1) _ _ rest hr hbl (by omega) hlen]
  rw [if_pos]
  refine ⟨hc, ?_⟩
  have hv : rd32 (be32 (crc32c (body r))) = crc32c (body r) % 4294967296 := rd32_be32 _
  rw [← hv, hf, he]
  exact rd32_subst p s _ _ h2

/-- **Every flip outside the length field.**  Segment = complete records `pre`, then the encoding of
ANY record `r`, then anything.  Invert ANY bit of the segment that lies in `r`'s type byte,
payload or stored CRC (positions `4 ≤ byte < encLen r` of its encoding).  Replay delivers exactly
`pre` and reports a checksum error: the corrupted record is never delivered, nor anything behind it. -/
theorem C14_wal_flip_outside_length (c : WalCfg) (hc : c.CrcGood) (id : Nat) (pre : List Rec)
    (hpre : ∀ r ∈ pre, RecOK r) (r : Rec) (hr : RecOK r) (hb : ∀ x ∈ body r, x < 256) (rest : Bytes) (bit : Nat)
    (h1 : 8 * ((encodeAll crc32c pre).length + 4) ≤ bit)
    (h2 : bit < 8 * ((encodeAll crc32c pre).length + encLen r)) :
    replaySeg c crc32c ⟨id, flipBitAt (encodeAll crc32c pre ++ (encode crc32c r ++ rest)) bit⟩ = (pre, .badcrc) := by
  have hbl : (body r).length = r.payload.length + 1 := by simp [body]
  unfold encLen at h2
  rw [flipBitAt_append_right _ _ bit (by omega)]
  have e1 : encode crc32c r ++ rest
      = be32 (r.payload.length + 1) ++ ((body r ++ be32 (crc32c (body r))) ++ rest) := by
    simp [encode]
  rw [e1, flipBitAt_append_right _ _ _ (by rw [be32_length]; omega), be32_length]
  by_cases hcase : (bit - 8 * (encodeAll crc32c pre).length - 8 * 4) / 8 < (body r).length
  · rw [flipBitAt_append_left _ _ _ (by rw [List.length_append]; omega),
      flipBitAt_append_left _ _ _ hcase]
    have := C14_wal_body_partial c hc id pre hpre r hr hb _ hcase rest
    simpa [List.append_assoc] using this
  · rw [flipBitAt_append_left _ _ _ (by rw [List.length_append, be32_length]; omega),
      flipBitAt_append_right _ _ _ (by omega)]
    have := C14_wal_crcfield_partial c hc id pre hpre r hr
      (bit - 8 * (encodeAll crc32c pre).length - 8 * 4 - 8 * (body r).length) (by omega) rest
    simpa [List.append_assoc] using this

theorem replaySeg_err_fst (c : WalCfg) (id : Nat) (pre : List Rec) (hpre : ∀ r ∈ pre, RecOK r) (tail : Bytes)
    (e : DErr) (h : decodeOne c crc32c tail = .err e) :
    (replaySeg c crc32c ⟨id, encodeAll crc32c pre ++ tail⟩).1 = pre := by
  unfold replaySeg
  simp only
  rw [scan_encodeAll c crc32c 8 pre tail hpre, scan_of_err c crc32c 8 tail e h]
  split <;> simp

/-
FULL-STRENGTH STATEMENT for the length field: "for every record and every bit of its 4-byte length,
replay never delivers a record different from the original".  That statement is FALSE
(`C14_fails_wal_lenflip_collision`).  What holds for every record, every bit, every continuation
of the segment is the framing dichotomy below; the exact missing piece is the second disjunct
(the shifted frame's CRC check passing), which depends on the payload / following bytes and is
satisfiable.
-/

/-- **Flip in the length field (framing argument).**  `tail` = the record's type+payload, its
stored CRC and whatever follows in the segment.  With any bit of the length field inverted the
denoted length `L'` differs from the true one, and either replay delivers exactly `pre` (the
record is rejected as empty, torn or corrupt, and nothing behind it is delivered), or the
segment is long enough for the shifted frame and the 4 bytes at its CRC position equal the
CRC-32C of its `L'` body bytes. -/
theorem C14_wal_lenflip_partial (c : WalCfg) (id : Nat) (pre : List Rec) (hpre : ∀ r ∈ pre, RecOK r)
    (r : Rec) (hr : RecOK r) (rest : Bytes) (bit : Nat) (hbit : bit / 8 < 4) :
    let tail := body r ++ (be32 (crc32c (body r)) ++ rest)
    let L' := rd32 (flipBitAt (be32 (r.payload.length + 1)) bit)
    L' ≠ r.payload.length + 1 ∧
    ((replaySeg c crc32c ⟨id, encodeAll crc32c pre ++ (flipBitAt (be32 (r.payload.length + 1)) bit ++ tail)⟩).1 = pre
      ∨ (L' ≠ 0 ∧ L' + 4 ≤ tail.length ∧
          (c.crcChecked = true → rd32 ((tail.drop L').take 4) = crc32c (tail.take L')))) := by
  intro tail L'
  refine ⟨rd32_flip_ne _ bit hbit hr, ?_⟩
  have hh : (flipBitAt (be32 (r.payload.length + 1)) bit).length = 4 := by
    rw [flipBitAt_length, be32_length]
  have hd := decodeOne_hdr c crc32c _ tail hh
  by_cases h0 : L' = 0
  · left
    apply replaySeg_err_fst c id pre hpre _ .empty
    rw [hd, if_pos h0]
  · by_cases h1 : tail.length < L'
    · left
      apply replaySeg_err_fst c id pre hpre _ .part
      rw [hd, if_neg h0, if_pos h1]
    · by_cases h2 : (tail.drop L').length < 4
      · left
        apply replaySeg_err_fst c id pre hpre _ .part
        rw [hd, if_neg h0, if_neg h1, if_pos h2]
      · by_cases h3 : c.crcChecked ∧ rd32 ((tail.drop L').take 4) ≠ crc32c (tail.take L') % 4294967296
        · left
          apply replaySeg_err_fst c id pre hpre _ .badcrc
          rw [hd, if_neg h0, if_neg h1, if_neg h2, if_pos h3]
        · right
          refine ⟨h0, ?_, ?_⟩
          · rw [List.length_drop] at h2; omega
          · intro hcc
            rw [Nat.mod_eq_of_lt (crc32c_lt _)] at h3
            by_cases he : rd32 ((tail.drop L').take 4) = crc32c (tail.take L')
            · exact he
            · exact absurd ⟨hcc, he⟩ h3

/-- **Length flip on the newest record, bit was 0.**  If `r` is the last record of the segment and
the inverted bit makes the length larger, the frame runs past the end of the file: replay
delivers exactly `pre`, status ok — the record is treated as torn (absent). -/
theorem C14_wal_lenflip_last_up (c : WalCfg) (hc : c.ReplayGood) (id : Nat) (pre : List Rec)
    (hpre : ∀ r ∈ pre, RecOK r) (r : Rec) (bit : Nat)
    (hup : r.payload.length + 1 < rd32 (flipBitAt (be32 (r.payload.length + 1)) bit)) :
    replaySeg c crc32c ⟨id, encodeAll crc32c pre ++
        (flipBitAt (be32 (r.payload.length + 1)) bit ++ (body r ++ (be32 (crc32c (body r)) ++ [])))⟩
      = (pre, .ok) := by
  have hh : (flipBitAt (be32 (r.payload.length + 1)) bit).length = 4 := by
    rw [flipBitAt_length, be32_length]
  have hd := decodeOne_hdr c crc32c _ (body r ++ (be32 (crc32c (body r)) ++ [])) hh
  have hl : (body r ++ (be32 (crc32c (body r)) ++ [])).length = r.payload.length + 1 + 4 := by
    simp [body, be32_length]
  have herr : decodeOne c crc32c (flipBitAt (be32 (r.payload.length + 1)) bit ++
      (body r ++ (be32 (crc32c (body r)) ++ []))) = .err .part := by
    rw [hd, if_neg (by omega)]
    by_cases h1 : (body r ++ (be32 (crc32c (body r)) ++ [])).length
        < rd32 (flipBitAt (be32 (r.payload.length + 1)) bit)
    · rw [if_pos h1]
    · rw [if_neg h1, if_pos (by rw [List.length_drop, hl]; omega)]
  unfold replaySeg
  simp only
  rw [scan_encodeAll c crc32c 8 pre _ hpre, scan_of_err c crc32c 8 _ .part herr]
  unfold WalCfg.ReplayGood at hc
  simp [hc]

/-- **The full statement fails for the length field (WAL).**  Record (type 1, payload
a016d052 00000000); a016d052 is the CRC-32C of the byte 01.  Bit 27 of the encoding (bit 3 of the
last length byte: 09 → 01) inverted: replay delivers the record (1, empty), which was never
written.  Same witness as `corpus/C14/finding-wal-len-flip-collision.ops` (real code agrees). -/
theorem C14_fails_wal_lenflip_collision (c : WalCfg) (hc : c = WalCfg.good) :
    (replaySeg c crc32c ⟨1, flipBitAt (encode crc32c ⟨1, [0xa0, 0x16, 0xd0, 0x52, 0, 0, 0, 0]⟩) 27⟩).1
      = [⟨1, []⟩]
    ∧ (replaySeg c crc32c ⟨1, encode crc32c ⟨1, [0xa0, 0x16, 0xd0, 0x52, 0, 0, 0, 0]⟩⟩)
      = ([⟨1, [0xa0, 0x16, 0xd0, 0x52, 0, 0, 0, 0]⟩], .ok) := by
  subst hc
  decide +kernel

/-- **…and for the value-length varint of a value-log entry.**  Entry key 6b, value
11223344 a729da3f 00000000 (a729da3f = CRC-32C of 01 04 00 00 6b 11223344).  Bit 11 (bit 3 of the
vlen byte: 0c → 04) inverted: `DecodeValueSlice` returns the value 11223344 as valid.
Same witness as `corpus/C14/finding-vlog-len-flip-collision.ops` (real `vlog.Manager.ReadValue` agrees). -/
theorem C14_fails_vlog_lenflip_collision :
    decodeSlice EntCfg.good crc32c
        (flipBitAt (encodeEntry ⟨[0x6b], [0x11, 0x22, 0x33, 0x44, 0xa7, 0x29, 0xda, 0x3f, 0, 0, 0, 0], 0, 0⟩ crc32c) 11)
      = .ok [0x11, 0x22, 0x33, 0x44] ⟨1, 4, 0, 0⟩
    ∧ decodeSlice EntCfg.good crc32c
        (encodeEntry ⟨[0x6b], [0x11, 0x22, 0x33, 0x44, 0xa7, 0x29, 0xda, 0x3f, 0, 0, 0, 0], 0, 0⟩ crc32c)
      = .ok [0x11, 0x22, 0x33, 0x44, 0xa7, 0x29, 0xda, 0x3f, 0, 0, 0, 0] ⟨1, 12, 0, 0⟩ := by
  decide +kernel

/-- the same segment without a flip delivers `r` (so the two theorems above are about a record
that *would* have been served) -/
theorem C14_wal_intact (c : WalCfg) (id : Nat) (pre : List Rec) (hpre : ∀ r ∈ pre, RecOK r)
    (r : Rec) (hr : RecOK r) :
    replaySeg c crc32c ⟨id, encodeAll crc32c pre ++
        (be32 (r.payload.length + 1) ++ (body r ++ (be32 (crc32c (body r)) ++ [])))⟩
      = (pre ++ [r], .ok) := by
  have h1 : encodeAll crc32c pre ++ (be32 (r.payload.length + 1) ++ (body r ++ (be32 (crc32c (body r)) ++ [])))
      = encodeAll crc32c (pre ++ [r]) := by
    simp [encodeAll_append, encodeAll_cons, encodeAll_nil, encode]
  rw [h1]
  apply replaySeg_clean
  intro x hx
  rcases List.mem_append.mp hx with h | h
  · exact hpre x h
  · simp at h; subst h; exact hr

/-- **Flip behind the header of a value-log entry, slice decoder.**  `a ++ x :: s` is a valid
entry (`DecodeValueSlice` returns a value), its varint header ends at `idx ≤ |a|`, and the byte
`x` at offset `|a|` lies inside the record (key, value or stored CRC).  With bit `k` of `x`
inverted the decoder returns `ErrBadChecksum`.  (Quantified over the entry-codec configuration
`ec`; the extracted value is tied by the facts `ent.sliceCrcChecked`.) -/
theorem C14_entry_slice_partial (ec : EntCfg) (hc : ec.Good) (a s : Bytes) (x k : Nat) (hx : x < 256) (hk : k < 8)
    (h : EHdr) (idx : Nat) (v : Bytes)
    (hd : decodeHdr (a ++ x :: s) = .ok h idx) (hidx : idx ≤ a.length)
    (hpos : a.length < idx + h.klen + h.vlen + 4)
    (hvalid : decodeSlice ec crc32c (a ++ x :: s) = .ok v h) :
    decodeSlice ec crc32c (a ++ flipByte x k :: s) = .err .badcrc := by
  obtain ⟨h1, h2⟩ := flipByte_spec x hx k hk
  exact decodeSlice_subst ec hc.1 a s x (flipByte x k) hx h1 (fun e => h2 e.symm) h idx v hd hidx hpos hvalid

/-
FULL-STRENGTH STATEMENT for entry records: every bit of the encoding, including the varint header.
`C14_entry_slice_partial` / `C14_entry_stream_partial` cover every position behind the header
(key, value, stored CRC) for both decoders.  Lacking: header positions — for klen/vlen the full
statement is false (`C14_fails_vlog_lenflip_collision`); for meta/expiresAt flips that keep the
varint boundaries the CRC argument applies but the theorem is not written (exploration only).
-/

/-- **Flip behind the header of a value-log entry, stream decoder** (`DecodeEntryFrom`, the
decoder of `EntryIterator` / `vlog.Manager.Iterate` / `sanitizeValueLog`).  Same hypotheses as
`C14_entry_slice_partial`; the iterator positioned at the entry delivers nothing and stops with
`ErrBadChecksum`. -/
theorem C14_entry_stream_partial (ec : EntCfg) (hc : ec.Good) (a s : Bytes) (x k : Nat) (hx : x < 256) (hk : k < 8)
    (h : EHdr) (idx : Nat) (e : Entry) (n : Nat) (rest : Bytes)
    (hd : decodeHdr (a ++ x :: s) = .ok h idx) (hidx : idx ≤ a.length)
    (hpos : a.length < idx + h.klen + h.vlen + 4)
    (hvalid : decodeStream ec crc32c (a ++ x :: s) = .ok e n rest) :
    decodeStream ec crc32c (a ++ flipByte x k :: s) = .err .badcrc ∧
      iterEntries ec crc32c (a ++ flipByte x k :: s) = ([], .badcrc) := by
  obtain ⟨h1, h2⟩ := flipByte_spec x hx k hk
  have := decodeStream_subst ec hc.2 a s x (flipByte x k) hx h1 (fun e => h2 e.symm) h idx e n rest hd hidx hpos hvalid
  exact ⟨this, iterEntries_of_err ec crc32c _ _ this⟩

/-! ### non-vacuity -/

/-- a concrete valid entry (key 6b, value 76616c, meta 2): intact it yields its value, with bit 0
of the first value byte inverted it is rejected -/
example :
    decodeSlice EntCfg.good crc32c (encodeEntry ⟨[0x6b], [0x76, 0x61, 0x6c], 2, 0⟩ crc32c)
      = .ok [0x76, 0x61, 0x6c] ⟨1, 3, 2, 0⟩ := by decide +kernel


example : crc32c [0x31, 0x32, 0x33, 0x34, 0x35, 0x36, 0x37, 0x38, 0x39] = 0xE3069283 := by decide +kernel

example : flipBitAt [0x31, 0x32] 9 = [0x31, 0x30] := by decide

end NoKV.Props.C14

/-
C14  Corrupted log and table bytes are never served as valid data.

What is proved here (all unbounded: every message, every record, every position):
* `C14_crc_single_bit` — inverting any one bit of any message changes its CRC-32C (bitwise
  model `Wal/Crc.lean`, tied to Go's `hash/crc32` Castagnoli by the correspondence run).
  Proof: the LFSR step is GF(2)-linear and injective (top bit of the polynomial is set).
* `C14_wal_body_partial`, `C14_wal_crcfield_partial` — a single-bit flip in the type byte, the
  payload, or the stored CRC of any record of a WAL segment: replay of that segment delivers
  exactly the records before it and reports a checksum error; the corrupted record is never
  delivered, nor anything after it.
* `C14_wal_intact` — the same segment without the flip delivers the record (non-vacuity).
* `C14_entry_slice_partial` — `kv.DecodeValueSlice` (the reader behind `vlog.Manager.ReadValue`):
  a valid entry with one bit inverted anywhere behind its varint header (key, value, stored
  CRC) decodes to `ErrBadChecksum`, never to a value.

NOT proved (named `_partial` for that reason; see props/C14.json `assumptions`):
* flips inside the 4-byte length header of a WAL record and inside the varint header of a
  value-log entry (lengths change, the CRC-covered region moves; a 2^-32 collision cannot be
  excluded for all contents): bounded exploration only (every bit of small real files);
* the stream decoder of value-log entries (`kv.DecodeEntryFrom` / `EntryIterator`, used by
  `vlog.Manager.Iterate`): the model `Wal/Entry.lean` is validated bit-for-bit against the real
  decoder and real vlog files by the correspondence run, and `C14_crc_single_bit` bears on it,
  but the lifted theorem is written only for the slice decoder (`C14_entry_slice_partial`);
* SST data blocks / index checksum (`lsm/table.go`, `file/sstable_linux.go`): not covered.
-/
import NoKVModel.Wal.FlipLemmas
import NoKVModel.Wal.ManagerLemmas
import NoKVModel.Wal.EntryLemmas

namespace NoKV.Props.C14
open NoKV NoKV.Wal

/-- **CRC-32C detects every single-byte substitution** (hence every burst confined to a byte). -/
theorem C14_crc_single_byte (pre suf : Bytes) (x x' : Nat) (hx : x < 256) (hx' : x' < 256) (hne : x ≠ x') :
    crc32c (pre ++ x :: suf) ≠ crc32c (pre ++ x' :: suf) :=
  crc32c_subst pre suf hx hx' hne

/-- **CRC-32C detects every single-bit flip**, at every bit position of every message. -/
theorem C14_crc_single_bit (msg : Bytes) (hb : ∀ x ∈ msg, x < 256) (bit : Nat) (hbit : bit / 8 < msg.length) :
    crc32c (flipBitAt msg bit) ≠ crc32c msg := by
  obtain ⟨pre, x, suf, he, _, hf⟩ := flipBitAt_eq msg bit hbit
  have hx : x < 256 := hb x (by rw [he]; simp)
  obtain ⟨h1, h2⟩ := flipByte_spec x hx (bit % 8) (Nat.mod_lt _ (by omega))
  rw [hf, he]
  exact crc32c_subst pre suf h1 hx h2

theorem replaySeg_badcrc (c : WalCfg) (id : Nat) (pre : List Rec) (hpre : ∀ r ∈ pre, RecOK r) (tail : Bytes)
    (h : decodeOne c crc32c tail = .err .badcrc) :
    replaySeg c crc32c ⟨id, encodeAll crc32c pre ++ tail⟩ = (pre, .badcrc) := by
  unfold replaySeg
  simp only
  rw [scan_encodeAll c crc32c 8 pre tail hpre, scan_of_err c crc32c 8 tail .badcrc h]
  simp [Status.ofErr]

/-- **Flip in the CRC-covered bytes (type byte or payload) of a WAL record.**  Segment =
complete records `pre`, then record `r` with one bit of its type+payload bytes inverted, then
anything.  Replay of the segment: exactly `pre`, then a checksum error. -/
theorem C14_wal_body_partial (c : WalCfg) (hc : c.CrcGood) (id : Nat) (pre : List Rec) (hpre : ∀ r ∈ pre, RecOK r)
    (r : Rec) (hr : RecOK r) (hb : ∀ x ∈ body r, x < 256) (bit : Nat) (hbit : bit / 8 < (body r).length)
    (rest : Bytes) :
    replaySeg c crc32c ⟨id, encodeAll crc32c pre ++
        (be32 (r.payload.length + 1) ++ (flipBitAt (body r) bit ++ (be32 (crc32c (body r)) ++ rest)))⟩
      = (pre, .badcrc) := by
  apply replaySeg_badcrc c id pre hpre
  have hne := C14_crc_single_bit (body r) hb bit hbit
  obtain ⟨p, x, s, he, _, hf⟩ := flipBitAt_eq (body r) bit hbit
  have hlen : (flipBitAt (body r) bit).length = r.payload.length + 1 := by
    have : (body r).length = r.payload.length + 1 := by simp [body]
    rw [hf, ← this, he]; simp
  rw [decodeOne_parts c crc32c (r.payload.length + 1) _ _ rest hr hlen (by omega) (be32_length _)]
  rw [if_pos]
  refine ⟨hc, ?_⟩
  rw [rd32_be32, Nat.mod_eq_of_lt (crc32c_lt _), Nat.mod_eq_of_lt (crc32c_lt _)]
  exact fun h => hne h.symm

/-- **Flip in the stored CRC of a WAL record.** -/
theorem C14_wal_crcfield_partial (c : WalCfg) (hc : c.CrcGood) (id : Nat) (pre : List Rec) (hpre : ∀ r ∈ pre, RecOK r)
    (r : Rec) (hr : RecOK r) (bit : Nat) (hbit : bit / 8 < 4) (rest : Bytes) :
    replaySeg c crc32c ⟨id, encodeAll crc32c pre ++
        (be32 (r.payload.length + 1) ++ (body r ++ (flipBitAt (be32 (crc32c (body r))) bit ++ rest)))⟩
      = (pre, .badcrc) := by
  apply replaySeg_badcrc c id pre hpre
  obtain ⟨p, x, s, he, _, hf⟩ := flipBitAt_eq (be32 (crc32c (body r))) bit (by rw [be32_length]; exact hbit)
  have hx : x < 256 := by
    have : x ∈ be32 (crc32c (body r)) := by rw [he]; simp
    simp only [be32, List.mem_cons, List.not_mem_nil, or_false] at this
    omega
  obtain ⟨_, h2⟩ := flipByte_spec x hx (bit % 8) (Nat.mod_lt _ (by omega))
  have hlen : (flipBitAt (be32 (crc32c (body r))) bit).length = 4 := by
    rw [hf, ← be32_length (crc32c (body r)), he]; simp
  have hbl : (body r).length = r.payload.length + 1 := by simp [body]
  rw [decodeOne_parts c crc32c (r.payload.length + 1) _ _ rest hr hbl (by omega) hlen]
  rw [if_pos]
  refine ⟨hc, ?_⟩
  have hv : rd32 (be32 (crc32c (body r))) = crc32c (body r) % 4294967296 := rd32_be32 _
  rw [← hv, hf, he]
  exact rd32_subst p s _ _ h2

/-- the same segment without a flip delivers `r` (so the two theorems above are about a record
that *would* have been served) -/
theorem C14_wal_intact (c : WalCfg) (id : Nat) (pre : List Rec) (hpre : ∀ r ∈ pre, RecOK r)
    (r : Rec) (hr : RecOK r) :
    replaySeg c crc32c ⟨id, encodeAll crc32c pre ++
        (be32 (r.payload.length + 1) ++ (body r ++ (be32 (crc32c (body r)) ++ [])))⟩
      = (pre ++ [r], .ok) := by
  have h1 : encodeAll crc32c pre ++ (be32 (r.payload.length + 1) ++ (body r ++ (be32 (crc32c (body r)) ++ [])))
      = encodeAll crc32c (pre ++ [r]) := by
    simp [encodeAll_append, encodeAll_cons, encodeAll_nil, encode]
  rw [h1]
  apply replaySeg_clean
  intro x hx
  rcases List.mem_append.mp hx with h | h
  · exact hpre x h
  · simp at h; subst h; exact hr

/-- **Flip behind the header of a value-log entry, slice decoder.**  `a ++ x :: s` is a valid
entry (`DecodeValueSlice` returns a value), its varint header ends at `idx ≤ |a|`, and the byte
`x` at offset `|a|` lies inside the record (key, value or stored CRC).  With bit `k` of `x`
inverted the decoder returns `ErrBadChecksum`.  (Quantified over the entry-codec configuration
`ec`; the extracted value is tied by the facts `ent.sliceCrcChecked`.) -/
theorem C14_entry_slice_partial (ec : EntCfg) (hc : ec.Good) (a s : Bytes) (x k : Nat) (hx : x < 256) (hk : k < 8)
    (h : EHdr) (idx : Nat) (v : Bytes)
    (hd : decodeHdr (a ++ x :: s) = .ok h idx) (hidx : idx ≤ a.length)
    (hpos : a.length < idx + h.klen + h.vlen + 4)
    (hvalid : decodeSlice ec crc32c (a ++ x :: s) = .ok v h) :
    decodeSlice ec crc32c (a ++ flipByte x k :: s) = .err .badcrc := by
  obtain ⟨h1, h2⟩ := flipByte_spec x hx k hk
  exact decodeSlice_subst ec hc.1 a s x (flipByte x k) hx h1 (fun e => h2 e.symm) h idx v hd hidx hpos hvalid

/-! ### non-vacuity -/

/-- a concrete valid entry (key 6b, value 76616c, meta 2): intact it yields its value, with bit 0
of the first value byte inverted it is rejected -/
example :
    decodeSlice EntCfg.good crc32c (encodeEntry ⟨[0x6b], [0x76, 0x61, 0x6c], 2, 0⟩ crc32c)
      = .ok [0x76, 0x61, 0x6c] ⟨1, 3, 2, 0⟩ := by decide +kernel


example : crc32c [0x31, 0x32, 0x33, 0x34, 0x35, 0x36, 0x37, 0x38, 0x39] = 0xE3069283 := by decide +kernel

example : flipBitAt [0x31, 0x32] 9 = [0x31, 0x30] := by decide

end NoKV.Props.C14

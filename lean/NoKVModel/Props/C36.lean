/-
C36  WAL segment cleanup never removes data still needed.

Statement (properties.jsonl): removing WAL segments — after a flush, by the WAL watchdog, or
during recovery — never deletes a segment that still holds writes not yet contained in an
installed table, or raft log entries that a raft group has not yet truncated.

Model: `NoKVModel/Raftwal/Segments.lean`.  The three removers share two decision predicates:
`raftAllows` (= `lsm/levels.go:canRemoveWalSegment`, used after a flush and by recovery) and
`watchdogRemoves` (= `metrics/wal.go:AnalyzeWALBacklog` + the watchdog's batch).

Headline `C36_needed_kept`: for the configuration in which all four decision predicates are the
repaired ones, every reachable state keeps every needed segment — by the inductive invariant
`Seg.Inv` of `Raftwal/SegmentsLemmas.lean` (one preservation lemma per operation).
-/
import NoKVModel.Raftwal.SegmentsLemmas

namespace NoKV.Props.C36
open NoKV NoKV.Raftwal.Seg

/-- **Decision predicates, all states (partial).**  With the repaired predicates, in *every*
state `s` (no reachability assumption, no bound):
* whatever the watchdog picks is a present segment at or below the manifest log pointer, and for every raft group that has a pointer a truncation segment is
  recorded and the picked segment lies strictly below it and below the group's newest segment;
* whatever `canRemoveWalSegment` lets the flush / recovery remover delete lies strictly below
  every group's newest segment and truncation segment, and if some group has not recorded a
  truncation segment yet the segment holds no raft record at all. -/
theorem C36_removers_safe_partial (c : SCfg) (hc : c.RemoversGood) (s : S) :
    (∀ id ∈ watchdogRemoves c s, ∃ sg ∈ s.segs, sg.id = id ∧ sg.present = true ∧ sg.id ≤ s.logPtr ∧
        ∀ g ∈ s.grps, g.ptrSeg ≠ 0 → g.segIndex ≠ 0) ∧
    (∀ sg, raftAllows c s.grps sg = true → ∀ g ∈ s.grps, g.ptrSeg ≠ 0 →
        sg.id < g.ptrSeg ∧ (g.segIndex ≠ 0 → sg.id < g.segIndex) ∧ (g.segIndex = 0 → hasRaft sg = false)) := by
  obtain ⟨h1, h2⟩ := hc
  constructor
  · intro id hid
    unfold watchdogRemoves at hid
    have hid' := List.mem_of_mem_take hid
    rw [List.mem_map] at hid'
    obtain ⟨sg, hsg, rfl⟩ := hid'
    rw [List.mem_filter] at hsg
    obtain ⟨hmem, hcond⟩ := hsg
    simp only [h1, h2, Bool.not_true, Bool.false_or, Bool.and_eq_true, decide_eq_true_eq,
      List.all_eq_true, Bool.or_eq_true, beq_iff_eq, bne_iff_ne] at hcond
    obtain ⟨⟨⟨⟨⟨hpres, _⟩, _⟩, _⟩, hall⟩, hle⟩ := hcond
    refine ⟨sg, hmem, rfl, hpres, hle, ?_⟩
    intro g hg hne
    rcases hall g hg with h | h
    · exact absurd h hne
    · exact h
  · intro sg hra g hg hne
    unfold raftAllows at hra
    rw [List.all_eq_true] at hra
    have := hra g hg
    simp only [h1, Bool.not_true, Bool.false_or, Bool.or_eq_true, beq_iff_eq, Bool.and_eq_true,
      decide_eq_true_eq, bne_iff_ne, Bool.not_eq_true'] at this
    rcases this with h | ⟨⟨h3, h4⟩, h5⟩
    · exact absurd h hne
    · refine ⟨h4, ?_, ?_⟩
      · intro hs
        rcases h3 with h3 | h3
        · exact absurd h3 hs
        · exact h3
      · intro hs
        rcases h5 with h5 | h5
        · exact absurd hs h5
        · exact h5

/-- **Headline.**  Configuration: all four repairs in place (`canRemoveWalSegment` and the watchdog
keep every raft-bearing segment while some group has recorded no truncation segment; the watchdog
only removes segments at or below the manifest log pointer; a failed memtable flush is retried in
place so that the log pointer never passes an unflushed memtable; `OpenWALStorage` seeds the
truncation point).  For *every* operation list — puts, raft
appends (at the end of the log or rewriting its tail, as a new leader does) / hard states /
truncations of either group, memtable rotations with the flush stalled
or not, failed flushes, gate changes, watchdog passes, crashes + reopen, in any order and
number — in the state reached, every WAL segment that holds a put contained in no installed
table, or a raft entry above its group's truncation point, still exists. -/
theorem C36_needed_kept (c : SCfg) (hc : c.Good) (ops : List Op) : neededKept (run c ops) = true :=
  inv_neededKept (inv_run c hc ops)

/-- non-vacuity: all three removers fire — the post-flush remover deletes segment 1 (op 7: its
flush was stalled until group 1 had truncated past it), the watchdog deletes segment 2 (op 12),
the recovery cleanup deletes segment 3 (op 20: installed, kept for raft at flush time, released by
the later truncations of both groups) — a flush then fails and is retried (put 4), a further
flush and crash follow; nothing needed is lost -/
def exampleOps : List Op :=
  [.rapp 1 2, .put 1, .gate true, .rotate, .rapp 1 3, .rtrunc 1 4, .gate false,
   .put 2, .rotate, .rapp 1 2, .rtrunc 1 6, .watchdog,
   .put 3, .rapp 2 2, .rotate, .rapp 1 1, .rapp 2 1, .rtrunc 1 8, .rtrunc 2 3, .crash,
   .put 4, .flushFail, .put 5, .rotate, .crash]

example : neededKept (run SCfg.good exampleOps) = true ∧
    segIds (run SCfg.good (exampleOps.take 6)) = [1, 2] ∧ segIds (run SCfg.good (exampleOps.take 7)) = [2] ∧
    segIds (run SCfg.good (exampleOps.take 11)) = [2, 3] ∧ segIds (run SCfg.good (exampleOps.take 12)) = [3] ∧
    segIds (run SCfg.good (exampleOps.take 19)) = [3, 4] ∧ segIds (run SCfg.good (exampleOps.take 20)) = [4] ∧
    ((run SCfg.good exampleOps).segs.filter (fun sg => !sg.present)).map (·.id) = [1, 2, 3] ∧
    get (run SCfg.good exampleOps) 4 = some 11 ∧
    (run SCfg.good exampleOps).grps.map (fun g => (g.openOK, g.last, g.trunc)) = [(true, 8, 8), (true, 3, 3)] := by
  decide

/-- non-vacuity with a log conflict (corpus/C36/overwrite-tail-then-first-compaction.ops): the tail
4..5 of the batch 1..5 is rewritten into a later segment; the group's first compaction targets
index 2 inside the surviving prefix, the recorded truncation segment is segment 1, and after
later compactions / watchdog passes / a crash everything needed is still there and the group
opens with its whole log -/
def overwriteOps : List Op :=
  [.rapp 1 5, .put 1, .rotate, .rover 1 4 3, .rhs 1, .rtrunc 1 2, .rotate, .rhs 1, .watchdog, .crash,
   .rapp 2 1, .rtrunc 2 1, .rtrunc 1 5, .rotate, .rhs 1, .rhs 2, .watchdog, .crash]

example : neededKept (run SCfg.good overwriteOps) = true ∧
    segIds (run SCfg.good (overwriteOps.take 10)) = [1, 2, 3] ∧
    (run SCfg.good (overwriteOps.take 6)).grps.map (fun g => (g.segIndex, g.spans)) =
      [(1, [(3, 3, 1), (4, 6, 2)]), (0, [])] ∧
    (run SCfg.good overwriteOps).grps.map (fun g => (g.openOK, g.last, g.trunc)) = [(true, 6, 5), (true, 1, 1)] ∧
    segIds (run SCfg.good overwriteOps) = [2, 3, 4] := by
  decide

/-- corpus/C36/finding-untruncated-raft-removed.ops -/
def witnessGuard : List Op := [.rapp 1 3, .put 1, .gate true, .rotate, .rhs 1, .gate false, .crash]

/-- **As-is (`canRemoveWalSegment` / `AnalyzeWALBacklog` guard a never-truncated group only by
its newest segment).**  Entries 1..3 of group 1 sit in segment 1; a hard state moves the
pointer to segment 2; the flush of memtable 1 deletes segment 1: the entries, never truncated,
are gone (`last = 0` after reopen). -/
theorem C36_fails_asis_guard (c : SCfg) (hc : c.AsIsGuard) :
    neededKept (run c (witnessGuard.take 6)) = false ∧
    ((run c witnessGuard).grps.map (fun g => (g.id, g.openOK, g.last))).head? = some (1, true, 0) := by
  cases c with
  | mk a b d e =>
    simp only [SCfg.AsIsGuard] at hc
    subst hc
    cases b <;> cases d <;> cases e <;> decide

/-- corpus/C36/finding-watchdog-unflushed-memtable.ops -/
def witnessWatchdog : List Op :=
  [.rapp 1 3, .put 1, .gate true, .rotate, .rapp 1 2, .rtrunc 1 4, .watchdog, .crash]

/-- **As-is (watchdog looks at raft pointers only).**  Put 1 lives in memtable 1 / segment 1,
whose flush is still pending; group 1 truncates past segment 1; the watchdog deletes segment 1;
after a crash the acknowledged put is unreadable. -/
theorem C36_fails_asis_watchdog (c : SCfg) (hc : c.AsIsWatchdog) :
    neededKept (run c (witnessWatchdog.take 7)) = false ∧ get (run c witnessWatchdog) 1 = none := by
  cases c with
  | mk a b d e =>
    simp only [SCfg.AsIsWatchdog] at hc
    subst hc
    cases a <;> cases d <;> cases e <;> decide

/-- corpus/C36/finding-recovery-removes-stuck-memtable.ops -/
def witnessRecovery : List Op := [.put 1, .flushFail, .put 2, .rotate, .crash]

/-- **As-is (a failed flush is dropped from the queue, not retried).**  The flush of memtable 1 fails
at the manifest write (put 1 stays only in segment 1); the next memtable flushes fine and moves
the log pointer past segment 1; on reopen the recovery cleanup — everything at or below the
pointer — deletes segment 1: the acknowledged put is unreadable. -/
theorem C36_fails_asis_recovery (c : SCfg) (hc : c.AsIsRecovery) :
    neededKept (run c witnessRecovery) = false ∧ get (run c witnessRecovery) 1 = none := by
  cases c with
  | mk a b d e =>
    simp only [SCfg.AsIsRecovery] at hc
    subst hc
    cases a <;> cases b <;> cases e <;> decide

/-- corpus/C36/finding-replay-gap-after-gc.ops -/
def witnessReplay : List Op :=
  [.rapp 1 3, .put 1, .rotate, .rapp 1 2, .rtrunc 1 4, .rhs 1, .watchdog, .crash]

/-- **As-is (`OpenWALStorage` replays into an empty `MemoryStorage`).**  After a legitimate
truncation and the removal of the segment holding only truncated entries, the surviving log
starts at index 4: replay hits `missing log entry` and the raft storage does not open. -/
theorem C36_fails_asis_replay (c : SCfg) (hc : c.AsIsReplay) :
    ((run c witnessReplay).grps.map (fun g => (g.id, g.openOK))).head? = some (1, false) := by
  cases c with
  | mk a b d e =>
    simp only [SCfg.AsIsReplay] at hc
    subst hc
    cases a <;> cases b <;> cases d <;> decide

/-- the repaired configuration on the same three histories: everything needed is kept, the put
is readable, the group opens with its full log -/
example : neededKept (run SCfg.good witnessGuard) = true ∧
    get (run SCfg.good witnessWatchdog) 1 = some 1 ∧
    ((run SCfg.good witnessReplay).grps.map (fun g => (g.openOK, g.last))).head? = some (true, 5) ∧
    ((run SCfg.good witnessGuard).grps.map (fun g => (g.openOK, g.last))).head? = some (true, 3) := by
  decide

end NoKV.Props.C36

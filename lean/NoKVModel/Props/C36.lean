/-
C36  WAL segment cleanup never removes data still needed.

Statement (properties.jsonl): removing WAL segments — after a flush, by the WAL watchdog, or
during recovery — never deletes a segment that still holds writes not yet contained in an
installed table, or raft log entries that a raft group has not yet truncated.

Model: `NoKVModel/Raftwal/Segments.lean`.  The three removers share two decision predicates:
`raftAllows` (= `lsm/levels.go:canRemoveWalSegment`, used after a flush and by recovery) and
`watchdogRemoves` (= `metrics/wal.go:AnalyzeWALBacklog` + the watchdog's batch).

Full statement aimed at (NOT proved here, see `C36_removers_safe_partial`):
  theorem C36_needed_kept (c : SCfg) (hc : c.Good) (ops : List Op) : neededKept (run c ops) = true
The missing part is the inductive invariant of the step system that ties the manifest pointers
to the records (every entry above a group's truncation point lies in a segment ≥ its
`segIndex`; a group without `segIndex` has truncated nothing; flushes happen in segment
order); the correspondence run checks `neededKept`'s consequences (reads and raft state after a
crash image) on the real DB instead.
-/
import NoKVModel.Raftwal.Segments

namespace NoKV.Props.C36
open NoKV NoKV.Raftwal.Seg

/-- **Decision predicates, all states (partial).**  With the repaired predicates, in *every*
state `s` (no reachability assumption, no bound):
* whatever the watchdog picks is a present segment whose memtable is flushed (at or below the
  manifest log pointer), and for every raft group that has a pointer a truncation segment is
  recorded and the picked segment lies strictly below it and below the group's newest segment;
* whatever `canRemoveWalSegment` lets the flush / recovery remover delete lies strictly below
  every group's newest segment and truncation segment, and if some group has not recorded a
  truncation segment yet the segment holds no raft record at all. -/
theorem C36_removers_safe_partial (c : SCfg) (hc : c.RemoversGood) (s : S) :
    (∀ id ∈ watchdogRemoves c s, ∃ sg ∈ s.segs, sg.id = id ∧ sg.present = true ∧ sg.id ≤ s.logPtr ∧
        ∀ g ∈ s.grps, g.ptrSeg ≠ 0 → g.segIndex ≠ 0) ∧
    (∀ sg, raftAllows c s.grps sg = true → ∀ g ∈ s.grps, g.ptrSeg ≠ 0 →
        sg.id < g.ptrSeg ∧ (g.segIndex ≠ 0 → sg.id < g.segIndex) ∧ (g.segIndex = 0 → hasRaft sg = false)) := by
  obtain ⟨h1, h2⟩ := hc
  constructor
  · intro id hid
    unfold watchdogRemoves at hid
    have hid' := List.mem_of_mem_take hid
    rw [List.mem_map] at hid'
    obtain ⟨sg, hsg, rfl⟩ := hid'
    rw [List.mem_filter] at hsg
    obtain ⟨hmem, hcond⟩ := hsg
    simp only [h1, h2, Bool.not_true, Bool.false_or, Bool.and_eq_true, decide_eq_true_eq,
      List.all_eq_true, Bool.or_eq_true, beq_iff_eq, bne_iff_ne] at hcond
    obtain ⟨⟨⟨⟨⟨hpres, _⟩, _⟩, _⟩, hall⟩, hle⟩ := hcond
    refine ⟨sg, hmem, rfl, hpres, hle, ?_⟩
    intro g hg hne
    rcases hall g hg with h | h
    · exact absurd h hne
    · exact h
  · intro sg hra g hg hne
    unfold raftAllows at hra
    rw [List.all_eq_true] at hra
    have := hra g hg
    simp only [h1, Bool.not_true, Bool.false_or, Bool.or_eq_true, beq_iff_eq, Bool.and_eq_true,
      decide_eq_true_eq, bne_iff_ne, Bool.not_eq_true'] at this
    rcases this with h | ⟨⟨h3, h4⟩, h5⟩
    · exact absurd h hne
    · refine ⟨h4, ?_, ?_⟩
      · intro hs
        rcases h3 with h3 | h3
        · exact absurd h3 hs
        · exact h3
      · intro hs
        rcases h5 with h5 | h5
        · exact absurd hs h5
        · exact h5

/-- corpus/C36/finding-untruncated-raft-removed.ops -/
def witnessGuard : List Op := [.rapp 1 3, .put 1, .gate true, .rotate, .rhs 1, .gate false, .crash]

/-- **As-is (`canRemoveWalSegment` / `AnalyzeWALBacklog` guard a never-truncated group only by
its newest segment).**  Entries 1..3 of group 1 sit in segment 1; a hard state moves the
pointer to segment 2; the flush of memtable 1 deletes segment 1: the entries, never truncated,
are gone (`last = 0` after reopen). -/
theorem C36_fails_asis_guard (c : SCfg) (hc : c.AsIsGuard) :
    neededKept (run c (witnessGuard.take 6)) = false ∧
    ((run c witnessGuard).grps.map (fun g => (g.id, g.openOK, g.last))).head? = some (1, true, 0) := by
  cases c with
  | mk a b d =>
    simp only [SCfg.AsIsGuard] at hc
    subst hc
    cases b <;> cases d <;> decide

/-- corpus/C36/finding-watchdog-unflushed-memtable.ops -/
def witnessWatchdog : List Op :=
  [.rapp 1 3, .put 1, .gate true, .rotate, .rapp 1 2, .rtrunc 1 4, .watchdog, .crash]

/-- **As-is (watchdog looks at raft pointers only).**  Put 1 lives in memtable 1 / segment 1,
whose flush is still pending; group 1 truncates past segment 1; the watchdog deletes segment 1;
after a crash the acknowledged put is unreadable. -/
theorem C36_fails_asis_watchdog (c : SCfg) (hc : c.AsIsWatchdog) :
    neededKept (run c (witnessWatchdog.take 7)) = false ∧ get (run c witnessWatchdog) 1 = none := by
  cases c with
  | mk a b d =>
    simp only [SCfg.AsIsWatchdog] at hc
    subst hc
    cases a <;> cases d <;> decide

/-- corpus/C36/finding-replay-gap-after-gc.ops -/
def witnessReplay : List Op :=
  [.rapp 1 3, .put 1, .rotate, .rapp 1 2, .rtrunc 1 4, .rhs 1, .watchdog, .crash]

/-- **As-is (`OpenWALStorage` replays into an empty `MemoryStorage`).**  After a legitimate
truncation and the removal of the segment holding only truncated entries, the surviving log
starts at index 4: replay hits `missing log entry` and the raft storage does not open. -/
theorem C36_fails_asis_replay (c : SCfg) (hc : c.AsIsReplay) :
    ((run c witnessReplay).grps.map (fun g => (g.id, g.openOK))).head? = some (1, false) := by
  cases c with
  | mk a b d =>
    simp only [SCfg.AsIsReplay] at hc
    subst hc
    cases a <;> cases b <;> decide

/-- the repaired configuration on the same three histories: everything needed is kept, the put
is readable, the group opens with its full log -/
example : neededKept (run SCfg.good witnessGuard) = true ∧
    get (run SCfg.good witnessWatchdog) 1 = some 1 ∧
    ((run SCfg.good witnessReplay).grps.map (fun g => (g.openOK, g.last))).head? = some (true, 5) ∧
    ((run SCfg.good witnessGuard).grps.map (fun g => (g.openOK, g.last))).head? = some (true, 3) := by
  decide

end NoKV.Props.C36

/-
C13  The WAL replays exactly what was appended, tolerating any torn tail.

Model: `NoKVModel/Wal/Record.lean` (framing, `DecodeRecord`, scan loop) and
`NoKVModel/Wal/Manager.lean` (Open / AppendRecords+ensureCapacity / Rotate / VerifyDir / Replay /
cut).  Directories are lists of segments newest first; `flatR g` lists the records of a
segmentation `g` in append order.  All theorems hold for **every** checksum function `crc`
(torn tails are recognised by length alone), every segment size, every op list, every byte
offset.  Hypothesis `RecOK`: a record's length field fits the on-disk `uint32`
(`len(payload)+1 < 2^32`; beyond that `EncodeRecord` itself truncates the length).

Helper lemmas: `Wal/RecordLemmas.lean`, `Wal/ManagerLemmas.lean`.
-/
import NoKVModel.Wal.ManagerLemmas
import NoKVModel.Wal.BufferedLemmas
import NoKVModel.Wal.Crc

namespace NoKV.Props.C13
open NoKV NoKV.Wal

/-- **Round trip.**  Any sequence of typed appends and rotations on a fresh log, any segment
size: replay yields exactly the appended records, in order, with their types, status ok.
Holds for every configuration (no torn tail is involved). -/
theorem C13_roundtrip (c : WalCfg) (crc : Bytes → Nat) (segSize : Nat) (ops : List Op)
    (hr : ∀ r ∈ appended ops, RecOK r) :
    replaySegs c crc (runOps crc segSize (openSegs []) ops) = (appended ops, .ok) := by
  have hfresh := clean_fresh crc
  simp only [openSegs] at hfresh ⊢
  obtain ⟨s', older', g0', gs', he, hcl, hf⟩ := runOps_clean crc segSize ops ⟨1, []⟩ [] [] [] hfresh hr
  rw [he, replaySegs_clean c crc _ _ hcl, hf]
  simp [flatR]

/-- **Cut.**  After any append/rotate history there is a segmentation `g0 :: gs` of the appended
records (newest segment first) such that the newest segment file is exactly the encoding of
`g0`, and for **every** byte offset `n`: replaying the log whose newest segment is cut to its
first `n` bytes yields exactly the older segments' records followed by the records of the newest
segment that lie wholly before `n` — status ok, nothing else, nothing reordered.
Needs only `replayFile` to end a segment silently on a partial record. -/
theorem C13_cut (c : WalCfg) (hc : c.ReplayGood) (crc : Bytes → Nat) (segSize : Nat) (ops : List Op)
    (hr : ∀ r ∈ appended ops, RecOK r) :
    ∃ (s : Seg) (older : List Seg) (g0 : List Rec) (gs : List (List Rec)),
      runOps crc segSize (openSegs []) ops = s :: older ∧
      s.data = encodeAll crc g0 ∧ flatR gs ++ g0 = appended ops ∧
      ∀ n, replaySegs c crc (cutHead n (s :: older)) = (flatR gs ++ wholly n g0, .ok) := by
  have hfresh := clean_fresh crc
  simp only [openSegs] at hfresh ⊢
  obtain ⟨s', older', g0', gs', he, hcl, hf⟩ := runOps_clean crc segSize ops ⟨1, []⟩ [] [] [] hfresh hr
  refine ⟨s', older', g0', gs', he, ?_, ?_, ?_⟩
  · have := hcl.1; simp only [List.map_cons, List.cons.injEq] at this; exact this.1
  · simpa [flatR] using hf
  · intro n; exact replaySegs_cut c hc crc s' older' g0' gs' hcl n

/-- **Reopen and append.**  Good configuration (every torn tail, including a 1–3-byte header
fragment, is truncated by `verifySegment` at the last record boundary).  After any history, any
cut offset `n` of the newest segment, `VerifyDir` succeeds, and reopening (any segment size) and
running any further append/rotate list loses nothing: replay yields the records wholly before
the cut followed by everything appended after the reopen. -/
theorem C13_reopen_append (c : WalCfg) (hc : c.Good) (crc : Bytes → Nat) (segSize segSize2 : Nat)
    (ops ops2 : List Op) (hr : ∀ r ∈ appended ops, RecOK r) (hr2 : ∀ r ∈ appended ops2, RecOK r) :
    ∃ (s : Seg) (older : List Seg) (g0 : List Rec) (gs : List (List Rec)),
      runOps crc segSize (openSegs []) ops = s :: older ∧
      s.data = encodeAll crc g0 ∧ flatR gs ++ g0 = appended ops ∧
      ∀ n, (verifySegs c crc (cutHead n (s :: older))).2 = .ok ∧
        replaySegs c crc (runOps crc segSize2 (openSegs (verifySegs c crc (cutHead n (s :: older))).1) ops2)
          = (flatR gs ++ wholly n g0 ++ appended ops2, .ok) := by
  have hfresh := clean_fresh crc
  simp only [openSegs] at hfresh
  obtain ⟨s', older', g0', gs', he, hcl, hf⟩ := runOps_clean crc segSize ops ⟨1, []⟩ [] [] [] hfresh hr
  refine ⟨s', older', g0', gs', by simpa [openSegs] using he, ?_, ?_, ?_⟩
  · have := hcl.1; simp only [List.map_cons, List.cons.injEq] at this; exact this.1
  · simpa [flatR] using hf
  · intro n
    obtain ⟨sv, hv, hclv⟩ := verifySegs_cut c hc crc s' older' g0' gs' hcl n
    rw [hv]
    refine ⟨rfl, ?_⟩
    simp only [openSegs]
    obtain ⟨s2, o2, g2, gs2, e2, c2, f2⟩ := runOps_clean crc segSize2 ops2 sv older' (wholly n g0') gs' hclv hr2
    rw [e2, replaySegs_clean c crc _ _ c2, f2]
    simp [flatR]

/-! ### the pinned tree: short header reported as EOF -/

def witnessOps : List Op := [.append ⟨1, [0x61, 0x61]⟩, .append ⟨2, [0x62, 0x62]⟩]
def witnessMore : List Op := [.append ⟨3, [0xaa]⟩]

/-- With `shortHeaderPartial = false` (`DecodeRecord` maps a 1–3-byte header to `io.EOF`) the
reopen-append claim fails: records `1:6161`, `2:6262`, cut 13 (= 11 + 2 header bytes of the second
record), VerifyDir (does not truncate the 2 stray bytes), reopen, append `3:aa`: replay delivers
`1:6161` and then fails on an "empty record" instead of delivering `1:6161, 3:aa`.
Same witness as `corpus/C13/finding-wal-short-header.ops` (real CRC-32C). -/
theorem C13_fails_asis_shortheader (c : WalCfg) (hc : c = { WalCfg.good with shortHeaderPartial := false }) :
    replaySegs c crc32c
        (runOps crc32c 65536 (openSegs (verifySegs c crc32c
          (cutHead 13 (runOps crc32c 65536 (openSegs []) witnessOps))).1) witnessMore)
      = ([⟨1, [0x61, 0x61]⟩], .empty)
    ∧ wholly 13 [⟨1, [0x61, 0x61]⟩, ⟨2, [0x62, 0x62]⟩] ++ appended witnessMore
      = [⟨1, [0x61, 0x61]⟩, ⟨3, [0xaa]⟩] := by
  subst hc
  decide +kernel

/-- **Whole histories (strongest form).**  Any interleaving of typed appends, rotations and
*crash/recover rounds* (`.crash n`: the newest segment keeps its first `n` bytes — any `n` —, then
`wal.VerifyDir`, then `wal.Open`), any number of rounds, any segment size, any checksum function:
replay yields exactly the record lists of the specification `gRun` (a function on record lists
only: append/rotate as above, a crash keeps of the newest segment the records wholly inside its
first `n` bytes), oldest segment first, status ok.  Subsumes `C13_roundtrip` (no crash),
`C13_cut`+VerifyDir and `C13_reopen_append` (one crash) — nothing appended after a recovery is
ever lost, nothing torn is ever replayed. -/
theorem C13_history (c : WalCfg) (hc : c.Good) (crc : Bytes → Nat) (segSize : Nat) (xs : List XOp)
    (hr : ∀ r ∈ appendedX xs, RecOK r) :
    replaySegs c crc (runX c crc segSize (openSegs []) xs) = (flatR (gRun segSize [[]] xs), .ok) := by
  have hfresh := clean_fresh crc
  simp only [openSegs] at hfresh ⊢
  exact replaySegs_clean c crc _ _ (runX_clean c hc crc segSize xs ⟨1, []⟩ [] [] [] hfresh hr)

/-- After the last crash/recover round of a history the directory on disk is byte-for-byte the
encoding of the specification's record lists (so `VerifyDir` left no stray byte anywhere). -/
theorem C13_history_bytes (c : WalCfg) (hc : c.Good) (crc : Bytes → Nat) (segSize : Nat) (xs : List XOp)
    (hr : ∀ r ∈ appendedX xs, RecOK r) :
    (runX c crc segSize (openSegs []) xs).map (·.data) = (gRun segSize [[]] xs).map (encodeAll crc) := by
  have hfresh := clean_fresh crc
  simp only [openSegs] at hfresh ⊢
  exact (runX_clean c hc crc segSize xs ⟨1, []⟩ [] [] [] hfresh hr).1

/-! ### the buffered manager (`Wal/Buffered.lean`): AppendRecords batches, flush points, switches -/

/-- **Refinement.**  On the manager with its `bufio.Writer` explicit — `AppendRecords` batches of
any length (capacity rotations may fall between any two records of a batch; `SyncOnWrite` or
not), `Rotate`, `Sync`, `SwitchSegment(activeID, false)` (the LSM's resume call), crash/recover
rounds — what a reader sees after a flush is exactly what the unbuffered model `runX` produces
for the same history with batches expanded into single appends.  Nothing buffered is lost or
duplicated at a flush point or a segment switch; flushing early or late makes no difference. -/
theorem C13_buffered_refines (c : WalCfg) (crc : Bytes → Nat) (segSizeRaw : Nat) (sow : Bool) (xs : List BOp) :
    (runB c crc (bopen segSizeRaw sow []) xs).view
      = runX c crc (effSegSize segSizeRaw) (openSegs []) (expandB xs) := by
  obtain ⟨h1, h2, h3⟩ := bopen_fresh segSizeRaw sow
  obtain ⟨_, r2⟩ := runB_refines c crc xs _ h1
  rw [r2, h2, h3]

/-- **Whole histories on the buffered manager.**  Any interleaving of `AppendRecords` batches,
rotations, syncs, resume-switches and crash/recover rounds, any configured segment size, either
`SyncOnWrite` mode: after a final flush, replay yields exactly the acknowledged records as the
specification `gRun` lists them (batches expanded), status ok. -/
theorem C13_buffered_history (c : WalCfg) (hc : c.Good) (crc : Bytes → Nat) (segSizeRaw : Nat) (sow : Bool)
    (xs : List BOp) (hr : ∀ r ∈ appendedX (expandB xs), RecOK r) :
    replaySegs c crc (runB c crc (bopen segSizeRaw sow []) xs).view
      = (flatR (gRun (effSegSize segSizeRaw) [[]] (expandB xs)), .ok) := by
  rw [C13_buffered_refines]
  exact C13_history c hc crc (effSegSize segSizeRaw) (expandB xs) hr

/-
FULL-STRENGTH STATEMENT the property demands for reopen-and-append: `C13_reopen_append` above
(every history, every cut offset n, VerifyDir ok, reopen with any segment size, any further
history: replay = records before the cut ++ records appended after) — and, for any number of
rounds, `C13_history`.  Both need the *good* configuration (`wal.shortHeader = partial`).

The two theorems below are what remains true when the short-header rule is the pinned one
(`DecodeRecord` maps a 1–3-byte header to io.EOF).  They are not weaker because a proof is
missing: for cuts that leave 1–3 bytes of a header the claim is FALSE there
(`C13_fails_asis_shortheader`, reproduced on the real code before commit 2a8dc23).
* `C13_reopen_append_nofragment_partial`: the full reopen-append claim for every cut offset
  except those leaving a 1–3-byte header fragment — exactly the complement of the defect.
* `C13_partial` (kind lemma now; superseded): the special case "no cut at all".
-/

/-- Reopen-and-append under ANY short-header rule, for every cut offset `n` whose torn remainder
(`torn crc n g0`: the bytes of the cut file behind its last complete record) is empty or at
least 4 bytes long. -/
theorem C13_reopen_append_nofragment_partial (c : WalCfg)
    (hc : c.replayPartialOk = true ∧ c.verifyTruncPartial = true ∧ c.verifyStep = 8)
    (crc : Bytes → Nat) (segSize segSize2 : Nat)
    (ops ops2 : List Op) (hr : ∀ r ∈ appended ops, RecOK r) (hr2 : ∀ r ∈ appended ops2, RecOK r) :
    ∃ (s : Seg) (older : List Seg) (g0 : List Rec) (gs : List (List Rec)),
      runOps crc segSize (openSegs []) ops = s :: older ∧
      s.data = encodeAll crc g0 ∧ flatR gs ++ g0 = appended ops ∧
      ∀ n, ((torn crc n g0).length = 0 ∨ 4 ≤ (torn crc n g0).length) →
        (verifySegs c crc (cutHead n (s :: older))).2 = .ok ∧
        replaySegs c crc (runOps crc segSize2 (openSegs (verifySegs c crc (cutHead n (s :: older))).1) ops2)
          = (flatR gs ++ wholly n g0 ++ appended ops2, .ok) := by
  obtain ⟨_, htr, hst⟩ := hc
  have hfresh := clean_fresh crc
  simp only [openSegs] at hfresh
  obtain ⟨s', older', g0', gs', he, hcl, hf⟩ := runOps_clean crc segSize ops ⟨1, []⟩ [] [] [] hfresh hr
  refine ⟨s', older', g0', gs', by simpa [openSegs] using he, ?_, ?_, ?_⟩
  · have := hcl.1; simp only [List.map_cons, List.cons.injEq] at this; exact this.1
  · simpa [flatR] using hf
  · intro n hfrag
    obtain ⟨sv, hv, hclv⟩ := verifySegs_cut_gen c hst htr crc s' older' g0' gs' hcl n (Or.inr hfrag)
    rw [hv]
    refine ⟨rfl, ?_⟩
    simp only [openSegs]
    obtain ⟨s2, o2, g2, gs2, e2, c2, f2⟩ := runOps_clean crc segSize2 ops2 sv older' (wholly n g0') gs' hclv hr2
    rw [e2, replaySegs_clean c crc _ _ c2, f2]
    simp [flatR]

/-- Superseded special case of `C13_reopen_append_nofragment_partial` (no cut): VerifyDir on an
intact log is a no-op and appending after reopen loses nothing, for every configuration. -/
theorem C13_partial (c : WalCfg) (_hc : c.replayPartialOk = true ∧ c.verifyTruncPartial = true ∧ c.verifyStep = 8)
    (crc : Bytes → Nat) (segSize segSize2 : Nat)
    (ops ops2 : List Op) (hr : ∀ r ∈ appended ops, RecOK r) (hr2 : ∀ r ∈ appended ops2, RecOK r) :
    replaySegs c crc (runOps crc segSize2
        (openSegs (verifySegs c crc (runOps crc segSize (openSegs []) ops)).1) ops2)
      = (appended ops ++ appended ops2, .ok) := by
  have hfresh := clean_fresh crc
  simp only [openSegs] at hfresh ⊢
  obtain ⟨s', older', g0', gs', he, hcl, hf⟩ := runOps_clean crc segSize ops ⟨1, []⟩ [] [] [] hfresh hr
  rw [he, verifySegs_clean c crc _ _ hcl]
  simp only
  obtain ⟨s2, o2, g2, gs2, e2, c2, f2⟩ := runOps_clean crc segSize2 ops2 s' older' g0' gs' hcl hr2
  rw [e2, replaySegs_clean c crc _ _ c2, f2, hf]
  simp [flatR]

/-! ### non-vacuity -/

example : WalCfg.good.Good := by decide

/-- two records, cut in the middle of the second: exactly the first survives -/
example :
    replaySegs WalCfg.good crc32c (cutHead 15 (runOps crc32c 65536 (openSegs []) witnessOps))
      = ([⟨1, [0x61, 0x61]⟩], .ok) := by decide +kernel

/-- the good configuration on the finding's witness: nothing is lost -/
example :
    replaySegs WalCfg.good crc32c
        (runOps crc32c 65536 (openSegs (verifySegs WalCfg.good crc32c
          (cutHead 13 (runOps crc32c 65536 (openSegs []) witnessOps))).1) witnessMore)
      = ([⟨1, [0x61, 0x61]⟩, ⟨3, [0xaa]⟩], .ok) := by decide +kernel

/-- a history with two crash/recover rounds under the good configuration: records 1 and 2, crash
2 bytes into the header of record 2, record 3, crash inside record 3's payload, record 4 —
replay yields exactly 1 and 4; and the specification computes the same without any bytes -/
example :
    replaySegs WalCfg.good crc32c (runX WalCfg.good crc32c 65536 (openSegs [])
        [.op (.append ⟨1, [0x61, 0x61]⟩), .op (.append ⟨2, [0x62, 0x62]⟩), .crash 13,
         .op (.append ⟨3, [0xaa]⟩), .crash 17, .op .rotate, .op (.append ⟨4, []⟩)])
      = ([⟨1, [0x61, 0x61]⟩, ⟨4, []⟩], .ok)
    ∧ flatR (gRun 65536 [[]]
        [.op (.append ⟨1, [0x61, 0x61]⟩), .op (.append ⟨2, [0x62, 0x62]⟩), .crash 13,
         .op (.append ⟨3, [0xaa]⟩), .crash 17, .op .rotate, .op (.append ⟨4, []⟩)])
      = [⟨1, [0x61, 0x61]⟩, ⟨4, []⟩] := by decide +kernel

/-- buffered manager, SyncOnWrite, segment size 40: one AppendRecords call of three records whose
capacity rotation falls between the second and the third (the first two stay buffered while the
segment is switched), then a resume-switch and one more record: all four are replayed, in order,
from two segments -/
example :
    replaySegs WalCfg.good crc32c
      (runB WalCfg.good crc32c ⟨[⟨1, []⟩], ⟨1, 0, [], 40, true⟩⟩
        [.batch [⟨1, [0x61]⟩, ⟨2, [0x62, 0x62]⟩, ⟨3, [0x63, 0x63, 0x63, 0x63, 0x63, 0x63, 0x63, 0x63, 0x63, 0x63, 0x63, 0x63]⟩],
         .switchSame, .batch [⟨0, []⟩]]).view
      = ([⟨1, [0x61]⟩, ⟨2, [0x62, 0x62]⟩, ⟨3, [0x63, 0x63, 0x63, 0x63, 0x63, 0x63, 0x63, 0x63, 0x63, 0x63, 0x63, 0x63]⟩, ⟨0, []⟩], .ok)
    ∧ (runB WalCfg.good crc32c ⟨[⟨1, []⟩], ⟨1, 0, [], 40, true⟩⟩
        [.batch [⟨1, [0x61]⟩, ⟨2, [0x62, 0x62]⟩, ⟨3, [0x63, 0x63, 0x63, 0x63, 0x63, 0x63, 0x63, 0x63, 0x63, 0x63, 0x63, 0x63]⟩]]).dir.map (·.id)
      = [2, 1] := by decide +kernel

end NoKV.Props.C13

/-
C09  With SyncWrites, acknowledged writes survive any process crash.

Model: `NoKVModel/Disk/Model.lean` (E-Disk).  A history is a list of operations (commit of any
batch with any size-dependent decisions, flush, clean reopen, crash + reopen); the process can be
killed after any prefix of the atomic steps of any operation (`CrashState`).  `recover` is the
model of `Open`; it is a total function — that `Open` itself does not fail on the crash image
(I/O and decoding errors) is checked by the correspondence runs, not by these theorems.

Only property theorems, their non-vacuity examples and the `…_fails_…` theorems live here;
helper lemmas are in `NoKVModel/Disk/{SegLemmas,RunLemmas,ProgLemmas}.lean`.
-/
import NoKVModel.Disk.ProgLemmas

namespace NoKV.Props.C09
open NoKV NoKV.Disk

/-- a database opened with SyncWrites -/
def s0 : St := { sync := true }

/-- **Acknowledged ⇒ durable.**  In every state in which the process can be killed — after any
history, including earlier crashes and clean reopens, between any two atomic steps of a commit,
a flush, or a close — the records covered by acknowledgements are, in order, the beginning of
what the reopened database holds.  (`ackedLen` is set by the `ack` step to the number of records
written so far: see `C09_ack_covers_batch`.) -/
theorem C09_acked_durable (c : Cfg) (hc : c.ackAfterSync = true ∧ c.flushOrder = .sstManifestRemove)
    (s : St) (h : CrashState c s0 s) :
    (written s).take s.ackedLen <+: written (recover c s) := by
  obtain ⟨ha, hf⟩ := hc
  have hI : s.sync = true ∧ AckInv s := by
    refine crashState_inv c (fun s => s.sync = true ∧ AckInv s) (fun s st => SegPre s st ∧ AckPre s st)
      ?_ ?_ ?_ s0 s ?_ h
    · intro s st hi hp
      exact ⟨by rw [exec_sync]; exact hi.1, ackInv_step s st hi.2 hp⟩
    · intro s op hi
      exact opSteps_goodAck c hf ha s hi.1 op
    · intro s hi
      exact ⟨hi.1, ackInv_recover c s hi.2⟩
    · refine ⟨rfl, ⟨rfl, rfl, Nat.le_refl _⟩, ?_⟩
      show 0 ≤ _
      exact Nat.zero_le _
  obtain ⟨_, hok, hle⟩ := hI
  rw [written_recover, recLog_eq s hok]
  have : (written s).take s.ackedLen = ((written s).take (durLen s.segs)).take s.ackedLen := by
    rw [List.take_take, Nat.min_eq_left hle]
  rw [this]
  exact List.take_prefix _ _

/-- the acknowledgement of a commit covers its whole batch (and everything before it) -/
theorem C09_ack_covers_batch (c : Cfg) (hc : c.ackAfterSync = true) (s : St) (bid : Nat)
    (es : List (Ent × Dec)) (delta : Bool) :
    (runOp c s (.commit bid es delta)).ackedLen = (written (runOp c s (.commit bid es delta))).length := by
  simp only [runOp, finish, opSteps]
  rw [commitSteps_eq, hc]
  simp only [if_true]
  rw [← List.append_assoc, execAll_append]
  simp [execAll, exec, written]

/-- non-vacuity: a committed batch is acknowledged, and it survives a crash right after the call -/
example : (run Cfg.asis s0 [.commit 1 [(⟨1, false, 0⟩, {}), (⟨2, true, 0⟩, {})] false]).ackedLen = 2 := by decide
example : (written (run Cfg.asis s0 [.commit 1 [(⟨1, false, 0⟩, {}), (⟨2, true, 0⟩, {})] false, .crash])).length = 2 := by decide

/-- the state right after the `ack` step of a one-entry commit when the acknowledgement precedes the sync -/
def ackFirstState : St :=
  let c := { Cfg.good with ackAfterSync := false }
  let steps := commitSteps c s0 1 [(⟨1, false, 0⟩, {})] false
  execAll s0 (steps.take 3)   -- accept, wAppend, ack

/-- with `finishCommitRequests` before `wal.Sync` an acknowledged write is lost by a crash -/
theorem C09_fails_ackBeforeSync (c : Cfg) (hc : c.ackAfterSync = false) :
    ¬ ((written ackFirstState).take ackFirstState.ackedLen <+:
        written (recover { Cfg.good with ackAfterSync := c.ackAfterSync } ackFirstState)) := by
  rw [hc]; decide

/-- two commits, a rotation in between, then the flush killed between WAL removal and manifest edit -/
def walRemovedFirstState : St :=
  let c := { Cfg.good with flushOrder := .sstRemoveManifest }
  let s1 := run c s0 [.commit 1 [(⟨1, false, 0⟩, {})] false, .commit 2 [(⟨2, false, 0⟩, { mrot := true })] false]
  execAll s1 ((opSteps c s1 .flush).take 4)   -- open:sst, ftrunc:sst, SST complete, remove:wal

/-- removing the WAL segment before the manifest knows the table loses acknowledged writes -/
theorem C09_fails_walRemovedFirst (c : Cfg) (hc : c.flushOrder = .sstRemoveManifest) :
    ¬ ((written walRemovedFirstState).take walRemovedFirstState.ackedLen <+:
        written (recover { Cfg.good with flushOrder := c.flushOrder } walRemovedFirstState)) := by
  rw [hc]; decide

end NoKV.Props.C09

/-
C22  Replicas apply identical command sequences and answer each proposal once.

  "In a multi-store cluster, under any pattern of message loss, duplication, reordering,
   partitions, leader changes and store restarts, every replica applies the same sequence of
   committed commands for a region.  A proposal reported as successful was applied exactly
   once, and the response it received is the result of that same command."

The property is PARTIAL by nature here.  Assumed (named hypotheses, never axioms):
  * `RaftSafety`  — etcd/raft hands prefix-related sequences of committed entries to the
                    replicas of a region (state-machine safety);
  * `ValidRun`'s `deliver` clause — raft only delivers entries that some store proposed.
Proved, for every interleaving of propose / draw-id / deliver / timeout steps on every store,
with no bound on the number of stores, proposals or steps: NoKV's own bookkeeping on top.

Not covered by a theorem (stated, not hidden): "applied exactly once" needs raft not to deliver
an entry twice — validated by the cluster harness' `once` oracle only; store restarts (the id
counter restarts at 0 while old entries may be replayed) are outside the model.
-/
import NoKVModel.Cluster.PipelineLemmas

namespace NoKV.Props.C22
open NoKV.Cluster

/-- what C22 demands of one client `x` of store `s` in state `σ`: it was handed at most one
result, that result belongs to the very entry it proposed, and that entry was applied on `s`. -/
def AnswerMatches (σ : Sys) : Prop :=
  ∀ s, ∀ x ∈ (σ.st s).waiters,
    x.got.length ≤ 1 ∧ ∀ e ∈ x.got, e = ⟨s, x.id, x.tag⟩ ∧ e ∈ (σ.st s).alog

/-- **Headline (repaired configuration).**  When `applyEntries` completes a waiter only for
entries its own store proposed, every client is answered at most once and only by the result
of the command it proposed — for every run. -/
theorem C22_answer_matches (c : PipeCfg) (hc : c.Good) (ops : List Op)
    (hv : ValidRun c false Sys.init ops) : AnswerMatches (run c Sys.init ops) := by
  obtain ⟨hm, hd, _, _⟩ := hc
  have hi := inv_run hd (Or.inl hm) ops (inv_init false) hv
  intro s x hx
  have hw := hi.wok s x hx
  exact ⟨hw.got_len, hw.got_own⟩

/-- **Partial (holds for the as-is code).**  On runs in which no two stores ever use the same
request id (`ValidRun … true`) the as-is lookup by bare id is harmless.  This is the
"globally unique ids" alternative: any id scheme that guarantees the side condition makes the
as-is matching correct.  Missing for the full property on the as-is code: the side condition
is false as soon as two stores have each proposed once (both counters start at 1). -/
theorem C22_partial_unique_ids (c : PipeCfg) (hc : c.Once) (ops : List Op)
    (hv : ValidRun c true Sys.init ops) : AnswerMatches (run c Sys.init ops) := by
  have hi := inv_run hc (Or.inr rfl) ops (inv_init true) hv
  intro s x hx
  have hw := hi.wok s x hx
  exact ⟨hw.got_len, hw.got_own⟩

/-- NoKV's half of "same sequence": a store applies exactly the command entries raft
delivered to it, in delivery order, independent of how raft batched them and of everything
else that happens on the store. -/
theorem C22_applies_delivered (c : PipeCfg) (hc : c.DeliversOnce) (ops : List Op) (s : Nat) :
    ((run c Sys.init ops).st s).alog = (deliveredTo s ops).filterMap cmdOf := by
  simpa [Sys.init] using alog_run c hc ops s Sys.init

/-- **Same sequence, under `RaftSafety`.**  If the committed entries handed to the replicas
are prefix-related (assumed of etcd/raft), so are the command sequences the replicas apply. -/
theorem C22_same_sequence (c : PipeCfg) (hc : c.DeliversOnce) (ops : List Op)
    (hr : RaftSafety (fun s => deliveredTo s ops)) (s t : Nat) :
    ((run c Sys.init ops).st s).alog <+: ((run c Sys.init ops).st t).alog ∨
    ((run c Sys.init ops).st t).alog <+: ((run c Sys.init ops).st s).alog := by
  rw [C22_applies_delivered c hc, C22_applies_delivered c hc]
  rcases hr.prefix_agree s t with h | h
  · exact Or.inl (h.filterMap _)
  · exact Or.inr (h.filterMap _)

/-- The run of `corpus/C22/finding-request-id-collision-leader-change.ops` at the level of the
pipeline: stores 1 and 2 each propose their first command (both draw request id 1); raft
commits store 2's entry and delivers it to stores 2, 3 and 1. -/
def witness : List Op :=
  [.propose 1 1 1, .propose 2 2 2,
   .deliver 2 [.cmd ⟨2, 1, 2⟩], .deliver 3 [.cmd ⟨2, 1, 2⟩], .deliver 1 [.cmd ⟨2, 1, 2⟩]]

theorem witness_raft_safe : RaftSafety (fun s => deliveredTo s witness) := by
  have h : ∀ s, deliveredTo s witness = [] ∨ deliveredTo s witness = [.cmd ⟨2, 1, 2⟩] := by
    intro s
    simp only [witness, deliveredTo]
    by_cases h1 : 2 = s <;> by_cases h2 : 3 = s <;> by_cases h3 : 1 = s <;> simp [h1, h2, h3] <;> omega
  constructor
  intro s t
  rcases h s with hs | hs <;> rcases h t with ht | ht <;> rw [hs, ht] <;> simp

/-- **The as-is code violates C22** on a run that raft is entirely entitled to produce: store 1's
client, which proposed command 1, is handed the result of store 2's command 2 — and command 1
was never applied anywhere. -/
theorem C22_fails_asis (c : PipeCfg) (hc : c.AsIs) :
    ValidRun c false Sys.init witness ∧ RaftSafety (fun s => deliveredTo s witness) ∧
    ¬ AnswerMatches (run c Sys.init witness) := by
  obtain ⟨h1, h2, h3, h4⟩ := hc
  rcases c with ⟨m, d, r, a⟩
  simp only at h1 h2 h3 h4
  subst h1 h2 h3 h4
  refine ⟨?_, witness_raft_safe, ?_⟩
  · simp [witness, ValidRun, ValidOp, step, handedToApply, propose, nextId, register, waiting, applyOne, looksUp,
      completeW, cmdOf, Sys.set, Sys.init]
  · intro h
    have hx : (⟨1, 1, 1, false, [⟨2, 1, 2⟩]⟩ : Waiter) ∈ ((run ⟨false, true, true, true⟩ Sys.init witness).st 1).waiters := by
      simp [witness, run, step, handedToApply, propose, nextId, register, waiting, applyOne, looksUp, completeW, cmdOf,
        Sys.set, Sys.init]
    have := (h 1 _ hx).2 ⟨2, 1, 2⟩ (by simp)
    simp at this

/-- The run of `findings_proposed/cluster-candidate-restart-id-reuse.ops` at the level of the
pipeline: store 1 proposes command 1 (request id 1) and restarts before the entry is applied;
the new process image hands out request id 1 again (command 2); then the old entry is applied. -/
def witnessRestart : List Op :=
  [.propose 1 1 1, .restart 1, .propose 1 2 2, .deliver 1 [.cmd ⟨1, 1, 1⟩]]

/-- **Why `ValidRun` excludes restarts** (and what the proposed repair does not cover): the id
counter lives in memory, so after a restart an entry proposed by the previous process image
completes a new client that was given the same id — whether or not completion is matched by
proposer, because the proposer *is* the same peer. -/
theorem C22_restart_breaks_matching (c : PipeCfg) (hc : c.Once) :
    ValidRunR c Sys.init witnessRestart ∧ ¬ AnswerMatches (run c Sys.init witnessRestart) := by
  rcases c with ⟨m, d, r, a⟩
  have hd : d = true := hc
  subst hd
  refine ⟨?_, ?_⟩
  · cases m <;> cases r <;> cases a <;>
      simp [witnessRestart, ValidRunR, ValidOpR, ValidOp, step, propose, nextId, register, waiting, restart,
        cmdOf, Sys.set, Sys.init]
  · intro h
    have hx : (⟨2, 1, 2, false, [⟨1, 1, 1⟩]⟩ : Waiter) ∈ ((run ⟨m, true, r, a⟩ Sys.init witnessRestart).st 1).waiters := by
      cases m <;> cases r <;> cases a <;>
        simp [witnessRestart, run, step, handedToApply, beforeLastBarrier, isCmdLike, List.dropWhile, propose, nextId, register, waiting, restart, applyOne, looksUp,
          completeW, cmdOf, Sys.set, Sys.init]
    have := (h 1 _ hx).2 ⟨1, 1, 1⟩ (by simp)
    simp at this

/-- A committed batch as a replica sees it when it catches up after a partition: a command, an
admin (split / merge) entry, another command - `corpus/C22/catchup-batch-with-admin-entry.ops`. -/
def witnessBatch : List Op :=
  [.propose 1 1 1, .propose 1 2 2, .deliver 3 [.cmd ⟨1, 1, 1⟩, .admin, .cmd ⟨1, 2, 2⟩]]

/-- **Why `applyEachOnce` is part of the configuration**: with the "flush before every admin /
conf-change entry, then apply the whole slice" shape the replica applies the first command
twice, so it no longer applies the sequence raft delivered (and an answered proposal is applied
more than once) - in a run that raft is entitled to produce. -/
theorem C22_fails_redelivery (c : PipeCfg) (hc : c.Redelivers) :
    ValidRun c false Sys.init witnessBatch ∧
    ((run c Sys.init witnessBatch).st 3).alog = [⟨1, 1, 1⟩, ⟨1, 1, 1⟩, ⟨1, 2, 2⟩] ∧
    ((run c Sys.init witnessBatch).st 3).alog ≠ (deliveredTo 3 witnessBatch).filterMap cmdOf := by
  rcases c with ⟨m, d, r, a⟩
  have ha : a = false := hc
  subst ha
  have hal : ∀ m d r, ((run ⟨m, d, r, false⟩ Sys.init witnessBatch).st 3).alog = [⟨1, 1, 1⟩, ⟨1, 1, 1⟩, ⟨1, 2, 2⟩] := by
    intro m d r; cases m <;> cases d <;> cases r <;> rfl
  refine ⟨?_, hal m d r, ?_⟩
  · have hb : handedToApply ⟨m, d, r, false⟩ [.cmd ⟨1, 1, 1⟩, .admin, .cmd ⟨1, 2, 2⟩] = [⟨1, 1, 1⟩, ⟨1, 1, 1⟩, ⟨1, 2, 2⟩] := rfl
    cases m <;> cases d <;> cases r <;>
      simp [witnessBatch, ValidRun, ValidOp, step, propose, nextId, register, waiting, cmdOf, Sys.set, Sys.init]
  · rw [hal]; decide

/-- Non-vacuity of the headline theorem: in the repaired configuration the same run is valid,
store 1's client keeps waiting, and store 2's client is answered by its own command. -/
example : ValidRun PipeCfg.good false Sys.init witness ∧
    (⟨2, 1, 2, false, [⟨2, 1, 2⟩]⟩ : Waiter) ∈ ((run PipeCfg.good Sys.init witness).st 2).waiters ∧
    (⟨1, 1, 1, true, []⟩ : Waiter) ∈ ((run PipeCfg.good Sys.init witness).st 1).waiters := by
  refine ⟨?_, ?_, ?_⟩ <;>
  simp [witness, PipeCfg.good, ValidRun, ValidOp, run, step, handedToApply, propose, nextId, register, waiting, applyOne,
    looksUp, completeW, cmdOf, Sys.set, Sys.init]

end NoKV.Props.C22

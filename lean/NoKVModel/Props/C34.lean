/-
C34  Concurrent plain writes and reads are linearizable.

Model: `NoKVModel/Queue/Model.lean` (clients, one commit worker, Close, throttle; all
schedules, any number of clients).  Helper lemmas: `Queue/Lemmas.lean`, `Queue/Reject.lean`.

How linearizability is stated.  The model records a ghost *annotated history* `s.hist`:
`call t op`, `ret t r`, and — at the step where an operation reads or changes the store — a
linearization event `lin t r`.  `Spec.step` is the atomic register object: a `lin t r` is
accepted only for a thread with a pending call, only with the result the sequential register
gives at that moment, and it changes the store at that moment; a `ret t r` is accepted only
with the result fixed at the thread's linearization event, or — when there was none, hence no
effect — with an error class.  So "the history is accepted" says: the `lin` events, in order,
are a legal sequential register history; every operation that returned successfully has
exactly one linearization point, between its call and its return; an operation that returned
an error has none.  The theorem also gives the final state of the register object: it is the
abstraction of the model state (same store, same per-thread phase).

Every theorem takes the configuration `c` (facts extracted from db.go / db_write.go) and a
decidable hypothesis about it first.
-/
import NoKVModel.Queue.Reject
import NoKVModel.Queue.AllCfg

namespace NoKV.Props.C34
open NoKV NoKV.Queue

/-- **C34 (headline).**  For every schedule of any number of clients, the worker, `Close` and
throttle toggles: the annotated history is accepted by the atomic register object, which ends
in the abstraction of the reached state. -/
theorem C34_linearizable (c : AllCfg) (hc : c.q.Good) (p : Params) (s : St)
    (h : Reachable c.q p s) :
    Spec.run (Spec.init s.clients.length) s.hist = some (abs s) :=
  hist_accepted hc.1 h (Or.inl hc.2)

/-- **Rejected writes have no effect** (any configuration, also the as-is one): the step that
returns an error class (or the as-is panic) to a client leaves the store and the whole commit
pipeline untouched, and that client has no request in the pipeline. -/
theorem C34_rejected_no_effect (c : AllCfg) (_hc : c.q.Struct) (p : Params) (s s' : St) (a : Act)
    (h : Reachable c.q p s) (hs : step c.q p s a = some s') (t : Nat) (r : Res)
    (hev : Ev.ret t r ∈ newEvs s s') (hr : r.rejected = true) :
    s'.store = s.store ∧ s'.queue = s.queue ∧ s'.batch = s.batch ∧ s'.applied = s.applied ∧
      t ∉ s.queue ++ s.batch ++ s.applied :=
  rejected_step c.q p s s' a (inv_reachable h).1 hs t r hev hr

/-- **Partial (as-is tree).**  Without the two repairs the statement still holds for every
history in which `Close` has not been called yet.  Missing: calls that overlap or follow
`Close` (see the two `…_fails_asis…` theorems). -/
theorem C34_linearizable_partial (c : AllCfg) (hc : c.q.Struct) (p : Params) (s : St)
    (h : Reachable c.q p s) (h0 : s.clPc = 0) :
    Spec.run (Spec.init s.clients.length) s.hist = some (abs s) :=
  hist_accepted hc h (Or.inr h0)

/-! ### the as-is tree -/

def k : Key := [0x6b]
def v : Val := [0x76]

/-- `Close`, then `Set k v`. -/
def writeAfterClose : List Act :=
  [.close, .wexit, .close, .close, .close,
   .call 0 (.set k v), .cstep 0, .cstep 0, .cstep 0, .cstep 0]

/-- `Set k v` (acknowledged), `Close`, then `Get k`. -/
def getAfterClose : List Act :=
  [.call 0 (.set k v), .cstep 0, .cstep 0, .cstep 0, .cstep 0, .wpop, .wapply, .wack, .cstep 0,
   .close, .wexit, .close, .close, .close,
   .call 0 (.get k), .cstep 0]

def verdict (c : QCfg) (acts : List Act) : Option (Option Spec × List Ev) :=
  (run c {} (St.init 1) acts).map fun s => (Spec.run (Spec.init s.clients.length) s.hist, s.hist)

/-- As-is (`enqFailKeepsRef = false`): a write issued after `Close` does not return an error,
it panics (`kv.Entry.DecrRef: refcount underflow`): the history `call; ret panic` is not a
history of the register object. -/
theorem C34_fails_asis_write_after_close (c : AllCfg)
    (hc : c.q = { QCfg.good with enqFailKeepsRef := false } ∨
          c.q = { QCfg.good with enqFailKeepsRef := false, getClosed := .notfound }) :
    ∃ s, Reachable c.q {} s ∧ Spec.run (Spec.init s.clients.length) s.hist = none ∧
      s.hist = [.call 0 (.set k v), .ret 0 .panic] := by
  have h : verdict c.q writeAfterClose = some (none, [.call 0 (.set k v), .ret 0 .panic]) := by
    generalize c.q = q at hc
    rcases hc with rfl | rfl <;> decide
  unfold verdict at h
  cases hr : run c.q {} (St.init 1) writeAfterClose with
  | none => simp [hr] at h
  | some s =>
    simp [hr] at h
    exact ⟨s, ⟨1, writeAfterClose, hr⟩, h.1, h.2⟩

/-- As-is (`getClosed = notfound`): after `Set k v` returned and `Close` returned, `Get k`
answers "not found" as if it were a successful read of an absent key: not a register history. -/
theorem C34_fails_asis_get_after_close (c : AllCfg)
    (hc : c.q = { QCfg.good with getClosed := .notfound } ∨
          c.q = { QCfg.good with enqFailKeepsRef := false, getClosed := .notfound }) :
    ∃ s, Reachable c.q {} s ∧ Spec.run (Spec.init s.clients.length) s.hist = none ∧
      s.hist = [.call 0 (.set k v), .lin 0 .ok, .ret 0 .ok,
                .call 0 (.get k), .lin 0 .notfound, .ret 0 .notfound] := by
  have h : verdict c.q getAfterClose = some (none,
      [.call 0 (.set k v), .lin 0 .ok, .ret 0 .ok,
       .call 0 (.get k), .lin 0 .notfound, .ret 0 .notfound]) := by
    generalize c.q = q at hc
    rcases hc with rfl | rfl <;> decide
  unfold verdict at h
  cases hr : run c.q {} (St.init 1) getAfterClose with
  | none => simp [hr] at h
  | some s =>
    simp [hr] at h
    exact ⟨s, ⟨1, getAfterClose, hr⟩, h.1, h.2⟩

/-! ### non-vacuity -/

example : QCfg.good.Good := by decide

/-- the same two schedules under the good configuration: accepted, with `blocked` /
`closedErr` returned -/
example : (verdict QCfg.good writeAfterClose).map (fun x => (x.1.isSome, x.2)) =
    some (true, [.call 0 (.set k v), .ret 0 .blocked]) := by decide

example : (verdict QCfg.good getAfterClose).map (fun x => (x.1.isSome, x.2)) =
    some (true, [.call 0 (.set k v), .lin 0 .ok, .ret 0 .ok, .call 0 (.get k), .ret 0 .closedErr]) := by
  decide

/-- two clients, the writes batched together, a concurrent reader linearized between the two
applies: reads `v` of the first write -/
example :
    ((run QCfg.good {} (St.init 3)
      [.call 0 (.set k v), .call 1 (.set k [0x77]), .call 2 (.get k),
       .cstep 0, .cstep 0, .cstep 0, .cstep 0, .cstep 1, .cstep 1, .cstep 1, .cstep 1,
       .wpop, .wmore, .wapply, .cstep 2, .wapply, .wack, .wack, .cstep 0, .cstep 1]).map
      fun s => (Spec.run (Spec.init 3) s.hist == some (abs s), s.hist.length,
        s.hist.contains (.ret 2 (.val v)), Store.read s.store k)) =
    some (true, 9, true, .val [0x77]) := by decide

end NoKV.Props.C34

/-
C34  Concurrent plain writes and reads are linearizable.

Model: `NoKVModel/Queue/Model.lean` (clients, one commit worker, Close, throttle; all
schedules, any number of clients).  Helper lemmas: `Queue/Lemmas.lean`, `Queue/Reject.lean`.

How linearizability is stated.  The model records a ghost *annotated history* `s.hist`:
`call t op`, `ret t r`, and — at the step where an operation reads or changes the store — a
linearization event `lin t r`.  `Spec.step` is the atomic register object: a `lin t r` is
accepted only for a thread with a pending call, only with the result the sequential register
gives at that moment, and it changes the store at that moment; a `ret t r` is accepted only
with the result fixed at the thread's linearization event, or — when there was none, hence no
effect — with an error class.  So "the history is accepted" says: the `lin` events, in order,
are a legal sequential register history; every operation that returned successfully has
exactly one linearization point, between its call and its return; an operation that returned
an error has none.  The theorem also gives the final state of the register object: it is the
abstraction of the model state (same store, same per-thread phase).

Every theorem takes the configuration `c` (facts extracted from db.go / db_write.go) and a
decidable hypothesis about it first.
-/
import NoKVModel.Queue.Reject
import NoKVModel.Queue.Readable
import NoKVModel.Queue.AllCfg

namespace NoKV.Props.C34
open NoKV NoKV.Queue

/-- **C34 (headline).**  For every schedule of any number of clients, the worker, `Close` and
throttle toggles: the annotated history is accepted by the atomic register object, which ends
in the abstraction of the reached state. -/
theorem C34_linearizable (c : AllCfg) (hc : c.q.Good) (p : Params) (s : St)
    (h : Reachable c.q p s) :
    Spec.run (Spec.init s.clients.length) s.hist = some (abs s) :=
  hist_accepted hc.1 hc.2.2.2 h (Or.inl ⟨hc.2.1, hc.2.2.1⟩)

/-- **Rejected writes have no effect** (any configuration, also the as-is one): the step that
returns an error class (or the as-is panic) to a client leaves the store and the whole commit
pipeline untouched, and that client has no request in the pipeline. -/
theorem C34_rejected_no_effect (c : AllCfg) (_hc : c.q.Struct) (p : Params) (s s' : St) (a : Act)
    (h : Reachable c.q p s) (hs : step c.q p s a = some s') (t : Nat) (r : Res)
    (hev : Ev.ret t r ∈ newEvs s s') (hr : r.rejected = true) :
    s'.store = s.store ∧ s'.queue = s.queue ∧ s'.batch = s.batch ∧ s'.applied = s.applied ∧
      t ∉ s.queue ++ s.batch ++ s.applied :=
  rejected_step c.q p s s' a (inv_reachable h).1 hs t r hev hr

/-- **An acknowledged write is readable afterwards** (any configuration).  The worker applies
request `t` (a `Set`/`Del` of key `k`) in `s`; whatever every thread does afterwards — further
calls, enqueues, batches, acknowledgements, `Close`, throttle toggles, in any interleaving — as
long as the worker applies no other request of key `k`, a read of `k` returns the written
value (`notfound` after a delete).  Together with `C34_lin_between_enqueue_and_ack` (the ack
comes after this step) this is "every acknowledged write is readable until overwritten". -/
theorem C34_applied_write_readable (c : AllCfg) (_hc : c.q.Struct) (p : Params) (s s1 s2 : St)
    (t : Nat) (b : List Nat) (cl : Client) (acts : List Act)
    (hb : s.batch = t :: b) (hcl : s.clients[t]? = some cl) (hw : cl.op.isWrite = true)
    (hs : step c.q p s .wapply = some s1)
    (hrun : runAvoiding c.q p cl.op.key s1 acts = some s2) :
    Store.read s2.store cl.op.key = writtenValue cl.op := by
  rw [runAvoiding_read c.q p cl.op.key acts s1 s2 hrun, wapply_store c.q p s s1 t b cl hb hcl hs]
  exact applyOp_written s.store cl.op hw

/-- **The linearization point lies between enqueue and acknowledgement** (any configuration):
in every reachable state a request that is still queued or batched has not taken effect and is
not acknowledged; a request waiting for its acknowledgement either has taken effect (exactly
once: the request ids in queue ++ batch ++ applied are pairwise distinct) or was failed by the
pipeline and has not (`failed`: it and everything behind it in its batch get the error,
unapplied); an acknowledged client is in one of these two states. -/
theorem C34_lin_between_enqueue_and_ack (c : AllCfg) (_hc : c.q.Struct) (p : Params) (s : St)
    (h : Reachable c.q p s) (t : Nat) (cl : Client) (hcl : s.clients[t]? = some cl) :
    (t ∈ s.queue ++ s.batch → cl.lin = none ∧ cl.acked = false ∧ cl.failed = false) ∧
    (t ∈ s.applied → cl.acked = false ∧
      ((cl.failed = false ∧ cl.lin = some .ok) ∨ (cl.failed = true ∧ cl.lin = none))) ∧
    (cl.acked = true →
      ((cl.failed = false ∧ cl.lin = some .ok) ∨ (cl.failed = true ∧ cl.lin = none))) ∧
    (s.queue ++ s.batch ++ s.applied).Nodup := by
  obtain ⟨ia, _⟩ := inv_reachable h
  exact ⟨fun hm => (ia.qb t cl hcl hm).2, fun hm => (ia.ap t cl hcl hm).2, ia.al t cl hcl, ia.nd⟩

/-
Full-strength statement the property demands (it is `C34_linearizable` above, proved for the
configuration extracted from the current tree): for EVERY reachable state of EVERY schedule the
annotated history is accepted by the atomic register object.
`C34_linearizable_partial` below is the fallback that was the active obligation while the two
defects `write-after-close-panics` and `get-after-close-notfound` were open: it needs only the
structural facts but covers only histories in which `Close` has not been called (`clPc = 0`).
What it lacks: every call that overlaps or follows `Close`.  Superseded (kind `lemma`) since
both flags are good; kept because it is what still holds if one of them regresses.
-/
/-- Lemma (superseded partial): linearizability of the histories before `Close`, from the
structural facts alone. -/
theorem C34_linearizable_partial (c : AllCfg) (hc : c.q.Struct ∧ c.q.waitErrKeepsRef = true)
    (p : Params) (s : St) (h : Reachable c.q p s) (h0 : s.clPc = 0) :
    Spec.run (Spec.init s.clients.length) s.hist = some (abs s) :=
  hist_accepted hc.1 hc.2 h (Or.inr h0)

/-! ### the as-is tree -/

def k : Key := [0x6b]
def v : Val := [0x76]

/-- `Close`, then `Set k v`. -/
def writeAfterClose : List Act :=
  [.close, .wexit, .close, .close, .close,
   .call 0 (.set k v), .cstep 0, .cstep 0, .cstep 0, .cstep 0]

/-- `Set k v` (acknowledged), `Close`, then `Get k`. -/
def getAfterClose : List Act :=
  [.call 0 (.set k v), .cstep 0, .cstep 0, .cstep 0, .cstep 0, .wpop, .wapply, .wack, .cstep 0,
   .close, .wexit, .close, .close, .close,
   .call 0 (.get k), .cstep 0]

def verdict (c : QCfg) (acts : List Act) : Option (Option Spec × List Ev) :=
  (run c {} (St.init 1) acts).map fun s => (Spec.run (Spec.init s.clients.length) s.hist, s.hist)

/-- As-is (`enqFailKeepsRef = false`): a write issued after `Close` does not return an error,
it panics (`kv.Entry.DecrRef: refcount underflow`): the history `call; ret panic` is not a
history of the register object. -/
theorem C34_fails_asis_write_after_close (c : AllCfg)
    (hc : c.q = { QCfg.good with enqFailKeepsRef := false } ∨
          c.q = { QCfg.good with enqFailKeepsRef := false, getClosed := .notfound }) :
    ∃ s, Reachable c.q {} s ∧ Spec.run (Spec.init s.clients.length) s.hist = none ∧
      s.hist = [.call 0 (.set k v), .ret 0 .panic] := by
  have h : verdict c.q writeAfterClose = some (none, [.call 0 (.set k v), .ret 0 .panic]) := by
    generalize c.q = q at hc
    rcases hc with rfl | rfl <;> decide
  unfold verdict at h
  cases hr : run c.q {} (St.init 1) writeAfterClose with
  | none => simp [hr] at h
  | some s =>
    simp [hr] at h
    exact ⟨s, ⟨1, writeAfterClose, hr⟩, h.1, h.2⟩

/-- As-is (`getClosed = notfound`): after `Set k v` returned and `Close` returned, `Get k`
answers "not found" as if it were a successful read of an absent key: not a register history. -/
theorem C34_fails_asis_get_after_close (c : AllCfg)
    (hc : c.q = { QCfg.good with getClosed := .notfound } ∨
          c.q = { QCfg.good with enqFailKeepsRef := false, getClosed := .notfound }) :
    ∃ s, Reachable c.q {} s ∧ Spec.run (Spec.init s.clients.length) s.hist = none ∧
      s.hist = [.call 0 (.set k v), .lin 0 .ok, .ret 0 .ok,
                .call 0 (.get k), .lin 0 .notfound, .ret 0 .notfound] := by
  have h : verdict c.q getAfterClose = some (none,
      [.call 0 (.set k v), .lin 0 .ok, .ret 0 .ok,
       .call 0 (.get k), .lin 0 .notfound, .ret 0 .notfound]) := by
    generalize c.q = q at hc
    rcases hc with rfl | rfl <;> decide
  unfold verdict at h
  cases hr : run c.q {} (St.init 1) getAfterClose with
  | none => simp [hr] at h
  | some s =>
    simp [hr] at h
    exact ⟨s, ⟨1, getAfterClose, hr⟩, h.1, h.2⟩

/-- `Set k v` is batched, the LSM write fails, the request is acknowledged with the error. -/
def pipelineFailure : List Act :=
  [.call 0 (.set k v), .cstep 0, .cstep 0, .cstep 0, .cstep 0, .wpop, .wfail, .wack, .cstep 0]

/-- As-is (`waitErrKeepsRef = false`): when the commit pipeline reports an error for a request
(`req.Wait()` returns it), `setEntry` releases the entry once more after the request already
released it: the call panics (`kv.Entry.DecrRef: refcount underflow`) instead of returning
the error — `call; ret panic` is not a history of the register object. -/
theorem C34_fails_asis_wait_error_panics (c : AllCfg)
    (hc : c.q = { QCfg.good with waitErrKeepsRef := false }) :
    ∃ s, Reachable c.q {} s ∧ Spec.run (Spec.init s.clients.length) s.hist = none ∧
      s.hist = [.call 0 (.set k v), .ret 0 .panic] := by
  have h : verdict c.q pipelineFailure = some (none, [.call 0 (.set k v), .ret 0 .panic]) := by
    rw [hc]; decide
  unfold verdict at h
  cases hr : run c.q {} (St.init 1) pipelineFailure with
  | none => simp [hr] at h
  | some s =>
    simp [hr] at h
    exact ⟨s, ⟨1, pipelineFailure, hr⟩, h.1, h.2⟩

/-! ### non-vacuity -/

/-- good configuration: a batch of three whose middle request fails: the first is applied and
acknowledged, the second AND the third return `ioerr` and are not applied; accepted -/
example :
    ((run QCfg.good {} (St.init 3)
      [.call 0 (.set k v), .call 1 (.set [0x6c] [0x01]), .call 2 (.set [0x6d] [0x02]),
       .cstep 0, .cstep 0, .cstep 0, .cstep 0, .cstep 1, .cstep 1, .cstep 1, .cstep 1,
       .cstep 2, .cstep 2, .cstep 2, .cstep 2,
       .wpop, .wmore, .wmore, .wapply, .wfail, .wfail, .wack, .wack, .wack,
       .cstep 0, .cstep 1, .cstep 2]).map
      fun s => (Spec.run (Spec.init 3) s.hist == some (abs s),
        s.hist.filter (fun e => match e with | .ret _ _ => true | _ => false),
        Store.read s.store [0x6d])) =
    some (true, [.ret 0 .ok, .ret 1 .ioerr, .ret 2 .ioerr], .notfound) := by decide


example : QCfg.good.Good := by decide

/-- the same two schedules under the good configuration: accepted, with `blocked` /
`closedErr` returned -/
example : (verdict QCfg.good writeAfterClose).map (fun x => (x.1.isSome, x.2)) =
    some (true, [.call 0 (.set k v), .ret 0 .blocked]) := by decide

example : (verdict QCfg.good getAfterClose).map (fun x => (x.1.isSome, x.2)) =
    some (true, [.call 0 (.set k v), .lin 0 .ok, .ret 0 .ok, .call 0 (.get k), .ret 0 .closedErr]) := by
  decide

/-- two clients, the writes batched together, a concurrent reader linearized between the two
applies: reads `v` of the first write -/
example :
    ((run QCfg.good {} (St.init 3)
      [.call 0 (.set k v), .call 1 (.set k [0x77]), .call 2 (.get k),
       .cstep 0, .cstep 0, .cstep 0, .cstep 0, .cstep 1, .cstep 1, .cstep 1, .cstep 1,
       .wpop, .wmore, .wapply, .cstep 2, .wapply, .wack, .wack, .cstep 0, .cstep 1]).map
      fun s => (Spec.run (Spec.init 3) s.hist == some (abs s), s.hist.length,
        s.hist.contains (.ret 2 (.val v)), Store.read s.store k)) =
    some (true, 9, true, .val [0x77]) := by decide

/-- an applied `Set` stays readable while other keys are written, other clients call, and the
queue is closed; the schedule is rejected by `runAvoiding` as soon as the same key is applied -/
example :
    ((run QCfg.good {} (St.init 2)
        [.call 0 (.set k v), .call 1 (.set [0x6c] [0x01]), .cstep 0, .cstep 0, .cstep 0, .cstep 0,
         .cstep 1, .cstep 1, .cstep 1, .cstep 1, .wpop, .wmore, .wapply]).bind fun s1 =>
      (runAvoiding QCfg.good {} k s1 [.wapply, .wack, .wack, .cstep 0, .cstep 1, .close]).map
        fun s2 => Store.read s2.store k) = some (.val v) ∧
    ((run QCfg.good {} (St.init 2)
        [.call 0 (.set k v), .call 1 (.set k [0x01]), .cstep 0, .cstep 0, .cstep 0, .cstep 0,
         .cstep 1, .cstep 1, .cstep 1, .cstep 1, .wpop, .wmore, .wapply]).bind fun s1 =>
      (runAvoiding QCfg.good {} k s1 [.wapply]).map fun s2 => Store.read s2.store k) = none := by
  decide

end NoKV.Props.C34

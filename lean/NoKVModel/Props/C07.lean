/-
C07  Both memtable engines behave as the same ordered map, iterated in internal-key order:
     column family and user key ascending, then version descending.

Headline (all quantifiers unbounded):
* `C07_order`            `CompareKeys` is a strict total order on byte strings and, on constructed
                         keys, is exactly (user key asc, version desc); key construction is injective.
* `C07_sorted_map`       the reference index ("upsert into the `CompareKeys`-sorted duplicate-free
                         list") stays sorted under any write history, exact lookup returns the newest
                         value written to that key, `seekGE` / `seekLE` split the list at the first
                         `≥` / last `≤` element (so forward/reverse iteration from a seek is sorted
                         and complete).
* `C07_skiplist_refines` the sequential skiplist model (`Add`, `Search`, ascending `Seek`/`Next`)
                         computes exactly the reference operations, for every write history.
* `C07_radix_iff`        byte-lexicographic order on two raw internal keys agrees with
                         `CompareKeys` iff neither user key is a proper byte-prefix of the other, or
                         the bytes following the shorter one decide the same way.
Partial / as-is:
* `C07_art_partial`      for an ART that navigates raw keys: whenever the user keys of two stored
                         keys are equal or diverge inside both, radix order = `CompareKeys` order.
                         MISSING for a headline: the refinement theorem "ART model = reference map";
                         the ART model is tied to the code by correspondence only.
* `C07_fails_asis_art_prefix`, `C07_fails_asis_art_conflate`, `C07_fails_asis_keylen_u16`,
  `C07_fails_asis_art_concurrent`: negations on the witnesses of the open findings.
-/
import NoKVModel.Index.Art
import NoKVModel.Index.ArtConc
import NoKVModel.Index.RefLemmas
import NoKVModel.Index.RadixLemmas

set_option linter.unusedSimpArgs false
set_option linter.unusedVariables false
namespace NoKV.Props.C07
open NoKV NoKV.Index

/-- `CompareKeys` is a strict total order; on keys built by `kv.KeyWithTs` it is user key
ascending, then version descending; distinct (user key, version) pairs give distinct keys. -/
theorem C07_order (c : IdxCfg) (hc : c.OrderGood) :
    StrictTotal (ckLt c) ∧
    (∀ (u1 u2 : Bytes) (v1 v2 : Nat), v1 ≤ maxU64 → v2 ≤ maxU64 →
      (ckLt c (mkKey c u1 v1) (mkKey c u2 v2) = true ↔
        (Bytes.lt u1 u2 = true ∨ (u1 = u2 ∧ v2 < v1)))) ∧
    (∀ (u1 u2 : Bytes) (v1 v2 : Nat), v1 ≤ maxU64 → v2 ≤ maxU64 →
      mkKey c u1 v1 = mkKey c u2 v2 → u1 = u2 ∧ v1 = v2) := by
  refine ⟨ck_strictTotal hc.1, ?_, ?_⟩
  · intro u1 u2 v1 v2 h1 h2
    rw [ckLt_mkKey hc u1 u2 h1 h2]
    simp
  · intro u1 u2 v1 v2 h1 h2 h
    exact mkKey_inj hc h1 h2 h

/-- non-vacuity: version 2 of `a` sorts before version 1 of `a`, which sorts before `ab` -/
example : ckLt IdxCfg.good (mkKey IdxCfg.good [97] 2) (mkKey IdxCfg.good [97] 1) = true ∧
    ckLt IdxCfg.good (mkKey IdxCfg.good [97] 1) (mkKey IdxCfg.good [97, 98] 9) = true := by decide

/-- The reference ordered map.  `ops` is the write history, newest first. -/
theorem C07_sorted_map (c : IdxCfg) (hc : c.OrderGood) (ops : List Entry) :
    Sorted (ckLt c) (build (ckLt c) ops) ∧
    (∀ k, getRef k (build (ckLt c) ops) = (ops.find? (fun e => e.1 = k)).map (·.2)) ∧
    (∀ t, ∃ pre, build (ckLt c) ops = pre ++ seekGE (ckLt c) t (build (ckLt c) ops) ∧
        (∀ e ∈ pre, ckLt c e.1 t = true) ∧
        (∀ e ∈ seekGE (ckLt c) t (build (ckLt c) ops), ckLt c e.1 t = false) ∧
        Sorted (ckLt c) (seekGE (ckLt c) t (build (ckLt c) ops))) ∧
    (∀ t, ∃ post, build (ckLt c) ops = (seekLE (ckLt c) t (build (ckLt c) ops)).reverse ++ post ∧
        (∀ e ∈ seekLE (ckLt c) t (build (ckLt c) ops), ckLt c t e.1 = false) ∧
        (∀ e ∈ post, ckLt c t e.1 = true)) := by
  have st := ck_strictTotal hc.1
  have hs := build_sorted st ops
  refine ⟨hs, fun k => getRef_build st k ops, ?_, ?_⟩
  · intro t
    obtain ⟨pre, h1, h2, h3⟩ := seekGE_split st t hs
    exact ⟨pre, h1, h2, h3, seekGE_sorted t hs⟩
  · intro t
    exact seekLE_split st t hs

/-- the skiplist after a write history (newest first) -/
def sklBuild (c : IdxCfg) : List Entry → List Entry
  | [] => []
  | (k, v) :: older => sklAdd c k v (sklBuild c older)

/-- The sequential skiplist model refines the reference map: same content after any write
history whose keys fit the stored length field, same `Search`, same ascending `Seek`+`Next`. -/
theorem C07_skiplist_refines (c : IdxCfg) (hc : c.SklGood) (ops : List Entry)
    (hlen : ∀ e ∈ ops, c.keyLenBits = 0 ∨ e.1.length < 2 ^ c.keyLenBits) :
    sklBuild c ops = build (ckLt c) ops ∧
    (∀ t, sklSearch c t (sklBuild c ops) = searchRef (ckLt c) t (build (ckLt c) ops)) ∧
    (∀ t, sklSeekAsc c t (sklBuild c ops) = seekGE (ckLt c) t (build (ckLt c) ops)) := by
  have hb : sklBuild c ops = build (ckLt c) ops := by
    induction ops with
    | nil => rfl
    | cons op older ih =>
      obtain ⟨k, v⟩ := op
      have hk := stored_of_short c (hlen (k, v) (by simp))
      simp only [sklBuild, build]
      rw [ih (fun e he => hlen e (by simp [he])), sklAdd_eq_upsert hc hk]
  refine ⟨hb, ?_, ?_⟩
  · intro t; rw [hb, sklSearch_eq hc]
  · intro t; rw [hb, sklSeekAsc_eq hc]

/-- the bytes after the shorter user key decide the same way as "prefix sorts first" -/
def NextDecides (u1 t1 u2 t2 : Bytes) : Prop :=
  (∀ x r, u2 = u1 ++ x :: r → Bytes.lt t1 (x :: r ++ t2) = true) ∧
  (∀ x r, u1 = u2 ++ x :: r → Bytes.lt (x :: r ++ t1) t2 = false)

/-- Raw byte order (the order a radix tree over raw internal keys iterates in) agrees with
`CompareKeys` on two well-formed keys iff neither user key is a proper byte-prefix of the other,
or the next bytes happen to decide the same way. -/
theorem C07_radix_iff (c : IdxCfg) (hc : c.OrderGood) (u1 t1 u2 t2 : Bytes)
    (h1 : t1.length = 8) (h2 : t2.length = 8) :
    (Bytes.lt (u1 ++ t1) (u2 ++ t2) = ckLt c (u1 ++ t1) (u2 ++ t2)) ↔ NextDecides u1 t1 u2 t2 := by
  have hb := hc.1
  rcases prefix_or_diverge u1 u2 with h | ⟨x, r, h⟩ | ⟨x, r, h⟩ | h
  · subst h
    refine ⟨fun _ => ⟨fun x r e => absurd e (ne_append_cons u1 x r), fun x r e => absurd e (ne_append_cons u1 x r)⟩,
      fun _ => raw_eq_ck_same hb u1 t1 t2 h1 h2⟩
  · subst h
    obtain ⟨a, _, b, _⟩ := ck_prefix hb u1 t1 t2 x r h1 h2
    rw [a, b]
    constructor
    · intro e
      refine ⟨fun x' r' e' => ?_, fun x' r' e' => ?_⟩
      · have := List.append_cancel_left e'
        simp only [List.cons.injEq] at this
        obtain ⟨rfl, rfl⟩ := this
        exact e
      · exfalso
        have := congrArg List.length e'
        simp at this
    · intro hn; exact hn.1 x r rfl
  · subst h
    obtain ⟨_, a, _, b⟩ := ck_prefix hb u2 t2 t1 x r h2 h1
    rw [a, b]
    constructor
    · intro e
      refine ⟨fun x' r' e' => ?_, fun x' r' e' => ?_⟩
      · exfalso
        have := congrArg List.length e'
        simp at this
      · have := List.append_cancel_left e'
        simp only [List.cons.injEq] at this
        obtain ⟨rfl, rfl⟩ := this
        exact e
    · intro hn; exact hn.2 x r rfl
  · refine ⟨fun _ => ⟨fun x r e => absurd e (diverge_not_prefix h x r),
      fun x r e => absurd e (diverge_not_prefix (diverge_symm h) x r)⟩,
      fun _ => raw_eq_ck_diverge hb t1 t2 h1 h2 h⟩

/-- PARTIAL (ART).  What is proved about the radix order without the refinement theorem: for
keys whose user keys are equal or differ at a byte inside both, raw byte order is the
`CompareKeys` order — so a radix tree over raw keys can only mis-order prefix-related user keys.
Missing: "ART model = reference map" (insert/lowerBound/upperBound/iterator correctness of the
radix tree itself); that part rests on the correspondence run. -/
theorem C07_art_partial (c : IdxCfg) (hc : c.OrderGood) (u1 t1 u2 t2 : Bytes)
    (h1 : t1.length = 8) (h2 : t2.length = 8) (h : u1 = u2 ∨ Diverge u1 u2) :
    Bytes.lt (u1 ++ t1) (u2 ++ t2) = ckLt c (u1 ++ t1) (u2 ++ t2) := by
  rcases h with h | h
  · subst h; exact raw_eq_ck_same hc.1 u1 t1 t2 h1 h2
  · exact raw_eq_ck_diverge hc.1 t1 t2 h1 h2 h

/-! ### as-is: negations on the witnesses of the open findings -/

/-- the as-is ART configuration with either value of the facts the ART order does not depend on -/
def ArtAsIs (c : IdxCfg) : Prop :=
  c.ArtRaw ∧ (c.keyLenBits = 0 ∨ c.keyLenBits = 16)
instance decArtAsIs (c : IdxCfg) : Decidable (ArtAsIs c) := by unfold ArtAsIs; exact inferInstance

/-- the ART after a write history given oldest first as (user key, version, value) -/
def artOf (c : IdxCfg) (ws : List (Bytes × Nat × Bytes)) : ArtIdx :=
  ws.foldl (fun t w => t.add c (mkKey c w.1 w.2.1) w.2.2) {}

/-- witness corpus/C07/finding-art-prefix-order.ops: `a`@1 and `ab`@1.  The ART iterates `ab`
before `a` although `CompareKeys` puts `a` first, and an ascending seek to `a`@0 (which must
land on `ab`@1) finds nothing. -/
theorem C07_fails_asis_art_prefix (c : IdxCfg) (hc : ArtAsIs c) :
    let t := artOf c [([97], 1, [1]), ([97, 98], 1, [2])]
    ¬ (t.scan true = build (ckLt c) [(mkKey c [97, 98] 1, [2]), (mkKey c [97] 1, [1])]) ∧
    ¬ (t.seek c true (mkKey c [97] 0) = seekGE (ckLt c) (mkKey c [97] 0)
          (build (ckLt c) [(mkKey c [97, 98] 1, [2]), (mkKey c [97] 1, [1])])) := by
  obtain ⟨a, b, s, lb, ub, rk, pad, bits, pr⟩ := c
  obtain ⟨⟨h1, h2, h3, h4, h5, h6⟩, h7⟩ := hc
  simp only at h1 h2 h3 h4 h5 h6 h7
  subst h1 h2 h3 h4 h5 h6
  rcases h7 with h7 | h7 <;> subst h7 <;> cases s <;> cases pr <;> decide

/-- witness corpus/C07/finding-art-pad-conflate.ops: `a·ff`@511 then `a`@1.  Their raw keys are
`61 ff×7 fe 00` and `61 ff×7 fe`: equal under `keyByte`'s zero padding.  The second insert is
stored under the same child byte and `Search(a@1)` misses it. -/
theorem C07_fails_asis_art_conflate (c : IdxCfg) (hc : ArtAsIs c) :
    let t := artOf c [([97, 255], 511, [1]), ([97], 1, [2])]
    t.search c (mkKey c [97] 1) = none ∧
    searchRef (ckLt c) (mkKey c [97] 1) (build (ckLt c) [(mkKey c [97] 1, [2]), (mkKey c [97, 255] 511, [1])]) = some [2] := by
  obtain ⟨a, b, s, lb, ub, rk, pad, bits, pr⟩ := c
  obtain ⟨⟨h1, h2, h3, h4, h5, h6⟩, h7⟩ := hc
  simp only at h1 h2 h3 h4 h5 h6 h7
  subst h1 h2 h3 h4 h5 h6
  rcases h7 with h7 | h7 <;> subst h7 <;> cases s <;> cases pr <;> decide

/-- `keySize = uint16(len(key))`: after writing any key of 65536 bytes or more, the *truncated*
key — which was never written — reads the value (skiplist model; the ART stores the leaf key
the same way).  Witness corpus/C07/finding-keylen-u16.ops. -/
theorem C07_fails_asis_keylen_u16 (c : IdxCfg) (hc : c.Trunc16) (k v : Bytes) (hk : 65536 ≤ k.length) :
    stored c k ≠ k ∧ sklSearch c (stored c k) (sklAdd c k v []) = some v := by
  obtain ⟨hs, hb, hbits⟩ := hc
  constructor
  · intro e
    have := congrArg List.length e
    simp only [stored, hbits] at this
    simp at this
    have hm : k.length % 65536 < 65536 := Nat.mod_lt _ (by decide)
    omega
  · have hirr : sklLt c (stored c k) (stored c k) = false := by
      simp [sklLt, hs, ckLt_irrefl hb]
    simp [sklAdd, sklSearch, sklFindNear, hirr, sameKey]

/-- Concurrent inserts (small-step abstraction `ArtConc`): one thread replaces a child of inner
node `P` by CAS on `P`'s payload while another replaces `P` itself by a grown copy.  With the
as-is `replaceChild` (no re-validation that `P` is still reachable) there is a schedule after
which both inserts returned and one key is not in the tree. -/
theorem C07_fails_asis_art_concurrent (c : IdxCfg) (hc : c.artParentRevalidated = false) :
    ∃ sched, (runSched ⟨c.artParentRevalidated⟩ sched initConc).bothDone = true ∧
      reachableKeys (runSched ⟨c.artParentRevalidated⟩ sched initConc) ≠ [1, 2, 3] := by
  refine ⟨[.b, .b, .a, .a, .a, .b], ?_⟩
  rw [hc]
  decide

set_option maxRecDepth 100000 in
/-- with re-validation every schedule (of the enumerated length) of the two inserts that lets
both finish ends with all keys reachable — a sanity check of the flag's good value, enumerated,
not a headline -/
theorem C07_art_concurrent_good (c : IdxCfg) (hc : c.artParentRevalidated = true) :
    ∀ sched ∈ allScheds, (runSched ⟨c.artParentRevalidated⟩ sched initConc).bothDone = true →
      reachableKeys (runSched ⟨c.artParentRevalidated⟩ sched initConc) = [1, 2, 3] := by
  rw [hc]
  decide

end NoKV.Props.C07

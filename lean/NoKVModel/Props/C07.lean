/-
C07  Both memtable engines behave as the same ordered map, iterated in internal-key order:
     column family and user key ascending, then version descending.

Headline (all quantifiers unbounded):
* `C07_order`            `CompareKeys` is a strict total order on byte strings and, on constructed
                         keys, is exactly (user key asc, version desc); key construction is injective.
* `C07_sorted_map`       the reference index ("upsert into the `CompareKeys`-sorted duplicate-free
                         list") stays sorted under any write history, exact lookup returns the newest
                         value written to that key, `seekGE` / `seekLE` split the list at the first
                         `≥` / last `≤` element (so forward/reverse iteration from a seek is sorted
                         and complete).
* `C07_skiplist_refines` the sequential skiplist model (`Add`, `Search`, ascending `Seek`/`Next`)
                         computes exactly the reference operations, for every write history.
* `C07_art_refines`      the ART model with the order-preserving prefix-free radix key computes, for every
                         write history, exactly the reference map: scan forward/reverse, `Search`, `Seek`
                         forward/reverse (`C07_engines_agree`: same content/Search/ascending Seek as the skiplist).
* `C07_radix_iff`        byte-lexicographic order on two raw internal keys agrees with
                         `CompareKeys` iff neither user key is a proper byte-prefix of the other, or
                         the bytes following the shorter one decide the same way.
Partial / as-is:
* `C07_art_partial`      for an ART that navigates raw keys: whenever the user keys of two stored
                         keys are equal or diverge inside both, radix order = `CompareKeys` order.
                         This is what remains of the ordering claim for the AS-IS raw radix key; the
                         refinement theorem `C07_art_refines` holds for the repaired radix key.
* `C07_fails_asis_art_prefix`, `C07_fails_asis_art_conflate`, `C07_fails_asis_keylen_u16`,
  `C07_fails_asis_art_concurrent`: negations on the witnesses of the open findings.
-/
import NoKVModel.Index.Art
import NoKVModel.Index.ArtConc
import NoKVModel.Index.RefLemmas
import NoKVModel.Index.RadixLemmas
import NoKVModel.Index.ArtRefine

set_option linter.unusedSimpArgs false
set_option linter.unusedVariables false
namespace NoKV.Props.C07
open NoKV NoKV.Index

/-- `CompareKeys` is a strict total order; on keys built by `kv.KeyWithTs` it is user key
ascending, then version descending; distinct (user key, version) pairs give distinct keys. -/
theorem C07_order (c : IdxCfg) (hc : c.OrderGood) :
    StrictTotal (ckLt c) ∧
    (∀ (u1 u2 : Bytes) (v1 v2 : Nat), v1 ≤ maxU64 → v2 ≤ maxU64 →
      (ckLt c (mkKey c u1 v1) (mkKey c u2 v2) = true ↔
        (Bytes.lt u1 u2 = true ∨ (u1 = u2 ∧ v2 < v1)))) ∧
    (∀ (u1 u2 : Bytes) (v1 v2 : Nat), v1 ≤ maxU64 → v2 ≤ maxU64 →
      mkKey c u1 v1 = mkKey c u2 v2 → u1 = u2 ∧ v1 = v2) := by
  refine ⟨ck_strictTotal hc.1, ?_, ?_⟩
  · intro u1 u2 v1 v2 h1 h2
    rw [ckLt_mkKey hc u1 u2 h1 h2]
    simp
  · intro u1 u2 v1 v2 h1 h2 h
    exact mkKey_inj hc h1 h2 h

/-- non-vacuity: version 2 of `a` sorts before version 1 of `a`, which sorts before `ab` -/
example : ckLt IdxCfg.good (mkKey IdxCfg.good [97] 2) (mkKey IdxCfg.good [97] 1) = true ∧
    ckLt IdxCfg.good (mkKey IdxCfg.good [97] 1) (mkKey IdxCfg.good [97, 98] 9) = true := by decide

/-- The reference ordered map.  `ops` is the write history, newest first. -/
theorem C07_sorted_map (c : IdxCfg) (hc : c.OrderGood) (ops : List Entry) :
    Sorted (ckLt c) (build (ckLt c) ops) ∧
    (∀ k, getRef k (build (ckLt c) ops) = (ops.find? (fun e => e.1 = k)).map (·.2)) ∧
    (∀ t, ∃ pre, build (ckLt c) ops = pre ++ seekGE (ckLt c) t (build (ckLt c) ops) ∧
        (∀ e ∈ pre, ckLt c e.1 t = true) ∧
        (∀ e ∈ seekGE (ckLt c) t (build (ckLt c) ops), ckLt c e.1 t = false) ∧
        Sorted (ckLt c) (seekGE (ckLt c) t (build (ckLt c) ops))) ∧
    (∀ t, ∃ post, build (ckLt c) ops = (seekLE (ckLt c) t (build (ckLt c) ops)).reverse ++ post ∧
        (∀ e ∈ seekLE (ckLt c) t (build (ckLt c) ops), ckLt c t e.1 = false) ∧
        (∀ e ∈ post, ckLt c t e.1 = true)) := by
  have st := ck_strictTotal hc.1
  have hs := build_sorted st ops
  refine ⟨hs, fun k => getRef_build st k ops, ?_, ?_⟩
  · intro t
    obtain ⟨pre, h1, h2, h3⟩ := seekGE_split st t hs
    exact ⟨pre, h1, h2, h3, seekGE_sorted t hs⟩
  · intro t
    exact seekLE_split st t hs

/-- the skiplist after a write history (newest first) -/
def sklBuild (c : IdxCfg) : List Entry → List Entry
  | [] => []
  | (k, v) :: older => sklAdd c k v (sklBuild c older)

/-- The sequential skiplist model refines the reference map: same content after any write
history whose keys fit the stored length field, same `Search`, same ascending `Seek`+`Next`. -/
theorem C07_skiplist_refines (c : IdxCfg) (hc : c.SklGood) (ops : List Entry)
    (hlen : ∀ e ∈ ops, c.keyLenBits = 0 ∨ e.1.length < 2 ^ c.keyLenBits) :
    sklBuild c ops = build (ckLt c) ops ∧
    (∀ t, sklSearch c t (sklBuild c ops) = searchRef (ckLt c) t (build (ckLt c) ops)) ∧
    (∀ t, sklSeekAsc c t (sklBuild c ops) = seekGE (ckLt c) t (build (ckLt c) ops)) := by
  have hb : sklBuild c ops = build (ckLt c) ops := by
    induction ops with
    | nil => rfl
    | cons op older ih =>
      obtain ⟨k, v⟩ := op
      have hk := stored_of_short c (hlen (k, v) (by simp))
      simp only [sklBuild, build]
      rw [ih (fun e he => hlen e (by simp [he])), sklAdd_eq_upsert hc hk]
  refine ⟨hb, ?_, ?_⟩
  · intro t; rw [hb, sklSearch_eq hc]
  · intro t; rw [hb, sklSeekAsc_eq hc]

/-- the bytes after the shorter user key decide the same way as "prefix sorts first" -/
def NextDecides (u1 t1 u2 t2 : Bytes) : Prop :=
  (∀ x r, u2 = u1 ++ x :: r → Bytes.lt t1 (x :: r ++ t2) = true) ∧
  (∀ x r, u1 = u2 ++ x :: r → Bytes.lt (x :: r ++ t1) t2 = false)

/-- Raw byte order (the order a radix tree over raw internal keys iterates in) agrees with
`CompareKeys` on two well-formed keys iff neither user key is a proper byte-prefix of the other,
or the next bytes happen to decide the same way. -/
theorem C07_radix_iff (c : IdxCfg) (hc : c.OrderGood) (u1 t1 u2 t2 : Bytes)
    (h1 : t1.length = 8) (h2 : t2.length = 8) :
    (Bytes.lt (u1 ++ t1) (u2 ++ t2) = ckLt c (u1 ++ t1) (u2 ++ t2)) ↔ NextDecides u1 t1 u2 t2 := by
  have hb := hc.1
  rcases prefix_or_diverge u1 u2 with h | ⟨x, r, h⟩ | ⟨x, r, h⟩ | h
  · subst h
    refine ⟨fun _ => ⟨fun x r e => absurd e (ne_append_cons u1 x r), fun x r e => absurd e (ne_append_cons u1 x r)⟩,
      fun _ => raw_eq_ck_same hb u1 t1 t2 h1 h2⟩
  · subst h
    obtain ⟨a, _, b, _⟩ := ck_prefix hb u1 t1 t2 x r h1 h2
    rw [a, b]
    constructor
    · intro e
      refine ⟨fun x' r' e' => ?_, fun x' r' e' => ?_⟩
      · have := List.append_cancel_left e'
        simp only [List.cons.injEq] at this
        obtain ⟨rfl, rfl⟩ := this
        exact e
      · exfalso
        have := congrArg List.length e'
        simp at this
    · intro hn; exact hn.1 x r rfl
  · subst h
    obtain ⟨_, a, _, b⟩ := ck_prefix hb u2 t2 t1 x r h2 h1
    rw [a, b]
    constructor
    · intro e
      refine ⟨fun x' r' e' => ?_, fun x' r' e' => ?_⟩
      · exfalso
        have := congrArg List.length e'
        simp at this
      · have := List.append_cancel_left e'
        simp only [List.cons.injEq] at this
        obtain ⟨rfl, rfl⟩ := this
        exact e
    · intro hn; exact hn.2 x r rfl
  · refine ⟨fun _ => ⟨fun x r e => absurd e (diverge_not_prefix h x r),
      fun x r e => absurd e (diverge_not_prefix (diverge_symm h) x r)⟩,
      fun _ => raw_eq_ck_diverge hb t1 t2 h1 h2 h⟩

/-- PARTIAL (ART).  What is proved about the radix order without the refinement theorem: for
keys whose user keys are equal or differ at a byte inside both, raw byte order is the
`CompareKeys` order — so a radix tree over raw keys can only mis-order prefix-related user keys.
Missing: "ART model = reference map" (insert/lowerBound/upperBound/iterator correctness of the
radix tree itself); that part rests on the correspondence run. -/
theorem C07_art_partial (c : IdxCfg) (hc : c.OrderGood) (u1 t1 u2 t2 : Bytes)
    (h1 : t1.length = 8) (h2 : t2.length = 8) (h : u1 = u2 ∨ Diverge u1 u2) :
    Bytes.lt (u1 ++ t1) (u2 ++ t2) = ckLt c (u1 ++ t1) (u2 ++ t2) := by
  rcases h with h | h
  · subst h; exact raw_eq_ck_same hc.1 u1 t1 t2 h1 h2
  · exact raw_eq_ck_diverge hc.1 t1 t2 h1 h2 h

/-! ### the ART refines the reference map (good radix key) -/

/-- the ART index after a write history (newest first), as `sklBuild` -/
def artBuild (c : IdxCfg) : List Entry → ArtIdx
  | [] => {}
  | (k, v) :: older => (artBuild c older).add c k v

theorem artBuild_inv (c : IdxCfg) (hc : c.ArtGood) (ws : List Entry) (h8 : ∀ w ∈ ws, 8 ≤ w.1.length)
    (hlen : ∀ w ∈ ws, c.keyLenBits = 0 ∨ w.1.length < 2 ^ c.keyLenBits) :
    ArtInv c (artBuild c ws) ∧ (artBuild c ws).leaves = build (ckLt c) ws := by
  induction ws with
  | nil => exact ⟨by simp [artBuild, ArtInv], by simp [artBuild, ArtIdx.leaves, build]⟩
  | cons w older ih =>
    obtain ⟨k, v⟩ := w
    obtain ⟨hi, hl⟩ := ih (fun w hw => h8 w (by simp [hw])) (fun w hw => hlen w (by simp [hw]))
    have hk8 : 8 ≤ k.length := h8 (k, v) (by simp)
    have hst := stored_of_short c (hlen (k, v) (by simp))
    obtain ⟨hi', hl'⟩ := add_spec hc hi k v hk8 hst
    exact ⟨hi', by simp only [artBuild, build]; rw [hl', hl]⟩

/-- **The ART is the same ordered map as the reference (and hence as the skiplist).**
For EVERY sequence of inserts of well-formed internal keys (arbitrary bytes and lengths,
byte-prefix-related user keys, equal user keys with many versions, re-inserts of the same key)
into the ART model with the order-preserving prefix-free radix key, full iteration forward and
reverse, `Search`, and `Seek` + `Next…` in both directions equal those of the `CompareKeys`-sorted
association list.  Proof: invariant `WF` on the tree (path-compressed prefixes spelled by every
radix key below, children ordered by byte for all node kinds 4/16/48/256, every leaf under the
path spelled by its radix key, radix-key order = `CompareKeys` order) with one preservation case
per insert path (`artIns_spec`: equal key / leaf split / prefix split / new child with growth /
descent), `artLB_spec` / `artUB_spec` / `artLocate_spec` by recursion on the tree.

Hypotheses: keys have at least 8 bytes (an internal key always carries the 8-byte version suffix;
the real `CompareKeys` panics on shorter keys) and fit the stored length field (as for the
skiplist; see finding idx-keylen-u16 for the excluded point).  Concurrency is outside this
theorem (finding art-concurrent-lost-insert). -/
theorem C07_art_refines (c : IdxCfg) (hc : c.ArtGood) (ws : List Entry) (h8 : ∀ w ∈ ws, 8 ≤ w.1.length)
    (hlen : ∀ w ∈ ws, c.keyLenBits = 0 ∨ w.1.length < 2 ^ c.keyLenBits) :
    (artBuild c ws).scan true = build (ckLt c) ws ∧
    (artBuild c ws).scan false = (build (ckLt c) ws).reverse ∧
    (∀ key, 8 ≤ key.length →
      (artBuild c ws).search c key = searchRef (ckLt c) key (build (ckLt c) ws)) ∧
    (∀ key, 8 ≤ key.length →
      (artBuild c ws).seek c true key = seekGE (ckLt c) key (build (ckLt c) ws)) ∧
    (∀ key, 8 ≤ key.length →
      (artBuild c ws).seek c false key = seekLE (ckLt c) key (build (ckLt c) ws)) := by
  obtain ⟨hi, hl⟩ := artBuild_inv c hc ws h8 hlen
  refine ⟨by simp [ArtIdx.scan, hl], by simp [ArtIdx.scan, hl], ?_, ?_, ?_⟩
  · intro key hk; rw [search_spec hc hi key hk, hl]
  · intro key hk; rw [(seek_spec hc hi key hk).1, hl]
  · intro key hk; rw [(seek_spec hc hi key hk).2, hl]

/-- Both engines are the same ordered map: after the same write history the skiplist model and
the ART model hold the same sorted content and answer every `Search` and every ascending `Seek`
identically (descending skiplist iteration is not part of `C07_skiplist_refines`). -/
theorem C07_engines_agree (c : IdxCfg) (hc : c.ArtGood ∧ c.SklGood) (ws : List Entry)
    (h8 : ∀ w ∈ ws, 8 ≤ w.1.length) (hlen : ∀ w ∈ ws, c.keyLenBits = 0 ∨ w.1.length < 2 ^ c.keyLenBits) :
    (artBuild c ws).scan true = sklBuild c ws ∧
    (∀ key, 8 ≤ key.length → (artBuild c ws).search c key = sklSearch c key (sklBuild c ws)) ∧
    (∀ key, 8 ≤ key.length → (artBuild c ws).seek c true key = sklSeekAsc c key (sklBuild c ws)) := by
  obtain ⟨a1, _, a3, a4, _⟩ := C07_art_refines c hc.1 ws h8 hlen
  obtain ⟨s1, s2, s3⟩ := C07_skiplist_refines c hc.2 ws hlen
  refine ⟨by rw [a1, s1], ?_, ?_⟩
  · intro key hk; rw [a3 key hk, s2 key]
  · intro key hk; rw [a4 key hk, s3 key]

/-- non-vacuity: prefix-related user keys `a`, `ab`, `a·00`, `a·ff` and several versions; the ART
with the good radix key iterates them in `CompareKeys` order and `Seek(a@0)` lands on `a·00` -/
example :
    let g := IdxCfg.good
    let ws : List Entry := [(mkKey g [97, 255] 511, [5]), (mkKey g [97, 98] 1, [4]), (mkKey g [97] 1, [3]),
      (mkKey g [97, 0] 7, [2]), (mkKey g [97] 2, [1])]
    ((artBuild g ws).scan true).map (·.2) = [[1], [3], [2], [4], [5]] ∧
    ((artBuild g ws).seek g true (mkKey g [97] 0)).map (·.2) = [[2], [4], [5]] ∧
    (artBuild g ws).search g (mkKey g [97] 1) = some [3] := by decide

/-- the root is a byte-indexed node (Node48/256) with `n` children -/
def rootIsBigWith (t : ArtIdx) (n : Nat) : Bool :=
  match t.root with
  | some (.inner true _ kids) => kids.length == n
  | _ => false

/-- non-vacuity: node growth — 18 sibling bytes below one prefix turn the Node4/16 into a
Node48/256 (`big = true`) and the iteration stays sorted -/
example :
    let g := IdxCfg.good
    let ws : List Entry := (List.range 18).map (fun i => (mkKey g [97, 18 - i] 1, [18 - i]))
    rootIsBigWith (artBuild g ws) 18 = true ∧
    ((artBuild g ws).scan true).map (·.2) = (List.range 18).map (fun i => [i + 1]) := by decide

/-! ### as-is: negations on the witnesses of the open findings -/

/-- the as-is ART configuration with either value of the facts the ART order does not depend on -/
def ArtAsIs (c : IdxCfg) : Prop :=
  c.ArtRaw ∧ (c.keyLenBits = 0 ∨ c.keyLenBits = 16)
instance decArtAsIs (c : IdxCfg) : Decidable (ArtAsIs c) := by unfold ArtAsIs; exact inferInstance

/-- the ART after a write history given oldest first as (user key, version, value) -/
def artOf (c : IdxCfg) (ws : List (Bytes × Nat × Bytes)) : ArtIdx :=
  ws.foldl (fun t w => t.add c (mkKey c w.1 w.2.1) w.2.2) {}

/-- witness corpus/C07/finding-art-prefix-order.ops: `a`@1 and `ab`@1.  The ART iterates `ab`
before `a` although `CompareKeys` puts `a` first, and an ascending seek to `a`@0 (which must
land on `ab`@1) finds nothing. -/
theorem C07_fails_asis_art_prefix (c : IdxCfg) (hc : ArtAsIs c) :
    let t := artOf c [([97], 1, [1]), ([97, 98], 1, [2])]
    ¬ (t.scan true = build (ckLt c) [(mkKey c [97, 98] 1, [2]), (mkKey c [97] 1, [1])]) ∧
    ¬ (t.seek c true (mkKey c [97] 0) = seekGE (ckLt c) (mkKey c [97] 0)
          (build (ckLt c) [(mkKey c [97, 98] 1, [2]), (mkKey c [97] 1, [1])])) := by
  obtain ⟨a, b, s, lb, ub, rk, pad, bits, pr⟩ := c
  obtain ⟨⟨h1, h2, h3, h4, h5, h6⟩, h7⟩ := hc
  simp only at h1 h2 h3 h4 h5 h6 h7
  subst h1 h2 h3 h4 h5 h6
  rcases h7 with h7 | h7 <;> subst h7 <;> cases s <;> cases pr <;> decide

/-- witness corpus/C07/finding-art-pad-conflate.ops: `a·ff`@511 then `a`@1.  Their raw keys are
`61 ff×7 fe 00` and `61 ff×7 fe`: equal under `keyByte`'s zero padding.  The second insert is
stored under the same child byte and `Search(a@1)` misses it. -/
theorem C07_fails_asis_art_conflate (c : IdxCfg) (hc : ArtAsIs c) :
    let t := artOf c [([97, 255], 511, [1]), ([97], 1, [2])]
    t.search c (mkKey c [97] 1) = none ∧
    searchRef (ckLt c) (mkKey c [97] 1) (build (ckLt c) [(mkKey c [97] 1, [2]), (mkKey c [97, 255] 511, [1])]) = some [2] := by
  obtain ⟨a, b, s, lb, ub, rk, pad, bits, pr⟩ := c
  obtain ⟨⟨h1, h2, h3, h4, h5, h6⟩, h7⟩ := hc
  simp only at h1 h2 h3 h4 h5 h6 h7
  subst h1 h2 h3 h4 h5 h6
  rcases h7 with h7 | h7 <;> subst h7 <;> cases s <;> cases pr <;> decide

/-- `keySize = uint16(len(key))`: after writing any key of 65536 bytes or more, the *truncated*
key — which was never written — reads the value (skiplist model; the ART stores the leaf key
the same way).  Witness corpus/C07/finding-keylen-u16.ops. -/
theorem C07_fails_asis_keylen_u16 (c : IdxCfg) (hc : c.Trunc16) (k v : Bytes) (hk : 65536 ≤ k.length) :
    stored c k ≠ k ∧ sklSearch c (stored c k) (sklAdd c k v []) = some v := by
  obtain ⟨hs, hb, hbits⟩ := hc
  constructor
  · intro e
    have := congrArg List.length e
    simp only [stored, hbits] at this
    simp at this
    have hm : k.length % 65536 < 65536 := Nat.mod_lt _ (by decide)
    omega
  · have hirr : sklLt c (stored c k) (stored c k) = false := by
      simp [sklLt, hs, ckLt_irrefl hb]
    simp [sklAdd, sklSearch, sklFindNear, hirr, sameKey]

/-- Concurrent inserts (small-step abstraction `ArtConc`): one thread replaces a child of inner
node `P` by CAS on `P`'s payload while another replaces `P` itself by a grown copy.  With the
as-is `replaceChild` (no re-validation that `P` is still reachable) there is a schedule after
which both inserts returned and one key is not in the tree. -/
theorem C07_fails_asis_art_concurrent (c : IdxCfg) (hc : c.artParentRevalidated = false) :
    ∃ sched, (runSched ⟨c.artParentRevalidated⟩ sched initConc).bothDone = true ∧
      reachableKeys (runSched ⟨c.artParentRevalidated⟩ sched initConc) ≠ [1, 2, 3] := by
  refine ⟨[.b, .b, .a, .a, .a, .b], ?_⟩
  rw [hc]
  decide

set_option maxRecDepth 100000 in
/-- with re-validation every schedule (of the enumerated length) of the two inserts that lets
both finish ends with all keys reachable — a sanity check of the flag's good value, enumerated,
not a headline -/
theorem C07_art_concurrent_good (c : IdxCfg) (hc : c.artParentRevalidated = true) :
    ∀ sched ∈ allScheds, (runSched ⟨c.artParentRevalidated⟩ sched initConc).bothDone = true →
      reachableKeys (runSched ⟨c.artParentRevalidated⟩ sched initConc) = [1, 2, 3] := by
  rw [hc]
  decide

end NoKV.Props.C07

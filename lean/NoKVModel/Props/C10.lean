/-
C10  Recovery after any process crash yields a prefix-consistent, readable state.

Model: `NoKVModel/Disk/Model.lean` (E-Disk); histories, crash points and `recover` as in C09
(with or without SyncWrites).  The full statement has three parts:
  (a) the recovered contents are a prefix, in acceptance order, of what was written;
  (b) the prefix ends at a batch boundary (no transaction partially applied);
  (c) every recovered value-log pointer resolves.
(a) holds for the tree as it is (`C10_prefix_partial`: prefix of the accepted *entries*);
(b) and (c) are violated by the tree as it is (three open findings, negations below) and hold for
the repaired step orders (`C10_prefix`, `C10_no_dangling`).
-/
import NoKVModel.Disk.BatchLemmas

namespace NoKV.Props.C10
open NoKV NoKV.Disk

def s0 (sync : Bool) : St := { sync := sync }

/-- every recovered record's value can be produced -/
def noDangling (c : Cfg) (s : St) : Bool := (written (recover c s)).all (readable c s)

/-- **(a) Prefix of the accepted entries** — for the tree as it is and every configuration that
flushes in the order SST, manifest, WAL removal: whatever the crash point, with or without
SyncWrites, the reopened database holds, in order, a prefix of the records written; nothing that
was never written appears and no record is dropped from the middle.
Missing for the full property (hence `_partial`): the prefix may end inside a batch — see
`C10_fails_asis_split`, `C10_fails_asis_walbuffer` — and a pointer may dangle — `C10_fails_asis_dangling`. -/
theorem C10_prefix_partial (c : Cfg) (hc : c.flushOrder = .sstManifestRemove) (sync : Bool)
    (s : St) (h : CrashState c (s0 sync) s) :
    written (recover c s) <+: written s := by
  have hI : SegsOK s.segs := by
    refine crashState_inv c (fun s => SegsOK s.segs) SegPre ?_ ?_ ?_ (s0 sync) s ?_ h
    · intro s st hi hp; exact segsOK_step s st hi hp
    · intro s op _; exact opSteps_goodSeg c hc s op
    · intro s _; exact segsOK_recover c s
    · exact ⟨rfl, rfl, Nat.le_refl _⟩
  rw [written_recover, recLog_eq s hI]
  exact List.take_prefix _ _

/-- **(a)+(b) Prefix of the accepted batches** — for the repaired write path (`SetBatch` keeps a
batch in one memtable, `AppendRecords` hands a batch to the WAL file in one piece; the order of
`updateHead` does not matter here): whatever the crash point, with or without SyncWrites, after any
history including earlier crashes, the reopened database holds a prefix of the written records
that ends with the last record of a batch (`Rec.fin`, set by the commit on the last entry of its
batch — `lsmSteps`): every transaction is applied entirely or not at all, in acceptance order. -/
theorem C10_prefix (c : Cfg)
    (hc : c.batchWhole = true ∧ c.atomicAppend = true ∧ c.flushOrder = .sstManifestRemove) (sync : Bool)
    (s : St) (h : CrashState c (s0 sync) s) :
    written (recover c s) <+: written s ∧ endsAtBatch (written (recover c s)) = true := by
  obtain ⟨hb, ha, hf⟩ := hc
  have hI : SegsOK s.segs ∧ BInv s := by
    refine crashState_inv2 c (fun s => SegsOK s.segs ∧ BInv s) Bdry (fun s st => SegPre s st ∧ BPre s st)
      ?_ ?_ ?_ (s0 sync) s ?_ h
    · intro s st hi hp
      exact ⟨segsOK_step s st hi.1 hp.1, bInv_step s st hi.1 hi.2 hp.2⟩
    · intro s op hi hbd
      obtain ⟨g, b⟩ := opSteps_goodB c hb ha s hi.1 hbd op
      exact ⟨goodRun_and _ _ _ _ (opSteps_goodSeg c hf s op) g, b⟩
    · intro s hi
      obtain ⟨b1, b2⟩ := bInv_recover c s hi.1 hi.2
      exact ⟨⟨segsOK_recover c s, b1⟩, b2⟩
    · exact ⟨⟨⟨rfl, rfl, Nat.le_refl _⟩, rfl⟩, rfl⟩
  obtain ⟨hok, hbi⟩ := hI
  rw [written_recover, recLog_eq s hok]
  exact ⟨List.take_prefix _ _, hbi⟩

/-- the marker `C10_prefix` speaks about: for every configuration and all decisions, the LSM phase
of a commit appends the batch's entries in order and sets `fin` on exactly the last one -/
theorem C10_fin_marks_batch_end (c : Cfg) (_hc : True) (es : List (Ent × Dec)) :
    appendsOf (lsmSteps c true es) = markLast (es.map (·.1)) := lsmSteps_marks c es true

/-! ### the three defects of the tree as it is (witnesses replayed on the implementation:
`corpus/C10/finding-*.ops`) -/

/-- the C10-relevant decisions of `c` on top of the otherwise good configuration -/
def withC10 (c : Cfg) : Cfg :=
  { Cfg.good with headFirst := c.headFirst, batchWhole := c.batchWhole, atomicAppend := c.atomicAppend }

/-- SyncWrites on; a two-entry batch whose second entry needs a memtable rotation; killed right
after the new WAL segment was opened (the rotation has flushed and synced the old one) -/
def splitState (c : Cfg) : St :=
  let steps := commitSteps c (s0 true) 1 [(⟨1, false, 0⟩, {}), (⟨2, false, 0⟩, { mrot := true })] false
  execAll (s0 true) (steps.take 6)   -- accept, wAppend, write:wal, sync:wal, close:wal, open:wal

/-- `lsm.batchSplit = split`: `SetBatch` cuts a batch at a memtable rotation; the segment switch
makes the first part durable; recovery serves half a transaction. -/
theorem C10_fails_asis_split (c : Cfg) (hc : c.batchWhole = false) :
    endsAtBatch (written (recover (withC10 c) (splitState (withC10 c)))) = false := by
  unfold withC10
  rw [hc]
  generalize c.headFirst = a
  generalize c.atomicAppend = b
  cases a <;> cases b <;> decide

/-- SyncWrites off; a two-entry batch during whose second append the WAL's bufio buffer spills
(`pre := 1`); the call returns; killed between two calls -/
def walbufferState (c : Cfg) : St :=
  run c (s0 false) [.commit 1 [(⟨1, false, 0⟩, {}), (⟨2, false, 0⟩, { pre := 1 })] false]

/-- `wal.batchAppend = perRecord`: the records of a batch go through the 256 KiB bufio buffer one
`Write` at a time; a spill in the middle of a batch makes a proper prefix of it durable. -/
theorem C10_fails_asis_walbuffer (c : Cfg) (hc : c.atomicAppend = false) :
    endsAtBatch (written (recover (withC10 c) (walbufferState (withC10 c)))) = false := by
  unfold withC10
  rw [hc]
  generalize c.headFirst = a
  generalize c.batchWhole = b
  cases a <;> cases b <;> decide

/-- a first batch with a value-log value (logs the head of file 0), then a two-entry batch whose
first value rotates the value log to file 1 and whose second entry rotates the memtable: the WAL
record pointing into file 1 is durable, the manifest still says file 0; killed there -/
def danglingState (c : Cfg) : St :=
  let s1 := run c (s0 true) [.commit 1 [(⟨1, true, 0⟩, {})] false]
  let steps := commitSteps c s1 2 [(⟨2, true, 0⟩, { vrot := true }), (⟨3, true, 0⟩, { mrot := true })] false
  execAll s1 (steps.take 12)

/-- `db.applyOrder = lsm,head` (with a mid-batch flush available): `reconcileManifest` removes the
value-log file the recovered WAL record points into. -/
theorem C10_fails_asis_dangling (c : Cfg) (hc : c.headFirst = false ∧ c.batchWhole = false) :
    noDangling (withC10 c) (danglingState (withC10 c)) = false := by
  unfold withC10
  rw [hc.1, hc.2]
  generalize c.atomicAppend = b
  cases b <;> decide

/-! ### non-vacuity -/

/-- the repaired configuration on the same three scenarios: whole batches, readable -/
example : endsAtBatch (written (recover Cfg.good (splitState Cfg.good))) = true := by decide
example : endsAtBatch (written (recover Cfg.good (walbufferState Cfg.good))) = true := by decide
example : noDangling Cfg.good (danglingState Cfg.good) = true := by decide
example : (written (recover Cfg.asis (danglingState Cfg.asis))).length = 2 := by decide

end NoKV.Props.C10

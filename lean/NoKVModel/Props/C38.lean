/-
C38  Topology validation accepts exactly the well-formed configurations.
-/
import NoKVModel.Region.Topology

set_option linter.unusedSimpArgs false
namespace NoKV.Props.C38
open NoKV NoKV.Region

/-- the eight clause flags, as separate hypotheses (keeps `c` opaque in the proofs) -/
structure Flags (c : TopoCfg) : Prop where
  t : c.chkTempl = true
  d : c.chkDockerTempl = true
  sz : c.chkStoreZero = true
  sd : c.chkStoreDup = true
  rz : c.chkRegionZero = true
  lk : c.chkLeaderKnown = true
  pz : c.chkPeerZero = true
  pk : c.chkPeerKnown = true

theorem flags_of_good (c : TopoCfg) (hc : c.Good) : Flags c := by
  unfold TopoCfg.Good at hc; subst hc; exact ⟨rfl, rfl, rfl, rfl, rfl, rfl, rfl, rfl⟩

theorem chkStores_ok (c : TopoCfg) (f : Flags c) (seen l : List Nat) :
    (∃ seen', chkStores c seen l = (.ok, seen')) ↔
      ((∀ s ∈ l, s ≠ 0) ∧ l.Nodup ∧ ∀ s ∈ l, s ∉ seen) := by
  induction l generalizing seen with
  | nil => simp [chkStores]
  | cons x xs ih =>
    unfold chkStores
    by_cases h0 : x = 0
    · simp [f.sz, f.sd, f.rz, f.lk, f.pz, f.pk, h0]
    by_cases h1 : x ∈ seen
    · simp [f.sz, f.sd, f.rz, f.lk, f.pz, f.pk, h0, h1]
    · simp only [f.sz, f.sd, f.rz, f.lk, f.pz, f.pk, true_and, h0, h1, if_false]
      rw [ih (x :: seen)]
      simp only [List.mem_cons, List.nodup_cons, forall_eq_or_imp, not_or]
      constructor
      · rintro ⟨a, b, c⟩
        refine ⟨⟨h0, a⟩, ⟨fun hx => (c x hx).1 rfl, b⟩, h1, fun s hs => (c s hs).2⟩
      · rintro ⟨⟨_, a⟩, ⟨hn, b⟩, _, c⟩
        refine ⟨a, b, fun s hs => ⟨fun e => hn (e ▸ hs), c s hs⟩⟩

theorem chkStores_seen (c : TopoCfg) (f : Flags c) (seen l : List Nat) (seen' : List Nat)
    (h : chkStores c seen l = (.ok, seen')) : ∀ x, x ∈ seen' ↔ (x ∈ l ∨ x ∈ seen) := by
  induction l generalizing seen with
  | nil => simp [chkStores] at h; subst h; simp
  | cons y ys ih =>
    unfold chkStores at h
    by_cases h0 : y = 0
    · simp [f.sz, f.sd, f.rz, f.lk, f.pz, f.pk, h0] at h
    by_cases h1 : y ∈ seen
    · simp [f.sz, f.sd, f.rz, f.lk, f.pz, f.pk, h0, h1] at h
    · simp only [f.sz, f.sd, f.rz, f.lk, f.pz, f.pk, true_and, h0, h1, if_false] at h
      intro x
      rw [ih (y :: seen) h x]
      simp only [List.mem_cons]
      constructor
      · rintro (a | a | a)
        · exact Or.inl (Or.inr a)
        · exact Or.inl (Or.inl a)
        · exact Or.inr a
      · rintro ((a | a) | a)
        · exact Or.inr (Or.inl a)
        · exact Or.inl a
        · exact Or.inr (Or.inr a)

theorem chkStores_err (c : TopoCfg) (f : Flags c) (seen l : List Nat) :
    (chkStores c seen l).1 = .ok ∨ (chkStores c seen l).1 = .storeZero ∨
    (chkStores c seen l).1 = .storeDup := by
  induction l generalizing seen with
  | nil => simp [chkStores]
  | cons x xs ih =>
    unfold chkStores
    by_cases h0 : x = 0
    · simp [f.sz, f.sd, f.rz, f.lk, f.pz, f.pk, h0]
    by_cases h1 : x ∈ seen
    · simp [f.sz, f.sd, f.rz, f.lk, f.pz, f.pk, h0, h1]
    · simp only [f.sz, f.sd, f.rz, f.lk, f.pz, f.pk, true_and, h0, h1, if_false]; exact ih _

theorem chkPeers_ok (c : TopoCfg) (f : Flags c) (known : List Nat) (ps : List TPeer) :
    chkPeers c known ps = .ok ↔ ∀ p ∈ ps, p.store ≠ 0 ∧ p.peer ≠ 0 ∧ p.store ∈ known := by
  induction ps with
  | nil => simp [chkPeers]
  | cons p rest ih =>
    unfold chkPeers
    simp only [List.mem_cons, forall_eq_or_imp, f.pz, f.pk, true_and]
    by_cases h0 : p.store = 0 ∨ p.peer = 0
    · rw [if_pos h0]
      constructor
      · intro h; cases h
      · rintro ⟨⟨a, b, _⟩, _⟩; rcases h0 with h0 | h0 <;> contradiction
    rw [if_neg h0]
    by_cases h1 : p.store ∈ known
    · rw [if_neg (by simpa using h1), ih]
      simp only [not_or] at h0
      exact ⟨fun h => ⟨⟨h0.1, h0.2, h1⟩, h⟩, fun h => h.2⟩
    · rw [if_pos h1]
      constructor
      · intro h; cases h
      · rintro ⟨⟨_, _, c⟩, _⟩; contradiction

theorem chkRegions_ok (c : TopoCfg) (f : Flags c) (known : List Nat) (rs : List TRegion) :
    chkRegions c known rs = .ok ↔
      ∀ r ∈ rs, r.id ≠ 0 ∧ (r.leader ≠ 0 → r.leader ∈ known) ∧
        ∀ p ∈ r.peers, p.store ≠ 0 ∧ p.peer ≠ 0 ∧ p.store ∈ known := by
  induction rs with
  | nil => simp [chkRegions]
  | cons r rest ih =>
    unfold chkRegions
    simp only [List.mem_cons, forall_eq_or_imp, f.rz, f.lk, true_and]
    by_cases h0 : r.id = 0
    · rw [if_pos h0]
      constructor
      · intro h; cases h
      · rintro ⟨⟨a, _⟩, _⟩; contradiction
    rw [if_neg h0]
    by_cases h1 : r.leader ≠ 0 ∧ r.leader ∉ known
    · rw [if_pos h1]
      constructor
      · intro h; cases h
      · rintro ⟨⟨_, b, _⟩, _⟩; exact absurd (b h1.1) h1.2
    · rw [if_neg h1]
      have h1' : r.leader ≠ 0 → r.leader ∈ known := by
        intro hne
        apply Classical.byContradiction
        intro hn; exact h1 ⟨hne, hn⟩
      by_cases hp : chkPeers c known r.peers = .ok
      · rw [if_pos hp, ih]
        have := (chkPeers_ok c f known r.peers).mp hp
        exact ⟨fun h => ⟨⟨h0, h1', this⟩, h⟩, fun h => h.2⟩
      · rw [if_neg hp]
        constructor
        · intro h; exact absurd h hp
        · rintro ⟨⟨_, _, z⟩, _⟩
          exact absurd ((chkPeers_ok c f known r.peers).mpr z) hp

/-- **Validation accepts exactly the well-formed topologies.** -/
theorem C38_iff (c : TopoCfg) (hc : c.Good) (t : Topo) :
    validateTopo c t = .ok ↔ wellFormed t := by
  have f := flags_of_good c hc
  unfold validateTopo wellFormed
  simp only [f.t, f.d, true_and]
  by_cases h1 : templBad t.templ = true
  · rw [if_pos h1]; simp [h1]
  rw [if_neg h1]
  by_cases h2 : templBad t.dockerTempl = true
  · rw [if_pos h2]; simp [h2]
  rw [if_neg h2]
  simp only [Bool.not_eq_true] at h1 h2
  simp only [h1, h2, true_and]
  have hsok := chkStores_ok c f [] t.stores
  by_cases he : (chkStores c [] t.stores).1 = .ok
  · rw [if_pos he]
    have hs : chkStores c [] t.stores = (.ok, (chkStores c [] t.stores).2) := by
      rw [← he]
    obtain ⟨a, b, _⟩ := hsok.mp ⟨_, hs⟩
    have hmem := chkStores_seen c f [] t.stores _ hs
    rw [chkRegions_ok c f]
    have hiff : ∀ x, x ∈ (chkStores c [] t.stores).2 ↔ x ∈ t.stores := by intro x; rw [hmem x]; simp
    constructor
    · intro h
      refine ⟨a, b, ?_⟩
      intro r hr
      obtain ⟨x, y, z⟩ := h r hr
      exact ⟨x, fun hne => (hiff _).mp (y hne), fun p hp => ⟨(z p hp).1, (z p hp).2.1, (hiff _).mp (z p hp).2.2⟩⟩
    · rintro ⟨_, _, h⟩ r hr
      obtain ⟨x, y, z⟩ := h r hr
      exact ⟨x, fun hne => (hiff _).mpr (y hne), fun p hp => ⟨(z p hp).1, (z p hp).2.1, (hiff _).mpr (z p hp).2.2⟩⟩
  · rw [if_neg he]
    constructor
    · intro h; exact absurd h he
    · rintro ⟨a, b, _⟩
      obtain ⟨s', hs'⟩ := hsok.mpr ⟨a, b, by simp⟩
      exact absurd (congrArg Prod.fst hs') he

/-- Every rejection names a clause that is really violated (error classes are sound). -/
theorem C38_reject_sound (c : TopoCfg) (hc : c.Good) (t : Topo) :
    validateTopo c t ≠ .ok → ¬ wellFormed t := by
  intro h hw; exact h ((C38_iff c hc t).mpr hw)

example : TopoCfg.good.Good := by decide
example : wellFormed ⟨[0x2f, 0x7b, 0x69, 0x64, 0x7d], [32, 32], [1, 2, 3],
    [⟨1, 2, [⟨1, 10⟩, ⟨2, 11⟩]⟩, ⟨2, 0, []⟩]⟩ := by decide
example : validateTopo TopoCfg.good ⟨[], [], [1, 2, 1], []⟩ = .storeDup := by decide
example : validateTopo TopoCfg.good ⟨[0x61], [], [1], []⟩ = .templ := by decide

end NoKV.Props.C38

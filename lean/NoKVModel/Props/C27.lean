/-
C27  PD timestamps and IDs are unique and increasing across restarts.

Model: NoKVModel/Conc/PDAlloc.lean (micro-steps of AllocID / Tso / persistAllocatorState /
SaveAllocatorState / restart through ResolveAllocatorStarts).  All theorems quantify over every
reachable state of every schedule: any number of concurrent requests of either kind and any
counts, interleaved at the granularity of single atomic operations, with restarts (process
crashes) at any point, and checkpoint writes that fail (`failSave`: the request then answers with an
error and hands nothing out) — so uniqueness and coverage hold across failed persists with
concurrent reservations.  "Handed out" = replied to a client.  The ghost flag `ovf` records that a
counter has reached MaxUint64 (2^64-1 values consumed: the allocator is exhausted and the Go
`atomic.Add` wraps); the statements are about executions in which that has not happened.

Only property theorems live here; the invariants are in Conc/PDAllocLemmas.lean and
Conc/PDAllocSteps.lean.
-/
import NoKVModel.Conc.PDAllocSteps

namespace NoKV.Props.C27
open NoKV.Conc NoKV.Conc.PD

/-- **Unique and increasing.**  In every reachable state the ranges replied so far (over all
restarts) are pairwise disjoint — no timestamp / ID is handed out twice — and every `Reserve`
step hands out a range that starts exactly one above the counter and lies strictly above every
value already replied and every value reserved by a request still in flight (allocation order =
value order). -/
theorem C27_unique_increasing (c : AllocCfg) (hc : c.Good) (s : St) (hr : Reachable (sys c) s)
    (hov : s.ovf = false) :
    s.replied.Pairwise Disj ∧
    (∀ tid t s', s.thr tid = some t → t.pc = .reserve → step c s (.run tid) = some s' →
      s'.ovf = false →
      ∃ t', s'.thr tid = some t' ∧ t'.first = s.ctr t.kind + 1 ∧ t'.last = s.ctr t.kind + t.n ∧
        t'.first ≤ t'.last ∧
        (∀ r ∈ s.replied, r.kind = t.kind → r.last < t'.first) ∧
        (∀ u tu, s.thr u = some tu → tu.reserved = true → tu.kind = t.kind → tu.last < t'.first)) := by
  obtain ⟨hb, _⟩ := Inv.reachable hc s hr hov
  refine ⟨hb.repDisj, ?_⟩
  intro tid t s' ht hpc hs hov'
  simp only [step, ht, stepThr, hpc] at hs
  cases hs
  simp only [Bool.or_eq_false_iff, decide_eq_false_iff_not, Nat.not_le] at hov'
  have hn := hb.nOk tid t ht
  obtain ⟨e1, e2⟩ := reserve_arith (s.ctr t.kind) t.n hn hov'.2
  refine ⟨{ t with pc := next c .reserve, first := ((s.ctr t.kind + t.n) % W + W - t.n + 1) % W, last := (s.ctr t.kind + t.n) % W, reserved := true }, by simp, e2, e1, ?_, ?_, ?_⟩
  · show ((s.ctr t.kind + t.n) % W + W - t.n + 1) % W ≤ (s.ctr t.kind + t.n) % W
    rw [e2, e1]; omega
  · intro r hrm hk
    show r.last < ((s.ctr t.kind + t.n) % W + W - t.n + 1) % W
    rw [e2]
    have := hb.repLe r hrm
    rw [hk] at this
    omega
  · intro u tu hu hres hk
    show tu.last < ((s.ctr t.kind + t.n) % W + W - t.n + 1) % W
    rw [e2]
    have := hb.thrLe u tu hu hres
    rw [hk] at this
    omega

/-- **The checkpoint covers every replied value**, in every reachable state; hence a restart
from the persisted state taken at *any* point resumes strictly above everything handed out:
the counter after `restart` is at or above every replied value, and the next `Reserve` returns
counter+1. -/
theorem C27_checkpoint_covers (c : AllocCfg) (hc : c.Good) (s : St) (hr : Reachable (sys c) s)
    (hov : s.ovf = false) :
    (∀ k, s.ck k ≤ s.ctr k) ∧
    (∀ r ∈ s.replied, r.last ≤ s.ck r.kind) ∧
    (∀ r ∈ s.replied, r.last ≤ (restartSt c s).ctr r.kind) := by
  obtain ⟨hb, hcv⟩ := Inv.reachable hc s hr hov
  refine ⟨hcv.ckLe, hcv.repCk, ?_⟩
  intro r hrm
  have hck : s.ck r.kind < MAXU := Nat.lt_of_le_of_lt (hcv.ckLe _) (hb.ctrLt _)
  have := restart_ctr c hc.2.2.1 (s.start r.kind) (s.ck r.kind) (hb.startLt _) hck
  exact Nat.le_trans (hcv.repCk r hrm) this.1

/-- **Partial (any configuration, as-is included).**  Between restarts the atomic `Add` alone
keeps replies unique: on every execution without a `restart` action the replied ranges are
pairwise disjoint.  What the as-is code loses is only the guarantee across a restart. -/
theorem C27_partial (c : AllocCfg) (hc : c.releasesOnError = false) (s : St)
    (hr : ReachableVia (sys c) (fun a => a ≠ .restart) s) (hov : s.ovf = false) :
    s.replied.Pairwise Disj := by
  have : s.ovf = false → Base c s := by
    refine ReachableVia.invariant (S := sys c) (ok := fun a => a ≠ .restart)
      (fun s => s.ovf = false → Base c s) ?_ ?_ s hr
    · rintro s ⟨start, hst, rfl⟩ _
      exact Base.init c start hst
    · intro s a s' hi ha hs hov'
      exact Base.step_noRestart hc (hi (ovf_mono c s s' a hs hov')) ha hs hov'
  exact (this hov).repDisj

/-- **`ResolveAllocatorStarts` arithmetic.**  For a checkpoint below MaxUint64 the resolved start
is strictly above the checkpoint, not below the configured start, and is one of the two; at
MaxUint64 the increment saturates (every uint64 value has been consumed — nothing fresh exists). -/
theorem C27_resolve (c : AllocCfg) (hc : c.resolveBumps = true) (start ck : Nat) :
    (ck < MAXU → ck < resolve c start ck ∧ start ≤ resolve c start ck ∧
      (resolve c start ck = start ∨ resolve c start ck = ck + 1) ∧
      ck ≤ newCounter (resolve c start ck)) ∧
    (ck = MAXU → start ≤ MAXU → resolve c start ck = MAXU) := by
  unfold resolve newCounter
  simp only [hc, if_true]
  constructor
  · intro h
    simp only [h, if_true]
    split <;> (try split) <;> omega
  · intro h hs
    subst h
    simp only [Nat.lt_irrefl, if_false]
    split <;> omega

/-! ### as-is: the two `Current()` loads and the save are not serialized
(finding `pd-checkpoint-reorder`) -/

/-- Request 0 reserves ids 1..10 and loads the counters; request 1 reserves 11..20, saves the
checkpoint 20 and replies; request 0 then saves its stale 10 and replies; the process restarts
from checkpoint 10; request 2 is handed id 11 again. -/
def witness : List Act :=
  [ .spawn 0 .id 10, .spawn 1 .id 10,
    .run 0, .run 0, .run 0,                 -- reserve 1..10, load id=10, load ts=0
    .run 1, .run 1, .run 1, .run 1, .run 1, -- reserve 11..20, load, load, save 20, reply
    .run 0, .run 0,                         -- save 10 (checkpoint goes backwards), reply
    .restart,
    .spawn 2 .id 1, .run 2, .run 2, .run 2, .run 2, .run 2 ]

theorem C27_fails_asis_reorder (c : AllocCfg)
    (hc : c = { AllocCfg.good with persistSerialized := false }) :
    ∃ s, Reachable (sys c) s ∧ s.ovf = false ∧ ¬ s.replied.Pairwise Disj ∧
      ∃ r ∈ s.replied, ∃ r' ∈ s.replied, r ≠ r' ∧ r.kind = r'.kind ∧ r.first = r'.first := by
  subst hc
  let c0 : AllocCfg := { AllocCfg.good with persistSerialized := false }
  have hinit : Reachable (sys c0) (initSt c0 (fun _ => 1)) :=
    .init ⟨fun _ => 1, by intro k; show 1 < MAXU; decide, rfl⟩
  refine ⟨run (sys c0) (initSt c0 (fun _ => 1)) witness, run_reachable _ _ hinit _, by decide, ?_, ?_⟩
  · intro h
    have := hasDup_false_of_pairwise _ h
    revert this
    decide
  · refine ⟨⟨.id, 11, 11⟩, by decide, ⟨.id, 11, 20⟩, by decide, by decide, rfl, rfl⟩

/-! ### a failed persist that gives its range back (seed C27-m1r2; not the tree's behaviour) -/

/-- Reserve runs outside the persist mutex.  Request 0 reserves id 1 and its checkpoint write fails;
meanwhile request 1 has reserved id 2.  Request 0 "returns" its range by subtracting 1 from the
counter — which removes request 1's value: request 1 still answers 2, and request 2 gets 2 again. -/
theorem C27_fails_release_on_error (c : AllocCfg)
    (hc : c = { AllocCfg.good with releasesOnError := true }) :
    ∃ s, Reachable (sys c) s ∧ s.ovf = false ∧ ¬ s.replied.Pairwise Disj := by
  subst hc
  let c0 : AllocCfg := { AllocCfg.good with releasesOnError := true }
  have hinit : Reachable (sys c0) (initSt c0 (fun _ => 1)) :=
    .init ⟨fun _ => 1, by intro k; show 1 < MAXU; decide, rfl⟩
  refine ⟨run (sys c0) (initSt c0 (fun _ => 1))
    [ .spawn 0 .id 1, .run 0, .run 0, .run 0, .run 0,      -- reserve 1, lock, load, load: at the save
      .failSave 0,
      .spawn 1 .id 1, .run 1,                              -- reserve 2 (the mutex is held by request 0)
      .run 0, .run 0, .run 0,                              -- save fails, unlock, error reply: counter 2 → 1
      .run 1, .run 1, .run 1, .run 1, .run 1, .run 1,      -- lock, load, load, save, unlock, reply 2
      .spawn 2 .id 1, .run 2, .run 2, .run 2, .run 2, .run 2, .run 2, .run 2 ],  -- reserve 2 again … reply 2
    run_reachable _ _ hinit _, by decide, ?_⟩
  intro h
  have := hasDup_false_of_pairwise _ h
  revert this
  decide

/-! ### non-vacuity -/

/-- under the good configuration the same schedule (a failed checkpoint write with a concurrent
reservation) hands out 2 and 3: the failed request's value 1 is simply never used -/
example :
    (run (sys AllocCfg.good) (initSt AllocCfg.good (fun _ => 1))
      [ .spawn 0 .id 1, .run 0, .run 0, .run 0, .run 0, .failSave 0, .spawn 1 .id 1, .run 1,
        .run 0, .run 0, .run 0, .run 1, .run 1, .run 1, .run 1, .run 1, .run 1,
        .spawn 2 .id 1, .run 2, .run 2, .run 2, .run 2, .run 2, .run 2, .run 2 ]).replied
      = [⟨.id, 3, 3⟩, ⟨.id, 2, 2⟩] := by
  decide


example : AllocCfg.good.Good := by decide

/-- under the good configuration the same requests are serialized by the mutex; two replies and a
restart are reachable, the checkpoint is 20 and the third request gets 21 -/
example :
    (run (sys AllocCfg.good) (initSt AllocCfg.good (fun _ => 1))
      [ .spawn 0 .id 10, .spawn 1 .id 10,
        .run 0, .run 0, .run 0, .run 0,       -- reserve, lock, load, load
        .run 1, .run 1,                       -- reserve; lock is not enabled (skipped)
        .run 0, .run 0, .run 0,               -- save 20, unlock, reply
        .run 1, .run 1, .run 1, .run 1, .run 1, .run 1,
        .restart, .spawn 2 .id 1, .run 2, .run 2, .run 2, .run 2, .run 2, .run 2, .run 2 ]).replied
      = [⟨.id, 21, 21⟩, ⟨.id, 11, 20⟩, ⟨.id, 1, 10⟩] := by
  decide

end NoKV.Props.C27

/-
C18  A distributed transaction's outcome is unique, final and conflict-free.

Only property theorems, their non-vacuity examples, `…_partial` and `…_fails_asis` theorems
live here; helper lemmas are in `Perc/*.lean`.  Histories: every list of well-formed write-path
requests (`Req.WF`) applied to the empty store — any length, any order, duplicates, requests
arriving late, requests naming keys the transaction never touched.
-/
import NoKVModel.Perc.Resend

namespace NoKV.Props.C18
open NoKV NoKV.Perc

/-- **A rollback is final.**  Once a key carries a rollback record of transaction `w.start`
(after any history `reqs₁`), then after any further history `reqs₂` every `Commit` of that
transaction naming the key fails — whatever its commit ts and its other keys. -/
theorem C18_rollback_final (c : PercCfg) (hc : c.CommitGood) (reqs₁ reqs₂ : List Req)
    (hwf₁ : ∀ r ∈ reqs₁, r.WF) (hwf₂ : ∀ r ∈ reqs₂, r.WF) (k : Bytes) (w : WRec)
    (hw : w ∈ (run c Store.empty reqs₁ k).writes) (hk : w.kind = .rollback)
    (ct : Nat) (keys : List Bytes) (hmem : k ∈ keys) :
    (commit c w.start ct (run c (run c Store.empty reqs₁) reqs₂) keys).2 ≠ none := by
  obtain ⟨hcf, hcr⟩ := hc
  have hinv : Inv (run c Store.empty reqs₁) := Inv.run hcf reqs₁ _ hwf₁ Inv.empty
  have hdead : Dead w.start (run c Store.empty reqs₁ k) := Dead.of_rollback (hinv k) hw hk
  have h2 := run_stable (Dead.stable hcf k w.start) reqs₂ (run c Store.empty reqs₁) hwf₂
    (fun k' => ⟨hinv k', fun h => by subst h; exact hdead⟩)
  exact commit_fails_of_dead c hcr w.start ct k keys _ hmem ((h2 k).2 rfl)

/-- **A commit is final.**  Once a key carries a commit record of a transaction (after any history),
a rollback, a resolve-as-rollback or a check-txn-status of that transaction leaves the key's
lock, write records and data exactly as they are. -/
theorem C18_commit_final (c : PercCfg) (hc : c.ConflictGood) (reqs : List Req) (hwf : ∀ r ∈ reqs, r.WF)
    (k : Bytes) (w : WRec) (hw : w ∈ (run c Store.empty reqs k).writes) (_hk : w.kind ≠ .rollback) :
    (∀ keys, apply c (run c Store.empty reqs) (.rollback w.start keys) k = run c Store.empty reqs k) ∧
    (∀ keys, apply c (run c Store.empty reqs) (.resolve w.start 0 keys) k = run c Store.empty reqs k) ∧
    (∀ q, q.lockTs = w.start → apply c (run c Store.empty reqs) (.check q) k = run c Store.empty reqs k) := by
  have hinv : Inv (run c Store.empty reqs) := Inv.run hc reqs _ hwf Inv.empty
  generalize run c Store.empty reqs = s at *
  have hki := hinv k
  have hrb : rollbackK c w.start (s k) = s k := by
    simp only [rollbackK, hki.byStart_mem hw]
  -- the predicate "key k still holds exactly s k"
  let P : Bytes → KS → Prop := fun key ks => key = k → ks = s k
  have hP0 : ∀ k', P k' (s k') := fun k' h => by subst h; rfl
  refine ⟨?_, ?_, ?_⟩
  · intro keys
    exact rollback_lift (P := P) w.start (fun key ks hp h => by rw [hp h]; exact hrb) keys s hP0 k rfl
  · intro keys
    exact resolve_lift (P := P) w.start 0 (fun _ _ _ hz _ _ _ => absurd rfl hz)
      (fun key ks _ _ hp h => by rw [hp h]; exact hrb) keys s 0 hP0 k rfl
  · intro q hq
    refine check_lift (P := P) q ?_ s hP0 k rfl
    intro ks hp h
    rw [hp h]
    rcases checkTxnStatusK_cases c q (s k) with h1 | h1 | ⟨l, m, hl, hts, _⟩
    · exact h1
    · rw [h1, hq]; exact hrb
    · exact absurd (hts.trans hq).symm (hki.lockFresh l hl w hw)

/-- **No overlap.**  After any history, two different commit records of one key belong to
transactions whose [start ts, commit ts] intervals are disjoint: two transactions writing a
common key with overlapping intervals never both commit. -/
theorem C18_no_overlap (c : PercCfg) (hc : c.ConflictGood) (reqs : List Req) (hwf : ∀ r ∈ reqs, r.WF)
    (k : Bytes) (a b : WRec) (ha : a ∈ (run c Store.empty reqs k).writes) (hb : b ∈ (run c Store.empty reqs k).writes)
    (hka : a.kind ≠ .rollback) (hkb : b.kind ≠ .rollback) (hab : a ≠ b) :
    a.ts < b.start ∨ b.ts < a.start :=
  (Inv.run hc reqs _ hwf Inv.empty k).disjoint a ha b hb hka hkb hab

/-- **Unique outcome per key.**  After any history a key holds at most one write record per
transaction (so never both a commit and a rollback record), and none while the transaction's lock
is still there. -/
theorem C18_unique_outcome (c : PercCfg) (hc : c.ConflictGood) (reqs : List Req) (hwf : ∀ r ∈ reqs, r.WF) (k : Bytes) :
    (∀ a ∈ (run c Store.empty reqs k).writes, ∀ b ∈ (run c Store.empty reqs k).writes, a.start = b.start → a = b) ∧
    (∀ l, (run c Store.empty reqs k).lock = some l → ∀ w ∈ (run c Store.empty reqs k).writes, w.start ≠ l.ts) :=
  ⟨(Inv.run hc reqs _ hwf Inv.empty k).uniq, (Inv.run hc reqs _ hwf Inv.empty k).lockFresh⟩

/-! ### re-sent requests

FULL STATEMENT.  For every history of Percolator requests of any number of transactions and every
request `r` already answered in that history, re-sending `r` — any number of times, at any later
point, interleaved with any other requests — leaves the store unchanged; a transaction's outcome,
once committed or rolled back on a key, is final and unique: never both a commit and a rollback
record for one start ts, no second commit ts.

Uniqueness and finality are `C18_unique_outcome`, `C18_rollback_final`, `C18_commit_final` above and
`C18_outcome_persists` below.  "Leaves the store unchanged" is proved below, one theorem per
request kind, over all histories `pre ++ r :: mid` (any `pre`, any `mid`; "any number of times"
follows because the re-sent request leaves a store that is again of this form):

* `Prewrite`, `Commit`, `BatchRollback` answered with success: the WHOLE store is unchanged;
* `ResolveLock` answered with success: every key it resolved, and every key it does not name, is
  unchanged.  A key it named that carried no lock of the transaction then is not claimed: a
  prewrite of the transaction arriving later puts a lock there, and resolving that lock is what a
  re-sent `ResolveLock` is for;
* `CheckTxnStatus`: unchanged as soon as the transaction's outcome is recorded on the primary;
  before that a re-sent check may legitimately act (the lock may have expired meanwhile).

What is NOT claimed, because it is false of the protocol as implemented, is "the same answer":
a `Prewrite` re-sent after its transaction ended is answered `WriteConflict`, a `Commit` re-sent
while another transaction holds a lock on one of its (committed) keys is answered `Locked`; only
`BatchRollback` is shown to answer success again.  Records of a transaction stay in place as long
as no other transaction reuses their timestamps in the other role (`Req.clobbers`: the hypothesis
of unique timestamps, stated for exactly the records concerned).

The tree as found violates the `Prewrite` part: see `C18_fails_asis_prewrite_resend`. -/

/-- **A recorded outcome persists.**  A write record `(t0, st)` present after any history stays in
place through any further history in which no other transaction uses `t0` as its commit ts or is
rolled back with start ts `t0`. -/
theorem C18_outcome_persists (c : PercCfg) (hc : c.ConflictGood) (pre mid : List Req)
    (hwf : ∀ x ∈ pre ++ mid, x.WF) (k : Bytes) (t0 st : Nat)
    (hrec : HasRecAt t0 st (run c Store.empty pre k)) (hnc : ∀ x ∈ mid, ¬ x.clobbers t0 st) :
    HasRecAt t0 st (run c Store.empty (pre ++ mid) k) := by
  have hinv : Inv (run c Store.empty pre) :=
    Inv.run hc pre _ (fun x hx => hwf x (List.mem_append_left _ hx)) Inv.empty
  rw [run_append]
  exact (hasRec_run c hc t0 st k mid _ (fun x hx => hwf x (List.mem_append_right _ hx)) hnc
    (fun k' => ⟨hinv k', fun h => by subst h; exact hrec⟩) k).2 rfl

/-- **Re-sent Prewrite.**  A `Prewrite` answered without error, re-sent at any later point, changes
nothing: where the transaction still holds its lock the lock (with a min-commit ts pushed
meanwhile) and the data are kept, where the transaction is over the request bounces. -/
theorem C18_resend_prewrite (c : PercCfg) (hc : c.ResendGood) (pre mid : List Req) (h : PwHdr) (muts : List Mut)
    (hwf : ∀ x ∈ pre ++ .prewrite h muts :: mid, x.WF)
    (hok : (Req.prewrite h muts).ok c (run c Store.empty pre)) (k : Bytes) :
    apply c (run c Store.empty (pre ++ .prewrite h muts :: mid)) (.prewrite h muts) k =
      run c Store.empty (pre ++ .prewrite h muts :: mid) k := by
  obtain ⟨hcf, ho, hk⟩ := hc
  have hwfp : ∀ x ∈ pre, x.WF := fun x hx => hwf x (List.mem_append_left _ hx)
  have hwfr : (Req.prewrite h muts).WF := hwf _ (List.mem_append_right _ List.mem_cons_self)
  have hwfm : ∀ x ∈ mid, x.WF := fun x hx => hwf x (List.mem_append_right _ (List.mem_cons_of_mem _ hx))
  have hinv0 : Inv (run c Store.empty pre) := Inv.run hcf pre _ hwfp Inv.empty
  have hinv1 : Inv (apply c (run c Store.empty pre) (.prewrite h muts)) := Inv.apply hcf _ hwfr hinv0
  rw [run_append, run_cons]
  have hinvS : Inv (run c (apply c (run c Store.empty pre) (.prewrite h muts)) mid) := Inv.run hcf mid _ hwfm hinv1
  simp only [apply]
  apply prewrite_noop hcf hk h muts _ hinvS
  intro m hm _
  have hheld : Held h.start ((prewrite c h (run c Store.empty pre) muts).1 m.key) :=
    prewrite_ok_held c hcf h m.key muts _ hinv0 hwfr hok ⟨m, hm, rfl⟩
  exact ((run_stable (HeldOrGone.stable hcf ho m.key h.start) mid _ hwfm
    (fun k' => ⟨hinv1 k', fun hk' => by subst hk'; exact Or.inl hheld⟩)) m.key).2 rfl

/-- **Re-sent Commit.**  A `Commit` answered with success, re-sent at any later point, changes
nothing (whatever its keys have been through since: other transactions' locks, commits, rollbacks). -/
theorem C18_resend_commit (c : PercCfg) (hc : c.ConflictGood) (pre mid : List Req) (st ct : Nat) (keys : List Bytes)
    (hwf : ∀ x ∈ pre ++ .commit st ct keys :: mid, x.WF)
    (hok : (Req.commit st ct keys).ok c (run c Store.empty pre)) (k : Bytes) :
    apply c (run c Store.empty (pre ++ .commit st ct keys :: mid)) (.commit st ct keys) k =
      run c Store.empty (pre ++ .commit st ct keys :: mid) k := by
  have hwfp : ∀ x ∈ pre, x.WF := fun x hx => hwf x (List.mem_append_left _ hx)
  have hwfr : (Req.commit st ct keys).WF := hwf _ (List.mem_append_right _ List.mem_cons_self)
  have hwfm : ∀ x ∈ mid, x.WF := fun x hx => hwf x (List.mem_append_right _ (List.mem_cons_of_mem _ hx))
  have hinv0 : Inv (run c Store.empty pre) := Inv.run hc pre _ hwfp Inv.empty
  have hinv1 : Inv (apply c (run c Store.empty pre) (.commit st ct keys)) := Inv.apply hc _ hwfr hinv0
  rw [run_append, run_cons]
  simp only [apply]
  by_cases hin : k ∈ keys
  · have hg := commit_ok_gone c hc st ct hwfr k keys _ hinv0 hin hok
    have hgS := ((run_stable (Gone.stable hc k st) mid _ hwfm
      (fun k' => ⟨hinv1 k', fun hk' => by subst hk'; exact hg⟩)) k).2 rfl
    exact commit_untouched c st ct k keys _ hgS.noLock
  · exact commit_frame c st ct k keys _ hin

/-- **Re-sent BatchRollback.**  A `BatchRollback` answered with success, re-sent at any later point,
changes nothing and is answered with success again — provided the timestamps of the transaction's
records on these keys are not reused by other transactions in between. -/
theorem C18_resend_rollback (c : PercCfg) (hc : c.ConflictGood) (pre mid : List Req) (st : Nat) (keys : List Bytes)
    (hwf : ∀ x ∈ pre ++ .rollback st keys :: mid, x.WF)
    (hok : (Req.rollback st keys).ok c (run c Store.empty pre))
    (huniq : ∀ k ∈ keys, ∀ w ∈ (apply c (run c Store.empty pre) (.rollback st keys) k).writes, w.start = st →
      ∀ x ∈ mid, ¬ x.clobbers w.ts st) :
    (∀ k, apply c (run c Store.empty (pre ++ .rollback st keys :: mid)) (.rollback st keys) k =
      run c Store.empty (pre ++ .rollback st keys :: mid) k) ∧
    (Req.rollback st keys).ok c (run c Store.empty (pre ++ .rollback st keys :: mid)) := by
  have hwfp : ∀ x ∈ pre, x.WF := fun x hx => hwf x (List.mem_append_left _ hx)
  have hwfm : ∀ x ∈ mid, x.WF := fun x hx => hwf x (List.mem_append_right _ (List.mem_cons_of_mem _ hx))
  have hinv0 : Inv (run c Store.empty pre) := Inv.run hc pre _ hwfp Inv.empty
  have hinv1 : Inv (apply c (run c Store.empty pre) (.rollback st keys)) := Inv.apply hc _ trivial hinv0
  have hinvS : Inv (run c (apply c (run c Store.empty pre) (.rollback st keys)) mid) := Inv.run hc mid _ hwfm hinv1
  rw [run_append, run_cons]
  refine ⟨?_, rollback_answers_ok c st keys _ (rollback_ok_nonempty c st keys _ hok)⟩
  intro k
  simp only [apply]
  by_cases hin : k ∈ keys
  · obtain ⟨w, hw, hs⟩ := rollback_ok_recorded c st k keys _ hinv0 hin hok
    have hrec := ((hasRec_run c hc w.ts st k mid _ hwfm (huniq k hin w hw hs)
      (fun k' => ⟨hinv1 k', fun hk' => by subst hk'; exact ⟨w, hw, rfl, hs⟩⟩)) k).2 rfl
    obtain ⟨w', hw', _, hs'⟩ := hrec
    exact rollback_recorded c st k keys _ (hinvS k) ⟨w', hw', hs'⟩
  · exact rollback_frame c st k keys _ hin

/-- **Re-sent ResolveLock.**  A `ResolveLock` answered with success, re-sent at any later point,
leaves unchanged every key it does not name and every key that carried a lock of the transaction
when it was answered (those it resolved). -/
theorem C18_resend_resolve (c : PercCfg) (hc : c.ConflictGood) (pre mid : List Req) (st ct : Nat) (keys : List Bytes)
    (hwf : ∀ x ∈ pre ++ .resolve st ct keys :: mid, x.WF)
    (hok : (Req.resolve st ct keys).ok c (run c Store.empty pre)) (k : Bytes)
    (hk : k ∉ keys ∨ (k ≠ [] ∧ ¬ NoLockOf st (run c Store.empty pre k))) :
    apply c (run c Store.empty (pre ++ .resolve st ct keys :: mid)) (.resolve st ct keys) k =
      run c Store.empty (pre ++ .resolve st ct keys :: mid) k := by
  have hwfp : ∀ x ∈ pre, x.WF := fun x hx => hwf x (List.mem_append_left _ hx)
  have hwfr : (Req.resolve st ct keys).WF := hwf _ (List.mem_append_right _ List.mem_cons_self)
  have hwfm : ∀ x ∈ mid, x.WF := fun x hx => hwf x (List.mem_append_right _ (List.mem_cons_of_mem _ hx))
  have hinv0 : Inv (run c Store.empty pre) := Inv.run hc pre _ hwfp Inv.empty
  have hinv1 : Inv (apply c (run c Store.empty pre) (.resolve st ct keys)) := Inv.apply hc _ hwfr hinv0
  rw [run_append, run_cons]
  simp only [apply]
  by_cases hin : k ∈ keys
  · rcases hk with hk | ⟨hne, hlk⟩
    · exact absurd hin hk
    · rcases resolve_ok_nolock c hc st ct hwfr k keys _ 0 hinv0 hin hne hok with h | hg
      · exact absurd h hlk
      · have hgS := ((run_stable (Gone.stable hc k st) mid _ hwfm
          (fun k' => ⟨hinv1 k', fun hk' => by subst hk'; exact hg⟩)) k).2 rfl
        exact resolve_untouched c st ct k keys _ 0 hgS.noLock
  · exact resolve_frame c st ct k keys _ 0 hin

/-- **Re-sent CheckTxnStatus.**  Once the primary carries a record of the transaction (commit or
rollback — written by this very check or before it), re-sending the check at any later point
changes nothing, provided that record's timestamp is not reused by another transaction in between. -/
theorem C18_resend_check (c : PercCfg) (hc : c.ConflictGood) (pre mid : List Req) (q : CsReq)
    (hwf : ∀ x ∈ pre ++ .check q :: mid, x.WF) (t0 : Nat)
    (hrec : HasRecAt t0 q.lockTs (apply c (run c Store.empty pre) (.check q) q.primary))
    (huniq : ∀ x ∈ mid, ¬ x.clobbers t0 q.lockTs) (k : Bytes) :
    apply c (run c Store.empty (pre ++ .check q :: mid)) (.check q) k =
      run c Store.empty (pre ++ .check q :: mid) k := by
  have hwfp : ∀ x ∈ pre, x.WF := fun x hx => hwf x (List.mem_append_left _ hx)
  have hwfm : ∀ x ∈ mid, x.WF := fun x hx => hwf x (List.mem_append_right _ (List.mem_cons_of_mem _ hx))
  have hinv0 : Inv (run c Store.empty pre) := Inv.run hc pre _ hwfp Inv.empty
  have hinv1 : Inv (apply c (run c Store.empty pre) (.check q)) := Inv.apply hc _ trivial hinv0
  have hinvS : Inv (run c (apply c (run c Store.empty pre) (.check q)) mid) := Inv.run hc mid _ hwfm hinv1
  rw [run_append, run_cons]
  simp only [apply]
  obtain ⟨w, hw, _, hs⟩ := ((hasRec_run c hc t0 q.lockTs q.primary mid _ hwfm huniq
    (fun k' => ⟨hinv1 k', fun hk' => by subst hk'; exact hrec⟩)) q.primary).2 rfl
  exact check_recorded c q _ (hinvS q.primary) ⟨w, hw, hs⟩ k

/-! ### the tree as found -/

def ka : Bytes := [0x61]

/-- transaction 20 prewrites `a` and is rolled back -/
def wRolledBack : List Req := [.prewrite ⟨20, ka, 100, 0⟩ [⟨.put, ka, [2]⟩], .rollback 20 [ka]]

/-- `Commit` treats any write record of the start ts as "already committed": after the rollback
of transaction 20 on `a` (the rollback record is there), `Commit(20, 21, [a])` reports success. -/
theorem C18_fails_asis_commit_after_rollback (c : PercCfg) (hc : c.AllOps ∧ c.commitChecksRollback = false) :
    (⟨20, 20, .rollback⟩ : WRec) ∈ (run c Store.empty wRolledBack ka).writes ∧
    (commit c 20 21 (run c Store.empty wRolledBack) [ka]).2 = none := by
  obtain ⟨hops, hflag⟩ := hc
  rw [PercCfg.eq_ofFlags c hops, hflag]
  generalize c.getSkipsRollback = b1
  generalize c.getSkipsLock = b2
  generalize c.scanSkipsRollback = b3
  generalize c.scanSkipsLock = b4
  generalize c.scanSeesLockOnlyKeys = b5
  generalize c.rollbackChecksOwner = b6
  generalize c.ttlOverflowGuard = b7
  generalize c.prewriteKeepsOwnLock = b8
  cases b1 <;> cases b2 <;> cases b3 <;> cases b4 <;> cases b5 <;> cases b6 <;> cases b7 <;> cases b8 <;> decide

/-- transaction 20 prewrites `a`; a reader at 33 pushes the lock's min-commit ts to 34; the
prewrite is sent again -/
def wResend : List Req :=
  [.prewrite ⟨20, ka, 100, 0⟩ [⟨.put, ka, [2]⟩], .check ⟨ka, 20, 21, false, 33⟩]

/-- `prewriteMutation` writes the lock again from the request when the key is already locked by
the same transaction: the duplicate of a `Prewrite` answered with success changes the store — the
min-commit ts pushed to 34 is back to 0, so the commit at 25 that the push was meant to exclude
is accepted afterwards. -/
theorem C18_fails_asis_prewrite_resend (c : PercCfg) (hc : c.AllOps ∧ c.prewriteKeepsOwnLock = false) :
    (prewrite c ⟨20, ka, 100, 0⟩ Store.empty [⟨.put, ka, [2]⟩]).2 = [] ∧
    ((run c Store.empty wResend ka).lock.map (·.minCommit)) = some 34 ∧
    ((apply c (run c Store.empty wResend) (.prewrite ⟨20, ka, 100, 0⟩ [⟨.put, ka, [2]⟩]) ka).lock.map (·.minCommit)) = some 0 := by
  obtain ⟨hops, hflag⟩ := hc
  rw [PercCfg.eq_ofFlags c hops, hflag]
  generalize c.getSkipsRollback = b1
  generalize c.getSkipsLock = b2
  generalize c.scanSkipsRollback = b3
  generalize c.scanSkipsLock = b4
  generalize c.scanSeesLockOnlyKeys = b5
  generalize c.commitChecksRollback = b6
  generalize c.rollbackChecksOwner = b7
  generalize c.ttlOverflowGuard = b8
  cases b1 <;> cases b2 <;> cases b3 <;> cases b4 <;> cases b5 <;> cases b6 <;> cases b7 <;> cases b8 <;> decide

/-! ### non-vacuity -/

example : PercCfg.good.ResendGood := by decide

/-- under the good configuration the duplicate prewrite keeps the pushed min-commit ts -/
example : ((apply PercCfg.good (run PercCfg.good Store.empty wResend) (.prewrite ⟨20, ka, 100, 0⟩ [⟨.put, ka, [2]⟩]) ka).lock.map (·.minCommit)) = some 34 := by
  decide

example : PercCfg.good.CommitGood := by decide

/-- under the good configuration the same late commit is refused, and a committed transaction
withstands a late rollback -/
example : (commit PercCfg.good 20 21 (run PercCfg.good Store.empty wRolledBack) [ka]).2 = some (.abort .rolledBack)
    ∧ (run PercCfg.good Store.empty
        [.prewrite ⟨20, ka, 100, 0⟩ [⟨.put, ka, [2]⟩], .commit 20 21 [ka], .rollback 20 [ka]] ka).writes
      = [⟨21, 20, .put⟩] := by
  decide

end NoKV.Props.C18

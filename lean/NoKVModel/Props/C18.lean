/-
C18  A distributed transaction's outcome is unique, final and conflict-free.

Only property theorems, their non-vacuity examples, `…_partial` and `…_fails_asis` theorems
live here; helper lemmas are in `Perc/*.lean`.  Histories: every list of well-formed write-path
requests (`Req.WF`) applied to the empty store — any length, any order, duplicates, requests
arriving late, requests naming keys the transaction never touched.
-/
import NoKVModel.Perc.Outcome

namespace NoKV.Props.C18
open NoKV NoKV.Perc

/-- **A rollback is final.**  Once a key carries a rollback record of transaction `w.start`
(after any history `reqs₁`), then after any further history `reqs₂` every `Commit` of that
transaction naming the key fails — whatever its commit ts and its other keys. -/
theorem C18_rollback_final (c : PercCfg) (hc : c.CommitGood) (reqs₁ reqs₂ : List Req)
    (hwf₁ : ∀ r ∈ reqs₁, r.WF) (hwf₂ : ∀ r ∈ reqs₂, r.WF) (k : Bytes) (w : WRec)
    (hw : w ∈ (run c Store.empty reqs₁ k).writes) (hk : w.kind = .rollback)
    (ct : Nat) (keys : List Bytes) (hmem : k ∈ keys) :
    (commit c w.start ct (run c (run c Store.empty reqs₁) reqs₂) keys).2 ≠ none := by
  obtain ⟨hcf, hcr⟩ := hc
  have hinv : Inv (run c Store.empty reqs₁) := Inv.run hcf reqs₁ _ hwf₁ Inv.empty
  have hdead : Dead w.start (run c Store.empty reqs₁ k) := Dead.of_rollback (hinv k) hw hk
  have h2 := run_stable (Dead.stable hcf k w.start) reqs₂ (run c Store.empty reqs₁) hwf₂
    (fun k' => ⟨hinv k', fun h => by subst h; exact hdead⟩)
  exact commit_fails_of_dead c hcr w.start ct k keys _ hmem ((h2 k).2 rfl)

/-- **A commit is final.**  Once a key carries a commit record of a transaction (after any history),
a rollback, a resolve-as-rollback or a check-txn-status of that transaction leaves the key's
lock, write records and data exactly as they are. -/
theorem C18_commit_final (c : PercCfg) (hc : c.ConflictGood) (reqs : List Req) (hwf : ∀ r ∈ reqs, r.WF)
    (k : Bytes) (w : WRec) (hw : w ∈ (run c Store.empty reqs k).writes) (_hk : w.kind ≠ .rollback) :
    (∀ keys, apply c (run c Store.empty reqs) (.rollback w.start keys) k = run c Store.empty reqs k) ∧
    (∀ keys, apply c (run c Store.empty reqs) (.resolve w.start 0 keys) k = run c Store.empty reqs k) ∧
    (∀ q, q.lockTs = w.start → apply c (run c Store.empty reqs) (.check q) k = run c Store.empty reqs k) := by
  have hinv : Inv (run c Store.empty reqs) := Inv.run hc reqs _ hwf Inv.empty
  generalize run c Store.empty reqs = s at *
  have hki := hinv k
  have hrb : rollbackK c w.start (s k) = s k := by
    simp only [rollbackK, hki.byStart_mem hw]
  -- the predicate "key k still holds exactly s k"
  let P : Bytes → KS → Prop := fun key ks => key = k → ks = s k
  have hP0 : ∀ k', P k' (s k') := fun k' h => by subst h; rfl
  refine ⟨?_, ?_, ?_⟩
  · intro keys
    exact rollback_lift (P := P) w.start (fun key ks hp h => by rw [hp h]; exact hrb) keys s hP0 k rfl
  · intro keys
    exact resolve_lift (P := P) w.start 0 (fun _ _ _ hz _ _ _ => absurd rfl hz)
      (fun key ks _ _ hp h => by rw [hp h]; exact hrb) keys s 0 hP0 k rfl
  · intro q hq
    refine check_lift (P := P) q ?_ s hP0 k rfl
    intro ks hp h
    rw [hp h]
    rcases checkTxnStatusK_cases c q (s k) with h1 | h1 | ⟨l, m, hl, hts, _⟩
    · exact h1
    · rw [h1, hq]; exact hrb
    · exact absurd (hts.trans hq).symm (hki.lockFresh l hl w hw)

/-- **No overlap.**  After any history, two different commit records of one key belong to
transactions whose [start ts, commit ts] intervals are disjoint: two transactions writing a
common key with overlapping intervals never both commit. -/
theorem C18_no_overlap (c : PercCfg) (hc : c.ConflictGood) (reqs : List Req) (hwf : ∀ r ∈ reqs, r.WF)
    (k : Bytes) (a b : WRec) (ha : a ∈ (run c Store.empty reqs k).writes) (hb : b ∈ (run c Store.empty reqs k).writes)
    (hka : a.kind ≠ .rollback) (hkb : b.kind ≠ .rollback) (hab : a ≠ b) :
    a.ts < b.start ∨ b.ts < a.start :=
  (Inv.run hc reqs _ hwf Inv.empty k).disjoint a ha b hb hka hkb hab

/-- **Unique outcome per key.**  After any history a key holds at most one write record per
transaction (so never both a commit and a rollback record), and none while the transaction's lock
is still there. -/
theorem C18_unique_outcome (c : PercCfg) (hc : c.ConflictGood) (reqs : List Req) (hwf : ∀ r ∈ reqs, r.WF) (k : Bytes) :
    (∀ a ∈ (run c Store.empty reqs k).writes, ∀ b ∈ (run c Store.empty reqs k).writes, a.start = b.start → a = b) ∧
    (∀ l, (run c Store.empty reqs k).lock = some l → ∀ w ∈ (run c Store.empty reqs k).writes, w.start ≠ l.ts) :=
  ⟨(Inv.run hc reqs _ hwf Inv.empty k).uniq, (Inv.run hc reqs _ hwf Inv.empty k).lockFresh⟩

/-- **Re-application changes nothing (part).**  After any history: the per-key effect of a
rollback and of a prewrite mutation is idempotent, and so is a whole `Commit` request of one key.

Missing for the full statement: multi-key requests (the loops of `Prewrite`/`Commit`/
`BatchRollback`/`ResolveLock` applied twice) and re-application of a whole prefix of the command
log; the replies are not claimed equal either (a repeated `ResolveLock` reports 0 resolved keys, a
repeated expiry check reports "lock not exist" instead of "TTL expired"). -/
theorem C18_idempotent_partial (c : PercCfg) (hc : c.ConflictGood) (reqs : List Req) (hwf : ∀ r ∈ reqs, r.WF) (k : Bytes) :
    (∀ st, rollbackK c st (rollbackK c st (run c Store.empty reqs k)) = rollbackK c st (run c Store.empty reqs k)) ∧
    (∀ h m, (prewriteK c h m (prewriteK c h m (run c Store.empty reqs k)).1).1 = (prewriteK c h m (run c Store.empty reqs k)).1) ∧
    (∀ st ct, st < ct → k ≠ [] →
      (commit c st ct (commit c st ct (run c Store.empty reqs) [k]).1 [k]).1 = (commit c st ct (run c Store.empty reqs) [k]).1) := by
  have hc' : c.conflictOp = .ge := hc
  have hinv : Inv (run c Store.empty reqs) := Inv.run hc reqs _ hwf Inv.empty
  generalize run c Store.empty reqs = s at *
  have hki := hinv k
  refine ⟨?_, ?_, ?_⟩
  · intro st
    rcases rollbackK_cases c st (s k) with ⟨_, h1⟩ | ⟨_, heq⟩
    · rw [h1, h1]
    · have hi' : KInv (rollbackK c st (s k)) := KInv.rollbackK st (s k) hki
      have hmem : (⟨st, st, .rollback⟩ : WRec) ∈ (rollbackK c st (s k)).writes := by
        rw [heq]; exact mem_ins_self _ _ _
      exact rollbackK_of_mem hi' hmem
  · intro h m
    rcases prewriteK_cases c hc h m (s k) hki.sw with ⟨h1, _⟩ | ⟨K, V, hKV, hlk, hall, heq⟩
    · rw [h1]; exact h1
    · rw [heq]
      simp only
      -- second application on the state just written
      have hlo : lockedByOther (pwState h K V (s k)) h.start = none := by
        simp [lockedByOther, pwState, mkLock]
      have hcf : conflictWith c (pwState h K V (s k)) h.start = none := by
        simp only [conflictWith, pwState, mostRecent]
        cases hws : (s k).writes with
        | nil => rfl
        | cons x xs =>
          have := hall x (by rw [hws]; exact List.mem_cons_self)
          simp only [List.head?_cons, hc', ge_nat]
          simp [this]
      simp only [prewriteK, hlo, hcf]
      rcases hKV with ⟨hop, hK, hV⟩ | ⟨hop, hK, hV⟩ | ⟨hop, hK, hV⟩ <;>
        simp only [prewriteWrite, hop, pwState, hK, hV, insD, ins_idem DRec.ts _ _ hki.sd]
  · intro st ct hlt hk0
    rcases commit_single c st ct s k hk0 hki with h1 | ⟨l, hl, hts, heq, h1⟩
    · rw [h1, h1]
    · rw [h1]
      have hi' : KInv ((s.set k (cmState l ct (s k))) k) := by
        have := KInv.commitK (c := c) k l ct (s k) hl (by omega) hki
        rw [heq] at this
        rw [Store.set_same]; exact this
      rcases commit_single c st ct (s.set k (cmState l ct (s k))) k hk0 hi' with h2 | ⟨l', hl', _, _, _⟩
      · exact h2
      · rw [Store.set_same] at hl'; cases hl'

/-! ### the tree as found -/

def ka : Bytes := [0x61]

/-- transaction 20 prewrites `a` and is rolled back -/
def wRolledBack : List Req := [.prewrite ⟨20, ka, 100, 0⟩ [⟨.put, ka, [2]⟩], .rollback 20 [ka]]

/-- `Commit` treats any write record of the start ts as "already committed": after the rollback
of transaction 20 on `a` (the rollback record is there), `Commit(20, 21, [a])` reports success. -/
theorem C18_fails_asis_commit_after_rollback (c : PercCfg) (hc : c.AllOps ∧ c.commitChecksRollback = false) :
    (⟨20, 20, .rollback⟩ : WRec) ∈ (run c Store.empty wRolledBack ka).writes ∧
    (commit c 20 21 (run c Store.empty wRolledBack) [ka]).2 = none := by
  obtain ⟨hops, hflag⟩ := hc
  rw [PercCfg.eq_ofFlags c hops, hflag]
  generalize c.getSkipsRollback = b1
  generalize c.getSkipsLock = b2
  generalize c.scanSkipsRollback = b3
  generalize c.scanSkipsLock = b4
  generalize c.scanSeesLockOnlyKeys = b5
  generalize c.rollbackChecksOwner = b6
  generalize c.ttlOverflowGuard = b7
  cases b1 <;> cases b2 <;> cases b3 <;> cases b4 <;> cases b5 <;> cases b6 <;> cases b7 <;> decide

/-! ### non-vacuity -/

example : PercCfg.good.CommitGood := by decide

/-- under the good configuration the same late commit is refused, and a committed transaction
withstands a late rollback -/
example : (commit PercCfg.good 20 21 (run PercCfg.good Store.empty wRolledBack) [ka]).2 = some (.abort .rolledBack)
    ∧ (run PercCfg.good Store.empty
        [.prewrite ⟨20, ka, 100, 0⟩ [⟨.put, ka, [2]⟩], .commit 20 21 [ka], .rollback 20 [ka]] ka).writes
      = [⟨21, 20, .put⟩] := by
  decide

end NoKV.Props.C18
